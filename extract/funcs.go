package main

// genFuncs regenerates lean/Stef/Gen/Funcs.lean from go/pkg/types.go.
//
// A deliberately tiny Go-subset translator (go/parser + go/ast only, no go/types):
//
//   func Name(p1, p2 T) R { stmts }      T in {uint64, int64, bool, float64}, R in {int, bool, uint64}
//   stmt  ::= x ":=" expr                                   (top level of the body only, fresh name)
//           | "if" cond "{" stmts "}" [ "else" ( ifstmt | "{" stmts "}" ) ]  |  "return" expr
//   expr  ::= parameter | local | integer constant expression (literals, <<, >>, |, &, ^, unary -)
//           | "math.Float64bits(" expr:float64 ")"          (identity: floats ARE their bit patterns)
//           | f "(" exprs ")"                                (another function of types.go that is
//                                                             itself inside this subset; translated
//                                                             too and emitted before its caller)
//           | expr ("&" | "|" | "^") expr | "^" expr         (uint64 only)
//           | expr (">" | "<" | ">=" | "<=" | "==" | "!=") expr
//           | "!" expr | expr "&&" expr | expr "||" expr | "true" | "false" | "(" expr ")"
//   return: an integer constant (R = int), a bool expression (R = bool), a uint64 expression (R = uint64)
//
// Every path must end in a return. Anything else (loops, arithmetic, variable shifts, conversions,
// other packages' functions, float constants, re-assignment, ...) makes the extractor exit non-zero.
//
// Types are tracked syntactically from the declared parameter/result types:
//   uint64  -> BitVec 64, unsigned order (BitVec.ult / BitVec.ule), &&& ||| ^^^ ~~~
//   int64   -> BitVec 64, signed order   (BitVec.slt / BitVec.sle)
//   bool    -> Bool
//   float64 -> BitVec 64 BIT PATTERN; Go's IEEE-754 operators on floats are Stef.Flt.lt / gt / eq
//              (NaN unordered, -0 = +0), `!=` is `!(Flt.eq ..)`, `<=`/`>=` on floats are refused.
//   an untyped integer constant takes the type of the other operand.

import (
	"fmt"
	"go/ast"
	"go/token"
	"math/big"
	"strings"
)

var funcsWanted = []string{
	"Uint64Compare", "Int64Compare", "BoolCompare", "Float64Compare",
	"Uint64Equal", "Int64Equal", "BoolEqual", "Float64Equal",
}

var leanTy = map[string]string{"uint64": "BitVec 64", "int64": "BitVec 64", "float64": "BitVec 64", "bool": "Bool", "int": "Int"}

type fnSig struct {
	params []string // go types
	ret    string
}

// funcsTr translates functions of one file on demand, callees first.
type funcsTr struct {
	fset    *token.FileSet
	decls   map[string]*ast.FuncDecl
	done    map[string]*fnSig
	active  map[string]bool
	order   []string          // emission order
	text    map[string]string // lean definitions
	usesFlt bool
}

type fnTr struct {
	ft   *funcsTr
	name string
	vars map[string]string // parameter / local name -> go type
	ret  string            // "int" | "bool" | "uint64"
}

// tv is a translated expression: lean term, go type ("const" for an untyped integer constant)
type tv struct {
	s  string
	ty string
	c  *big.Int
}

func (t *fnTr) fail(n ast.Node, f string, a ...any) {
	die("types.go func %s at %s: %s (outside the translated Go subset)", t.name, t.ft.fset.Position(n.Pos()), fmt.Sprintf(f, a...))
}

var two64 = new(big.Int).Lsh(big.NewInt(1), 64)

// as renders v at go type ty (gives a constant its type).
func (t *fnTr) as(n ast.Node, v tv, ty string) string {
	if v.ty == ty {
		return v.s
	}
	if v.ty != "const" {
		t.fail(n, "operand of type %s where %s is needed", v.ty, ty)
	}
	switch ty {
	case "uint64":
		if v.c.Sign() < 0 || v.c.Cmp(two64) >= 0 {
			t.fail(n, "constant %s overflows uint64", v.c)
		}
		return fmt.Sprintf("0x%x#64", v.c)
	case "int64":
		lim := new(big.Int).Lsh(big.NewInt(1), 63)
		if v.c.Cmp(lim) >= 0 || v.c.Cmp(new(big.Int).Neg(lim)) < 0 {
			t.fail(n, "constant %s overflows int64", v.c)
		}
		return fmt.Sprintf("(BitVec.ofInt 64 (%s))", v.c)
	case "int":
		if v.c.Sign() < 0 {
			return fmt.Sprintf("(%s)", v.c)
		}
		return v.c.String()
	}
	t.fail(n, "integer constant used at type %s", ty)
	return ""
}

func (t *fnTr) expr(x ast.Expr) tv {
	switch v := x.(type) {
	case *ast.ParenExpr:
		return t.expr(v.X)
	case *ast.BasicLit:
		if v.Kind != token.INT {
			t.fail(x, "literal %s is not an integer", v.Value)
		}
		c, ok := new(big.Int).SetString(v.Value, 0)
		if !ok {
			t.fail(x, "integer literal %s", v.Value)
		}
		return tv{ty: "const", c: c}
	case *ast.Ident:
		if v.Name == "true" || v.Name == "false" {
			return tv{s: v.Name, ty: "bool"}
		}
		ty, ok := t.vars[v.Name]
		if !ok {
			t.fail(x, "identifier %s is neither a parameter nor a local", v.Name)
		}
		return tv{s: v.Name, ty: ty}
	case *ast.UnaryExpr:
		a := t.expr(v.X)
		switch {
		case v.Op == token.NOT && a.ty == "bool":
			return tv{s: "(!" + a.s + ")", ty: "bool"}
		case v.Op == token.XOR && a.ty == "uint64":
			return tv{s: "(~~~" + a.s + ")", ty: "uint64"}
		case v.Op == token.SUB && a.ty == "const":
			return tv{ty: "const", c: new(big.Int).Neg(a.c)}
		}
		t.fail(x, "unary operator %s on %s", v.Op, a.ty)
	case *ast.BinaryExpr:
		a, b := t.expr(v.X), t.expr(v.Y)
		switch v.Op {
		case token.LAND, token.LOR:
			if a.ty != "bool" || b.ty != "bool" {
				t.fail(x, "operator %s on %s, %s", v.Op, a.ty, b.ty)
			}
			op := " && "
			if v.Op == token.LOR {
				op = " || "
			}
			return tv{s: "(" + a.s + op + b.s + ")", ty: "bool"}
		case token.SHL, token.SHR:
			if a.ty != "const" || b.ty != "const" || !b.c.IsUint64() || b.c.Uint64() > 1024 {
				t.fail(x, "shift that is not a constant expression")
			}
			if v.Op == token.SHL {
				return tv{ty: "const", c: new(big.Int).Lsh(a.c, uint(b.c.Uint64()))}
			}
			return tv{ty: "const", c: new(big.Int).Rsh(a.c, uint(b.c.Uint64()))}
		case token.AND, token.OR, token.XOR:
			if a.ty == "const" && b.ty == "const" {
				r := new(big.Int)
				switch v.Op {
				case token.AND:
					r.And(a.c, b.c)
				case token.OR:
					r.Or(a.c, b.c)
				default:
					r.Xor(a.c, b.c)
				}
				return tv{ty: "const", c: r}
			}
			if a.ty != "uint64" && b.ty != "uint64" {
				t.fail(x, "operator %s on %s, %s (uint64 only)", v.Op, a.ty, b.ty)
			}
			op := map[token.Token]string{token.AND: "&&&", token.OR: "|||", token.XOR: "^^^"}[v.Op]
			return tv{s: fmt.Sprintf("(%s %s %s)", t.as(v.X, a, "uint64"), op, t.as(v.Y, b, "uint64")), ty: "uint64"}
		case token.GTR, token.LSS, token.GEQ, token.LEQ, token.EQL, token.NEQ:
			ty := a.ty
			if ty == "const" {
				ty = b.ty
			}
			if ty == "const" {
				t.fail(x, "comparison of two constants")
			}
			l, r := t.as(v.X, a, ty), t.as(v.Y, b, ty)
			var s string
			switch ty {
			case "uint64", "int64":
				lt, le := "BitVec.ult", "BitVec.ule"
				if ty == "int64" {
					lt, le = "BitVec.slt", "BitVec.sle"
				}
				switch v.Op {
				case token.GTR:
					s = fmt.Sprintf("(%s %s %s)", lt, r, l)
				case token.LSS:
					s = fmt.Sprintf("(%s %s %s)", lt, l, r)
				case token.GEQ:
					s = fmt.Sprintf("(%s %s %s)", le, r, l)
				case token.LEQ:
					s = fmt.Sprintf("(%s %s %s)", le, l, r)
				case token.EQL:
					s = fmt.Sprintf("(%s == %s)", l, r)
				case token.NEQ:
					s = fmt.Sprintf("(%s != %s)", l, r)
				}
			case "bool":
				switch v.Op {
				case token.EQL:
					s = fmt.Sprintf("(%s == %s)", l, r)
				case token.NEQ:
					s = fmt.Sprintf("(%s != %s)", l, r)
				}
			case "float64":
				t.ft.usesFlt = true
				switch v.Op {
				case token.GTR:
					s = fmt.Sprintf("(Stef.Flt.gt %s %s)", l, r)
				case token.LSS:
					s = fmt.Sprintf("(Stef.Flt.lt %s %s)", l, r)
				case token.EQL:
					s = fmt.Sprintf("(Stef.Flt.eq %s %s)", l, r)
				case token.NEQ:
					s = fmt.Sprintf("(!(Stef.Flt.eq %s %s))", l, r)
				}
			}
			if s == "" {
				t.fail(x, "operator %s on %s", v.Op, ty)
			}
			return tv{s: s, ty: "bool"}
		}
		t.fail(x, "binary operator %s", v.Op)
	case *ast.CallExpr:
		if v.Ellipsis.IsValid() {
			t.fail(x, "variadic call")
		}
		if sel, ok := v.Fun.(*ast.SelectorExpr); ok {
			if pk, ok := sel.X.(*ast.Ident); ok && pk.Name == "math" && sel.Sel.Name == "Float64bits" && len(v.Args) == 1 {
				if _, shadow := t.vars["math"]; shadow {
					t.fail(x, "identifier math is shadowed")
				}
				a := t.expr(v.Args[0])
				if a.ty != "float64" {
					t.fail(x, "math.Float64bits of %s", a.ty)
				}
				return tv{s: a.s, ty: "uint64"} // a float64 is modelled as its bit pattern
			}
			t.fail(x, "call of %s", exprString(v.Fun))
		}
		id, ok := v.Fun.(*ast.Ident)
		if !ok {
			t.fail(x, "call of %T", v.Fun)
		}
		if _, shadow := t.vars[id.Name]; shadow {
			t.fail(x, "call of a variable %s", id.Name)
		}
		sig := t.ft.translate(id.Name, x)
		if len(sig.params) != len(v.Args) {
			t.fail(x, "call of %s with %d arguments", id.Name, len(v.Args))
		}
		var as []string
		for i, a := range v.Args {
			as = append(as, t.as(a, t.expr(a), sig.params[i]))
		}
		return tv{s: fmt.Sprintf("(%s %s)", leanName(id.Name), strings.Join(as, " ")), ty: sig.ret}
	}
	t.fail(x, "expression %T", x)
	return tv{}
}

func (t *fnTr) cond(x ast.Expr) string {
	v := t.expr(x)
	if v.ty != "bool" {
		t.fail(x, "condition of type %s", v.ty)
	}
	return v.s
}

func (t *fnTr) retExpr(x ast.Expr) string {
	v := t.expr(x)
	if t.ret == "int" && v.ty != "const" {
		t.fail(x, "return expression of an int function is not an integer constant")
	}
	return t.as(x, v, t.ret)
}

// stmts translates a statement list followed by `rest` (the translation of what follows the
// enclosing statement, "" if nothing follows). Every path must end in a return.
func (t *fnTr) stmts(list []ast.Stmt, rest string, ind string, top bool) string {
	if len(list) == 0 {
		if rest == "" {
			die("types.go func %s: a path does not end in a return (outside the translated Go subset)", t.name)
		}
		return rest
	}
	s := list[0]
	switch v := s.(type) {
	case *ast.ReturnStmt:
		if len(v.Results) != 1 {
			t.fail(s, "return with %d results", len(v.Results))
		}
		if len(list) > 1 {
			t.fail(list[1], "statement after return")
		}
		return t.retExpr(v.Results[0])
	case *ast.AssignStmt:
		if !top {
			t.fail(s, "local definition inside a nested block")
		}
		if v.Tok != token.DEFINE || len(v.Lhs) != 1 || len(v.Rhs) != 1 {
			t.fail(s, "assignment that is not `x := expr`")
		}
		id, ok := v.Lhs[0].(*ast.Ident)
		if !ok || id.Name == "_" {
			t.fail(s, "assignment target")
		}
		if _, dup := t.vars[id.Name]; dup {
			t.fail(s, "%s is defined twice", id.Name)
		}
		if _, isFn := t.ft.decls[id.Name]; isFn || id.Name == "math" || id.Name == "true" || id.Name == "false" {
			t.fail(s, "local %s shadows a function or package", id.Name)
		}
		e := t.expr(v.Rhs[0])
		if e.ty == "const" {
			t.fail(s, "local initialised with an untyped constant")
		}
		t.vars[id.Name] = e.ty
		after := t.stmts(list[1:], rest, ind, top)
		return fmt.Sprintf("let %s : %s := %s\n%s%s", id.Name, leanTy[e.ty], e.s, ind, after)
	case *ast.IfStmt:
		if v.Init != nil {
			t.fail(s, "if with init statement")
		}
		after := ""
		if len(list) > 1 || rest != "" {
			after = t.stmts(list[1:], rest, ind+"  ", top)
			top = false
		}
		c := t.cond(v.Cond)
		then := t.stmts(v.Body.List, after, ind+"  ", false)
		var els string
		switch e := v.Else.(type) {
		case nil:
			if after == "" {
				t.fail(s, "if without else at the end of a block")
			}
			els = after
		case *ast.BlockStmt:
			els = t.stmts(e.List, after, ind+"  ", false)
		case *ast.IfStmt:
			els = t.stmts([]ast.Stmt{e}, after, ind+"  ", false)
		default:
			t.fail(s, "else %T", v.Else)
		}
		return fmt.Sprintf("if %s then %s\n%selse %s", c, then, ind, els)
	}
	t.fail(s, "statement %T", s)
	return ""
}

func leanName(goName string) string { return strings.ToLower(goName[:1]) + goName[1:] }

// translate translates function `name` (and, first, the functions it calls) once.
func (ft *funcsTr) translate(name string, at ast.Node) *fnSig {
	if sig, ok := ft.done[name]; ok {
		return sig
	}
	where := "types.go"
	if at != nil {
		where = ft.fset.Position(at.Pos()).String()
	}
	if ft.active[name] {
		die("%s: function %s is recursive (outside the translated Go subset)", where, name)
	}
	fd, ok := ft.decls[name]
	if !ok {
		die("%s: function %s not found in types.go (outside the translated Go subset)", where, name)
	}
	if fd.Body == nil {
		die("types.go: function %s has no body", name)
	}
	if fd.Type.TypeParams != nil {
		die("types.go: function %s is generic (outside the translated Go subset)", name)
	}
	ft.active[name] = true
	t := &fnTr{ft: ft, name: name, vars: map[string]string{}}
	sig := &fnSig{}
	var ps []string
	for _, fl := range fd.Type.Params.List {
		id, ok := fl.Type.(*ast.Ident)
		if !ok || id.Name == "int" || leanTy[id.Name] == "" {
			t.fail(fl, "parameter type is not uint64/int64/bool/float64")
		}
		if len(fl.Names) == 0 {
			t.fail(fl, "unnamed parameter")
		}
		for _, n := range fl.Names {
			if n.Name == "_" {
				t.fail(fl, "blank parameter")
			}
			t.vars[n.Name] = id.Name
			sig.params = append(sig.params, id.Name)
			ps = append(ps, fmt.Sprintf("(%s : %s)", n.Name, leanTy[id.Name]))
		}
	}
	if fd.Type.Results == nil || len(fd.Type.Results.List) != 1 || len(fd.Type.Results.List[0].Names) != 0 {
		die("types.go: function %s must have exactly one unnamed result", name)
	}
	rid, ok := fd.Type.Results.List[0].Type.(*ast.Ident)
	if !ok || (rid.Name != "int" && rid.Name != "bool" && rid.Name != "uint64") {
		die("types.go: function %s: result type must be int, bool or uint64", name)
	}
	t.ret, sig.ret = rid.Name, rid.Name
	body := t.stmts(fd.Body.List, "", "  ", true)
	var sb strings.Builder
	fmt.Fprintf(&sb, "/-- go/pkg/types.go `%s(%s) %s` -/\n", name, strings.Join(sig.params, ", "), t.ret)
	fmt.Fprintf(&sb, "def %s %s : %s :=\n  %s\n\n", leanName(name), strings.Join(ps, " "), leanTy[t.ret], body)
	ft.text[name] = sb.String()
	ft.order = append(ft.order, name)
	ft.done[name] = sig
	delete(ft.active, name)
	return sig
}

func genFuncs() {
	fset, f := parseFile("go/pkg/types.go")
	decls := map[string]*ast.FuncDecl{}
	for _, d := range f.Decls {
		if fd, ok := d.(*ast.FuncDecl); ok && fd.Recv == nil {
			decls[fd.Name.Name] = fd
		}
	}
	ft := &funcsTr{fset: fset, decls: decls, done: map[string]*fnSig{}, active: map[string]bool{}, text: map[string]string{}}
	for _, name := range funcsWanted {
		ft.translate(name, nil)
	}
	var sb strings.Builder
	sb.WriteString("/- GENERATED by /verif/extract (funcs.go) from go/pkg/types.go. Do not edit.\n")
	sb.WriteString("   uint64 -> BitVec 64 unsigned, int64 -> BitVec 64 signed, bool -> Bool,\n")
	sb.WriteString("   float64 -> BitVec 64 bit pattern (math.Float64bits is the identity); Go's float operators\n")
	sb.WriteString("   <, >, == would go through Stef.Flt (IEEE-754). -/\n")
	if ft.usesFlt {
		sb.WriteString("import Stef.Flt\n")
	}
	sb.WriteString("\nnamespace Stef.Gen\n\n")
	fmt.Fprintf(&sb, "/-- whether a translated function uses Go's IEEE-754 float operators (Stef.Flt) -/\ndef usesFloatOperators : Bool := %v\n\n", ft.usesFlt)
	for _, name := range ft.order {
		sb.WriteString(ft.text[name])
	}
	// The string comparators are modelled by hand (Stef/Cmp.lean: lexicographic byte order, which is
	// what strings.Compare computes). The tie is that they still are exactly that one call.
	wantCall := map[string]string{
		"StringCompare": "strings.Compare(left,right)",
		"BytesCompare":  "strings.Compare(string(left),string(right))",
		"StringEqual":   "left==right",
		"BytesEqual":    "left==right",
	}
	for _, name := range []string{"StringCompare", "BytesCompare", "StringEqual", "BytesEqual"} {
		fd, ok := decls[name]
		if !ok || fd.Body == nil || len(fd.Body.List) != 1 {
			die("types.go: %s is not a single return statement (hand model Stef.strCompare no longer tied)", name)
		}
		rs, ok := fd.Body.List[0].(*ast.ReturnStmt)
		if !ok || len(rs.Results) != 1 {
			die("types.go: %s is not a single return statement (hand model Stef.strCompare no longer tied)", name)
		}
		got := exprString(rs.Results[0])
		if got != wantCall[name] {
			die("types.go: %s returns `%s`, expected `%s` (hand model Stef.strCompare no longer tied)", name, got, wantCall[name])
		}
		var pn []string
		for _, fl := range fd.Type.Params.List {
			for _, n := range fl.Names {
				pn = append(pn, n.Name)
			}
		}
		if strings.Join(pn, ",") != "left,right" {
			die("types.go: %s parameters are %v, expected left,right", name, pn)
		}
		fmt.Fprintf(&sb, "-- go/pkg/types.go `%s` = `%s` (checked by the extractor; modelled by hand in Stef/Cmp.lean)\n", name, got)
	}
	sb.WriteString("\nend Stef.Gen\n")
	writeOut("Funcs.lean", sb.String())
}

// exprString prints the small expressions checked above without spaces.
func exprString(x ast.Expr) string {
	switch v := x.(type) {
	case *ast.Ident:
		return v.Name
	case *ast.SelectorExpr:
		return exprString(v.X) + "." + v.Sel.Name
	case *ast.ParenExpr:
		return "(" + exprString(v.X) + ")"
	case *ast.BinaryExpr:
		return exprString(v.X) + v.Op.String() + exprString(v.Y)
	case *ast.CallExpr:
		var as []string
		for _, a := range v.Args {
			as = append(as, exprString(a))
		}
		return exprString(v.Fun) + "(" + strings.Join(as, ",") + ")"
	}
	return fmt.Sprintf("<%T>", x)
}

