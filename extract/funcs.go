package main

// genFuncs regenerates lean/Stef/Gen/Funcs.lean from go/pkg/types.go.
//
// A deliberately tiny Go-subset translator (go/parser + go/ast only, no go/types):
//
//   func Name(p1, p2 T) R { stmts }      T in {uint64, int64, bool, float64}, R in {int, bool}
//   stmt  ::= "if" cond "{" stmts "}" [ "else" ( ifstmt | "{" stmts "}" ) ]  |  "return" expr
//   cond  ::= param (">" | "<" | ">=" | "<=" | "==" | "!=") param | param(bool) | "!" cond
//           | cond "&&" cond | cond "||" cond | "(" cond ")" | "true" | "false"
//   expr  ::= integer literal | "-" integer literal            (R = int)
//           | cond                                            (R = bool)
//
// Every path must end in a return. Anything else (calls, assignments, loops, arithmetic,
// other types, a parameter compared with a literal, ...) makes the extractor exit non-zero.
//
// Typing of the comparison operators is decided by the declared parameter type:
//   uint64  -> BitVec 64, unsigned order (BitVec.ult / BitVec.ule)
//   int64   -> BitVec 64, signed order   (BitVec.slt / BitVec.sle)
//   bool    -> Bool
//   float64 -> BitVec 64 BIT PATTERN, compared through Stef.Flt.lt / gt / eq (IEEE-754:
//              NaN unordered, -0 = +0). `!=` is `!(Flt.eq ..)`. `<=`/`>=` on floats are refused.

import (
	"fmt"
	"go/ast"
	"go/token"
	"strings"
)

var funcsWanted = []string{
	"Uint64Compare", "Int64Compare", "BoolCompare", "Float64Compare",
	"Uint64Equal", "Int64Equal", "BoolEqual", "Float64Equal",
}

type fnTr struct {
	name   string
	fset   *token.FileSet
	params map[string]string // name -> go type
	ret    string            // "int" | "bool"
}

func (t *fnTr) fail(n ast.Node, f string, a ...any) {
	die("types.go func %s at %s: %s (outside the translated Go subset)", t.name, t.fset.Position(n.Pos()), fmt.Sprintf(f, a...))
}

func (t *fnTr) paramOf(x ast.Expr) (string, string) {
	for {
		p, ok := x.(*ast.ParenExpr)
		if !ok {
			break
		}
		x = p.X
	}
	id, ok := x.(*ast.Ident)
	if !ok {
		t.fail(x, "operand %T is not a parameter", x)
	}
	ty, ok := t.params[id.Name]
	if !ok {
		t.fail(x, "identifier %s is not a parameter", id.Name)
	}
	return id.Name, ty
}

// cond translates a boolean Go expression into a Lean `Bool` term.
func (t *fnTr) cond(x ast.Expr) string {
	switch v := x.(type) {
	case *ast.ParenExpr:
		return t.cond(v.X)
	case *ast.Ident:
		if v.Name == "true" || v.Name == "false" {
			return v.Name
		}
		n, ty := t.paramOf(v)
		if ty != "bool" {
			t.fail(x, "parameter %s of type %s used as a condition", n, ty)
		}
		return n
	case *ast.UnaryExpr:
		if v.Op == token.NOT {
			return "(!" + t.cond(v.X) + ")"
		}
		t.fail(x, "unary operator %s", v.Op)
	case *ast.BinaryExpr:
		if v.Op == token.LAND {
			return "(" + t.cond(v.X) + " && " + t.cond(v.Y) + ")"
		}
		if v.Op == token.LOR {
			return "(" + t.cond(v.X) + " || " + t.cond(v.Y) + ")"
		}
		l, lt := t.paramOf(v.X)
		r, rt := t.paramOf(v.Y)
		if lt != rt {
			t.fail(x, "operands of different types %s, %s", lt, rt)
		}
		switch lt {
		case "uint64":
			switch v.Op {
			case token.GTR:
				return fmt.Sprintf("(BitVec.ult %s %s)", r, l)
			case token.LSS:
				return fmt.Sprintf("(BitVec.ult %s %s)", l, r)
			case token.GEQ:
				return fmt.Sprintf("(BitVec.ule %s %s)", r, l)
			case token.LEQ:
				return fmt.Sprintf("(BitVec.ule %s %s)", l, r)
			case token.EQL:
				return fmt.Sprintf("(%s == %s)", l, r)
			case token.NEQ:
				return fmt.Sprintf("(%s != %s)", l, r)
			}
		case "int64":
			switch v.Op {
			case token.GTR:
				return fmt.Sprintf("(BitVec.slt %s %s)", r, l)
			case token.LSS:
				return fmt.Sprintf("(BitVec.slt %s %s)", l, r)
			case token.GEQ:
				return fmt.Sprintf("(BitVec.sle %s %s)", r, l)
			case token.LEQ:
				return fmt.Sprintf("(BitVec.sle %s %s)", l, r)
			case token.EQL:
				return fmt.Sprintf("(%s == %s)", l, r)
			case token.NEQ:
				return fmt.Sprintf("(%s != %s)", l, r)
			}
		case "bool":
			switch v.Op {
			case token.EQL:
				return fmt.Sprintf("(%s == %s)", l, r)
			case token.NEQ:
				return fmt.Sprintf("(%s != %s)", l, r)
			}
		case "float64":
			switch v.Op {
			case token.GTR:
				return fmt.Sprintf("(Stef.Flt.gt %s %s)", l, r)
			case token.LSS:
				return fmt.Sprintf("(Stef.Flt.lt %s %s)", l, r)
			case token.EQL:
				return fmt.Sprintf("(Stef.Flt.eq %s %s)", l, r)
			case token.NEQ:
				return fmt.Sprintf("(!(Stef.Flt.eq %s %s))", l, r)
			}
		}
		t.fail(x, "operator %s on %s", v.Op, lt)
	}
	t.fail(x, "expression %T", x)
	return ""
}

func (t *fnTr) retExpr(x ast.Expr) string {
	if t.ret == "bool" {
		return t.cond(x)
	}
	switch v := x.(type) {
	case *ast.ParenExpr:
		return t.retExpr(v.X)
	case *ast.BasicLit:
		if v.Kind == token.INT {
			for _, c := range v.Value {
				if c < '0' || c > '9' {
					t.fail(x, "integer literal %s", v.Value)
				}
			}
			return v.Value
		}
	case *ast.UnaryExpr:
		if v.Op == token.SUB {
			if lit, ok := v.X.(*ast.BasicLit); ok && lit.Kind == token.INT {
				return "(-" + t.retExpr(lit) + ")"
			}
		}
	}
	t.fail(x, "return expression %T is not an integer constant", x)
	return ""
}

// stmts translates a statement list followed by `rest` (the translation of what follows the
// enclosing statement, "" if nothing follows). Every path must end in a return.
func (t *fnTr) stmts(list []ast.Stmt, rest string, ind string) string {
	if len(list) == 0 {
		if rest == "" {
			die("types.go func %s: a path does not end in a return (outside the translated Go subset)", t.name)
		}
		return rest
	}
	s := list[0]
	switch v := s.(type) {
	case *ast.ReturnStmt:
		if len(v.Results) != 1 {
			t.fail(s, "return with %d results", len(v.Results))
		}
		if len(list) > 1 {
			t.fail(list[1], "statement after return")
		}
		return t.retExpr(v.Results[0])
	case *ast.IfStmt:
		if v.Init != nil {
			t.fail(s, "if with init statement")
		}
		after := ""
		if len(list) > 1 || rest != "" {
			after = t.stmts(list[1:], rest, ind+"  ")
		}
		c := t.cond(v.Cond)
		then := t.stmts(v.Body.List, after, ind+"  ")
		var els string
		switch e := v.Else.(type) {
		case nil:
			if after == "" {
				t.fail(s, "if without else at the end of a block")
			}
			els = after
		case *ast.BlockStmt:
			els = t.stmts(e.List, after, ind+"  ")
		case *ast.IfStmt:
			els = t.stmts([]ast.Stmt{e}, after, ind+"  ")
		default:
			t.fail(s, "else %T", v.Else)
		}
		return fmt.Sprintf("if %s then %s\n%selse %s", c, then, ind, els)
	}
	t.fail(s, "statement %T", s)
	return ""
}

func leanName(goName string) string { return strings.ToLower(goName[:1]) + goName[1:] }

func genFuncs() {
	fset, f := parseFile("go/pkg/types.go")
	decls := map[string]*ast.FuncDecl{}
	for _, d := range f.Decls {
		if fd, ok := d.(*ast.FuncDecl); ok && fd.Recv == nil {
			decls[fd.Name.Name] = fd
		}
	}
	var sb strings.Builder
	sb.WriteString("/- GENERATED by /verif/extract (funcs.go) from go/pkg/types.go. Do not edit.\n")
	sb.WriteString("   uint64 -> BitVec 64 unsigned, int64 -> BitVec 64 signed, bool -> Bool,\n")
	sb.WriteString("   float64 -> BitVec 64 bit pattern compared through Stef.Flt (IEEE-754). -/\n")
	sb.WriteString("import Stef.Flt\n\nnamespace Stef.Gen\n\n")
	leanTy := map[string]string{"uint64": "BitVec 64", "int64": "BitVec 64", "float64": "BitVec 64", "bool": "Bool"}
	for _, name := range funcsWanted {
		fd, ok := decls[name]
		if !ok {
			die("types.go: function %s not found", name)
		}
		if fd.Body == nil {
			die("types.go: function %s has no body", name)
		}
		if fd.Type.TypeParams != nil {
			die("types.go: function %s is generic (outside the translated Go subset)", name)
		}
		t := &fnTr{name: name, fset: fset, params: map[string]string{}}
		var ps []string
		for _, fl := range fd.Type.Params.List {
			id, ok := fl.Type.(*ast.Ident)
			if !ok || leanTy[id.Name] == "" {
				t.fail(fl, "parameter type is not uint64/int64/bool/float64")
			}
			if len(fl.Names) == 0 {
				t.fail(fl, "unnamed parameter")
			}
			for _, n := range fl.Names {
				if n.Name == "_" {
					t.fail(fl, "blank parameter")
				}
				t.params[n.Name] = id.Name
				ps = append(ps, fmt.Sprintf("(%s : %s)", n.Name, leanTy[id.Name]))
			}
		}
		if fd.Type.Results == nil || len(fd.Type.Results.List) != 1 || len(fd.Type.Results.List[0].Names) != 0 {
			die("types.go: function %s must have exactly one unnamed result", name)
		}
		rid, ok := fd.Type.Results.List[0].Type.(*ast.Ident)
		if !ok || (rid.Name != "int" && rid.Name != "bool") {
			die("types.go: function %s: result type must be int or bool", name)
		}
		t.ret = rid.Name
		rty := "Int"
		if t.ret == "bool" {
			rty = "Bool"
		}
		var ptys []string
		for _, fl := range fd.Type.Params.List {
			for range fl.Names {
				ptys = append(ptys, fl.Type.(*ast.Ident).Name)
			}
		}
		body := t.stmts(fd.Body.List, "", "  ")
		fmt.Fprintf(&sb, "/-- go/pkg/types.go `%s(%s) %s` -/\n", name, strings.Join(ptys, ", "), t.ret)
		fmt.Fprintf(&sb, "def %s %s : %s :=\n  %s\n\n", leanName(name), strings.Join(ps, " "), rty, body)
	}
	// The string comparators are modelled by hand (Stef/Cmp.lean: lexicographic byte order, which is
	// what strings.Compare computes). The tie is that they still are exactly that one call.
	wantCall := map[string]string{
		"StringCompare": "strings.Compare(left,right)",
		"BytesCompare":  "strings.Compare(string(left),string(right))",
		"StringEqual":   "left==right",
		"BytesEqual":    "left==right",
	}
	for _, name := range []string{"StringCompare", "BytesCompare", "StringEqual", "BytesEqual"} {
		fd, ok := decls[name]
		if !ok || fd.Body == nil || len(fd.Body.List) != 1 {
			die("types.go: %s is not a single return statement (hand model Stef.strCompare no longer tied)", name)
		}
		rs, ok := fd.Body.List[0].(*ast.ReturnStmt)
		if !ok || len(rs.Results) != 1 {
			die("types.go: %s is not a single return statement (hand model Stef.strCompare no longer tied)", name)
		}
		got := exprString(rs.Results[0])
		if got != wantCall[name] {
			die("types.go: %s returns `%s`, expected `%s` (hand model Stef.strCompare no longer tied)", name, got, wantCall[name])
		}
		var pn []string
		for _, fl := range fd.Type.Params.List {
			for _, n := range fl.Names {
				pn = append(pn, n.Name)
			}
		}
		if strings.Join(pn, ",") != "left,right" {
			die("types.go: %s parameters are %v, expected left,right", name, pn)
		}
		fmt.Fprintf(&sb, "-- go/pkg/types.go `%s` = `%s` (checked by the extractor; modelled by hand in Stef/Cmp.lean)\n", name, got)
	}
	sb.WriteString("\nend Stef.Gen\n")
	writeOut("Funcs.lean", sb.String())
}

// exprString prints the small expressions checked above without spaces.
func exprString(x ast.Expr) string {
	switch v := x.(type) {
	case *ast.Ident:
		return v.Name
	case *ast.SelectorExpr:
		return exprString(v.X) + "." + v.Sel.Name
	case *ast.ParenExpr:
		return "(" + exprString(v.X) + ")"
	case *ast.BinaryExpr:
		return exprString(v.X) + v.Op.String() + exprString(v.Y)
	case *ast.CallExpr:
		var as []string
		for _, a := range v.Args {
			as = append(as, exprString(a))
		}
		return exprString(v.Fun) + "(" + strings.Join(as, ",") + ")"
	}
	return fmt.Sprintf("<%T>", x)
}

