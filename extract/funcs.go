package main

func genFuncs() {}
func genFacts() {}
