package main

func genFuncs() {}
