package main

// genSchemaPost regenerates lean/Stef/Gen/SchemaPost.lean: the schema post-processing `idl.Parse` runs after the
// grammar phase, translated statement by statement from the Go AST (go/parser + go/ast only) into `Except PErr` do
// blocks over the vocabulary of lean/Stef/SchemaPostSem.lean (which extends lean/Stef/PrintFlowSem.lean):
//
//   resolveFieldType, resolveRefs (<- Schema.ResolveRefs)
//   findLast, markRecursive, computeRecursiveStruct / Multimap / Type, computeRecursive
//   markReachableFromStruct / Multimap / FieldType, pruneUnused (<- Schema.PruneUnused)         go/pkg/schema/schema.go
//
// The order of the statements, the conditions, which field is read or assigned, every call and every string literal
// come from the source. What a Go field, a library call, a map, a pointer MEANS is fixed in SchemaPostSem.lean and in
// the tables below (spFields, spLeanType, spSpecs); the declared Go type of every field used is compared with the
// table. The three `SetRecursive` methods and the interface `recursable` are NOT translated (their meaning is
// `Recursable.setRecursive` of SchemaPostSem.lean): their source text is compared with spSetRecursiveText.
//
// Translated subset (everything else makes this generator fail with a message that names the construct):
//
//   stmt ::= var x T | x := e | x = e | x++ (int) | lv = e | lv = append(lv, e) | lv = lv[:len(lv)-1]
//          | m[e] = true | delete(m, e)                                  (map[string]bool, map[string]*T)
//          | X.StructDef, ok = d.Structs[e] | X.MultimapDef, ok = d.Multimaps[e] | _, ok := m[e]
//          | X.Primitive = &PrimitiveType{Type: C}
//          | if [err := call; err != nil { return err }] | if cond {..} [else ..] | switch { case cond: .. default: .. }
//          | for _, x := range slice {..} | for i := range slice {..} | for [k], v := range map {..} (whitelisted functions)
//          | for i := e; i < len(x); i++ {..} | for i := e; i >= 0; i-- {..}     (i not assigned in the body)
//          | f(args) / x.method(args) for a translated function | x.SetRecursive() on a `recursable`
//          | sort.Slice(lv, func(i, j int) bool { return lv[i].Name < lv[j].Name })
//          | continue | return [e[, nil]] | return nil | return errors.New(e) | return call | panic("literal")
//   lv   ::= local | lv.f | lv[i]   (written back up to the local, and from a local that is a pointer INTO another object
//            - `field := v.Fields[i]`, the value variable of a range over a map - on to that object)
//   e    ::= "literal" | 123 | -e | local | e.f | &e | e + e | e - e | len(e) | e[i] | m[e] | T{f: e, ..} | make(T[, 0])
//          | f(e..) for a translated function without written-through parameters
//   cond ::= e == e | e != e | e < e | .. (strings: == != only) | p != nil | p == nil | bool | m[e] (map[string]bool) | !cond
//
// No goto/break/defer/go/closures (except the one of sort.Slice)/labels/switch with a tag; no shadowing.

import (
	"fmt"
	"go/ast"
	"go/printer"
	"go/token"
	"strconv"
	"strings"
)

func init() { register("SchemaPost", genSchemaPost) }

// spField: how a Go field is read and written in Lean. goType is what the source must declare.
type spField struct {
	goType   string
	get      string // %s = the object
	set      string // %[1]s = the object, %[2]s = the new value; "" = not assignable
	mset     string // like set, but the result is in `Except PErr` (a write that may leave the data model)
	nullable bool
	sigma    bool   // a pointer into the schema: the read needs the schema
	defOf    string // StructDef / MultimapDef: the Schema map the pointer is looked up in
}

var spFields = map[string]spField{
	"Schema.Structs":        {goType: "map[string]*Struct", get: "%s.structs", set: "{ %[1]s with structs := %[2]s }"},
	"Schema.Multimaps":      {goType: "map[string]*Multimap", get: "%s.multimaps", set: "{ %[1]s with multimaps := %[2]s }"},
	"Schema.Enums":          {goType: "map[string]*Enum", get: "%s.enums", set: "{ %[1]s with enums := %[2]s }"},
	"Struct.Name":           {goType: "string", get: "%s.name"},
	"Struct.IsRoot":         {goType: "bool", get: "%s.isRoot"},
	"Struct.Fields":         {goType: "[]*StructField", get: "%s.goFields", set: "%[1]s.setGoFields %[2]s"},
	"StructField.FieldType": {goType: "FieldType", get: "%s.val.ty", set: "%[1]s.setFieldType %[2]s"},
	"Multimap.Name":         {goType: "string", get: "%s.name"},
	"Multimap.Key":          {goType: "MultimapField", get: "%s.goKey", set: "%[1]s.setGoKey %[2]s"},
	"Multimap.Value":        {goType: "MultimapField", get: "%s.goValue", set: "%[1]s.setGoValue %[2]s"},
	"MultimapField.Type":    {goType: "FieldType", get: "%s.ty", set: "{ %[1]s with ty := %[2]s }"},
	"Enum.Name":             {goType: "string", get: "%s.name"},
	"FieldType.Primitive":   {goType: "*PrimitiveType", get: "%s.goPrimitive", nullable: true},
	"FieldType.Array":       {goType: "*ArrayType", get: "%s.goArray", nullable: true},
	"FieldType.Struct":      {goType: "string", get: "%s.goStruct", mset: "%[1]s.setStruct %[2]s"},
	"FieldType.MultiMap":    {goType: "string", get: "%s.goMultiMap", mset: "%[1]s.setMultiMap %[2]s"},
	"FieldType.Enum":        {goType: "string", get: "%s.goEnum", mset: "%[1]s.setEnum %[2]s"},
	"FieldType.DictName":    {goType: "string", get: "%s.goDictName"},
	"FieldType.StructDef":   {goType: "*Struct", get: "%s.goStructDef SIGMA", nullable: true, sigma: true, defOf: "Structs"},
	"FieldType.MultimapDef": {goType: "*Multimap", get: "%s.goMultimapDef SIGMA", nullable: true, sigma: true, defOf: "Multimaps"},
	"ArrayType.ElemType":    {goType: "FieldType", get: "%s.elemType"},
	"recurseStack.fields":   {goType: "[]recursable", get: "%s.fields", set: "{ %[1]s with fields := %[2]s }"},
	"recurseStack.asStack":  {goType: "[]string", get: "%s.asStack", set: "{ %[1]s with asStack := %[2]s }"},
	"recurseStack.asMap":    {goType: "map[string]bool", get: "%s.asMap", set: "{ %[1]s with asMap := %[2]s }"},
	"UnusedTypes.Structs":   {goType: "[]*Struct", get: "%s.structs", set: "{ %[1]s with structs := %[2]s }"},
	"UnusedTypes.Multimaps": {goType: "[]*Multimap", get: "%s.multimaps", set: "{ %[1]s with multimaps := %[2]s }"},
	"UnusedTypes.Enums":     {goType: "[]*Enum", get: "%s.enums", set: "{ %[1]s with enums := %[2]s }"},
}

// the fields of the structs a composite literal may build, in the order of the Lean structure
var spLitFields = map[string][]string{
	"recurseStack": {"fields", "asStack", "asMap"},
	"UnusedTypes":  {"Structs", "Multimaps", "Enums"},
}
var spLitLean = map[string]string{"recurseStack": "RecurseStackF", "UnusedTypes": "UnusedTypes"}

// Go type (pointer star removed, except *StructField whose pointer identity is part of the model) -> Lean type
var spLeanType = map[string]string{
	"string": "Name", "bool": "Bool", "int": "Int",
	"Schema": "Schema", "Struct": "Struct", "StructField": "FieldRef", "Multimap": "Multimap", "MultimapField": "MMFieldRef",
	"Enum": "Enum", "FieldType": "FType", "recurseStack": "RecurseStackF", "recursable": "Recursable",
	"UnusedTypes": "UnusedTypes",
}

func spLeanTypeOf(t string) string {
	t = strings.TrimPrefix(t, "*")
	if strings.HasPrefix(t, "[]") {
		return "List " + pfParen(spLeanTypeOf(t[2:]))
	}
	if strings.HasPrefix(t, "map[string]*") {
		return "List " + pfParen(spLeanTypeOf(t[len("map[string]*"):]))
	}
	if t == "map[string]bool" {
		return "List Name"
	}
	if l, ok := spLeanType[t]; ok {
		return l
	}
	die("SchemaPost: no Lean type for the Go type %s", t)
	return ""
}

// conversions to the interface `recursable` (constructors of SchemaPostSem.Recursable)
var spToRecursable = map[string]string{"*StructField": "Recursable.field", "*MultimapField": "Recursable.mmField"}

// the source the hand-written `Recursable.setRecursive` of SchemaPostSem.lean stands for
const spSetRecursiveText = `type recursable interface {
	SetRecursive()
}
func (s *StructField) SetRecursive() {
	s.FieldType.SetRecursive()
}
func (t *FieldType) SetRecursive() {
	switch {
	case t.Primitive != nil:
		panic("cannot set recursive on Primitive")
	case t.Array != nil:
		t.Array.recursive = true
	case t.StructDef != nil:
		t.StructDef.recursive = true
	case t.MultimapDef != nil:
		t.MultimapDef.recursive = true
	default:
		panic("invalid FieldType")
	}
}
func (m *MultimapField) SetRecursive() {
	m.Type.SetRecursive()
}
`

type spSpec struct {
	key      string // key in pfPkg.funcs
	lean     string
	group    int             // != 0: member of a `mutual` block of fuel-recursive functions
	fuel     bool            // gets a fuel parameter
	schema   string          // "" | "implicit" (extra binder σ) | "recv" (the receiver is the schema the function reads)
	inout    map[string]bool // written-through parameters (pointers, maps, the receiver)
	nilable  map[string]bool // pointer parameters that may be nil
	marks    bool            // reaches SetRecursive: `marks` is an extra in/out parameter
	scope    bool            // owns the marks: starts with the empty table, ends with applyMarks
	mapRange bool            // may range over a map (result independent of the order: header of Stef/Idl.lean)
	result   string          // expected Go result types, comma separated
}

var spSpecs = []spSpec{
	{key: "Schema.resolveFieldType", lean: "resolveFieldType", fuel: true, schema: "recv", inout: map[string]bool{"fieldType": true}, result: "error"},
	{key: "findLast", lean: "findLast", result: "int"},
	{key: "markRecursive", lean: "markRecursive", inout: map[string]bool{"stack": true}, marks: true},
	{key: "computeRecursiveStruct", lean: "computeRecursiveStruct", group: 1, fuel: true, schema: "implicit",
		inout: map[string]bool{"stack": true}, nilable: map[string]bool{"struc": true}, marks: true},
	{key: "computeRecursiveMultimap", lean: "computeRecursiveMultimap", group: 1, fuel: true, schema: "implicit",
		inout: map[string]bool{"stack": true}, nilable: map[string]bool{"multimap": true}, marks: true},
	{key: "computeRecursiveType", lean: "computeRecursiveType", group: 1, fuel: true, schema: "implicit",
		inout: map[string]bool{"stack": true}, marks: true},
	{key: "Schema.computeRecursive", lean: "computeRecursive", schema: "recv", inout: map[string]bool{"d": true}, scope: true,
		mapRange: true, result: "error"},
	{key: "Schema.ResolveRefs", lean: "resolveRefs", schema: "recv", inout: map[string]bool{"d": true}, mapRange: true, result: "error"},
	{key: "Schema.markReachableFromStruct", lean: "markReachableFromStruct", group: 2, fuel: true, schema: "recv",
		inout: map[string]bool{"reachableStructs": true, "reachableMultimaps": true, "reachableEnums": true}},
	{key: "Schema.markReachableFromMultimap", lean: "markReachableFromMultimap", group: 2, fuel: true, schema: "recv",
		inout: map[string]bool{"reachableStructs": true, "reachableMultimaps": true, "reachableEnums": true}},
	{key: "Schema.markReachableFromFieldType", lean: "markReachableFromFieldType", group: 2, fuel: true, schema: "recv",
		inout: map[string]bool{"reachableStructs": true, "reachableMultimaps": true, "reachableEnums": true}},
	{key: "Schema.PruneUnused", lean: "pruneUnused", schema: "recv", inout: map[string]bool{"d": true}, mapRange: true,
		result: "UnusedTypes, error"},
}

var spReserved = map[string]bool{}

func init() {
	for n := range pfReserved {
		spReserved[n] = true
	}
	for _, n := range strings.Fields(`matches marks mapHas mapUpdate mapDelete sortByName indexI listSetI intRange downFrom postFuel
		applyMarks Marks Int Bool continue Keyed`) {
		spReserved[n] = true
	}
}

// ---- values, variables ----

type spVal struct {
	lean     string
	typ      string // Go type, pointer star kept
	nullable bool
	src      string // the Go expression (for guards)
}

// spHome: the place a local pointer points INTO (written back after every write through the local).
type spHome struct {
	slice ast.Expr // element `index` of this slice ..
	index string
	mapX  ast.Expr // .. or the value under `key` of this map
	key   string
}

type spVar struct {
	lean     string
	typ      string
	inout    bool
	param    bool
	nullable bool
	home     *spHome
}

type spGen struct {
	pkg   *pfPkg
	specs map[string]*spSpec
	order map[string]int
	lits  []string
	litIx map[string]int
}

type spTr struct {
	g      *spGen
	sp     *spSpec
	fd     *ast.FuncDecl
	rel    string
	vars   map[string]spVar
	guards map[string]string
	gused  map[string]bool
	inouts []string
	sigma  string // Lean name of the schema the function reads ("" = none)
	tmp    int
	recur  bool
	loops  int
}

func (t *spTr) str(n ast.Node) string {
	var sb strings.Builder
	printer.Fprint(&sb, t.g.pkg.fsets[t.rel], n)
	return sb.String()
}

func (t *spTr) fail(n ast.Node, f string, a ...any) {
	pos := t.g.pkg.fsets[t.rel].Position(n.Pos())
	die("SchemaPost: %s:%d (%s): %s", t.rel, pos.Line, t.sp.key, fmt.Sprintf(f, a...))
}

func (g *spGen) lit(s string) string {
	if i, ok := g.litIx[s]; ok {
		return fmt.Sprintf("lit_%d", i+1)
	}
	g.litIx[s] = len(g.lits)
	g.lits = append(g.lits, s)
	return fmt.Sprintf("lit_%d", len(g.lits))
}

func (t *spTr) leanIdent(n ast.Node, name string) string {
	if name == "_" {
		t.fail(n, "blank identifier used as a value")
	}
	clash := spReserved[name] || strings.HasPrefix(name, "lit_") || strings.HasPrefix(name, "r_") ||
		strings.HasSuffix(name, "_in") || strings.HasSuffix(name, "_key")
	for _, s := range spSpecs {
		clash = clash || s.lean == name
	}
	if clash {
		return name + "_"
	}
	return name
}

func (t *spTr) declare(n ast.Node, name, typ string, nullable bool) string {
	if _, dup := t.vars[name]; dup {
		t.fail(n, "the name %s is declared twice in the function (shadowing is not supported)", name)
	}
	l := t.leanIdent(n, name)
	t.vars[name] = spVar{lean: l, typ: typ, nullable: nullable}
	return l
}

// spBind: "(← e)" -> "e", true
func spBind(s string) (string, bool) {
	if strings.HasPrefix(s, "(← ") && pfClosesAtEnd(s) {
		return s[len("(← ") : len(s)-1], true
	}
	return s, false
}

func spLet(kw, name, val string) string {
	if in, ok := spBind(val); ok {
		return kw + name + " ← " + in
	}
	return kw + name + " := " + val
}

// ---- expressions ----

func (t *spTr) fieldInfo(n ast.Node, T, name string) (string, spField) {
	key := T + "." + name
	if _, declared := t.g.pkg.fields[key]; !declared {
		t.fail(n, "%s has no field %s", T, name)
	}
	fi, ok := spFields[key]
	if !ok {
		t.fail(n, "field %s is not part of the model (expression %s)", key, t.str(n))
	}
	if got := t.g.pkg.fields[key]; got != fi.goType {
		t.fail(n, "field %s is declared with type %s, the model expects %s", key, got, fi.goType)
	}
	return key, fi
}

func (t *spTr) fieldOf(n ast.Node, x spVal, name string) spVal {
	T := structOf(x.typ)
	_, fi := t.fieldInfo(n, T, name)
	get := fi.get
	if fi.sigma {
		if t.sigma == "" {
			t.fail(n, "%s follows a pointer into the schema in a function that has no schema", t.str(n))
		}
		get = strings.ReplaceAll(get, "SIGMA", t.sigma)
	}
	obj := t.pointee(n, x)
	return spVal{lean: fmt.Sprintf(get, pfParen(obj)), typ: fi.goType, nullable: fi.nullable, src: x.src + "." + name}
}

// pointee: the Lean value behind x, which is about to be dereferenced.
func (t *spTr) pointee(n ast.Node, x spVal) string {
	if !x.nullable {
		return x.lean
	}
	if g, ok := t.guards[x.src]; ok {
		t.gused[x.src] = true
		return g
	}
	return "(← deref " + pfParen(x.lean) + ")"
}

func (t *spTr) strLit(e ast.Expr) (string, bool) {
	bl, ok := e.(*ast.BasicLit)
	if !ok || bl.Kind != token.STRING {
		return "", false
	}
	s, err := strconv.Unquote(bl.Value)
	if err != nil {
		t.fail(e, "bad string literal %s", bl.Value)
	}
	return s, true
}

func (t *spTr) isLocal(name string) bool { _, ok := t.vars[name]; return ok }

func (t *spTr) isPkgCall(ce *ast.CallExpr, pkg, fn string) bool {
	se, ok := ce.Fun.(*ast.SelectorExpr)
	if !ok || se.Sel.Name != fn {
		return false
	}
	id, ok := se.X.(*ast.Ident)
	return ok && id.Name == pkg && !t.isLocal(pkg)
}

func (t *spTr) isBuiltin(e ast.Expr, name string) bool { return pfIsIdent(e, name) && !t.isLocal(name) }

func (t *spTr) expr(e ast.Expr) spVal {
	switch v := e.(type) {
	case *ast.ParenExpr:
		x := t.expr(v.X)
		x.lean = pfParen(x.lean)
		return x
	case *ast.BasicLit:
		if s, ok := t.strLit(v); ok {
			if s == "" {
				return spVal{lean: "[]", typ: "string"}
			}
			return spVal{lean: t.g.lit(s), typ: "string"}
		}
		if v.Kind == token.INT {
			if _, err := strconv.ParseInt(v.Value, 10, 32); err != nil {
				t.fail(e, "integer literal %s", v.Value)
			}
			return spVal{lean: v.Value, typ: "int"}
		}
		t.fail(e, "literal %s is not supported", v.Value)
	case *ast.Ident:
		if lv, ok := t.vars[v.Name]; ok {
			return spVal{lean: lv.lean, typ: lv.typ, nullable: lv.nullable, src: v.Name}
		}
		t.fail(e, "identifier %s is not a local of the function", v.Name)
	case *ast.SelectorExpr:
		return t.fieldOf(v, t.expr(v.X), v.Sel.Name)
	case *ast.UnaryExpr:
		switch v.Op {
		case token.AND:
			x := t.expr(v.X)
			if x.nullable {
				t.fail(e, "address of a possibly nil pointer")
			}
			return spVal{lean: x.lean, typ: "*" + x.typ, src: x.src}
		case token.SUB:
			x := t.expr(v.X)
			if x.typ != "int" {
				t.fail(e, "unary minus on a %s", x.typ)
			}
			return spVal{lean: "-" + pfParen(x.lean), typ: "int"}
		}
		t.fail(e, "unary operator %s is not supported here", v.Op)
	case *ast.BinaryExpr:
		if v.Op == token.ADD || v.Op == token.SUB {
			l, r := t.expr(v.X), t.expr(v.Y)
			if l.typ == "string" && r.typ == "string" && v.Op == token.ADD {
				return spVal{lean: pfConcat([]string{l.lean, r.lean}), typ: "string"}
			}
			if l.typ == "int" && r.typ == "int" {
				return spVal{lean: spArith(l.lean) + " " + v.Op.String() + " " + spArith(r.lean), typ: "int"}
			}
			t.fail(e, "`%s` on %s and %s", v.Op, l.typ, r.typ)
		}
		t.fail(e, "operator %s is not supported in a value", v.Op)
	case *ast.IndexExpr:
		m := t.expr(v.X)
		k := t.expr(v.Index)
		if m.nullable {
			t.fail(e, "index of a possibly nil value")
		}
		if strings.HasPrefix(m.typ, "map[string]*") && k.typ == "string" {
			return spVal{lean: "mapGet " + pfParen(m.lean) + " " + pfParen(k.lean), typ: m.typ[len("map[string]"):],
				nullable: true, src: t.str(e)}
		}
		if strings.HasPrefix(m.typ, "[]") && k.typ == "int" {
			return spVal{lean: "(← indexI " + pfParen(m.lean) + " " + pfParen(k.lean) + ")", typ: m.typ[2:], src: t.str(e)}
		}
		t.fail(e, "index expression %s (%s indexed by %s)", t.str(e), m.typ, k.typ)
	case *ast.CompositeLit:
		return t.composite(v)
	case *ast.CallExpr:
		return t.callExpr(v)
	}
	t.fail(e, "expression %s (%T) is not supported", t.str(e), e)
	return spVal{}
}

// spArith: an operand of + / - on Int
func spArith(s string) string {
	if strings.ContainsAny(s, " ") && !(strings.HasPrefix(s, "(") && pfClosesAtEnd(s)) {
		return "(" + s + ")"
	}
	return s
}

func (t *spTr) composite(v *ast.CompositeLit) spVal {
	ts := pfTypeStr(v.Type)
	switch {
	case strings.HasPrefix(ts, "[]") || ts == "map[string]bool":
		if len(v.Elts) != 0 {
			t.fail(v, "literal with elements")
		}
		return spVal{lean: "[]", typ: ts}
	case spLitFields[ts] != nil:
		vals := map[string]string{}
		for _, el := range v.Elts {
			kv, ok := el.(*ast.KeyValueExpr)
			if !ok {
				t.fail(v, "positional composite literal")
			}
			k, ok := kv.Key.(*ast.Ident)
			if !ok {
				t.fail(v, "composite literal key")
			}
			_, fi := t.fieldInfo(kv, ts, k.Name)
			x := t.expr(kv.Value)
			if x.typ != fi.goType || x.nullable {
				t.fail(kv, "value of type %s for the field %s.%s of type %s", x.typ, ts, k.Name, fi.goType)
			}
			if _, dup := vals[k.Name]; dup {
				t.fail(kv, "field given twice")
			}
			vals[k.Name] = x.lean
		}
		var parts []string
		for _, f := range spLitFields[ts] {
			_, fi := t.fieldInfo(v, ts, f)
			val, ok := vals[f]
			if !ok {
				if !strings.HasPrefix(fi.goType, "[]") && !strings.HasPrefix(fi.goType, "map[") {
					t.fail(v, "no zero value in the model for the omitted field %s.%s", ts, f)
				}
				val = "[]"
			}
			parts = append(parts, strings.TrimPrefix(fmt.Sprintf(fi.get, ""), ".")+" := "+val)
			delete(vals, f)
		}
		if len(vals) != 0 || len(spLitFields[ts]) != t.fieldCount(ts) {
			t.fail(v, "the fields of %s are not the ones of the model's structure", ts)
		}
		return spVal{lean: "({ " + strings.Join(parts, ", ") + " } : " + spLitLean[ts] + ")", typ: ts}
	}
	t.fail(v, "composite literal of type %s is not supported", ts)
	return spVal{}
}

func (t *spTr) fieldCount(T string) int {
	n := 0
	for k := range t.g.pkg.fields {
		if strings.HasPrefix(k, T+".") {
			n++
		}
	}
	return n
}

func (t *spTr) callExpr(ce *ast.CallExpr) spVal {
	if id, ok := ce.Fun.(*ast.Ident); ok && !t.isLocal(id.Name) {
		switch id.Name {
		case "len":
			if len(ce.Args) != 1 {
				t.fail(ce, "len arity")
			}
			x := t.expr(ce.Args[0])
			if !strings.HasPrefix(x.typ, "[]") || x.nullable {
				t.fail(ce, "len of a value of type %s", x.typ)
			}
			return spVal{lean: "(" + pfParen(x.lean) + ".length : Int)", typ: "int"}
		case "make":
			if len(ce.Args) == 0 || len(ce.Args) > 2 {
				t.fail(ce, "make arity")
			}
			ts := pfTypeStr(ce.Args[0])
			if !(ts == "map[string]bool" && len(ce.Args) == 1) && !strings.HasPrefix(ts, "[]") {
				t.fail(ce, "make(%s): only map[string]bool and slices", ts)
			}
			if len(ce.Args) == 2 {
				if bl, ok := ce.Args[1].(*ast.BasicLit); !ok || bl.Value != "0" {
					t.fail(ce, "make of a slice with a length other than 0")
				}
			}
			return spVal{lean: "[]", typ: ts}
		}
		if sp, ok := t.g.specs[id.Name]; ok {
			if len(sp.inout) > 0 || sp.marks || sp.scope || strings.Contains(sp.result, "error") || sp.result == "" {
				t.fail(ce, "call of %s inside an expression (statement form only)", id.Name)
			}
			lines, res := t.callTranslated(ce, sp, nil, ce.Args, true)
			if len(lines) != 1 {
				t.fail(ce, "call of %s inside an expression", id.Name)
			}
			return spVal{lean: "(← " + lines[0] + ")", typ: res}
		}
	}
	t.fail(ce, "call %s is not supported in a value", t.str(ce))
	return spVal{}
}

// cond translates a condition to a decidable Lean proposition.
func (t *spTr) cond(e ast.Expr) string {
	switch v := e.(type) {
	case *ast.ParenExpr:
		return "(" + t.cond(v.X) + ")"
	case *ast.UnaryExpr:
		if v.Op == token.NOT {
			return "¬ (" + t.cond(v.X) + ")"
		}
	case *ast.BinaryExpr:
		ops := map[token.Token]string{token.EQL: " = ", token.NEQ: " ≠ ", token.LSS: " < ", token.GTR: " > ", token.LEQ: " ≤ ", token.GEQ: " ≥ "}
		op, ok := ops[v.Op]
		if !ok {
			break
		}
		if t.isBuiltin(v.Y, "nil") {
			x := t.expr(v.X)
			if !x.nullable || (v.Op != token.EQL && v.Op != token.NEQ) {
				t.fail(e, "%s compared with nil: it is not a possibly nil pointer of the model", t.str(v.X))
			}
			return x.lean + op + "none"
		}
		l, r := t.expr(v.X), t.expr(v.Y)
		if l.nullable || r.nullable {
			t.fail(e, "comparison of possibly nil pointers")
		}
		if l.typ == "int" && r.typ == "int" {
			return l.lean + op + r.lean
		}
		if l.typ == "string" && r.typ == "string" && (v.Op == token.EQL || v.Op == token.NEQ) {
			return l.lean + op + r.lean
		}
		t.fail(e, "comparison %s of %s and %s", v.Op, l.typ, r.typ)
	case *ast.IndexExpr:
		m := t.expr(v.X)
		if m.typ == "map[string]bool" && !m.nullable {
			k := t.expr(v.Index)
			if k.typ != "string" {
				t.fail(e, "map key of type %s", k.typ)
			}
			return "setGet " + pfParen(m.lean) + " " + pfParen(k.lean) + " = true"
		}
	case *ast.SelectorExpr, *ast.Ident:
		x := t.expr(e)
		if x.typ == "bool" {
			return x.lean + " = true"
		}
	}
	t.fail(e, "condition %s is not supported", t.str(e))
	return ""
}

// nilGuard: cond is exactly `X != nil` for a possibly nil X.
func (t *spTr) nilGuard(e ast.Expr) (spVal, bool) {
	be, ok := e.(*ast.BinaryExpr)
	if !ok || be.Op != token.NEQ || !t.isBuiltin(be.Y, "nil") {
		return spVal{}, false
	}
	x := t.expr(be.X)
	return x, x.nullable
}

// ---- stores ----

// store writes val (a Lean term; "(← e)" when it is an action) to the Go lvalue lhs and returns the Lean lines: the
// assignment to the local the lvalue is rooted at, followed by the write-backs to the objects that local points into.
func (t *spTr) store(n ast.Node, lhs ast.Expr, val string, valTyp string) []string {
	switch v := lhs.(type) {
	case *ast.ParenExpr:
		return t.store(n, v.X, val, valTyp)
	case *ast.Ident:
		lv, ok := t.vars[v.Name]
		if !ok {
			t.fail(n, "assignment to %s which is not a local", v.Name)
		}
		if valTyp != "" && valTyp != lv.typ && "*"+valTyp != lv.typ {
			t.fail(n, "assignment of a %s to %s of type %s", valTyp, v.Name, lv.typ)
		}
		if lv.nullable {
			t.fail(n, "write to (or through) the possibly nil pointer %s", v.Name)
		}
		// guards on values rooted at this local are stale now
		for g := range t.guards {
			if g == v.Name || strings.HasPrefix(g, v.Name+".") {
				delete(t.guards, g)
			}
		}
		out := []string{spLet("", lv.lean, val)}
		if lv.home != nil {
			if lv.home.slice != nil {
				s := t.expr(lv.home.slice)
				out = append(out, t.store(n, lv.home.slice, "listSetI "+pfParen(s.lean)+" "+pfParen(lv.home.index)+" "+lv.lean, s.typ)...)
			} else {
				m := t.expr(lv.home.mapX)
				out = append(out, t.store(n, lv.home.mapX, "mapUpdate "+pfParen(m.lean)+" "+pfParen(lv.home.key)+" "+lv.lean, m.typ)...)
			}
		}
		return out
	case *ast.SelectorExpr:
		x := t.expr(v.X)
		if x.nullable {
			// X.Array.ElemType = e: the array node itself is not a value of the model, the element type is rewritten
			// on the FieldType that owns it
			if px, ok := v.X.(*ast.SelectorExpr); ok && px.Sel.Name == "Array" && v.Sel.Name == "ElemType" {
				owner := t.expr(px.X)
				t.fieldInfo(n, "FieldType", "Array")
				t.fieldInfo(n, "ArrayType", "ElemType")
				if structOf(owner.typ) != "FieldType" || owner.nullable || (valTyp != "" && valTyp != "FieldType") {
					t.fail(n, "assignment to %s", t.str(lhs))
				}
				return t.store(n, px.X, "(← "+pfParen(owner.lean)+".setArrayElem "+pfParen(val)+")", "FieldType")
			}
			t.fail(n, "write through the possibly nil pointer %s", t.str(v.X))
		}
		T := structOf(x.typ)
		key, fi := t.fieldInfo(n, T, v.Sel.Name)
		if valTyp != "" && valTyp != fi.goType {
			t.fail(n, "assignment of a %s to the field %s of type %s", valTyp, key, fi.goType)
		}
		switch {
		case fi.set != "":
			return t.store(n, v.X, fmt.Sprintf(fi.set, pfParen(x.lean), pfParen(val)), structOf(x.typ))
		case fi.mset != "":
			return t.store(n, v.X, "(← "+fmt.Sprintf(fi.mset, pfParen(x.lean), pfParen(val))+")", structOf(x.typ))
		}
		t.fail(n, "assignment to the field %s is not part of the model", key)
	case *ast.IndexExpr:
		s := t.expr(v.X)
		i := t.expr(v.Index)
		if strings.HasPrefix(s.typ, "[]") && i.typ == "int" && !s.nullable && (valTyp == "" || valTyp == s.typ[2:]) {
			return t.store(n, v.X, "listSetI "+pfParen(s.lean)+" "+pfParen(i.lean)+" "+pfParen(val), s.typ)
		}
	}
	t.fail(n, "assignment target %s is not supported", t.str(lhs))
	return nil
}

// checkRoot: a store rooted at a pointer parameter needs the parameter to be declared written-through.
func (t *spTr) checkRoot(n ast.Node, lhs ast.Expr) {
	root := pfRoot(lhs)
	lv, ok := t.vars[root]
	if !ok {
		t.fail(n, "%s is not rooted at a local", t.str(lhs))
	}
	if _, isIdent := lhs.(*ast.Ident); isIdent && lv.inout {
		t.fail(n, "assignment to the pointer parameter %s itself", root)
	}
	if lv.param && !lv.inout && (strings.HasPrefix(lv.typ, "*") || strings.HasPrefix(lv.typ, "map[")) {
		if _, isIdent := lhs.(*ast.Ident); !isIdent {
			t.fail(n, "write through the parameter %s, which is not declared as written-through in the generator's spec", root)
		}
	}
}

func (t *spTr) sameExpr(a, b ast.Expr) bool { return t.str(a) == t.str(b) }

// ---- statements ----

func (t *spTr) block(list []ast.Stmt) []string {
	before := map[string]bool{}
	for n := range t.vars {
		before[n] = true
	}
	defer func() {
		for n := range t.vars {
			if !before[n] {
				delete(t.vars, n)
			}
		}
	}()
	var out []string
	for i, s := range list {
		out = append(out, t.stmt(s)...)
		switch s.(type) {
		case *ast.ReturnStmt, *ast.BranchStmt:
			if i != len(list)-1 {
				t.fail(list[i+1], "statement after return / continue")
			}
		}
	}
	if len(out) == 0 {
		out = []string{"pure ()"}
	}
	return out
}

func (t *spTr) zero(n ast.Node, ts string) string {
	switch {
	case ts == "string" || strings.HasPrefix(ts, "[]") || ts == "map[string]bool":
		return "[]"
	case ts == "bool":
		return "false"
	case ts == "int":
		return "0"
	}
	t.fail(n, "no zero value in the model for the type %s", ts)
	return ""
}

func (t *spTr) stmt(s ast.Stmt) []string {
	switch v := s.(type) {
	case *ast.DeclStmt:
		gd, ok := v.Decl.(*ast.GenDecl)
		if !ok || gd.Tok != token.VAR || len(gd.Specs) != 1 {
			t.fail(s, "declaration %s", t.str(s))
		}
		vs := gd.Specs[0].(*ast.ValueSpec)
		if len(vs.Names) != 1 || len(vs.Values) != 0 || vs.Type == nil {
			t.fail(s, "declaration %s (only `var x T`)", t.str(s))
		}
		ts := pfTypeStr(vs.Type)
		l := t.declare(s, vs.Names[0].Name, ts, false)
		return []string{"let mut " + l + " : " + spLeanTypeOf(ts) + " := " + t.zero(s, ts)}
	case *ast.AssignStmt:
		return t.assign(v)
	case *ast.IncDecStmt:
		x := t.expr(v.X)
		if _, isIdent := v.X.(*ast.Ident); !isIdent || x.typ != "int" || v.Tok != token.INC {
			t.fail(s, "%s (only x++ on an int local)", t.str(s))
		}
		return t.store(s, v.X, x.lean+" + 1", "int")
	case *ast.IfStmt:
		return t.ifStmt(v)
	case *ast.SwitchStmt:
		return t.switchStmt(v)
	case *ast.RangeStmt:
		return t.rangeStmt(v)
	case *ast.ForStmt:
		return t.forStmt(v)
	case *ast.BranchStmt:
		if v.Tok != token.CONTINUE || v.Label != nil || t.loops == 0 {
			t.fail(s, "%s is not supported", t.str(s))
		}
		return []string{"continue"}
	case *ast.ReturnStmt:
		return t.returnStmt(v)
	case *ast.ExprStmt:
		ce, ok := v.X.(*ast.CallExpr)
		if !ok {
			t.fail(s, "expression statement %s", t.str(s))
		}
		return t.callStmt(ce)
	}
	t.fail(s, "statement %s (%T) is not supported", t.str(s), s)
	return nil
}

func (t *spTr) results() []string {
	if t.sp.result == "" {
		return nil
	}
	return strings.Split(t.sp.result, ", ")
}

func (t *spTr) retLine(vals ...string) []string {
	var out []string
	all := append([]string{}, vals...)
	for _, n := range t.inouts {
		all = append(all, t.vars[n].lean)
	}
	if t.sp.scope {
		// the flags written through SetRecursive go back into the schema
		d := t.vars[t.recvName()]
		out = append(out, d.lean+" := applyMarks "+d.lean+" marks")
	}
	if t.sp.marks {
		all = append(all, "marks")
	}
	switch len(all) {
	case 0:
		return append(out, "return ()")
	case 1:
		return append(out, "return "+all[0])
	}
	return append(out, "return ("+strings.Join(all, ", ")+")")
}

func (t *spTr) recvName() string {
	if t.fd.Recv == nil || len(t.fd.Recv.List[0].Names) != 1 {
		t.fail(t.fd, "no named receiver")
	}
	return t.fd.Recv.List[0].Names[0].Name
}

func (t *spTr) returnStmt(v *ast.ReturnStmt) []string {
	res := t.results()
	if len(v.Results) != len(res) {
		// return f(..) of a translated function with the same results
		if len(v.Results) != 1 {
			t.fail(v, "return with %d values in a function with %d results", len(v.Results), len(res))
		}
	}
	hasErr := len(res) > 0 && res[len(res)-1] == "error"
	if hasErr && len(v.Results) == 1 && len(res) >= 1 {
		if ce, ok := v.Results[0].(*ast.CallExpr); ok {
			if t.isPkgCall(ce, "errors", "New") && len(res) == 1 {
				if len(ce.Args) != 1 {
					t.fail(v, "errors.New arity")
				}
				m := t.expr(ce.Args[0])
				if m.typ != "string" {
					t.fail(v, "errors.New of a %s", m.typ)
				}
				return []string{"throw (.error " + pfParen(m.lean) + ")"}
			}
			if sp := t.calleeSpec(ce); sp != nil {
				if sp.result != t.sp.result || len(res) != 1 {
					t.fail(v, "return %s: the results of the callee (%s) are not the results of the function (%s)", t.str(ce), sp.result, t.sp.result)
				}
				lines, _ := t.callTranslated(ce, sp, t.calleeRecv(ce), ce.Args, false)
				return append(lines, t.retLine()...)
			}
		}
	}
	if len(v.Results) != len(res) {
		t.fail(v, "return %s", t.str(v))
	}
	var vals []string
	for i, r := range v.Results {
		if res[i] == "error" {
			if !t.isBuiltin(r, "nil") {
				t.fail(v, "return of the error %s (only nil, errors.New(..), the error of a translated call)", t.str(r))
			}
			continue
		}
		x := t.expr(r)
		if x.nullable || x.typ != res[i] {
			t.fail(v, "return of a %s for the result of type %s", x.typ, res[i])
		}
		vals = append(vals, x.lean)
	}
	return t.retLine(vals...)
}

func (t *spTr) assigned(name string) bool {
	found := false
	ast.Inspect(t.fd.Body, func(n ast.Node) bool {
		switch v := n.(type) {
		case *ast.AssignStmt:
			if v.Tok == token.DEFINE {
				return true
			}
			for _, l := range v.Lhs {
				found = found || pfRoot(l) == name
			}
		case *ast.IncDecStmt:
			found = found || pfRoot(v.X) == name
		case *ast.CallExpr:
			if t.isBuiltin(v.Fun, "delete") && len(v.Args) > 0 && pfRoot(v.Args[0]) == name {
				found = true
			}
			if t.isPkgCall(v, "sort", "Slice") && len(v.Args) > 0 && pfRoot(v.Args[0]) == name {
				found = true
			}
			// a map / pointer local passed in a written-through position
			if sp := t.calleeSpec(v); sp != nil {
				for i, p := range t.calleeParams(sp) {
					actual := t.calleeActuals(v)
					if i < len(actual) && actual[i] != nil && sp.inout[p.name] && pfRoot(actual[i]) == name {
						found = true
					}
				}
			}
		}
		return true
	})
	return found
}

func (t *spTr) assign(v *ast.AssignStmt) []string {
	// X.StructDef, ok = d.Structs[e]   |   _, ok := m[e]
	if len(v.Lhs) == 2 && len(v.Rhs) == 1 {
		ix, isIx := v.Rhs[0].(*ast.IndexExpr)
		okId, isId := v.Lhs[1].(*ast.Ident)
		if !isIx || !isId {
			t.fail(v, "assignment with two targets: %s", t.str(v))
		}
		m := t.expr(ix.X)
		k := t.expr(ix.Index)
		if !strings.HasPrefix(m.typ, "map[string]*") || k.typ != "string" || m.nullable {
			t.fail(v, "comma-ok form on %s[%s]", m.typ, k.typ)
		}
		has := "mapHas " + pfParen(m.lean) + " " + pfParen(k.lean)
		if v.Tok == token.DEFINE {
			if !pfIsIdent(v.Lhs[0], "_") {
				t.fail(v, "%s (only `_, ok := m[k]`)", t.str(v))
			}
			kw := "let "
			if t.assigned(okId.Name) {
				kw = "let mut "
			}
			return []string{kw + t.declare(v, okId.Name, "bool", false) + " := " + has}
		}
		// the pointer slot: StructDef / MultimapDef of a FieldType, looked up in the map of the same kind of the
		// schema the function reads. The model keeps no pointer (it looks the name up: PrintFlowSem), nothing is stored.
		se, ok := v.Lhs[0].(*ast.SelectorExpr)
		if !ok || v.Tok != token.ASSIGN {
			t.fail(v, "%s", t.str(v))
		}
		owner := t.expr(se.X)
		_, fi := t.fieldInfo(v, structOf(owner.typ), se.Sel.Name)
		t.checkRoot(v, se)
		ms, isSel := ix.X.(*ast.SelectorExpr)
		if fi.defOf == "" || !isSel || ms.Sel.Name != fi.defOf || !pfIsIdent(ms.X, t.schemaGoName()) || fi.goType != m.typ[len("map[string]"):] {
			t.fail(v, "%s: only X.StructDef, ok = d.Structs[e] and X.MultimapDef, ok = d.Multimaps[e] on the schema the function reads", t.str(v))
		}
		return t.store(v, v.Lhs[1], has, "bool")
	}
	if len(v.Lhs) != 1 || len(v.Rhs) != 1 {
		t.fail(v, "assignment with several values: %s", t.str(v))
	}
	lhs, rhs := v.Lhs[0], v.Rhs[0]
	switch v.Tok {
	case token.DEFINE:
		id, ok := lhs.(*ast.Ident)
		if !ok {
			t.fail(v, "definition target")
		}
		if ue, isAddr := rhs.(*ast.UnaryExpr); isAddr && ue.Op == token.AND {
			t.fail(v, "a local pointer (%s) is not supported", t.str(v))
		}
		x := t.expr(rhs)
		kw := "let "
		if t.assigned(id.Name) {
			kw = "let mut "
		}
		l := t.declare(v, id.Name, x.typ, x.nullable)
		// an element of a slice of pointers: the local points INTO the slice
		if ix, isIx := rhs.(*ast.IndexExpr); isIx && strings.HasPrefix(x.typ, "*") && !x.nullable {
			lv := t.vars[id.Name]
			lv.home = &spHome{slice: ix.X, index: t.expr(ix.Index).lean}
			t.vars[id.Name] = lv
		} else if strings.HasPrefix(x.typ, "*") && !x.nullable {
			if _, isCall := rhs.(*ast.CallExpr); !isCall {
				t.fail(v, "the local %s aliases %s (only an element of a slice of pointers or a map value can be held in a local)", id.Name, t.str(rhs))
			}
		}
		ann := ""
		if x.lean == "[]" || x.typ == "int" {
			if _, isCall := spBind(x.lean); !isCall {
				ann = " : " + spLeanTypeOf(x.typ)
			}
		}
		return []string{spLet(kw, l+ann, x.lean)}
	case token.ASSIGN:
		t.checkRoot(v, lhs)
		// m[k] = true
		if ix, ok := lhs.(*ast.IndexExpr); ok {
			m := t.expr(ix.X)
			if m.typ == "map[string]bool" {
				if !t.isBuiltin(rhs, "true") {
					t.fail(v, "store of %s into a map[string]bool (only `true` is modelled)", t.str(rhs))
				}
				k := t.expr(ix.Index)
				if k.typ != "string" {
					t.fail(v, "map key of type %s", k.typ)
				}
				return t.store(v, ix.X, "setTrue "+pfParen(m.lean)+" "+pfParen(k.lean), "map[string]bool")
			}
		}
		// x = append(x, e)
		if ce, ok := rhs.(*ast.CallExpr); ok && t.isBuiltin(ce.Fun, "append") {
			if len(ce.Args) != 2 || ce.Ellipsis.IsValid() {
				t.fail(v, "append with %d arguments", len(ce.Args))
			}
			if !t.sameExpr(lhs, ce.Args[0]) {
				t.fail(v, "%s: append must extend the slice it is assigned to", t.str(v))
			}
			cur := t.expr(ce.Args[0])
			if !strings.HasPrefix(cur.typ, "[]") || cur.nullable {
				t.fail(v, "append to a %s", cur.typ)
			}
			el := t.expr(ce.Args[1])
			elemT := cur.typ[2:]
			if el.nullable {
				t.fail(v, "append of a possibly nil %s", el.typ)
			}
			item := el.lean
			if el.typ != elemT {
				conv, ok := spToRecursable[el.typ]
				if elemT != "recursable" || !ok {
					t.fail(v, "append of a %s to a %s", el.typ, cur.typ)
				}
				item = conv + " " + pfParen(el.lean)
			}
			return t.store(v, lhs, cur.lean+" ++ ["+item+"]", cur.typ)
		}
		// x = x[:len(x)-1]
		if se, ok := rhs.(*ast.SliceExpr); ok {
			okForm := se.Low == nil && se.High != nil && !se.Slice3 && t.sameExpr(se.X, lhs)
			if okForm {
				be, ok := se.High.(*ast.BinaryExpr)
				okForm = ok && be.Op == token.SUB
				if okForm {
					one, ok1 := be.Y.(*ast.BasicLit)
					lc, ok2 := be.X.(*ast.CallExpr)
					okForm = ok1 && ok2 && one.Value == "1" && t.isBuiltin(lc.Fun, "len") && len(lc.Args) == 1 && t.sameExpr(lc.Args[0], lhs)
				}
			}
			if !okForm {
				t.fail(v, "slice expression %s (only x = x[:len(x)-1])", t.str(rhs))
			}
			cur := t.expr(lhs)
			return t.store(v, lhs, "(← dropLastE "+pfParen(cur.lean)+")", cur.typ)
		}
		// X.Primitive = &PrimitiveType{Type: C}
		if se, ok := lhs.(*ast.SelectorExpr); ok && se.Sel.Name == "Primitive" {
			owner := t.expr(se.X)
			t.fieldInfo(v, structOf(owner.typ), "Primitive")
			c := ""
			if ue, ok := rhs.(*ast.UnaryExpr); ok && ue.Op == token.AND {
				if cl, ok := ue.X.(*ast.CompositeLit); ok && pfTypeStr(cl.Type) == "PrimitiveType" && len(cl.Elts) == 1 {
					if kv, ok := cl.Elts[0].(*ast.KeyValueExpr); ok && pfIsIdent(kv.Key, "Type") {
						if id, ok := kv.Value.(*ast.Ident); ok && !t.isLocal(id.Name) {
							c = pfPrimLean[id.Name]
						}
					}
				}
			}
			if c == "" || owner.nullable || t.g.pkg.fields["PrimitiveType.Type"] != "PrimitiveFieldType" {
				t.fail(v, "%s (only X.Primitive = &PrimitiveType{Type: <constant of PrimitiveFieldType>})", t.str(v))
			}
			return t.store(v, se.X, "(← "+pfParen(owner.lean)+".setPrimitive "+c+")", structOf(owner.typ))
		}
		x := t.expr(rhs)
		if x.nullable {
			t.fail(v, "assignment of a possibly nil pointer")
		}
		return t.store(v, lhs, x.lean, x.typ)
	}
	t.fail(v, "assignment operator %s is not supported", v.Tok)
	return nil
}

// schemaGoName: the Go name of the schema the function reads (its receiver), "" if none
func (t *spTr) schemaGoName() string {
	if t.sp.schema == "recv" {
		return t.recvName()
	}
	return ""
}

func (t *spTr) guarded(kw string, x spVal, body []ast.Stmt) []string {
	name := strings.NewReplacer(".", "_", "*", "", "[", "_", "]", "", " ", "").Replace(x.src)
	if _, dup := t.guards[x.src]; dup {
		t.fail(body[0], "nested guard on %s", x.src)
	}
	if _, clash := t.vars[name]; clash {
		die("SchemaPost: the guard variable %s clashes with a local", name)
	}
	t.guards[x.src] = name
	t.gused[x.src] = false
	lines := t.block(body)
	used := t.gused[x.src]
	delete(t.guards, x.src)
	if used {
		return append([]string{kw + " let some " + name + " := " + x.lean + " then"}, pfIndent(lines)...)
	}
	return append([]string{kw + " " + x.lean + " ≠ none then"}, pfIndent(lines)...)
}

func (t *spTr) ifStmt(v *ast.IfStmt) []string {
	if v.Init != nil {
		// if err := call(..); err != nil { return err }
		as, ok := v.Init.(*ast.AssignStmt)
		okForm := ok && as.Tok == token.DEFINE && len(as.Lhs) == 1 && len(as.Rhs) == 1 && v.Else == nil && len(v.Body.List) == 1
		var errName string
		var ce *ast.CallExpr
		if okForm {
			id, isId := as.Lhs[0].(*ast.Ident)
			ce, ok = as.Rhs[0].(*ast.CallExpr)
			okForm = isId && ok
			if okForm {
				errName = id.Name
				be, isBe := v.Cond.(*ast.BinaryExpr)
				okForm = isBe && be.Op == token.NEQ && pfIsIdent(be.X, errName) && t.isBuiltin(be.Y, "nil")
				rs, isRet := v.Body.List[0].(*ast.ReturnStmt)
				okForm = okForm && isRet && len(rs.Results) == 1 && pfIsIdent(rs.Results[0], errName)
			}
		}
		if !okForm || t.isLocal(errName) {
			t.fail(v, "if with an initializer (only `if err := call(..); err != nil { return err }`)")
		}
		sp := t.calleeSpec(ce)
		if sp == nil || sp.result != "error" || t.sp.result != "error" {
			t.fail(v, "`if err := %s; ..`: the callee and the function must both return exactly an error", t.str(ce))
		}
		lines, _ := t.callTranslated(ce, sp, t.calleeRecv(ce), ce.Args, false)
		return lines
	}
	return t.ifChain("if", v.Cond, v.Body.List, v.Else)
}

func (t *spTr) ifChain(kw string, cond ast.Expr, body []ast.Stmt, els ast.Stmt) []string {
	var out []string
	if x, ok := t.nilGuard(cond); ok {
		out = t.guarded(kw, x, body)
	} else {
		out = append([]string{kw + " " + t.cond(cond) + " then"}, pfIndent(t.block(body))...)
	}
	switch e := els.(type) {
	case nil:
	case *ast.BlockStmt:
		out = append(out, "else")
		out = append(out, pfIndent(t.block(e.List))...)
	case *ast.IfStmt:
		if e.Init != nil {
			t.fail(e, "else-if with an initializer")
		}
		out = append(out, t.ifChain("else if", e.Cond, e.Body.List, e.Else)...)
	default:
		t.fail(els, "else branch")
	}
	return out
}

// switchStmt: a tagless switch is an if / else-if chain in clause order (no fallthrough, no break, default last).
func (t *spTr) switchStmt(v *ast.SwitchStmt) []string {
	if v.Init != nil || v.Tag != nil {
		t.fail(v, "switch with an initializer or a tag (only `switch { case cond: .. }`)")
	}
	var out []string
	kw := "if"
	for i, c := range v.Body.List {
		cc := c.(*ast.CaseClause)
		for _, s := range cc.Body {
			if bs, ok := s.(*ast.BranchStmt); ok && bs.Tok != token.CONTINUE {
				t.fail(bs, "%s in a switch", bs.Tok)
			}
		}
		if cc.List == nil {
			if i != len(v.Body.List)-1 {
				t.fail(cc, "default clause that is not the last one")
			}
			if i == 0 {
				return t.block(cc.Body)
			}
			out = append(out, "else")
			out = append(out, pfIndent(t.block(cc.Body))...)
			continue
		}
		if len(cc.List) != 1 {
			t.fail(cc, "case with several conditions")
		}
		if x, ok := t.nilGuard(cc.List[0]); ok && len(cc.Body) > 0 {
			out = append(out, t.guarded(kw, x, cc.Body)...)
		} else if ok {
			out = append(out, kw+" "+x.lean+" ≠ none then", "  pure ()")
		} else {
			out = append(out, kw+" "+t.cond(cc.List[0])+" then")
			out = append(out, pfIndent(t.block(cc.Body))...)
		}
		kw = "else if"
	}
	if len(out) == 0 {
		return []string{"pure ()"}
	}
	return out
}

// writes: the statements of body write the local `name`, what it points to, or a local that points into it.
func (t *spTr) writes(body ast.Node, name string) bool {
	found := false
	ast.Inspect(body, func(n ast.Node) bool {
		switch v := n.(type) {
		case *ast.AssignStmt:
			if v.Tok != token.DEFINE {
				for _, l := range v.Lhs {
					found = found || pfRoot(l) == name
				}
			} else if len(v.Lhs) == 1 && len(v.Rhs) == 1 {
				// alias := name.X[i]
				if id, ok := v.Lhs[0].(*ast.Ident); ok && pfRoot(v.Rhs[0]) == name {
					if _, isIx := v.Rhs[0].(*ast.IndexExpr); isIx && id.Name != name {
						found = found || t.writes(body, id.Name)
					}
				}
			}
		case *ast.IncDecStmt:
			found = found || pfRoot(v.X) == name
		case *ast.CallExpr:
			if (t.isBuiltin(v.Fun, "delete") || t.isPkgCall(v, "sort", "Slice")) && len(v.Args) > 0 && pfRoot(v.Args[0]) == name {
				found = true
			}
			if sp := t.calleeSpec(v); sp != nil {
				actual := t.calleeActuals(v)
				for i, p := range t.calleeParams(sp) {
					if i < len(actual) && actual[i] != nil && sp.inout[p.name] && pfRoot(actual[i]) == name {
						found = true
					}
				}
			}
		}
		return true
	})
	return found
}

func (t *spTr) loopBody(list []ast.Stmt) []string {
	t.loops++
	defer func() { t.loops-- }()
	return pfIndent(t.block(list))
}

func (t *spTr) rangeStmt(v *ast.RangeStmt) []string {
	if v.Tok != token.DEFINE {
		t.fail(v, "range without :=")
	}
	x := t.expr(v.X)
	if x.nullable {
		t.fail(v, "range over a possibly nil pointer")
	}
	root := pfRoot(v.X)
	keyName, valName := "", ""
	if v.Key != nil && !pfIsIdent(v.Key, "_") {
		keyName = v.Key.(*ast.Ident).Name
	}
	if v.Value != nil && !pfIsIdent(v.Value, "_") {
		valName = v.Value.(*ast.Ident).Name
	}
	switch {
	case strings.HasPrefix(x.typ, "map[string]*"):
		// Go: unspecified order; the model: list order (whitelisted functions only, see the header of SchemaPostSem.lean)
		if !t.sp.mapRange {
			t.fail(v, "range over a map (unspecified order) in a function that is not whitelisted for it")
		}
		elemT := x.typ[len("map[string]"):]
		if valName == "" {
			t.fail(v, "range over a map without a value variable")
		}
		if t.writes(v.Body, valName) {
			// the value is a pointer INTO the map and the body writes through it: loop over the keys, read the live object
			if keyName != "" {
				t.fail(v, "range over a map with a key variable whose value is written through")
			}
			kl := t.leanIdent(v, valName) + "_key"
			l := t.declare(v, valName, elemT, false)
			lv := t.vars[valName]
			lv.home = &spHome{mapX: v.X, key: kl}
			t.vars[valName] = lv
			defer delete(t.vars, valName)
			head := []string{"for " + kl + " in mapKeys " + pfParen(x.lean) + " do",
				"  let mut " + l + " ← deref (mapGet " + pfParen(x.lean) + " " + kl + ")"}
			return append(head, t.loopBody(v.Body.List)...)
		}
		if t.writes(v.Body, root) {
			t.fail(v, "the loop body writes %s, which the loop ranges over", root)
		}
		l := t.declare(v, valName, elemT, false)
		defer delete(t.vars, valName)
		head := []string{"for " + l + " in " + x.lean + " do"}
		if keyName != "" {
			kl := t.declare(v, keyName, "string", false)
			defer delete(t.vars, keyName)
			head = append(head, "  let "+kl+" := Keyed.key "+l)
		}
		return append(head, t.loopBody(v.Body.List)...)
	case strings.HasPrefix(x.typ, "[]"):
		elemT := x.typ[2:]
		if valName != "" {
			if keyName != "" {
				t.fail(v, "range over a slice with both index and value")
			}
			if t.writes(v.Body, root) || t.writes(v.Body, valName) {
				t.fail(v, "the loop body writes %s or through %s", root, valName)
			}
			l := t.declare(v, valName, elemT, false)
			defer delete(t.vars, valName)
			return append([]string{"for " + l + " in " + x.lean + " do"}, t.loopBody(v.Body.List)...)
		}
		if keyName == "" {
			t.fail(v, "range without variables")
		}
		// for i := range X: the length is taken once, at the start
		if t.writes(v.Body, keyName) {
			t.fail(v, "the loop body assigns the index %s", keyName)
		}
		l := t.declare(v, keyName, "int", false)
		defer delete(t.vars, keyName)
		return append([]string{"for " + l + " in intRange 0 (" + pfParen(x.lean) + ".length : Int) do"}, t.loopBody(v.Body.List)...)
	}
	t.fail(v, "range over a value of type %s", x.typ)
	return nil
}

// forStmt: `for i := e; i < len(x); i++` and `for i := e; i >= 0; i--` with an index the body does not assign.
func (t *spTr) forStmt(v *ast.ForStmt) []string {
	init, ok1 := v.Init.(*ast.AssignStmt)
	cond, ok2 := v.Cond.(*ast.BinaryExpr)
	post, ok3 := v.Post.(*ast.IncDecStmt)
	if !ok1 || !ok2 || !ok3 || init.Tok != token.DEFINE || len(init.Lhs) != 1 || len(init.Rhs) != 1 {
		t.fail(v, "for loop (only `for i := e; i < len(x); i++` and `for i := e; i >= 0; i--`)")
	}
	id, ok := init.Lhs[0].(*ast.Ident)
	if !ok || !pfIsIdent(cond.X, id.Name) || !pfIsIdent(post.X, id.Name) {
		t.fail(v, "for loop: init, condition and post statement must be about the same index")
	}
	start := t.expr(init.Rhs[0])
	if start.typ != "int" {
		t.fail(v, "for loop: index of type %s", start.typ)
	}
	if t.writes(v.Body, id.Name) {
		t.fail(v, "the loop body assigns the index %s", id.Name)
	}
	var head string
	switch {
	case cond.Op == token.LSS && post.Tok == token.INC:
		lc, ok := cond.Y.(*ast.CallExpr)
		if !ok || !t.isBuiltin(lc.Fun, "len") || len(lc.Args) != 1 {
			t.fail(v, "for loop: the bound must be len(x)")
		}
		// len(x) is evaluated before every iteration: x must not change in the body
		if t.writes(v.Body, pfRoot(lc.Args[0])) {
			t.fail(v, "the loop body writes %s, whose length bounds the loop", pfRoot(lc.Args[0]))
		}
		bound := t.expr(lc)
		l := t.declare(v, id.Name, "int", false)
		head = "for " + l + " in intRange " + pfParen(start.lean) + " " + bound.lean + " do"
	case cond.Op == token.GEQ && post.Tok == token.DEC:
		if bl, ok := cond.Y.(*ast.BasicLit); !ok || bl.Value != "0" {
			t.fail(v, "for loop: a downward loop must end with `i >= 0`")
		}
		l := t.declare(v, id.Name, "int", false)
		head = "for " + l + " in downFrom " + pfParen(start.lean) + " do"
	default:
		t.fail(v, "for loop (only `for i := e; i < len(x); i++` and `for i := e; i >= 0; i--`)")
	}
	defer delete(t.vars, id.Name)
	return append([]string{head}, t.loopBody(v.Body.List)...)
}

// ---- calls ----

func (t *spTr) calleeSpec(ce *ast.CallExpr) *spSpec {
	if id, ok := ce.Fun.(*ast.Ident); ok && !t.isLocal(id.Name) {
		if sp, ok := t.g.specs[id.Name]; ok {
			return sp
		}
	}
	if se, ok := ce.Fun.(*ast.SelectorExpr); ok {
		if rid, ok := se.X.(*ast.Ident); ok {
			if rv, ok := t.vars[rid.Name]; ok {
				if sp, ok := t.g.specs[structOf(rv.typ)+"."+se.Sel.Name]; ok {
					return sp
				}
			}
		}
	}
	return nil
}

func (t *spTr) calleeRecv(ce *ast.CallExpr) ast.Expr {
	if se, ok := ce.Fun.(*ast.SelectorExpr); ok {
		return se.X
	}
	return nil
}

func (t *spTr) calleeParams(sp *spSpec) []pfParam {
	callee := t.g.pkg.funcs[sp.key]
	var params []pfParam
	if callee.Recv != nil {
		r := callee.Recv.List[0]
		if len(r.Names) != 1 {
			die("SchemaPost: receiver of %s has no name", sp.key)
		}
		params = append(params, pfParam{r.Names[0].Name, pfTypeStr(r.Type)})
	}
	return append(params, pfParams(callee)...)
}

func (t *spTr) calleeActuals(ce *ast.CallExpr) []ast.Expr {
	var actual []ast.Expr
	if r := t.calleeRecv(ce); r != nil {
		actual = append(actual, r)
	}
	return append(actual, ce.Args...)
}

// callTranslated: the Lean lines of a call of a translated function (the call, then the write-backs of what it
// wrote through pointers). inExpr: only the call term is wanted (no written-through parameters).
func (t *spTr) callTranslated(ce *ast.CallExpr, sp *spSpec, recv ast.Expr, args []ast.Expr, inExpr bool) ([]string, string) {
	if t.g.order[sp.key] > t.g.order[t.sp.key] && !(sp.group != 0 && sp.group == t.sp.group) {
		t.fail(ce, "%s is translated after %s (order of spSpecs)", sp.key, t.sp.key)
	}
	params := t.calleeParams(sp)
	actual := t.calleeActuals(ce)
	if len(params) != len(actual) {
		t.fail(ce, "arity of %s", sp.key)
	}
	var leanArgs []string
	var tmps []string
	schemaArg := ""
	seenRoots := map[string]bool{}
	calleeRes := []string{}
	if sp.result != "" {
		for _, r := range strings.Split(sp.result, ", ") {
			if r != "error" {
				calleeRes = append(calleeRes, r)
			}
		}
	}
	if len(calleeRes) > 1 || (len(calleeRes) == 1 && !inExpr) {
		t.fail(ce, "the result of %s is dropped or not supported here", sp.key)
	}
	for i, p := range params {
		a := actual[i]
		isSchema := sp.schema == "recv" && i == 0 && recv != nil
		if sp.inout[p.name] {
			var target ast.Expr
			if ue, ok := a.(*ast.UnaryExpr); ok && ue.Op == token.AND {
				target = ue.X
			} else {
				target = a // a pointer / map variable (or a pointer-valued path): the pointee is what the model holds
			}
			cur := t.expr(target)
			if cur.nullable {
				t.fail(a, "possibly nil pointer passed for the written-through parameter %s of %s", p.name, sp.key)
			}
			if strings.TrimPrefix(cur.typ, "*") != strings.TrimPrefix(p.typ, "*") {
				t.fail(a, "argument of type %s for the written-through parameter %s %s of %s", cur.typ, p.name, p.typ, sp.key)
			}
			t.checkRootArg(a, target)
			rootStr := t.str(target)
			if seenRoots[rootStr] {
				t.fail(a, "%s is passed twice as a written-through argument (aliasing)", rootStr)
			}
			seenRoots[rootStr] = true
			t.tmp++
			tmp := fmt.Sprintf("r_%d", t.tmp)
			tmps = append(tmps, tmp)
			leanArgs = append(leanArgs, pfParen(cur.lean))
			if isSchema {
				schemaArg = cur.lean
				leanArgs = leanArgs[:len(leanArgs)-1]
			}
			continue
		}
		var x spVal
		if ue, ok := a.(*ast.UnaryExpr); ok && ue.Op == token.AND && strings.HasPrefix(p.typ, "*") {
			x = t.expr(ue.X) // a pointer the callee only reads: its pointee
			x.typ = "*" + x.typ
		} else {
			x = t.expr(a)
		}
		if strings.TrimPrefix(x.typ, "*") != strings.TrimPrefix(p.typ, "*") || strings.HasPrefix(p.typ, "*") != strings.HasPrefix(x.typ, "*") {
			if !(strings.HasPrefix(p.typ, "*") && "*"+x.typ == p.typ && isSchema) {
				t.fail(a, "argument of type %s for the parameter %s %s of %s", x.typ, p.name, p.typ, sp.key)
			}
		}
		val := x.lean
		if sp.nilable[p.name] {
			if !x.nullable {
				val = "some " + pfParen(val)
			}
		} else if x.nullable {
			t.fail(a, "possibly nil pointer passed to %s", sp.key)
		}
		if isSchema {
			schemaArg = val
			continue
		}
		leanArgs = append(leanArgs, pfParen(val))
	}
	head := sp.lean
	switch sp.schema {
	case "implicit":
		if t.sigma == "" {
			t.fail(ce, "%s needs the schema", sp.key)
		}
		schemaArg = t.sigma
	case "recv":
		if schemaArg == "" {
			t.fail(ce, "%s: no receiver", sp.key)
		}
	}
	if sp.schema != "" && !(sp.schema == "recv" && sp.inout[params[0].name]) {
		head += " " + pfParen(schemaArg)
	}
	if sp.fuel {
		if sp.group != 0 && sp.group == t.sp.group || sp.key == t.sp.key {
			head += " fuel"
			t.recur = true
		} else {
			head += " (postFuel " + pfParen(schemaArg) + ")"
		}
	}
	if sp.schema == "recv" && sp.inout[params[0].name] {
		leanArgs = append([]string{pfParen(schemaArg)}, leanArgs...)
	}
	if sp.marks {
		if !t.sp.marks && !t.sp.scope {
			t.fail(ce, "%s reaches SetRecursive; the calling function has no marks in the generator's spec", sp.key)
		}
		leanArgs = append(leanArgs, "marks")
		tmps = append(tmps, "")
	}
	call := strings.TrimSpace(head + " " + strings.Join(leanArgs, " "))
	if inExpr {
		if len(tmps) != 0 {
			t.fail(ce, "call of %s inside an expression", sp.key)
		}
		return []string{call}, calleeRes[0]
	}
	for i := range tmps {
		if tmps[i] == "" {
			t.tmp++
			tmps[i] = fmt.Sprintf("r_%d", t.tmp)
		}
	}
	var out []string
	switch len(tmps) {
	case 0:
		out = append(out, call)
	case 1:
		out = append(out, "let "+tmps[0]+" ← "+call)
	default:
		out = append(out, "let ("+strings.Join(tmps, ", ")+") ← "+call)
	}
	k := 0
	for i, p := range params {
		if !sp.inout[p.name] {
			continue
		}
		a := actual[i]
		target := a
		if ue, ok := a.(*ast.UnaryExpr); ok && ue.Op == token.AND {
			target = ue.X
		}
		out = append(out, t.store(a, target, tmps[k], "")...)
		k++
	}
	if sp.marks {
		out = append(out, "marks := "+tmps[len(tmps)-1])
	}
	return out, ""
}

// checkRootArg: what is passed in a written-through position must itself be writable here.
func (t *spTr) checkRootArg(n ast.Node, target ast.Expr) {
	root := pfRoot(target)
	lv, ok := t.vars[root]
	if !ok {
		t.fail(n, "%s is not rooted at a local", t.str(target))
	}
	if lv.param && !lv.inout && (strings.HasPrefix(lv.typ, "*") || strings.HasPrefix(lv.typ, "map[")) {
		t.fail(n, "%s is passed to a callee that writes through it, but the parameter %s is not declared as written-through in the generator's spec", t.str(target), root)
	}
}

func (t *spTr) callStmt(ce *ast.CallExpr) []string {
	if id, ok := ce.Fun.(*ast.Ident); ok && !t.isLocal(id.Name) {
		switch id.Name {
		case "panic":
			s, ok := "", false
			if len(ce.Args) == 1 {
				s, ok = t.strLit(ce.Args[0])
			}
			if !ok {
				t.fail(ce, "panic with something else than a string literal")
			}
			return []string{"throw (.panic " + t.g.lit(s) + ")"}
		case "delete":
			if len(ce.Args) != 2 {
				t.fail(ce, "delete arity")
			}
			t.checkRoot(ce, ce.Args[0])
			m := t.expr(ce.Args[0])
			k := t.expr(ce.Args[1])
			if k.typ != "string" || m.nullable {
				t.fail(ce, "delete(%s, %s)", m.typ, k.typ)
			}
			switch {
			case m.typ == "map[string]bool":
				return t.store(ce, ce.Args[0], "setDelete "+pfParen(m.lean)+" "+pfParen(k.lean), m.typ)
			case strings.HasPrefix(m.typ, "map[string]*"):
				return t.store(ce, ce.Args[0], "mapDelete "+pfParen(m.lean)+" "+pfParen(k.lean), m.typ)
			}
			t.fail(ce, "delete on a %s", m.typ)
		}
	}
	if t.isPkgCall(ce, "sort", "Slice") {
		return t.sortSlice(ce)
	}
	if sp := t.calleeSpec(ce); sp != nil {
		if sp.result != "" {
			t.fail(ce, "the result of %s is dropped", sp.key)
		}
		lines, _ := t.callTranslated(ce, sp, t.calleeRecv(ce), ce.Args, false)
		return lines
	}
	// x.SetRecursive() on a `recursable`
	if se, ok := ce.Fun.(*ast.SelectorExpr); ok && se.Sel.Name == "SetRecursive" && len(ce.Args) == 0 {
		x := t.expr(se.X)
		if x.typ != "recursable" || x.nullable {
			t.fail(ce, "SetRecursive on a %s (only on an element of recurseStack.fields)", x.typ)
		}
		if !t.sp.marks {
			t.fail(ce, "SetRecursive in a function that has no marks in the generator's spec")
		}
		return []string{"marks ← " + pfParen(x.lean) + ".setRecursive marks"}
	}
	t.fail(ce, "call statement %s is not supported", t.str(ce))
	return nil
}

// sort.Slice(X, func(i, j int) bool { return X[i].Name < X[j].Name })
func (t *spTr) sortSlice(ce *ast.CallExpr) []string {
	bad := func() {
		t.fail(ce, "sort.Slice: only sort.Slice(x, func(i, j int) bool { return x[i].Name < x[j].Name })")
	}
	if len(ce.Args) != 2 {
		bad()
	}
	fl, ok := ce.Args[1].(*ast.FuncLit)
	if !ok || len(fl.Body.List) != 1 || fl.Type.Results == nil || len(fl.Type.Results.List) != 1 || pfTypeStr(fl.Type.Results.List[0].Type) != "bool" {
		bad()
	}
	var ps []pfParam
	for _, f := range fl.Type.Params.List {
		for _, n := range f.Names {
			ps = append(ps, pfParam{n.Name, pfTypeStr(f.Type)})
		}
	}
	rs, isRet := fl.Body.List[0].(*ast.ReturnStmt)
	if len(ps) != 2 || ps[0].typ != "int" || ps[1].typ != "int" || ps[0].name == ps[1].name || !isRet || len(rs.Results) != 1 {
		bad()
	}
	be, ok := rs.Results[0].(*ast.BinaryExpr)
	if !ok || be.Op != token.LSS {
		bad()
	}
	xs := t.str(ce.Args[0])
	if t.str(be.X) != xs+"["+ps[0].name+"].Name" || t.str(be.Y) != xs+"["+ps[1].name+"].Name" || t.isLocal(ps[0].name) || t.isLocal(ps[1].name) {
		bad()
	}
	x := t.expr(ce.Args[0])
	if !strings.HasPrefix(x.typ, "[]*") || x.nullable {
		bad()
	}
	// .Name of the element type must be the key the model sorts by
	_, fi := t.fieldInfo(ce, x.typ[3:], "Name")
	if fi.get != "%s.name" {
		bad()
	}
	t.checkRoot(ce, ce.Args[0])
	return t.store(ce, ce.Args[0], "sortByName "+pfParen(x.lean), x.typ)
}

// ---- one function ----

func (g *spGen) translate(sp *spSpec) string {
	fd, ok := g.pkg.funcs[sp.key]
	if !ok {
		die("SchemaPost: function %s not found in %s", sp.key, pfDir)
	}
	t := &spTr{g: g, sp: sp, fd: fd, rel: g.pkg.frel[sp.key], vars: map[string]spVar{}, guards: map[string]string{},
		gused: map[string]bool{}}
	if fd.Body == nil || len(fd.Body.List) == 0 {
		t.fail(fd, "no body")
	}
	ast.Inspect(fd.Body, func(n ast.Node) bool {
		switch v := n.(type) {
		case *ast.GoStmt, *ast.DeferStmt, *ast.LabeledStmt, *ast.SelectStmt, *ast.SendStmt, *ast.TypeSwitchStmt:
			t.fail(v, "statement %T is not supported", v)
		}
		return true
	})
	if fd.Type.TypeParams != nil {
		t.fail(fd, "type parameters")
	}
	var resTypes []string
	if fd.Type.Results != nil {
		for _, r := range fd.Type.Results.List {
			if len(r.Names) != 0 {
				t.fail(fd, "named results")
			}
			resTypes = append(resTypes, pfTypeStr(r.Type))
		}
	}
	if strings.Join(resTypes, ", ") != sp.result {
		t.fail(fd, "result types %q, the generator's spec expects %q", strings.Join(resTypes, ", "), sp.result)
	}
	for i, r := range resTypes {
		if r == "error" && i != len(resTypes)-1 {
			t.fail(fd, "an error result that is not the last one")
		}
	}
	var params []pfParam
	if fd.Recv != nil {
		params = append(params, pfParam{t.recvName(), pfTypeStr(fd.Recv.List[0].Type)})
	}
	params = append(params, pfParams(fd)...)
	for _, set := range []map[string]bool{sp.inout, sp.nilable} {
		for n := range set {
			found := false
			for _, p := range params {
				found = found || p.name == n
			}
			if !found {
				t.fail(fd, "the spec's parameter %s does not exist", n)
			}
		}
	}
	var binders, tys, argNames, prologue []string
	switch sp.schema {
	case "implicit":
		binders = append(binders, "(σ : Schema)")
		t.sigma = "σ"
	case "recv":
		if len(params) == 0 || fd.Recv == nil || params[0].typ != "*Schema" {
			t.fail(fd, "the spec says the receiver is the schema; the receiver is not a *Schema")
		}
	}
	for i, p := range params {
		ok := strings.HasPrefix(p.typ, "*") || strings.HasPrefix(p.typ, "map[") || strings.HasPrefix(p.typ, "[]") ||
			p.typ == "string" || p.typ == "FieldType"
		if !ok {
			t.fail(fd, "parameter %s of type %s is not supported", p.name, p.typ)
		}
		if (strings.HasPrefix(p.typ, "map[")) && !sp.inout[p.name] {
			t.fail(fd, "the map parameter %s is not declared as written-through in the generator's spec", p.name)
		}
		l := t.leanIdent(fd, p.name)
		lt := spLeanTypeOf(p.typ)
		if sp.nilable[p.name] {
			if !strings.HasPrefix(p.typ, "*") || sp.inout[p.name] {
				t.fail(fd, "the spec's possibly nil parameter %s", p.name)
			}
			lt = "Option " + pfParen(lt)
		}
		isSchema := sp.schema == "recv" && i == 0
		switch {
		case sp.inout[p.name]:
			t.vars[p.name] = spVar{lean: l, typ: p.typ, inout: true, param: true}
			t.inouts = append(t.inouts, p.name)
			tys = append(tys, lt)
			argNames = append(argNames, l+"_in")
			prologue = append(prologue, "let mut "+l+" := "+l+"_in")
			if isSchema {
				t.sigma = l
			}
		case isSchema:
			t.vars[p.name] = spVar{lean: l, typ: p.typ, param: true}
			binders = append(binders, "("+l+" : Schema)")
			t.sigma = l
		default:
			t.vars[p.name] = spVar{lean: l, typ: p.typ, param: true, nullable: sp.nilable[p.name]}
			tys = append(tys, lt)
			argNames = append(argNames, l)
		}
	}
	if sp.marks && sp.scope {
		t.fail(fd, "spec: marks and scope")
	}
	if sp.marks {
		tys = append(tys, "Marks")
		argNames = append(argNames, "marks_in")
		prologue = append(prologue, "let mut marks := marks_in")
	}
	if sp.scope {
		prologue = append(prologue, "let mut marks : Marks := {}")
	}
	var resParts []string
	for _, r := range resTypes {
		if r != "error" {
			resParts = append(resParts, spLeanTypeOf(r))
		}
	}
	for _, n := range t.inouts {
		resParts = append(resParts, spLeanTypeOf(t.vars[n].typ))
	}
	if sp.marks {
		resParts = append(resParts, "Marks")
	}
	resLean := "Unit"
	if len(resParts) > 0 {
		resLean = strings.Join(resParts, " × ")
	}
	body := append(prologue, t.block(fd.Body.List)...)
	switch last := fd.Body.List[len(fd.Body.List)-1].(type) {
	case *ast.ReturnStmt:
	case *ast.ExprStmt:
		ce, isCall := last.X.(*ast.CallExpr)
		if !isCall || !t.isBuiltin(ce.Fun, "panic") {
			if sp.result != "" {
				t.fail(last, "the function does not end with a return")
			}
			body = append(body, t.retLine()...)
		}
	default:
		if sp.result != "" {
			t.fail(last, "the function does not end with a return")
		}
		body = append(body, t.retLine()...)
	}
	var sb strings.Builder
	sig := strings.Join(strings.Fields(pfFuncTypeStr(g.pkg.fsets[t.rel], fd.Type)), " ")
	sig = strings.ReplaceAll(strings.ReplaceAll(sig, "( ", "("), ", )", ")")
	recv := ""
	if fd.Recv != nil {
		recv = "(" + params[0].name + " " + params[0].typ + ") "
	}
	fmt.Fprintf(&sb, "/-- %s `func %s%s%s` -/\n", t.rel, recv, fd.Name.Name, strings.TrimPrefix(sig, "func"))
	if sp.fuel {
		if !t.recur {
			t.fail(fd, "the spec gives fuel to a function that calls neither itself nor a function of its group")
		}
		pats0 := make([]string, len(argNames))
		for i := range pats0 {
			pats0[i] = "_"
		}
		fmt.Fprintf(&sb, "def %s %s: Nat → %s → Except PErr (%s)\n", sp.lean, pfJoinSp(binders), strings.Join(tys, " → "), resLean)
		fmt.Fprintf(&sb, "  | 0, %s => throw .outOfFuel\n", strings.Join(pats0, ", "))
		fmt.Fprintf(&sb, "  | fuel + 1, %s => do\n", strings.Join(argNames, ", "))
		for _, l := range body {
			sb.WriteString("    " + l + "\n")
		}
		if sp.group != 0 {
			sb.WriteString("termination_by structural fuel => fuel\n")
		}
	} else {
		if t.recur {
			t.fail(fd, "recursive function without fuel in the spec")
		}
		var ab []string
		for i := range argNames {
			ab = append(ab, "("+argNames[i]+" : "+tys[i]+")")
		}
		fmt.Fprintf(&sb, "def %s %s%s : Except PErr (%s) := do\n", sp.lean, pfJoinSp(binders), strings.Join(ab, " "), resLean)
		for _, l := range body {
			sb.WriteString("  " + l + "\n")
		}
	}
	return sb.String()
}

// spCheckSetRecursive: the untranslated part (see the header) still reads as the text the model was written for.
func spCheckSetRecursive(p *pfPkg) {
	var sb strings.Builder
	found := false
	for rel, f := range p.files {
		for _, d := range f.Decls {
			gd, ok := d.(*ast.GenDecl)
			if !ok || gd.Tok != token.TYPE {
				continue
			}
			for _, s := range gd.Specs {
				ts := s.(*ast.TypeSpec)
				if it, ok := ts.Type.(*ast.InterfaceType); ok && ts.Name.Name == "recursable" {
					found = true
					sb.WriteString("type recursable ")
					printer.Fprint(&sb, p.fsets[rel], it)
					sb.WriteString("\n")
				}
			}
		}
	}
	if !found {
		die("SchemaPost: the interface recursable is gone")
	}
	for _, key := range []string{"StructField.SetRecursive", "FieldType.SetRecursive", "MultimapField.SetRecursive"} {
		fd, ok := p.funcs[key]
		if !ok {
			die("SchemaPost: method %s not found", key)
		}
		c := *fd
		c.Doc = nil
		printer.Fprint(&sb, p.fsets[p.frel[key]], &c)
		sb.WriteString("\n")
	}
	for key := range p.funcs {
		if strings.HasSuffix(key, ".SetRecursive") && key != "StructField.SetRecursive" && key != "FieldType.SetRecursive" && key != "MultimapField.SetRecursive" {
			die("SchemaPost: %s: a further implementation of recursable", key)
		}
	}
	if sb.String() != spSetRecursiveText {
		die("SchemaPost: the interface recursable / the SetRecursive methods changed; Recursable.setRecursive of SchemaPostSem.lean was written for\n%s\nnow the source reads\n%s", spSetRecursiveText, sb.String())
	}
	// the flags are written nowhere else
	for rel, f := range p.files {
		ast.Inspect(f, func(n ast.Node) bool {
			as, ok := n.(*ast.AssignStmt)
			if !ok {
				return true
			}
			for _, l := range as.Lhs {
				if se, ok := l.(*ast.SelectorExpr); ok && se.Sel.Name == "recursive" {
					pos := p.fsets[rel].Position(as.Pos())
					inSet := false
					for _, key := range []string{"FieldType.SetRecursive"} {
						fd := p.funcs[key]
						inSet = inSet || (p.frel[key] == rel && fd.Pos() <= as.Pos() && as.End() <= fd.End())
					}
					if !inSet {
						die("SchemaPost: %s:%d: the flag `recursive` is written outside FieldType.SetRecursive", rel, pos.Line)
					}
				}
			}
			return true
		})
	}
}

func genSchemaPost() {
	g := &spGen{pkg: pfLoad(), specs: map[string]*spSpec{}, order: map[string]int{}, litIx: map[string]int{}}
	spCheckSetRecursive(g.pkg)
	for i := range spSpecs {
		sp := &spSpecs[i]
		g.specs[sp.key] = sp
		g.order[sp.key] = i
		if j := strings.Index(sp.key, "."); j < 0 {
			g.specs[sp.key] = sp
		}
	}
	var sb strings.Builder
	var defs strings.Builder
	for i := range spSpecs {
		sp := &spSpecs[i]
		if sp.group != 0 && (i == 0 || spSpecs[i-1].group != sp.group) {
			defs.WriteString("mutual\n\n")
		}
		defs.WriteString(g.translate(sp) + "\n")
		if sp.group != 0 && (i == len(spSpecs)-1 || spSpecs[i+1].group != sp.group) {
			defs.WriteString("end\n\n")
		}
	}
	sb.WriteString("/- GENERATED by /verif/extract (schemapost.go) from go/pkg/schema/schema.go (Schema.ResolveRefs, resolveFieldType,\n" +
		"   computeRecursive*, markRecursive, findLast, Schema.PruneUnused, markReachableFrom*). Do not edit.\n" +
		"   Vocabulary: Stef/SchemaPostSem.lean (+ Stef/PrintFlowSem.lean). -/\n")
	sb.WriteString("import Stef.SchemaPostSem\n\nnamespace Stef.Gen.SchemaPost\n" +
		"open Stef.Idl (Name Prim FType Field Struct Multimap Enum Schema Marks applyMarks)\nopen Stef.PrintFlowSem Stef.SchemaPostSem\n\n")
	sb.WriteString("/-! the string literals of the translated functions, in order of first use (`@[simp]`: proofs unfold them\n    without naming one) -/\n")
	for i, s := range g.lits {
		fmt.Fprintf(&sb, "/-- %s -/\n@[simp] def lit_%d : Name := %s\n", strings.ReplaceAll(strconv.Quote(s), "-/", "-\\/"), i+1, pfCharList(s))
	}
	sb.WriteString("\n")
	sb.WriteString(defs.String())
	var q []string
	for _, s := range g.lits {
		q = append(q, strconv.Quote(s))
	}
	fmt.Fprintf(&sb, "/-- the string literals above, as Go wrote them (in order of first use). -/\ndef literals : List String := [%s]\n\n", strings.Join(q, ", "))
	sb.WriteString("end Stef.Gen.SchemaPost\n")
	writeOut("SchemaPost.lean", sb.String())
}
