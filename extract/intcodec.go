// intcodec.go: generator "IntCodec". Translates, statement by statement, the bodies of the byte-buffer
// methods of go/pkg/membuffer.go that the codecs use and of the integer / bool / string / dictionary-string
// codecs of go/pkg/codecs/{uint64,int64,bool,string,stringdict}.go (the list: icParts below) into Lean
// definitions over the vocabulary of lean/Stef/IntCodecSem.lean (output: Gen/IntCodec.lean). It continues
// floatcodec.go (same output style, a few of its helpers are used) with a larger subset:
//
//	types        int, uint, uint64, uintptr, int64, bool, string, error, []byte, []string, map[string]int,
//	             pkg.BitsWriter, pkg.BitsReader, *pkg.SizeLimiter, the translated structs (as a field: by value,
//	             through a pointer, or embedded), *T out parameters for T in uint64 int64 bool string
//	statements   x := e, x = e, a, b = e1, e2 (parallel), x op= e, place.f = e, *out = e, m[k] = v, var a, b T,
//	             x++ / x--, if [init;] cond / else / else if, return e.., panic(..), calls of whitelisted effect methods
//	             (BitsWriter.WriteBit/WriteBits, BitsReader.Consume, SizeLimiter.AddFrameBits/AddFrameBytes/AddDictElemSize),
//	             calls of ALREADY TRANSLATED methods on the receiver or on a field path of it (statement, or the
//	             whole right side of an assignment; the callee's panic propagates through Option.bind),
//	             `v, ok := m[k]`, `x, n := binary.Uvarint(b)`, `x := recv.<reader>.ReadBit()` as whole right sides
//	expressions  integer literals, "", nil, io.EOF, the package's error variables declared with errors.New, untyped
//	             constants (folded exactly), locals, parameters, field paths, *out, + - & | ^ << >> (int: wrapped;
//	             uint*: BitVec; int64: BitVec with arithmetic >>), unary - + !, comparisons (int64: signed; string ==),
//	             && || , conversions between the integer types, len, append(s, x), append(b, s...), make(map[string]int),
//	             b[i:], s[:0], s[i], unsafe.Sizeof(string), unsafe.String(&b[i], n), binary.AppendUvarint,
//	             recv.<reader>.Error(), <limiter>.DictLimitReached(), calls of translated single-`return` methods
//
// Everything else dies, naming the construct. No type checker is used: types come from the declarations.
//
// Scopes: a declaration that shadows a name of an enclosing scope is refused; `:=` re-uses a variable of the SAME
// scope (as Go does). Control flow as in floatcodec.go: an `if` without return / panic / possibly panicking
// operation inside becomes `let (assigned variables) := if ..`; any other `if` gets the rest of the function appended
// to both of its branches. Panics (index / slice out of range, negative shift count) are tests in front of the statement.
package main

import (
	"fmt"
	"go/ast"
	"go/constant"
	"go/parser"
	"go/token"
	"math/big"
	"path/filepath"
	"strconv"
	"strings"
)

func init() { register("IntCodec", genIntCodec) }

type icKind int

const (
	icNone icKind = iota
	icInt
	icUint
	icUint64
	icUintptr
	icInt64
	icBool
	icString
	icError
	icBytes
	icStrs
	icMap
	icUntyped
	icNil
	icBitsWriter
	icBitsReader
	icLimiter
	icStruct
	icOpaque
)

type icTy struct {
	k icKind
	s string // struct name (icStruct) or source text (icOpaque)
}

func (t icTy) unsigned() bool { return t.k == icUint || t.k == icUint64 || t.k == icUintptr }
func (t icTy) word() bool     { return t.unsigned() || t.k == icInt64 }

func (t icTy) goName() string {
	switch t.k {
	case icStruct, icOpaque:
		return t.s
	}
	return map[icKind]string{icNone: "(none)", icInt: "int", icUint: "uint", icUint64: "uint64", icUintptr: "uintptr", icInt64: "int64",
		icBool: "bool", icString: "string", icError: "error", icBytes: "[]byte", icStrs: "[]string", icMap: "map[string]int",
		icUntyped: "untyped constant", icNil: "nil", icBitsWriter: "pkg.BitsWriter", icBitsReader: "pkg.BitsReader",
		icLimiter: "*pkg.SizeLimiter"}[t.k]
}

func (t icTy) lean() string {
	if t.k == icStruct {
		return t.s
	}
	return map[icKind]string{icInt: "Int", icUint: "Word", icUint64: "Word", icUintptr: "Word", icInt64: "I64", icBool: "Bool",
		icString: "Str", icError: "Error", icBytes: "Bytes", icStrs: "(List Str)", icMap: "StrIntMap", icBitsWriter: "BitsWriter",
		icBitsReader: "BitsReader", icLimiter: "SizeLim"}[t.k]
}

type icVal struct {
	lean string
	ty   icTy
	c    *big.Int
}

type icField struct {
	name     string
	ty       icTy
	src      string
	embedded bool
}

type icStructDecl struct {
	name   string
	file   string
	fields []icField
}

type icMethod struct {
	lean    string
	params  []icTy
	results []icTy
	pure    bool
}

type icGen struct {
	fset    *token.FileSet
	files   map[string]*ast.File
	cur     string // file of the method being translated
	structs map[string]*icStructDecl
	methods map[string]*icMethod // "<Struct>.<Method>"
	mnames  map[string]bool      // names of the translated non-pure methods (for the may-panic scan)
	consts  map[string]map[string]*big.Int
	errVars map[string]string // package level error variables -> Lean
	tmp     int
}

func (g *icGen) fail(n ast.Node, f string, a ...any) {
	pos := ""
	if n != nil {
		p := g.fset.Position(n.Pos())
		pos = fmt.Sprintf("%s:%d: ", g.cur, p.Line)
	}
	die("%s%s", pos, fmt.Sprintf(f, a...))
}

var icReserved = map[string]bool{}

func init() {
	for _, w := range strings.Fields(`I64 Str Error Bytes SizeLim StrIntMap List isErr errEOF errInvalidRefNum ineg i64OfInt intOfI64
		i64lt i64le i64shr lenBytes lenStrs lenMap sliceFrom sliceFromPanics strsIndex strsIndexPanics unsafeString
		unsafeStringPanics sizeofString mapEmpty mapLookup mapSet uvarint appendUvarint limAddFrameBits limAddFrameBytes
		limAddDictElemSize limDictLimitReached readerErr wrapI iadd isub uintOfInt intOfUint writeBit writeBits readBit
		consume bind io binary unsafe errors len append make int64 uintptr string byte`) {
		icReserved[w] = true
	}
}

func (g *icGen) checkName(n ast.Node, name string) {
	if !fcIdentRe.MatchString(name) || fcReserved[name] || icReserved[name] || fcTmpRe.MatchString(name) {
		g.fail(n, "identifier %q cannot be used as a Lean name by this generator", name)
	}
}

// typeOf: the type of a type expression as written in file g.cur.
func (g *icGen) typeOf(e ast.Expr) icTy {
	switch v := e.(type) {
	case *ast.Ident:
		switch v.Name {
		case "int":
			return icTy{k: icInt}
		case "uint":
			return icTy{k: icUint}
		case "uint64":
			return icTy{k: icUint64}
		case "uintptr":
			return icTy{k: icUintptr}
		case "int64":
			return icTy{k: icInt64}
		case "bool":
			return icTy{k: icBool}
		case "string":
			return icTy{k: icString}
		case "error":
			return icTy{k: icError}
		}
		if st, ok := g.structs[v.Name]; ok && icSamePkg(st.file, g.cur) {
			return icTy{k: icStruct, s: v.Name}
		}
	case *ast.SelectorExpr:
		if isIdent(v.X, "pkg") {
			switch v.Sel.Name {
			case "BitsWriter":
				return icTy{k: icBitsWriter}
			case "BitsReader":
				return icTy{k: icBitsReader}
			}
			if st, ok := g.structs[v.Sel.Name]; ok && strings.HasPrefix(st.file, "go/pkg/") && !strings.Contains(st.file[len("go/pkg/"):], "/") {
				return icTy{k: icStruct, s: v.Sel.Name}
			}
		}
	case *ast.StarExpr:
		if s, ok := v.X.(*ast.SelectorExpr); ok && isIdent(s.X, "pkg") && s.Sel.Name == "SizeLimiter" {
			return icTy{k: icLimiter}
		}
		// a pointer to a translated struct of the same package: the struct value
		if id, ok := v.X.(*ast.Ident); ok {
			if st, ok := g.structs[id.Name]; ok && icSamePkg(st.file, g.cur) {
				return icTy{k: icStruct, s: id.Name}
			}
		}
	case *ast.ArrayType:
		if v.Len == nil {
			if isIdent(v.Elt, "byte") {
				return icTy{k: icBytes}
			}
			if isIdent(v.Elt, "string") {
				return icTy{k: icStrs}
			}
		}
	case *ast.MapType:
		if isIdent(v.Key, "string") && isIdent(v.Value, "int") {
			return icTy{k: icMap}
		}
	}
	return icTy{k: icOpaque, s: icTypeString(e)}
}

func icTypeString(e ast.Expr) string {
	if m, ok := e.(*ast.MapType); ok {
		return "map[" + icTypeString(m.Key) + "]" + icTypeString(m.Value)
	}
	return fcTypeString(e)
}

func icSamePkg(a, b string) bool {
	return a[:strings.LastIndex(a, "/")] == b[:strings.LastIndex(b, "/")]
}

// declareStruct: reads `type name struct` of file rel (fields of earlier declared structs may be used).
func (g *icGen) declareStruct(rel, name string) *icStructDecl {
	g.cur = rel
	for _, d := range g.files[rel].Decls {
		gd, ok := d.(*ast.GenDecl)
		if !ok || gd.Tok != token.TYPE {
			continue
		}
		for _, s := range gd.Specs {
			ts := s.(*ast.TypeSpec)
			if ts.Name.Name != name {
				continue
			}
			st, ok := ts.Type.(*ast.StructType)
			if !ok || ts.TypeParams != nil {
				g.fail(ts, "type %s is not a plain struct", name)
			}
			g.checkName(ts, name)
			out := &icStructDecl{name: name, file: rel}
			for _, f := range st.Fields.List {
				ty := g.typeOf(f.Type)
				if len(f.Names) == 0 {
					if ty.k != icStruct {
						g.fail(f, "embedded field of type %s in %s is not a translated struct", fcTypeString(f.Type), name)
					}
					if _, isPtr := f.Type.(*ast.StarExpr); isPtr {
						g.fail(f, "embedded pointer in %s", name)
					}
					out.fields = append(out.fields, icField{ty.s, ty, icTypeString(f.Type), true})
					continue
				}
				for _, n := range f.Names {
					if ty.k != icOpaque {
						g.checkName(n, n.Name)
					}
					out.fields = append(out.fields, icField{n.Name, ty, icTypeString(f.Type), false})
				}
			}
			seen := map[string]bool{}
			for _, f := range out.fields {
				if seen[f.name] {
					g.fail(ts, "field %s twice in %s", f.name, name)
				}
				seen[f.name] = true
			}
			g.structs[name] = out
			return out
		}
	}
	die("%s: type %s not found", rel, name)
	return nil
}

// fieldPath: the path of field name in struct st: a direct field, or a field promoted from an embedded struct.
func (g *icGen) fieldPath(st *icStructDecl, name string) ([]string, icField, bool) {
	for _, f := range st.fields {
		if f.name == name {
			return []string{name}, f, true
		}
	}
	var found []string
	var ff icField
	for _, f := range st.fields {
		if !f.embedded {
			continue
		}
		if p, x, ok := g.fieldPath(g.structs[f.ty.s], name); ok {
			if found != nil {
				die("%s: ambiguous promoted field %s", st.file, name)
			}
			found, ff = append([]string{f.name}, p...), x
		}
	}
	return found, ff, found != nil
}

func (g *icGen) findMethod(rel, recvType, name string) *ast.FuncDecl {
	var found *ast.FuncDecl
	for _, d := range g.files[rel].Decls {
		fd, ok := d.(*ast.FuncDecl)
		if !ok || fd.Recv == nil || fd.Name.Name != name || len(fd.Recv.List) != 1 {
			continue
		}
		if fcTypeString(fd.Recv.List[0].Type) != "*"+recvType {
			continue
		}
		if found != nil {
			g.fail(fd, "two methods (*%s).%s", recvType, name)
		}
		found = fd
	}
	if found == nil {
		die("%s: method (*%s).%s not found", rel, recvType, name)
	}
	if found.Body == nil || found.Type.TypeParams != nil {
		g.fail(found, "method %s has no plain body", name)
	}
	return found
}

// ---- places ----

// a place: a local / parameter, the value behind a pointer parameter, or a field path from the receiver
type icPlace struct {
	root string
	path []string
	ty   icTy
}

func (p icPlace) read() string {
	if len(p.path) == 0 {
		return p.root
	}
	return p.root + "." + strings.Join(p.path, ".")
}

// update: the Lean term of the new value of the root when the place gets the value val
func (p icPlace) update(val string) string {
	if len(p.path) == 0 {
		return val
	}
	var rec func(prefix string, path []string) string
	rec = func(prefix string, path []string) string {
		if len(path) == 1 {
			return fmt.Sprintf("{ %s with %s := %s }", prefix, path[0], val)
		}
		return fmt.Sprintf("{ %s with %s := %s }", prefix, path[0], rec(prefix+"."+path[0], path[1:]))
	}
	return rec(p.root, p.path)
}

// ---- one function ----

type icVar struct {
	ty    icTy
	depth int
}

type icRest struct {
	stmts []ast.Stmt
	depth int
}

type icFn struct {
	g       *icGen
	st      *icStructDecl
	recv    string
	vars    map[string]icVar
	depth   int
	outs    []string
	results []icTy
	guards  []string
	noPanic bool // inside an `if` translated as a value: nothing that can panic may be emitted
}

func (t *icFn) fork() *icFn {
	c := *t
	c.vars = map[string]icVar{}
	for k, v := range t.vars {
		c.vars[k] = v
	}
	c.guards = nil
	return &c
}

func (t *icFn) popTo(depth int) {
	for k, v := range t.vars {
		if v.depth > depth {
			delete(t.vars, k)
		}
	}
	t.depth = depth
}

func (t *icFn) isOut(name string) bool {
	for _, o := range t.outs {
		if o == name {
			return true
		}
	}
	return false
}

func (t *icFn) shadowed(name string) bool { _, ok := t.vars[name]; return ok || name == t.recv }

func (t *icFn) constOf(name string) (*big.Int, bool) {
	c, ok := t.g.consts[t.g.cur][name]
	return c, ok
}

func icLit(c *big.Int, ty icTy) (string, bool) {
	lim := new(big.Int).Lsh(big.NewInt(1), 63)
	switch {
	case ty.k == icInt:
		if c.Cmp(lim) >= 0 || c.Cmp(new(big.Int).Neg(lim)) < 0 {
			return "", false
		}
		return fmt.Sprintf("(%s : Int)", c.String()), true
	case ty.unsigned():
		if c.Sign() < 0 || c.Cmp(two64) >= 0 {
			return "", false
		}
		return c.String() + "#64", true
	case ty.k == icInt64:
		if c.Cmp(lim) >= 0 || c.Cmp(new(big.Int).Neg(lim)) < 0 {
			return "", false
		}
		if c.Sign() < 0 {
			return fmt.Sprintf("(BitVec.ofInt 64 (%s))", c.String()), true
		}
		return c.String() + "#64", true
	}
	return "", false
}

func (t *icFn) as(n ast.Node, v icVal, ty icTy) string {
	if v.ty.k == icUntyped {
		s, ok := icLit(v.c, ty)
		if !ok {
			t.g.fail(n, "constant %s cannot be used at type %s", v.c.String(), ty.goName())
		}
		return s
	}
	if v.ty.k == icNil {
		if ty.k != icError {
			t.g.fail(n, "nil used at type %s", ty.goName())
		}
		return "none"
	}
	if v.ty != ty {
		t.g.fail(n, "type mismatch: %s used where %s is expected", v.ty.goName(), ty.goName())
	}
	return v.lean
}

func (t *icFn) guard(n ast.Node, cond, why string) {
	if t.noPanic {
		t.g.fail(n, "a possibly panicking operation (%s) inside an if that was translated as a value", why)
	}
	t.guards = append(t.guards, cond+" then none else  -- Go: "+why)
}

// place: e as a place (nil if e is not one).
func (t *icFn) place(e ast.Expr) *icPlace {
	g := t.g
	switch v := unparen(e).(type) {
	case *ast.Ident:
		if v.Name == t.recv {
			return &icPlace{root: t.recv, ty: icTy{k: icStruct, s: t.st.name}}
		}
		if x, ok := t.vars[v.Name]; ok && !t.isOut(v.Name) {
			return &icPlace{root: v.Name, ty: x.ty}
		}
	case *ast.StarExpr:
		if id, ok := v.X.(*ast.Ident); ok && t.isOut(id.Name) {
			return &icPlace{root: id.Name, ty: t.vars[id.Name].ty}
		}
	case *ast.SelectorExpr:
		base := t.place(v.X)
		if base == nil {
			return nil
		}
		if base.ty.k != icStruct {
			g.fail(v, "selector .%s on a value of type %s", v.Sel.Name, base.ty.goName())
		}
		st := g.structs[base.ty.s]
		path, f, ok := g.fieldPath(st, v.Sel.Name)
		if !ok {
			return nil // may be a method
		}
		if f.ty.k == icOpaque {
			g.fail(v, "field %s.%s of type %s is not modelled", st.name, f.name, f.src)
		}
		if base.root != t.recv {
			g.fail(v, "field of a local struct value is not in the subset")
		}
		return &icPlace{root: base.root, path: append(append([]string{}, base.path...), path...), ty: f.ty}
	}
	return nil
}

var icCmpOp = map[token.Token]string{token.EQL: "=", token.NEQ: "≠", token.LSS: "<", token.LEQ: "≤", token.GTR: ">", token.GEQ: "≥"}

func (t *icFn) expr(e ast.Expr) icVal {
	g := t.g
	switch v := e.(type) {
	case *ast.ParenExpr:
		return t.expr(v.X)
	case *ast.BasicLit:
		switch v.Kind {
		case token.INT:
			return icVal{ty: icTy{k: icUntyped}, c: bigOf(constant.MakeFromLiteral(v.Value, v.Kind, 0))}
		case token.STRING:
			if s, err := strconv.Unquote(v.Value); err == nil && s == "" {
				return icVal{lean: "([] : Str)", ty: icTy{k: icString}}
			}
		}
		g.fail(v, "literal %s: only integer literals and \"\" are in the subset", v.Value)
	case *ast.Ident:
		if !t.shadowed(v.Name) {
			switch v.Name {
			case "true", "false":
				return icVal{lean: v.Name, ty: icTy{k: icBool}}
			case "nil":
				return icVal{ty: icTy{k: icNil}}
			}
		}
		if v.Name == t.recv {
			g.fail(v, "the receiver used as a value")
		}
		if x, ok := t.vars[v.Name]; ok {
			if t.isOut(v.Name) {
				g.fail(v, "pointer parameter %s used without dereference", v.Name)
			}
			return icVal{lean: v.Name, ty: x.ty}
		}
		if c, ok := t.constOf(v.Name); ok {
			return icVal{ty: icTy{k: icUntyped}, c: c}
		}
		if l, ok := g.errVars[v.Name]; ok && icSamePkg(g.cur, "go/pkg/codecs/x.go") {
			return icVal{lean: l, ty: icTy{k: icError}}
		}
		g.fail(v, "identifier %s is neither a local, a parameter, a constant of the file nor a known error variable", v.Name)
	case *ast.StarExpr:
		if p := t.place(v); p != nil {
			return icVal{lean: p.read(), ty: p.ty}
		}
		g.fail(v, "dereference of something that is not a pointer parameter")
	case *ast.SelectorExpr:
		if id, ok := v.X.(*ast.Ident); ok && id.Name == "io" && !t.shadowed("io") && v.Sel.Name == "EOF" {
			return icVal{lean: "errEOF", ty: icTy{k: icError}}
		}
		if p := t.place(v); p != nil {
			return icVal{lean: p.read(), ty: p.ty}
		}
		g.fail(v, "selector %s is not a field path of the receiver", fcTypeString(v))
	case *ast.UnaryExpr:
		if v.Op == token.AND {
			g.fail(v, "address-of is only allowed as the first argument of unsafe.String")
		}
		x := t.expr(v.X)
		switch {
		case v.Op == token.NOT && x.ty.k == icBool:
			return icVal{lean: "(!" + x.lean + ")", ty: x.ty}
		case v.Op == token.SUB && x.ty.k == icUntyped:
			return icVal{ty: x.ty, c: new(big.Int).Neg(x.c)}
		case v.Op == token.ADD && (x.ty.k == icUntyped || x.ty.k == icInt || x.ty.word()):
			return x
		case v.Op == token.SUB && x.ty.k == icInt:
			return icVal{lean: "(ineg " + x.lean + ")", ty: x.ty}
		case v.Op == token.SUB && x.ty.word():
			return icVal{lean: "(0#64 - " + x.lean + ")", ty: x.ty}
		}
		g.fail(v, "unary operator %s at type %s is not in the subset", v.Op, x.ty.goName())
	case *ast.BinaryExpr:
		return t.binary(v)
	case *ast.CallExpr:
		return t.call(v)
	case *ast.IndexExpr:
		p := t.place(v.X)
		if p == nil || p.ty.k != icStrs {
			g.fail(v, "index expression: only s[i] on a []string place is in the subset (a map is read with `v, ok := m[k]`)")
		}
		i := t.as(v.Index, t.expr(v.Index), icTy{k: icInt})
		t.guard(v, fmt.Sprintf("if strsIndexPanics %s %s", p.read(), i), "index out of range panics")
		return icVal{lean: fmt.Sprintf("(strsIndex %s %s)", p.read(), i), ty: icTy{k: icString}}
	case *ast.SliceExpr:
		x := t.expr(v.X)
		if v.Slice3 || v.Max != nil {
			g.fail(v, "3-index slice")
		}
		switch {
		case x.ty.k == icBytes && v.Low != nil && v.High == nil:
			i := t.as(v.Low, t.expr(v.Low), icTy{k: icInt})
			t.guard(v, fmt.Sprintf("if sliceFromPanics %s %s", x.lean, i), "slice bounds out of range panics")
			return icVal{lean: fmt.Sprintf("(sliceFrom %s %s)", x.lean, i), ty: x.ty}
		case x.ty.k == icStrs && v.Low == nil && v.High != nil:
			h := t.expr(v.High)
			if h.ty.k == icUntyped && h.c.Sign() == 0 {
				return icVal{lean: "([] : List Str)", ty: x.ty}
			}
		}
		g.fail(v, "slice expression: only b[i:] on []byte and s[:0] on []string are in the subset")
	}
	g.fail(e, "expression form %T is not in the subset", e)
	return icVal{}
}

func (t *icFn) unify(n ast.Node, l, r icVal) (string, string, icTy) {
	ty := l.ty
	if ty.k == icUntyped || ty.k == icNil {
		ty = r.ty
	}
	return t.as(n, l, ty), t.as(n, r, ty), ty
}

func (t *icFn) binary(v *ast.BinaryExpr) icVal {
	g := t.g
	boolTy := icTy{k: icBool}
	switch v.Op {
	case token.LAND, token.LOR:
		l := t.expr(v.X)
		before := len(t.guards)
		r := t.expr(v.Y)
		if len(t.guards) != before {
			g.fail(v.Y, "a possibly panicking operation on the right of && / || is not in the subset (its panic would be conditional)")
		}
		if l.ty.k != icBool || r.ty.k != icBool {
			g.fail(v, "operands of %s must be bool", v.Op)
		}
		op := " && "
		if v.Op == token.LOR {
			op = " || "
		}
		return icVal{lean: "(" + l.lean + op + r.lean + ")", ty: boolTy}
	case token.EQL, token.NEQ, token.LSS, token.LEQ, token.GTR, token.GEQ:
		l, r := t.expr(v.X), t.expr(v.Y)
		if l.ty.k == icUntyped && r.ty.k == icUntyped {
			c := l.c.Cmp(r.c)
			res := map[token.Token]bool{token.EQL: c == 0, token.NEQ: c != 0, token.LSS: c < 0, token.LEQ: c <= 0, token.GTR: c > 0, token.GEQ: c >= 0}[v.Op]
			return icVal{lean: strconv.FormatBool(res), ty: boolTy}
		}
		if (l.ty.k == icError && r.ty.k == icNil) || (l.ty.k == icNil && r.ty.k == icError) {
			x := l
			if l.ty.k == icNil {
				x = r
			}
			switch v.Op {
			case token.NEQ:
				return icVal{lean: "(isErr " + x.lean + ")", ty: boolTy}
			case token.EQL:
				return icVal{lean: "(!(isErr " + x.lean + "))", ty: boolTy}
			}
		}
		ls, rs, ty := t.unify(v, l, r)
		eq := v.Op == token.EQL || v.Op == token.NEQ
		beq := map[token.Token]string{token.EQL: "==", token.NEQ: "!="}[v.Op]
		switch {
		case ty.k == icInt:
			return icVal{lean: fmt.Sprintf("decide (%s %s %s)", ls, icCmpOp[v.Op], rs), ty: boolTy}
		case (ty.word() || ty.k == icBool || ty.k == icString) && eq:
			return icVal{lean: fmt.Sprintf("(%s %s %s)", ls, beq, rs), ty: boolTy}
		case ty.unsigned(): // BitVec < ≤ are the unsigned orders
			return icVal{lean: fmt.Sprintf("decide (%s %s %s)", ls, icCmpOp[v.Op], rs), ty: boolTy}
		case ty.k == icInt64:
			switch v.Op {
			case token.LSS:
				return icVal{lean: fmt.Sprintf("(i64lt %s %s)", ls, rs), ty: boolTy}
			case token.LEQ:
				return icVal{lean: fmt.Sprintf("(i64le %s %s)", ls, rs), ty: boolTy}
			case token.GTR:
				return icVal{lean: fmt.Sprintf("(i64lt %s %s)", rs, ls), ty: boolTy}
			case token.GEQ:
				return icVal{lean: fmt.Sprintf("(i64le %s %s)", rs, ls), ty: boolTy}
			}
		}
		g.fail(v, "comparison %s at type %s is not in the subset", v.Op, ty.goName())
	case token.SHL, token.SHR:
		l, c := t.expr(v.X), t.expr(v.Y)
		if l.ty.k == icUntyped {
			if c.ty.k != icUntyped {
				g.fail(v, "shift of an untyped constant by a non-constant count is not in the subset")
			}
			r, ok := fcFold(v.Op, l.c, c.c)
			if !ok {
				g.fail(v, "constant shift cannot be evaluated")
			}
			return icVal{ty: l.ty, c: r}
		}
		if !l.ty.word() {
			g.fail(v, "shift of a value of type %s is not in the subset (only uint / uint64 / uintptr / int64)", l.ty.goName())
		}
		var cnt string
		switch {
		case c.ty.k == icUntyped:
			if c.c.Sign() < 0 || c.c.Cmp(big.NewInt(1<<20)) > 0 {
				g.fail(v.Y, "constant shift count %s", c.c.String())
			}
			cnt = c.c.String()
		case c.ty.unsigned():
			cnt = "(" + c.lean + ").toNat"
		case c.ty.k == icInt:
			t.guard(v, fmt.Sprintf("if decide (%s < 0)", c.lean), "negative shift count panics")
			cnt = "(" + c.lean + ").toNat"
		default:
			g.fail(v.Y, "shift count of type %s", c.ty.goName())
		}
		switch {
		case v.Op == token.SHL:
			return icVal{lean: "(" + l.lean + " <<< " + cnt + ")", ty: l.ty}
		case l.ty.k == icInt64:
			return icVal{lean: "(i64shr " + l.lean + " " + cnt + ")", ty: l.ty}
		}
		return icVal{lean: "(" + l.lean + " >>> " + cnt + ")", ty: l.ty}
	case token.ADD, token.SUB, token.AND, token.OR, token.XOR:
		l, r := t.expr(v.X), t.expr(v.Y)
		if l.ty.k == icUntyped && r.ty.k == icUntyped {
			c, ok := fcFold(v.Op, l.c, r.c)
			if !ok {
				g.fail(v, "constant expression cannot be evaluated")
			}
			return icVal{ty: l.ty, c: c}
		}
		ls, rs, ty := t.unify(v, l, r)
		switch {
		case ty.k == icInt && v.Op == token.ADD:
			return icVal{lean: fmt.Sprintf("(iadd %s %s)", ls, rs), ty: ty}
		case ty.k == icInt && v.Op == token.SUB:
			return icVal{lean: fmt.Sprintf("(isub %s %s)", ls, rs), ty: ty}
		case ty.word():
			op := map[token.Token]string{token.ADD: "+", token.SUB: "-", token.AND: "&&&", token.OR: "|||", token.XOR: "^^^"}[v.Op]
			return icVal{lean: fmt.Sprintf("(%s %s %s)", ls, op, rs), ty: ty}
		}
		g.fail(v, "operator %s at type %s is not in the subset", v.Op, ty.goName())
	}
	g.fail(v, "binary operator %s is not in the subset", v.Op)
	return icVal{}
}

// methodOn: `X.M` where X is a place of struct type (or the receiver) and M a translated method of it (possibly
// promoted from an embedded struct).
func (t *icFn) methodOn(fun ast.Expr) (*icPlace, *icMethod, string, bool) {
	sel, ok := fun.(*ast.SelectorExpr)
	if !ok {
		return nil, nil, "", false
	}
	p := t.place(sel.X)
	if p == nil || p.ty.k != icStruct {
		return nil, nil, "", false
	}
	if p.root != t.recv {
		return nil, nil, "", false
	}
	st := t.g.structs[p.ty.s]
	if m, ok := t.g.methods[st.name+"."+sel.Sel.Name]; ok {
		return p, m, sel.Sel.Name, true
	}
	var found *icPlace
	var fm *icMethod
	for _, f := range st.fields {
		if !f.embedded {
			continue
		}
		if m, ok := t.g.methods[f.ty.s+"."+sel.Sel.Name]; ok {
			if found != nil {
				t.g.fail(fun, "ambiguous promoted method %s", sel.Sel.Name)
			}
			found = &icPlace{root: p.root, path: append(append([]string{}, p.path...), f.name), ty: f.ty}
			fm = m
		}
	}
	if found != nil {
		return found, fm, sel.Sel.Name, true
	}
	return nil, nil, "", false
}

func (t *icFn) args(c *ast.CallExpr, name string, tys []icTy) []string {
	if len(c.Args) != len(tys) || c.Ellipsis != token.NoPos {
		t.g.fail(c, "%s with %d arguments", name, len(c.Args))
	}
	var out []string
	for i, a := range c.Args {
		out = append(out, t.as(a, t.expr(a), tys[i]))
	}
	return out
}

// call: calls allowed inside expressions (no effect on any place).
func (t *icFn) call(v *ast.CallExpr) icVal {
	g := t.g
	intTy := icTy{k: icInt}
	if id, ok := v.Fun.(*ast.Ident); ok && !t.shadowed(id.Name) {
		switch id.Name {
		case "int", "uint", "uint64", "uintptr", "int64":
			if len(v.Args) != 1 || v.Ellipsis != token.NoPos {
				g.fail(v, "conversion with %d arguments", len(v.Args))
			}
			to := map[string]icTy{"int": {k: icInt}, "uint": {k: icUint}, "uint64": {k: icUint64}, "uintptr": {k: icUintptr}, "int64": {k: icInt64}}[id.Name]
			x := t.expr(v.Args[0])
			switch {
			case x.ty.k == icUntyped:
				return icVal{lean: t.as(v, x, to), ty: to}
			case x.ty == to || (x.ty.word() && to.word()):
				return icVal{lean: x.lean, ty: to}
			case x.ty.k == icInt && to.unsigned():
				return icVal{lean: "(uintOfInt " + x.lean + ")", ty: to}
			case x.ty.k == icInt && to.k == icInt64:
				return icVal{lean: "(i64OfInt " + x.lean + ")", ty: to}
			case x.ty.unsigned() && to.k == icInt:
				return icVal{lean: "(intOfUint " + x.lean + ")", ty: to}
			case x.ty.k == icInt64 && to.k == icInt:
				return icVal{lean: "(intOfI64 " + x.lean + ")", ty: to}
			}
			g.fail(v, "conversion from %s to %s is not in the subset", x.ty.goName(), id.Name)
		case "len":
			if len(v.Args) != 1 || v.Ellipsis != token.NoPos {
				g.fail(v, "len with %d arguments", len(v.Args))
			}
			x := t.expr(v.Args[0])
			switch x.ty.k {
			case icString, icBytes:
				return icVal{lean: "(lenBytes " + x.lean + ")", ty: intTy}
			case icStrs:
				return icVal{lean: "(lenStrs " + x.lean + ")", ty: intTy}
			case icMap:
				return icVal{lean: "(lenMap " + x.lean + ")", ty: intTy}
			}
			g.fail(v, "len of a value of type %s is not in the subset", x.ty.goName())
		case "append":
			if len(v.Args) != 2 {
				g.fail(v, "append with %d arguments is not in the subset", len(v.Args))
			}
			s, x := t.expr(v.Args[0]), t.expr(v.Args[1])
			switch {
			case s.ty.k == icStrs && x.ty.k == icString && v.Ellipsis == token.NoPos:
				return icVal{lean: fmt.Sprintf("(%s ++ [%s])", s.lean, x.lean), ty: s.ty}
			case s.ty.k == icBytes && (x.ty.k == icString || x.ty.k == icBytes) && v.Ellipsis != token.NoPos:
				return icVal{lean: fmt.Sprintf("(%s ++ %s)", s.lean, x.lean), ty: s.ty}
			}
			g.fail(v, "append(%s, %s) in this form is not in the subset", s.ty.goName(), x.ty.goName())
		case "make":
			if len(v.Args) == 1 && g.typeOf(v.Args[0]).k == icMap {
				return icVal{lean: "mapEmpty", ty: icTy{k: icMap}}
			}
			g.fail(v, "make: only make(map[string]int) is in the subset")
		}
		g.fail(v, "call of %s is not in the whitelist", id.Name)
	}
	sel, ok := v.Fun.(*ast.SelectorExpr)
	if !ok {
		g.fail(v, "call form is not in the subset")
	}
	if id, ok := sel.X.(*ast.Ident); ok && !t.shadowed(id.Name) {
		switch id.Name + "." + sel.Sel.Name {
		case "unsafe.Sizeof":
			if len(v.Args) == 1 && v.Ellipsis == token.NoPos {
				if x := t.expr(v.Args[0]); x.ty.k == icString {
					return icVal{lean: "sizeofString", ty: icTy{k: icUintptr}}
				}
			}
			g.fail(v, "unsafe.Sizeof: only of a string value")
		case "unsafe.String":
			if len(v.Args) == 2 && v.Ellipsis == token.NoPos {
				if u, ok := v.Args[0].(*ast.UnaryExpr); ok && u.Op == token.AND {
					if ix, ok := u.X.(*ast.IndexExpr); ok {
						b := t.expr(ix.X)
						if b.ty.k == icBytes {
							i := t.as(ix.Index, t.expr(ix.Index), intTy)
							n := t.as(v.Args[1], t.expr(v.Args[1]), intTy)
							t.guard(v, fmt.Sprintf("if unsafeStringPanics %s %s %s", b.lean, i, n), "index out of range / negative length panics")
							return icVal{lean: fmt.Sprintf("(unsafeString %s %s %s)", b.lean, i, n), ty: icTy{k: icString}}
						}
					}
				}
			}
			g.fail(v, "unsafe.String: only unsafe.String(&b[i], n) with b a []byte")
		case "binary.AppendUvarint":
			a := t.args(v, "binary.AppendUvarint", []icTy{{k: icBytes}, {k: icUint64}})
			return icVal{lean: fmt.Sprintf("(appendUvarint %s %s)", a[0], a[1]), ty: icTy{k: icBytes}}
		}
		if id.Name == "unsafe" || id.Name == "binary" || id.Name == "io" || id.Name == "errors" || id.Name == "bits" || id.Name == "math" || id.Name == "utf8" || id.Name == "strings" {
			g.fail(v, "library call %s.%s is not in the whitelist", id.Name, sel.Sel.Name)
		}
	}
	if p, m, name, ok := t.methodOn(v.Fun); ok {
		if !m.pure {
			g.fail(v, "call of method %s inside an expression: only translated single-return methods may be called there", name)
		}
		a := t.args(v, name, m.params)
		return icVal{lean: "(" + strings.Join(append([]string{m.lean, p.read()}, a...), " ") + ")", ty: m.results[0]}
	}
	if p := t.place(sel.X); p != nil {
		switch {
		case p.ty.k == icBitsReader && sel.Sel.Name == "Error" && len(v.Args) == 0:
			return icVal{lean: "(readerErr " + p.read() + ")", ty: icTy{k: icError}}
		case p.ty.k == icLimiter && sel.Sel.Name == "DictLimitReached" && len(v.Args) == 0:
			return icVal{lean: "(limDictLimitReached " + p.read() + ")", ty: icTy{k: icBool}}
		}
		g.fail(v, "call %s.%s(..) (type %s) is not allowed inside an expression", p.read(), sel.Sel.Name, p.ty.goName())
	}
	g.fail(v, "call of %s is not in the whitelist", fcTypeString(v.Fun))
	return icVal{}
}

// multiCall: right sides that are allowed only as the WHOLE right side of an assignment: they yield several
// values and / or change a place. Returns the lines to emit first and the values.
func (t *icFn) multiCall(e ast.Expr, ind string) ([]string, []icVal, bool) {
	g := t.g
	switch c := unparen(e).(type) {
	case *ast.IndexExpr: // v, ok := m[k]
		p := t.place(c.X)
		if p == nil || p.ty.k != icMap {
			return nil, nil, false
		}
		k := t.as(c.Index, t.expr(c.Index), icTy{k: icString})
		g.tmp++
		tmp := fmt.Sprintf("r%d", g.tmp)
		return []string{fmt.Sprintf("%slet %s := mapLookup %s %s", ind, tmp, p.read(), k)},
			[]icVal{{lean: tmp + ".1", ty: icTy{k: icInt}}, {lean: tmp + ".2", ty: icTy{k: icBool}}}, true
	case *ast.CallExpr:
		sel, ok := c.Fun.(*ast.SelectorExpr)
		if !ok {
			return nil, nil, false
		}
		if id, ok := sel.X.(*ast.Ident); ok && id.Name == "binary" && !t.shadowed("binary") && sel.Sel.Name == "Uvarint" {
			a := t.args(c, "binary.Uvarint", []icTy{{k: icBytes}})
			g.tmp++
			tmp := fmt.Sprintf("r%d", g.tmp)
			return []string{fmt.Sprintf("%slet %s := uvarint %s", ind, tmp, a[0])},
				[]icVal{{lean: tmp + ".1", ty: icTy{k: icUint64}}, {lean: tmp + ".2", ty: icTy{k: icInt}}}, true
		}
		if p, m, name, ok := t.methodOn(c.Fun); ok && !m.pure {
			lines, tmp := t.bindCall(c, p, m, name, ind)
			n := 1 + len(m.results)
			var vals []icVal
			for i, r := range m.results {
				vals = append(vals, icVal{lean: tmp + icProj(i+1, n), ty: r})
			}
			return lines, vals, true
		}
		if p := t.place(sel.X); p != nil && p.ty.k == icBitsReader && sel.Sel.Name == "ReadBit" {
			t.args(c, "ReadBit", nil)
			g.tmp++
			tmp := fmt.Sprintf("r%d", g.tmp)
			return []string{fmt.Sprintf("%slet %s := readBit %s", ind, tmp, p.read()),
				fmt.Sprintf("%slet %s := %s", ind, p.root, p.update(tmp+".1"))}, []icVal{{lean: tmp + ".2", ty: icTy{k: icUint64}}}, true
		}
	}
	return nil, nil, false
}

// icProj: the projection of component i (0-based) of a right-nested tuple with n components
func icProj(i, n int) string {
	if n == 1 {
		return ""
	}
	s := strings.Repeat(".2", i)
	if i < n-1 {
		s += ".1"
	}
	return s
}

// bindCall: `(callee place args).bind fun rN =>` and the update of the place with the callee's receiver.
func (t *icFn) bindCall(c *ast.CallExpr, p *icPlace, m *icMethod, name, ind string) ([]string, string) {
	g := t.g
	if t.noPanic {
		g.fail(c, "call of %s (which may panic) inside an if that was translated as a value", name)
	}
	a := t.args(c, name, m.params)
	g.tmp++
	tmp := fmt.Sprintf("r%d", g.tmp)
	lines := t.withGuards(ind, nil)
	lines = append(lines, fmt.Sprintf("%s(%s).bind fun %s =>", ind, strings.Join(append([]string{m.lean, p.read()}, a...), " "), tmp))
	lines = append(lines, fmt.Sprintf("%slet %s := %s", ind, p.root, p.update(tmp+icProj(0, 1+len(m.results)))))
	return lines, tmp
}

func (t *icFn) zero(n ast.Node, ty icTy) string {
	switch {
	case ty.k == icInt:
		return "(0 : Int)"
	case ty.word():
		return "0#64"
	case ty.k == icBool:
		return "false"
	case ty.k == icString:
		return "([] : Str)"
	case ty.k == icError:
		return "none"
	}
	t.g.fail(n, "zero value of type %s", ty.goName())
	return ""
}

func (t *icFn) localTy(n ast.Node, ty icTy) {
	switch ty.k {
	case icInt, icUint, icUint64, icUintptr, icInt64, icBool, icString, icError, icBytes:
		return
	}
	t.g.fail(n, "local variable of type %s is not in the subset", ty.goName())
}

func (t *icFn) declare(n ast.Node, name string, ty icTy) {
	t.g.checkName(n, name)
	if t.shadowed(name) {
		t.g.fail(n, "declaration of %s shadows a name in scope (not in the subset)", name)
	}
	if _, isConst := t.constOf(name); isConst {
		t.g.fail(n, "declaration of %s shadows a constant (not in the subset)", name)
	}
	if _, isErr := t.g.errVars[name]; isErr {
		t.g.fail(n, "declaration of %s shadows an error variable (not in the subset)", name)
	}
	t.vars[name] = icVar{ty, t.depth}
}

func (t *icFn) resultTuple(extra []string) string {
	parts := append([]string{t.recv}, t.outs...)
	parts = append(parts, extra...)
	if len(parts) == 1 {
		return "some " + parts[0]
	}
	return "some (" + strings.Join(parts, ", ") + ")"
}

func (t *icFn) withGuards(ind string, lines []string) []string {
	var out []string
	for _, gd := range t.guards {
		out = append(out, ind+gd)
	}
	t.guards = nil
	return append(out, lines...)
}

// hasExit: the statements contain a return, a panic or an operation that may panic (conservative, syntactic).
func (t *icFn) hasExit(list []ast.Stmt) bool {
	found := false
	for _, s := range list {
		ast.Inspect(s, func(n ast.Node) bool {
			switch v := n.(type) {
			case *ast.ReturnStmt, *ast.SliceExpr:
				found = true
			case *ast.IndexExpr:
				if p := t.placeQuiet(v.X); p == nil || p.ty.k != icMap {
					found = true
				}
			case *ast.BinaryExpr:
				if v.Op == token.SHL || v.Op == token.SHR {
					if _, lit := unparen(v.Y).(*ast.BasicLit); !lit {
						found = true
					}
				}
			case *ast.CallExpr:
				if isIdent(v.Fun, "panic") {
					found = true
				}
				if sel, ok := v.Fun.(*ast.SelectorExpr); ok && (t.g.mnames[sel.Sel.Name] || (isIdent(sel.X, "unsafe") && sel.Sel.Name == "String")) {
					found = true
				}
			case *ast.FuncLit:
				return false
			}
			return !found
		})
	}
	return found
}

// placeQuiet: place() for the scan above, which may meet names that are not declared yet.
func (t *icFn) placeQuiet(e ast.Expr) (p *icPlace) {
	defer func() {
		if r := recover(); r != nil {
			if _, ok := r.(extractError); !ok {
				panic(r)
			}
			p = nil
		}
	}()
	return t.place(e)
}

// assigned: the variables of the enclosing scope (receiver included) that the statements may change.
func (t *icFn) assigned(list []ast.Stmt, acc *[]string) {
	add := func(name string) {
		if !t.shadowed(name) {
			return
		}
		for _, a := range *acc {
			if a == name {
				return
			}
		}
		*acc = append(*acc, name)
	}
	var lhs func(e ast.Expr)
	lhs = func(e ast.Expr) {
		switch v := unparen(e).(type) {
		case *ast.Ident:
			add(v.Name)
		case *ast.StarExpr:
			lhs(v.X)
		case *ast.SelectorExpr:
			lhs(v.X)
		case *ast.IndexExpr:
			lhs(v.X)
		}
	}
	for _, s := range list {
		ast.Inspect(s, func(n ast.Node) bool {
			switch v := n.(type) {
			case *ast.AssignStmt:
				if v.Tok != token.DEFINE {
					for _, l := range v.Lhs {
						lhs(l)
					}
				}
			case *ast.IncDecStmt:
				lhs(v.X)
			case *ast.CallExpr:
				if sel, ok := v.Fun.(*ast.SelectorExpr); ok {
					root := unparen(sel.X)
					for {
						if s2, ok := root.(*ast.SelectorExpr); ok {
							root = unparen(s2.X)
							continue
						}
						break
					}
					if isIdent(root, t.recv) {
						add(t.recv)
					}
				}
			}
			return true
		})
	}
}

type icFinish func(t *icFn) string

func (t *icFn) block(list []ast.Stmt, rest []icRest, ind string, fin icFinish) []string {
	g := t.g
	if len(list) == 0 {
		if len(rest) > 0 {
			t.popTo(rest[0].depth)
			return t.block(rest[0].stmts, rest[1:], ind, fin)
		}
		return []string{ind + fin(t)}
	}
	s, tail := list[0], list[1:]
	cont := func(lines []string) []string { return append(lines, t.block(tail, rest, ind, fin)...) }
	switch v := s.(type) {
	case *ast.EmptyStmt:
		return cont(nil)
	case *ast.DeclStmt:
		gd, ok := v.Decl.(*ast.GenDecl)
		if !ok || gd.Tok != token.VAR {
			g.fail(v, "declaration is not in the subset")
		}
		var lines []string
		for _, sp := range gd.Specs {
			vs := sp.(*ast.ValueSpec)
			if vs.Type == nil || len(vs.Values) != 0 {
				g.fail(vs, "only `var a, b T` without values is in the subset")
			}
			ty := g.typeOf(vs.Type)
			t.localTy(vs, ty)
			for _, n := range vs.Names {
				z := t.zero(vs, ty)
				t.declare(n, n.Name, ty)
				lines = append(lines, fmt.Sprintf("%slet %s : %s := %s", ind, n.Name, ty.lean(), z))
			}
		}
		return cont(lines)
	case *ast.IncDecStmt:
		op := token.ADD_ASSIGN
		if v.Tok == token.DEC {
			op = token.SUB_ASSIGN
		}
		one := &ast.BasicLit{ValuePos: v.Pos(), Kind: token.INT, Value: "1"}
		return cont(t.assign(&ast.AssignStmt{Lhs: []ast.Expr{v.X}, TokPos: v.TokPos, Tok: op, Rhs: []ast.Expr{one}}, ind))
	case *ast.AssignStmt:
		return cont(t.assign(v, ind))
	case *ast.ExprStmt:
		c, ok := v.X.(*ast.CallExpr)
		if !ok {
			g.fail(v, "expression statement is not a call")
		}
		if isIdent(c.Fun, "panic") && !t.shadowed("panic") {
			if t.noPanic {
				g.fail(v, "panic inside an if that was translated as a value")
			}
			return []string{ind + "none  -- Go: panic"}
		}
		return cont(t.effectCall(c, ind))
	case *ast.ReturnStmt:
		if len(v.Results) != len(t.results) {
			g.fail(v, "return with %d values in a function with %d results (a bare return is not in the subset)", len(v.Results), len(t.results))
		}
		var extra []string
		for i, r := range v.Results {
			extra = append(extra, t.as(r, t.expr(r), t.results[i]))
		}
		return t.withGuards(ind, []string{ind + t.resultTuple(extra)})
	case *ast.IfStmt:
		d0 := t.depth
		var lines []string
		if v.Init != nil {
			as, ok := v.Init.(*ast.AssignStmt)
			if !ok || as.Tok != token.DEFINE {
				g.fail(v.Init, "if init statement: only `a, b := ..` is in the subset")
			}
			t.depth++
			lines = t.assign(as, ind)
		}
		cond := t.expr(v.Cond)
		if cond.ty.k != icBool {
			g.fail(v.Cond, "condition is not a bool")
		}
		var els []ast.Stmt
		switch e := v.Else.(type) {
		case nil:
		case *ast.BlockStmt:
			els = e.List
		case *ast.IfStmt:
			els = []ast.Stmt{e}
		default:
			g.fail(v.Else, "else form")
		}
		lines = t.withGuards(ind, lines)
		branch := func() *icFn { c := t.fork(); c.depth = t.depth + 1; return c }
		if t.hasExit(v.Body.List) || t.hasExit(els) {
			if t.noPanic {
				g.fail(v, "an if with a return or a possibly panicking operation inside an if that was translated as a value")
			}
			rest2 := append([]icRest{{tail, d0}}, rest...)
			lines = append(lines, ind+"if "+cond.lean+" then")
			lines = append(lines, branch().block(v.Body.List, rest2, ind+"  ", fin)...)
			lines = append(lines, ind+"else")
			lines = append(lines, branch().block(els, rest2, ind+"  ", fin)...)
			return lines
		}
		var names []string
		t.assigned(v.Body.List, &names)
		t.assigned(els, &names)
		if len(names) == 0 {
			g.fail(v, "if statement without effect")
		}
		tuple := names[0]
		if len(names) > 1 {
			tuple = "(" + strings.Join(names, ", ") + ")"
		}
		join := func(*icFn) string { return tuple }
		lines = append(lines, fmt.Sprintf("%slet %s :=", ind, tuple), ind+"  if "+cond.lean+" then")
		b1 := branch()
		b1.noPanic = true
		lines = append(lines, b1.block(v.Body.List, nil, ind+"    ", join)...)
		lines = append(lines, ind+"  else")
		b2 := branch()
		b2.noPanic = true
		lines = append(lines, b2.block(els, nil, ind+"    ", join)...)
		t.popTo(d0)
		return cont(lines)
	}
	g.fail(s, "statement form %T is not in the subset", s)
	return nil
}

// store: the line that gives place lhs (an expression of the left side) the value val.
func (t *icFn) store(n ast.Node, lhs ast.Expr, val icVal, ind string) string {
	g := t.g
	if ix, ok := unparen(lhs).(*ast.IndexExpr); ok { // m[k] = v
		p := t.place(ix.X)
		if p == nil || p.ty.k != icMap {
			g.fail(n, "indexed assignment: only m[k] = v on a map[string]int place is in the subset")
		}
		k := t.as(ix.Index, t.expr(ix.Index), icTy{k: icString})
		x := t.as(n, val, icTy{k: icInt})
		return fmt.Sprintf("%slet %s := %s", ind, p.root, p.update(fmt.Sprintf("mapSet %s %s %s", p.read(), k, x)))
	}
	p := t.place(lhs)
	if p == nil {
		g.fail(n, "left side of the assignment is not a local, *out or a field path of the receiver")
	}
	switch p.ty.k {
	case icBitsWriter, icBitsReader, icLimiter, icStruct:
		g.fail(n, "assignment to a place of type %s is not in the subset", p.ty.goName())
	}
	x := t.as(n, val, p.ty)
	if len(p.path) == 0 {
		return fmt.Sprintf("%slet %s : %s := %s", ind, p.root, p.ty.lean(), x)
	}
	return fmt.Sprintf("%slet %s := %s", ind, p.root, p.update(x))
}

var icAssignOps = map[token.Token]token.Token{token.ADD_ASSIGN: token.ADD, token.SUB_ASSIGN: token.SUB, token.AND_ASSIGN: token.AND,
	token.OR_ASSIGN: token.OR, token.XOR_ASSIGN: token.XOR, token.SHL_ASSIGN: token.SHL, token.SHR_ASSIGN: token.SHR}

func (t *icFn) assign(v *ast.AssignStmt, ind string) []string {
	g := t.g
	if op, ok := icAssignOps[v.Tok]; ok {
		if len(v.Lhs) != 1 || len(v.Rhs) != 1 {
			g.fail(v, "%s with several operands", v.Tok)
		}
		val := t.binary(&ast.BinaryExpr{X: v.Lhs[0], OpPos: v.TokPos, Op: op, Y: v.Rhs[0]})
		return t.withGuards(ind, []string{t.store(v, v.Lhs[0], val, ind)})
	}
	if v.Tok != token.DEFINE && v.Tok != token.ASSIGN {
		g.fail(v, "assignment operator %s is not in the subset", v.Tok)
	}
	var lines []string
	var vals []icVal
	if len(v.Rhs) == 1 {
		if l, vs, ok := t.multiCall(v.Rhs[0], ind); ok {
			lines, vals = l, vs
		}
	}
	if vals == nil {
		for _, r := range v.Rhs {
			vals = append(vals, t.expr(r))
		}
		if len(vals) > 1 { // parallel assignment: all right sides first
			for i := range vals {
				if vals[i].ty.k == icUntyped || vals[i].ty.k == icNil {
					continue
				}
				g.tmp++
				tmp := fmt.Sprintf("j%d", g.tmp)
				lines = append(lines, fmt.Sprintf("%slet %s : %s := %s", ind, tmp, vals[i].ty.lean(), vals[i].lean))
				vals[i].lean = tmp
			}
		}
	}
	if len(vals) != len(v.Lhs) {
		g.fail(v, "assignment of %d values to %d places", len(vals), len(v.Lhs))
	}
	lines = t.withGuards(ind, lines)
	fresh := 0
	for i, l := range v.Lhs {
		l = unparen(l)
		if isIdent(l, "_") {
			fresh++ // counts as allowed on the left of :=
			continue
		}
		if v.Tok == token.DEFINE {
			id, ok := l.(*ast.Ident)
			if !ok {
				g.fail(v, "left side of :=")
			}
			if x, ok := t.vars[id.Name]; ok && x.depth == t.depth && !t.isOut(id.Name) {
				// Go: := re-uses a variable declared in the same scope
				lines = append(lines, t.store(v, l, vals[i], ind))
				continue
			}
			ty := vals[i].ty
			if ty.k == icUntyped {
				ty = icTy{k: icInt}
			}
			t.localTy(v, ty)
			val := t.as(v, vals[i], ty)
			t.declare(id, id.Name, ty)
			fresh++
			lines = append(lines, fmt.Sprintf("%slet %s : %s := %s", ind, id.Name, ty.lean(), val))
			continue
		}
		lines = append(lines, t.store(v, l, vals[i], ind))
	}
	if v.Tok == token.DEFINE && fresh == 0 {
		g.fail(v, "no new variable on the left side of :=")
	}
	if len(t.guards) != 0 {
		g.fail(v, "a possibly panicking operation on the left side of an assignment")
	}
	return lines
}

// effectCall: statement `place.<Method>(args)`.
func (t *icFn) effectCall(c *ast.CallExpr, ind string) []string {
	g := t.g
	sel, ok := c.Fun.(*ast.SelectorExpr)
	if !ok {
		g.fail(c, "call statement of %s is not in the whitelist", fcTypeString(c.Fun))
	}
	if p, m, name, ok := t.methodOn(c.Fun); ok {
		if m.pure {
			g.fail(c, "call statement of %s, which has no effect", name)
		}
		if len(m.results) != 0 {
			g.fail(c, "results of %s are dropped (not in the subset)", name)
		}
		lines, _ := t.bindCall(c, p, m, name, ind)
		return lines
	}
	p := t.place(sel.X)
	if p == nil {
		g.fail(c, "call statement %s(..) is not in the whitelist", fcTypeString(c.Fun))
	}
	type eff struct {
		lean string
		args []icTy
	}
	e, ok := map[string]eff{
		"pkg.BitsWriter.WriteBit":          {"writeBit", []icTy{{k: icUint}}},
		"pkg.BitsWriter.WriteBits":         {"writeBits", []icTy{{k: icUint64}, {k: icUint}}},
		"pkg.BitsReader.Consume":           {"consume", []icTy{{k: icUint}}},
		"*pkg.SizeLimiter.AddFrameBits":    {"limAddFrameBits", []icTy{{k: icUint}}},
		"*pkg.SizeLimiter.AddFrameBytes":   {"limAddFrameBytes", []icTy{{k: icUint}}},
		"*pkg.SizeLimiter.AddDictElemSize": {"limAddDictElemSize", []icTy{{k: icUint}}},
	}[p.ty.goName()+"."+sel.Sel.Name]
	if !ok {
		g.fail(c, "call statement %s.%s(..) (type %s) is not in the whitelist", p.read(), sel.Sel.Name, p.ty.goName())
	}
	a := t.args(c, sel.Sel.Name, e.args)
	line := fmt.Sprintf("%slet %s := %s", ind, p.root, p.update(strings.Join(append([]string{e.lean, p.read()}, a...), " ")))
	return t.withGuards(ind, []string{line})
}

// translate one method; returns the Lean definition and registers the method for later callers.
func (g *icGen) translate(st *icStructDecl, goName string) string {
	g.cur = st.file
	fd := g.findMethod(st.file, st.name, goName)
	rn := fd.Recv.List[0].Names
	if len(rn) != 1 {
		g.fail(fd, "receiver without a name")
	}
	t := &icFn{g: g, st: st, recv: rn[0].Name, vars: map[string]icVar{}}
	g.checkName(fd, t.recv)
	var params []string
	var ptys []icTy
	for _, p := range fd.Type.Params.List {
		if len(p.Names) == 0 {
			g.fail(p, "parameter without a name")
		}
		for _, n := range p.Names {
			ty := g.typeOf(p.Type)
			isOut := false
			if star, ok := p.Type.(*ast.StarExpr); ok && ty.k == icOpaque {
				ty = g.typeOf(star.X)
				isOut = true
				if !(ty.k == icUint64 || ty.k == icInt64 || ty.k == icBool || ty.k == icString) {
					g.fail(p, "pointer parameter %s of type %s is not in the subset", n.Name, fcTypeString(p.Type))
				}
			}
			switch ty.k {
			case icInt, icUint, icUint64, icUintptr, icInt64, icBool, icString, icBytes:
			default:
				g.fail(p, "parameter %s of type %s is not in the subset", n.Name, fcTypeString(p.Type))
			}
			t.declare(n, n.Name, ty)
			if isOut {
				t.outs = append(t.outs, n.Name)
			}
			params = append(params, fmt.Sprintf("(%s : %s)", n.Name, ty.lean()))
			ptys = append(ptys, ty)
		}
	}
	var named []string
	if fd.Type.Results != nil {
		for _, r := range fd.Type.Results.List {
			ty := g.typeOf(r.Type)
			switch ty.k {
			case icInt, icUint, icUint64, icUintptr, icInt64, icBool, icString, icBytes, icError:
			default:
				g.fail(r, "result type %s is not in the subset", fcTypeString(r.Type))
			}
			n := len(r.Names)
			if n == 0 {
				n = 1
			}
			for i := 0; i < n; i++ {
				t.results = append(t.results, ty)
				if len(r.Names) > 0 {
					// Go: a named result is a local variable that starts with the zero value
					t.declare(r.Names[i], r.Names[i].Name, ty)
					named = append(named, fmt.Sprintf("  let %s : %s := %s", r.Names[i].Name, ty.lean(), t.zero(r, ty)))
				}
			}
		}
	}
	lean := st.name + "." + lowerFirst(goName)
	sig := fmt.Sprintf("func (%s *%s) %s (%s)", t.recv, st.name, goName, st.file)
	head := fmt.Sprintf("def %s (%s : %s) %s", lean, t.recv, st.name, strings.Join(params, " "))
	// a method that is a single `return <expression>` is a plain function (and may be called inside expressions)
	if len(fd.Body.List) == 1 && len(t.outs) == 0 && len(t.results) == 1 && t.results[0].k != icError && len(named) == 0 {
		if r, ok := fd.Body.List[0].(*ast.ReturnStmt); ok && len(r.Results) == 1 {
			val := t.as(r, t.expr(r.Results[0]), t.results[0])
			if len(t.guards) == 0 {
				g.methods[st.name+"."+goName] = &icMethod{lean, ptys, t.results, true}
				return fmt.Sprintf("/-- go: %s (a single return statement) -/\n%s : %s :=\n  %s\n", sig, head, t.results[0].lean(), val)
			}
			t.guards = nil
		}
	}
	if len(t.outs) > 0 {
		// callers inside the translated code cannot pass pointers; such a method is an entry point only
		defer func() { delete(g.methods, st.name+"."+goName); delete(g.mnames, goName) }()
	}
	retTy := []string{st.name}
	for _, o := range t.outs {
		retTy = append(retTy, t.vars[o].ty.lean())
	}
	doc := "`none` = the Go function panics; otherwise the receiver after the call"
	if len(t.outs) > 0 {
		doc += ", the values behind the pointer parameters " + strings.Join(t.outs, ", ")
	}
	for _, r := range t.results {
		retTy = append(retTy, r.lean())
	}
	if len(t.results) > 0 {
		doc += ", and the results"
	}
	rt := strings.Join(retTy, " × ")
	if len(retTy) > 1 {
		rt = "(" + rt + ")"
	}
	fin := func(t *icFn) string {
		if len(t.results) != 0 {
			g.fail(fd, "the end of %s is reached without a return", goName)
		}
		return t.resultTuple(nil)
	}
	lines := append(named, t.block(fd.Body.List, nil, "  ", fin)...)
	g.methods[st.name+"."+goName] = &icMethod{lean, ptys, t.results, false}
	g.mnames[goName] = true
	return fmt.Sprintf("/-- go: %s. %s. -/\n%s : Option %s :=\n%s\n", sig, doc, head, rt, strings.Join(lines, "\n"))
}

func (g *icGen) leanStruct(st *icStructDecl) string {
	var sb strings.Builder
	fmt.Fprintf(&sb, "/-- go: type %s struct (%s) -/\nstructure %s where\n", st.name, st.file, st.name)
	n := 0
	for _, f := range st.fields {
		if f.ty.k == icOpaque {
			fmt.Fprintf(&sb, "  -- %s %s: not modelled (any use of it stops the generator)\n", f.name, f.src)
			continue
		}
		n++
		if f.embedded {
			fmt.Fprintf(&sb, "  %s : %s  -- embedded\n", f.name, f.ty.lean())
			continue
		}
		fmt.Fprintf(&sb, "  %s : %s  -- %s\n", f.name, f.ty.lean(), f.src)
	}
	if n == 0 {
		die("%s: struct %s has no modelled field", st.file, st.name)
	}
	return sb.String()
}

var icParts = []struct {
	file    string
	st      string
	methods []string
}{
	{"go/pkg/membuffer.go", "BytesWriter", []string{"Bytes", "WriteStringBytes", "WriteUvarint", "WriteVarint"}},
	{"go/pkg/membuffer.go", "BytesReader", []string{"ReadUvarint", "ReadVarint", "ReadStringMapped"}},
	{"go/pkg/codecs/uint64.go", "Uint64Encoder", []string{"IsEqual", "Encode", "Reset"}},
	{"go/pkg/codecs/uint64.go", "Uint64Decoder", []string{"Decode", "Reset"}},
	{"go/pkg/codecs/int64.go", "Int64Encoder", []string{"IsEqual", "Encode"}},
	{"go/pkg/codecs/int64.go", "Int64Decoder", []string{"Decode"}},
	{"go/pkg/codecs/bool.go", "BoolEncoder", []string{"Encode", "Reset"}},
	{"go/pkg/codecs/bool.go", "BoolDecoder", []string{"Decode", "Reset"}},
	{"go/pkg/codecs/string.go", "StringEncoder", []string{"Encode", "Reset"}},
	{"go/pkg/codecs/string.go", "StringDecoder", []string{"Decode", "Reset"}},
	{"go/pkg/codecs/stringdict.go", "StringDictEncoderDict", []string{"Reset"}},
	{"go/pkg/codecs/stringdict.go", "StringDictEncoder", []string{"Encode", "Reset"}},
	{"go/pkg/codecs/stringdict.go", "StringDictDecoderDict", []string{"Reset"}},
	{"go/pkg/codecs/stringdict.go", "StringDictDecoder", []string{"Decode", "Reset"}},
}

func genIntCodec() {
	g := &icGen{fset: token.NewFileSet(), files: map[string]*ast.File{}, structs: map[string]*icStructDecl{}, methods: map[string]*icMethod{},
		mnames: map[string]bool{}, consts: map[string]map[string]*big.Int{}, errVars: map[string]string{}}
	wantImport := map[string]string{"pkg": "github.com/splunk/stef/go/pkg", "io": "io", "binary": "encoding/binary", "unsafe": "unsafe", "errors": "errors"}
	for _, part := range icParts {
		if _, ok := g.files[part.file]; ok {
			continue
		}
		f := icParse(g.fset, part.file)
		g.files[part.file] = f
		for _, im := range f.Imports {
			path, _ := strconv.Unquote(im.Path.Value)
			name := path[strings.LastIndex(path, "/")+1:]
			if im.Name != nil {
				name = im.Name.Name
			}
			if name == "." {
				die("%s: dot import", part.file)
			}
			if w, ok := wantImport[name]; ok && w != path {
				die("%s: import %s is %q, expected %q", part.file, name, path, w)
			}
		}
		// the untyped integer constants of the file
		g.consts[part.file] = map[string]*big.Int{}
		for _, d := range f.Decls {
			if gd, ok := d.(*ast.GenDecl); ok && gd.Tok == token.CONST {
				for _, s := range gd.Specs {
					if s.(*ast.ValueSpec).Type != nil {
						die("%s: typed constant declaration is not in the subset", part.file)
					}
				}
			}
		}
		cv := map[string]constant.Value{}
		collectConsts(f, &constEnv{vals: map[string]constant.Value{}}, cv)
		for n, c := range cv {
			if c.Kind() == constant.Int {
				g.consts[part.file][n] = bigOf(c)
			}
		}
	}
	// the package's error variables: `var ErrX = errors.New("..")`; only the ones the vocabulary knows
	known := map[string]string{"ErrInvalidRefNum": "errInvalidRefNum"}
	for rel, f := range g.files {
		if !strings.HasPrefix(rel, "go/pkg/codecs/") {
			continue
		}
		for _, d := range f.Decls {
			gd, ok := d.(*ast.GenDecl)
			if !ok || gd.Tok != token.VAR {
				continue
			}
			for _, s := range gd.Specs {
				vs := s.(*ast.ValueSpec)
				for i, n := range vs.Names {
					l, ok := known[n.Name]
					if !ok {
						continue
					}
					good := false
					if len(vs.Values) == len(vs.Names) && vs.Type == nil {
						if c, ok := vs.Values[i].(*ast.CallExpr); ok {
							if sel, ok := c.Fun.(*ast.SelectorExpr); ok && isIdent(sel.X, "errors") && sel.Sel.Name == "New" {
								good = true
							}
						}
					}
					if !good {
						die("%s: %s is not declared as errors.New(..)", rel, n.Name)
					}
					g.errVars[n.Name] = l
				}
			}
		}
	}
	// the vocabulary (Stef/BitStream.lean, Stef/Limiter.lean, IntCodecSem.lean) assumes these signatures
	fcCheckSig("go/pkg/bitstream.go", "BitsWriter", "WriteBit", "uint", "")
	fcCheckSig("go/pkg/bitstream.go", "BitsWriter", "WriteBits", "uint64,uint", "")
	fcCheckSig("go/pkg/bitstream.go", "BitsReader", "Consume", "uint", "")
	fcCheckSig("go/pkg/bitstream.go", "BitsReader", "ReadBit", "", "uint64")
	fcCheckSig("go/pkg/bitstream.go", "BitsReader", "Error", "", "error")
	fcCheckSig("go/pkg/dictlimiter.go", "SizeLimiter", "AddFrameBits", "uint", "")
	fcCheckSig("go/pkg/dictlimiter.go", "SizeLimiter", "AddFrameBytes", "uint", "")
	fcCheckSig("go/pkg/dictlimiter.go", "SizeLimiter", "AddDictElemSize", "uint", "")
	fcCheckSig("go/pkg/dictlimiter.go", "SizeLimiter", "DictLimitReached", "", "bool")

	var sb strings.Builder
	sb.WriteString("/- GENERATED by /verif/extract (intcodec.go) from go/pkg/membuffer.go and go/pkg/codecs/{uint64,int64,bool,string,stringdict}.go:\n" +
		"   the struct declarations and the bodies of the methods listed in icParts, one Lean `let` / `if` / `bind` per Go statement.\n" +
		"   Do not edit. Vocabulary (types, operators, whitelisted calls): Stef/IntCodecSem.lean. -/\n")
	sb.WriteString("import Stef.IntCodecSem\n\nset_option linter.unusedVariables false\n\nnamespace Stef.Gen.IntCodec\nopen Stef Stef.FloatCodecSem Stef.IntCodecSem\n\n")
	// all structs first (a struct may be a field of a later one), then the methods in the listed order
	var sts []*icStructDecl
	for _, part := range icParts {
		st := g.declareStruct(part.file, part.st)
		sts = append(sts, st)
		sb.WriteString(g.leanStruct(st) + "\n")
	}
	for i, part := range icParts {
		for _, m := range part.methods {
			sb.WriteString(g.translate(sts[i], m) + "\n")
		}
	}
	sb.WriteString("end Stef.Gen.IntCodec\n")
	writeOut("IntCodec.lean", sb.String())
}

// Go identifiers that are Lean keywords get an underscore appended (all occurrences in the file; refused if the
// file also uses the name with the underscore).
var icLeanKeywords = map[string]bool{"exists": true, "at": true, "from": true, "fun": true, "have": true, "show": true, "end": true,
	"then": true, "open": true, "in": true, "at_": false, "do": true, "with": true, "where": true, "by": true, "let": true, "forall": true,
	"using": true, "calc": true, "mut": true, "instance": true, "section": true, "namespace": true, "variable": true, "universe": true}

func icParse(fset *token.FileSet, rel string) *ast.File {
	f, err := parser.ParseFile(fset, filepath.Join(repo, rel), nil, parser.ParseComments)
	if err != nil {
		die("parse %s: %v", rel, err)
	}
	used := map[string]bool{}
	ast.Inspect(f, func(n ast.Node) bool {
		if id, ok := n.(*ast.Ident); ok {
			used[id.Name] = true
		}
		return true
	})
	ast.Inspect(f, func(n ast.Node) bool {
		if id, ok := n.(*ast.Ident); ok && icLeanKeywords[id.Name] {
			if used[id.Name+"_"] {
				die("%s: identifiers %s and %s_ both occur", rel, id.Name, id.Name)
			}
			id.Name += "_"
		}
		return true
	})
	return f
}
