package main

// genOtlpValFlow regenerates lean/Stef/Gen/OtlpValFlow.lean: the OTLP <-> STEF attribute value conversion
// and the comparison functions the sorting modes merge by, translated statement by statement from the Go
// AST (go/parser + go/ast only) into `do` blocks of the monad `M` of lean/Stef/OtlpValFlowSem.lean:
//
//   go/pdata/internal/otlptools/compare.go      Map2attrs, CmpBool, CmpInt64, CmpAttrs, CmpVal (mutually recursive, on fuel),
//                                               CmpResourceSpans, CmpScopeSpans
//   go/pdata/internal/otlptools/otlpval2tef.go  otlpValueToTefAnyValue (recursive, on fuel), (*Otlp2Stef).MapUnsorted, MapSorted
//   go/pdata/internal/otlptools/tef2otlpval.go  tefAnyValueToOtlp (recursive, on fuel), TefToOtlpMap
//
// The order of the statements, the conditions, the clause order of every switch, which setter is called with
// what, the indices and the loop bounds come from the source. What the LIBRARY calls mean (pdata accessors,
// the generated otelstef setters / EnsureLen, strings.Compare, cmp.Compare, slices.SortFunc ..) is the hand-written
// vocabulary of OtlpValFlowSem; which calls exist is the whitelist `ovMethods` / `ovPkgFuncs` below.
//
// Types. Every Go expression gets one of the types below from the declarations of the source (parameter types,
// result types of whitelisted calls); `cmp.Compare`, `<`, `==` .. are chosen by the type of their operands.
// A parameter of pointer type (or a pcommon value that the function writes) listed in the spec of its function
// as `ptr` is a pointer into the state of the function (Ptr); every other otelstef / pcommon object is read only
// and has only its getters.
//
// Translated subset (everything else makes this generator fail with a message that names the construct):
//
//   stmt ::= x := e | x = e | x++            (x a local declared in the SAME block, or a local of the enclosing
//                                             function assigned at the top level of a Range closure)
//          | o.attrElems = pkg.EnsureLen(o.attrElems, e) | o.attrElems[e] = e
//          | if cond {..} [else ..]  (no init statement)
//          | switch e { case c: .. default: .. }         (no init, no fallthrough; clause order kept)
//          | for i := 0; i < e; i++ {..}                 (e free of effects, body assigns no outer local)
//          | for i := range e {..}
//          | m.Range(func(k string, v pcommon.Value) bool { ..; return true })   (no other return inside)
//          | slices.SortFunc(o.attrElems, func(a, b elem) int { return e })
//          | p.Setter(e..) | f(e..) | panic("..") | return [e]
//   e    ::= local | literal | true | false | nil | package-level error variable | pcommon./otelstef. constant
//          | e.Method(e..) (whitelist) | f(e..) (a translated function) | e.field | e[e] | T{f: e, ..}
//          | len(e) | min(e, e) | make([]T, 0, e) | append(e, e) | int(e) | pkg.Bytes(e) | []byte(e) | e op e | !e | -e
//
// No goto/break/continue/defer/go/labels/named results/multi-assignment/closures other than the two above.

import (
	"fmt"
	"go/ast"
	"go/token"
	"sort"
	"strconv"
	"strings"
)

func init() { register("OtlpValFlow", genOtlpValFlow) }

// ---------------------------------------------------------------- types

type ovTy string

const (
	ovInt       ovTy = "int"
	ovUntyped   ovTy = "untyped-int"
	ovInt64     ovTy = "int64"
	ovUint32    ovTy = "uint32"
	ovUint64    ovTy = "uint64"
	ovBool      ovTy = "bool"
	ovString    ovTy = "string"
	ovBytes     ovTy = "[]byte"
	ovFloat64   ovTy = "float64"
	ovErr       ovTy = "error"
	ovNil       ovTy = "nil"
	ovVoid      ovTy = "void"
	ovValueType ovTy = "pcommon.ValueType"
	ovSTag      ovTy = "otelstef.AnyValueType"
	ovOVal      ovTy = "pcommon.Value(read)"
	ovOMap      ovTy = "pcommon.Map(read)"
	ovOSlice    ovTy = "pcommon.Slice(read)"
	ovOBytes    ovTy = "pcommon.ByteSlice(read)"
	ovOValP     ovTy = "pcommon.Value(written)"
	ovOMapP     ovTy = "pcommon.Map(written)"
	ovOSliceP   ovTy = "pcommon.Slice(written)"
	ovOBytesP   ovTy = "pcommon.ByteSlice(written)"
	ovAttr      ovTy = "AttrAccessible"
	ovAttrs     ovTy = "[]AttrAccessible"
	ovElem      ovTy = "elem"
	ovElems     ovTy = "[]elem"
	ovO2SP      ovTy = "*Otlp2Stef"
	ovSValP     ovTy = "*otelstef.AnyValue(written)"
	ovSArrP     ovTy = "*otelstef.AnyValueArray(written)"
	ovSKVP      ovTy = "*otelstef.KeyValueList|Attributes(written)"
	ovSValV     ovTy = "*otelstef.AnyValue(read)"
	ovSArrV     ovTy = "*otelstef.AnyValueArray(read)"
	ovSKVV      ovTy = "*otelstef.KeyValueList|Attributes(read)"
	ovRSpans    ovTy = "ptrace.ResourceSpans"
	ovSSpans    ovTy = "ptrace.ScopeSpans"
	ovPResource ovTy = "pcommon.Resource"
	ovPScope    ovTy = "pcommon.InstrumentationScope"
)

// Lean type of a Go type that can be a value parameter, a result or a carried local.
var ovLeanTy = map[ovTy]string{
	ovInt: "Int", ovInt64: "Nat", ovUint32: "Nat", ovUint64: "Nat", ovBool: "Bool", ovString: "Str", ovBytes: "Str",
	ovFloat64: "Nat", ovErr: "Err", ovVoid: "Unit", ovValueType: "Nat", ovSTag: "Nat", ovOVal: "AnyValue", ovOMap: "KVs",
	ovOSlice: "Values", ovOBytes: "Str", ovAttr: "Attr", ovAttrs: "List Attr", ovElem: "Elem", ovElems: "List Elem",
	ovSValV: "SVal", ovSArrV: "SArr", ovSKVV: "SAttrs", ovRSpans: "ResourceSpans", ovSSpans: "ScopeSpans",
	ovPResource: "PResource", ovPScope: "PScope",
}

// Go type text of a declaration -> type when the object is only read / when it is a `ptr` of the spec.
var ovDeclRead = map[string]ovTy{
	"int": ovInt, "int64": ovInt64, "uint32": ovUint32, "uint64": ovUint64, "bool": ovBool, "string": ovString,
	"float64": ovFloat64, "error": ovErr, "[]byte": ovBytes,
	"pcommon.Value": ovOVal, "pcommon.Map": ovOMap, "pcommon.Slice": ovOSlice,
	"[]AttrAccessible": ovAttrs, "AttrAccessible": ovAttr, "elem": ovElem,
	"*otelstef.AnyValue": ovSValV, "*otelstef.AnyValueArray": ovSArrV, "*otelstef.KeyValueList": ovSKVV,
	"*otelstef.Attributes": ovSKVV, "ptrace.ResourceSpans": ovRSpans, "ptrace.ScopeSpans": ovSSpans,
}
var ovDeclPtr = map[string]ovTy{
	"pcommon.Value": ovOValP, "pcommon.Map": ovOMapP, "*otelstef.AnyValue": ovSValP, "*otelstef.Attributes": ovSKVP,
	"*otelstef.KeyValueList": ovSKVP, "*Otlp2Stef": ovO2SP,
}

// ---------------------------------------------------------------- the whitelist of library calls

type ovMeth struct {
	args []ovTy
	res  ovTy
	kind string // "pure": value; "eff": `(← ..)` value; "ptr": pointer composition; "effptr": `(← ..)` pointer; "stmt": statement
	tmpl string // %r receiver, %1 %2 arguments
}

var ovMethods = map[ovTy]map[string]ovMeth{
	ovOVal: {
		"Type":   {nil, ovValueType, "pure", "valType %r"},
		"Str":    {nil, ovString, "pure", "valStr %r"},
		"Int":    {nil, ovInt64, "pure", "valInt %r"},
		"Bool":   {nil, ovBool, "pure", "valBool %r"},
		"Double": {nil, ovFloat64, "pure", "valDouble %r"},
		"Bytes":  {nil, ovOBytes, "pure", "valBytes %r"},
		"Slice":  {nil, ovOSlice, "pure", "valSlice %r"},
		"Map":    {nil, ovOMap, "pure", "valMap %r"},
	},
	ovOBytes: {"AsRaw": {nil, ovBytes, "pure", "%r"}},
	ovOSlice: {
		"Len": {nil, ovInt, "pure", "sliceLen %r"},
		"At":  {[]ovTy{ovInt}, ovOVal, "eff", "sliceAt %r %1"},
	},
	ovOMap: {"Len": {nil, ovInt, "pure", "mapLen %r"}},
	ovRSpans: {
		"SchemaUrl": {nil, ovString, "pure", "%r.url"},
		"Resource":  {nil, ovPResource, "pure", "rsResource %r"},
	},
	ovSSpans: {
		"SchemaUrl": {nil, ovString, "pure", "%r.url"},
		"Scope":     {nil, ovPScope, "pure", "ssScope %r"},
	},
	ovPResource: {
		"Attributes":             {nil, ovOMap, "pure", "%r.attrs"},
		"DroppedAttributesCount": {nil, ovUint32, "pure", "%r.dropped"},
	},
	ovPScope: {
		"Name":                   {nil, ovString, "pure", "%r.name"},
		"Version":                {nil, ovString, "pure", "%r.ver"},
		"Attributes":             {nil, ovOMap, "pure", "%r.attrs"},
		"DroppedAttributesCount": {nil, ovUint32, "pure", "%r.dropped"},
	},
	ovSValP: {
		"SetType":    {[]ovTy{ovSTag}, ovVoid, "stmt", "upd %r (fun x => some (SVal.setType %1 x))"},
		"SetString":  {[]ovTy{ovString}, ovVoid, "stmt", "upd %r (fun x => some (SVal.setScalar (SCur.str %1) x))"},
		"SetBool":    {[]ovTy{ovBool}, ovVoid, "stmt", "upd %r (fun x => some (SVal.setScalar (SCur.bool %1) x))"},
		"SetInt64":   {[]ovTy{ovInt64}, ovVoid, "stmt", "upd %r (fun x => some (SVal.setScalar (SCur.int %1) x))"},
		"SetFloat64": {[]ovTy{ovFloat64}, ovVoid, "stmt", "upd %r (fun x => some (SVal.setFloat %1 x))"},
		"SetBytes":   {[]ovTy{ovBytes}, ovVoid, "stmt", "upd %r (fun x => some (SVal.setScalar (SCur.bytes %1) x))"},
		"Array":      {nil, ovSArrP, "ptr", "%r.comp SVal.arrayP"},
		"KVList":     {nil, ovSKVP, "ptr", "%r.comp SVal.kvListP"},
	},
	ovSArrP: {
		"EnsureLen": {[]ovTy{ovInt}, ovVoid, "stmt", "upd %r (arrEnsureLenOp %1)"},
		"At":        {[]ovTy{ovInt}, ovSValP, "ptr", "%r.comp (SArr.atP %1)"},
	},
	ovSKVP: {
		"EnsureLen": {[]ovTy{ovInt}, ovVoid, "stmt", "upd %r (kvEnsureLenOp %1)"},
		"SetKey":    {[]ovTy{ovInt, ovString}, ovVoid, "stmt", "upd %r (kvSetKeyOp %1 %2)"},
		"Value":     {[]ovTy{ovInt}, ovSValP, "ptr", "%r.comp (SAttrs.valueP %1)"},
	},
	ovSValV: {
		"Type":    {nil, ovSTag, "pure", "svType %r"},
		"String":  {nil, ovString, "pure", "svString %r"},
		"Bool":    {nil, ovBool, "pure", "svBool %r"},
		"Int64":   {nil, ovInt64, "pure", "svInt64 %r"},
		"Float64": {nil, ovFloat64, "pure", "svFloat64 %r"},
		"Bytes":   {nil, ovBytes, "pure", "svBytes %r"},
		"Array":   {nil, ovSArrV, "pure", "svArray %r"},
		"KVList":  {nil, ovSKVV, "pure", "svKVList %r"},
	},
	ovSArrV: {
		"Len": {nil, ovInt, "pure", "sarrLen %r"},
		"At":  {[]ovTy{ovInt}, ovSValV, "eff", "sarrAt %r %1"},
	},
	ovSKVV: {
		"Len":   {nil, ovInt, "pure", "sattrsLen %r"},
		"Key":   {[]ovTy{ovInt}, ovString, "eff", "sattrsKey %r %1"},
		"Value": {[]ovTy{ovInt}, ovSValV, "eff", "sattrsValue %r %1"},
	},
	ovOValP: {
		"SetStr":        {[]ovTy{ovString}, ovVoid, "stmt", "setVal %r (AnyValue.str %1)"},
		"SetInt":        {[]ovTy{ovInt64}, ovVoid, "stmt", "setVal %r (AnyValue.int %1)"},
		"SetBool":       {[]ovTy{ovBool}, ovVoid, "stmt", "setVal %r (AnyValue.bool %1)"},
		"SetDouble":     {[]ovTy{ovFloat64}, ovVoid, "stmt", "setVal %r (AnyValue.dbl %1)"},
		"SetEmptyBytes": {nil, ovOBytesP, "effptr", "setEmptyBytes %r"},
		"SetEmptySlice": {nil, ovOSliceP, "effptr", "setEmptySlice %r"},
		"SetEmptyMap":   {nil, ovOMapP, "effptr", "setEmptyMap %r"},
	},
	ovOBytesP: {"Append": {[]ovTy{ovBytes}, ovVoid, "stmt", "bytesAppend %r %1"}}, // variadic: `xs...` required
	ovOSliceP: {"AppendEmpty": {nil, ovOValP, "effptr", "sliceAppendEmpty %r"}},
	ovOMapP: {
		"PutEmpty":       {[]ovTy{ovString}, ovOValP, "effptr", "mapPutEmpty %r %1"},
		"EnsureCapacity": {[]ovTy{ovInt}, ovVoid, "stmt", "mapEnsureCapacity %r %1"},
	},
}

// package-qualified functions: name -> (argument types -> (result type, Lean function))
type ovPF struct {
	args []ovTy
	res  ovTy
	lean string
}

var ovPkgFuncs = map[string][]ovPF{
	"strings.Compare":    {{[]ovTy{ovString, ovString}, ovInt, "strCompare"}},
	"bytes.Compare":      {{[]ovTy{ovBytes, ovBytes}, ovInt, "strCompare"}},
	"pkg.Float64Compare": {{[]ovTy{ovFloat64, ovFloat64}, ovInt, "float64Compare"}},
	"cmp.Compare": {{[]ovTy{ovUint32, ovUint32}, ovInt, "cmpCompareNat"}, {[]ovTy{ovUint64, ovUint64}, ovInt, "cmpCompareNat"},
		{[]ovTy{ovInt64, ovInt64}, ovInt, "cmpCompareI64"}, {[]ovTy{ovFloat64, ovFloat64}, ovInt, "cmpCompareF64"}},
}

// package-qualified constants
var ovConsts = map[string]ovTy{}

func init() {
	for _, n := range []string{"Empty", "Str", "Int", "Double", "Bool", "Map", "Slice", "Bytes"} {
		ovConsts["pcommon.ValueType"+n] = ovValueType
	}
	for _, n := range []string{"None", "String", "Bool", "Int64", "Float64", "Array", "KVList", "Bytes"} {
		ovConsts["otelstef.AnyValueType"+n] = ovSTag
	}
}

// the argument of SetType
var ovSTy = map[string]string{"AnyValueTypeNone": "STy.none", "AnyValueTypeArray": "STy.array", "AnyValueTypeKVList": "STy.kvlist"}

// ---------------------------------------------------------------- the functions

type ovSpec struct {
	file  string
	recv  string            // "" or the receiver type as written (`*Otlp2Stef`)
	name  string            // Go name
	lean  string            // Lean name
	state string            // Lean type of the state
	ptrs  map[string]string // parameter (or receiver) name -> its pointer into the state; every other parameter is a value
}

const ovDir = "go/pdata/internal/otlptools/"

var ovSpecs = []ovSpec{
	{ovDir + "compare.go", "", "Map2attrs", "map2attrs", "Unit", nil},
	{ovDir + "compare.go", "", "CmpBool", "cmpBool", "Unit", nil},
	{ovDir + "compare.go", "", "CmpInt64", "cmpInt64", "Unit", nil},
	{ovDir + "compare.go", "", "CmpAttrs", "cmpAttrs", "Unit", nil},
	{ovDir + "compare.go", "", "CmpVal", "cmpVal", "Unit", nil},
	{ovDir + "compare.go", "", "CmpResourceSpans", "cmpResourceSpans", "Unit", nil},
	{ovDir + "compare.go", "", "CmpScopeSpans", "cmpScopeSpans", "Unit", nil},
	{ovDir + "otlpval2tef.go", "", "otlpValueToTefAnyValue", "otlpValueToTefAnyValue", "SVal", map[string]string{"#1": "Ptr.here"}},
	{ovDir + "otlpval2tef.go", "*Otlp2Stef", "MapUnsorted", "mapUnsorted", "MapSt", map[string]string{"#recv": "MapSt.oP", "#1": "MapSt.outP"}},
	{ovDir + "otlpval2tef.go", "*Otlp2Stef", "MapSorted", "mapSorted", "MapSt", map[string]string{"#recv": "MapSt.oP", "#1": "MapSt.outP"}},
	{ovDir + "tef2otlpval.go", "", "tefAnyValueToOtlp", "tefAnyValueToOtlp", "AnyValue", map[string]string{"#1": "Ptr.here"}},
	{ovDir + "tef2otlpval.go", "", "TefToOtlpMap", "tefToOtlpMap", "KVs", map[string]string{"#1": "Ptr.here"}},
}

type ovParam struct {
	goName, lean string
	ty           ovTy
	ptr          string // non-empty: pointer into the state
}

type ovFunc struct {
	spec      ovSpec
	decl      *ast.FuncDecl
	fset      *token.FileSet
	params    []ovParam // receiver first
	res       ovTy
	calls     map[string]bool // Go names of translated functions it calls
	recursive bool
	fuelled   bool
	body      string
}

var ovReserved = map[string]bool{}

func init() {
	for _, n := range strings.Fields(`at end from fun have show then do let match with in by open def theorem where mut unless
		try catch finally pure some none true false nil Type Prop if else for return instance structure inductive
		namespace section variable import deriving abbrev example termination_by decreasing_by
		ret call goPanic outOfFuel forFrom forLt forRange rd upd focus len idx setIdx min max fuel x
		map2attrs cmpBool cmpInt64 cmpAttrs cmpVal cmpResourceSpans cmpScopeSpans otlpValueToTefAnyValue mapUnsorted mapSorted
		tefAnyValueToOtlp tefToOtlpMap strCompare float64Compare`) {
		ovReserved[n] = true
	}
}

func ovLeanName(n string) string {
	if ovReserved[n] || strings.HasPrefix(n, "sw_") || strings.ContainsAny(n, "'") {
		return n + "_"
	}
	return n
}

// ---------------------------------------------------------------- translation state

type ovVar struct {
	lean  string
	ty    ovTy
	block int // id of the block that declares it
}

type ovCtx struct {
	f       *ovFunc
	funcs   map[string]*ovFunc // by Go name
	pkgErrs map[string]bool    // package-level `var x = errors.New(..)`
	scopes  []map[string]*ovVar
	blockID int
	nextBlk int
	swCount int
	inRange bool // inside a Range closure: `return` is not a return of the function
}

func (c *ovCtx) pos(n ast.Node) string {
	p := c.f.fset.Position(n.Pos())
	return fmt.Sprintf("%s:%d", c.f.spec.file, p.Line)
}

func (c *ovCtx) dief(n ast.Node, f string, a ...any) {
	die("%s (%s): %s", c.pos(n), c.f.spec.name, fmt.Sprintf(f, a...))
}

func (c *ovCtx) lookup(name string) *ovVar {
	for i := len(c.scopes) - 1; i >= 0; i-- {
		if v, ok := c.scopes[i][name]; ok {
			return v
		}
	}
	return nil
}

func (c *ovCtx) declare(n ast.Node, name string, ty ovTy) *ovVar {
	if name == "_" {
		c.dief(n, "blank identifier declared")
	}
	v := &ovVar{lean: ovLeanName(name), ty: ty, block: c.blockID}
	c.scopes[len(c.scopes)-1][name] = v
	return v
}

func (c *ovCtx) push() (old int) {
	c.scopes = append(c.scopes, map[string]*ovVar{})
	old = c.blockID
	c.nextBlk++
	c.blockID = c.nextBlk
	return old
}

func (c *ovCtx) pop(old int) {
	c.scopes = c.scopes[:len(c.scopes)-1]
	c.blockID = old
}

type ovVal struct {
	lean string
	ty   ovTy
}

func (v ovVal) pure() bool { return !strings.Contains(v.lean, "←") }

func ovIsPtr(t ovTy) bool {
	switch t {
	case ovOValP, ovOMapP, ovOSliceP, ovOBytesP, ovO2SP, ovSValP, ovSArrP, ovSKVP:
		return true
	}
	return false
}

func ovParen(s string) string {
	if strings.ContainsAny(s, " ") && !(strings.HasPrefix(s, "(") && ovBalancedWhole(s)) {
		return "(" + s + ")"
	}
	return s
}

// ovBalancedWhole: s starts with "(" and that parenthesis closes at the very end.
func ovBalancedWhole(s string) bool {
	d := 0
	for i, r := range s {
		if r == '(' {
			d++
		} else if r == ')' {
			d--
			if d == 0 && i != len(s)-1 {
				return false
			}
		}
	}
	return d == 0
}

func ovSel(x ast.Expr) (string, bool) {
	if s, ok := x.(*ast.SelectorExpr); ok {
		if id, ok := s.X.(*ast.Ident); ok {
			return id.Name + "." + s.Sel.Name, true
		}
	}
	return "", false
}

func ovTypeText(x ast.Expr) string {
	switch t := x.(type) {
	case *ast.Ident:
		return t.Name
	case *ast.SelectorExpr:
		return ovTypeText(t.X) + "." + t.Sel.Name
	case *ast.StarExpr:
		return "*" + ovTypeText(t.X)
	case *ast.ArrayType:
		if t.Len == nil {
			return "[]" + ovTypeText(t.Elt)
		}
	}
	return fmt.Sprintf("<%T>", x)
}

// ---------------------------------------------------------------- expressions

func (c *ovCtx) expr(x ast.Expr) ovVal {
	switch e := x.(type) {
	case *ast.ParenExpr:
		return c.expr(e.X)
	case *ast.BasicLit:
		if e.Kind == token.INT {
			n, err := strconv.ParseInt(e.Value, 0, 64)
			if err != nil {
				c.dief(e, "integer literal %s", e.Value)
			}
			return ovVal{strconv.FormatInt(n, 10), ovUntyped}
		}
		c.dief(e, "literal %s outside panic(..)", e.Value)
	case *ast.Ident:
		switch e.Name {
		case "true", "false":
			if c.lookup(e.Name) == nil {
				return ovVal{e.Name, ovBool}
			}
		case "nil":
			return ovVal{"none", ovNil}
		}
		if v := c.lookup(e.Name); v != nil {
			return ovVal{v.lean, v.ty}
		}
		if c.pkgErrs[e.Name] {
			return ovVal{fmt.Sprintf("(some %q)", e.Name), ovErr}
		}
		c.dief(e, "identifier %s is not a local, not a package-level error variable", e.Name)
	case *ast.UnaryExpr:
		v := c.expr(e.X)
		switch {
		case e.Op == token.NOT && v.ty == ovBool:
			return ovVal{"!" + ovParen(v.lean), ovBool}
		case e.Op == token.SUB && (v.ty == ovUntyped || v.ty == ovInt):
			return ovVal{"(-" + ovParen(v.lean) + ")", v.ty}
		}
		c.dief(e, "unary %s on %s", e.Op, v.ty)
	case *ast.BinaryExpr:
		return c.binary(e)
	case *ast.SelectorExpr:
		if q, ok := ovSel(e); ok {
			if id := e.X.(*ast.Ident); c.lookup(id.Name) == nil {
				if t, ok := ovConsts[q]; ok {
					return ovVal{e.Sel.Name, t}
				}
				c.dief(e, "%s: not a whitelisted constant", q)
			}
		}
		v := c.expr(e.X)
		switch {
		case v.ty == ovAttr && (e.Sel.Name == "Key"):
			return ovVal{ovParen(v.lean) + ".Key", ovString}
		case v.ty == ovAttr && (e.Sel.Name == "Value"):
			return ovVal{ovParen(v.lean) + ".Value", ovOVal}
		case v.ty == ovElem && e.Sel.Name == "str":
			return ovVal{ovParen(v.lean) + ".str", ovString}
		case v.ty == ovElem && e.Sel.Name == "val":
			return ovVal{ovParen(v.lean) + ".val", ovOVal}
		case v.ty == ovO2SP && e.Sel.Name == "attrElems":
			return ovVal{"(← rd (" + v.lean + ".comp Otlp2Stef.attrElemsP))", ovElems}
		}
		c.dief(e, "field %s of %s", e.Sel.Name, v.ty)
	case *ast.IndexExpr:
		s, i := c.expr(e.X), c.intExpr(e.Index)
		switch s.ty {
		case ovAttrs:
			return ovVal{"(← idx " + ovParen(s.lean) + " " + ovParen(i) + ")", ovAttr}
		case ovElems:
			return ovVal{"(← idx " + ovParen(s.lean) + " " + ovParen(i) + ")", ovElem}
		}
		c.dief(e, "index into %s", s.ty)
	case *ast.CompositeLit:
		tn := ovTypeText(e.Type)
		var want map[string]ovTy
		var lt string
		switch tn {
		case "AttrAccessible":
			want, lt = map[string]ovTy{"Key": ovString, "Value": ovOVal}, "Attr"
		case "elem":
			want, lt = map[string]ovTy{"str": ovString, "val": ovOVal}, "Elem"
		default:
			c.dief(e, "composite literal of type %s", tn)
		}
		if len(e.Elts) != len(want) {
			c.dief(e, "composite literal %s must set every field by name", tn)
		}
		var parts []string
		seen := map[string]bool{}
		for _, el := range e.Elts {
			kv, ok := el.(*ast.KeyValueExpr)
			if !ok {
				c.dief(e, "positional composite literal")
			}
			k := kv.Key.(*ast.Ident).Name
			t, ok := want[k]
			if !ok || seen[k] {
				c.dief(e, "field %s of %s", k, tn)
			}
			seen[k] = true
			v := c.expr(kv.Value)
			if v.ty != t {
				c.dief(kv, "field %s: %s where %s expected", k, v.ty, t)
			}
			parts = append(parts, k+" := "+v.lean)
		}
		ty := ovAttr
		if lt == "Elem" {
			ty = ovElem
		}
		return ovVal{"({ " + strings.Join(parts, ", ") + " } : " + lt + ")", ty}
	case *ast.CallExpr:
		return c.call(e, false)
	}
	c.dief(x, "expression %T", x)
	return ovVal{}
}

// intExpr: an expression of type int (an untyped constant becomes one).
func (c *ovCtx) intExpr(x ast.Expr) string {
	v := c.expr(x)
	if v.ty == ovUntyped {
		return "(" + v.lean + " : Int)"
	}
	if v.ty != ovInt {
		c.dief(x, "%s where int expected", v.ty)
	}
	return v.lean
}

func (c *ovCtx) binary(e *ast.BinaryExpr) ovVal {
	l, r := c.expr(e.X), c.expr(e.Y)
	// untyped constants take the type of the other operand
	if l.ty == ovUntyped && r.ty != ovUntyped {
		l.ty = r.ty
		if r.ty == ovInt {
			l.lean = "(" + l.lean + " : Int)"
		}
	}
	if r.ty == ovUntyped && l.ty != ovUntyped {
		r.ty = l.ty
		if l.ty == ovInt {
			r.lean = "(" + r.lean + " : Int)"
		}
	}
	op := e.Op
	ll, rl := ovParen(l.lean), ovParen(r.lean)
	switch {
	case l.ty == ovInt && r.ty == ovInt:
		switch op {
		case token.ADD:
			return ovVal{ll + " + " + rl, ovInt}
		case token.SUB:
			return ovVal{ll + " - " + rl, ovInt}
		case token.EQL:
			return ovVal{"decide (" + ll + " = " + rl + ")", ovBool}
		case token.NEQ:
			return ovVal{"decide (" + ll + " ≠ " + rl + ")", ovBool}
		case token.LSS:
			return ovVal{"decide (" + ll + " < " + rl + ")", ovBool}
		case token.GTR:
			return ovVal{"decide (" + ll + " > " + rl + ")", ovBool}
		case token.LEQ:
			return ovVal{"decide (" + ll + " ≤ " + rl + ")", ovBool}
		case token.GEQ:
			return ovVal{"decide (" + ll + " ≥ " + rl + ")", ovBool}
		}
	case l.ty == ovInt64 && r.ty == ovInt64:
		switch op {
		case token.LSS:
			return ovVal{"i64lt " + ll + " " + rl, ovBool}
		case token.GTR:
			return ovVal{"i64gt " + ll + " " + rl, ovBool}
		}
	case l.ty == ovBool && r.ty == ovBool:
		switch op {
		case token.EQL:
			return ovVal{"(" + ll + " == " + rl + ")", ovBool}
		case token.NEQ:
			return ovVal{"(" + ll + " != " + rl + ")", ovBool}
		case token.LAND:
			if !r.pure() {
				c.dief(e, "&& with an effect on its right side")
			}
			return ovVal{"(" + ll + " && " + rl + ")", ovBool}
		case token.LOR:
			if !r.pure() {
				c.dief(e, "|| with an effect on its right side")
			}
			return ovVal{"(" + ll + " || " + rl + ")", ovBool}
		}
	case (l.ty == ovValueType && r.ty == ovValueType) || (l.ty == ovSTag && r.ty == ovSTag):
		switch op {
		case token.EQL:
			return ovVal{"decide (" + ll + " = " + rl + ")", ovBool}
		case token.NEQ:
			return ovVal{"decide (" + ll + " ≠ " + rl + ")", ovBool}
		}
	case l.ty == ovErr && r.ty == ovNil:
		switch op {
		case token.EQL:
			return ovVal{"decide (" + ll + " = none)", ovBool}
		case token.NEQ:
			return ovVal{"decide (" + ll + " ≠ none)", ovBool}
		}
	}
	c.dief(e, "operator %s on %s and %s", op, l.ty, r.ty)
	return ovVal{}
}

func ovFill(tmpl, recv string, args []string) string {
	s := strings.ReplaceAll(tmpl, "%r", ovParen(recv))
	for i, a := range args {
		s = strings.ReplaceAll(s, "%"+strconv.Itoa(i+1), ovParen(a))
	}
	return s
}

// args of a whitelisted call, checked against the expected types.
func (c *ovCtx) args(e *ast.CallExpr, want []ovTy, what string) []string {
	if len(e.Args) != len(want) {
		c.dief(e, "%s: %d arguments where %d expected", what, len(e.Args), len(want))
	}
	var out []string
	for i, a := range e.Args {
		v := c.expr(a)
		if v.ty == ovUntyped && want[i] == ovInt {
			v = ovVal{"(" + v.lean + " : Int)", ovInt}
		}
		if v.ty != want[i] {
			c.dief(a, "%s: argument %d is %s where %s expected", what, i+1, v.ty, want[i])
		}
		out = append(out, v.lean)
	}
	return out
}

// call translates a call expression. stmt: the call is an expression statement (its value, if any, is dropped).
func (c *ovCtx) call(e *ast.CallExpr, stmt bool) ovVal {
	if e.Ellipsis != token.NoPos {
		// only b.Append(xs...)
		se, ok := e.Fun.(*ast.SelectorExpr)
		if !ok || se.Sel.Name != "Append" {
			c.dief(e, "variadic call with `...`")
		}
	}
	switch fn := e.Fun.(type) {
	case *ast.ArrayType:
		// []byte(x)
		if ovTypeText(fn) == "[]byte" && len(e.Args) == 1 {
			v := c.expr(e.Args[0])
			if v.ty == ovBytes || v.ty == ovString {
				return ovVal{v.lean, ovBytes}
			}
		}
		c.dief(e, "conversion to %s", ovTypeText(fn))
	case *ast.Ident:
		if c.lookup(fn.Name) != nil {
			c.dief(e, "call of the local %s", fn.Name)
		}
		switch fn.Name {
		case "len":
			if len(e.Args) != 1 {
				c.dief(e, "len")
			}
			v := c.expr(e.Args[0])
			if v.ty != ovAttrs && v.ty != ovElems {
				c.dief(e, "len of %s", v.ty)
			}
			return ovVal{"len " + ovParen(v.lean), ovInt}
		case "min":
			if len(e.Args) != 2 {
				c.dief(e, "min with %d arguments", len(e.Args))
			}
			return ovVal{"min " + ovParen(c.intExpr(e.Args[0])) + " " + ovParen(c.intExpr(e.Args[1])), ovInt}
		case "int":
			if len(e.Args) != 1 {
				c.dief(e, "int(..)")
			}
			v := c.expr(e.Args[0])
			switch v.ty {
			case ovValueType, ovSTag:
				return ovVal{"Int.ofNat " + ovParen(v.lean), ovInt}
			case ovInt:
				return v
			}
			c.dief(e, "int(%s)", v.ty)
		case "make":
			// make([]AttrAccessible, 0, n): an empty slice (the capacity is not observable)
			if len(e.Args) == 3 && ovTypeText(e.Args[0]) == "[]AttrAccessible" {
				if z := c.expr(e.Args[1]); z.ty == ovUntyped && z.lean == "0" {
					if cp := c.expr(e.Args[2]); (cp.ty == ovInt || cp.ty == ovUntyped) && cp.pure() {
						return ovVal{"([] : List Attr)", ovAttrs}
					}
				}
			}
			c.dief(e, "make(..) other than make([]AttrAccessible, 0, n)")
		case "append":
			if len(e.Args) != 2 {
				c.dief(e, "append with %d arguments", len(e.Args))
			}
			s, x := c.expr(e.Args[0]), c.expr(e.Args[1])
			if s.ty == ovAttrs && x.ty == ovAttr {
				return ovVal{ovParen(s.lean) + " ++ [" + x.lean + "]", ovAttrs}
			}
			c.dief(e, "append(%s, %s)", s.ty, x.ty)
		case "panic":
			c.dief(e, "panic(..) used as an expression")
		}
		// a translated function
		if callee, ok := c.funcs[fn.Name]; ok && callee.spec.recv == "" {
			return c.callTranslated(e, callee, nil, stmt)
		}
		c.dief(e, "call of %s: not a translated function, not a whitelisted builtin", fn.Name)
	case *ast.SelectorExpr:
		if q, ok := ovSel(fn); ok {
			if id := fn.X.(*ast.Ident); c.lookup(id.Name) == nil {
				// package-qualified
				if q == "pkg.Bytes" && len(e.Args) == 1 {
					v := c.expr(e.Args[0])
					if v.ty == ovBytes || v.ty == ovString {
						return ovVal{v.lean, ovBytes}
					}
					c.dief(e, "pkg.Bytes(%s)", v.ty)
				}
				alts, ok := ovPkgFuncs[q]
				if !ok {
					c.dief(e, "call of %s: not whitelisted", q)
				}
				var vals []ovVal
				for _, a := range e.Args {
					vals = append(vals, c.expr(a))
				}
			alt:
				for _, pf := range alts {
					if len(pf.args) != len(vals) {
						continue
					}
					var texts []string
					for i, v := range vals {
						if v.ty != pf.args[i] {
							continue alt
						}
						texts = append(texts, ovParen(v.lean))
					}
					return ovVal{pf.lean + " " + strings.Join(texts, " "), pf.res}
				}
				var tys []string
				for _, v := range vals {
					tys = append(tys, string(v.ty))
				}
				c.dief(e, "%s on (%s): no such instance in the vocabulary", q, strings.Join(tys, ", "))
			}
		}
		// method call
		recv := c.expr(fn.X)
		if recv.ty == ovO2SP {
			// a method of the translated receiver type
			for _, callee := range c.funcs {
				if callee.spec.recv != "" && callee.spec.name == fn.Sel.Name {
					return c.callTranslated(e, callee, &recv, stmt)
				}
			}
		}
		m, ok := ovMethods[recv.ty][fn.Sel.Name]
		if !ok {
			c.dief(e, "method %s of %s: not whitelisted", fn.Sel.Name, recv.ty)
		}
		if fn.Sel.Name == "Append" && e.Ellipsis == token.NoPos {
			c.dief(e, "Append without `...`")
		}
		args := c.args(e, m.args, string(recv.ty)+"."+fn.Sel.Name)
		if fn.Sel.Name == "SetType" {
			st, ok := ovSTy[args[0]]
			if !ok {
				c.dief(e, "SetType(%s): only None, Array, KVList are in the vocabulary", args[0])
			}
			args[0] = st
		}
		text := ovFill(m.tmpl, recv.lean, args)
		switch m.kind {
		case "pure", "ptr":
			return ovVal{text, m.res}
		case "eff", "effptr":
			return ovVal{"(← " + text + ")", m.res}
		case "stmt":
			if !stmt {
				c.dief(e, "%s used as an expression", fn.Sel.Name)
			}
			return ovVal{text, ovVoid}
		}
	}
	c.dief(e, "call of %T", e.Fun)
	return ovVal{}
}

func (c *ovCtx) callTranslated(e *ast.CallExpr, callee *ovFunc, recv *ovVal, stmt bool) ovVal {
	c.f.calls[callee.spec.name] = true
	ps := callee.params
	var given []ovVal
	if recv != nil {
		given = append(given, *recv)
	}
	for _, a := range e.Args {
		given = append(given, c.expr(a))
	}
	if len(given) != len(ps) {
		c.dief(e, "call of %s with %d arguments", callee.spec.name, len(given))
	}
	var vals []string
	var ptrArgs []string
	for i, p := range ps {
		g := given[i]
		if g.ty == ovUntyped && p.ty == ovInt {
			g = ovVal{"(" + g.lean + " : Int)", ovInt}
		}
		if g.ty != p.ty {
			c.dief(e, "call of %s: argument %s is %s where %s expected", callee.spec.name, p.goName, g.ty, p.ty)
		}
		if p.ptr != "" {
			ptrArgs = append(ptrArgs, g.lean)
		} else {
			vals = append(vals, ovParen(g.lean))
		}
	}
	app := callee.spec.lean
	if callee.fuelledKnown() {
		app += " fuel"
	}
	if len(vals) > 0 {
		app += " " + strings.Join(vals, " ")
	}
	var text string
	switch len(ptrArgs) {
	case 0:
		if callee.spec.state != c.f.spec.state {
			c.dief(e, "call of %s (state %s) from a function with state %s", callee.spec.name, callee.spec.state, c.f.spec.state)
		}
		text = "call (" + app + ")"
	case 1:
		text = "focus " + ovParen(ptrArgs[0]) + " (" + app + ")"
	default:
		c.dief(e, "call of %s: a translated function with several pointer parameters cannot be called from translated code", callee.spec.name)
	}
	if stmt {
		if callee.res != ovVoid {
			return ovVal{"let _ ← " + text, ovVoid}
		}
		return ovVal{text, ovVoid}
	}
	if callee.res == ovVoid {
		c.dief(e, "%s has no result", callee.spec.name)
	}
	return ovVal{"(← " + text + ")", callee.res}
}

// fuelledKnown: fuel is decided before the bodies are translated (from the call graph of the source).
func (f *ovFunc) fuelledKnown() bool { return f.fuelled }

// ---------------------------------------------------------------- statements

type ovOut struct {
	lines []string
}

func (o *ovOut) add(ind int, s string) { o.lines = append(o.lines, strings.Repeat("  ", ind)+s) }

// cond: a Go condition as a Lean `if` condition.
func (c *ovCtx) cond(x ast.Expr) string {
	v := c.expr(x)
	if v.ty != ovBool {
		c.dief(x, "condition of type %s", v.ty)
	}
	// `decide (p)` as a condition is `p`
	if strings.HasPrefix(v.lean, "decide (") && ovBalancedWhole(v.lean[len("decide "):]) {
		return v.lean[len("decide (") : len(v.lean)-1]
	}
	return v.lean
}

// block translates the statements of a Go block into `o` at indentation `ind`. It returns whether the last
// line is a binding (then the caller must add a final expression).
func (c *ovCtx) block(stmts []ast.Stmt, o *ovOut, ind int) {
	before := len(o.lines)
	for _, s := range stmts {
		c.stmt(s, o, ind)
	}
	if len(o.lines) == before {
		o.add(ind, "pure ()")
		return
	}
	last := strings.TrimSpace(o.lines[len(o.lines)-1])
	// find the first line of the last statement: a binding at this indentation
	for i := len(o.lines) - 1; i >= before; i-- {
		l := o.lines[i]
		if len(l)-len(strings.TrimLeft(l, " ")) == ind*2 {
			last = strings.TrimSpace(l)
			break
		}
	}
	if strings.HasPrefix(last, "let ") {
		o.add(ind, "pure ()")
	}
}

func (c *ovCtx) assignLocal(n ast.Node, name string, v ovVal, o *ovOut, ind int, define bool) {
	if ovIsPtr(v.ty) && !define {
		c.dief(n, "assignment to the pointer %s", name)
	}
	var lv *ovVar
	if define {
		if v.ty == ovUntyped {
			v = ovVal{v.lean, ovInt}
		}
		if v.ty == ovVoid || v.ty == ovNil {
			c.dief(n, "%s := value of type %s", name, v.ty)
		}
		lv = c.declare(n, name, v.ty)
	} else {
		lv = c.lookup(name)
		if lv == nil {
			c.dief(n, "assignment to %s: not a local", name)
		}
		if lv.block != c.blockID {
			c.dief(n, "assignment to %s from a nested block (a local may only be assigned in the block that declares it, or at the top level of a Range closure)", name)
		}
		if v.ty == ovUntyped && lv.ty == ovInt {
			v.ty = ovInt
		}
		if v.ty != lv.ty {
			c.dief(n, "assignment of %s to %s of type %s", v.ty, name, lv.ty)
		}
	}
	text := v.lean
	// `let x ← m` for a value that is exactly one effect
	if strings.HasPrefix(text, "(← ") && ovBalancedWhole(text) {
		o.add(ind, "let "+lv.lean+" ← "+text[len("(← "):len(text)-1])
		return
	}
	if lt, ok := ovLeanTy[lv.ty]; ok && (v.ty == ovInt || lv.ty == ovAttrs) && define {
		o.add(ind, "let "+lv.lean+" : "+lt+" := "+text)
		return
	}
	o.add(ind, "let "+lv.lean+" := "+text)
}

func (c *ovCtx) stmt(s ast.Stmt, o *ovOut, ind int) {
	switch st := s.(type) {
	case *ast.AssignStmt:
		if len(st.Lhs) != 1 || len(st.Rhs) != 1 {
			c.dief(st, "assignment with several operands")
		}
		switch st.Tok {
		case token.DEFINE:
			id, ok := st.Lhs[0].(*ast.Ident)
			if !ok {
				c.dief(st, ":= to a non-identifier")
			}
			v := c.expr(st.Rhs[0])
			c.assignLocal(st, id.Name, v, o, ind, true)
		case token.ASSIGN:
			switch lhs := st.Lhs[0].(type) {
			case *ast.Ident:
				v := c.expr(st.Rhs[0])
				c.assignLocal(st, lhs.Name, v, o, ind, false)
			case *ast.SelectorExpr:
				// o.attrElems = pkg.EnsureLen(o.attrElems, n)
				base := c.expr(lhs.X)
				if base.ty != ovO2SP || lhs.Sel.Name != "attrElems" {
					c.dief(st, "assignment to field %s of %s", lhs.Sel.Name, base.ty)
				}
				call, ok := st.Rhs[0].(*ast.CallExpr)
				if !ok {
					c.dief(st, "o.attrElems = <not a call>")
				}
				q, _ := ovSel(call.Fun)
				if q != "pkg.EnsureLen" || len(call.Args) != 2 {
					c.dief(st, "o.attrElems = %s(..): only pkg.EnsureLen(o.attrElems, n)", q)
				}
				a0, ok := call.Args[0].(*ast.SelectorExpr)
				if !ok || a0.Sel.Name != "attrElems" || c.expr(a0.X).lean != base.lean {
					c.dief(st, "pkg.EnsureLen of another slice than the one assigned")
				}
				n := c.intExpr(call.Args[1])
				o.add(ind, "upd ("+base.lean+".comp Otlp2Stef.attrElemsP) (pkgEnsureLen Elem.zero "+ovParen(n)+")")
			case *ast.IndexExpr:
				// o.attrElems[i] = e
				sel, ok := lhs.X.(*ast.SelectorExpr)
				if !ok {
					c.dief(st, "assignment to an element of a local slice")
				}
				base := c.expr(sel.X)
				if base.ty != ovO2SP || sel.Sel.Name != "attrElems" {
					c.dief(st, "assignment to an element of field %s of %s", sel.Sel.Name, base.ty)
				}
				i := c.intExpr(lhs.Index)
				v := c.expr(st.Rhs[0])
				if v.ty != ovElem {
					c.dief(st, "element of type %s stored in []elem", v.ty)
				}
				o.add(ind, "upd ("+base.lean+".comp Otlp2Stef.attrElemsP) (setIdx "+ovParen(i)+" "+ovParen(v.lean)+")")
			default:
				c.dief(st, "assignment to %T", st.Lhs[0])
			}
		default:
			c.dief(st, "assignment operator %s", st.Tok)
		}
	case *ast.IncDecStmt:
		id, ok := st.X.(*ast.Ident)
		if !ok {
			c.dief(st, "++/-- of a non-local")
		}
		lv := c.lookup(id.Name)
		if lv == nil || lv.ty != ovInt {
			c.dief(st, "++/-- of %s", id.Name)
		}
		op := " + 1"
		if st.Tok == token.DEC {
			op = " - 1"
		}
		c.assignLocal(st, id.Name, ovVal{lv.lean + op, ovInt}, o, ind, false)
	case *ast.ExprStmt:
		call, ok := st.X.(*ast.CallExpr)
		if !ok {
			c.dief(st, "expression statement %T", st.X)
		}
		if id, ok := call.Fun.(*ast.Ident); ok && id.Name == "panic" && c.lookup("panic") == nil {
			if len(call.Args) == 1 {
				if bl, ok := call.Args[0].(*ast.BasicLit); ok && bl.Kind == token.STRING {
					msg, err := strconv.Unquote(bl.Value)
					if err != nil {
						c.dief(st, "panic message")
					}
					o.add(ind, "goPanic "+strconv.Quote(msg))
					return
				}
			}
			c.dief(st, "panic(..) with something else than a string literal")
		}
		if se, ok := call.Fun.(*ast.SelectorExpr); ok {
			if se.Sel.Name == "Range" {
				c.rangeCall(call, se, o, ind)
				return
			}
			if q, _ := ovSel(se); q == "slices.SortFunc" && c.lookup("slices") == nil {
				c.sortFunc(call, o, ind)
				return
			}
		}
		v := c.call(call, true)
		if v.ty != ovVoid {
			c.dief(st, "the value of a call (%s) is dropped", v.ty)
		}
		o.add(ind, v.lean)
	case *ast.IfStmt:
		c.ifStmt(st, o, ind, "if ")
	case *ast.SwitchStmt:
		c.switchStmt(st, o, ind)
	case *ast.ForStmt:
		c.forStmt(st, o, ind)
	case *ast.RangeStmt:
		// for i := range xs
		if st.Tok != token.DEFINE || st.Value != nil || st.Key == nil {
			c.dief(st, "range loop other than `for i := range xs`")
		}
		xs := c.expr(st.X)
		if xs.ty != ovElems && xs.ty != ovAttrs {
			c.dief(st, "range over %s", xs.ty)
		}
		key := st.Key.(*ast.Ident).Name
		c.noOuterAssign(st.Body, "for-range")
		old := c.push()
		kv := c.declare(st, key, ovInt)
		o.add(ind, "forLt (len "+ovParen(xs.lean)+") fun "+kv.lean+" => do")
		c.loopBody(st.Body, o, ind+1)
		c.pop(old)
	case *ast.ReturnStmt:
		if c.inRange {
			c.dief(st, "return inside a Range closure (only the final `return true`)")
		}
		switch {
		case len(st.Results) == 0 && c.f.res == ovVoid:
			o.add(ind, "ret ()")
		case len(st.Results) == 1 && c.f.res != ovVoid:
			v := c.expr(st.Results[0])
			if v.ty == ovUntyped && c.f.res == ovInt {
				v.ty = ovInt
			}
			if v.ty == ovNil && c.f.res == ovErr {
				v.ty = ovErr
			}
			if v.ty != c.f.res {
				c.dief(st, "return of %s from a function returning %s", v.ty, c.f.res)
			}
			o.add(ind, "ret "+ovParen(v.lean))
		default:
			c.dief(st, "return with %d values", len(st.Results))
		}
	case *ast.BlockStmt:
		c.dief(st, "nested block statement")
	default:
		c.dief(s, "statement %T", s)
	}
}

func (c *ovCtx) ifStmt(st *ast.IfStmt, o *ovOut, ind int, kw string) {
	if st.Init != nil {
		c.dief(st, "if with an init statement")
	}
	o.add(ind, kw+c.cond(st.Cond)+" then")
	old := c.push()
	c.block(st.Body.List, o, ind+1)
	c.pop(old)
	switch el := st.Else.(type) {
	case nil:
	case *ast.IfStmt:
		c.ifStmt(el, o, ind, "else if ")
	case *ast.BlockStmt:
		o.add(ind, "else")
		old := c.push()
		c.block(el.List, o, ind+1)
		c.pop(old)
	default:
		c.dief(st, "else %T", st.Else)
	}
}

func (c *ovCtx) switchStmt(st *ast.SwitchStmt, o *ovOut, ind int) {
	if st.Init != nil || st.Tag == nil {
		c.dief(st, "switch with an init statement or without a tag")
	}
	tag := c.expr(st.Tag)
	if tag.ty != ovValueType && tag.ty != ovSTag {
		c.dief(st, "switch on %s", tag.ty)
	}
	c.swCount++
	sw := fmt.Sprintf("sw_%d", c.swCount)
	o.add(ind, "let "+sw+" := "+tag.lean)
	var def *ast.CaseClause
	kw := "if "
	n := 0
	for _, cl := range st.Body.List {
		cc := cl.(*ast.CaseClause)
		for _, b := range cc.Body {
			if br, ok := b.(*ast.BranchStmt); ok {
				c.dief(br, "%s in a switch clause", br.Tok)
			}
		}
		if cc.List == nil {
			if def != nil {
				c.dief(cc, "two default clauses")
			}
			def = cc
			continue
		}
		var alts []string
		for _, x := range cc.List {
			v := c.expr(x)
			if v.ty != tag.ty || !v.pure() {
				c.dief(x, "case of type %s in a switch on %s", v.ty, tag.ty)
			}
			alts = append(alts, sw+" = "+ovParen(v.lean))
		}
		o.add(ind, kw+strings.Join(alts, " ∨ ")+" then")
		old := c.push()
		c.block(cc.Body, o, ind+1)
		c.pop(old)
		kw = "else if "
		n++
	}
	if n == 0 {
		c.dief(st, "switch without a case clause")
	}
	// the default clause runs when no case matches, wherever it is written
	o.add(ind, "else")
	old := c.push()
	if def != nil {
		c.block(def.Body, o, ind+1)
	} else {
		o.add(ind+1, "pure ()")
	}
	c.pop(old)
}

// noOuterAssign: a loop body (three-clause for, for-range) assigns no local of an enclosing block.
func (c *ovCtx) noOuterAssign(body *ast.BlockStmt, what string) {
	declared := map[string]bool{}
	ast.Inspect(body, func(n ast.Node) bool {
		switch x := n.(type) {
		case *ast.AssignStmt:
			for _, l := range x.Lhs {
				if id, ok := l.(*ast.Ident); ok {
					if x.Tok == token.DEFINE {
						declared[id.Name] = true
					} else if !declared[id.Name] && c.lookup(id.Name) != nil {
						c.dief(x, "%s body assigns the outer local %s", what, id.Name)
					}
				}
			}
		case *ast.IncDecStmt:
			if id, ok := x.X.(*ast.Ident); ok && !declared[id.Name] && c.lookup(id.Name) != nil {
				c.dief(x, "%s body assigns the outer local %s", what, id.Name)
			}
		case *ast.BranchStmt:
			c.dief(x, "%s in a loop body", x.Tok)
		}
		return true
	})
}

func (c *ovCtx) loopBody(body *ast.BlockStmt, o *ovOut, ind int) {
	before := len(o.lines)
	c.block(body.List, o, ind)
	_ = before
}

func (c *ovCtx) forStmt(st *ast.ForStmt, o *ovOut, ind int) {
	// for i := 0; i < bound; i++
	init, ok := st.Init.(*ast.AssignStmt)
	if !ok || init.Tok != token.DEFINE || len(init.Lhs) != 1 || len(init.Rhs) != 1 {
		c.dief(st, "for loop: init must be `i := 0`")
	}
	iv, ok := init.Lhs[0].(*ast.Ident)
	if bl, ok2 := init.Rhs[0].(*ast.BasicLit); !ok || !ok2 || bl.Value != "0" {
		c.dief(st, "for loop: init must be `i := 0`")
	}
	cond, ok := st.Cond.(*ast.BinaryExpr)
	if !ok || cond.Op != token.LSS {
		c.dief(st, "for loop: condition must be `i < bound`")
	}
	if id, ok := cond.X.(*ast.Ident); !ok || id.Name != iv.Name {
		c.dief(st, "for loop: condition must be `%s < bound`", iv.Name)
	}
	post, ok := st.Post.(*ast.IncDecStmt)
	if !ok || post.Tok != token.INC {
		c.dief(st, "for loop: post statement must be `%s++`", iv.Name)
	}
	if id, ok := post.X.(*ast.Ident); !ok || id.Name != iv.Name {
		c.dief(st, "for loop: post statement must be `%s++`", iv.Name)
	}
	bound := c.expr(cond.Y)
	if bound.ty == ovUntyped {
		bound = ovVal{"(" + bound.lean + " : Int)", ovInt}
	}
	if bound.ty != ovInt {
		c.dief(st, "for loop: bound of type %s", bound.ty)
	}
	if !bound.pure() {
		c.dief(st, "for loop: the bound reads the state or can panic (it is evaluated every round in Go)")
	}
	// the bound must not mention the loop variable; the body must not assign it or any outer local
	ast.Inspect(cond.Y, func(n ast.Node) bool {
		if id, ok := n.(*ast.Ident); ok && id.Name == iv.Name {
			c.dief(st, "for loop: the bound mentions the loop variable")
		}
		return true
	})
	old := c.push()
	v := c.declare(st, iv.Name, ovInt)
	c.noOuterAssign(st.Body, "for")
	o.add(ind, "forLt "+ovParen(bound.lean)+" fun "+v.lean+" => do")
	c.loopBody(st.Body, o, ind+1)
	c.pop(old)
}

// rangeCall: m.Range(func(k string, v pcommon.Value) bool { ..; return true })
func (c *ovCtx) rangeCall(call *ast.CallExpr, se *ast.SelectorExpr, o *ovOut, ind int) {
	m := c.expr(se.X)
	if m.ty != ovOMap {
		c.dief(call, "Range on %s", m.ty)
	}
	if len(call.Args) != 1 {
		c.dief(call, "Range with %d arguments", len(call.Args))
	}
	fl, ok := call.Args[0].(*ast.FuncLit)
	if !ok {
		c.dief(call, "Range with something else than a function literal")
	}
	ps := fl.Type.Params.List
	var names []string
	var tys []string
	for _, p := range ps {
		for _, n := range p.Names {
			names = append(names, n.Name)
			tys = append(tys, ovTypeText(p.Type))
		}
	}
	if len(names) != 2 || tys[0] != "string" || tys[1] != "pcommon.Value" ||
		fl.Type.Results == nil || len(fl.Type.Results.List) != 1 || ovTypeText(fl.Type.Results.List[0].Type) != "bool" {
		c.dief(fl, "Range closure must be func(k string, v pcommon.Value) bool")
	}
	body := fl.Body.List
	if len(body) == 0 {
		c.dief(fl, "empty Range closure")
	}
	last, ok := body[len(body)-1].(*ast.ReturnStmt)
	if !ok || len(last.Results) != 1 {
		c.dief(fl, "Range closure must end with `return true`")
	}
	if id, ok := last.Results[0].(*ast.Ident); !ok || id.Name != "true" || c.lookup("true") != nil {
		c.dief(last, "Range closure must end with `return true` (an early stop is outside the subset)")
	}
	body = body[:len(body)-1]
	// carried locals: outer locals assigned at the top level of the closure
	var carried []string
	seen := map[string]bool{}
	declared := map[string]bool{}
	for _, s := range body {
		var name string
		switch x := s.(type) {
		case *ast.AssignStmt:
			if len(x.Lhs) == 1 {
				if id, ok := x.Lhs[0].(*ast.Ident); ok {
					if x.Tok == token.DEFINE {
						declared[id.Name] = true
					} else {
						name = id.Name
					}
				}
			}
		case *ast.IncDecStmt:
			if id, ok := x.X.(*ast.Ident); ok {
				name = id.Name
			}
		}
		if name != "" && !declared[name] && !seen[name] && c.lookup(name) != nil {
			seen[name] = true
			carried = append(carried, name)
		}
	}
	var accInit, accPat, accRes []string
	for _, n := range carried {
		lv := c.lookup(n)
		if _, ok := ovLeanTy[lv.ty]; !ok {
			c.dief(fl, "the closure assigns %s of type %s", n, lv.ty)
		}
		if lv.block != c.blockID {
			c.dief(fl, "the closure assigns %s, which is not a local of the block of the Range call", n)
		}
		accInit = append(accInit, lv.lean)
		accPat = append(accPat, lv.lean)
		accRes = append(accRes, lv.lean)
	}
	tuple := func(xs []string, unit string) string {
		switch len(xs) {
		case 0:
			return unit
		case 1:
			return xs[0]
		}
		return "(" + strings.Join(xs, ", ") + ")"
	}
	old := c.push()
	kv := c.declare(fl, names[0], ovString)
	vv := c.declare(fl, names[1], ovOVal)
	for _, n := range carried {
		outer := c.lookup(n)
		c.scopes[len(c.scopes)-1][n] = &ovVar{lean: outer.lean, ty: outer.ty, block: c.blockID}
	}
	wasIn := c.inRange
	c.inRange = true
	o.add(ind, "let "+tuple(accPat, "_")+" ← forRange "+ovParen(m.lean)+" "+tuple(accInit, "()")+" fun "+kv.lean+" "+vv.lean+" "+tuple(accPat, "_")+" => do")
	for _, s := range body {
		c.stmt(s, o, ind+1)
	}
	o.add(ind+1, "pure "+tuple(accRes, "()"))
	c.inRange = wasIn
	c.pop(old)
	// after the loop the carried locals are rebound in the block of the call (same names, same block)
}

// sortFunc: slices.SortFunc(o.attrElems, func(a, b elem) int { return <pure expression> })
func (c *ovCtx) sortFunc(call *ast.CallExpr, o *ovOut, ind int) {
	if len(call.Args) != 2 {
		c.dief(call, "slices.SortFunc with %d arguments", len(call.Args))
	}
	sel, ok := call.Args[0].(*ast.SelectorExpr)
	if !ok || sel.Sel.Name != "attrElems" {
		c.dief(call, "slices.SortFunc of something else than o.attrElems")
	}
	base := c.expr(sel.X)
	if base.ty != ovO2SP {
		c.dief(call, "slices.SortFunc of a field of %s", base.ty)
	}
	fl, ok := call.Args[1].(*ast.FuncLit)
	if !ok {
		c.dief(call, "slices.SortFunc with something else than a function literal")
	}
	var names []string
	for _, p := range fl.Type.Params.List {
		if ovTypeText(p.Type) != "elem" {
			c.dief(fl, "comparison closure over %s", ovTypeText(p.Type))
		}
		for _, n := range p.Names {
			names = append(names, n.Name)
		}
	}
	if len(names) != 2 || fl.Type.Results == nil || len(fl.Type.Results.List) != 1 || ovTypeText(fl.Type.Results.List[0].Type) != "int" {
		c.dief(fl, "comparison closure must be func(a, b elem) int")
	}
	if len(fl.Body.List) != 1 {
		c.dief(fl, "comparison closure must be a single return")
	}
	r, ok := fl.Body.List[0].(*ast.ReturnStmt)
	if !ok || len(r.Results) != 1 {
		c.dief(fl, "comparison closure must be a single return")
	}
	old := c.push()
	a := c.declare(fl, names[0], ovElem)
	b := c.declare(fl, names[1], ovElem)
	v := c.expr(r.Results[0])
	c.pop(old)
	if v.ty != ovInt || !v.pure() {
		c.dief(r, "comparison closure returns %s (or has effects)", v.ty)
	}
	o.add(ind, "upd ("+base.lean+".comp Otlp2Stef.attrElemsP) (fun x => some (sortFunc (fun "+a.lean+" "+b.lean+" => "+v.lean+") x))")
}

// ---------------------------------------------------------------- driver

func ovFindFunc(f *ast.File, recv, name string) *ast.FuncDecl {
	for _, d := range f.Decls {
		fd, ok := d.(*ast.FuncDecl)
		if !ok || fd.Name.Name != name {
			continue
		}
		r := ""
		if fd.Recv != nil && len(fd.Recv.List) == 1 {
			r = ovTypeText(fd.Recv.List[0].Type)
		}
		if r == recv {
			return fd
		}
	}
	return nil
}

func genOtlpValFlow() {
	files := map[string]*ast.File{}
	fsets := map[string]*token.FileSet{}
	pkgErrs := map[string]bool{}
	for _, sp := range ovSpecs {
		if _, ok := files[sp.file]; !ok {
			fs, f := parseFile(sp.file)
			files[sp.file], fsets[sp.file] = f, fs
			// package-level `var x = errors.New("..")`
			for _, d := range f.Decls {
				gd, ok := d.(*ast.GenDecl)
				if !ok || gd.Tok != token.VAR {
					continue
				}
				for _, s := range gd.Specs {
					vs := s.(*ast.ValueSpec)
					if len(vs.Names) == 1 && len(vs.Values) == 1 {
						if call, ok := vs.Values[0].(*ast.CallExpr); ok {
							if q, _ := ovSel(call.Fun); q == "errors.New" {
								pkgErrs[vs.Names[0].Name] = true
							}
						}
					}
				}
			}
		}
	}
	// the struct types the vocabulary mirrors must be what the source declares
	ovCheckStruct(files[ovDir+"compare.go"], "AttrAccessible", []string{"Key string", "Value pcommon.Value"})
	ovCheckStruct(files[ovDir+"otlpval2tef.go"], "elem", []string{"str string", "val pcommon.Value"})
	ovCheckStruct(files[ovDir+"otlpval2tef.go"], "Otlp2Stef", []string{"attrElems []elem"})

	funcs := map[string]*ovFunc{}
	var order []*ovFunc
	for _, sp := range ovSpecs {
		fd := ovFindFunc(files[sp.file], sp.recv, sp.name)
		if fd == nil {
			if sp.recv != "" {
				die("%s: method %s of %s not found", sp.file, sp.name, sp.recv)
			}
			die("%s: function %s not found", sp.file, sp.name)
		}
		if fd.Type.TypeParams != nil {
			die("%s: %s is generic", sp.file, sp.name)
		}
		fn := &ovFunc{spec: sp, decl: fd, fset: fsets[sp.file], calls: map[string]bool{}}
		idx := 0
		addParam := func(name, tyText, key string) {
			p := ovParam{goName: name, lean: ovLeanName(name)}
			if ptr, ok := sp.ptrs[key]; ok {
				t, ok := ovDeclPtr[tyText]
				if !ok {
					die("%s: %s: parameter %s of type %s cannot be a pointer of the model", sp.file, sp.name, name, tyText)
				}
				p.ty, p.ptr = t, ptr
			} else {
				t, ok := ovDeclRead[tyText]
				if !ok {
					die("%s: %s: parameter %s has type %s, which is not in the vocabulary", sp.file, sp.name, name, tyText)
				}
				p.ty = t
			}
			fn.params = append(fn.params, p)
		}
		if fd.Recv != nil {
			r := fd.Recv.List[0]
			if len(r.Names) != 1 {
				die("%s: %s: unnamed receiver", sp.file, sp.name)
			}
			addParam(r.Names[0].Name, ovTypeText(r.Type), "#recv")
		}
		for _, p := range fd.Type.Params.List {
			if len(p.Names) == 0 {
				die("%s: %s: unnamed parameter", sp.file, sp.name)
			}
			for _, n := range p.Names {
				addParam(n.Name, ovTypeText(p.Type), "#"+strconv.Itoa(idx))
				idx++
			}
		}
		for key := range sp.ptrs {
			if key != "#recv" {
				if n, err := strconv.Atoi(key[1:]); err != nil || n >= idx {
					die("%s: %s: the spec names parameter %s, the source has %d parameters", sp.file, sp.name, key, idx)
				}
			}
		}
		fn.res = ovVoid
		if fd.Type.Results != nil {
			if len(fd.Type.Results.List) != 1 || len(fd.Type.Results.List[0].Names) != 0 {
				die("%s: %s: several or named results", sp.file, sp.name)
			}
			t, ok := ovDeclRead[ovTypeText(fd.Type.Results.List[0].Type)]
			if !ok {
				die("%s: %s: result type %s", sp.file, sp.name, ovTypeText(fd.Type.Results.List[0].Type))
			}
			fn.res = t
		}
		if fd.Body == nil {
			die("%s: %s has no body", sp.file, sp.name)
		}
		funcs[sp.name] = fn
		order = append(order, fn)
	}

	// call graph from the source (calls of translated functions by name / by method name), to decide fuel
	// before the bodies are translated
	for _, fn := range order {
		ast.Inspect(fn.decl.Body, func(n ast.Node) bool {
			call, ok := n.(*ast.CallExpr)
			if !ok {
				return true
			}
			switch f := call.Fun.(type) {
			case *ast.Ident:
				if g, ok := funcs[f.Name]; ok && g.spec.recv == "" {
					fn.calls[f.Name] = true
				}
			case *ast.SelectorExpr:
				if g, ok := funcs[f.Sel.Name]; ok && g.spec.recv != "" {
					fn.calls[f.Sel.Name] = true
				}
			}
			return true
		})
	}
	reach := func(from *ovFunc) map[string]bool {
		seen := map[string]bool{}
		var walk func(f *ovFunc)
		walk = func(f *ovFunc) {
			var ns []string
			for n := range f.calls {
				ns = append(ns, n)
			}
			sort.Strings(ns)
			for _, n := range ns {
				if !seen[n] {
					seen[n] = true
					walk(funcs[n])
				}
			}
		}
		walk(from)
		return seen
	}
	reaches := map[string]map[string]bool{}
	for _, fn := range order {
		reaches[fn.spec.name] = reach(fn)
	}
	for _, fn := range order {
		fn.recursive = reaches[fn.spec.name][fn.spec.name]
	}
	for _, fn := range order {
		fn.fuelled = fn.recursive
		for n := range reaches[fn.spec.name] {
			if funcs[n].recursive {
				fn.fuelled = true
			}
		}
	}

	// translate the bodies
	for _, fn := range order {
		staticCalls := fn.calls
		fn.calls = map[string]bool{}
		c := &ovCtx{f: fn, funcs: funcs, pkgErrs: pkgErrs}
		c.scopes = []map[string]*ovVar{{}}
		c.nextBlk, c.blockID = 1, 1
		o := &ovOut{}
		ind := 1
		if fn.recursive {
			ind = 2
		}
		for _, p := range fn.params {
			c.scopes[0][p.goName] = &ovVar{lean: p.lean, ty: p.ty, block: 0} // parameters are never assigned
			if p.ptr != "" {
				o.add(ind, fmt.Sprintf("let %s : Ptr %s _ := %s", p.lean, fn.spec.state, p.ptr))
			}
		}
		nPtrLines := len(o.lines)
		c.block(fn.decl.Body.List, o, ind)
		if len(o.lines) == nPtrLines+1 && strings.TrimSpace(o.lines[nPtrLines]) == "pure ()" && len(fn.decl.Body.List) > 0 {
			die("%s: %s: empty translation of a non-empty body", fn.spec.file, fn.spec.name)
		}
		fn.body = strings.Join(o.lines, "\n")
		for n := range fn.calls {
			if !staticCalls[n] {
				die("%s: %s: call of %s was not seen by the call graph", fn.spec.file, fn.spec.name, n)
			}
		}
		fn.calls = staticCalls
	}

	// emit: callees first, mutually recursive functions in one `mutual` block
	var sb strings.Builder
	sb.WriteString("/- GENERATED by /verif/extract (otlpvalflow.go) from go/pdata/internal/otlptools/compare.go (Map2attrs, CmpBool,\n")
	sb.WriteString("   CmpInt64, CmpAttrs, CmpVal, CmpResourceSpans, CmpScopeSpans), otlpval2tef.go (otlpValueToTefAnyValue, MapUnsorted,\n")
	sb.WriteString("   MapSorted) and tef2otlpval.go (tefAnyValueToOtlp, TefToOtlpMap). Do not edit. Vocabulary: Stef/OtlpValFlowSem.lean. -/\n")
	sb.WriteString("import Stef.OtlpValFlowSem\n\nnamespace Stef.Gen.OtlpValFlow\nopen Stef.Otlp Stef.OtlpValFlowSem\n\n")
	emitted := map[string]bool{}
	sig := func(fn *ovFunc) string {
		var d strings.Builder
		fd := fn.decl
		recv := ""
		if fd.Recv != nil {
			recv = "(" + fd.Recv.List[0].Names[0].Name + " " + ovTypeText(fd.Recv.List[0].Type) + ") "
		}
		fmt.Fprintf(&d, "/-- %s `func %s%s` -/\n", fn.spec.file, recv, fn.spec.name)
		res := ovLeanTy[fn.res]
		mty := fmt.Sprintf("M %s %s %s", ovTyArg(fn.spec.state), ovTyArg(res), ovTyArg(res))
		var vals []ovParam
		for _, p := range fn.params {
			if p.ptr == "" {
				vals = append(vals, p)
			}
		}
		if fn.recursive {
			fmt.Fprintf(&d, "def %s : Nat", fn.spec.lean)
			for _, p := range vals {
				fmt.Fprintf(&d, " → %s", ovLeanTy[p.ty])
			}
			fmt.Fprintf(&d, " → %s\n", mty)
			fmt.Fprintf(&d, "  | 0%s => outOfFuel\n", strings.Repeat(", _", len(vals)))
			fmt.Fprintf(&d, "  | fuel + 1")
			for _, p := range vals {
				fmt.Fprintf(&d, ", %s", p.lean)
			}
			d.WriteString(" => do\n")
		} else {
			fmt.Fprintf(&d, "def %s", fn.spec.lean)
			if fn.fuelled {
				d.WriteString(" (fuel : Nat)")
			}
			for _, p := range vals {
				fmt.Fprintf(&d, " (%s : %s)", p.lean, ovLeanTy[p.ty])
			}
			fmt.Fprintf(&d, " : %s := do\n", mty)
		}
		return d.String()
	}
	for len(emitted) < len(order) {
		progress := false
		for _, fn := range order {
			if emitted[fn.spec.name] {
				continue
			}
			// the SCC of fn
			scc := []*ovFunc{fn}
			if fn.recursive {
				scc = nil
				for _, g := range order {
					if g == fn || (reaches[fn.spec.name][g.spec.name] && reaches[g.spec.name][fn.spec.name]) {
						scc = append(scc, g)
					}
				}
			}
			in := map[string]bool{}
			for _, g := range scc {
				in[g.spec.name] = true
			}
			ready := true
			for _, g := range scc {
				for n := range g.calls {
					if !in[n] && !emitted[n] {
						ready = false
					}
				}
			}
			if !ready {
				continue
			}
			if len(scc) > 1 {
				sb.WriteString("mutual\n")
			}
			for _, g := range scc {
				sb.WriteString(sig(g))
				sb.WriteString(g.body)
				sb.WriteString("\n\n")
				emitted[g.spec.name] = true
			}
			if len(scc) > 1 {
				sb.WriteString("end\n\n")
			}
			progress = true
		}
		if !progress {
			die("call graph: no order of definition found")
		}
	}
	// facts
	var names []string
	for _, fn := range order {
		names = append(names, strconv.Quote(fn.spec.name))
	}
	fmt.Fprintf(&sb, "/-- the Go functions translated above -/\ndef translated : List String := [%s]\n\n", strings.Join(names, ", "))
	sb.WriteString("end Stef.Gen.OtlpValFlow\n")
	writeOut("OtlpValFlow.lean", sb.String())
}

func ovTyArg(s string) string {
	if strings.Contains(s, " ") {
		return "(" + s + ")"
	}
	return s
}

func ovCheckStruct(f *ast.File, name string, want []string) {
	for _, d := range f.Decls {
		gd, ok := d.(*ast.GenDecl)
		if !ok || gd.Tok != token.TYPE {
			continue
		}
		for _, s := range gd.Specs {
			ts := s.(*ast.TypeSpec)
			if ts.Name.Name != name {
				continue
			}
			st, ok := ts.Type.(*ast.StructType)
			if !ok {
				die("type %s is not a struct", name)
			}
			var got []string
			for _, fl := range st.Fields.List {
				if len(fl.Names) == 0 {
					got = append(got, ovTypeText(fl.Type))
				}
				for _, n := range fl.Names {
					got = append(got, n.Name+" "+ovTypeText(fl.Type))
				}
			}
			if strings.Join(got, "; ") != strings.Join(want, "; ") {
				die("type %s has the fields {%s}, the vocabulary mirrors {%s}", name, strings.Join(got, "; "), strings.Join(want, "; "))
			}
			return
		}
	}
	die("type %s not found", name)
}
