package main

// genParseFlow regenerates lean/Stef/Gen/ParseFlow.lean: the IDL parser of go/pkg/idl/parser.go (every method
// of *Parser except the getters Schema and Messages), NewStruct / HasField / AddField of go/pkg/schema/schema.go
// that it calls, translated statement by statement from the Go AST (go/parser + go/ast only) into `do` blocks of
// the monad `M` of lean/Stef/ParseFlowSem.lean. Go's `return`, `break`, `if`, assignments to locals are Lean's own
// (`return`, `break`, `if`, `let mut`); `for` is `for _ in (← rounds) do`; `switch e {..}` is an if-chain on the tag,
// evaluated once; pointers are heap pointers (see ParseFlowSem). The order of the statements, the conditions, what
// is assigned to what, every `return` and `break` come from the source.
//
// Translated subset (everything else makes this generator fail with a message that names the construct):
//
//   stmt ::= x := e | x, y := call | _, ok := m[k] | var x T | x = e | _, x = call | x += e (messages)
//          | lvalue = e        lvalue ::= ptr.f | ptr.f.g | ft.f (ft a FieldType local) | *ptr | m[k] | p.f | p.schema.f
//          | call              (a translated method, p.lexer.Next(), str.AddField(f))
//          | if [init;] cond {..} [else ..] | for [cond] {..} | for i := range slice {..} | break (not inside a switch)
//          | switch e { case c[, c]: .. default: .. }   (no fallthrough, default last)
//          | return [e, ..]
//   e    ::= local | parameter | constant (token, MessageType, schema.PrimitiveType*) | "lit" | 123 | nil | true | false
//          | ptr.f | p.fileName | p.schema.F | m[k] | slice[i] | &ptr.f | &slice[i] | &T{f: e, ..} | T{..} | []string{}
//          | map[..]..{} | !e | e && e | e || e | e == e | e != e | e + e (messages) | e - e (int) | len(e) | append(s, e)
//          | p.m(..) | p.lexer.Token() / Ident() / Uint64Number() / ErrMsg() / TokenStartPos() | err.Error()
//          | schema.NewStruct() | str.HasField(e) | p.schema.ResolveRefs() | p.schema.PruneUnused()
//          | createUnusedWarnings(e) | fmt.Sprintf("..", tokens..)
//
// Every Go local gets a Lean name of its own (x, x_1, ..), so Go's scoping is kept. The right operand of && / ||
// may only contain reads that cannot fail once the left operand was evaluated (Lean evaluates them eagerly).
// No goto/continue/labels/defer/go/closures/select/type switches/recursion.

import (
	"fmt"
	"go/ast"
	"go/parser"
	"go/token"
	"path/filepath"
	"sort"
	"strconv"
	"strings"
)

func init() { register("ParseFlow", genParseFlow) }

const (
	pqParserFile = "go/pkg/idl/parser.go"
	pqSchemaFile = "go/pkg/schema/schema.go"
	pqLexerFile  = "go/pkg/idl/lexer.go"
)

type pqKind int

const (
	pqNone pqKind = iota
	pqBool
	pqName // string that is an identifier -> Name
	pqMsg  // string that is (part of) an error message -> Msg
	pqTok
	pqU64
	pqInt
	pqErr
	pqPStruct // *schema.Struct -> Ptr
	pqPField  // *schema.StructField
	pqPMM     // *schema.Multimap
	pqPEnum   // *schema.Enum
	pqRFT     // *schema.FieldType -> Option FTRef
	pqRMF     // *schema.MultimapField -> Option MFRef
	pqREF     // *schema.EnumField -> Option EFRef
	pqFT      // schema.FieldType (value)
	pqMF      // schema.MultimapField (value; only its address is used)
	pqEFVal   // schema.EnumField (value)
	pqPrimPtr // *schema.PrimitiveType -> Option GPrimitiveType
	pqArrPtr  // *schema.ArrayType -> Option GFieldType
	pqPrimCode
	pqMsgType
	pqNames      // []string
	pqEnumFields // []schema.EnumField
	pqPtrList    // []*schema.StructField
	pqMapStruct  // map[string]*schema.Struct
	pqMapField
	pqMapMM
	pqMapEnum
	pqSchemaPtr // p.schema
	pqUnused
	pqMsgs
	pqPos
	pqStrLit
	pqIntLit
	pqNil
)

var pqKindName = map[pqKind]string{pqNone: "no value", pqBool: "bool", pqName: "string", pqMsg: "message string", pqTok: "Token", pqU64: "uint64",
	pqInt: "int", pqErr: "error", pqPStruct: "*schema.Struct", pqPField: "*schema.StructField", pqPMM: "*schema.Multimap", pqPEnum: "*schema.Enum",
	pqRFT: "*schema.FieldType", pqRMF: "*schema.MultimapField", pqREF: "*schema.EnumField", pqFT: "schema.FieldType", pqMF: "schema.MultimapField",
	pqEFVal: "schema.EnumField", pqPrimPtr: "*schema.PrimitiveType", pqArrPtr: "*schema.ArrayType", pqPrimCode: "PrimitiveFieldType",
	pqMsgType: "MessageType", pqNames: "[]string", pqEnumFields: "[]schema.EnumField", pqPtrList: "[]*schema.StructField",
	pqMapStruct: "map[string]*schema.Struct", pqMapField: "map[string]*schema.StructField", pqMapMM: "map[string]*schema.Multimap",
	pqMapEnum: "map[string]*schema.Enum", pqSchemaPtr: "*schema.Schema", pqUnused: "schema.UnusedTypes", pqMsgs: "[]Message", pqPos: "Pos",
	pqStrLit: "string literal", pqIntLit: "integer literal", pqNil: "nil"}

var pqLeanType = map[pqKind]string{pqNone: "Unit", pqBool: "Bool", pqName: "Name", pqMsg: "Msg", pqTok: "Nat", pqU64: "Nat", pqInt: "Int", pqErr: "Err",
	pqPStruct: "Ptr", pqPField: "Ptr", pqPMM: "Ptr", pqPEnum: "Ptr", pqRFT: "(Option FTRef)", pqRMF: "(Option MFRef)", pqREF: "(Option EFRef)",
	pqFT: "GFieldType", pqEFVal: "GEnumField", pqPrimPtr: "(Option GPrimitiveType)", pqArrPtr: "(Option GFieldType)", pqPrimCode: "Nat", pqMsgType: "Nat",
	pqNames: "(List Name)", pqEnumFields: "(List GEnumField)", pqPtrList: "(List Ptr)", pqMapStruct: "GoMap", pqMapField: "GoMap", pqMapMM: "GoMap",
	pqMapEnum: "GoMap", pqUnused: "Unused", pqMsgs: "Messages", pqPos: "Pos", pqSchemaPtr: "(Option GSchema)"}

// Go type text -> kind, for parameters, results and `var x T`
var pqTypeKind = map[string]pqKind{"bool": pqBool, "string": pqName, "Token": pqTok, "uint64": pqU64, "int": pqInt, "error": pqErr,
	"*schema.Struct": pqPStruct, "*Struct": pqPStruct, "*schema.StructField": pqPField, "*StructField": pqPField,
	"*schema.Multimap": pqPMM, "*schema.Enum": pqPEnum, "*schema.FieldType": pqRFT, "*schema.MultimapField": pqRMF}

type pqField struct {
	lean   string
	kind   pqKind
	goType string
}

// the Go struct declarations the vocabulary mirrors: type name -> Go field -> (Lean field, kind, Go type text)
var pqStructs = map[string]map[string]pqField{
	"Struct": {"Name": {"name", pqName, "string"}, "OneOf": {"oneOf", pqBool, "bool"}, "DictName": {"dictName", pqName, "string"},
		"IsRoot": {"isRoot", pqBool, "bool"}, "Fields": {"fields", pqPtrList, "[]*StructField"},
		"fieldMap": {"fieldMap", pqMapField, "map[string]*StructField"}, "recursive": {"recursive", pqBool, "bool"}},
	"StructField": {"FieldType": {"fieldType", pqFT, "FieldType"}, "Name": {"name", pqName, "string"}, "Optional": {"optional", pqBool, "bool"}},
	"FieldType": {"Primitive": {"primitive", pqPrimPtr, "*PrimitiveType"}, "Array": {"array", pqArrPtr, "*ArrayType"},
		"Struct": {"struct", pqName, "string"}, "MultiMap": {"multiMap", pqName, "string"}, "Enum": {"enum", pqName, "string"},
		"DictName": {"dictName", pqName, "string"}, "StructDef": {"", pqNone, "*Struct"}, "MultimapDef": {"", pqNone, "*Multimap"}},
	"PrimitiveType": {"Type": {"type", pqPrimCode, "PrimitiveFieldType"}},
	"ArrayType":     {"ElemType": {"", pqFT, "FieldType"}, "recursive": {"", pqBool, "bool"}},
	"MultimapField": {"Type": {"type", pqFT, "FieldType"}},
	"Multimap": {"Name": {"name", pqName, "string"}, "Key": {"key", pqMF, "MultimapField"}, "Value": {"value", pqMF, "MultimapField"},
		"recursive": {"recursive", pqBool, "bool"}},
	"Enum":      {"Name": {"name", pqName, "string"}, "Fields": {"fields", pqEnumFields, "[]EnumField"}},
	"EnumField": {"Name": {"name", pqName, "string"}, "Value": {"value", pqU64, "uint64"}},
	"Schema": {"PackageName": {"packageName", pqNames, "[]string"}, "Structs": {"structs", pqMapStruct, "map[string]*Struct"},
		"Multimaps": {"multimaps", pqMapMM, "map[string]*Multimap"}, "Enums": {"enums", pqMapEnum, "map[string]*Enum"}},
	"Parser": {"lexer": {"lexer", pqNone, "*Lexer"}, "schema": {"schema", pqSchemaPtr, "*schema.Schema"},
		"fileName": {"fileName", pqName, "string"}, "messages": {"messages", pqMsgs, "[]Message"}},
	"Message": {"Type": {"type", pqMsgType, "MessageType"}, "Msg": {"msg", pqMsg, "string"}, "Filename": {"filename", pqName, "string"},
		"Pos": {"pos", pqPos, "Pos"}},
	"Error": {"Message": {"", pqNone, "Message"}},
}

// the struct a pointer / value kind points to, and the vocabulary's accessor
var pqObjOf = map[pqKind]struct{ typ, get, mod string }{
	pqPStruct: {"Struct", "getStruct", "modStruct"}, pqPField: {"StructField", "getField", "modField"},
	pqPMM: {"Multimap", "getMultimap", "modMultimap"}, pqPEnum: {"Enum", "getEnum", "modEnum"},
	pqRFT: {"FieldType", "getFT", "modFT"}, pqRMF: {"MultimapField", "getMF", "modMF"}, pqREF: {"EnumField", "getEF", "modEF"},
	pqSchemaPtr: {"Schema", "getSchema", "modSchema"},
}

var pqLexerMethods = map[string]struct {
	lean string
	kind pqKind
}{"Next": {"next", pqNone}, "Token": {"curToken", pqTok}, "Ident": {"curIdent", pqName}, "Uint64Number": {"curUint64Number", pqU64},
	"ErrMsg": {"curErrMsg", pqMsg}, "TokenStartPos": {"tokenStartPos", pqPos}}

// string parameters that are messages, not identifiers
var pqMsgParams = map[string]bool{"error.msg": true}

// methods of *Parser that are not translated (getters)
var pqSkipMethods = map[string]bool{"Schema": true, "Messages": true}

var pqLeanNameOf = map[string]string{"error": "perror", "Parse": "parse"}

var pqReserved = map[string]bool{}

func init() {
	for _, n := range strings.Fields(`at end from fun have show then do let match with in by open def theorem where mut unless
		try catch finally pure some none true false nil Type Prop if else for return instance structure inductive
		namespace section variable import deriving abbrev example termination_by decreasing_by decide break continue
		M P Res Ptr GoMap Msg Err PErr Heap Name Pos Unused Messages Rounds rounds getP modP lexCall getStruct modStruct getField modField
		getMultimap modMultimap getEnum modEnum addrFieldType addrKey addrValue addrType getMF modMF getFT modFT len rangeInt indexL
		addrEnumField getEF modEF derefPrim mapSet getSchema modSchema errError schemaResolveRefs schemaPruneUnused createUnusedWarnings
		allocStruct allocField allocMultimap allocEnum panicM loopN o
		next curToken curIdent curUint64Number curErrMsg tokenStartPos keywords isDigit isNumberContinuation readNextRune skipComment
		skipWhiteSpaceOrComment readIdentOrKeyword readUint64Number newLexer readOnlyMethodsNotTranslated`) {
		pqReserved[n] = true
	}
}

type pqVal struct {
	lean string
	kind pqKind
	num  uint64
	str  string // pqStrLit: the Go string
}

type pqSig struct {
	goName  string
	lean    string
	recv    string // "" (function), "Parser", "Struct"
	params  []pqKind
	pnames  []string
	results []pqKind
	fd      *ast.FuncDecl
	file    string
}

type pqGen struct {
	fset      *token.FileSet
	tokConsts map[string]bool   // names of the token constants of lexer.go
	consts    map[string]pqKind // MessageType* (parser.go), PrimitiveType* (schema.go)
	constVal  map[string]uint64
	constOrd  []string
	sigs      map[string]*pqSig // key: "Parser.name", "Struct.name", "name" / "schema.name"
	out       map[string]string
	order     []string
	state     map[string]int
}

type pqLocal struct {
	lean string
	kind pqKind
}

// one function being translated
type pqFn struct {
	g           *pqGen
	sig         *pqSig
	recv        string // Go name of the receiver
	scopes      []map[string]pqLocal
	used        map[string]int // Go name -> number of declarations so far
	mutable     map[string]bool
	effects     []string
	tmp         int
	inSchemaPkg bool
}

func (g *pqGen) fail(n ast.Node, f string, a ...any) {
	pos := ""
	if n != nil {
		pos = g.fset.Position(n.Pos()).String() + ": "
	}
	die("%s%s", pos, fmt.Sprintf(f, a...))
}

func (g *pqGen) leanString(n ast.Node, s string) string {
	var sb strings.Builder
	sb.WriteByte('"')
	for _, r := range s {
		if r < 32 || r >= 127 {
			g.fail(n, "string literal %q has a character outside printable ASCII", s)
		}
		if r == '"' || r == '\\' {
			sb.WriteByte('\\')
		}
		sb.WriteRune(r)
	}
	sb.WriteByte('"')
	return sb.String()
}

// ---- declarations -------------------------------------------------------------------------------

func (g *pqGen) checkStruct(f *ast.File, file, name string) {
	want := pqStructs[name]
	for _, d := range f.Decls {
		gd, ok := d.(*ast.GenDecl)
		if !ok || gd.Tok != token.TYPE {
			continue
		}
		for _, s := range gd.Specs {
			ts := s.(*ast.TypeSpec)
			if ts.Name.Name != name {
				continue
			}
			st, ok := ts.Type.(*ast.StructType)
			if !ok {
				g.fail(ts, "type %s is not a struct", name)
			}
			seen := map[string]bool{}
			for _, fl := range st.Fields.List {
				names := []string{}
				for _, n := range fl.Names {
					names = append(names, n.Name)
				}
				if len(names) == 0 { // embedded
					names = []string{strings.TrimPrefix(lxTypeString(fl.Type), "*")}
				}
				for _, n := range names {
					w, ok := want[n]
					if !ok {
						g.fail(fl, "struct %s has a field %s that the vocabulary (ParseFlowSem) does not have", name, n)
					}
					if got := lxTypeString(fl.Type); got != w.goType {
						g.fail(fl, "struct %s: field %s has type %s, the vocabulary expects %s", name, n, got, w.goType)
					}
					seen[n] = true
				}
			}
			for n := range want {
				if !seen[n] {
					g.fail(ts, "struct %s no longer has the field %s", name, n)
				}
			}
			return
		}
	}
	g.fail(nil, "%s: type %s not found", file, name)
}

// an iota block whose first name is `first`: all names get kind k
func (g *pqGen) iotaBlock(f *ast.File, file, first string, k pqKind) {
	for _, d := range f.Decls {
		gd, ok := d.(*ast.GenDecl)
		if !ok || gd.Tok != token.CONST || len(gd.Specs) == 0 {
			continue
		}
		fs := gd.Specs[0].(*ast.ValueSpec)
		if len(fs.Names) != 1 || fs.Names[0].Name != first {
			continue
		}
		if len(fs.Values) != 1 || !lxIsIdent(fs.Values[0], "iota") {
			g.fail(fs, "constant block of %s must start with `= iota`", first)
		}
		for i, s := range gd.Specs {
			vs := s.(*ast.ValueSpec)
			if len(vs.Names) != 1 || (i > 0 && len(vs.Values) != 0) {
				g.fail(vs, "constant block of %s: plain iota continuation expected", first)
			}
			n := vs.Names[0].Name
			g.consts[n] = k
			g.constVal[n] = uint64(i)
			g.constOrd = append(g.constOrd, n)
		}
		return
	}
	g.fail(nil, "%s: constant block starting with %s not found", file, first)
}

func (g *pqGen) tokenConsts(f *ast.File) {
	for _, d := range f.Decls {
		gd, ok := d.(*ast.GenDecl)
		if !ok || gd.Tok != token.CONST || len(gd.Specs) == 0 {
			continue
		}
		fs := gd.Specs[0].(*ast.ValueSpec)
		if len(fs.Names) != 1 || fs.Names[0].Name != "tError" {
			continue
		}
		for _, s := range gd.Specs {
			for _, n := range s.(*ast.ValueSpec).Names {
				g.tokConsts[n.Name] = true
			}
		}
		return
	}
	g.fail(nil, "%s: the token constant block was not found", pqLexerFile)
}

func (g *pqGen) kindOfType(n ast.Node, e ast.Expr) pqKind {
	ts := lxTypeString(e)
	k, ok := pqTypeKind[ts]
	if !ok {
		g.fail(n, "type %s is not supported", ts)
	}
	return k
}

func (g *pqGen) collectFuncs(f *ast.File, file string, inSchema bool) {
	for _, d := range f.Decls {
		fd, ok := d.(*ast.FuncDecl)
		if !ok || fd.Body == nil {
			continue
		}
		recv := ""
		if fd.Recv != nil {
			recv = strings.TrimPrefix(lxTypeString(fd.Recv.List[0].Type), "*")
		}
		name := fd.Name.Name
		want := false
		switch {
		case !inSchema && recv == "Parser" && !pqSkipMethods[name]:
			want = true
		case inSchema && recv == "" && name == "NewStruct":
			want = true
		case inSchema && recv == "Struct" && (name == "HasField" || name == "AddField"):
			want = true
		}
		if !want {
			continue
		}
		if fd.Type.TypeParams != nil {
			g.fail(fd, "generic function %s", name)
		}
		if recv != "" && (!strings.HasPrefix(lxTypeString(fd.Recv.List[0].Type), "*") || len(fd.Recv.List[0].Names) != 1) {
			g.fail(fd, "method %s: a named pointer receiver expected", name)
		}
		sig := &pqSig{goName: name, recv: recv, fd: fd, file: file}
		sig.lean = strings.ToLower(name[:1]) + name[1:]
		if l, ok := pqLeanNameOf[name]; ok {
			sig.lean = l
		}
		for _, p := range fd.Type.Params.List {
			if len(p.Names) == 0 {
				g.fail(p, "%s: unnamed parameter", name)
			}
			for _, pn := range p.Names {
				k := g.kindOfType(p, p.Type)
				if pqMsgParams[name+"."+pn.Name] {
					k = pqMsg
				}
				sig.params = append(sig.params, k)
				sig.pnames = append(sig.pnames, pn.Name)
			}
		}
		if fd.Type.Results != nil {
			for _, r := range fd.Type.Results.List {
				if len(r.Names) != 0 {
					g.fail(r, "%s: named results are not supported", name)
				}
				sig.results = append(sig.results, g.kindOfType(r, r.Type))
			}
		}
		key := name
		if recv != "" {
			key = recv + "." + name
		}
		if inSchema && recv == "" {
			key = "schema." + name
		}
		if _, dup := g.sigs[key]; dup {
			g.fail(fd, "%s declared twice", key)
		}
		g.sigs[key] = sig
	}
}

// ---- scopes -------------------------------------------------------------------------------------

func (t *pqFn) push() { t.scopes = append(t.scopes, map[string]pqLocal{}) }
func (t *pqFn) pop()  { t.scopes = t.scopes[:len(t.scopes)-1] }

func (t *pqFn) lookup(name string) (pqLocal, bool) {
	for i := len(t.scopes) - 1; i >= 0; i-- {
		if l, ok := t.scopes[i][name]; ok {
			return l, true
		}
	}
	return pqLocal{}, false
}

func (t *pqFn) declare(n ast.Node, name string, k pqKind) string {
	if name == "_" {
		return "_"
	}
	for _, r := range name {
		if !(r == '_' || r >= '0' && r <= '9' || r >= 'a' && r <= 'z' || r >= 'A' && r <= 'Z') {
			t.g.fail(n, "local name %s", name)
		}
	}
	if pqReserved[name] || strings.HasPrefix(name, "c_") || strings.HasSuffix(name, "__") || name == t.recv {
		t.g.fail(n, "local name %s collides with a name of the generated text", name)
	}
	if _, isSig := t.g.leanNames()[name]; isSig {
		t.g.fail(n, "local name %s collides with a translated function", name)
	}
	if _, c := t.g.consts[name]; c || t.g.tokConsts[name] {
		t.g.fail(n, "local %s shadows a constant", name)
	}
	lean := name
	if c := t.used[name]; c > 0 {
		lean = fmt.Sprintf("%s_%d", name, c)
	}
	t.used[name]++
	t.scopes[len(t.scopes)-1][name] = pqLocal{lean, k}
	return lean
}

func (g *pqGen) leanNames() map[string]bool {
	m := map[string]bool{}
	for _, s := range g.sigs {
		m[s.lean] = true
	}
	return m
}

func (t *pqFn) isMut(goName string) bool {
	if t.mutable[goName] {
		return true
	}
	if l, ok := t.lookup(goName); ok && l.kind == pqFT && t.mutable["."+goName] {
		return true
	}
	return false
}

func (t *pqFn) letKw(goName string) string {
	if t.isMut(goName) {
		return "let mut "
	}
	return "let "
}

func (t *pqFn) eff(s string) string {
	t.effects = append(t.effects, s)
	return s
}

// ---- expressions --------------------------------------------------------------------------------

func pqIsPtrLike(k pqKind) bool {
	switch k {
	case pqErr, pqPStruct, pqPField, pqPMM, pqPEnum, pqRFT, pqRMF, pqREF, pqPrimPtr, pqArrPtr, pqSchemaPtr:
		return true
	}
	return false
}

func pqIsMap(k pqKind) bool {
	return k == pqMapStruct || k == pqMapField || k == pqMapMM || k == pqMapEnum
}

var pqMapElem = map[pqKind]pqKind{pqMapStruct: pqPStruct, pqMapField: pqPField, pqMapMM: pqPMM, pqMapEnum: pqPEnum}

func (t *pqFn) as(n ast.Node, v pqVal, want pqKind) string {
	if v.kind == want {
		return v.lean
	}
	switch v.kind {
	case pqStrLit:
		switch want {
		case pqMsg:
			return "(Msg.lit " + t.g.leanString(n, v.str) + ")"
		case pqName:
			for _, r := range v.str {
				if r < 32 || r >= 127 {
					t.g.fail(n, "string literal %q is not printable ASCII", v.str)
				}
			}
			return "(" + lxCharList(v.str) + " : Name)"
		}
	case pqName:
		if want == pqMsg {
			return "(Msg.str " + v.lean + ")"
		}
	case pqIntLit:
		switch want {
		case pqInt:
			return fmt.Sprintf("(%d : Int)", v.num)
		case pqU64, pqTok:
			return fmt.Sprintf("%d", v.num)
		}
	case pqNil:
		if pqIsPtrLike(want) || pqIsMap(want) {
			return "none"
		}
	}
	t.g.fail(n, "a value of kind %s is used where %s is expected", pqKindName[v.kind], pqKindName[want])
	return ""
}

func pqAdaptable(k pqKind) bool { return k == pqStrLit || k == pqIntLit || k == pqNil }

// the field `sel` of a value of kind k whose Lean text is `obj` (already a value, e.g. "(← getStruct str)")
func (t *pqFn) fieldOf(n ast.Node, typ, sel string) pqField {
	fs, ok := pqStructs[typ]
	if !ok {
		t.g.fail(n, "internal: unknown struct %s", typ)
	}
	f, ok := fs[sel]
	if !ok || f.lean == "" {
		t.g.fail(n, "field %s of %s is not supported", sel, typ)
	}
	return f
}

// read the object a pointer-kind value points to
func (t *pqFn) deref(n ast.Node, v pqVal) (obj string, typ string) {
	switch v.kind {
	case pqSchemaPtr:
		return t.eff("(← getSchema)"), "Schema"
	case pqPrimPtr:
		return t.eff("(← derefPrim " + v.lean + ")"), "PrimitiveType"
	case pqFT:
		return v.lean, "FieldType"
	case pqEFVal:
		return v.lean, "EnumField"
	}
	o, ok := pqObjOf[v.kind]
	if !ok {
		t.g.fail(n, "a field of a value of kind %s is selected", pqKindName[v.kind])
	}
	return t.eff("(← " + o.get + " " + v.lean + ")"), o.typ
}

func (t *pqFn) isRecv(e ast.Expr) bool {
	return t.recv != "" && t.sig.recv == "Parser" && lxIsIdent(e, t.recv)
}

func (t *pqFn) expr(e ast.Expr) pqVal {
	g := t.g
	switch v := e.(type) {
	case *ast.ParenExpr:
		return t.expr(v.X)
	case *ast.BasicLit:
		switch v.Kind {
		case token.INT:
			n, err := strconv.ParseUint(v.Value, 0, 64)
			if err != nil {
				g.fail(v, "bad integer literal %s", v.Value)
			}
			return pqVal{kind: pqIntLit, num: n}
		case token.STRING:
			s, err := strconv.Unquote(v.Value)
			if err != nil {
				g.fail(v, "bad string literal")
			}
			return pqVal{kind: pqStrLit, str: s}
		}
		g.fail(v, "literal %s is not supported", v.Value)
	case *ast.Ident:
		switch v.Name {
		case "nil":
			return pqVal{kind: pqNil}
		case "true", "false":
			return pqVal{lean: v.Name, kind: pqBool}
		}
		if l, ok := t.lookup(v.Name); ok {
			return pqVal{lean: l.lean, kind: l.kind}
		}
		if g.tokConsts[v.Name] && !t.inSchemaPkg {
			return pqVal{lean: "c_" + v.Name, kind: pqTok}
		}
		if k, ok := g.consts[v.Name]; ok && k == pqMsgType && !t.inSchemaPkg {
			return pqVal{lean: "c_" + v.Name, kind: k}
		}
		if v.Name == t.recv {
			g.fail(v, "the receiver %s is used as a value", v.Name)
		}
		g.fail(v, "unknown identifier %s", v.Name)
	case *ast.SelectorExpr:
		return t.selector(v)
	case *ast.UnaryExpr:
		switch v.Op {
		case token.NOT:
			x := t.expr(v.X)
			return pqVal{lean: "(!" + t.as(v.X, x, pqBool) + ")", kind: pqBool}
		case token.AND:
			return t.addrOf(v)
		}
		g.fail(v, "unary operator %s is not supported", v.Op)
	case *ast.BinaryExpr:
		return t.binary(v)
	case *ast.CallExpr:
		vals := t.call(v)
		if len(vals) != 1 {
			g.fail(v, "a call with %d results is used as a value", len(vals))
		}
		return vals[0]
	case *ast.CompositeLit:
		return t.composite(v, false)
	case *ast.IndexExpr:
		x := t.expr(v.X)
		switch {
		case pqIsMap(x.kind):
			k := t.expr(v.Index)
			return pqVal{lean: "(GoMap.get " + x.lean + " " + t.as(v.Index, k, pqName) + ")", kind: pqMapElem[x.kind]}
		case x.kind == pqEnumFields:
			i := t.expr(v.Index)
			return pqVal{lean: t.eff("(← indexL " + x.lean + " " + t.as(v.Index, i, pqInt) + ")"), kind: pqEFVal}
		}
		g.fail(v, "index expression on a value of kind %s", pqKindName[x.kind])
	case *ast.StarExpr:
		x := t.expr(v.X)
		if x.kind == pqRFT {
			return pqVal{lean: t.eff("(← getFT " + x.lean + ")"), kind: pqFT}
		}
		g.fail(v, "dereference of a %s", pqKindName[x.kind])
	}
	g.fail(e, "expression of type %T is not supported", e)
	return pqVal{}
}

func (t *pqFn) selector(v *ast.SelectorExpr) pqVal {
	g := t.g
	// schema.PrimitiveTypeX
	if lxIsIdent(v.X, "schema") && !t.inSchemaPkg {
		if _, shadow := t.lookup("schema"); shadow {
			g.fail(v, "schema is shadowed")
		}
		if k, ok := g.consts[v.Sel.Name]; ok && k == pqPrimCode {
			return pqVal{lean: "c_" + v.Sel.Name, kind: k}
		}
		g.fail(v, "schema.%s is not supported", v.Sel.Name)
	}
	if t.isRecv(v.X) {
		f := t.fieldOf(v, "Parser", v.Sel.Name)
		switch v.Sel.Name {
		case "lexer":
			g.fail(v, "p.lexer is used as a value (only calls of its methods are supported)")
		case "schema":
			return pqVal{lean: "(← getP).schema", kind: pqSchemaPtr}
		}
		return pqVal{lean: t.eff("(← getP)") + "." + f.lean, kind: f.kind}
	}
	x := t.expr(v.X)
	obj, typ := t.deref(v, x)
	f := t.fieldOf(v, typ, v.Sel.Name)
	return pqVal{lean: obj + "." + f.lean, kind: f.kind}
}

func (t *pqFn) addrOf(v *ast.UnaryExpr) pqVal {
	g := t.g
	switch x := v.X.(type) {
	case *ast.CompositeLit:
		return t.composite(x, true)
	case *ast.SelectorExpr:
		b := t.expr(x.X)
		switch {
		case b.kind == pqPField && x.Sel.Name == "FieldType":
			return pqVal{lean: t.eff("(← addrFieldType " + b.lean + ")"), kind: pqRFT}
		case b.kind == pqPMM && x.Sel.Name == "Key":
			return pqVal{lean: t.eff("(← addrKey " + b.lean + ")"), kind: pqRMF}
		case b.kind == pqPMM && x.Sel.Name == "Value":
			return pqVal{lean: t.eff("(← addrValue " + b.lean + ")"), kind: pqRMF}
		case b.kind == pqRMF && x.Sel.Name == "Type":
			return pqVal{lean: t.eff("(← addrType " + b.lean + ")"), kind: pqRFT}
		}
		g.fail(v, "&(%s).%s is not supported", pqKindName[b.kind], x.Sel.Name)
	case *ast.IndexExpr:
		if sel, ok := x.X.(*ast.SelectorExpr); ok && sel.Sel.Name == "Fields" {
			b := t.expr(sel.X)
			if b.kind == pqPEnum {
				i := t.expr(x.Index)
				return pqVal{lean: t.eff("(← addrEnumField " + b.lean + " " + t.as(x.Index, i, pqInt) + ")"), kind: pqREF}
			}
		}
		g.fail(v, "&x[i] is supported for enum.Fields only")
	}
	g.fail(v, "address of an expression of type %T is not supported", v.X)
	return pqVal{}
}

// T{..} / &T{..}
func (t *pqFn) composite(cl *ast.CompositeLit, addr bool) pqVal {
	g := t.g
	ts := strings.TrimPrefix(lxTypeString(cl.Type), "schema.")
	fields := func(typ string, allowed func(goField string) bool) string {
		var items []string
		seen := map[string]bool{}
		for _, el := range cl.Elts {
			kv, ok := el.(*ast.KeyValueExpr)
			if !ok {
				g.fail(el, "%s literal: keyed fields expected", typ)
			}
			k, ok := kv.Key.(*ast.Ident)
			if !ok || seen[k.Name] {
				g.fail(kv.Key, "%s literal: field name expected", typ)
			}
			seen[k.Name] = true
			if allowed != nil && !allowed(k.Name) {
				g.fail(k, "%s literal: field %s is not supported here", typ, k.Name)
			}
			f := t.fieldOf(k, typ, k.Name)
			items = append(items, f.lean+" := "+t.as(kv.Value, t.expr(kv.Value), f.kind))
		}
		return "{ " + strings.Join(items, ", ") + " }"
	}
	switch ts {
	case "[]string":
		if addr || len(cl.Elts) != 0 {
			g.fail(cl, "[]string literal: only the empty one is supported")
		}
		return pqVal{lean: "([] : List Name)", kind: pqNames}
	case "map[string]*Struct", "map[string]*schema.Struct":
		return t.emptyMap(cl, addr, pqMapStruct)
	case "map[string]*StructField", "map[string]*schema.StructField":
		return t.emptyMap(cl, addr, pqMapField)
	case "map[string]*Multimap", "map[string]*schema.Multimap":
		return t.emptyMap(cl, addr, pqMapMM)
	case "map[string]*Enum", "map[string]*schema.Enum":
		return t.emptyMap(cl, addr, pqMapEnum)
	case "FieldType":
		if addr {
			g.fail(cl, "&FieldType{..} is not supported")
		}
		return pqVal{lean: "(" + fields("FieldType", nil) + " : GFieldType)", kind: pqFT}
	case "EnumField":
		if addr {
			g.fail(cl, "&EnumField{..} is not supported")
		}
		return pqVal{lean: "(" + fields("EnumField", nil) + " : GEnumField)", kind: pqEFVal}
	}
	if !addr {
		g.fail(cl, "composite literal of type %s (without &) is not supported", ts)
	}
	switch ts {
	case "Struct":
		return pqVal{lean: t.eff("(← allocStruct " + fields("Struct", nil) + ")"), kind: pqPStruct}
	case "StructField":
		return pqVal{lean: t.eff("(← allocField " + fields("StructField", func(f string) bool { return f != "FieldType" }) + ")"), kind: pqPField}
	case "Multimap":
		return pqVal{lean: t.eff("(← allocMultimap " + fields("Multimap", func(f string) bool { return f == "Name" }) + ")"), kind: pqPMM}
	case "Enum":
		return pqVal{lean: t.eff("(← allocEnum " + fields("Enum", func(f string) bool { return f == "Name" }) + ")"), kind: pqPEnum}
	case "Schema":
		return pqVal{lean: "(some (" + fields("Schema", nil) + " : GSchema))", kind: pqSchemaPtr}
	case "PrimitiveType":
		return pqVal{lean: "(some (" + fields("PrimitiveType", nil) + " : GPrimitiveType))", kind: pqPrimPtr}
	case "ArrayType":
		if len(cl.Elts) != 1 {
			g.fail(cl, "ArrayType literal: exactly `ElemType: e` expected")
		}
		kv, ok := cl.Elts[0].(*ast.KeyValueExpr)
		if !ok || !lxIsIdent(kv.Key, "ElemType") {
			g.fail(cl, "ArrayType literal: exactly `ElemType: e` expected")
		}
		return pqVal{lean: "(some " + t.as(kv.Value, t.expr(kv.Value), pqFT) + ")", kind: pqArrPtr}
	case "Error":
		if len(cl.Elts) != 1 {
			g.fail(cl, "Error literal: exactly `Message: Message{..}` expected")
		}
		kv, ok := cl.Elts[0].(*ast.KeyValueExpr)
		if !ok || !lxIsIdent(kv.Key, "Message") {
			g.fail(cl, "Error literal: exactly `Message: Message{..}` expected")
		}
		inner, ok := kv.Value.(*ast.CompositeLit)
		if !ok || lxTypeString(inner.Type) != "Message" {
			g.fail(cl, "Error literal: exactly `Message: Message{..}` expected")
		}
		save := cl
		cl = inner
		s := fields("Message", nil)
		cl = save
		return pqVal{lean: "(some (PErr.error " + s + "))", kind: pqErr}
	}
	g.fail(cl, "composite literal of type %s is not supported", ts)
	return pqVal{}
}

func (t *pqFn) emptyMap(cl *ast.CompositeLit, addr bool, k pqKind) pqVal {
	if addr || len(cl.Elts) != 0 {
		t.g.fail(cl, "map literal: only the empty one is supported")
	}
	return pqVal{lean: "GoMap.empty", kind: k}
}

func pqSubset(a, b []string) bool {
	set := map[string]bool{}
	for _, s := range b {
		set[s] = true
	}
	for _, s := range a {
		if !set[s] && !strings.HasPrefix(s, "(← lexCall cur") && s != "(← lexCall tokenStartPos)" {
			return false
		}
	}
	return true
}

func (t *pqFn) binary(v *ast.BinaryExpr) pqVal {
	g := t.g
	switch v.Op {
	case token.LAND, token.LOR:
		e0 := len(t.effects)
		l := t.expr(v.X)
		e1 := len(t.effects)
		r := t.expr(v.Y)
		if !pqSubset(t.effects[e1:], t.effects[e0:e1]) {
			g.fail(v.Y, "the right operand of %s reads something that could fail although the left operand was evaluated (Lean evaluates it eagerly)", v.Op)
		}
		op := "&&"
		if v.Op == token.LOR {
			op = "||"
		}
		return pqVal{lean: "(" + t.as(v.X, l, pqBool) + " " + op + " " + t.as(v.Y, r, pqBool) + ")", kind: pqBool}
	case token.EQL, token.NEQ:
		l, r := t.expr(v.X), t.expr(v.Y)
		if r.kind == pqNil || l.kind == pqNil {
			o := l
			if l.kind == pqNil {
				o = r
			}
			if !pqIsPtrLike(o.kind) {
				g.fail(v, "comparison of a %s with nil", pqKindName[o.kind])
			}
			if v.Op == token.EQL {
				return pqVal{lean: o.lean + ".isNone", kind: pqBool}
			}
			return pqVal{lean: o.lean + ".isSome", kind: pqBool}
		}
		k := l.kind
		if pqAdaptable(k) {
			k = r.kind
		}
		if pqAdaptable(k) {
			g.fail(v, "comparison of two constants")
		}
		switch k {
		case pqTok, pqName, pqInt, pqU64, pqBool, pqPrimCode, pqMsgType:
		default:
			g.fail(v, "== / != on values of kind %s", pqKindName[k])
		}
		op := "=="
		if v.Op == token.NEQ {
			op = "!="
		}
		return pqVal{lean: "(" + t.as(v.X, l, k) + " " + op + " " + t.as(v.Y, r, k) + ")", kind: pqBool}
	case token.ADD:
		l, r := t.expr(v.X), t.expr(v.Y)
		return pqVal{lean: "(Msg.cat " + t.as(v.X, l, pqMsg) + " " + t.as(v.Y, r, pqMsg) + ")", kind: pqMsg}
	case token.SUB:
		l, r := t.expr(v.X), t.expr(v.Y)
		return pqVal{lean: "(" + t.as(v.X, l, pqInt) + " - " + t.as(v.Y, r, pqInt) + ")", kind: pqInt}
	}
	g.fail(v, "binary operator %s is not supported", v.Op)
	return pqVal{}
}

// call translates a call; the result has one pqVal per Go result (none for a call without result, whose
// Lean action is then in vals[0].lean with kind pqNone).
func (t *pqFn) call(v *ast.CallExpr) []pqVal {
	g := t.g
	if v.Ellipsis.IsValid() {
		g.fail(v, "call with ... is not supported")
	}
	userCall := func(sig *pqSig, recvArg string, args []ast.Expr) []pqVal {
		if len(args) != len(sig.params) {
			g.fail(v, "%s: %d argument(s) expected", sig.goName, len(sig.params))
		}
		g.need(sig)
		s := sig.lean
		if recvArg != "" {
			s += " " + recvArg
		}
		for i, a := range args {
			s += " " + t.as(a, t.expr(a), sig.params[i])
		}
		return t.results(s, sig.results)
	}
	switch f := v.Fun.(type) {
	case *ast.SelectorExpr:
		// p.m(..)
		if t.isRecv(f.X) {
			sig, ok := g.sigs["Parser."+f.Sel.Name]
			if !ok {
				g.fail(v, "call of the method %s of Parser, which is not translated", f.Sel.Name)
			}
			return userCall(sig, "", v.Args)
		}
		if inner, ok := f.X.(*ast.SelectorExpr); ok && t.isRecv(inner.X) {
			switch inner.Sel.Name {
			case "lexer":
				m, ok := pqLexerMethods[f.Sel.Name]
				if !ok {
					g.fail(v, "call of the lexer method %s, which the vocabulary does not have", f.Sel.Name)
				}
				if len(v.Args) != 0 {
					g.fail(v, "p.lexer.%s: no arguments expected", f.Sel.Name)
				}
				if m.kind == pqNone {
					return []pqVal{{lean: "lexCall " + m.lean, kind: pqNone}}
				}
				s := t.eff("(← lexCall " + m.lean + ")")
				if m.kind == pqMsg {
					s = "(Msg.lex " + s + ")"
				}
				return []pqVal{{lean: s, kind: m.kind}}
			case "schema":
				if len(v.Args) != 0 {
					g.fail(v, "p.schema.%s: no arguments expected", f.Sel.Name)
				}
				switch f.Sel.Name {
				case "ResolveRefs":
					return t.results("schemaResolveRefs", []pqKind{pqErr})
				case "PruneUnused":
					return t.results("schemaPruneUnused", []pqKind{pqUnused, pqErr})
				}
				g.fail(v, "call of p.schema.%s is not supported", f.Sel.Name)
			}
		}
		if lxIsSel(f, "schema", "NewStruct") && !t.inSchemaPkg {
			sig, ok := g.sigs["schema.NewStruct"]
			if !ok {
				g.fail(v, "schema.NewStruct not found")
			}
			return userCall(sig, "", v.Args)
		}
		if lxIsSel(f, "fmt", "Sprintf") {
			if len(v.Args) < 1 {
				g.fail(v, "fmt.Sprintf without format")
			}
			format := t.expr(v.Args[0])
			if format.kind != pqStrLit {
				g.fail(v, "fmt.Sprintf: the format must be a string literal")
			}
			var args []string
			for _, a := range v.Args[1:] {
				args = append(args, t.as(a, t.expr(a), pqTok))
			}
			return []pqVal{{lean: "(Msg.sprintfTok " + g.leanString(v, format.str) + " [" + strings.Join(args, ", ") + "])", kind: pqMsg}}
		}
		// x.Error(), str.HasField(..), str.AddField(..)
		x := t.expr(f.X)
		switch {
		case x.kind == pqErr && f.Sel.Name == "Error" && len(v.Args) == 0:
			return []pqVal{{lean: t.eff("(← errError " + x.lean + ")"), kind: pqMsg}}
		case x.kind == pqPStruct:
			if sig, ok := g.sigs["Struct."+f.Sel.Name]; ok {
				return userCall(sig, x.lean, v.Args)
			}
		}
		g.fail(v, "call of the method %s on a value of kind %s is not supported", f.Sel.Name, pqKindName[x.kind])
	case *ast.Ident:
		if _, shadow := t.lookup(f.Name); shadow {
			g.fail(v, "call of the local %s", f.Name)
		}
		switch f.Name {
		case "len":
			if len(v.Args) != 1 {
				g.fail(v, "len: one argument expected")
			}
			a := t.expr(v.Args[0])
			switch a.kind {
			case pqNames, pqEnumFields, pqPtrList:
			default:
				g.fail(v, "len of a %s", pqKindName[a.kind])
			}
			return []pqVal{{lean: "(len " + a.lean + ")", kind: pqInt}}
		case "append":
			if len(v.Args) != 2 {
				g.fail(v, "append: two arguments expected")
			}
			a := t.expr(v.Args[0])
			elem := map[pqKind]pqKind{pqNames: pqName, pqEnumFields: pqEFVal, pqPtrList: pqPField}
			ek, ok := elem[a.kind]
			if !ok {
				g.fail(v, "append to a %s", pqKindName[a.kind])
			}
			return []pqVal{{lean: "(" + a.lean + " ++ [" + t.as(v.Args[1], t.expr(v.Args[1]), ek) + "])", kind: a.kind}}
		case "createUnusedWarnings":
			if len(v.Args) != 1 || t.inSchemaPkg {
				g.fail(v, "createUnusedWarnings: one argument expected")
			}
			return []pqVal{{lean: "(createUnusedWarnings " + t.as(v.Args[0], t.expr(v.Args[0]), pqUnused) + ")", kind: pqMsgs}}
		}
		g.fail(v, "call of %s is not supported", f.Name)
	}
	g.fail(v, "call of %s is not supported", lxTypeString(v.Fun))
	return nil
}

// the values of an action `act` with the given result kinds; several results are bound to temporaries by the
// caller (see defineFromCall), so this form is only used for 0 or 1 result.
func (t *pqFn) results(act string, kinds []pqKind) []pqVal {
	switch len(kinds) {
	case 0:
		return []pqVal{{lean: act, kind: pqNone}}
	case 1:
		return []pqVal{{lean: t.eff("(← " + act + ")"), kind: kinds[0]}}
	}
	out := make([]pqVal, len(kinds))
	for i, k := range kinds {
		out[i] = pqVal{lean: act, kind: k} // lean = the action itself; see multi()
	}
	return out
}

// ---- statements ---------------------------------------------------------------------------------

type pqCtx struct {
	inLoop   bool
	inSwitch bool
}

func (t *pqFn) block(list []ast.Stmt, ind string, cx pqCtx) []string {
	t.push()
	defer t.pop()
	var out []string
	for i, s := range list {
		if _, isRet := s.(*ast.ReturnStmt); isRet && i != len(list)-1 {
			t.g.fail(s, "statements after return")
		}
		if b, isBr := s.(*ast.BranchStmt); isBr && i != len(list)-1 {
			t.g.fail(b, "statements after %s", b.Tok)
		}
		out = append(out, t.stmt(s, ind, cx)...)
	}
	if len(out) == 0 {
		out = append(out, ind+"pure ()")
	}
	return out
}

func (t *pqFn) retExpr(n ast.Node, vals []string) string {
	switch len(vals) {
	case 0:
		return "return ()"
	case 1:
		return "return " + vals[0]
	}
	return "return (" + strings.Join(vals, ", ") + ")"
}

func (t *pqFn) stmt(s ast.Stmt, ind string, cx pqCtx) []string {
	g := t.g
	switch v := s.(type) {
	case *ast.EmptyStmt:
		return nil
	case *ast.ExprStmt:
		ce, ok := v.X.(*ast.CallExpr)
		if !ok {
			g.fail(v, "expression statement that is not a call")
		}
		vals := t.call(ce)
		if len(vals) == 1 && vals[0].kind == pqNone {
			return []string{ind + vals[0].lean}
		}
		g.fail(v, "the result of a call is dropped")
	case *ast.AssignStmt:
		return t.assign(v, ind)
	case *ast.DeclStmt:
		gd, ok := v.Decl.(*ast.GenDecl)
		if !ok || gd.Tok != token.VAR {
			g.fail(v, "declaration statement: only `var x T` is supported")
		}
		var out []string
		for _, sp := range gd.Specs {
			vs := sp.(*ast.ValueSpec)
			if len(vs.Values) != 0 || vs.Type == nil {
				g.fail(vs, "var declaration: only `var x T` (zero value) is supported")
			}
			k := g.kindOfType(vs, vs.Type)
			zero := map[pqKind]string{pqErr: "none", pqBool: "false", pqName: "[]", pqPStruct: "none", pqPField: "none", pqPMM: "none", pqPEnum: "none"}
			z, ok := zero[k]
			if !ok {
				g.fail(vs, "var of kind %s", pqKindName[k])
			}
			for _, n := range vs.Names {
				ln := t.declare(n, n.Name, k)
				out = append(out, fmt.Sprintf("%s%s%s : %s := %s", ind, t.letKw(n.Name), ln, pqLeanType[k], z))
			}
		}
		return out
	case *ast.ReturnStmt:
		if len(v.Results) != len(t.sig.results) {
			g.fail(v, "return: %d value(s) expected", len(t.sig.results))
		}
		var vals []string
		for i, r := range v.Results {
			vals = append(vals, t.as(r, t.expr(r), t.sig.results[i]))
		}
		return []string{ind + t.retExpr(v, vals)}
	case *ast.BranchStmt:
		if v.Tok != token.BREAK || v.Label != nil {
			g.fail(v, "%s is not supported (only an unlabelled break)", v.Tok)
		}
		if !cx.inLoop || cx.inSwitch {
			g.fail(v, "break outside a for loop or inside a switch")
		}
		return []string{ind + "break"}
	case *ast.IfStmt:
		return t.ifStmt(v, ind, cx)
	case *ast.ForStmt:
		if v.Init != nil || v.Post != nil {
			g.fail(v, "for with init/post statement is not supported")
		}
		out := []string{ind + "for _ in (← rounds) do"}
		if v.Cond != nil {
			c := t.as(v.Cond, t.expr(v.Cond), pqBool)
			out = append(out, ind+"  if (!"+c+") then", ind+"    break")
		}
		return append(out, t.block(v.Body.List, ind+"  ", pqCtx{inLoop: true})...)
	case *ast.RangeStmt:
		if v.Tok != token.DEFINE || v.Value != nil || v.Key == nil {
			g.fail(v, "range: only `for i := range slice` is supported")
		}
		x := t.expr(v.X)
		switch x.kind {
		case pqEnumFields, pqPtrList, pqNames:
		default:
			g.fail(v, "range over a %s", pqKindName[x.kind])
		}
		t.push()
		defer t.pop()
		id, ok := v.Key.(*ast.Ident)
		if !ok {
			g.fail(v, "range: index name expected")
		}
		if t.mutable[id.Name] {
			g.fail(v, "the range variable %s is assigned", id.Name)
		}
		ln := t.declare(v, id.Name, pqInt)
		out := []string{fmt.Sprintf("%sfor %s in rangeInt (len %s) do", ind, ln, x.lean)}
		return append(out, t.block(v.Body.List, ind+"  ", pqCtx{inLoop: true})...)
	case *ast.SwitchStmt:
		return t.switchStmt(v, ind, cx)
	}
	g.fail(s, "statement of type %T is not supported", s)
	return nil
}

// base local of a selector chain and the path below it
func pqChain(e ast.Expr) (base ast.Expr, path []string) {
	for {
		s, ok := e.(*ast.SelectorExpr)
		if !ok {
			return e, path
		}
		path = append([]string{s.Sel.Name}, path...)
		e = s.X
	}
}

// store assigns the Lean value `val` (of kind k, "" = take the kind of the place) to the place `lhs`.
func (t *pqFn) store(n ast.Node, lhs ast.Expr, rhs func(want pqKind) string, ind string) []string {
	g := t.g
	switch l := lhs.(type) {
	case *ast.Ident:
		loc, ok := t.lookup(l.Name)
		if !ok {
			g.fail(l, "assignment to the unknown name %s", l.Name)
		}
		if !t.isMut(l.Name) {
			g.fail(l, "internal: %s is not marked mutable", l.Name)
		}
		return []string{ind + loc.lean + " := " + rhs(loc.kind)}
	case *ast.StarExpr:
		x := t.expr(l.X)
		if x.kind != pqRFT {
			g.fail(l, "assignment through a %s", pqKindName[x.kind])
		}
		return []string{ind + "let v__ := " + rhs(pqFT), ind + "modFT " + x.lean + " fun _ => v__"}
	case *ast.IndexExpr:
		m := t.expr(l.X)
		if !pqIsMap(m.kind) {
			g.fail(l, "assignment to an element of a %s", pqKindName[m.kind])
		}
		k := t.as(l.Index, t.expr(l.Index), pqName)
		out := []string{ind + "let k__ := " + k, ind + "let m__ ← mapSet " + m.lean + " k__ " + rhs(pqMapElem[m.kind])}
		return append(out, t.store(n, l.X, func(want pqKind) string { return "m__" }, ind)...)
	case *ast.SelectorExpr:
		base, path := pqChain(l)
		// p.f / p.schema.f
		if t.isRecv(base) {
			if path[0] == "schema" && len(path) == 2 {
				f := t.fieldOf(l, "Schema", path[1])
				return []string{ind + "let v__ := " + rhs(f.kind), ind + "modSchema fun o => { o with " + f.lean + " := v__ }"}
			}
			if len(path) == 1 && path[0] != "lexer" {
				f := t.fieldOf(l, "Parser", path[0])
				return []string{ind + "let v__ := " + rhs(f.kind), ind + "modP fun o => { o with " + f.lean + " := v__ }"}
			}
			g.fail(l, "assignment to %s.%s is not supported", t.recv, strings.Join(path, "."))
		}
		b := t.expr(base)
		typ := ""
		mod := ""
		switch b.kind {
		case pqFT:
			id, ok := base.(*ast.Ident)
			if !ok || !t.isMut(id.Name) {
				g.fail(l, "assignment to a field of a FieldType value that is not a local")
			}
			typ = "FieldType"
		default:
			o, ok := pqObjOf[b.kind]
			if !ok || b.kind == pqSchemaPtr {
				g.fail(l, "assignment to a field of a value of kind %s", pqKindName[b.kind])
			}
			typ, mod = o.typ, o.mod
		}
		var lp []string
		var f pqField
		for i, p := range path {
			f = t.fieldOf(l, typ, p)
			lp = append(lp, f.lean)
			if i < len(path)-1 {
				switch f.kind {
				case pqFT:
					typ = "FieldType"
				case pqMF:
					typ = "MultimapField"
				default:
					g.fail(l, "assignment below the field %s of kind %s", p, pqKindName[f.kind])
				}
			}
		}
		if f.kind == pqMF || f.kind == pqNone {
			g.fail(l, "assignment to the field %s", path[len(path)-1])
		}
		if mod == "" {
			return []string{ind + b.lean + " := { " + b.lean + " with " + strings.Join(lp, ".") + " := " + rhs(f.kind) + " }"}
		}
		return []string{ind + "let v__ := " + rhs(f.kind), ind + mod + " " + b.lean + " fun o => { o with " + strings.Join(lp, ".") + " := v__ }"}
	}
	g.fail(lhs, "assignment to an expression of type %T is not supported", lhs)
	return nil
}

func (t *pqFn) assign(v *ast.AssignStmt, ind string) []string {
	g := t.g
	if len(v.Rhs) != 1 {
		g.fail(v, "assignment with several right-hand sides is not supported")
	}
	// several results of one call
	if len(v.Lhs) > 1 {
		// _, ok := m[k]
		if ix, ok := v.Rhs[0].(*ast.IndexExpr); ok {
			if v.Tok != token.DEFINE || len(v.Lhs) != 2 || !lxIsIdent(v.Lhs[0], "_") {
				g.fail(v, "comma-ok map read: only `_, ok := m[k]` is supported")
			}
			m := t.expr(ix.X)
			if !pqIsMap(m.kind) {
				g.fail(v, "comma-ok read of a %s", pqKindName[m.kind])
			}
			k := t.as(ix.Index, t.expr(ix.Index), pqName)
			id := v.Lhs[1].(*ast.Ident)
			ln := t.declare(v, id.Name, pqBool)
			return []string{fmt.Sprintf("%s%s%s := GoMap.has %s %s", ind, t.letKw(id.Name), ln, m.lean, k)}
		}
		ce, ok := v.Rhs[0].(*ast.CallExpr)
		if !ok {
			g.fail(v, "multiple assignment from something that is not a call")
		}
		vals := t.call(ce)
		if len(vals) != len(v.Lhs) {
			g.fail(v, "%d names for %d results", len(v.Lhs), len(vals))
		}
		act := vals[0].lean
		switch v.Tok {
		case token.DEFINE:
			anyMut := false
			var names []string
			for i, l := range v.Lhs {
				id, ok := l.(*ast.Ident)
				if !ok {
					g.fail(l, ":= to something that is not a name")
				}
				if id.Name != "_" && t.isMut(id.Name) {
					anyMut = true
				}
				names = append(names, t.declare(l, id.Name, vals[i].kind))
			}
			if !anyMut {
				return []string{ind + "let (" + strings.Join(names, ", ") + ") ← " + act}
			}
			var tmps, out []string
			for i := range names {
				tmps = append(tmps, fmt.Sprintf("r%d__", i))
			}
			out = append(out, ind+"let ("+strings.Join(tmps, ", ")+") ← "+act)
			for i, l := range v.Lhs {
				id := l.(*ast.Ident)
				if id.Name == "_" {
					continue
				}
				out = append(out, fmt.Sprintf("%s%s%s := %s", ind, t.letKw(id.Name), names[i], tmps[i]))
			}
			return out
		case token.ASSIGN:
			var tmps, out []string
			for i, l := range v.Lhs {
				if lxIsIdent(l, "_") {
					tmps = append(tmps, "_")
				} else {
					tmps = append(tmps, fmt.Sprintf("r%d__", i))
				}
			}
			out = append(out, ind+"let ("+strings.Join(tmps, ", ")+") ← "+act)
			for i, l := range v.Lhs {
				if tmps[i] == "_" {
					continue
				}
				i := i
				out = append(out, t.store(v, l, func(want pqKind) string {
					return t.as(v, pqVal{lean: tmps[i], kind: vals[i].kind}, want)
				}, ind)...)
			}
			return out
		}
		g.fail(v, "assignment operator %s with several names", v.Tok)
	}
	switch v.Tok {
	case token.DEFINE:
		id, ok := v.Lhs[0].(*ast.Ident)
		if !ok {
			g.fail(v, ":= to something that is not a name")
		}
		val := t.expr(v.Rhs[0])
		k := val.kind
		s := val.lean
		switch k {
		case pqStrLit:
			k = pqMsg
			s = t.as(v, val, pqMsg)
		case pqIntLit:
			k = pqInt
			s = t.as(v, val, pqInt)
		case pqNil, pqNone:
			g.fail(v, ":= from nil / a call without result")
		}
		ln := t.declare(v, id.Name, k)
		return []string{fmt.Sprintf("%s%s%s : %s := %s", ind, t.letKw(id.Name), ln, pqLeanType[k], s)}
	case token.ASSIGN:
		return t.store(v, v.Lhs[0], func(want pqKind) string { return t.as(v.Rhs[0], t.expr(v.Rhs[0]), want) }, ind)
	case token.ADD_ASSIGN:
		id, ok := v.Lhs[0].(*ast.Ident)
		if !ok {
			g.fail(v, "+= to something that is not a local")
		}
		loc, ok := t.lookup(id.Name)
		if !ok || loc.kind != pqMsg {
			g.fail(v, "+= is supported for message strings only")
		}
		return []string{ind + loc.lean + " := (Msg.cat " + loc.lean + " " + t.as(v.Rhs[0], t.expr(v.Rhs[0]), pqMsg) + ")"}
	}
	g.fail(v, "assignment operator %s is not supported", v.Tok)
	return nil
}

func (t *pqFn) ifStmt(v *ast.IfStmt, ind string, cx pqCtx) []string {
	g := t.g
	t.push() // the scope of the init statement
	defer t.pop()
	var out []string
	if v.Init != nil {
		as, ok := v.Init.(*ast.AssignStmt)
		if !ok || as.Tok != token.DEFINE {
			g.fail(v.Init, "if with an init statement that is not a := definition")
		}
		out = append(out, t.assign(as, ind)...)
	}
	cond := t.as(v.Cond, t.expr(v.Cond), pqBool)
	out = append(out, ind+"if "+cond+" then")
	out = append(out, t.block(v.Body.List, ind+"  ", cx)...)
	switch e := v.Else.(type) {
	case nil:
	case *ast.BlockStmt:
		out = append(out, ind+"else")
		out = append(out, t.block(e.List, ind+"  ", cx)...)
	case *ast.IfStmt:
		// `else if` = else { if .. }: the init statement and the condition are evaluated only when reached
		out = append(out, ind+"else")
		out = append(out, t.ifStmt(e, ind+"  ", cx)...)
	default:
		g.fail(v.Else, "else branch of type %T", v.Else)
	}
	return out
}

func (t *pqFn) switchStmt(v *ast.SwitchStmt, ind string, cx pqCtx) []string {
	g := t.g
	if v.Init != nil || v.Tag == nil {
		g.fail(v, "switch: only `switch e { .. }` with a tag and without init statement is supported")
	}
	tag := t.expr(v.Tag)
	switch tag.kind {
	case pqTok, pqPrimCode:
	default:
		g.fail(v.Tag, "switch on a %s", pqKindName[tag.kind])
	}
	t.tmp++
	tn := fmt.Sprintf("tag%d__", t.tmp)
	out := []string{fmt.Sprintf("%slet %s := %s", ind, tn, tag.lean)}
	cx.inSwitch = true
	first := true
	for i, c := range v.Body.List {
		cc := c.(*ast.CaseClause)
		for _, s := range cc.Body {
			if b, ok := s.(*ast.BranchStmt); ok && b.Tok == token.FALLTHROUGH {
				g.fail(b, "fallthrough is not supported")
			}
		}
		if cc.List == nil {
			if i != len(v.Body.List)-1 {
				g.fail(cc, "switch: default must be the last clause")
			}
			if first {
				g.fail(cc, "switch with only a default clause")
			}
			out = append(out, ind+"else")
			out = append(out, t.block(cc.Body, ind+"  ", cx)...)
			continue
		}
		var conds []string
		for _, e := range cc.List {
			cv := t.expr(e)
			if cv.kind != tag.kind || !strings.HasPrefix(cv.lean, "c_") {
				g.fail(e, "switch: a case must be a constant of the kind of the tag")
			}
			conds = append(conds, "("+tn+" == "+cv.lean+")")
		}
		cond := conds[0]
		if len(conds) > 1 {
			cond = "(" + strings.Join(conds, " || ") + ")"
		}
		kw := "else if "
		if first {
			kw = "if "
			first = false
		}
		out = append(out, ind+kw+cond+" then")
		out = append(out, t.block(cc.Body, ind+"  ", cx)...)
	}
	if first {
		g.fail(v, "empty switch")
	}
	return out
}

// ---- functions ----------------------------------------------------------------------------------

func (g *pqGen) need(sig *pqSig) {
	switch g.state[sig.lean] {
	case 2:
		return
	case 1:
		g.fail(sig.fd, "recursion through %s is not supported", sig.goName)
	}
	g.state[sig.lean] = 1
	g.out[sig.lean] = g.function(sig)
	g.state[sig.lean] = 2
	g.order = append(g.order, sig.lean)
}

// names assigned after their declaration (by =, +=, or through a field of a FieldType local)
func pqMutables(fd *ast.FuncDecl) map[string]bool {
	m := map[string]bool{}
	ast.Inspect(fd.Body, func(n ast.Node) bool {
		as, ok := n.(*ast.AssignStmt)
		if !ok || as.Tok == token.DEFINE {
			return true
		}
		for _, l := range as.Lhs {
			base, path := pqChain(l)
			if id, ok := base.(*ast.Ident); ok {
				if len(path) == 0 {
					m[id.Name] = true
				} else {
					m["."+id.Name] = true // a field is assigned: mutable if the local is a FieldType value
				}
			}
		}
		return true
	})
	return m
}

func (g *pqGen) function(sig *pqSig) string {
	fd := sig.fd
	ast.Inspect(fd.Body, func(n ast.Node) bool {
		switch n.(type) {
		case *ast.FuncLit:
			g.fail(n, "function literal is not supported")
		case *ast.GoStmt, *ast.DeferStmt, *ast.SelectStmt, *ast.TypeSwitchStmt, *ast.LabeledStmt, *ast.SendStmt, *ast.IncDecStmt:
			g.fail(n, "statement of type %T is not supported", n)
		}
		return true
	})
	t := &pqFn{g: g, sig: sig, used: map[string]int{}, mutable: pqMutables(fd), inSchemaPkg: sig.file == pqSchemaFile}
	t.push()
	var params []string
	if sig.recv != "" {
		t.recv = fd.Recv.List[0].Names[0].Name
		if pqReserved[t.recv] {
			g.fail(fd, "receiver name %s collides with a name of the generated text", t.recv)
		}
		if sig.recv == "Struct" {
			r := t.recv
			t.recv = ""
			ln := t.declare(fd, r, pqPStruct)
			params = append(params, "("+ln+" : Ptr)")
		}
	}
	for i, pn := range sig.pnames {
		if t.mutable[pn] {
			g.fail(fd, "the parameter %s is assigned", pn)
		}
		ln := t.declare(fd, pn, sig.params[i])
		params = append(params, "("+ln+" : "+pqLeanType[sig.params[i]]+")")
	}
	lines := t.block(fd.Body.List, "  ", pqCtx{})
	if len(sig.results) > 0 {
		if !pqEndsInReturn(fd.Body.List) {
			g.fail(fd, "%s: the body must end with a return statement (or an if/switch whose branches all do)", sig.goName)
		}
	}
	var rts []string
	for _, k := range sig.results {
		rts = append(rts, pqLeanType[k])
	}
	rt := "Unit"
	switch len(rts) {
	case 0:
	case 1:
		rt = rts[0]
	default:
		rt = "(" + strings.Join(rts, " × ") + ")"
	}
	ps := ""
	if len(params) > 0 {
		ps = " " + strings.Join(params, " ")
	}
	var sb strings.Builder
	fmt.Fprintf(&sb, "/-- %s `%s` -/\ndef %s%s : M %s := do\n%s\n", sig.file, g.sigText(fd), sig.lean, ps, rt, strings.Join(lines, "\n"))
	return sb.String()
}

func pqEndsInReturn(list []ast.Stmt) bool {
	if len(list) == 0 {
		return false
	}
	switch v := list[len(list)-1].(type) {
	case *ast.ReturnStmt:
		return true
	case *ast.IfStmt:
		if v.Else == nil || !pqEndsInReturn(v.Body.List) {
			return false
		}
		switch e := v.Else.(type) {
		case *ast.BlockStmt:
			return pqEndsInReturn(e.List)
		case *ast.IfStmt:
			return pqEndsInReturn([]ast.Stmt{e})
		}
	case *ast.SwitchStmt:
		hasDefault := false
		for _, c := range v.Body.List {
			cc := c.(*ast.CaseClause)
			if cc.List == nil {
				hasDefault = true
			}
			if !pqEndsInReturn(cc.Body) {
				return false
			}
		}
		return hasDefault
	}
	return false
}

func (g *pqGen) sigText(fd *ast.FuncDecl) string {
	s := "func "
	if fd.Recv != nil {
		s += "(" + fd.Recv.List[0].Names[0].Name + " " + lxTypeString(fd.Recv.List[0].Type) + ") "
	}
	s += fd.Name.Name + "("
	var ps []string
	for _, p := range fd.Type.Params.List {
		for _, n := range p.Names {
			ps = append(ps, n.Name+" "+lxTypeString(p.Type))
		}
	}
	s += strings.Join(ps, ", ") + ")"
	if fd.Type.Results != nil {
		var rs []string
		for _, r := range fd.Type.Results.List {
			rs = append(rs, lxTypeString(r.Type))
		}
		if len(rs) == 1 {
			s += " " + rs[0]
		} else {
			s += " (" + strings.Join(rs, ", ") + ")"
		}
	}
	return s
}

// does the body of an untranslated method of *Parser write the parser, use its lexer or schema?
func pqTouchesParser(fd *ast.FuncDecl) bool {
	if len(fd.Recv.List[0].Names) != 1 {
		return false
	}
	recv := fd.Recv.List[0].Names[0].Name
	touches := false
	ast.Inspect(fd.Body, func(n ast.Node) bool {
		switch v := n.(type) {
		case *ast.AssignStmt:
			for _, l := range v.Lhs {
				if b, _ := pqChain(l); lxIsIdent(b, recv) {
					touches = true
				}
			}
		case *ast.CallExpr:
			if sel, ok := v.Fun.(*ast.SelectorExpr); ok {
				if b, _ := pqChain(sel.X); lxIsIdent(b, recv) {
					touches = true
				}
			}
			for _, a := range v.Args {
				if lxIsIdent(a, recv) {
					touches = true
				}
			}
		case *ast.UnaryExpr:
			if b, _ := pqChain(v.X); v.Op == token.AND && lxIsIdent(b, recv) {
				touches = true
			}
		}
		return true
	})
	return touches
}

func genParseFlow() {
	// one file set for the three files, so that every position in a message names the right file
	fset := token.NewFileSet()
	parse := func(rel string) *ast.File {
		f, err := parser.ParseFile(fset, filepath.Join(repo, rel), nil, parser.ParseComments)
		if err != nil {
			die("parse %s: %v", rel, err)
		}
		return f
	}
	pf, sf, lf := parse(pqParserFile), parse(pqSchemaFile), parse(pqLexerFile)
	g := &pqGen{fset: fset, tokConsts: map[string]bool{}, consts: map[string]pqKind{}, constVal: map[string]uint64{},
		sigs: map[string]*pqSig{}, out: map[string]string{}, state: map[string]int{}}
	g.tokenConsts(lf)
	g.iotaBlock(pf, pqParserFile, "MessageTypeWarning", pqMsgType)
	g.iotaBlock(sf, pqSchemaFile, "PrimitiveTypeInt64", pqPrimCode)
	for _, n := range []string{"Parser", "Message", "Error"} {
		g.checkStruct(pf, pqParserFile, n)
	}
	for _, n := range []string{"Struct", "StructField", "FieldType", "PrimitiveType", "ArrayType", "MultimapField", "Multimap", "Enum", "EnumField", "Schema"} {
		g.checkStruct(sf, pqSchemaFile, n)
	}
	g.collectFuncs(sf, pqSchemaFile, true)
	g.collectFuncs(pf, pqParserFile, false)
	for _, k := range []string{"schema.NewStruct", "Struct.HasField", "Struct.AddField", "Parser.Parse", "Parser.error", "Parser.eat"} {
		if _, ok := g.sigs[k]; !ok {
			g.fail(nil, "%s not found", k)
		}
	}
	// all methods of *Parser, in source order (callees are emitted first by need)
	var keys []string
	for k := range g.sigs {
		keys = append(keys, k)
	}
	sort.Slice(keys, func(i, j int) bool {
		a, b := g.sigs[keys[i]], g.sigs[keys[j]]
		if a.file != b.file {
			return a.file > b.file // schema.go first
		}
		return a.fd.Pos() < b.fd.Pos()
	})
	for _, k := range keys {
		g.need(g.sigs[k])
	}
	// the methods of *Parser that are not translated must not touch the parser
	var notTr []string
	for _, d := range pf.Decls {
		fd, ok := d.(*ast.FuncDecl)
		if !ok || fd.Body == nil {
			continue
		}
		if fd.Recv != nil && strings.TrimPrefix(lxTypeString(fd.Recv.List[0].Type), "*") == "Parser" {
			if pqSkipMethods[fd.Name.Name] {
				if pqTouchesParser(fd) {
					g.fail(fd, "the method %s of Parser is not translated but writes the parser or calls a method through it", fd.Name.Name)
				}
				notTr = append(notTr, fd.Name.Name)
			}
			continue
		}
		// other functions / methods of parser.go: they must not take or make a Parser
		if fd.Name.Name == "NewParser" {
			notTr = append(notTr, fd.Name.Name)
			continue
		}
		for _, p := range fd.Type.Params.List {
			if ts := lxTypeString(p.Type); ts == "*Parser" || ts == "Parser" {
				g.fail(fd, "the function %s takes a Parser and is not translated", fd.Name.Name)
			}
		}
		name := fd.Name.Name
		if fd.Recv != nil {
			name = strings.TrimPrefix(lxTypeString(fd.Recv.List[0].Type), "*") + "." + name
		}
		notTr = append(notTr, name)
	}
	sort.Strings(notTr)

	var sb strings.Builder
	sb.WriteString("/- GENERATED by /verif/extract (parseflow.go) from go/pkg/idl/parser.go (the methods of *Parser, the MessageType\n" +
		"   constants) and go/pkg/schema/schema.go (NewStruct, HasField, AddField, the PrimitiveType constants). Do not edit.\n" +
		"   Vocabulary: Stef/ParseFlowSem.lean; the lexer methods are those of Stef/Gen/LexFlow.lean. -/\n" +
		"import Stef.ParseFlowSem\nimport Stef.Gen.LexFlow\n\nset_option linter.unusedVariables false\n\n" +
		"namespace Stef.Gen.ParseFlow\nopen Stef.ParseFlowSem\nopen Stef.Gen.LexFlow\nopen Stef.Idl (Name Pos)\n\n")
	sb.WriteString("/-! the constants `MessageType*` (parser.go) and `PrimitiveType*` (schema.go) -/\n")
	for _, n := range g.constOrd {
		fmt.Fprintf(&sb, "def c_%s : Nat := %d\n", n, g.constVal[n])
	}
	sb.WriteString("\n")
	for _, n := range g.order {
		sb.WriteString(g.out[n] + "\n")
	}
	var q []string
	for _, n := range notTr {
		q = append(q, strconv.Quote(n))
	}
	sb.WriteString("/-- functions of parser.go that are not translated: getters, NewParser, message formatting, createUnusedWarnings\n" +
		"    (the generator fails on an untranslated method of Parser that writes the parser or calls through it). -/\n")
	fmt.Fprintf(&sb, "def notTranslated : List String := [%s]\n\n", strings.Join(q, ", "))
	sb.WriteString("end Stef.Gen.ParseFlow\n")
	writeOut("ParseFlow.lean", sb.String())
}
