package main

// genPrintFlow regenerates lean/Stef/Gen/PrintFlow.lean: the schema printer and the construction of the
// wire schema, translated statement by statement from the Go AST (go/parser + go/ast only) into Lean `do`
// blocks over the vocabulary of lean/Stef/PrintFlowSem.lean:
//
//   prettyPrintFieldType, prettyPrintStructField, prettyPrintStruct, prettyPrintMultimap, prettyPrintEnum,
//   sortedList, prettyPrint (<- Schema.PrettyPrint)                       go/pkg/schema/schema.go   (pure: `Id.run do`)
//   schemaToStructCountTree                                               go/pkg/schema/structcounttree.go
//   setStructCountsFromTree, newWireSchema (<- NewWireSchema)             go/pkg/schema/wireschema.go  (`Except GErr`)
//
// The order of the statements, the conditions, which field is read or assigned and every string literal come from
// the source. What a Go field, a library call, a map or a pointer MEANS is fixed in PrintFlowSem.lean and in the
// tables below (pfFields, pfLeanType); the declared Go type of every field used is compared with the table.
//
// Translated subset (everything else makes this generator fail with a message that names the construct):
//
//   stmt ::= var x T | x := e | x = e | x += e (strings) | x = append(x, e) | *p = append(*p, e) | x.f = e
//          | x.m[e] = true | delete(x.m, e)  (map[string]bool)      | x.f = x.f[:len(x.f)-1]
//          | if [x := e;] cond {..} [else ..] | switch { case cond: .. default: .. } | switch e.Primitive.Type { case C: .. }
//          | for _, x := range e {..} | for k := range m { s = append(s, k) } followed by sort.Strings(s)
//          | for i := range e {..}   (i used only as e[i]; translated as a loop over the elements)
//          | f(args) / x.method(args) for a translated function with written-through pointer parameters
//          | sort.Strings(x) | return [e] | panic("literal")
//   e    ::= "literal" | local | x.f (fields of pfFields; through a possibly nil pointer only under a guard
//            `p != nil` or, in the Except functions, as a checked dereference) | &e | *p | e + e (strings) | m[e]
//          | fmt.Sprintf("..%s..%d..", e..)  (%s of a string, %d of a uint64) | strings.Join(e, e) | uint(len(e))
//          | T{f: e, ..} for structCountTree / recurseStack / WireSchema | []T{} | map[string]bool{} | f(e) for a translated pure function
//   cond ::= e == "" | e != "" | p != nil | p == nil | bool field | x.m[e] (map[string]bool) | !cond | cond && cond | cond || cond
//
// No goto/break/continue/defer/go/closures/labels; no shadowing (every local name is declared once per function).

import (
	"fmt"
	"go/ast"
	"go/printer"
	"go/token"
	"os"
	"path/filepath"
	"sort"
	"strconv"
	"strings"
)

func init() { register("PrintFlow", genPrintFlow) }

const pfDir = "go/pkg/schema"

// pfField: how a Go field is read (and written) in Lean. goType is what the source must declare.
type pfField struct {
	goType   string
	get      string // %s = the object
	set      string // %[1]s = the object, %[2]s = the new value; "" = not assignable
	nullable bool   // a pointer that may be nil
	sigma    bool   // a pointer into the schema: needs σ
}

var pfFields = map[string]pfField{
	"Schema.PackageName":         {goType: "[]string", get: "%s.pkg"},
	"Schema.Structs":             {goType: "map[string]*Struct", get: "%s.structs"},
	"Schema.Multimaps":           {goType: "map[string]*Multimap", get: "%s.multimaps"},
	"Schema.Enums":               {goType: "map[string]*Enum", get: "%s.enums"},
	"Enum.Name":                  {goType: "string", get: "%s.name"},
	"Enum.Fields":                {goType: "[]EnumField", get: "%s.fields"},
	"EnumField.Name":             {goType: "string", get: "%s.name"},
	"EnumField.Value":            {goType: "uint64", get: "%s.value"},
	"Multimap.Name":              {goType: "string", get: "%s.name"},
	"Multimap.Key":               {goType: "MultimapField", get: "%s.key"},
	"Multimap.Value":             {goType: "MultimapField", get: "%s.value"},
	"MultimapField.Type":         {goType: "FieldType", get: "%s"},
	"Struct.Name":                {goType: "string", get: "%s.name"},
	"Struct.OneOf":               {goType: "bool", get: "%s.oneOf"},
	"Struct.DictName":            {goType: "string", get: "%s.dict"},
	"Struct.IsRoot":              {goType: "bool", get: "%s.isRoot"},
	"Struct.Fields":              {goType: "[]*StructField", get: "%s.fields"},
	"StructField.FieldType":      {goType: "FieldType", get: "%s.ty"},
	"StructField.Name":           {goType: "string", get: "%s.name"},
	"StructField.Optional":       {goType: "bool", get: "%s.optional"},
	"FieldType.Primitive":        {goType: "*PrimitiveType", get: "%s.goPrimitive", nullable: true},
	"FieldType.Array":            {goType: "*ArrayType", get: "%s.goArray", nullable: true},
	"FieldType.Struct":           {goType: "string", get: "%s.goStruct"},
	"FieldType.MultiMap":         {goType: "string", get: "%s.goMultiMap"},
	"FieldType.Enum":             {goType: "string", get: "%s.goEnum"},
	"FieldType.DictName":         {goType: "string", get: "%s.goDictName"},
	"FieldType.StructDef":        {goType: "*Struct", get: "%s.goStructDef σ", nullable: true, sigma: true},
	"FieldType.MultimapDef":      {goType: "*Multimap", get: "%s.goMultimapDef σ", nullable: true, sigma: true},
	"ArrayType.ElemType":         {goType: "FieldType", get: "%s.elemType"},
	"PrimitiveType.Type":         {goType: "PrimitiveFieldType", get: "%s"},
	"structCountTree.structName": {goType: "string", get: "%s.structName"},
	"structCountTree.fieldCount": {goType: "uint", get: "%s.fieldCount"},
	"structCountTree.structFields": {goType: "[]structCountTree", get: "%s.structFields",
		set: "%[1]s.setStructFields %[2]s"},
	"recurseStack.asStack":    {goType: "[]string", get: "%s.asStack", set: "{ %[1]s with asStack := %[2]s }"},
	"recurseStack.asMap":      {goType: "map[string]bool", get: "%s.asMap", set: "{ %[1]s with asMap := %[2]s }"},
	"WireSchema.structCounts": {goType: "[]uint", get: "%s.structCounts", set: "{ %[1]s with structCounts := %[2]s }"},
}

// the constants of PrimitiveFieldType, in declaration order, and the constructors of Stef.Idl.Prim they are.
var pfPrimConsts = []string{"PrimitiveTypeInt64", "PrimitiveTypeUint64", "PrimitiveTypeFloat64", "PrimitiveTypeBool",
	"PrimitiveTypeString", "PrimitiveTypeBytes"}
var pfPrimLean = map[string]string{"PrimitiveTypeInt64": ".int64", "PrimitiveTypeUint64": ".uint64",
	"PrimitiveTypeFloat64": ".float64", "PrimitiveTypeBool": ".bool", "PrimitiveTypeString": ".string",
	"PrimitiveTypeBytes": ".bytes"}

// Go type (pointer stars removed) -> Lean type
var pfLeanType = map[string]string{
	"string": "Name", "bool": "Bool", "uint": "Nat", "uint64": "Nat",
	"Schema": "Schema", "Struct": "Struct", "StructField": "Field", "Multimap": "Multimap", "MultimapField": "FType",
	"Enum": "Enum", "EnumField": "EnumField", "FieldType": "FType", "structCountTree": "StructCountTree",
	"recurseStack": "RecurseStack", "WireSchema": "WireSchemaV",
}

func pfLeanTypeOf(t string) string {
	t = strings.TrimPrefix(t, "*")
	if strings.HasPrefix(t, "[]") {
		return "List " + pfParen(pfLeanTypeOf(t[2:]))
	}
	if strings.HasPrefix(t, "map[string]*") {
		return "List " + pfParen(pfLeanTypeOf(t[len("map[string]*"):]))
	}
	if t == "map[string]bool" {
		return "List Name"
	}
	if l, ok := pfLeanType[t]; ok {
		return l
	}
	if len(t) == 1 && t[0] >= 'A' && t[0] <= 'Z' { // a type parameter
		return t
	}
	die("PrintFlow: no Lean type for the Go type %s", t)
	return ""
}

func pfParen(s string) string {
	if !strings.ContainsAny(s, " ") || (strings.HasPrefix(s, "(") && pfClosesAtEnd(s)) ||
		(strings.HasPrefix(s, "[") && strings.HasSuffix(s, "]") && !strings.Contains(s[1:], "[")) {
		return s
	}
	return "(" + s + ")"
}

// pfClosesAtEnd: the parenthesis opened at s[0] closes at the last character.
func pfClosesAtEnd(s string) bool {
	d := 0
	for i, c := range s {
		switch c {
		case '(':
			d++
		case ')':
			d--
			if d == 0 && i != len(s)-1 {
				return false
			}
		}
	}
	return d == 0
}

var pfReserved = map[string]bool{}

func init() {
	for _, n := range strings.Fields(`at end from fun have show then do let match with in by open def theorem where mut unless
		try catch finally pure some none true false nil Type Prop if else for return instance structure inductive class
		namespace section variable import deriving abbrev example termination_by decreasing_by throw
		σ fuel mapKeys mapGet appendPtr sortStrings stringsJoin fmtUint setGet setTrue setDelete dropLastE deref
		schemaFuel treeFuel Name Nat List`) {
		pfReserved[n] = true
	}
}

// ---- the package ----

type pfPkg struct {
	files  map[string]*ast.File
	fsets  map[string]*token.FileSet
	fields map[string]string // "T.F" -> declared Go type (embedded fields under their type name)
	embeds map[string][]string
	funcs  map[string]*ast.FuncDecl // "name" or "Recv.name"
	frel   map[string]string
}

func pfTypeStr(e ast.Expr) string {
	switch v := e.(type) {
	case *ast.Ident:
		return v.Name
	case *ast.StarExpr:
		return "*" + pfTypeStr(v.X)
	case *ast.ArrayType:
		if v.Len != nil {
			die("PrintFlow: fixed-size array type not supported")
		}
		return "[]" + pfTypeStr(v.Elt)
	case *ast.MapType:
		return "map[" + pfTypeStr(v.Key) + "]" + pfTypeStr(v.Value)
	case *ast.SelectorExpr:
		return pfTypeStr(v.X) + "." + v.Sel.Name
	case *ast.InterfaceType:
		return "interface"
	}
	die("PrintFlow: unsupported type expression %T", e)
	return ""
}

func pfLoad() *pfPkg {
	p := &pfPkg{files: map[string]*ast.File{}, fsets: map[string]*token.FileSet{}, fields: map[string]string{},
		embeds: map[string][]string{}, funcs: map[string]*ast.FuncDecl{}, frel: map[string]string{}}
	ents, err := os.ReadDir(filepath.Join(repo, pfDir))
	if err != nil {
		die("PrintFlow: read %s: %v", pfDir, err)
	}
	var names []string
	for _, e := range ents {
		n := e.Name()
		if strings.HasSuffix(n, ".go") && !strings.HasSuffix(n, "_test.go") {
			names = append(names, n)
		}
	}
	sort.Strings(names)
	var primConsts []string
	for _, n := range names {
		rel := pfDir + "/" + n
		fset, f := parseFile(rel)
		p.files[rel], p.fsets[rel] = f, fset
		for _, d := range f.Decls {
			switch v := d.(type) {
			case *ast.FuncDecl:
				key := v.Name.Name
				if v.Recv != nil && len(v.Recv.List) == 1 {
					key = strings.TrimPrefix(pfTypeStr(v.Recv.List[0].Type), "*") + "." + key
				}
				if _, dup := p.funcs[key]; dup {
					die("PrintFlow: function %s declared twice", key)
				}
				p.funcs[key], p.frel[key] = v, rel
			case *ast.GenDecl:
				for _, s := range v.Specs {
					switch sp := s.(type) {
					case *ast.TypeSpec:
						st, ok := sp.Type.(*ast.StructType)
						if !ok {
							continue
						}
						for _, fl := range st.Fields.List {
							ts := ""
							func() {
								defer func() {
									if recover() != nil {
										ts = "?"
									}
								}()
								ts = pfTypeStr(fl.Type)
							}()
							if len(fl.Names) == 0 {
								en := strings.TrimPrefix(ts, "*")
								p.fields[sp.Name.Name+"."+en] = ts
								p.embeds[sp.Name.Name] = append(p.embeds[sp.Name.Name], en)
							}
							for _, fn := range fl.Names {
								p.fields[sp.Name.Name+"."+fn.Name] = ts
							}
						}
					case *ast.ValueSpec:
						if v.Tok != token.CONST {
							continue
						}
						for _, cn := range sp.Names {
							if strings.HasPrefix(cn.Name, "PrimitiveType") {
								primConsts = append(primConsts, cn.Name)
							}
						}
					}
				}
			}
		}
	}
	if strings.Join(primConsts, " ") != strings.Join(pfPrimConsts, " ") {
		die("PrintFlow: the constants of PrimitiveFieldType are [%s], the model's Prim has [%s]",
			strings.Join(primConsts, " "), strings.Join(pfPrimConsts, " "))
	}
	return p
}

// ---- function specs ----

type pfSpec struct {
	key    string // key in pfPkg.funcs
	lean   string // Lean name
	exc    bool   // runs in Except GErr
	fuel   string // "" or the Lean expression (over the Lean argument strings $1, $2, ..) a non-recursive caller passes
	sigma  string // "" | "implicit" (extra first parameter σ) | name of the *Schema parameter that is σ
	inout  map[string]bool
	result string // expected Go result type ("" = none)
}

var pfSpecs = []pfSpec{
	{key: "prettyPrintFieldType", lean: "prettyPrintFieldType", result: "string"},
	{key: "prettyPrintStructField", lean: "prettyPrintStructField", result: "string"},
	{key: "prettyPrintStruct", lean: "prettyPrintStruct", result: "string"},
	{key: "prettyPrintMultimap", lean: "prettyPrintMultimap", result: "string"},
	{key: "prettyPrintEnum", lean: "prettyPrintEnum", result: "string"},
	{key: "sortedList", lean: "sortedList", result: "[]*T"},
	{key: "Schema.PrettyPrint", lean: "prettyPrint", result: "string"},
	{key: "schemaToStructCountTree", lean: "schemaToStructCountTree", exc: true, fuel: "schemaFuel σ", sigma: "implicit",
		inout: map[string]bool{"dst": true, "stack": true}},
	{key: "WireSchema.setStructCountsFromTree", lean: "setStructCountsFromTree", exc: true, fuel: "treeFuel $2",
		inout: map[string]bool{"w": true}},
	{key: "NewWireSchema", lean: "newWireSchema", exc: true, sigma: "schema", result: "WireSchema"},
}

// ---- translation of one function ----

type pfVal struct {
	lean     string
	typ      string // Go type, pointer star kept
	nullable bool
	src      string // the Go expression (for guards)
}

type pfVar struct {
	lean     string
	typ      string
	inout    bool // a written-through pointer parameter: `lean` holds the pointee
	nullable bool
}

type pfGen struct {
	pkg   *pfPkg
	specs map[string]*pfSpec // by Go key
	lits  []string           // hoisted string literals, by content
	litIx map[string]int
}

type pfTr struct {
	g      *pfGen
	sp     *pfSpec
	fd     *ast.FuncDecl
	rel    string
	vars   map[string]pfVar
	guards map[string]string // Go expression known non-nil -> Lean variable holding the pointee
	gused  map[string]bool
	inouts []string // names, in parameter order
	recur  bool
	tmp    int
	tparam map[string]bool
	elemOf map[string]string // Go expression X[i] of an index loop -> Lean loop element
}

func (t *pfTr) str(n ast.Node) string {
	var sb strings.Builder
	printer.Fprint(&sb, t.g.pkg.fsets[t.rel], n)
	return sb.String()
}

func (t *pfTr) fail(n ast.Node, f string, a ...any) {
	pos := t.g.pkg.fsets[t.rel].Position(n.Pos())
	die("PrintFlow: %s:%d (%s): %s", t.rel, pos.Line, t.sp.key, fmt.Sprintf(f, a...))
}

func (g *pfGen) lit(s string) string {
	if i, ok := g.litIx[s]; ok {
		return fmt.Sprintf("lit_%d", i+1)
	}
	g.litIx[s] = len(g.lits)
	g.lits = append(g.lits, s)
	return fmt.Sprintf("lit_%d", len(g.lits))
}

func pfCharList(s string) string {
	var items []string
	for _, b := range []byte(s) {
		switch {
		case b == '\n':
			items = append(items, `'\n'`)
		case b == '\'' || b == '\\' || b < 32 || b > 126:
			items = append(items, fmt.Sprintf("Char.ofNat %d", b))
		default:
			items = append(items, fmt.Sprintf("'%c'", b))
		}
	}
	return "[" + strings.Join(items, ", ") + "]"
}

func (t *pfTr) leanIdent(n ast.Node, name string) string {
	if name == "_" {
		t.fail(n, "blank identifier used as a value")
	}
	if pfReserved[name] || strings.HasPrefix(name, "lit_") || strings.HasPrefix(name, "r_") || t.g.leanNames()[name] {
		return name + "_"
	}
	return name
}

func (g *pfGen) leanNames() map[string]bool {
	m := map[string]bool{}
	for _, s := range pfSpecs {
		m[s.lean] = true
	}
	return m
}

func (t *pfTr) declare(n ast.Node, name, typ string, nullable bool) string {
	if _, dup := t.vars[name]; dup {
		t.fail(n, "the name %s is declared twice in the function (shadowing is not supported)", name)
	}
	l := t.leanIdent(n, name)
	t.vars[name] = pfVar{lean: l, typ: typ, nullable: nullable}
	return l
}

// structOf: the struct type name a value of Go type typ gives field access to.
func structOf(typ string) string { return strings.TrimPrefix(typ, "*") }

// sel translates X.F.
func (t *pfTr) sel(v *ast.SelectorExpr) pfVal {
	x := t.expr(v.X)
	return t.fieldOf(v, x, v.Sel.Name)
}

func (t *pfTr) fieldOf(n ast.Node, x pfVal, name string) pfVal {
	T := structOf(x.typ)
	key := T + "." + name
	if _, declared := t.g.pkg.fields[key]; !declared {
		// promoted through an embedded field?
		for _, e := range t.g.pkg.embeds[T] {
			if _, ok := t.g.pkg.fields[e+"."+name]; ok {
				return t.fieldOf(n, t.fieldOf(n, x, e), name)
			}
		}
		t.fail(n, "%s has no field %s", T, name)
	}
	fi, ok := pfFields[key]
	if !ok {
		t.fail(n, "field %s is not part of the model (expression %s)", key, t.str(n))
	}
	if got := t.g.pkg.fields[key]; got != fi.goType {
		t.fail(n, "field %s is declared with type %s, the model expects %s", key, got, fi.goType)
	}
	if fi.sigma && t.sp.sigma == "" {
		t.fail(n, "%s follows a pointer into the schema in a function that has no schema", t.str(n))
	}
	obj := t.pointee(n, x)
	return pfVal{lean: fmt.Sprintf(fi.get, pfParen(obj)), typ: fi.goType, nullable: fi.nullable, src: x.src + "." + name}
}

// pointee: the Lean value behind x, which is about to be dereferenced.
func (t *pfTr) pointee(n ast.Node, x pfVal) string {
	if !x.nullable {
		return x.lean
	}
	if g, ok := t.guards[x.src]; ok {
		t.gused[x.src] = true
		return g
	}
	if t.sp.exc {
		return "(← deref " + pfParen(x.lean) + ")"
	}
	t.fail(n, "%s may be nil here: a dereference is only accepted under a guard `%s != nil`", x.src, x.src)
	return ""
}

func (t *pfTr) isPkgCall(ce *ast.CallExpr, pkg, fn string) bool {
	se, ok := ce.Fun.(*ast.SelectorExpr)
	if !ok || se.Sel.Name != fn {
		return false
	}
	id, ok := se.X.(*ast.Ident)
	if !ok || id.Name != pkg {
		return false
	}
	if _, local := t.vars[pkg]; local {
		return false
	}
	return true
}

func (t *pfTr) strLit(e ast.Expr) (string, bool) {
	bl, ok := e.(*ast.BasicLit)
	if !ok || bl.Kind != token.STRING {
		return "", false
	}
	s, err := strconv.Unquote(bl.Value)
	if err != nil {
		t.fail(e, "bad string literal %s", bl.Value)
	}
	return s, true
}

func (t *pfTr) sprintf(ce *ast.CallExpr) pfVal {
	if len(ce.Args) == 0 {
		t.fail(ce, "fmt.Sprintf without a format")
	}
	f, ok := t.strLit(ce.Args[0])
	if !ok {
		t.fail(ce, "fmt.Sprintf with a format that is not a string literal")
	}
	args := ce.Args[1:]
	var parts []string
	lit := ""
	flush := func() {
		if lit != "" {
			parts = append(parts, t.g.lit(lit))
			lit = ""
		}
	}
	for i := 0; i < len(f); i++ {
		if f[i] != '%' {
			lit += string(f[i])
			continue
		}
		if i+1 >= len(f) {
			t.fail(ce, "format ends with %%")
		}
		i++
		switch f[i] {
		case '%':
			lit += "%"
		case 's', 'd':
			if len(args) == 0 {
				t.fail(ce, "format %q has more verbs than arguments", f)
			}
			a := t.expr(args[0])
			args = args[1:]
			flush()
			if f[i] == 's' {
				if a.typ != "string" {
					t.fail(ce, "%%s of a value of type %s", a.typ)
				}
				parts = append(parts, a.lean)
			} else {
				if a.typ != "uint64" {
					t.fail(ce, "%%d of a value of type %s (only uint64 is modelled)", a.typ)
				}
				parts = append(parts, "fmtUint "+pfParen(a.lean))
			}
		default:
			t.fail(ce, "format verb %%%c is not supported", f[i])
		}
	}
	flush()
	if len(args) != 0 {
		t.fail(ce, "format %q has fewer verbs than arguments", f)
	}
	if len(parts) == 0 {
		return pfVal{lean: "([] : Name)", typ: "string"}
	}
	return pfVal{lean: pfConcat(parts), typ: "string"}
}

func pfConcat(parts []string) string {
	for i, p := range parts {
		if strings.Contains(p, " ") && !(strings.HasPrefix(p, "(") && pfClosesAtEnd(p)) && !strings.Contains(p, "++") {
			parts[i] = "(" + p + ")"
		}
	}
	return strings.Join(parts, " ++ ")
}

func (t *pfTr) expr(e ast.Expr) pfVal {
	switch v := e.(type) {
	case *ast.ParenExpr:
		return t.expr(v.X)
	case *ast.BasicLit:
		if s, ok := t.strLit(v); ok {
			return pfVal{lean: t.g.lit(s), typ: "string"}
		}
		t.fail(e, "literal %s is not supported", v.Value)
	case *ast.Ident:
		if lv, ok := t.vars[v.Name]; ok {
			return pfVal{lean: lv.lean, typ: lv.typ, nullable: lv.nullable, src: v.Name}
		}
		t.fail(e, "identifier %s is not a local of the function", v.Name)
	case *ast.SelectorExpr:
		return t.sel(v)
	case *ast.UnaryExpr:
		if v.Op == token.AND {
			x := t.expr(v.X)
			if x.nullable {
				t.fail(e, "address of a possibly nil pointer")
			}
			return pfVal{lean: x.lean, typ: "*" + x.typ, src: x.src}
		}
		t.fail(e, "unary operator %s is not supported here", v.Op)
	case *ast.StarExpr:
		id, ok := v.X.(*ast.Ident)
		if ok {
			if lv, ok := t.vars[id.Name]; ok && lv.inout {
				return pfVal{lean: lv.lean, typ: strings.TrimPrefix(lv.typ, "*"), src: "*" + id.Name}
			}
		}
		t.fail(e, "dereference %s: only `*p` of a written-through pointer parameter is supported", t.str(e))
	case *ast.BinaryExpr:
		if v.Op == token.ADD {
			l, r := t.expr(v.X), t.expr(v.Y)
			if l.typ != "string" || r.typ != "string" {
				t.fail(e, "`+` on %s and %s (only string concatenation is supported)", l.typ, r.typ)
			}
			return pfVal{lean: pfConcat([]string{l.lean, r.lean}), typ: "string"}
		}
		t.fail(e, "operator %s is not supported in a value", v.Op)
	case *ast.IndexExpr:
		if el, ok := t.elemOf[t.str(e)]; ok {
			return pfVal{lean: el, typ: t.vars[el].typ, src: t.str(e)}
		}
		m := t.expr(v.X)
		k := t.expr(v.Index)
		if strings.HasPrefix(m.typ, "map[string]*") && k.typ == "string" {
			return pfVal{lean: "mapGet " + pfParen(m.lean) + " " + pfParen(k.lean), typ: m.typ[len("map[string]"):],
				nullable: true, src: t.str(e)}
		}
		t.fail(e, "index expression %s (only m[k] of a map[string]*T is a value)", t.str(e))
	case *ast.CompositeLit:
		return t.composite(v)
	case *ast.CallExpr:
		return t.callExpr(v)
	}
	t.fail(e, "expression %s (%T) is not supported", t.str(e), e)
	return pfVal{}
}

func (t *pfTr) composite(v *ast.CompositeLit) pfVal {
	ts := pfTypeStr(v.Type)
	switch {
	case strings.HasPrefix(ts, "[]"):
		if len(v.Elts) != 0 {
			t.fail(v, "slice literal with elements")
		}
		return pfVal{lean: "[]", typ: ts}
	case ts == "map[string]bool":
		if len(v.Elts) != 0 {
			t.fail(v, "map literal with elements")
		}
		return pfVal{lean: "[]", typ: ts}
	case ts == "structCountTree" || ts == "recurseStack" || ts == "WireSchema":
		vals := map[string]string{}
		for _, el := range v.Elts {
			kv, ok := el.(*ast.KeyValueExpr)
			if !ok {
				t.fail(v, "positional composite literal")
			}
			k, ok := kv.Key.(*ast.Ident)
			if !ok {
				t.fail(v, "composite literal key")
			}
			fi, ok := pfFields[ts+"."+k.Name]
			if !ok {
				t.fail(kv, "field %s.%s is not part of the model", ts, k.Name)
			}
			if got := t.g.pkg.fields[ts+"."+k.Name]; got != fi.goType {
				t.fail(kv, "field %s.%s is declared with type %s, the model expects %s", ts, k.Name, got, fi.goType)
			}
			x := t.expr(kv.Value)
			if x.typ != fi.goType {
				t.fail(kv, "value of type %s for the field %s.%s of type %s", x.typ, ts, k.Name, fi.goType)
			}
			if _, dup := vals[k.Name]; dup {
				t.fail(kv, "field given twice")
			}
			vals[k.Name] = x.lean
		}
		get := func(f, zero string) string {
			if s, ok := vals[f]; ok {
				return pfParen(s)
			}
			return zero
		}
		switch ts {
		case "structCountTree":
			return pfVal{lean: "StructCountTree.mk " + get("structName", "[]") + " " + get("fieldCount", "0") + " " +
				get("structFields", "[]"), typ: ts}
		case "recurseStack":
			return pfVal{lean: "({ asStack := " + get("asStack", "[]") + ", asMap := " + get("asMap", "[]") + " } : RecurseStack)", typ: ts}
		default:
			return pfVal{lean: "({ structCounts := " + get("structCounts", "[]") + " } : WireSchemaV)", typ: ts}
		}
	}
	t.fail(v, "composite literal of type %s is not supported", ts)
	return pfVal{}
}

func (t *pfTr) callExpr(ce *ast.CallExpr) pfVal {
	switch {
	case t.isPkgCall(ce, "fmt", "Sprintf"):
		return t.sprintf(ce)
	case t.isPkgCall(ce, "strings", "Join"):
		if len(ce.Args) != 2 {
			t.fail(ce, "strings.Join arity")
		}
		a, b := t.expr(ce.Args[0]), t.expr(ce.Args[1])
		if a.typ != "[]string" || b.typ != "string" {
			t.fail(ce, "strings.Join(%s, %s)", a.typ, b.typ)
		}
		return pfVal{lean: "stringsJoin " + pfParen(a.lean) + " " + pfParen(b.lean), typ: "string"}
	}
	if id, ok := ce.Fun.(*ast.Ident); ok {
		if _, local := t.vars[id.Name]; local {
			t.fail(ce, "call of the local %s", id.Name)
		}
		switch id.Name {
		case "uint":
			// uint(len(x))
			if len(ce.Args) == 1 {
				if in, ok := ce.Args[0].(*ast.CallExpr); ok {
					if lid, ok := in.Fun.(*ast.Ident); ok && lid.Name == "len" && len(in.Args) == 1 {
						x := t.expr(in.Args[0])
						if !strings.HasPrefix(x.typ, "[]") {
							t.fail(ce, "len of a value of type %s", x.typ)
						}
						return pfVal{lean: pfParen(x.lean) + ".length", typ: "uint"}
					}
				}
			}
			t.fail(ce, "conversion %s (only uint(len(slice)) is supported)", t.str(ce))
		}
		if sp, ok := t.g.specs[id.Name]; ok {
			if sp.exc || len(sp.inout) > 0 {
				t.fail(ce, "call of %s inside an expression (it writes through pointers: statement form only)", id.Name)
			}
			callee := t.g.pkg.funcs[sp.key]
			params := pfParams(callee)
			if len(params) != len(ce.Args) {
				t.fail(ce, "arity of %s", id.Name)
			}
			var args []string
			for i, a := range ce.Args {
				x := t.expr(a)
				if x.nullable {
					t.fail(a, "possibly nil pointer passed to %s", id.Name)
				}
				if !pfAssignable(x.typ, params[i].typ) {
					t.fail(a, "argument of type %s for the parameter %s %s of %s", x.typ, params[i].name, params[i].typ, id.Name)
				}
				args = append(args, pfParen(x.lean))
			}
			res := sp.result
			if sp.key == "sortedList" {
				// instantiate T from the argument's map type
				at := t.expr(ce.Args[0]).typ
				res = "[]" + at[len("map[string]"):]
			}
			return pfVal{lean: sp.lean + " " + strings.Join(args, " "), typ: res}
		}
		t.fail(ce, "call of %s is not supported", id.Name)
	}
	t.fail(ce, "call %s is not supported", t.str(ce))
	return pfVal{}
}

// pfAssignable: argument type a for parameter type p (generic map parameter accepts every map[string]*X).
func pfAssignable(a, p string) bool {
	if a == p {
		return true
	}
	if p == "map[string]*T" && strings.HasPrefix(a, "map[string]*") {
		return true
	}
	return false
}

type pfParam struct{ name, typ string }

func pfParams(fd *ast.FuncDecl) []pfParam {
	var out []pfParam
	for _, fl := range fd.Type.Params.List {
		ts := pfTypeStr(fl.Type)
		if len(fl.Names) == 0 {
			die("PrintFlow: unnamed parameter in %s", fd.Name.Name)
		}
		for _, n := range fl.Names {
			out = append(out, pfParam{n.Name, ts})
		}
	}
	return out
}

// cond translates a condition to a decidable Lean proposition.
func (t *pfTr) cond(e ast.Expr) string {
	switch v := e.(type) {
	case *ast.ParenExpr:
		return "(" + t.cond(v.X) + ")"
	case *ast.UnaryExpr:
		if v.Op == token.NOT {
			return "¬ " + pfParen(t.cond(v.X))
		}
	case *ast.BinaryExpr:
		switch v.Op {
		case token.LAND:
			return pfParen(t.cond(v.X)) + " ∧ " + pfParen(t.cond(v.Y))
		case token.LOR:
			return pfParen(t.cond(v.X)) + " ∨ " + pfParen(t.cond(v.Y))
		case token.EQL, token.NEQ:
			op := " = "
			if v.Op == token.NEQ {
				op = " ≠ "
			}
			if id, ok := v.Y.(*ast.Ident); ok && id.Name == "nil" {
				if _, local := t.vars["nil"]; !local {
					x := t.expr(v.X)
					if !x.nullable {
						t.fail(e, "%s compared with nil: it is not a possibly nil pointer of the model", t.str(v.X))
					}
					return x.lean + op + "none"
				}
			}
			l := t.expr(v.X)
			rl, rt := "[]", "string"
			if s, ok := t.strLit(v.Y); !ok || s != "" {
				r := t.expr(v.Y)
				rl, rt = r.lean, r.typ
			}
			if l.typ != "string" || rt != "string" {
				t.fail(e, "comparison of %s and %s (only strings and nil tests are supported)", l.typ, rt)
			}
			return l.lean + op + rl
		}
	case *ast.IndexExpr:
		m := t.expr(v.X)
		if m.typ == "map[string]bool" {
			k := t.expr(v.Index)
			if k.typ != "string" {
				t.fail(e, "map key of type %s", k.typ)
			}
			return "setGet " + pfParen(m.lean) + " " + pfParen(k.lean) + " = true"
		}
	case *ast.SelectorExpr, *ast.Ident:
		x := t.expr(e)
		if x.typ == "bool" {
			return x.lean + " = true"
		}
	}
	t.fail(e, "condition %s is not supported", t.str(e))
	return ""
}

// nilGuard: cond is exactly `X != nil` for a possibly nil X.
func (t *pfTr) nilGuard(e ast.Expr) (pfVal, bool) {
	be, ok := e.(*ast.BinaryExpr)
	if !ok || be.Op != token.NEQ {
		return pfVal{}, false
	}
	id, ok := be.Y.(*ast.Ident)
	if !ok || id.Name != "nil" {
		return pfVal{}, false
	}
	x := t.expr(be.X)
	if !x.nullable {
		return pfVal{}, false
	}
	return x, true
}

func pfIndent(lines []string) []string {
	out := make([]string, len(lines))
	for i, l := range lines {
		out[i] = "  " + l
	}
	return out
}

func (t *pfTr) retLine(vals ...string) string {
	all := append([]string{}, vals...)
	for _, n := range t.inouts {
		all = append(all, t.vars[n].lean)
	}
	switch len(all) {
	case 0:
		return "return ()"
	case 1:
		return "return " + all[0]
	}
	return "return (" + strings.Join(all, ", ") + ")"
}

// guarded translates `if X != nil { body }` / `case X != nil:`: head line and body, binding the pointee.
func (t *pfTr) guarded(kw string, x pfVal, body []ast.Stmt) []string {
	name := strings.NewReplacer(".", "_", "*", "", "[", "_", "]", "", " ", "").Replace(x.src)
	if _, dup := t.guards[x.src]; dup {
		t.fail(body[0], "nested guard on %s", x.src)
	}
	if _, clash := t.vars[name]; clash {
		die("PrintFlow: the guard variable %s clashes with a local", name)
	}
	t.guards[x.src] = name
	t.gused[x.src] = false
	lines := t.block(body)
	used := t.gused[x.src]
	delete(t.guards, x.src)
	if used {
		return append([]string{kw + " let some " + name + " := " + x.lean + " then"}, pfIndent(lines)...)
	}
	return append([]string{kw + " " + x.lean + " ≠ none then"}, pfIndent(lines)...)
}

// block translates the statements of one Go block; the locals it declares go out of scope at its end.
func (t *pfTr) block(list []ast.Stmt) []string {
	before := map[string]bool{}
	for n := range t.vars {
		before[n] = true
	}
	defer func() {
		for n := range t.vars {
			if !before[n] {
				delete(t.vars, n)
			}
		}
	}()
	var out []string
	for i := 0; i < len(list); i++ {
		s := list[i]
		// for k := range m { names = append(names, k) } ; sort.Strings(names)
		if rs, ok := s.(*ast.RangeStmt); ok && rs.Value == nil && rs.Key != nil {
			x := t.expr(rs.X)
			if strings.HasPrefix(x.typ, "map[") {
				if i+1 >= len(list) {
					t.fail(s, "range over a map (unspecified order) that is not followed by sort.Strings of the collected keys")
				}
				out = append(out, t.rangeMapKeys(rs, x, list[i+1])...)
				continue
			}
		}
		out = append(out, t.stmt(s)...)
		if _, isRet := s.(*ast.ReturnStmt); isRet && i != len(list)-1 {
			t.fail(list[i+1], "statement after return")
		}
	}
	if len(out) == 0 {
		out = []string{"pure ()"}
	}
	return out
}

func (t *pfTr) rangeMapKeys(rs *ast.RangeStmt, m pfVal, next ast.Stmt) []string {
	if !strings.HasPrefix(m.typ, "map[string]*") {
		t.fail(rs, "range over a map of type %s", m.typ)
	}
	k, ok := rs.Key.(*ast.Ident)
	if !ok || rs.Tok != token.DEFINE {
		t.fail(rs, "range key")
	}
	if len(rs.Body.List) != 1 {
		t.fail(rs, "range over a map: the body must be exactly `s = append(s, key)`")
	}
	as, ok := rs.Body.List[0].(*ast.AssignStmt)
	if !ok || as.Tok != token.ASSIGN || len(as.Lhs) != 1 || len(as.Rhs) != 1 {
		t.fail(rs, "range over a map: the body must be exactly `s = append(s, key)`")
	}
	dst, ok := as.Lhs[0].(*ast.Ident)
	ce, ok2 := as.Rhs[0].(*ast.CallExpr)
	if !ok || !ok2 || !pfIsIdent(ce.Fun, "append") || len(ce.Args) != 2 || !pfIsIdent(ce.Args[0], dst.Name) || !pfIsIdent(ce.Args[1], k.Name) {
		t.fail(rs, "range over a map: the body must be exactly `s = append(s, key)`")
	}
	// the next statement must sort that slice
	es, ok := next.(*ast.ExprStmt)
	sorted := false
	if ok {
		if sc, ok := es.X.(*ast.CallExpr); ok && t.isPkgCall(sc, "sort", "Strings") && len(sc.Args) == 1 && pfIsIdent(sc.Args[0], dst.Name) {
			sorted = true
		}
	}
	if !sorted {
		t.fail(rs, "range over a map (unspecified order): the keys collected in %s must be sorted by the next statement (sort.Strings(%s))", dst.Name, dst.Name)
	}
	dv, ok := t.vars[dst.Name]
	if !ok || dv.typ != "[]string" {
		t.fail(rs, "keys are collected in %s which is not a []string local", dst.Name)
	}
	kl := t.declare(rs, k.Name, "string", false)
	defer delete(t.vars, k.Name)
	return append([]string{"for " + kl + " in mapKeys " + pfParen(m.lean) + " do"},
		"  "+dv.lean+" := "+dv.lean+" ++ ["+kl+"]")
}

// lvalue: a local (or the pointee of an in/out parameter), optionally one field deep.
func (t *pfTr) assignTo(n ast.Node, lhs ast.Expr, val string, valTyp string) []string {
	switch v := lhs.(type) {
	case *ast.Ident:
		lv, ok := t.vars[v.Name]
		if !ok {
			t.fail(n, "assignment to %s which is not a local", v.Name)
		}
		if lv.inout {
			t.fail(n, "assignment to the pointer parameter %s itself", v.Name)
		}
		if valTyp != "" && valTyp != lv.typ {
			t.fail(n, "assignment of a %s to %s of type %s", valTyp, v.Name, lv.typ)
		}
		return []string{lv.lean + " := " + val}
	case *ast.StarExpr:
		id, ok := v.X.(*ast.Ident)
		if ok {
			if lv, ok := t.vars[id.Name]; ok && lv.inout {
				if valTyp != "" && valTyp != strings.TrimPrefix(lv.typ, "*") {
					t.fail(n, "assignment of a %s through %s of type %s", valTyp, id.Name, lv.typ)
				}
				return []string{lv.lean + " := " + val}
			}
		}
	case *ast.SelectorExpr:
		id, ok := v.X.(*ast.Ident)
		if ok {
			lv, ok := t.vars[id.Name]
			if !ok {
				t.fail(n, "assignment to a field of %s which is not a local", id.Name)
			}
			if strings.HasPrefix(lv.typ, "*") && !lv.inout {
				t.fail(n, "write through the pointer %s, which is not declared as written-through in the generator's spec", id.Name)
			}
			key := structOf(lv.typ) + "." + v.Sel.Name
			fi, ok := pfFields[key]
			if !ok || fi.set == "" {
				t.fail(n, "assignment to the field %s is not part of the model", key)
			}
			if got := t.g.pkg.fields[key]; got != fi.goType {
				t.fail(n, "field %s is declared with type %s, the model expects %s", key, got, fi.goType)
			}
			if valTyp != "" && valTyp != fi.goType {
				t.fail(n, "assignment of a %s to the field %s of type %s", valTyp, key, fi.goType)
			}
			return []string{lv.lean + " := " + fmt.Sprintf(fi.set, lv.lean, pfParen(val))}
		}
	}
	t.fail(n, "assignment target %s is not supported", t.str(lhs))
	return nil
}

func (t *pfTr) sameExpr(a, b ast.Expr) bool { return t.str(a) == t.str(b) }

func (t *pfTr) stmt(s ast.Stmt) []string {
	switch v := s.(type) {
	case *ast.DeclStmt:
		gd, ok := v.Decl.(*ast.GenDecl)
		if !ok || gd.Tok != token.VAR || len(gd.Specs) != 1 {
			t.fail(s, "declaration %s", t.str(s))
		}
		vs := gd.Specs[0].(*ast.ValueSpec)
		if len(vs.Names) != 1 || len(vs.Values) != 0 || vs.Type == nil {
			t.fail(s, "declaration %s (only `var x T`)", t.str(s))
		}
		ts := pfTypeStr(vs.Type)
		zero := ""
		switch {
		case ts == "string" || strings.HasPrefix(ts, "[]"):
			zero = "[]"
		default:
			t.fail(s, "`var %s %s`: no zero value in the model", vs.Names[0].Name, ts)
		}
		l := t.declare(s, vs.Names[0].Name, ts, false)
		return []string{"let mut " + l + " : " + pfLeanTypeOf(ts) + " := " + zero}
	case *ast.AssignStmt:
		return t.assign(v)
	case *ast.IfStmt:
		return t.ifStmt(v)
	case *ast.SwitchStmt:
		return t.switchStmt(v)
	case *ast.RangeStmt:
		return t.rangeStmt(v)
	case *ast.ReturnStmt:
		if t.sp.result == "" {
			if len(v.Results) != 0 {
				t.fail(s, "return with a value")
			}
			return []string{t.retLine()}
		}
		if len(v.Results) != 1 {
			t.fail(s, "return with %d values", len(v.Results))
		}
		x := t.expr(v.Results[0])
		if x.nullable {
			t.fail(s, "return of a possibly nil pointer")
		}
		want := t.sp.result
		if x.typ != want {
			t.fail(s, "return of a %s from a function returning %s", x.typ, want)
		}
		return []string{t.retLine(x.lean)}
	case *ast.ExprStmt:
		ce, ok := v.X.(*ast.CallExpr)
		if !ok {
			t.fail(s, "expression statement %s", t.str(s))
		}
		return t.callStmt(ce)
	}
	t.fail(s, "statement %s (%T) is not supported", t.str(s), s)
	return nil
}

func (t *pfTr) assign(v *ast.AssignStmt) []string {
	if len(v.Lhs) != 1 || len(v.Rhs) != 1 {
		t.fail(v, "assignment with several values: %s", t.str(v))
	}
	lhs, rhs := v.Lhs[0], v.Rhs[0]
	switch v.Tok {
	case token.DEFINE:
		id, ok := lhs.(*ast.Ident)
		if !ok {
			t.fail(v, "definition target")
		}
		x := t.expr(rhs)
		typ := x.typ
		if _, isAddr := rhs.(*ast.UnaryExpr); isAddr {
			t.fail(v, "a local pointer (%s) is not supported", t.str(v))
		}
		l := t.declare(v, id.Name, typ, x.nullable)
		kw := "let "
		if t.assigned(id.Name) {
			kw = "let mut "
		}
		return []string{kw + l + " := " + x.lean}
	case token.ADD_ASSIGN:
		cur := t.expr(lhs)
		x := t.expr(rhs)
		if cur.typ != "string" || x.typ != "string" {
			t.fail(v, "`+=` on %s and %s (only strings)", cur.typ, x.typ)
		}
		return t.assignTo(v, lhs, pfConcat([]string{cur.lean, x.lean}), "string")
	case token.ASSIGN:
		// m[k] = true
		if ix, ok := lhs.(*ast.IndexExpr); ok {
			m := t.expr(ix.X)
			if m.typ != "map[string]bool" {
				t.fail(v, "indexed store into a %s", m.typ)
			}
			if !pfIsIdent(rhs, "true") {
				t.fail(v, "store of %s into a map[string]bool (only `true` is modelled)", t.str(rhs))
			}
			k := t.expr(ix.Index)
			if k.typ != "string" {
				t.fail(v, "map key of type %s", k.typ)
			}
			return t.assignTo(v, ix.X, "setTrue "+pfParen(m.lean)+" "+pfParen(k.lean), "map[string]bool")
		}
		// x = append(x, e)
		if ce, ok := rhs.(*ast.CallExpr); ok && pfIsIdent(ce.Fun, "append") {
			if _, local := t.vars["append"]; local {
				t.fail(v, "append is a local")
			}
			if len(ce.Args) != 2 || ce.Ellipsis.IsValid() {
				t.fail(v, "append with %d arguments", len(ce.Args))
			}
			if !t.sameExpr(lhs, ce.Args[0]) {
				t.fail(v, "%s: append must extend the slice it is assigned to", t.str(v))
			}
			cur := t.expr(ce.Args[0])
			if !strings.HasPrefix(cur.typ, "[]") {
				t.fail(v, "append to a %s", cur.typ)
			}
			el := t.expr(ce.Args[1])
			elemT := cur.typ[2:]
			if el.nullable {
				if _, isIdx := ce.Args[1].(*ast.IndexExpr); !isIdx || el.typ != elemT {
					t.fail(v, "append of a possibly nil %s to a %s", el.typ, cur.typ)
				}
				return t.assignTo(v, lhs, "appendPtr "+pfParen(cur.lean)+" "+pfParen(el.lean), cur.typ)
			}
			if el.typ != elemT {
				t.fail(v, "append of a %s to a %s", el.typ, cur.typ)
			}
			return t.assignTo(v, lhs, cur.lean+" ++ ["+el.lean+"]", cur.typ)
		}
		// x.f = x.f[:len(x.f)-1]
		if se, ok := rhs.(*ast.SliceExpr); ok {
			okForm := se.Low == nil && se.High != nil && !se.Slice3 && t.sameExpr(se.X, lhs)
			if okForm {
				be, ok := se.High.(*ast.BinaryExpr)
				okForm = ok && be.Op == token.SUB
				if okForm {
					one, ok1 := be.Y.(*ast.BasicLit)
					lc, ok2 := be.X.(*ast.CallExpr)
					okForm = ok1 && ok2 && one.Value == "1" && pfIsIdent(lc.Fun, "len") && len(lc.Args) == 1 && t.sameExpr(lc.Args[0], lhs)
				}
			}
			if !okForm {
				t.fail(v, "slice expression %s (only x = x[:len(x)-1])", t.str(rhs))
			}
			if !t.sp.exc {
				t.fail(v, "slicing can panic: not supported in a pure function")
			}
			cur := t.expr(lhs)
			return t.assignTo(v, lhs, "(← dropLastE "+pfParen(cur.lean)+")", cur.typ)
		}
		x := t.expr(rhs)
		if x.nullable {
			t.fail(v, "assignment of a possibly nil pointer")
		}
		return t.assignTo(v, lhs, x.lean, x.typ)
	}
	t.fail(v, "assignment operator %s is not supported", v.Tok)
	return nil
}

// assigned: the local `name` is assigned after its declaration somewhere in the function.
func (t *pfTr) assigned(name string) bool {
	found := false
	ast.Inspect(t.fd.Body, func(n ast.Node) bool {
		switch v := n.(type) {
		case *ast.AssignStmt:
			if v.Tok == token.DEFINE {
				return true
			}
			for _, l := range v.Lhs {
				root := l
				for {
					switch r := root.(type) {
					case *ast.SelectorExpr:
						root = r.X
						continue
					case *ast.IndexExpr:
						root = r.X
						continue
					case *ast.StarExpr:
						root = r.X
						continue
					}
					break
				}
				if pfIsIdent(root, name) {
					found = true
				}
			}
		case *ast.IncDecStmt:
			found = found || pfCountIdent(v.X, name) > 0
		case *ast.UnaryExpr:
			if v.Op == token.AND && pfCountIdent(v.X, name) > 0 {
				found = true
			}
		case *ast.CallExpr:
			// method call on the local with a pointer receiver, delete(x.m, ..)
			if se, ok := v.Fun.(*ast.SelectorExpr); ok && pfIsIdent(se.X, name) {
				found = true
			}
			if pfIsIdent(v.Fun, "delete") && len(v.Args) > 0 && pfCountIdent(v.Args[0], name) > 0 {
				found = true
			}
		}
		return true
	})
	return found
}

// pfRoot: the identifier an lvalue / address expression is rooted at ("" if none).
func pfRoot(e ast.Expr) string {
	for {
		switch r := e.(type) {
		case *ast.SelectorExpr:
			e = r.X
		case *ast.IndexExpr:
			e = r.X
		case *ast.StarExpr:
			e = r.X
		case *ast.ParenExpr:
			e = r.X
		case *ast.UnaryExpr:
			if r.Op != token.AND {
				return ""
			}
			e = r.X
		case *ast.Ident:
			return r.Name
		default:
			return ""
		}
	}
}

// writes: the statements of body write the local `name` (or what it points to): an assignment rooted at it, a
// delete on one of its maps, or its address / the pointer itself passed in a written-through position of a
// translated function.
func (t *pfTr) writes(body ast.Node, name string) bool {
	found := false
	ast.Inspect(body, func(n ast.Node) bool {
		switch v := n.(type) {
		case *ast.AssignStmt:
			if v.Tok != token.DEFINE {
				for _, l := range v.Lhs {
					found = found || pfRoot(l) == name
				}
			}
		case *ast.CallExpr:
			if pfIsIdent(v.Fun, "delete") && len(v.Args) > 0 && pfRoot(v.Args[0]) == name {
				found = true
			}
			var sp *pfSpec
			var actual []ast.Expr
			if id, ok := v.Fun.(*ast.Ident); ok {
				if s, ok := t.g.specs[id.Name]; ok && s.key == id.Name {
					sp, actual = s, v.Args
				}
			} else if se, ok := v.Fun.(*ast.SelectorExpr); ok {
				for _, s := range t.g.specs {
					if i := strings.Index(s.key, "."); i >= 0 && s.key[i+1:] == se.Sel.Name {
						sp, actual = s, append([]ast.Expr{se.X}, v.Args...)
					}
				}
			}
			if sp != nil {
				callee := t.g.pkg.funcs[sp.key]
				var params []pfParam
				if callee.Recv != nil && len(callee.Recv.List[0].Names) == 1 {
					params = append(params, pfParam{callee.Recv.List[0].Names[0].Name, ""})
				}
				params = append(params, pfParams(callee)...)
				for i, p := range params {
					if i < len(actual) && sp.inout[p.name] && pfRoot(actual[i]) == name {
						found = true
					}
				}
			}
		}
		return true
	})
	return found
}

func (t *pfTr) ifStmt(v *ast.IfStmt) []string {
	var out []string
	if v.Init != nil {
		as, ok := v.Init.(*ast.AssignStmt)
		if !ok || as.Tok != token.DEFINE {
			t.fail(v, "if-initializer %s (only x := e)", t.str(v.Init))
		}
		out = append(out, t.assign(as)...)
		// the scope of the variable is the if statement (in Lean the `let` stays visible, which is harmless:
		// a name can only be declared when no visible local has it)
		defer delete(t.vars, as.Lhs[0].(*ast.Ident).Name)
	}
	return append(out, t.ifChain("if", v.Cond, v.Body.List, v.Else)...)
}

func (t *pfTr) ifChain(kw string, cond ast.Expr, body []ast.Stmt, els ast.Stmt) []string {
	var out []string
	if x, ok := t.nilGuard(cond); ok {
		out = t.guarded(kw, x, body)
	} else {
		out = append([]string{kw + " " + t.cond(cond) + " then"}, pfIndent(t.block(body))...)
	}
	switch e := els.(type) {
	case nil:
	case *ast.BlockStmt:
		out = append(out, "else")
		out = append(out, pfIndent(t.block(e.List))...)
	case *ast.IfStmt:
		if e.Init != nil {
			t.fail(e, "else-if with an initializer")
		}
		out = append(out, t.ifChain("else if", e.Cond, e.Body.List, e.Else)...)
	default:
		t.fail(els, "else branch")
	}
	return out
}

func (t *pfTr) switchStmt(v *ast.SwitchStmt) []string {
	if v.Init != nil {
		t.fail(v, "switch with an initializer")
	}
	var clauses []*ast.CaseClause
	for _, c := range v.Body.List {
		cc := c.(*ast.CaseClause)
		for _, s := range cc.Body {
			if bs, ok := s.(*ast.BranchStmt); ok {
				t.fail(bs, "%s in a switch", bs.Tok)
			}
		}
		clauses = append(clauses, cc)
	}
	if v.Tag != nil {
		tag := t.expr(v.Tag)
		if tag.typ != "PrimitiveFieldType" {
			t.fail(v, "switch on a value of type %s (only X.Primitive.Type)", tag.typ)
		}
		out := []string{"match " + tag.lean + " with"}
		seen := map[string]bool{}
		hasDefault := false
		for i, cc := range clauses {
			if cc.List == nil {
				if i != len(clauses)-1 {
					t.fail(cc, "default clause that is not the last one")
				}
				hasDefault = true
				out = append(out, "| _ =>")
				out = append(out, pfIndent(t.block(cc.Body))...)
				continue
			}
			var pats []string
			for _, ce := range cc.List {
				id, ok := ce.(*ast.Ident)
				if !ok || pfPrimLean[id.Name] == "" {
					t.fail(ce, "case %s is not a constant of PrimitiveFieldType", t.str(ce))
				}
				if _, local := t.vars[id.Name]; local {
					t.fail(ce, "case %s is a local", id.Name)
				}
				if seen[id.Name] {
					t.fail(ce, "case %s twice", id.Name)
				}
				seen[id.Name] = true
				pats = append(pats, pfPrimLean[id.Name])
			}
			out = append(out, "| "+strings.Join(pats, " | ")+" =>")
			out = append(out, pfIndent(t.block(cc.Body))...)
		}
		if !hasDefault && len(seen) < len(pfPrimConsts) {
			out = append(out, "| _ =>", "  pure ()")
		}
		return out
	}
	// tagless: an if / else-if chain in clause order
	var out []string
	kw := "if"
	for i, cc := range clauses {
		if cc.List == nil {
			if i != len(clauses)-1 {
				t.fail(cc, "default clause that is not the last one")
			}
			if i == 0 {
				return t.block(cc.Body)
			}
			out = append(out, "else")
			out = append(out, pfIndent(t.block(cc.Body))...)
			continue
		}
		if len(cc.List) != 1 {
			t.fail(cc, "case with several conditions")
		}
		if x, ok := t.nilGuard(cc.List[0]); ok {
			if len(cc.Body) == 0 {
				out = append(out, kw+" "+x.lean+" ≠ none then", "  pure ()")
			} else {
				out = append(out, t.guarded(kw, x, cc.Body)...)
			}
		} else {
			out = append(out, kw+" "+t.cond(cc.List[0])+" then")
			out = append(out, pfIndent(t.block(cc.Body))...)
		}
		kw = "else if"
	}
	return out
}

func (t *pfTr) rangeStmt(v *ast.RangeStmt) []string {
	if v.Tok != token.DEFINE {
		t.fail(v, "range without :=")
	}
	x := t.expr(v.X)
	if x.nullable {
		t.fail(v, "range over a possibly nil pointer")
	}
	if !strings.HasPrefix(x.typ, "[]") {
		t.fail(v, "range over a value of type %s", x.typ)
	}
	elemT := x.typ[2:]
	// the ranged expression must not be written in the body
	root := v.X
	for {
		if se, ok := root.(*ast.SelectorExpr); ok {
			root = se.X
			continue
		}
		break
	}
	if id, ok := root.(*ast.Ident); ok {
		if t.writes(v.Body, id.Name) {
			t.fail(v, "the loop body writes %s, which the loop ranges over", id.Name)
		}
	}
	if v.Value != nil {
		if v.Key != nil && !pfIsIdent(v.Key, "_") {
			t.fail(v, "range with both index and value")
		}
		id, ok := v.Value.(*ast.Ident)
		if !ok {
			t.fail(v, "range value")
		}
		l := t.declare(v, id.Name, elemT, false)
		defer delete(t.vars, id.Name)
		return append([]string{"for " + l + " in " + x.lean + " do"}, pfIndent(t.block(v.Body.List))...)
	}
	// for i := range X: i only as X[i]
	id, ok := v.Key.(*ast.Ident)
	if !ok {
		t.fail(v, "range key")
	}
	xs := t.str(v.X)
	uses, okUses := 0, 0
	ast.Inspect(v.Body, func(n ast.Node) bool {
		if ix, ok := n.(*ast.IndexExpr); ok && t.str(ix.X) == xs && pfIsIdent(ix.Index, id.Name) {
			okUses++
		}
		if i2, ok := n.(*ast.Ident); ok && i2.Name == id.Name {
			uses++
		}
		return true
	})
	if uses != okUses {
		t.fail(v, "the index %s of `for %s := range %s` is used other than as %s[%s]", id.Name, id.Name, xs, xs, id.Name)
	}
	elem := strings.NewReplacer(".", "_").Replace(xs) + "_" + id.Name
	if _, clash := t.vars[elem]; clash {
		t.fail(v, "name clash for the loop element %s", elem)
	}
	t.vars[elem] = pfVar{lean: elem, typ: elemT}
	t.vars[id.Name] = pfVar{lean: "?", typ: "int"}
	t.elemOf[xs+"["+id.Name+"]"] = elem
	lines := t.block(v.Body.List)
	delete(t.elemOf, xs+"["+id.Name+"]")
	delete(t.vars, elem)
	delete(t.vars, id.Name)
	return append([]string{"for " + elem + " in " + x.lean + " do"}, pfIndent(lines)...)
}

// callStmt: sort.Strings(x), delete(x.m, k), panic("..") and calls of translated functions that write through pointers.
func (t *pfTr) callStmt(ce *ast.CallExpr) []string {
	if t.isPkgCall(ce, "sort", "Strings") {
		if len(ce.Args) != 1 {
			t.fail(ce, "sort.Strings arity")
		}
		x := t.expr(ce.Args[0])
		if x.typ != "[]string" {
			t.fail(ce, "sort.Strings of a %s", x.typ)
		}
		return t.assignTo(ce, ce.Args[0], "sortStrings "+pfParen(x.lean), "[]string")
	}
	if id, ok := ce.Fun.(*ast.Ident); ok {
		if _, local := t.vars[id.Name]; local {
			t.fail(ce, "call of the local %s", id.Name)
		}
		switch id.Name {
		case "panic":
			if !t.sp.exc {
				t.fail(ce, "panic in a pure function")
			}
			s, ok := "", false
			if len(ce.Args) == 1 {
				s, ok = t.strLit(ce.Args[0])
			}
			if !ok {
				t.fail(ce, "panic with something else than a string literal")
			}
			return []string{"throw (.panic " + t.g.lit(s) + ")"}
		case "delete":
			if len(ce.Args) != 2 {
				t.fail(ce, "delete arity")
			}
			m := t.expr(ce.Args[0])
			k := t.expr(ce.Args[1])
			if m.typ != "map[string]bool" || k.typ != "string" {
				t.fail(ce, "delete(%s, %s)", m.typ, k.typ)
			}
			return t.assignTo(ce, ce.Args[0], "setDelete "+pfParen(m.lean)+" "+pfParen(k.lean), "map[string]bool")
		}
		if sp, ok := t.g.specs[id.Name]; ok && sp.key == id.Name {
			return t.callTranslated(ce, sp, nil, ce.Args)
		}
	}
	if se, ok := ce.Fun.(*ast.SelectorExpr); ok {
		if rid, ok := se.X.(*ast.Ident); ok {
			if rv, ok := t.vars[rid.Name]; ok {
				key := structOf(rv.typ) + "." + se.Sel.Name
				if sp, ok := t.g.specs[key]; ok {
					return t.callTranslated(ce, sp, se.X, ce.Args)
				}
			}
		}
	}
	t.fail(ce, "call statement %s is not supported", t.str(ce))
	return nil
}

func (t *pfTr) callTranslated(ce *ast.CallExpr, sp *pfSpec, recv ast.Expr, args []ast.Expr) []string {
	if !t.sp.exc {
		t.fail(ce, "call of %s (which can fail) from a pure function", sp.key)
	}
	if sp.result != "" {
		t.fail(ce, "the result of %s is dropped", sp.key)
	}
	callee := t.g.pkg.funcs[sp.key]
	var params []pfParam
	var actual []ast.Expr
	if callee.Recv != nil {
		r := callee.Recv.List[0]
		if len(r.Names) != 1 {
			t.fail(ce, "receiver of %s has no name", sp.key)
		}
		params = append(params, pfParam{r.Names[0].Name, pfTypeStr(r.Type)})
		actual = append(actual, recv)
	}
	params = append(params, pfParams(callee)...)
	actual = append(actual, args...)
	if len(params) != len(actual) {
		t.fail(ce, "arity of %s", sp.key)
	}
	var leanArgs []string
	var back [][]string // assignments after the call
	var tmps []string
	seenRoots := map[string]bool{}
	for i, p := range params {
		a := actual[i]
		if sp.inout[p.name] {
			// &lvalue, or the caller's own written-through parameter, or (receiver) an addressable local
			var target ast.Expr
			if ue, ok := a.(*ast.UnaryExpr); ok && ue.Op == token.AND {
				target = ue.X
			} else if id, ok := a.(*ast.Ident); ok {
				lv, ok := t.vars[id.Name]
				if !ok {
					t.fail(a, "%s is not a local", id.Name)
				}
				if lv.inout {
					if lv.typ != p.typ {
						t.fail(a, "pointer of type %s passed for %s %s", lv.typ, p.name, p.typ)
					}
					target = &ast.StarExpr{X: id}
				} else if i == 0 && recv != nil && "*"+lv.typ == p.typ {
					target = id // x.method(): Go takes the address of the addressable local
				}
			}
			if target == nil {
				t.fail(a, "argument %s for the written-through parameter %s of %s must be &local, &local.field or a written-through parameter", t.str(a), p.name, sp.key)
			}
			var cur pfVal
			if se, ok := target.(*ast.StarExpr); ok {
				cur = t.expr(se)
			} else {
				cur = t.expr(target)
				if "*"+cur.typ != p.typ {
					t.fail(a, "address of a %s passed for %s %s", cur.typ, p.name, p.typ)
				}
			}
			rootStr := t.str(target)
			if seenRoots[rootStr] {
				t.fail(a, "%s is passed twice as a written-through argument (aliasing)", rootStr)
			}
			seenRoots[rootStr] = true
			t.tmp++
			tmp := fmt.Sprintf("r_%d", t.tmp)
			tmps = append(tmps, tmp)
			leanArgs = append(leanArgs, pfParen(cur.lean))
			back = append(back, t.assignTo(a, target, tmp, ""))
			continue
		}
		x := t.expr(a)
		if x.nullable {
			t.fail(a, "possibly nil pointer passed to %s", sp.key)
		}
		if x.typ != p.typ {
			t.fail(a, "argument of type %s for the parameter %s %s of %s", x.typ, p.name, p.typ, sp.key)
		}
		leanArgs = append(leanArgs, pfParen(x.lean))
	}
	head := sp.lean
	if sp.sigma != "" {
		if t.sp.sigma == "" {
			t.fail(ce, "%s needs the schema", sp.key)
		}
		head += " σ"
	}
	if sp.fuel != "" {
		if sp.key == t.sp.key {
			head += " fuel"
			t.recur = true
		} else {
			f := sp.fuel
			for i, s := range leanArgs {
				f = strings.ReplaceAll(f, fmt.Sprintf("$%d", i+1), s)
			}
			head += " (" + f + ")"
		}
	}
	call := head + " " + strings.Join(leanArgs, " ")
	var out []string
	switch len(tmps) {
	case 0:
		out = append(out, call)
	case 1:
		out = append(out, "let "+tmps[0]+" ← "+call)
	default:
		out = append(out, "let ("+strings.Join(tmps, ", ")+") ← "+call)
	}
	for _, b := range back {
		out = append(out, b...)
	}
	return out
}

// ---- one function ----

func (g *pfGen) translate(sp *pfSpec) string {
	fd, ok := g.pkg.funcs[sp.key]
	if !ok {
		die("PrintFlow: function %s not found in %s", sp.key, pfDir)
	}
	t := &pfTr{g: g, sp: sp, fd: fd, rel: g.pkg.frel[sp.key], vars: map[string]pfVar{}, guards: map[string]string{},
		gused: map[string]bool{}, tparam: map[string]bool{}, elemOf: map[string]string{}}
	if fd.Body == nil {
		t.fail(fd, "no body")
	}
	// forbidden constructs anywhere in the body
	ast.Inspect(fd.Body, func(n ast.Node) bool {
		switch v := n.(type) {
		case *ast.FuncLit:
			t.fail(v, "closure")
		case *ast.GoStmt, *ast.DeferStmt, *ast.LabeledStmt, *ast.SelectStmt, *ast.SendStmt, *ast.TypeSwitchStmt, *ast.ForStmt, *ast.IncDecStmt:
			t.fail(v, "statement %T is not supported", v)
		case *ast.BranchStmt:
			t.fail(v, "%s is not supported", v.Tok)
		}
		return true
	})
	// result
	res := ""
	if fd.Type.Results != nil {
		if len(fd.Type.Results.List) != 1 || len(fd.Type.Results.List[0].Names) != 0 {
			t.fail(fd, "results (one unnamed result at most)")
		}
		res = pfTypeStr(fd.Type.Results.List[0].Type)
	}
	if res != sp.result {
		t.fail(fd, "result type %q, the generator's spec expects %q", res, sp.result)
	}
	// type parameters
	var binders []string
	if fd.Type.TypeParams != nil {
		for _, fl := range fd.Type.TypeParams.List {
			if pfTypeStr(fl.Type) != "any" {
				t.fail(fd, "type parameter constraint %s", pfTypeStr(fl.Type))
			}
			for _, n := range fl.Names {
				t.tparam[n.Name] = true
				binders = append(binders, "{"+n.Name+" : Type} [Keyed "+n.Name+"]")
			}
		}
	}
	if sp.sigma == "implicit" {
		binders = append(binders, "(σ : Schema)")
	}
	// parameters (receiver first)
	var params []pfParam
	if fd.Recv != nil {
		r := fd.Recv.List[0]
		if len(r.Names) != 1 {
			t.fail(fd, "receiver without a name")
		}
		params = append(params, pfParam{r.Names[0].Name, pfTypeStr(r.Type)})
	}
	params = append(params, pfParams(fd)...)
	for n := range sp.inout {
		found := false
		for _, p := range params {
			found = found || p.name == n
		}
		if !found {
			t.fail(fd, "the spec's written-through parameter %s does not exist", n)
		}
	}
	var argBinders, argNames []string
	var prologue []string
	for _, p := range params {
		if !strings.HasPrefix(p.typ, "*") && !strings.HasPrefix(p.typ, "map[") && p.typ != "string" {
			t.fail(fd, "parameter %s of type %s is not supported", p.name, p.typ)
		}
		if p.name == sp.sigma {
			if p.typ != "*Schema" {
				t.fail(fd, "parameter %s is not a *Schema", p.name)
			}
			t.vars[p.name] = pfVar{lean: "σ", typ: p.typ}
			argBinders = append(argBinders, "(σ : Schema)")
			argNames = append(argNames, "σ")
			continue
		}
		l := t.leanIdent(fd, p.name)
		lt := pfLeanTypeOf(p.typ)
		if sp.inout[p.name] {
			t.vars[p.name] = pfVar{lean: l, typ: p.typ, inout: true}
			t.inouts = append(t.inouts, p.name)
			argBinders = append(argBinders, "("+l+"_in : "+lt+")")
			argNames = append(argNames, l+"_in")
			prologue = append(prologue, "let mut "+l+" := "+l+"_in")
		} else {
			t.vars[p.name] = pfVar{lean: l, typ: p.typ}
			argBinders = append(argBinders, "("+l+" : "+lt+")")
			argNames = append(argNames, l)
		}
	}
	// result type
	var resParts []string
	if res != "" {
		resParts = append(resParts, pfLeanTypeOf(res))
	}
	for _, n := range t.inouts {
		resParts = append(resParts, pfLeanTypeOf(t.vars[n].typ))
	}
	resLean := "Unit"
	if len(resParts) > 0 {
		resLean = strings.Join(resParts, " × ")
	}
	body := append(prologue, t.block(fd.Body.List)...)
	last := fd.Body.List[len(fd.Body.List)-1]
	if _, isRet := last.(*ast.ReturnStmt); !isRet {
		if res != "" {
			t.fail(last, "the function does not end with a return")
		}
		body = append(body, t.retLine())
	}
	// does the function call itself (in expression position)?
	selfCalls := 0
	ast.Inspect(fd.Body, func(n ast.Node) bool {
		if ce, ok := n.(*ast.CallExpr); ok {
			if pfIsIdent(ce.Fun, fd.Name.Name) {
				selfCalls++
			}
			if se, ok := ce.Fun.(*ast.SelectorExpr); ok && fd.Recv != nil && se.Sel.Name == fd.Name.Name {
				selfCalls++
			}
		}
		return true
	})
	var sb strings.Builder
	sig := pfFuncTypeStr(g.pkg.fsets[t.rel], fd.Type)
	recv := ""
	if fd.Recv != nil {
		recv = "(" + params[0].name + " " + params[0].typ + ") "
	}
	fmt.Fprintf(&sb, "/-- %s `func %s%s%s` -/\n", t.rel, recv, fd.Name.Name, strings.TrimPrefix(sig, "func"))
	if sp.exc {
		if sp.fuel != "" {
			if !t.recur {
				t.fail(fd, "the spec gives fuel to a function that does not call itself")
			}
			var tys, pats0, pats1 []string
			for i, b := range argBinders {
				ty := b[strings.Index(b, ":")+2 : len(b)-1]
				tys = append(tys, ty)
				pats0 = append(pats0, "_")
				pats1 = append(pats1, argNames[i])
			}
			fmt.Fprintf(&sb, "def %s %s: Nat → %s → Except GErr (%s)\n", sp.lean, pfJoinSp(binders), strings.Join(tys, " → "), resLean)
			fmt.Fprintf(&sb, "  | 0, %s => throw .outOfFuel\n", strings.Join(pats0, ", "))
			fmt.Fprintf(&sb, "  | fuel + 1, %s => do\n", strings.Join(pats1, ", "))
			for _, l := range body {
				sb.WriteString("    " + l + "\n")
			}
		} else {
			if selfCalls > 0 {
				t.fail(fd, "recursive function without fuel in the spec")
			}
			fmt.Fprintf(&sb, "def %s %s%s : Except GErr (%s) := do\n", sp.lean, pfJoinSp(binders), strings.Join(argBinders, " "), resLean)
			for _, l := range body {
				sb.WriteString("  " + l + "\n")
			}
		}
	} else {
		if len(t.inouts) > 0 {
			t.fail(fd, "pure function with written-through parameters")
		}
		fmt.Fprintf(&sb, "def %s %s%s : %s := Id.run do\n", sp.lean, pfJoinSp(binders), strings.Join(argBinders, " "), resLean)
		for _, l := range body {
			sb.WriteString("  " + l + "\n")
		}
		if selfCalls > 0 {
			// the only recursion of the printer: through X.Array.ElemType, which PrintFlowSem makes smaller
			if len(params) != 1 || params[0].typ != "*FieldType" {
				t.fail(fd, "recursive pure function that is not over a *FieldType")
			}
			fmt.Fprintf(&sb, "termination_by %s.rank\ndecreasing_by all_goals exact ArrayType.lt _\n", t.vars[params[0].name].lean)
		}
	}
	return sb.String()
}

func pfIsIdent(e ast.Expr, name string) bool {
	id, ok := e.(*ast.Ident)
	return ok && id.Name == name
}

func pfCountIdent(n ast.Node, name string) int {
	k := 0
	ast.Inspect(n, func(x ast.Node) bool {
		if id, ok := x.(*ast.Ident); ok && id.Name == name {
			k++
		}
		return true
	})
	return k
}

func pfFuncTypeStr(fset *token.FileSet, ft *ast.FuncType) string {
	var sb strings.Builder
	printer.Fprint(&sb, fset, ft)
	return sb.String()
}

func pfJoinSp(b []string) string {
	if len(b) == 0 {
		return ""
	}
	return strings.Join(b, " ") + " "
}

func genPrintFlow() {
	g := &pfGen{pkg: pfLoad(), specs: map[string]*pfSpec{}, litIx: map[string]int{}}
	for i := range pfSpecs {
		sp := &pfSpecs[i]
		g.specs[sp.key] = sp
	}
	var defs []string
	for i := range pfSpecs {
		defs = append(defs, g.translate(&pfSpecs[i]))
	}
	var sb strings.Builder
	sb.WriteString("/- GENERATED by /verif/extract (printflow.go) from go/pkg/schema/schema.go (Schema.PrettyPrint, sortedList,\n" +
		"   prettyPrint*), go/pkg/schema/structcounttree.go (schemaToStructCountTree) and go/pkg/schema/wireschema.go\n" +
		"   (NewWireSchema, setStructCountsFromTree). Do not edit. Vocabulary: Stef/PrintFlowSem.lean. -/\n")
	sb.WriteString("import Stef.PrintFlowSem\n\nnamespace Stef.Gen.PrintFlow\nopen Stef.Idl Stef.PrintFlowSem\n\n")
	sb.WriteString("/-! the string literals of the translated functions, in order of first use (`@[simp]`: proofs unfold them\n    without naming one) -/\n")
	for i, s := range g.lits {
		fmt.Fprintf(&sb, "/-- %s -/\n@[simp] def lit_%d : Name := %s\n", strings.ReplaceAll(strconv.Quote(s), "-/", "-\\/"), i+1, pfCharList(s))
	}
	sb.WriteString("\n")
	for _, d := range defs {
		sb.WriteString(d + "\n")
	}
	fmt.Fprintf(&sb, "/-- the string literals above, as Go wrote them (in order of first use). -/\ndef literals : List String := [%s]\n\n",
		func() string {
			var q []string
			for _, s := range g.lits {
				q = append(q, strconv.Quote(s))
			}
			return strings.Join(q, ", ")
		}())
	sb.WriteString("end Stef.Gen.PrintFlow\n")
	writeOut("PrintFlow.lean", sb.String())
}
