package main

// genTracesFlow regenerates lean/Stef/Gen/TracesFlow.lean: the OTLP traces converter, translated
// statement by statement from the Go AST (go/parser + go/ast only) into `do` blocks of the monad of
// lean/Stef/TracesFlowSem.lean:
//
//   resourceUnsorted, scopeUnsorted <- func (o *Otlp2Stef) ResourceUnsorted / ScopeUnsorted
//                                      go/pdata/internal/otlptools/otlpval2tef.go
//   event2event, link2link, span2span, sortSpans, convert (<- OtlpToStefUnsorted.Convert)
//                                   <- go/pdata/traces/otlp2stef_unsorted.go
//
// The order of the statements, the conditions, the paths that are read and written and the arguments come
// from the source. Every method, function, conversion and field is looked up in the TYPED tables below
// (receiver type x name -> kind, argument types, result type); anything that is not there, and every
// statement / expression form that is not handled, makes this generator fail (die): never a guess.
//
//   stmt ::= P.Setter(e..) | P.EnsureLen(e) | conv.MapSorted/MapUnsorted(e, P) | f(args) (a translated function; one
//            argument is the path it writes through) | P.Sort(func) | P.RemoveIf(func) | P.MoveAndAppendTo(P')
//          | x := e | x = e | x++ (int locals) | h := P (a handle local = a path) | v := e (other values, immutable)
//          | if [x := P.Write();] cond {..} [else ..] | for v := a; v < e; v++ {..} (v not assigned: counting loop)
//          | for [init]; cond; [post] {..} (no break / continue) | return [e]
//   P    ::= a pointer / pdata-handle parameter | handle local | P.Sub() | P.At(e) | P.Field
//   e    ::= literal | local | parameter | d.Sorted | P.Getter() | P (read as a value) | f(e..) | T(e) | id[:]
//          | e op e (+ - < <= > >= == != && ||) | !e | nil
//
// Handle locals are paths whose indices are evaluated when the local is bound; the generator refuses a
// structural change (Sort, RemoveIf, MoveAndAppendTo, a call that gets the slice) of a slice through
// which a live handle local was taken. Function literals may only compute (locals, reads of their own
// parameters): a write through a path inside one is refused.

import (
	"fmt"
	"go/ast"
	"go/printer"
	"go/token"
	"strings"
)

func init() { register("TracesFlow", genTracesFlow) }

// ---------------------------------------------------------------------------------------------
// typed vocabulary

type tfMeth struct {
	kind string   // get | sub | at | set | setres | sort | removeIf | moveAppend
	args []string // argument types (set / at)
	res  string   // result type (get / sub / at / setres)
}

var tfSliceElem = map[string]string{
	"ptrace.ResourceSpansSlice": "ptrace.ResourceSpans",
	"ptrace.ScopeSpansSlice":    "ptrace.ScopeSpans",
	"ptrace.SpanSlice":          "ptrace.Span",
	"ptrace.SpanEventSlice":     "ptrace.SpanEvent",
	"ptrace.SpanLinkSlice":      "ptrace.SpanLink",
}

// slices that may be changed structurally (the sorting mode)
var tfMutSlice = map[string]bool{"ptrace.ResourceSpansSlice": true, "ptrace.ScopeSpansSlice": true, "ptrace.SpanSlice": true}

// types whose values are handles (paths), as opposed to plain values
var tfHandle = map[string]bool{
	"ptrace.Traces": true, "ptrace.ResourceSpansSlice": true, "ptrace.ResourceSpans": true, "ptrace.ScopeSpansSlice": true,
	"ptrace.ScopeSpans": true, "ptrace.SpanSlice": true, "ptrace.Span": true, "ptrace.SpanEventSlice": true,
	"ptrace.SpanEvent": true, "ptrace.SpanLinkSlice": true, "ptrace.SpanLink": true, "ptrace.Status": true,
	"pcommon.Resource": true, "pcommon.InstrumentationScope": true, "pcommon.Map": true, "pcommon.TraceState": true,
	"otelstef.SpansWriter": true, "otelstef.Spans": true, "otelstef.Resource": true, "otelstef.Scope": true,
	"otelstef.Span": true, "otelstef.SpanStatus": true, "otelstef.EventArray": true, "otelstef.Event": true,
	"otelstef.LinkArray": true, "otelstef.Link": true, "otelstef.Attributes": true,
}

var tfMethods = map[string]tfMeth{}

func tfAdd(typ string, kind string, res string, args []string, names ...string) {
	for _, n := range names {
		tfMethods[typ+"."+n] = tfMeth{kind: kind, args: args, res: res}
	}
}

func init() {
	u64, u32, str, in := []string{"uint64"}, "uint32", []string{"string"}, []string{"int"}
	// ptrace / pcommon
	tfAdd("ptrace.Traces", "sub", "ptrace.ResourceSpansSlice", nil, "ResourceSpans")
	for sl, el := range tfSliceElem {
		tfAdd(sl, "get", "int", nil, "Len")
		tfAdd(sl, "at", el, in, "At")
		if tfMutSlice[sl] {
			tfAdd(sl, "sort", "", nil, "Sort")
			tfAdd(sl, "removeIf", "", nil, "RemoveIf")
			tfAdd(sl, "moveAppend", "", nil, "MoveAndAppendTo")
		}
	}
	tfAdd("ptrace.ResourceSpans", "sub", "ptrace.ScopeSpansSlice", nil, "ScopeSpans")
	tfAdd("ptrace.ResourceSpans", "sub", "pcommon.Resource", nil, "Resource")
	tfAdd("ptrace.ResourceSpans", "get", "string", nil, "SchemaUrl")
	tfAdd("pcommon.Resource", "sub", "pcommon.Map", nil, "Attributes")
	tfAdd("pcommon.Resource", "get", u32, nil, "DroppedAttributesCount")
	tfAdd("ptrace.ScopeSpans", "sub", "ptrace.SpanSlice", nil, "Spans")
	tfAdd("ptrace.ScopeSpans", "sub", "pcommon.InstrumentationScope", nil, "Scope")
	tfAdd("ptrace.ScopeSpans", "get", "string", nil, "SchemaUrl")
	tfAdd("pcommon.InstrumentationScope", "get", "string", nil, "Name", "Version")
	tfAdd("pcommon.InstrumentationScope", "sub", "pcommon.Map", nil, "Attributes")
	tfAdd("pcommon.InstrumentationScope", "get", u32, nil, "DroppedAttributesCount")
	tfAdd("ptrace.Span", "get", "pcommon.TraceID", nil, "TraceID")
	tfAdd("ptrace.Span", "get", "pcommon.SpanID", nil, "SpanID", "ParentSpanID")
	tfAdd("ptrace.Span", "get", "string", nil, "Name")
	tfAdd("ptrace.Span", "get", u32, nil, "Flags", "DroppedAttributesCount")
	tfAdd("ptrace.Span", "get", "pcommon.Timestamp", nil, "StartTimestamp", "EndTimestamp")
	tfAdd("ptrace.Span", "get", "ptrace.SpanKind", nil, "Kind")
	tfAdd("ptrace.Span", "sub", "pcommon.TraceState", nil, "TraceState")
	tfAdd("ptrace.Span", "sub", "pcommon.Map", nil, "Attributes")
	tfAdd("ptrace.Span", "sub", "ptrace.Status", nil, "Status")
	tfAdd("ptrace.Span", "sub", "ptrace.SpanEventSlice", nil, "Events")
	tfAdd("ptrace.Span", "sub", "ptrace.SpanLinkSlice", nil, "Links")
	tfAdd("ptrace.Status", "get", "ptrace.StatusCode", nil, "Code")
	tfAdd("ptrace.Status", "get", "string", nil, "Message")
	tfAdd("ptrace.SpanEvent", "get", "string", nil, "Name")
	tfAdd("ptrace.SpanEvent", "get", "pcommon.Timestamp", nil, "Timestamp")
	tfAdd("ptrace.SpanEvent", "sub", "pcommon.Map", nil, "Attributes")
	tfAdd("ptrace.SpanEvent", "get", u32, nil, "DroppedAttributesCount")
	tfAdd("ptrace.SpanLink", "get", "pcommon.TraceID", nil, "TraceID")
	tfAdd("ptrace.SpanLink", "get", "pcommon.SpanID", nil, "SpanID")
	tfAdd("ptrace.SpanLink", "sub", "pcommon.TraceState", nil, "TraceState")
	tfAdd("ptrace.SpanLink", "get", u32, nil, "Flags", "DroppedAttributesCount")
	tfAdd("ptrace.SpanLink", "sub", "pcommon.Map", nil, "Attributes")
	tfAdd("pcommon.TraceID", "get", "string", nil, "String")
	tfAdd("pcommon.SpanID", "get", "string", nil, "String")
	tfAdd("pcommon.TraceState", "get", "string", nil, "AsRaw")
	tfAdd("pcommon.Map", "get", "int", nil, "Len")
	// otelstef
	tfAdd("otelstef.SpansWriter", "sub", "otelstef.Spans", nil, "Record") // a field
	tfAdd("otelstef.SpansWriter", "setres", "error", nil, "Write")
	tfAdd("otelstef.Spans", "sub", "otelstef.Resource", nil, "Resource")
	tfAdd("otelstef.Spans", "sub", "otelstef.Scope", nil, "Scope")
	tfAdd("otelstef.Spans", "sub", "otelstef.Span", nil, "Span")
	tfAdd("otelstef.Resource", "set", "", str, "SetSchemaURL")
	tfAdd("otelstef.Resource", "set", "", u64, "SetDroppedAttributesCount")
	tfAdd("otelstef.Resource", "sub", "otelstef.Attributes", nil, "Attributes")
	tfAdd("otelstef.Scope", "set", "", str, "SetSchemaURL", "SetName", "SetVersion")
	tfAdd("otelstef.Scope", "set", "", u64, "SetDroppedAttributesCount")
	tfAdd("otelstef.Scope", "sub", "otelstef.Attributes", nil, "Attributes")
	tfAdd("otelstef.Span", "set", "", []string{"pkg.Bytes"}, "SetTraceID", "SetSpanID", "SetParentSpanID")
	tfAdd("otelstef.Span", "set", "", str, "SetName", "SetTraceState")
	tfAdd("otelstef.Span", "set", "", u64, "SetFlags", "SetStartTimeUnixNano", "SetEndTimeUnixNano", "SetDroppedAttributesCount")
	tfAdd("otelstef.Span", "set", "", []string{"otelstef.SpanKind"}, "SetKind")
	tfAdd("otelstef.Span", "sub", "otelstef.Attributes", nil, "Attributes")
	tfAdd("otelstef.Span", "sub", "otelstef.SpanStatus", nil, "Status")
	tfAdd("otelstef.Span", "sub", "otelstef.EventArray", nil, "Events")
	tfAdd("otelstef.Span", "sub", "otelstef.LinkArray", nil, "Links")
	tfAdd("otelstef.SpanStatus", "set", "", u64, "SetCode")
	tfAdd("otelstef.SpanStatus", "set", "", str, "SetMessage")
	tfAdd("otelstef.EventArray", "set", "", in, "EnsureLen")
	tfAdd("otelstef.EventArray", "at", "otelstef.Event", in, "At")
	tfAdd("otelstef.LinkArray", "set", "", in, "EnsureLen")
	tfAdd("otelstef.LinkArray", "at", "otelstef.Link", in, "At")
	tfAdd("otelstef.Event", "set", "", str, "SetName")
	tfAdd("otelstef.Event", "set", "", u64, "SetTimeUnixNano", "SetDroppedAttributesCount")
	tfAdd("otelstef.Event", "sub", "otelstef.Attributes", nil, "Attributes")
	tfAdd("otelstef.Link", "set", "", []string{"pkg.Bytes"}, "SetTraceID", "SetSpanID")
	tfAdd("otelstef.Link", "set", "", str, "SetTraceState")
	tfAdd("otelstef.Link", "set", "", u64, "SetFlags", "SetDroppedAttributesCount")
	tfAdd("otelstef.Link", "sub", "otelstef.Attributes", nil, "Attributes")
}

// plain functions pkg.Name(args) -> result
var tfFuncs = map[string]tfMeth{
	"pkg.Bytes":                  {args: []string{"string"}, res: "pkg.Bytes"},
	"bytes.Compare":              {args: []string{"[]byte", "[]byte"}, res: "int"},
	"otlptools.CmpResourceSpans": {args: []string{"ptrace.ResourceSpans", "ptrace.ResourceSpans"}, res: "int"},
	"otlptools.CmpScopeSpans":    {args: []string{"ptrace.ScopeSpans", "ptrace.ScopeSpans"}, res: "int"},
}

// conversions T(x): target type -> allowed operand types
var tfConvs = map[string][]string{
	"uint64":            {"uint32", "pcommon.Timestamp", "ptrace.StatusCode"},
	"otelstef.SpanKind": {"ptrace.SpanKind"},
}

// the library methods of the converter object (*otlptools.Otlp2Stef): (pcommon.Map, *otelstef.Attributes)
var tfConvLib = map[string]bool{"MapSorted": true, "MapUnsorted": true}

// fields of the receivers
var tfRecvFields = map[string]map[string]string{
	"traces.OtlpToStefUnsorted": {"Sorted": "bool", "otlp2stef": "otlptools.Otlp2Stef"},
	"otlptools.Otlp2Stef":       {},
}

const tfConv = "otlptools.Otlp2Stef" // the converter's scratch object: not part of the model

func tfCap(s string) string { return strings.ToUpper(s[:1]) + s[1:] }

// Lean name of a Go type / of a method of it
func tfLeanType(t string) string {
	switch t {
	case "string":
		return "GoString"
	case "bool":
		return "Bool"
	case "int":
		return "Int"
	case "error":
		return "Err"
	}
	if i := strings.Index(t, "."); i > 0 && (tfHandle[t] || t == "pcommon.TraceID" || t == "pcommon.SpanID") {
		return tfCap(t[:i]) + "." + t[i+1:]
	}
	die("TracesFlow: no Lean type for Go type %s", t)
	return ""
}

func tfLeanMeth(t, m string) string {
	i := strings.Index(t, ".")
	return tfCap(t[:i]) + "." + t[i+1:] + "." + m
}

func tfLeanFunc(f string) string {
	i := strings.Index(f, ".")
	return tfCap(f[:i]) + "." + f[i+1:]
}

// ---------------------------------------------------------------------------------------------
// translator state

type tfVar struct {
	kind     string // val | slot | mutroot | ref | vhandle | conv | recv
	lean     string
	typ      string
	slot     int
	expanded string // mutroot / ref: the path from the parameter, without indices (alias check)
}

type tfBind struct{ name, typ string }

type tfSpec struct {
	file, recv, name, lean string
}

// how a translated function is called: for each Go parameter what becomes of it
type tfSig struct {
	lean   string
	params []string // per Go parameter: "mut" | "val" | "conv"
	ptypes []string
	res    string // Go result type ("" = none)
}

type tfFn struct {
	g        *tfGen
	fset     *token.FileSet
	where    string
	lean     string
	sigma    string
	rho      string
	vars     map[*ast.Object]*tfVar
	env      []tfBind
	used     map[string]bool
	nslot    int
	nloop    int
	ncond    int
	nfn      int
	defs     []string
	closure  bool
	recvType string
}

type tfGen struct {
	sigs map[string]*tfSig // Go name (for methods "Type.Name") -> signature of a translated function
}

var tfReserved = map[string]bool{"at": true, "end": true, "from": true, "fun": true, "have": true, "show": true, "then": true,
	"do": true, "in": true, "let": true, "where": true, "with": true, "match": true, "if": true, "else": true, "open": true,
	"mut": true, "return": true, "for": true, "by": true, "fuel": true, "def": true, "theorem": true, "instance": true,
	"structure": true, "class": true, "namespace": true, "section": true, "pure": true, "ret": true, "zoom": true,
	"mutate": true, "rdS": true, "rdV": true, "forUp": true, "whileLoop": true, "sortBy": true, "removeIf": true,
	"getL": true, "setL": true, "none": true, "some": true, "decide": true, "true": true, "false": true, "Type": true}

func (t *tfFn) fail(n ast.Node, f string, a ...any) {
	die("TracesFlow: %s at %s: %s (outside the translated Go subset)", t.where, t.fset.Position(n.Pos()), fmt.Sprintf(f, a...))
}

func (t *tfFn) str(n ast.Node) string {
	var sb strings.Builder
	printer.Fprint(&sb, t.fset, n)
	return sb.String()
}

func (t *tfFn) fresh(name string) string {
	if name == "_" {
		name = "x"
	}
	n := name
	for k := 1; tfReserved[n] || t.used[n]; k++ {
		n = fmt.Sprintf("%s_%d", name, k)
	}
	t.used[n] = true
	return n
}

// bind adds an immutable Lean-bound name to the scope
func (t *tfFn) bind(id *ast.Ident, v *tfVar, leanType string) {
	v.lean = t.fresh(id.Name)
	if id.Obj != nil {
		t.vars[id.Obj] = v
	}
	t.env = append(t.env, tfBind{v.lean, leanType})
}

func (t *tfFn) envParams() string {
	var sb strings.Builder
	for _, b := range t.env {
		fmt.Fprintf(&sb, " (%s : %s)", b.name, b.typ)
	}
	return sb.String()
}

func (t *tfFn) envArgs() string {
	var sb strings.Builder
	for _, b := range t.env {
		sb.WriteString(" " + b.name)
	}
	return sb.String()
}

// ---------------------------------------------------------------------------------------------
// values and paths

type tfVal struct {
	lean     string
	typ      string
	isPath   bool
	mut      bool
	root     string
	steps    []string
	expanded string
}

func tfArg(s string) string {
	simple := true
	for _, c := range s {
		if !(c == '_' || c == '.' || (c >= '0' && c <= '9') || (c >= 'a' && c <= 'z') || (c >= 'A' && c <= 'Z')) {
			simple = false
		}
	}
	if simple || (strings.HasPrefix(s, "(") && tfClosesAtEnd(s)) {
		return s
	}
	return "(" + s + ")"
}

func tfClosesAtEnd(s string) bool {
	depth := 0
	for i, c := range s {
		switch c {
		case '(':
			depth++
		case ')':
			depth--
			if depth == 0 && i != len(s)-1 {
				return false
			}
		}
	}
	return depth == 0
}

func (v tfVal) ref() string {
	parts := append([]string{v.root}, v.steps...)
	return "(" + strings.Join(parts, " ⨾ ") + ")"
}

// the value a path leads to now
func (t *tfFn) valueOf(n ast.Node, v tfVal) string {
	if !v.isPath {
		return v.lean
	}
	if v.mut {
		if t.closure {
			t.fail(n, "a function literal reads an object of the enclosing function (%s)", t.str(n))
		}
		return "(← rdS " + v.ref() + ")"
	}
	if len(v.steps) == 0 {
		return v.root
	}
	return "(← rdV (" + strings.Join(v.steps, " ⨾ ") + ") " + v.root + ")"
}

func tfIntLike(t string) bool { return t == "int" || t == "untyped-int" }

func tfCompat(want, got string) bool {
	if want == got {
		return true
	}
	if got == "untyped-int" && (want == "int" || want == "uint64" || want == "uint32") {
		return true
	}
	return false
}

var tfFields = map[string]bool{"otelstef.SpansWriter.Record": true}

var tfPkgs = map[string]bool{"pkg": true, "bytes": true, "otlptools": true, "otelstef": true, "ptrace": true, "pcommon": true}

func (t *tfFn) lookup(id *ast.Ident) *tfVar {
	if id.Obj == nil {
		return nil
	}
	return t.vars[id.Obj]
}

func (t *tfFn) step(n ast.Node, recv tfVal, name string, isCall bool, args []ast.Expr) (tfVal, bool) {
	m, ok := tfMethods[recv.typ+"."+name]
	if !ok {
		t.fail(n, "%s of a %s is not in the vocabulary", name, recv.typ)
	}
	if tfFields[recv.typ+"."+name] == isCall {
		t.fail(n, "%s.%s: field / method mix-up", recv.typ, name)
	}
	switch m.kind {
	case "sub":
		if len(args) != 0 {
			t.fail(n, "%s takes no arguments", name)
		}
		r := recv
		r.steps = append(append([]string{}, recv.steps...), tfLeanMeth(recv.typ, name))
		r.typ = m.res
		r.expanded = recv.expanded + "." + name
		return r, true
	case "at":
		if len(args) != 1 {
			t.fail(n, "%s takes one argument", name)
		}
		a := t.expr(args[0])
		if !tfIntLike(a.typ) {
			t.fail(n, "index of type %s", a.typ)
		}
		r := recv
		r.steps = append(append([]string{}, recv.steps...), tfLeanMeth(recv.typ, name)+" "+tfArg(a.lean))
		r.typ = m.res
		r.expanded = recv.expanded + "." + name
		return r, true
	case "get":
		if len(args) != 0 {
			t.fail(n, "%s takes no arguments", name)
		}
		return tfVal{lean: "(" + tfLeanMeth(recv.typ, name) + " " + tfArg(t.valueOf(n, recv)) + ")", typ: m.res}, true
	}
	return tfVal{}, false
}

func (t *tfFn) expr(e ast.Expr) tfVal {
	switch v := e.(type) {
	case *ast.ParenExpr:
		return t.expr(v.X)
	case *ast.BasicLit:
		if v.Kind != token.INT {
			t.fail(e, "literal %s", v.Value)
		}
		return tfVal{lean: v.Value, typ: "untyped-int"}
	case *ast.Ident:
		switch v.Name {
		case "nil":
			return tfVal{lean: "none", typ: "nil"}
		case "true", "false":
			if v.Obj == nil {
				return tfVal{lean: v.Name, typ: "bool"}
			}
		}
		x := t.lookup(v)
		if x == nil {
			t.fail(e, "unknown identifier %s", v.Name)
		}
		switch x.kind {
		case "val":
			return tfVal{lean: x.lean, typ: x.typ}
		case "slot":
			return tfVal{lean: fmt.Sprintf("(← getL %d)", x.slot), typ: "int"}
		case "mutroot", "ref":
			return tfVal{typ: x.typ, isPath: true, mut: true, root: x.lean, expanded: x.expanded}
		case "vhandle":
			return tfVal{typ: x.typ, isPath: true, root: x.lean, expanded: x.lean}
		case "conv":
			return tfVal{typ: tfConv}
		}
		t.fail(e, "%s cannot be used here", v.Name)
	case *ast.UnaryExpr:
		x := t.expr(v.X)
		if v.Op == token.AND && x.typ == tfConv {
			return x
		}
		if v.Op == token.NOT && x.typ == "bool" {
			return tfVal{lean: "(!" + tfArg(x.lean) + ")", typ: "bool"}
		}
		t.fail(e, "unary %s on a %s", v.Op, x.typ)
	case *ast.SelectorExpr:
		if id, ok := v.X.(*ast.Ident); ok {
			if x := t.lookup(id); x != nil && x.kind == "recv" {
				ft, ok := tfRecvFields[x.typ][v.Sel.Name]
				if !ok {
					t.fail(e, "field %s of the receiver is not in the vocabulary", v.Sel.Name)
				}
				if ft == tfConv {
					return tfVal{typ: tfConv}
				}
				for _, b := range t.env {
					if b.name == id.Name+"_"+v.Sel.Name {
						return tfVal{lean: b.name, typ: ft}
					}
				}
				t.fail(e, "receiver field %s", v.Sel.Name)
			}
		}
		recv := t.expr(v.X)
		if !recv.isPath {
			t.fail(e, "selector on a %s", recv.typ)
		}
		r, ok := t.step(e, recv, v.Sel.Name, false, nil)
		if !ok {
			t.fail(e, "%s is not a field", v.Sel.Name)
		}
		return r
	case *ast.SliceExpr:
		x := t.expr(v.X)
		if v.Low != nil || v.High != nil || v.Max != nil || (x.typ != "pcommon.TraceID" && x.typ != "pcommon.SpanID") {
			t.fail(e, "slice expression %s", t.str(e))
		}
		return tfVal{lean: "(" + tfLeanMeth(x.typ, "slice") + " " + tfArg(t.valueOf(e, x)) + ")", typ: "[]byte"}
	case *ast.BinaryExpr:
		return t.binary(v)
	case *ast.CallExpr:
		return t.call(v)
	}
	t.fail(e, "expression %s", t.str(e))
	return tfVal{}
}

func (t *tfFn) binary(v *ast.BinaryExpr) tfVal {
	l, r := t.expr(v.X), t.expr(v.Y)
	lv, rv := t.valueOf(v.X, l), t.valueOf(v.Y, r)
	switch v.Op {
	case token.ADD, token.SUB:
		if tfIntLike(l.typ) && tfIntLike(r.typ) {
			return tfVal{lean: "(" + lv + " " + v.Op.String() + " " + rv + ")", typ: "int"}
		}
	case token.LAND, token.LOR:
		if l.typ == "bool" && r.typ == "bool" {
			return tfVal{lean: "(" + lv + " " + v.Op.String() + " " + rv + ")", typ: "bool"}
		}
	case token.LSS, token.GTR, token.LEQ, token.GEQ:
		ordered := map[string]bool{"int": true, "untyped-int": true, "pcommon.Timestamp": true, "uint64": true, "uint32": true}
		if ordered[l.typ] && ordered[r.typ] && (tfCompat(l.typ, r.typ) || tfCompat(r.typ, l.typ)) {
			op := map[token.Token]string{token.LSS: "<", token.GTR: ">", token.LEQ: "≤", token.GEQ: "≥"}[v.Op]
			return tfVal{lean: "(decide (" + lv + " " + op + " " + rv + "))", typ: "bool"}
		}
	case token.EQL, token.NEQ:
		op := "=="
		if v.Op == token.NEQ {
			op = "!="
		}
		if (tfIntLike(l.typ) && tfIntLike(r.typ)) || (l.typ == "error" && r.typ == "nil") {
			return tfVal{lean: "(" + lv + " " + op + " " + rv + ")", typ: "bool"}
		}
	}
	t.fail(v, "%s %s %s", l.typ, v.Op, r.typ)
	return tfVal{}
}

func (t *tfFn) args(n ast.Node, what string, want []string, args []ast.Expr) string {
	if len(want) != len(args) {
		t.fail(n, "%s takes %d arguments", what, len(want))
	}
	var sb strings.Builder
	for i, a := range args {
		x := t.expr(a)
		if !tfCompat(want[i], x.typ) {
			t.fail(a, "argument %d of %s is a %s, not a %s", i+1, what, x.typ, want[i])
		}
		sb.WriteString(" " + tfArg(t.valueOf(a, x)))
	}
	return sb.String()
}

func (t *tfFn) call(v *ast.CallExpr) tfVal {
	if v.Ellipsis.IsValid() {
		t.fail(v, "variadic call")
	}
	switch f := v.Fun.(type) {
	case *ast.Ident:
		if f.Obj == nil {
			if ops, ok := tfConvs[f.Name]; ok {
				return t.conversion(v, f.Name, ops)
			}
		}
		t.fail(v, "call of %s in an expression", f.Name)
	case *ast.SelectorExpr:
		if id, ok := f.X.(*ast.Ident); ok && id.Obj == nil && tfPkgs[id.Name] {
			name := id.Name + "." + f.Sel.Name
			if ops, ok := tfConvs[name]; ok {
				return t.conversion(v, name, ops)
			}
			fn, ok := tfFuncs[name]
			if !ok {
				t.fail(v, "function %s is not in the vocabulary", name)
			}
			return tfVal{lean: "(" + tfLeanFunc(name) + t.args(v, name, fn.args, v.Args) + ")", typ: fn.res}
		}
		recv := t.expr(f.X)
		if recv.isPath {
			if r, ok := t.step(v, recv, f.Sel.Name, true, v.Args); ok {
				return r
			}
			t.fail(v, "%s.%s changes the object: only as a statement", recv.typ, f.Sel.Name)
		}
		if m, ok := tfMethods[recv.typ+"."+f.Sel.Name]; ok && m.kind == "get" && len(v.Args) == 0 {
			return tfVal{lean: "(" + tfLeanMeth(recv.typ, f.Sel.Name) + " " + tfArg(recv.lean) + ")", typ: m.res}
		}
		t.fail(v, "%s of a %s is not in the vocabulary", f.Sel.Name, recv.typ)
	}
	t.fail(v, "call %s", t.str(v))
	return tfVal{}
}

func (t *tfFn) conversion(v *ast.CallExpr, target string, ops []string) tfVal {
	if len(v.Args) != 1 {
		t.fail(v, "conversion with %d operands", len(v.Args))
	}
	x := t.expr(v.Args[0])
	for _, o := range ops {
		if o == x.typ {
			short := func(s string) string { return s[strings.Index(s, ".")+1:] }
			return tfVal{lean: "(Conv." + short(target) + "_" + short(x.typ) + " " + tfArg(t.valueOf(v.Args[0], x)) + ")", typ: target}
		}
	}
	t.fail(v, "conversion %s(%s) is not in the vocabulary", target, x.typ)
	return tfVal{}
}

// ---------------------------------------------------------------------------------------------
// statements

func tfIndent(lines []string) []string {
	out := make([]string, len(lines))
	for i, l := range lines {
		out[i] = "  " + l
	}
	return out
}

func (t *tfFn) live(x *tfVar) bool {
	for _, b := range t.env {
		if b.name == x.lean {
			return true
		}
	}
	return false
}

// aliasCheck: the slice at `expanded` is about to change structurally
func (t *tfFn) aliasCheck(n ast.Node, expanded string) {
	for _, x := range t.vars {
		if x.kind == "ref" && t.live(x) && strings.HasPrefix(x.expanded, expanded+".") {
			t.fail(n, "the slice %s changes while the handle local %s taken from it is live", expanded, x.lean)
		}
	}
}

func (t *tfFn) mutPath(n ast.Expr, want string) tfVal {
	x := t.expr(n)
	if !x.isPath || !x.mut {
		t.fail(n, "%s is not a path into an object this function may change", t.str(n))
	}
	if want != "" && x.typ != want {
		t.fail(n, "%s is a %s, not a %s", t.str(n), x.typ, want)
	}
	if t.closure {
		t.fail(n, "a function literal changes an object (%s)", t.str(n))
	}
	return x
}

func (t *tfFn) typeStr(e ast.Expr) string {
	switch v := e.(type) {
	case *ast.StarExpr:
		return "*" + t.typeStr(v.X)
	case *ast.SelectorExpr:
		if id, ok := v.X.(*ast.Ident); ok {
			return id.Name + "." + v.Sel.Name
		}
	case *ast.Ident:
		return v.Name
	}
	t.fail(e, "type %s", t.str(e))
	return ""
}

func (t *tfFn) block(list []ast.Stmt) []string {
	saved := len(t.env)
	lines := t.stmts(list)
	t.env = t.env[:saved]
	if len(lines) == 0 {
		return []string{"pure ()"}
	}
	return lines
}

func (t *tfFn) stmts(list []ast.Stmt) []string {
	var out []string
	for _, s := range list {
		out = append(out, t.stmt(s)...)
	}
	return out
}

func (t *tfFn) stmt(s ast.Stmt) []string {
	switch v := s.(type) {
	case *ast.ExprStmt:
		c, ok := v.X.(*ast.CallExpr)
		if !ok {
			t.fail(s, "expression statement %s", t.str(s))
		}
		return t.callStmt(c)
	case *ast.AssignStmt:
		return t.assign(v)
	case *ast.IncDecStmt:
		id, ok := v.X.(*ast.Ident)
		if !ok {
			t.fail(s, "%s", t.str(s))
		}
		x := t.lookup(id)
		if x == nil || x.kind != "slot" {
			t.fail(s, "%s is not an int local", id.Name)
		}
		op := "+"
		if v.Tok == token.DEC {
			op = "-"
		}
		return []string{fmt.Sprintf("setL %d ((← getL %d) %s 1)", x.slot, x.slot, op)}
	case *ast.IfStmt:
		return t.ifStmt(v)
	case *ast.ForStmt:
		return t.forStmt(v)
	case *ast.ReturnStmt:
		return t.returnStmt(v)
	case *ast.BlockStmt:
		return append([]string{"do"}, tfIndent(t.block(v.List))...)
	}
	t.fail(s, "statement %s", t.str(s))
	return nil
}

func (t *tfFn) returnStmt(v *ast.ReturnStmt) []string {
	switch t.rho {
	case "Unit":
		if len(v.Results) != 0 {
			t.fail(v, "return with a value")
		}
		return []string{"ret ()"}
	case "Bool", "Err":
		if len(v.Results) != 1 {
			t.fail(v, "return with %d values", len(v.Results))
		}
		x := t.expr(v.Results[0])
		ok := (t.rho == "Bool" && x.typ == "bool") || (t.rho == "Err" && (x.typ == "error" || x.typ == "nil"))
		if !ok {
			t.fail(v, "return of a %s", x.typ)
		}
		return []string{"ret " + tfArg(t.valueOf(v.Results[0], x))}
	}
	t.fail(v, "return")
	return nil
}

// setresCall: `P.Write()` and the like (a method that changes the object and has a result)
func (t *tfFn) setresCall(e ast.Expr) (string, string, bool) {
	c, ok := e.(*ast.CallExpr)
	if !ok {
		return "", "", false
	}
	f, ok := c.Fun.(*ast.SelectorExpr)
	if !ok {
		return "", "", false
	}
	isSetres := false
	for k, m := range tfMethods {
		if m.kind == "setres" && strings.HasSuffix(k, "."+f.Sel.Name) {
			isSetres = true
		}
	}
	if !isSetres {
		return "", "", false
	}
	x := t.mutPath(f.X, "")
	m, ok := tfMethods[x.typ+"."+f.Sel.Name]
	if !ok || m.kind != "setres" {
		t.fail(c, "%s of a %s is not in the vocabulary", f.Sel.Name, x.typ)
	}
	if len(c.Args) != 0 {
		t.fail(c, "%s takes no arguments", f.Sel.Name)
	}
	return "mutRes " + x.ref() + " (" + tfLeanMeth(x.typ, f.Sel.Name) + ")", m.res, true
}

func (t *tfFn) assign(v *ast.AssignStmt) []string {
	if len(v.Lhs) != 1 || len(v.Rhs) != 1 {
		t.fail(v, "assignment %s", t.str(v))
	}
	id, ok := v.Lhs[0].(*ast.Ident)
	if !ok {
		t.fail(v, "assignment to %s", t.str(v.Lhs[0]))
	}
	switch v.Tok {
	case token.ASSIGN:
		x := t.lookup(id)
		if x == nil || x.kind != "slot" {
			t.fail(v, "assignment to %s, which is not an int local", id.Name)
		}
		r := t.expr(v.Rhs[0])
		if !tfIntLike(r.typ) {
			t.fail(v, "assignment of a %s to an int local", r.typ)
		}
		return []string{fmt.Sprintf("setL %d %s", x.slot, tfArg(r.lean))}
	case token.DEFINE:
		if id.Name == "_" {
			t.fail(v, "blank definition")
		}
		if call, res, ok := t.setresCall(v.Rhs[0]); ok {
			x := &tfVar{kind: "val", typ: res}
			t.bind(id, x, tfLeanType(res))
			return []string{"let " + x.lean + " ← " + call}
		}
		r := t.expr(v.Rhs[0])
		switch {
		case r.typ == tfConv:
			t.vars[id.Obj] = &tfVar{kind: "conv", typ: tfConv}
			return []string{"-- " + t.str(v) + " (the converter's scratch object: not part of the model)"}
		case r.isPath && r.mut:
			if t.closure {
				t.fail(v, "a function literal takes a handle of an object of the enclosing function")
			}
			x := &tfVar{kind: "ref", typ: r.typ, expanded: r.expanded}
			t.bind(id, x, "Ref "+t.sigma+" "+tfLeanType(r.typ))
			return []string{"let " + x.lean + " := " + r.ref()}
		case r.isPath:
			x := &tfVar{kind: "vhandle", typ: r.typ}
			val := t.valueOf(v.Rhs[0], r)
			t.bind(id, x, tfLeanType(r.typ))
			return []string{"let " + x.lean + " := " + val}
		case tfIntLike(r.typ):
			x := &tfVar{kind: "slot", typ: "int", slot: t.nslot}
			t.nslot++
			t.vars[id.Obj] = x
			return []string{fmt.Sprintf("setL %d %s", x.slot, tfArg(r.lean))}
		default:
			x := &tfVar{kind: "val", typ: r.typ}
			t.bind(id, x, tfLeanType(r.typ))
			return []string{"let " + x.lean + " := " + r.lean}
		}
	}
	t.fail(v, "assignment %s", t.str(v))
	return nil
}

func (t *tfFn) ifStmt(v *ast.IfStmt) []string {
	saved := len(t.env)
	var pre []string
	if v.Init != nil {
		pre = t.stmt(v.Init)
	}
	c := t.expr(v.Cond)
	if c.typ != "bool" {
		t.fail(v.Cond, "condition of type %s", c.typ)
	}
	lines := []string{"if " + t.valueOf(v.Cond, c) + " then"}
	lines = append(lines, tfIndent(t.block(v.Body.List))...)
	switch e := v.Else.(type) {
	case nil:
	case *ast.BlockStmt:
		lines = append(lines, "else")
		lines = append(lines, tfIndent(t.block(e.List))...)
	case *ast.IfStmt:
		lines = append(lines, "else")
		lines = append(lines, tfIndent(t.ifStmt(e))...)
	default:
		t.fail(v, "else")
	}
	t.env = t.env[:saved]
	if v.Init != nil {
		return append([]string{"do"}, tfIndent(append(pre, lines...))...)
	}
	return lines
}

// assignsVar: the statements assign (or take the address of) the variable
func tfAssignsVar(n ast.Node, obj *ast.Object) bool {
	found := false
	is := func(e ast.Expr) bool {
		id, ok := e.(*ast.Ident)
		return ok && id.Obj == obj
	}
	ast.Inspect(n, func(x ast.Node) bool {
		switch s := x.(type) {
		case *ast.AssignStmt:
			for _, l := range s.Lhs {
				if is(l) && s.Tok != token.DEFINE {
					found = true
				}
			}
		case *ast.IncDecStmt:
			if is(s.X) {
				found = true
			}
		case *ast.UnaryExpr:
			if s.Op == token.AND && is(s.X) {
				found = true
			}
		case *ast.RangeStmt:
			if (s.Key != nil && is(s.Key)) || (s.Value != nil && is(s.Value)) {
				found = true
			}
		}
		return true
	})
	return found
}

func tfMentions(n ast.Node, obj *ast.Object) bool {
	found := false
	ast.Inspect(n, func(x ast.Node) bool {
		if id, ok := x.(*ast.Ident); ok && id.Obj == obj {
			found = true
		}
		return true
	})
	return found
}

func (t *tfFn) noBranch(body *ast.BlockStmt) {
	ast.Inspect(body, func(x ast.Node) bool {
		switch s := x.(type) {
		case *ast.FuncLit:
			return false
		case *ast.BranchStmt:
			t.fail(s, "%s", s.Tok)
		case *ast.LabeledStmt:
			t.fail(s, "label")
		case *ast.DeferStmt, *ast.GoStmt, *ast.SelectStmt, *ast.SendStmt:
			t.fail(s, "%s", t.str(s))
		}
		return true
	})
}

func (t *tfFn) emitDef(name, params, typ string, body []string) {
	t.defs = append(t.defs, "def "+name+" (fuel : Nat)"+params+" : "+typ+" := do\n"+strings.Join(tfIndent(body), "\n")+"\n")
}

func (t *tfFn) forStmt(v *ast.ForStmt) []string {
	t.noBranch(v.Body)
	saved := len(t.env)
	defer func() { t.env = t.env[:saved] }()
	outerArgs := t.envArgs()
	// counting loop?
	if init, ok := v.Init.(*ast.AssignStmt); ok && init.Tok == token.DEFINE && len(init.Lhs) == 1 && len(init.Rhs) == 1 {
		if id, ok := init.Lhs[0].(*ast.Ident); ok && id.Obj != nil {
			cond, okc := v.Cond.(*ast.BinaryExpr)
			post, okp := v.Post.(*ast.IncDecStmt)
			if okc && okp && cond.Op == token.LSS && post.Tok == token.INC {
				ci, ok1 := cond.X.(*ast.Ident)
				pi, ok2 := post.X.(*ast.Ident)
				if ok1 && ok2 && ci.Obj == id.Obj && pi.Obj == id.Obj && !tfAssignsVar(v.Body, id.Obj) && !tfMentions(cond.Y, id.Obj) {
					start := t.expr(init.Rhs[0])
					if !tfIntLike(start.typ) {
						t.fail(init, "loop variable of type %s", start.typ)
					}
					bound := t.expr(cond.Y)
					if !tfIntLike(bound.typ) {
						t.fail(cond, "loop bound of type %s", bound.typ)
					}
					t.nloop++
					name := fmt.Sprintf("%s_loop%d", t.lean, t.nloop)
					x := &tfVar{kind: "val", typ: "int"}
					t.bind(id, x, "Int")
					params := t.envParams()
					body := t.block(v.Body.List)
					t.emitDef(name, params, "M "+t.sigma+" "+t.rho+" Unit", body)
					return []string{"forUp fuel " + tfArg(start.lean) + " (do pure " + tfArg(bound.lean) + ") (" + name + " fuel" + outerArgs + ")"}
				}
			}
		}
	}
	// general loop
	var out []string
	if v.Init != nil {
		out = append(out, t.stmt(v.Init)...)
	}
	if v.Cond == nil {
		t.fail(v, "for without a condition")
	}
	args := t.envArgs()
	params := t.envParams()
	t.ncond++
	t.nloop++
	cname := fmt.Sprintf("%s_cond%d", t.lean, t.ncond)
	lname := fmt.Sprintf("%s_loop%d", t.lean, t.nloop)
	c := t.expr(v.Cond)
	if c.typ != "bool" {
		t.fail(v.Cond, "condition of type %s", c.typ)
	}
	t.emitDef(cname, params, "M "+t.sigma+" "+t.rho+" Bool", []string{"pure " + tfArg(c.lean)})
	inner := len(t.env)
	body := t.stmts(v.Body.List)
	t.env = t.env[:inner]
	if v.Post != nil {
		body = append(body, t.stmt(v.Post)...)
	}
	if len(body) == 0 {
		body = []string{"pure ()"}
	}
	t.emitDef(lname, params, "M "+t.sigma+" "+t.rho+" Unit", body)
	out = append(out, "whileLoop fuel ("+cname+" fuel"+args+") ("+lname+" fuel"+args+")")
	return out
}

// closureDef translates a function literal func(p.. elem) bool into a definition; the result is the term
// to pass (the definition applied to fuel and the variables in scope).
func (t *tfFn) closureDef(fl *ast.FuncLit, elem string, nparams int) string {
	if t.closure {
		t.fail(fl, "nested function literal")
	}
	if fl.Type.Results == nil || len(fl.Type.Results.List) != 1 || t.typeStr(fl.Type.Results.List[0].Type) != "bool" {
		t.fail(fl, "function literal that does not return one bool")
	}
	t.noBranch(fl.Body)
	saved := len(t.env)
	savedRho := t.rho
	outerArgs := t.envArgs()
	t.nfn++
	name := fmt.Sprintf("%s_fn%d", t.lean, t.nfn)
	t.closure, t.rho = true, "Bool"
	count := 0
	for _, f := range fl.Type.Params.List {
		if ty := t.typeStr(f.Type); ty != elem {
			t.fail(f, "parameter of type %s, expected %s", ty, elem)
		}
		names := f.Names
		if len(names) == 0 {
			names = []*ast.Ident{{Name: "_"}}
		}
		for _, n := range names {
			t.bind(n, &tfVar{kind: "vhandle", typ: elem}, tfLeanType(elem))
			count++
		}
	}
	if count != nparams {
		t.fail(fl, "function literal with %d parameters, expected %d", count, nparams)
	}
	params := t.envParams()
	body := t.block(fl.Body.List)
	t.emitDef(name, params, "M "+t.sigma+" Bool Bool", body)
	t.closure, t.rho = false, savedRho
	t.env = t.env[:saved]
	return "(" + name + " fuel" + outerArgs + ")"
}

func (t *tfFn) callTranslated(n *ast.CallExpr, sig *tfSig) []string {
	if t.closure {
		t.fail(n, "a function literal calls %s", sig.lean)
	}
	if len(n.Args) != len(sig.params) {
		t.fail(n, "%s takes %d arguments", sig.lean, len(sig.params))
	}
	if sig.res != "" {
		t.fail(n, "the result of %s is dropped", sig.lean)
	}
	ref := ""
	vals := ""
	for i, a := range n.Args {
		switch sig.params[i] {
		case "mut":
			x := t.mutPath(a, sig.ptypes[i])
			if tfMutSlice[x.typ] {
				t.aliasCheck(a, x.expanded)
			}
			if ref != "" {
				t.fail(n, "two objects to change")
			}
			ref = x.ref()
		case "conv":
			if x := t.expr(a); x.typ != tfConv {
				t.fail(a, "argument %d of %s is a %s", i+1, sig.lean, x.typ)
			}
		default:
			x := t.expr(a)
			if !tfCompat(sig.ptypes[i], x.typ) {
				t.fail(a, "argument %d of %s is a %s, not a %s", i+1, sig.lean, x.typ, sig.ptypes[i])
			}
			vals += " " + tfArg(t.valueOf(a, x))
		}
	}
	if ref == "" {
		t.fail(n, "%s changes nothing", sig.lean)
	}
	return []string{"zoom " + ref + " (" + sig.lean + " fuel" + vals + ")"}
}

func (t *tfFn) callStmt(c *ast.CallExpr) []string {
	if c.Ellipsis.IsValid() {
		t.fail(c, "variadic call")
	}
	switch f := c.Fun.(type) {
	case *ast.Ident:
		if sig, ok := t.g.sigs[f.Name]; ok && f.Obj != nil && f.Obj.Kind == ast.Fun {
			return t.callTranslated(c, sig)
		}
		t.fail(c, "call of %s", f.Name)
	case *ast.SelectorExpr:
		if id, ok := f.X.(*ast.Ident); ok && id.Obj == nil {
			t.fail(c, "call of %s.%s as a statement", id.Name, f.Sel.Name)
		}
		recv := t.expr(f.X)
		name := f.Sel.Name
		if recv.typ == tfConv {
			if tfConvLib[name] {
				if len(c.Args) != 2 {
					t.fail(c, "%s takes two arguments", name)
				}
				m := t.expr(c.Args[0])
				if m.typ != "pcommon.Map" {
					t.fail(c.Args[0], "first argument of %s is a %s", name, m.typ)
				}
				dst := t.mutPath(c.Args[1], "otelstef.Attributes")
				return []string{"mutate " + dst.ref() + " (" + tfLeanMeth(tfConv, name) + " " + tfArg(t.valueOf(c.Args[0], m)) + ")"}
			}
			if sig, ok := t.g.sigs[tfConv+"."+name]; ok {
				return t.callTranslated(c, sig)
			}
			t.fail(c, "method %s of the converter object is not in the vocabulary", name)
		}
		if !recv.isPath {
			t.fail(c, "call of %s on a %s", name, recv.typ)
		}
		m, ok := tfMethods[recv.typ+"."+name]
		if !ok {
			t.fail(c, "%s of a %s is not in the vocabulary", name, recv.typ)
		}
		switch m.kind {
		case "set":
			x := t.mutPath(f.X, "")
			return []string{"mutate " + x.ref() + " (" + tfLeanMeth(x.typ, name) + t.args(c, name, m.args, c.Args) + ")"}
		case "setres":
			call, _, _ := t.setresCall(c)
			return []string{"let _ ← " + call}
		case "sort", "removeIf":
			x := t.mutPath(f.X, "")
			t.aliasCheck(c, x.expanded)
			if len(c.Args) != 1 {
				t.fail(c, "%s takes one argument", name)
			}
			fl, ok := c.Args[0].(*ast.FuncLit)
			if !ok {
				t.fail(c.Args[0], "the argument of %s is not a function literal", name)
			}
			if m.kind == "sort" {
				return []string{"sortBy " + x.ref() + " " + t.closureDef(fl, tfSliceElem[x.typ], 2)}
			}
			return []string{"removeIf " + x.ref() + " " + t.closureDef(fl, tfSliceElem[x.typ], 1)}
		case "moveAppend":
			x := t.mutPath(f.X, "")
			if len(c.Args) != 1 {
				t.fail(c, "%s takes one argument", name)
			}
			y := t.mutPath(c.Args[0], x.typ)
			if x.ref() == y.ref() {
				t.fail(c, "MoveAndAppendTo of a slice to itself")
			}
			t.aliasCheck(c, x.expanded)
			t.aliasCheck(c, y.expanded)
			return []string{"moveAndAppendTo " + x.ref() + " " + y.ref()}
		}
		t.fail(c, "%s.%s as a statement", recv.typ, name)
	}
	t.fail(c, "call %s", t.str(c))
	return nil
}

// ---------------------------------------------------------------------------------------------
// functions

var tfSpecs = []tfSpec{
	{"go/pdata/internal/otlptools/otlpval2tef.go", "otlptools.Otlp2Stef", "ResourceUnsorted", "resourceUnsorted"},
	{"go/pdata/internal/otlptools/otlpval2tef.go", "otlptools.Otlp2Stef", "ScopeUnsorted", "scopeUnsorted"},
	{"go/pdata/traces/otlp2stef_unsorted.go", "", "event2event", "event2event"},
	{"go/pdata/traces/otlp2stef_unsorted.go", "", "link2link", "link2link"},
	{"go/pdata/traces/otlp2stef_unsorted.go", "", "span2span", "span2span"},
	{"go/pdata/traces/otlp2stef_unsorted.go", "", "sortSpans", "sortSpans"},
	{"go/pdata/traces/otlp2stef_unsorted.go", "traces.OtlpToStefUnsorted", "Convert", "convert"},
}

func tfRootObj(e ast.Expr) *ast.Object {
	for {
		switch v := e.(type) {
		case *ast.Ident:
			return v.Obj
		case *ast.SelectorExpr:
			e = v.X
		case *ast.CallExpr:
			e = v.Fun
		case *ast.ParenExpr:
			e = v.X
		case *ast.StarExpr:
			e = v.X
		case *ast.UnaryExpr:
			e = v.X
		default:
			return nil
		}
	}
}

// mutatedParams: the parameters (by object) through which the body changes a pdata slice
func (g *tfGen) mutatedParams(fd *ast.FuncDecl) map[*ast.Object]bool {
	origin := map[*ast.Object]*ast.Object{}
	resolve := func(o *ast.Object) *ast.Object {
		for o != nil {
			n, ok := origin[o]
			if !ok {
				return o
			}
			o = n
		}
		return nil
	}
	out := map[*ast.Object]bool{}
	ast.Inspect(fd.Body, func(n ast.Node) bool {
		switch v := n.(type) {
		case *ast.AssignStmt:
			if v.Tok == token.DEFINE && len(v.Lhs) == 1 && len(v.Rhs) == 1 {
				if id, ok := v.Lhs[0].(*ast.Ident); ok && id.Obj != nil {
					if r := tfRootObj(v.Rhs[0]); r != nil && r != id.Obj {
						origin[id.Obj] = r
					}
				}
			}
		case *ast.CallExpr:
			switch f := v.Fun.(type) {
			case *ast.SelectorExpr:
				switch f.Sel.Name {
				case "Sort", "RemoveIf", "MoveAndAppendTo":
					out[resolve(tfRootObj(f.X))] = true
					for _, a := range v.Args {
						if _, isLit := a.(*ast.FuncLit); !isLit {
							out[resolve(tfRootObj(a))] = true
						}
					}
				}
			case *ast.Ident:
				if sig, ok := g.sigs[f.Name]; ok && len(sig.params) == len(v.Args) {
					for i, a := range v.Args {
						if sig.params[i] == "mut" && strings.HasPrefix(sig.ptypes[i], "p") {
							out[resolve(tfRootObj(a))] = true
						}
					}
				}
			}
		}
		return true
	})
	return out
}

func (g *tfGen) translate(sp tfSpec) string {
	fset, file := parseFile(sp.file)
	var fd *ast.FuncDecl
	for _, d := range file.Decls {
		f, ok := d.(*ast.FuncDecl)
		if !ok || f.Name.Name != sp.name || f.Body == nil {
			continue
		}
		recv := ""
		if f.Recv != nil && len(f.Recv.List) == 1 {
			if st, ok := f.Recv.List[0].Type.(*ast.StarExpr); ok {
				if id, ok := st.X.(*ast.Ident); ok {
					recv = file.Name.Name + "." + id.Name
				}
			}
			if recv == "" {
				continue
			}
		}
		if recv == sp.recv {
			fd = f
		}
	}
	if fd == nil {
		die("TracesFlow: %s: function %s (receiver %q) not found", sp.file, sp.name, sp.recv)
	}
	t := &tfFn{g: g, fset: fset, where: sp.file + " " + sp.name, lean: sp.lean, vars: map[*ast.Object]*tfVar{}, used: map[string]bool{},
		recvType: sp.recv}
	if fd.Type.TypeParams != nil {
		t.fail(fd, "type parameters")
	}
	sig := &tfSig{lean: sp.lean}
	// result
	t.rho = "Unit"
	if fd.Type.Results != nil {
		if len(fd.Type.Results.List) != 1 || len(fd.Type.Results.List[0].Names) != 0 || t.typeStr(fd.Type.Results.List[0].Type) != "error" {
			t.fail(fd, "results other than one unnamed error")
		}
		t.rho, sig.res = "Err", "error"
	}
	// receiver
	if fd.Recv != nil {
		names := fd.Recv.List[0].Names
		if len(names) == 1 && names[0].Obj != nil {
			if sp.recv == tfConv {
				t.vars[names[0].Obj] = &tfVar{kind: "conv", typ: tfConv}
			} else {
				t.vars[names[0].Obj] = &tfVar{kind: "recv", typ: sp.recv}
				var fields []string
				for f, ty := range tfRecvFields[sp.recv] {
					if ty == "bool" {
						fields = append(fields, f)
					}
				}
				sortStrings(fields)
				for _, f := range fields {
					n := names[0].Name + "_" + f
					t.used[n] = true
					t.env = append(t.env, tfBind{n, "Bool"})
				}
			}
		}
	}
	// parameters
	mutated := g.mutatedParams(fd)
	type root struct {
		id  *ast.Ident
		typ string
	}
	var roots []root
	type valp struct {
		id  *ast.Ident
		typ string
	}
	var vals []valp
	for _, f := range fd.Type.Params.List {
		ty := t.typeStr(f.Type)
		if len(f.Names) == 0 {
			t.fail(f, "unnamed parameter")
		}
		for _, n := range f.Names {
			switch {
			case ty == "*"+tfConv:
				sig.params, sig.ptypes = append(sig.params, "conv"), append(sig.ptypes, tfConv)
				if n.Obj != nil {
					t.vars[n.Obj] = &tfVar{kind: "conv", typ: tfConv}
				}
			case strings.HasPrefix(ty, "*otelstef.") && tfHandle[ty[1:]]:
				sig.params, sig.ptypes = append(sig.params, "mut"), append(sig.ptypes, ty[1:])
				roots = append(roots, root{n, ty[1:]})
			case tfHandle[ty] && !strings.HasPrefix(ty, "otelstef."):
				if mutated[n.Obj] {
					sig.params, sig.ptypes = append(sig.params, "mut"), append(sig.ptypes, ty)
					roots = append(roots, root{n, ty})
				} else {
					sig.params, sig.ptypes = append(sig.params, "val"), append(sig.ptypes, ty)
					vals = append(vals, valp{n, ty})
				}
			case ty == "string" || ty == "bool":
				sig.params, sig.ptypes = append(sig.params, "val"), append(sig.ptypes, ty)
				vals = append(vals, valp{n, ty})
			default:
				t.fail(f, "parameter of type %s", ty)
			}
		}
	}
	switch len(roots) {
	case 1:
		t.sigma = tfLeanType(roots[0].typ)
		t.vars[roots[0].id.Obj] = &tfVar{kind: "mutroot", lean: "Ref.id", typ: roots[0].typ, expanded: roots[0].id.Name}
	case 2:
		t.sigma = "(" + tfLeanType(roots[0].typ) + " × " + tfLeanType(roots[1].typ) + ")"
		t.vars[roots[0].id.Obj] = &tfVar{kind: "mutroot", lean: "Ref.fst", typ: roots[0].typ, expanded: roots[0].id.Name}
		t.vars[roots[1].id.Obj] = &tfVar{kind: "mutroot", lean: "Ref.snd", typ: roots[1].typ, expanded: roots[1].id.Name}
		if strings.HasPrefix(roots[0].typ, "otelstef.") == strings.HasPrefix(roots[1].typ, "otelstef.") {
			t.fail(fd, "two changed objects of the same family could alias")
		}
	default:
		t.fail(fd, "%d objects that the function changes (1 or 2 expected)", len(roots))
	}
	for _, v := range vals {
		x := &tfVar{kind: "val", typ: v.typ}
		if tfHandle[v.typ] {
			x.kind = "vhandle"
		}
		t.bind(v.id, x, tfLeanType(v.typ))
	}
	key := sp.name
	if sp.recv != "" {
		key = sp.recv + "." + sp.name
	}
	params := t.envParams()
	t.noBranch(fd.Body)
	body := t.block(fd.Body.List)
	g.sigs[key] = sig
	var sb strings.Builder
	for _, d := range t.defs {
		fmt.Fprintf(&sb, "/-- part of `%s` (%s) -/\n%s\n", sp.name, sp.file, d)
	}
	fmt.Fprintf(&sb, "/-- %s `func %s%s` -/\n", sp.file, tfRecvText(t, fd), strings.TrimPrefix(exprStringOfFuncType(fset, fd.Type), "func"))
	fmt.Fprintf(&sb, "def %s (fuel : Nat)%s : M %s %s %s := do\n%s\n", sp.lean, params, t.sigma, t.rho, t.rho, strings.Join(tfIndent(body), "\n"))
	return sb.String()
}

func tfRecvText(t *tfFn, fd *ast.FuncDecl) string {
	if fd.Recv == nil {
		return fd.Name.Name
	}
	return "(" + t.str(fd.Recv.List[0].Type) + ") " + fd.Name.Name
}

func sortStrings(s []string) {
	for i := 1; i < len(s); i++ {
		for j := i; j > 0 && s[j] < s[j-1]; j-- {
			s[j], s[j-1] = s[j-1], s[j]
		}
	}
}

func genTracesFlow() {
	g := &tfGen{sigs: map[string]*tfSig{}}
	var sb strings.Builder
	sb.WriteString("/- GENERATED by /verif/extract (tracesflow.go) from go/pdata/traces/otlp2stef_unsorted.go (Convert, sortSpans,\n")
	sb.WriteString("   span2span, link2link, event2event) and go/pdata/internal/otlptools/otlpval2tef.go (ResourceUnsorted,\n")
	sb.WriteString("   ScopeUnsorted). Do not edit. Vocabulary: Stef/TracesFlowSem.lean. -/\n")
	sb.WriteString("import Stef.TracesFlowSem\n\nset_option linter.unusedVariables false\n\nnamespace Stef.Gen.TracesFlow\nopen Stef.TracesFlowSem\n\n")
	for _, sp := range tfSpecs {
		sb.WriteString(g.translate(sp))
		sb.WriteString("\n")
	}
	sb.WriteString("end Stef.Gen.TracesFlow\n")
	writeOut("TracesFlow.lean", sb.String())
}
