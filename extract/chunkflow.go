package main

// genChunkFlow regenerates lean/Stef/Gen/ChunkFlow.lean: the gRPC chunk transport of go/grpc, translated
// statement by statement from the Go AST (go/parser + go/ast only) into DATA of the statement language of
// lean/Stef/ChunkFlowSem.lean (the hand-written interpreter):
//
//   srcRecvMsgBody  <- func (r *grpcChunkSource) recvMsg() (tefBytes []byte, isEndOfChunk bool, err error)   server.go
//   asmRecvMsgBody  <- func (g *chunkAssembler) recvMsg() (chunkBytes []byte, err error)                      server.go
//   readBody        <- func (g *chunkAssembler) Read(p []byte) (n int, err error)                             server.go
//   writeChunkBody  <- func (w *grpcWriter) WriteChunk(header []byte, content []byte) error                   client.go
//   newChunkAssembler, stats (shape-checked), streamFreshAssembler (StreamServer.Stream hands a NEW assembler
//   over a NEW grpcChunkSource of its own stream to the callback, and receives synchronously).
//
// The order of the statements, the conditions and what is assigned to what are those of the source; locals are
// numbered per kind in order of declaration (names do not matter). The subset:
//
//   stmt  ::= var x T | x := e | x = e | x += e | x++ | a, b = e1, e2 | if [init;] cond {..} [else ..] | for {..}
//           | continue | return e.. | switch { case cond: .. default: .. } | {..}
//           | s, b, err := g.source.recvMsg() | data, err := g.recvMsg() | m, err := r.serverStream.Recv()
//           | err := w.stream.Send(&w.request) | x = copy(p, slice) | return copy(p, slice), <const>
//           | g.statsMux.Lock() | g.statsMux.Unlock()
//   slice ::= nil | local | g.buf | w.request.StefBytes | m.StefBytes | slice[i:] | slice[:i] | append(slice, slice...)
//   int   ::= literal | local | g.readIndex | g.stats.MessagesReceived | g.stats.BytesReceived | r.messagesReceived
//           | len(slice) | int + int | uint64(int) / int(int) / ..
//   bool  ::= true | false | local | m.IsEndOfChunk | slice ==/!= nil | err ==/!= nil | int (>= > <= < == !=) int
//           | && | || | !
//   error ::= nil | err local | T{..} | fmt.Errorf(..) | errors.New(..)
//
// Anything else - a `go` statement, `defer`, `select`, a channel, `sync.Pool`, another field of a receiver, another
// call, `break`, a `for` with a condition, a bare `return` - makes this generator fail (die) with a message
// naming the construct; that costs C15 its tie and nothing else.

import (
	"fmt"
	"go/ast"
	"go/printer"
	"go/token"
	"strings"
)

func init() { register("ChunkFlow", genChunkFlow) }

type cfKind int

const (
	cfSlice cfKind = iota
	cfInt
	cfBool
	cfErr // lives in the store of the booleans (true = non-nil)
	cfMsg
)

var cfKindName = map[cfKind]string{cfSlice: "[]byte", cfInt: "int", cfBool: "bool", cfErr: "error", cfMsg: "message"}

type cfRole int

const (
	cfRoleSrc cfRole = iota
	cfRoleAsmRecv
	cfRoleRead
	cfRoleWrite
)

type cfVar struct {
	kind cfKind
	idx  int
}

type cfNode struct {
	kind string // "leaf", "ite", "loop"
	text string
	a, b []*cfNode
}

func cfLeaf(f string, a ...any) *cfNode { return &cfNode{kind: "leaf", text: fmt.Sprintf(f, a...)} }

func cfRender(ns []*cfNode, ind string) string {
	if len(ns) == 0 {
		return ".skip"
	}
	var parts []string
	for _, n := range ns {
		parts = append(parts, n.render(ind))
	}
	return strings.Join(parts, " ;;\n"+ind)
}

func (n *cfNode) render(ind string) string {
	switch n.kind {
	case "ite":
		return ".ite " + n.text + "\n" + ind + "  (" + cfRender(n.a, ind+"    ") + ")\n" + ind + "  (" + cfRender(n.b, ind+"    ") + ")"
	case "loop":
		return ".loop\n" + ind + "  (" + cfRender(n.a, ind+"    ") + ")"
	}
	return n.text
}

type cfTrans struct {
	fset    *token.FileSet
	file    string
	fn      string
	role    cfRole
	recv    string
	scopes  []map[string]cfVar
	count   [3]int // next index: slices, ints, booleans+errors  (messages: countMsg)
	nmsg    int
	names   [4][]string // declared names per store, for the comment
	results []cfKind
	loops   int
}

func (t *cfTrans) str(n ast.Node) string {
	var sb strings.Builder
	printer.Fprint(&sb, t.fset, n)
	return sb.String()
}

func (t *cfTrans) fail(n ast.Node, f string, a ...any) {
	die("%s: %s at %s: %s (outside the translated Go subset)", t.file, t.fn, t.fset.Position(n.Pos()), fmt.Sprintf(f, a...))
}

func (t *cfTrans) push() { t.scopes = append(t.scopes, map[string]cfVar{}) }
func (t *cfTrans) pop()  { t.scopes = t.scopes[:len(t.scopes)-1] }

func cfStore(k cfKind) int {
	switch k {
	case cfSlice:
		return 0
	case cfInt:
		return 1
	case cfBool, cfErr:
		return 2
	}
	return 3
}

// fresh allocates the next local of the kind's store.
func (t *cfTrans) fresh(name string, k cfKind) int {
	st := cfStore(k)
	var i int
	if st == 3 {
		i = t.nmsg
		t.nmsg++
	} else {
		i = t.count[st]
		t.count[st]++
	}
	t.names[st] = append(t.names[st], fmt.Sprintf("%d=%s", i, name))
	return i
}

// declare introduces `name` in the innermost scope.
func (t *cfTrans) declare(at ast.Node, name string, k cfKind) int {
	if name == t.recv {
		t.fail(at, "a local named like the receiver `%s`", name)
	}
	i := t.fresh(name, k)
	if name != "_" {
		t.scopes[len(t.scopes)-1][name] = cfVar{k, i}
	}
	return i
}

// define is `name :=`: a variable of the innermost scope is reused (Go's redeclaration rule), else a new one.
func (t *cfTrans) define(at ast.Node, name string, k cfKind) int {
	if v, ok := t.scopes[len(t.scopes)-1][name]; ok && name != "_" {
		if v.kind != k {
			t.fail(at, "`%s` redeclared with another type", name)
		}
		return v.idx
	}
	return t.declare(at, name, k)
}

func (t *cfTrans) lookup(name string) (cfVar, bool) {
	for i := len(t.scopes) - 1; i >= 0; i-- {
		if v, ok := t.scopes[i][name]; ok {
			return v, true
		}
	}
	return cfVar{}, false
}

func cfUnparen(e ast.Expr) ast.Expr {
	for {
		p, ok := e.(*ast.ParenExpr)
		if !ok {
			return e
		}
		e = p.X
	}
}

func cfIsIdent(e ast.Expr, name string) bool {
	id, ok := cfUnparen(e).(*ast.Ident)
	return ok && id.Name == name
}

// path renders a selector chain; the receiver is written "$". "" if the expression is not such a chain
// or starts at a local variable.
func (t *cfTrans) path(e ast.Expr) string {
	switch v := cfUnparen(e).(type) {
	case *ast.Ident:
		if _, isLocal := t.lookup(v.Name); isLocal {
			return ""
		}
		if v.Name == t.recv {
			return "$"
		}
		return v.Name
	case *ast.SelectorExpr:
		p := t.path(v.X)
		if p == "" {
			return ""
		}
		return p + "." + v.Sel.Name
	}
	return ""
}

// msgField: <message local>.<Field>
func (t *cfTrans) msgField(e ast.Expr) (idx int, field string, ok bool) {
	se, isSel := cfUnparen(e).(*ast.SelectorExpr)
	if !isSel {
		return 0, "", false
	}
	id, isId := cfUnparen(se.X).(*ast.Ident)
	if !isId {
		return 0, "", false
	}
	v, found := t.lookup(id.Name)
	if !found || v.kind != cfMsg {
		return 0, "", false
	}
	return v.idx, se.Sel.Name, true
}

// the fields of the receivers that the model has, by role
func (t *cfTrans) fieldKind(p string) (cfKind, string, bool) {
	switch t.role {
	case cfRoleAsmRecv, cfRoleRead:
		switch p {
		case "$.buf":
			return cfSlice, ".buf", true
		case "$.readIndex":
			return cfInt, ".readIndex", true
		case "$.stats.MessagesReceived":
			return cfInt, ".statMsgs", true
		case "$.stats.BytesReceived":
			return cfInt, ".statBytes", true
		}
	case cfRoleSrc:
		if p == "$.messagesReceived" {
			return cfInt, ".srcMsgs", true
		}
	case cfRoleWrite:
		switch p {
		case "$.request.StefBytes":
			return cfSlice, ".req", true
		case "$.request.IsEndOfChunk":
			return cfBool, "reqEoc", true
		}
	}
	return 0, "", false
}

var cfIntConv = map[string]bool{"int": true, "uint": true, "uint64": true, "int64": true, "uint32": true, "int32": true}

// kindOf classifies an expression without translating it.
func (t *cfTrans) kindOf(e ast.Expr) (cfKind, bool) {
	switch v := cfUnparen(e).(type) {
	case *ast.BasicLit:
		if v.Kind == token.INT {
			return cfInt, true
		}
	case *ast.Ident:
		if lv, ok := t.lookup(v.Name); ok {
			return lv.kind, true
		}
		if v.Name == "true" || v.Name == "false" {
			return cfBool, true
		}
	case *ast.SelectorExpr:
		if _, f, ok := t.msgField(v); ok {
			switch f {
			case "StefBytes":
				return cfSlice, true
			case "IsEndOfChunk":
				return cfBool, true
			}
			return 0, false
		}
		if k, _, ok := t.fieldKind(t.path(v)); ok {
			return k, true
		}
	case *ast.SliceExpr:
		return cfSlice, true
	case *ast.CallExpr:
		if id, ok := v.Fun.(*ast.Ident); ok {
			if _, shadow := t.lookup(id.Name); !shadow {
				switch {
				case id.Name == "append":
					return cfSlice, true
				case id.Name == "len" || id.Name == "copy" || cfIntConv[id.Name]:
					return cfInt, true
				}
			}
		}
		switch t.str(v.Fun) {
		case "fmt.Errorf", "errors.New":
			return cfErr, true
		}
	case *ast.CompositeLit:
		return cfErr, true
	case *ast.BinaryExpr:
		switch v.Op {
		case token.ADD:
			return cfInt, true
		case token.EQL, token.NEQ, token.LSS, token.GTR, token.LEQ, token.GEQ, token.LAND, token.LOR:
			return cfBool, true
		}
	case *ast.UnaryExpr:
		if v.Op == token.NOT {
			return cfBool, true
		}
	}
	return 0, false
}

func (t *cfTrans) builtin(ce *ast.CallExpr) string {
	id, ok := ce.Fun.(*ast.Ident)
	if !ok {
		return ""
	}
	if _, shadow := t.lookup(id.Name); shadow {
		return ""
	}
	return id.Name
}

func (t *cfTrans) sliceExpr(e ast.Expr) string {
	e = cfUnparen(e)
	switch v := e.(type) {
	case *ast.Ident:
		if lv, ok := t.lookup(v.Name); ok {
			if lv.kind != cfSlice {
				t.fail(e, "`%s` is not a []byte", v.Name)
			}
			return fmt.Sprintf("(.var %d)", lv.idx)
		}
		if v.Name == "nil" {
			return ".nil"
		}
	case *ast.SelectorExpr:
		if i, f, ok := t.msgField(v); ok && f == "StefBytes" {
			return fmt.Sprintf("(.msg %d)", i)
		}
		if k, l, ok := t.fieldKind(t.path(v)); ok && k == cfSlice {
			return l
		}
	case *ast.SliceExpr:
		if v.Slice3 {
			t.fail(e, "three-index slice `%s`", t.str(e))
		}
		x := t.sliceExpr(v.X)
		switch {
		case v.Low == nil && v.High == nil:
			return x
		case v.Low != nil && v.High == nil:
			return fmt.Sprintf("(.from %s %s)", x, t.intExpr(v.Low))
		case v.Low == nil && v.High != nil:
			return fmt.Sprintf("(.upto %s %s)", x, t.intExpr(v.High))
		}
		t.fail(e, "slice expression with both bounds `%s`", t.str(e))
	case *ast.CallExpr:
		if t.builtin(v) == "append" {
			if len(v.Args) != 2 || !v.Ellipsis.IsValid() {
				t.fail(e, "`%s`: only append(a, b...) of two byte slices", t.str(e))
			}
			return fmt.Sprintf("(.append %s %s)", t.sliceExpr(v.Args[0]), t.sliceExpr(v.Args[1]))
		}
	}
	t.fail(e, "[]byte expression `%s`", t.str(e))
	return ""
}

func (t *cfTrans) ivar(e ast.Expr) string {
	e = cfUnparen(e)
	switch v := e.(type) {
	case *ast.Ident:
		if lv, ok := t.lookup(v.Name); ok && lv.kind == cfInt {
			return fmt.Sprintf("(.loc %d)", lv.idx)
		}
	case *ast.SelectorExpr:
		if k, l, ok := t.fieldKind(t.path(v)); ok && k == cfInt {
			return l
		}
	}
	t.fail(e, "integer variable `%s`", t.str(e))
	return ""
}

func (t *cfTrans) intExpr(e ast.Expr) string {
	e = cfUnparen(e)
	switch v := e.(type) {
	case *ast.BasicLit:
		if v.Kind == token.INT {
			env := &constEnv{}
			return fmt.Sprintf("(.lit %s)", bigOf(env.eval(v)).String())
		}
	case *ast.Ident, *ast.SelectorExpr:
		return fmt.Sprintf("(.get %s)", t.ivar(e))
	case *ast.CallExpr:
		b := t.builtin(v)
		switch {
		case b == "len" && len(v.Args) == 1:
			return fmt.Sprintf("(.len %s)", t.sliceExpr(v.Args[0]))
		case cfIntConv[b] && len(v.Args) == 1:
			return t.intExpr(v.Args[0]) // integers are Nat in the model
		case b == "copy":
			t.fail(e, "`%s`: copy(..) is translated only as the whole right-hand side of an assignment or a whole return operand", t.str(e))
		}
	case *ast.BinaryExpr:
		if v.Op == token.ADD {
			return fmt.Sprintf("(.add %s %s)", t.intExpr(v.X), t.intExpr(v.Y))
		}
	}
	t.fail(e, "integer expression `%s`", t.str(e))
	return ""
}

var cfCmp = map[token.Token]string{token.GEQ: ".ge", token.GTR: ".gt", token.LEQ: ".le", token.LSS: ".lt", token.EQL: ".eq", token.NEQ: ".ne"}

func (t *cfTrans) isNil(e ast.Expr) bool {
	id, ok := cfUnparen(e).(*ast.Ident)
	if !ok || id.Name != "nil" {
		return false
	}
	_, shadow := t.lookup("nil")
	return !shadow
}

func (t *cfTrans) boolExpr(e ast.Expr) string {
	e = cfUnparen(e)
	switch v := e.(type) {
	case *ast.Ident:
		if lv, ok := t.lookup(v.Name); ok {
			if lv.kind == cfBool {
				return fmt.Sprintf("(.var %d)", lv.idx)
			}
		} else if v.Name == "true" || v.Name == "false" {
			return fmt.Sprintf("(.lit %s)", v.Name)
		}
	case *ast.SelectorExpr:
		if i, f, ok := t.msgField(v); ok && f == "IsEndOfChunk" {
			return fmt.Sprintf("(.msgEoc %d)", i)
		}
	case *ast.UnaryExpr:
		if v.Op == token.NOT {
			return fmt.Sprintf("(.not %s)", t.boolExpr(v.X))
		}
	case *ast.BinaryExpr:
		switch v.Op {
		case token.LAND:
			return fmt.Sprintf("(.and %s %s)", t.boolExpr(v.X), t.boolExpr(v.Y))
		case token.LOR:
			return fmt.Sprintf("(.or %s %s)", t.boolExpr(v.X), t.boolExpr(v.Y))
		}
		if op, ok := cfCmp[v.Op]; ok {
			x, y := v.X, v.Y
			if t.isNil(x) {
				x, y = y, x
			}
			if t.isNil(y) {
				if v.Op != token.EQL && v.Op != token.NEQ {
					t.fail(e, "comparison with nil `%s`", t.str(e))
				}
				k, ok := t.kindOf(x)
				if !ok {
					t.fail(e, "`%s` compared with nil", t.str(x))
				}
				var pos string
				switch k {
				case cfErr: // err != nil is the error local itself
					id, isId := cfUnparen(x).(*ast.Ident)
					if !isId {
						t.fail(e, "`%s` compared with nil is not an error local", t.str(x))
					}
					lv, _ := t.lookup(id.Name)
					pos = fmt.Sprintf("(.var %d)", lv.idx)
					if v.Op == token.EQL {
						return fmt.Sprintf("(.not %s)", pos)
					}
					return pos
				case cfSlice:
					pos = fmt.Sprintf("(.isNil %s)", t.sliceExpr(x))
					if v.Op == token.NEQ {
						return fmt.Sprintf("(.not %s)", pos)
					}
					return pos
				}
				t.fail(e, "`%s` compared with nil", t.str(x))
			}
			kx, okx := t.kindOf(x)
			ky, oky := t.kindOf(y)
			if okx && oky && kx == cfInt && ky == cfInt {
				return fmt.Sprintf("(.cmp %s %s %s)", op, t.intExpr(x), t.intExpr(y))
			}
		}
	}
	t.fail(e, "condition `%s`", t.str(e))
	return ""
}

// errExpr: an error value as "is non-nil".
func (t *cfTrans) errExpr(e ast.Expr) string {
	e = cfUnparen(e)
	if t.isNil(e) {
		return "(.lit false)"
	}
	switch v := e.(type) {
	case *ast.Ident:
		if lv, ok := t.lookup(v.Name); ok && lv.kind == cfErr {
			return fmt.Sprintf("(.var %d)", lv.idx)
		}
	case *ast.CompositeLit:
		return "(.lit true)" // a value of an error type, e.g. SendError{err: err}
	case *ast.CallExpr:
		switch t.str(v.Fun) {
		case "fmt.Errorf", "errors.New":
			return "(.lit true)"
		}
	}
	t.fail(e, "error value `%s`", t.str(e))
	return ""
}

func (t *cfTrans) exprOfKind(e ast.Expr, k cfKind) string {
	switch k {
	case cfSlice:
		return t.sliceExpr(e)
	case cfInt:
		return t.intExpr(e)
	case cfBool:
		return t.boolExpr(e)
	case cfErr:
		return t.errExpr(e)
	}
	t.fail(e, "a value of kind %s cannot be assigned", cfKindName[k])
	return ""
}

// copyCall: copy(<slice local>, <slice expr>)
func (t *cfTrans) copyCall(e ast.Expr) (dst int, src string, ok bool) {
	ce, isCall := cfUnparen(e).(*ast.CallExpr)
	if !isCall || t.builtin(ce) != "copy" {
		return 0, "", false
	}
	if len(ce.Args) != 2 {
		t.fail(e, "`%s`", t.str(e))
	}
	id, isId := cfUnparen(ce.Args[0]).(*ast.Ident)
	if !isId {
		t.fail(e, "`%s`: the destination of copy must be a []byte local", t.str(e))
	}
	lv, found := t.lookup(id.Name)
	if !found || lv.kind != cfSlice {
		t.fail(e, "`%s`: the destination of copy must be a []byte local", t.str(e))
	}
	return lv.idx, t.sliceExpr(ce.Args[1]), true
}

// the calls of translated functions / of gRPC: what they return, by role
type cfCallSig struct {
	ctor  string
	kinds []cfKind
}

func (t *cfTrans) knownCall(e ast.Expr) (cfCallSig, bool) {
	ce, ok := cfUnparen(e).(*ast.CallExpr)
	if !ok {
		return cfCallSig{}, false
	}
	p := t.path(ce.Fun)
	switch {
	case p == "$.source.recvMsg" && len(ce.Args) == 0 && (t.role == cfRoleAsmRecv || t.role == cfRoleRead):
		return cfCallSig{".srcRecv", []cfKind{cfSlice, cfBool, cfErr}}, true
	case p == "$.recvMsg" && len(ce.Args) == 0 && t.role == cfRoleRead:
		return cfCallSig{".asmRecv", []cfKind{cfSlice, cfErr}}, true
	case p == "$.serverStream.Recv" && len(ce.Args) == 0 && t.role == cfRoleSrc:
		return cfCallSig{".streamRecv", []cfKind{cfMsg, cfErr}}, true
	case p == "$.stream.Send" && len(ce.Args) == 1 && t.role == cfRoleWrite:
		u, isAddr := cfUnparen(ce.Args[0]).(*ast.UnaryExpr)
		if !isAddr || u.Op != token.AND || t.path(u.X) != "$.request" {
			t.fail(e, "`%s`: the message sent must be &%s.request", t.str(e), t.recv)
		}
		return cfCallSig{".send", []cfKind{cfErr}}, true
	}
	return cfCallSig{}, false
}

func (t *cfTrans) assignTo(lhs ast.Expr, k cfKind, val string) *cfNode {
	lhs = cfUnparen(lhs)
	if id, ok := lhs.(*ast.Ident); ok {
		lv, found := t.lookup(id.Name)
		if !found {
			t.fail(lhs, "assignment to `%s`, which is not a local", id.Name)
		}
		if lv.kind != k {
			t.fail(lhs, "assignment of a %s to `%s`", cfKindName[k], id.Name)
		}
		switch k {
		case cfSlice:
			return cfLeaf(".setS %d %s", lv.idx, val)
		case cfInt:
			return cfLeaf(".setI (.loc %d) %s", lv.idx, val)
		case cfBool, cfErr:
			return cfLeaf(".setB %d %s", lv.idx, val)
		}
		t.fail(lhs, "assignment to `%s`", id.Name)
	}
	fk, l, ok := t.fieldKind(t.path(lhs))
	if !ok || fk != k {
		t.fail(lhs, "assignment to `%s`", t.str(lhs))
	}
	switch l {
	case ".buf":
		return cfLeaf(".setBuf %s", val)
	case ".req":
		return cfLeaf(".setReq %s", val)
	case "reqEoc":
		return cfLeaf(".setReqEoc %s", val)
	}
	return cfLeaf(".setI %s %s", l, val)
}

func (t *cfTrans) lhsKind(lhs ast.Expr) cfKind {
	lhs = cfUnparen(lhs)
	if id, ok := lhs.(*ast.Ident); ok {
		if lv, found := t.lookup(id.Name); found {
			return lv.kind
		}
		t.fail(lhs, "assignment to `%s`, which is not a local", id.Name)
	}
	k, _, ok := t.fieldKind(t.path(lhs))
	if !ok {
		t.fail(lhs, "assignment to `%s`", t.str(lhs))
	}
	return k
}

// hasEffect: the expression contains a call other than len / append / conversions.
func (t *cfTrans) hasEffect(e ast.Expr) bool {
	found := false
	ast.Inspect(e, func(n ast.Node) bool {
		if ce, ok := n.(*ast.CallExpr); ok {
			b := t.builtin(ce)
			f := t.str(ce.Fun)
			if !(b == "len" || b == "append" || cfIntConv[b] || f == "fmt.Errorf" || f == "errors.New") {
				found = true
			}
		}
		return true
	})
	return found
}

func (t *cfTrans) assign(s *ast.AssignStmt) []*cfNode {
	// (a) one call with several results / a call of the model
	if len(s.Rhs) == 1 {
		if sig, ok := t.knownCall(s.Rhs[0]); ok {
			if len(s.Lhs) != len(sig.kinds) {
				t.fail(s, "`%s`: %d results expected", t.str(s), len(sig.kinds))
			}
			if s.Tok != token.DEFINE && s.Tok != token.ASSIGN {
				t.fail(s, "`%s`", t.str(s))
			}
			var idx []string
			for i, l := range s.Lhs {
				id, isId := cfUnparen(l).(*ast.Ident)
				if !isId {
					t.fail(s, "`%s`: results must be assigned to locals", t.str(s))
				}
				if s.Tok == token.DEFINE || id.Name == "_" {
					idx = append(idx, fmt.Sprint(t.define(l, id.Name, sig.kinds[i])))
					continue
				}
				lv, found := t.lookup(id.Name)
				if !found || cfStore(lv.kind) != cfStore(sig.kinds[i]) || lv.kind != sig.kinds[i] {
					t.fail(s, "`%s`: `%s` is not a %s local", t.str(s), id.Name, cfKindName[sig.kinds[i]])
				}
				idx = append(idx, fmt.Sprint(lv.idx))
			}
			return []*cfNode{cfLeaf("%s %s", sig.ctor, strings.Join(idx, " "))}
		}
	}
	if len(s.Lhs) != len(s.Rhs) {
		t.fail(s, "`%s`", t.str(s))
	}
	// (b) x = copy(p, e)
	if len(s.Lhs) == 1 {
		if dst, src, ok := t.copyCall(s.Rhs[0]); ok {
			switch s.Tok {
			case token.DEFINE:
				id, isId := s.Lhs[0].(*ast.Ident)
				if !isId {
					t.fail(s, "`%s`", t.str(s))
				}
				return []*cfNode{cfLeaf(".copy (.loc %d) %d %s", t.define(s, id.Name, cfInt), dst, src)}
			case token.ASSIGN:
				return []*cfNode{cfLeaf(".copy %s %d %s", t.ivar(s.Lhs[0]), dst, src)}
			}
			t.fail(s, "`%s`: copy(..) with this assignment operator", t.str(s))
		}
	}
	for _, r := range s.Rhs {
		if t.hasEffect(r) {
			t.fail(s, "`%s`: call on the right-hand side", t.str(s))
		}
	}
	switch s.Tok {
	case token.DEFINE:
		if len(s.Lhs) != 1 {
			t.fail(s, "`%s`: parallel declaration", t.str(s))
		}
		id, isId := s.Lhs[0].(*ast.Ident)
		if !isId {
			t.fail(s, "`%s`", t.str(s))
		}
		k, ok := t.kindOf(s.Rhs[0])
		if !ok || t.isNil(s.Rhs[0]) {
			t.fail(s, "`%s`: cannot tell the type of the right-hand side", t.str(s))
		}
		val := t.exprOfKind(s.Rhs[0], k) // before the declaration: x := f(x) reads the outer x
		t.define(s, id.Name, k)
		return []*cfNode{t.assignTo(id, k, val)}
	case token.ASSIGN:
		if len(s.Lhs) == 1 {
			k := t.lhsKind(s.Lhs[0])
			return []*cfNode{t.assignTo(s.Lhs[0], k, t.exprOfKind(s.Rhs[0], k))}
		}
		// a, b = e1, e2: all right-hand sides are evaluated first (temporaries), then assigned left to right
		var out []*cfNode
		type tmp struct {
			k   cfKind
			ref string
		}
		var tmps []tmp
		for i, l := range s.Lhs {
			k := t.lhsKind(l)
			val := t.exprOfKind(s.Rhs[i], k)
			ti := t.fresh(fmt.Sprintf("<tmp%d>", i), k)
			switch k {
			case cfSlice:
				out = append(out, cfLeaf(".setS %d %s", ti, val))
				tmps = append(tmps, tmp{k, fmt.Sprintf("(.var %d)", ti)})
			case cfInt:
				out = append(out, cfLeaf(".setI (.loc %d) %s", ti, val))
				tmps = append(tmps, tmp{k, fmt.Sprintf("(.get (.loc %d))", ti)})
			default:
				out = append(out, cfLeaf(".setB %d %s", ti, val))
				tmps = append(tmps, tmp{k, fmt.Sprintf("(.var %d)", ti)})
			}
		}
		for i, l := range s.Lhs {
			out = append(out, t.assignTo(l, tmps[i].k, tmps[i].ref))
		}
		return out
	case token.ADD_ASSIGN:
		if len(s.Lhs) != 1 {
			t.fail(s, "`%s`", t.str(s))
		}
		return []*cfNode{cfLeaf(".addI %s %s", t.ivar(s.Lhs[0]), t.intExpr(s.Rhs[0]))}
	}
	t.fail(s, "assignment operator in `%s`", t.str(s))
	return nil
}

// cfStrip removes the outer parentheses of a translated expression (list elements need none).
func cfStrip(s string) string {
	if strings.HasPrefix(s, "(") && strings.HasSuffix(s, ")") {
		return s[1 : len(s)-1]
	}
	return s
}

func cfIsConst(e ast.Expr) bool {
	switch v := cfUnparen(e).(type) {
	case *ast.BasicLit:
		return true
	case *ast.Ident:
		return v.Name == "nil" || v.Name == "true" || v.Name == "false"
	}
	return false
}

func (t *cfTrans) ret(s *ast.ReturnStmt) []*cfNode {
	if len(s.Results) != len(t.results) {
		t.fail(s, "`%s`: a return with %d operands in a function with %d results (bare returns are not translated)", t.str(s), len(s.Results), len(t.results))
	}
	var pre []*cfNode
	var ss, is, bs []string
	hasCopy := false
	for _, r := range s.Results {
		if _, _, ok := t.copyCall(r); ok {
			hasCopy = true
		}
	}
	for i, r := range s.Results {
		switch k := t.results[i]; k {
		case cfSlice:
			ss = append(ss, cfStrip(t.sliceExpr(r)))
		case cfInt:
			if dst, src, ok := t.copyCall(r); ok {
				ti := t.fresh("<copy>", cfInt)
				pre = append(pre, cfLeaf(".copy (.loc %d) %d %s", ti, dst, src))
				is = append(is, fmt.Sprintf(".get (.loc %d)", ti))
				continue
			}
			is = append(is, cfStrip(t.intExpr(r)))
		case cfBool:
			bs = append(bs, cfStrip(t.boolExpr(r)))
		case cfErr:
			bs = append(bs, cfStrip(t.errExpr(r)))
		}
		if hasCopy && !cfIsConst(r) {
			t.fail(s, "`%s`: next to a copy(..) operand only constants are translated (order of evaluation)", t.str(s))
		}
		if t.hasEffect(r) {
			t.fail(s, "`%s`: call in a return operand", t.str(s))
		}
	}
	return append(pre, cfLeaf(".ret [%s] [%s] [%s]", strings.Join(ss, ", "), strings.Join(is, ", "), strings.Join(bs, ", ")))
}

func (t *cfTrans) ifStmt(s *ast.IfStmt) []*cfNode {
	t.push()
	defer t.pop()
	var out []*cfNode
	if s.Init != nil {
		out = append(out, t.stmt(s.Init)...)
	}
	n := &cfNode{kind: "ite", text: t.boolExpr(s.Cond)}
	n.a = t.block(s.Body.List)
	switch e := s.Else.(type) {
	case nil:
	case *ast.BlockStmt:
		n.b = t.block(e.List)
	case *ast.IfStmt:
		n.b = t.ifStmt(e)
	default:
		t.fail(s, "else branch")
	}
	return append(out, n)
}

func (t *cfTrans) switchStmt(s *ast.SwitchStmt) []*cfNode {
	if s.Init != nil || s.Tag != nil {
		t.fail(s, "switch with an init statement or a tag")
	}
	var dflt *ast.CaseClause
	var cases []*ast.CaseClause
	for _, c := range s.Body.List {
		cc := c.(*ast.CaseClause)
		for _, b := range cc.Body {
			if br, ok := b.(*ast.BranchStmt); ok {
				t.fail(br, "`%s` in a switch", br.Tok)
			}
		}
		if cc.List == nil {
			dflt = cc
		} else {
			cases = append(cases, cc)
		}
	}
	var tail []*cfNode
	if dflt != nil {
		tail = t.block(dflt.Body)
	}
	for i := len(cases) - 1; i >= 0; i-- {
		cond := t.boolExpr(cases[i].List[0])
		for _, c := range cases[i].List[1:] {
			cond = fmt.Sprintf("(.or %s %s)", cond, t.boolExpr(c))
		}
		tail = []*cfNode{{kind: "ite", text: cond, a: t.block(cases[i].Body), b: tail}}
	}
	return tail
}

func (t *cfTrans) zeroOf(i int, k cfKind) *cfNode {
	switch k {
	case cfSlice:
		return cfLeaf(".setS %d .nil", i)
	case cfInt:
		return cfLeaf(".setI (.loc %d) (.lit 0)", i)
	}
	return cfLeaf(".setB %d (.lit false)", i)
}

func (t *cfTrans) typeKind(e ast.Expr) cfKind {
	switch t.str(e) {
	case "[]byte":
		return cfSlice
	case "int", "uint64", "uint", "int64":
		return cfInt
	case "bool":
		return cfBool
	case "error":
		return cfErr
	}
	t.fail(e, "type `%s`", t.str(e))
	return 0
}

func (t *cfTrans) stmt(s ast.Stmt) []*cfNode {
	switch v := s.(type) {
	case *ast.EmptyStmt:
		return nil
	case *ast.BlockStmt:
		return t.block(v.List)
	case *ast.DeclStmt:
		gd, ok := v.Decl.(*ast.GenDecl)
		if !ok || gd.Tok != token.VAR {
			t.fail(s, "declaration `%s`", t.str(s))
		}
		var out []*cfNode
		for _, sp := range gd.Specs {
			vs := sp.(*ast.ValueSpec)
			if vs.Type == nil || len(vs.Values) != 0 {
				t.fail(s, "`%s`: only `var x T`", t.str(s))
			}
			k := t.typeKind(vs.Type)
			for _, n := range vs.Names {
				out = append(out, t.zeroOf(t.declare(n, n.Name, k), k))
			}
		}
		return out
	case *ast.AssignStmt:
		return t.assign(v)
	case *ast.IncDecStmt:
		if v.Tok != token.INC {
			t.fail(s, "`%s`", t.str(s))
		}
		return []*cfNode{cfLeaf(".addI %s (.lit 1)", t.ivar(v.X))}
	case *ast.ExprStmt:
		if ce, ok := v.X.(*ast.CallExpr); ok && len(ce.Args) == 0 && (t.role == cfRoleAsmRecv || t.role == cfRoleRead) {
			switch t.path(ce.Fun) {
			case "$.statsMux.Lock":
				return []*cfNode{cfLeaf(".lock")}
			case "$.statsMux.Unlock":
				return []*cfNode{cfLeaf(".unlock")}
			}
		}
		t.fail(s, "statement `%s`", t.str(s))
	case *ast.IfStmt:
		return t.ifStmt(v)
	case *ast.SwitchStmt:
		return t.switchStmt(v)
	case *ast.ForStmt:
		if v.Init != nil || v.Cond != nil || v.Post != nil {
			t.fail(s, "a `for` loop with init / condition / post statement (only `for { .. }`)")
		}
		t.loops++
		body := t.block(v.Body.List)
		t.loops--
		return []*cfNode{{kind: "loop", a: body}}
	case *ast.BranchStmt:
		if v.Tok == token.CONTINUE && v.Label == nil && t.loops > 0 {
			return []*cfNode{cfLeaf(".cont")}
		}
		t.fail(s, "`%s`", t.str(s))
	case *ast.ReturnStmt:
		return t.ret(v)
	case *ast.GoStmt:
		t.fail(s, "a `go` statement: the transport model is synchronous")
	case *ast.DeferStmt:
		t.fail(s, "a `defer` statement")
	case *ast.SelectStmt:
		t.fail(s, "a `select` statement: the transport model is synchronous")
	case *ast.SendStmt:
		t.fail(s, "a channel send")
	case *ast.RangeStmt:
		t.fail(s, "a `for range` loop")
	}
	t.fail(s, "statement `%s`", t.str(s))
	return nil
}

func (t *cfTrans) block(list []ast.Stmt) []*cfNode {
	t.push()
	defer t.pop()
	var out []*cfNode
	for _, s := range list {
		out = append(out, t.stmt(s)...)
	}
	return out
}

func cfFindMethod(f *ast.File, file, typ, name string) *ast.FuncDecl {
	var found *ast.FuncDecl
	for _, d := range f.Decls {
		fd, ok := d.(*ast.FuncDecl)
		if !ok || fd.Name.Name != name || fd.Recv == nil || len(fd.Recv.List) != 1 {
			continue
		}
		st, ok := fd.Recv.List[0].Type.(*ast.StarExpr)
		if !ok {
			continue
		}
		if id, ok := st.X.(*ast.Ident); !ok || id.Name != typ {
			continue
		}
		if found != nil {
			die("%s: method (*%s).%s declared twice", file, typ, name)
		}
		found = fd
	}
	if found == nil || found.Body == nil {
		die("%s: method (*%s).%s not found", file, typ, name)
	}
	if len(found.Recv.List[0].Names) != 1 {
		die("%s: (*%s).%s: unnamed receiver", file, typ, name)
	}
	return found
}

func cfFindFunc(f *ast.File, file, name string) *ast.FuncDecl {
	for _, d := range f.Decls {
		if fd, ok := d.(*ast.FuncDecl); ok && fd.Name.Name == name && fd.Recv == nil && fd.Body != nil {
			return fd
		}
	}
	die("%s: function %s not found", file, name)
	return nil
}

// cfNoConcurrency: no goroutine, channel, select, defer or sync.Pool inside n.
func cfNoConcurrency(fset *token.FileSet, file, what string, n ast.Node, allowDefer bool) {
	ast.Inspect(n, func(x ast.Node) bool {
		bad := ""
		switch v := x.(type) {
		case *ast.GoStmt:
			bad = "a `go` statement"
		case *ast.SelectStmt:
			bad = "a `select` statement"
		case *ast.SendStmt:
			bad = "a channel send"
		case *ast.ChanType:
			bad = "a channel type"
		case *ast.DeferStmt:
			if !allowDefer {
				bad = "a `defer` statement"
			}
		case *ast.UnaryExpr:
			if v.Op == token.ARROW {
				bad = "a channel receive"
			}
		case *ast.SelectorExpr:
			if cfIsIdent(v.X, "sync") && v.Sel.Name == "Pool" {
				bad = "sync.Pool"
			}
		}
		if bad != "" {
			die("%s: %s at %s: %s: the transport model is synchronous and pool-free (outside the translated Go subset)", file, what, fset.Position(x.Pos()), bad)
		}
		return true
	})
}

// translate one method. params/results give the kinds the wrappers of ChunkFlowSem.lean assume.
func cfMethod(fset *token.FileSet, f *ast.File, file, typ, name string, role cfRole, params, results []cfKind) string {
	fd := cfFindMethod(f, file, typ, name)
	cfNoConcurrency(fset, file, "(*"+typ+")."+name, fd, false)
	t := &cfTrans{fset: fset, file: file, fn: "(*" + typ + ")." + name, role: role, recv: fd.Recv.List[0].Names[0].Name, results: results}
	t.push()
	var pk []cfKind
	for _, fl := range fd.Type.Params.List {
		if len(fl.Names) == 0 {
			t.fail(fl, "unnamed parameter")
		}
		for _, n := range fl.Names {
			k := t.typeKind(fl.Type)
			pk = append(pk, k)
			t.declare(n, n.Name, k)
		}
	}
	var rk []cfKind
	if fd.Type.Results != nil {
		for _, fl := range fd.Type.Results.List {
			k := t.typeKind(fl.Type)
			if len(fl.Names) == 0 {
				rk = append(rk, k)
			}
			for _, n := range fl.Names {
				rk = append(rk, k)
				t.declare(n, n.Name, k)
			}
		}
	}
	same := func(a, b []cfKind) bool {
		if len(a) != len(b) {
			return false
		}
		for i := range a {
			if a[i] != b[i] {
				return false
			}
		}
		return true
	}
	if !same(pk, params) || !same(rk, results) {
		t.fail(fd, "signature `%s` is not the one the model's wrapper assumes", t.str(fd.Type))
	}
	// the body shares the scope of the parameters and results (Go: `x, err := ..` at top level reuses a named result)
	var nodes []*cfNode
	for _, s := range fd.Body.List {
		nodes = append(nodes, t.stmt(s)...)
	}
	var sb strings.Builder
	fmt.Fprintf(&sb, "/-- go: %s `func (%s *%s) %s%s`\n", file, t.recv, typ, name, strings.TrimPrefix(t.str(fd.Type), "func"))
	kinds := []string{"slices", "ints", "booleans and errors", "messages"}
	for i, k := range kinds {
		l := "none"
		if len(t.names[i]) > 0 {
			l = strings.Join(t.names[i], " ")
		}
		fmt.Fprintf(&sb, "    %s: %s\n", k, l)
	}
	sb.WriteString("-/\n")
	fmt.Fprintf(&sb, "def %sBody : Stmt :=\n  %s\n\n", map[cfRole]string{cfRoleSrc: "srcRecvMsg", cfRoleAsmRecv: "asmRecvMsg", cfRoleRead: "read", cfRoleWrite: "writeChunk"}[role], cfRender(nodes, "  "))
	return sb.String()
}

func cfStruct(f *ast.File, file, name string) *ast.StructType {
	for _, d := range f.Decls {
		gd, ok := d.(*ast.GenDecl)
		if !ok || gd.Tok != token.TYPE {
			continue
		}
		for _, s := range gd.Specs {
			ts := s.(*ast.TypeSpec)
			if ts.Name.Name == name {
				st, ok := ts.Type.(*ast.StructType)
				if !ok {
					die("%s: type %s is not a struct", file, name)
				}
				return st
			}
		}
	}
	die("%s: struct %s not found", file, name)
	return nil
}

// cfFields: "name type" of every field, in order.
func cfFields(fset *token.FileSet, st *ast.StructType) []string {
	var out []string
	for _, fl := range st.Fields.List {
		var sb strings.Builder
		printer.Fprint(&sb, fset, fl.Type)
		if len(fl.Names) == 0 {
			out = append(out, "<embedded> "+sb.String())
		}
		for _, n := range fl.Names {
			out = append(out, n.Name+" "+sb.String())
		}
	}
	return out
}

func cfHas(list []string, want string) bool {
	for _, l := range list {
		if l == want {
			return true
		}
	}
	return false
}

// the struct types: the assembler has exactly the modelled fields (so a new assembler is a zero one);
// the others have the fields the translated code uses, with the modelled types.
func cfCheckStructs(fset *token.FileSet, f *ast.File, file string, cfset *token.FileSet, cf *ast.File, cfile string) {
	asm := strings.Join(cfFields(fset, cfStruct(f, file, "chunkAssembler")), "; ")
	if asm != "source grpcMsgSource; buf []byte; readIndex int; statsMux sync.RWMutex; stats GrpcReaderStats" {
		die("%s: struct chunkAssembler has fields {%s}: not the ones of the model (source, buf, readIndex, statsMux, stats)", file, asm)
	}
	stats := strings.Join(cfFields(fset, cfStruct(f, file, "GrpcReaderStats")), "; ")
	if stats != "MessagesReceived uint64; BytesReceived uint64" {
		die("%s: struct GrpcReaderStats has fields {%s}", file, stats)
	}
	src := cfFields(fset, cfStruct(f, file, "grpcChunkSource"))
	if !cfHas(src, "serverStream stef_proto.STEFDestination_StreamServer") || !cfHas(src, "messagesReceived uint64") {
		die("%s: struct grpcChunkSource: serverStream / messagesReceived not as modelled: {%s}", file, strings.Join(src, "; "))
	}
	cfNoConcurrency(fset, file, "struct grpcChunkSource", cfStruct(f, file, "grpcChunkSource"), false)
	cfNoConcurrency(fset, file, "struct StreamServer", cfStruct(f, file, "StreamServer"), false)
	wr := cfFields(cfset, cfStruct(cf, cfile, "grpcWriter"))
	if !cfHas(wr, "stream stef_proto.STEFDestination_StreamClient") || !cfHas(wr, "request stef_proto.STEFClientMessage") {
		die("%s: struct grpcWriter: stream / request not as modelled: {%s}", cfile, strings.Join(wr, "; "))
	}
	cfNoConcurrency(cfset, cfile, "struct grpcWriter", cfStruct(cf, cfile, "grpcWriter"), false)
}

// func newChunkAssembler(source grpcMsgSource) GrpcReader { return &chunkAssembler{source: source} }
func cfNewAssembler(fset *token.FileSet, f *ast.File, file string) string {
	fd := cfFindFunc(f, file, "newChunkAssembler")
	t := &cfTrans{fset: fset, file: file, fn: "newChunkAssembler"}
	cfNoConcurrency(fset, file, "newChunkAssembler", fd, false)
	if len(fd.Type.Params.List) != 1 || len(fd.Type.Params.List[0].Names) != 1 || t.str(fd.Type.Params.List[0].Type) != "grpcMsgSource" {
		t.fail(fd, "signature `%s`", t.str(fd.Type))
	}
	param := fd.Type.Params.List[0].Names[0].Name
	if len(fd.Body.List) != 1 {
		t.fail(fd, "the body is not one return statement")
	}
	rs, ok := fd.Body.List[0].(*ast.ReturnStmt)
	if !ok || len(rs.Results) != 1 {
		t.fail(fd, "the body is not one return statement")
	}
	u, ok := rs.Results[0].(*ast.UnaryExpr)
	if !ok || u.Op != token.AND {
		t.fail(rs, "`%s` is not &chunkAssembler{..}", t.str(rs.Results[0]))
	}
	cl, ok := u.X.(*ast.CompositeLit)
	if !ok || !cfIsIdent(cl.Type, "chunkAssembler") {
		t.fail(rs, "`%s` is not &chunkAssembler{..}", t.str(rs.Results[0]))
	}
	var fields []string
	seenSource := false
	for _, el := range cl.Elts {
		kv, ok := el.(*ast.KeyValueExpr)
		if !ok {
			t.fail(el, "positional element in the chunkAssembler literal")
		}
		key, _ := kv.Key.(*ast.Ident)
		if key == nil {
			t.fail(el, "key `%s`", t.str(kv.Key))
		}
		switch key.Name {
		case "source":
			if !cfIsIdent(kv.Value, param) {
				t.fail(el, "source: `%s` is not the parameter", t.str(kv.Value))
			}
			seenSource = true
			fields = append(fields, "source := source")
		case "buf":
			if !cfIsIdent(kv.Value, "nil") {
				t.fail(el, "buf: `%s` (only nil)", t.str(kv.Value))
			}
			fields = append(fields, "buf := none")
		case "readIndex":
			bl, ok := kv.Value.(*ast.BasicLit)
			if !ok || bl.Kind != token.INT {
				t.fail(el, "readIndex: `%s` (only a literal)", t.str(kv.Value))
			}
			fields = append(fields, "readIndex := "+bigOf((&constEnv{}).eval(bl)).String())
		default:
			t.fail(el, "field `%s` in the chunkAssembler literal", key.Name)
		}
	}
	if !seenSource {
		t.fail(cl, "the chunkAssembler literal does not set `source`")
	}
	return fmt.Sprintf("/-- go: %s `func newChunkAssembler(%s grpcMsgSource) GrpcReader { %s }` -/\ndef newChunkAssembler (source : Src) : AsmG := { %s }\n\n",
		file, param, t.str(rs), strings.Join(fields, ", "))
}

// func (g *chunkAssembler) Stats() GrpcReaderStats { g.statsMux.RLock(); defer g.statsMux.RUnlock(); return g.stats }
func cfStats(fset *token.FileSet, f *ast.File, file string) string {
	fd := cfFindMethod(f, file, "chunkAssembler", "Stats")
	cfNoConcurrency(fset, file, "(*chunkAssembler).Stats", fd, true)
	t := &cfTrans{fset: fset, file: file, fn: "(*chunkAssembler).Stats", recv: fd.Recv.List[0].Names[0].Name}
	t.push()
	ok := len(fd.Body.List) == 3
	if ok {
		a, isA := fd.Body.List[0].(*ast.ExprStmt)
		b, isB := fd.Body.List[1].(*ast.DeferStmt)
		c, isC := fd.Body.List[2].(*ast.ReturnStmt)
		ok = isA && isB && isC
		if ok {
			ca, isCall := a.X.(*ast.CallExpr)
			ok = isCall && len(ca.Args) == 0 && t.path(ca.Fun) == "$.statsMux.RLock" &&
				len(b.Call.Args) == 0 && t.path(b.Call.Fun) == "$.statsMux.RUnlock" &&
				len(c.Results) == 1 && t.path(c.Results[0]) == "$.stats"
		}
	}
	if !ok {
		t.fail(fd, "the body is not `%s.statsMux.RLock(); defer %s.statsMux.RUnlock(); return %s.stats`", t.recv, t.recv, t.recv)
	}
	return "/-- go: `func (g *chunkAssembler) Stats() GrpcReaderStats`: the two counters, read under the read lock -/\n" +
		"def stats (g : AsmG) : Nat × Nat := (g.statMsgs, g.statBytes)\n\n"
}

func cfCountIdent(n ast.Node, name string) int {
	c := 0
	ast.Inspect(n, func(x ast.Node) bool {
		if id, ok := x.(*ast.Ident); ok && id.Name == name {
			c++
		}
		return true
	})
	return c
}

// StreamServer.Stream ends with
//     grpcStream := newGrpcChunkSource(server); reader := newChunkAssembler(grpcStream); return s.callbacks.OnStream(reader, grpcStream)
// and newGrpcChunkSource(serverStream) makes a new grpcChunkSource{serverStream: serverStream, ..} without starting anything.
func cfStreamFresh(fset *token.FileSet, f *ast.File, file string) string {
	fd := cfFindMethod(f, file, "StreamServer", "Stream")
	cfNoConcurrency(fset, file, "(*StreamServer).Stream", fd, false)
	t := &cfTrans{fset: fset, file: file, fn: "(*StreamServer).Stream", recv: fd.Recv.List[0].Names[0].Name}
	t.push()
	if len(fd.Type.Params.List) != 1 || len(fd.Type.Params.List[0].Names) != 1 {
		t.fail(fd, "signature `%s`", t.str(fd.Type))
	}
	server := fd.Type.Params.List[0].Names[0].Name
	why := ""
	fresh := func() bool {
		n := len(fd.Body.List)
		if n < 3 {
			why = "fewer than three statements"
			return false
		}
		rs, ok := fd.Body.List[n-1].(*ast.ReturnStmt)
		if !ok || len(rs.Results) != 1 {
			why = "the last statement is not `return <callback>(reader, stream)`"
			return false
		}
		ce, ok := rs.Results[0].(*ast.CallExpr)
		if !ok || t.path(ce.Fun) != "$.callbacks.OnStream" || len(ce.Args) != 2 {
			why = "the last statement does not return s.callbacks.OnStream(reader, stream)"
			return false
		}
		rd, ok1 := ce.Args[0].(*ast.Ident)
		st, ok2 := ce.Args[1].(*ast.Ident)
		if !ok1 || !ok2 {
			why = "the arguments of OnStream are not two locals"
			return false
		}
		def := func(s ast.Stmt, name, fn, arg string) bool {
			as, ok := s.(*ast.AssignStmt)
			if !ok || as.Tok != token.DEFINE || len(as.Lhs) != 1 || len(as.Rhs) != 1 || !cfIsIdent(as.Lhs[0], name) {
				return false
			}
			c, ok := as.Rhs[0].(*ast.CallExpr)
			return ok && cfIsIdent(c.Fun, fn) && len(c.Args) == 1 && cfIsIdent(c.Args[0], arg)
		}
		if !def(fd.Body.List[n-2], rd.Name, "newChunkAssembler", st.Name) {
			why = fmt.Sprintf("the statement before the return is not `%s := newChunkAssembler(%s)`", rd.Name, st.Name)
			return false
		}
		if !def(fd.Body.List[n-3], st.Name, "newGrpcChunkSource", server) {
			why = fmt.Sprintf("the statement before that is not `%s := newGrpcChunkSource(%s)`", st.Name, server)
			return false
		}
		if cfCountIdent(fd.Body, rd.Name) != 2 || cfCountIdent(fd.Body, st.Name) != 3 {
			why = "the reader / the chunk source is used elsewhere in Stream"
			return false
		}
		return true
	}()

	// newGrpcChunkSource: a new struct over the parameter, nothing started
	nf := cfFindFunc(f, file, "newGrpcChunkSource")
	cfNoConcurrency(fset, file, "newGrpcChunkSource", nf, false)
	t2 := &cfTrans{fset: fset, file: file, fn: "newGrpcChunkSource"}
	if len(nf.Type.Params.List) != 1 || len(nf.Type.Params.List[0].Names) != 1 {
		t2.fail(nf, "signature `%s`", t2.str(nf.Type))
	}
	sp := nf.Type.Params.List[0].Names[0].Name
	lits := 0
	ast.Inspect(nf.Body, func(x ast.Node) bool {
		switch v := x.(type) {
		case *ast.CompositeLit:
			if cfIsIdent(v.Type, "grpcChunkSource") {
				lits++
				okStream := false
				for _, el := range v.Elts {
					kv, isKV := el.(*ast.KeyValueExpr)
					if !isKV {
						t2.fail(el, "positional element in the grpcChunkSource literal")
					}
					if cfIsIdent(kv.Key, "serverStream") {
						okStream = cfIsIdent(kv.Value, sp)
					}
					if cfIsIdent(kv.Key, "messagesReceived") {
						t2.fail(el, "messagesReceived is initialised")
					}
				}
				if !okStream {
					t2.fail(v, "the grpcChunkSource literal does not set serverStream to the parameter")
				}
			}
		case *ast.AssignStmt:
			for _, l := range v.Lhs {
				if se, ok := l.(*ast.SelectorExpr); ok && (se.Sel.Name == "serverStream" || se.Sel.Name == "messagesReceived") {
					t2.fail(v, "assignment to `%s`", t2.str(l))
				}
			}
		case *ast.CallExpr:
			if se, ok := v.Fun.(*ast.SelectorExpr); ok && se.Sel.Name == "Recv" {
				t2.fail(v, "`%s`: the constructor receives from the stream", t2.str(v))
			}
		}
		return true
	})
	if lits != 1 {
		t2.fail(nf, "%d grpcChunkSource literals (one expected)", lits)
	}

	var sb strings.Builder
	sb.WriteString("/-- go: `StreamServer.Stream` ends with `st := newGrpcChunkSource(<its stream>); rd := newChunkAssembler(st);\n")
	sb.WriteString("    return s.callbacks.OnStream(rd, st)`, neither used elsewhere: every stream gets a NEW assembler over a NEW\n")
	sb.WriteString("    source of its own gRPC stream; no goroutine, channel, defer or pool in Stream / newGrpcChunkSource /\n")
	sb.WriteString("    newChunkAssembler (the generator fails on those).")
	if !fresh {
		fmt.Fprintf(&sb, " NOT the case: %s.", why)
	}
	sb.WriteString(" -/\n")
	fmt.Fprintf(&sb, "def streamFreshAssembler : Bool := %v\n\n", fresh)
	return sb.String()
}

func genChunkFlow() {
	const sfile, cfile = "go/grpc/server.go", "go/grpc/client.go"
	sset, sf := parseFile(sfile)
	cset, cf := parseFile(cfile)
	cfCheckStructs(sset, sf, sfile, cset, cf, cfile)

	var sb strings.Builder
	sb.WriteString("/- GENERATED by /verif/extract (chunkflow.go) from go/grpc/server.go (grpcChunkSource.recvMsg,\n")
	sb.WriteString("   chunkAssembler.recvMsg / Read / Stats, newChunkAssembler, StreamServer.Stream) and go/grpc/client.go\n")
	sb.WriteString("   (grpcWriter.WriteChunk). Do not edit. The statement language and its meaning: Stef/ChunkFlowSem.lean. -/\n")
	sb.WriteString("import Stef.ChunkFlowSem\n\nnamespace Stef.Gen.ChunkFlow\nopen Stef.ChunkFlowSem\n\n")
	sb.WriteString(cfMethod(sset, sf, sfile, "grpcChunkSource", "recvMsg", cfRoleSrc, nil, []cfKind{cfSlice, cfBool, cfErr}))
	sb.WriteString(cfMethod(sset, sf, sfile, "chunkAssembler", "recvMsg", cfRoleAsmRecv, nil, []cfKind{cfSlice, cfErr}))
	sb.WriteString(cfMethod(sset, sf, sfile, "chunkAssembler", "Read", cfRoleRead, []cfKind{cfSlice}, []cfKind{cfInt, cfErr}))
	sb.WriteString(cfMethod(cset, cf, cfile, "grpcWriter", "WriteChunk", cfRoleWrite, []cfKind{cfSlice, cfSlice}, []cfKind{cfErr}))
	sb.WriteString(`/-- the regenerated functions (wrappers: Stef/ChunkFlowSem.lean) -/
def srcRecvMsg (r : Src) := srcRecvMsgOf srcRecvMsgBody r

def asmRecvMsg (g : AsmG) := asmRecvMsgOf srcRecvMsgBody asmRecvMsgBody g

def read (g : AsmG) (p : Sl) : ReadResult := readOf srcRecvMsgBody asmRecvMsgBody readBody g p

def run (g : AsmG) (ps : List Sl) := runOf read g ps

def writeChunk (w : Wr) (header content : Sl) := writeChunkOf writeChunkBody w header content

def writeAll (w : Wr) (cs : List (Sl × Sl)) := writeAllOf writeChunk w cs

`)
	sb.WriteString(cfNewAssembler(sset, sf, sfile))
	sb.WriteString(cfStats(sset, sf, sfile))
	sb.WriteString(cfStreamFresh(sset, sf, sfile))
	sb.WriteString("end Stef.Gen.ChunkFlow\n")
	writeOut("ChunkFlow.lean", sb.String())
}
