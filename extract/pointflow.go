package main

// genPointFlow regenerates lean/Stef/Gen/PointFlow.lean: the per-point functions of the metrics
// converters, translated statement by statement from the Go AST (go/parser + go/ast only) into `do`
// blocks of the monad of lean/Stef/PointFlowSem.lean:
//
//   go/pdata/metrics/internal/baseotlptostef.go  (namespace O2S: otelstef objects are written, pdata read)
//       AggregationTemporalityToStef, ConvertNumDatapoint, ConvertExemplars, ConvertHistogram,
//       ConvertExpHistogram, ConvertSummary, expBucketsToStef
//   go/pdata/metrics/internal/basesteftotolp.go  (namespace S2O: pdata objects are written, otelstef read)
//       convertNumberPoint, convertExemplars, ConvertExemplar, AppendOTLPPoint,
//       aggregationTemporalityToOtlp, convertHistogramPoint, convertExpHistogramPoint, expBucketsFromStef,
//       convertSumaryPoint, quantilesFromStef
//
// EVERY function declaration of the two files is translated (a new one is translated too or makes the
// generator fail). The order of statements, the conditions, the receivers of the calls and their arguments
// are those of the source. The subset:
//
//   stmt ::= x := e | x, y := f(..)            (locals are never assigned again: `=`, `+=`, `++` fail)
//          | obj.M1()..Mk().Set(e, ..)         a mutator of the table below called through a written object
//          | f(..) | recv.f(..)                a call of another translated function
//          | if [x := e;] cond {..} [else ..] | switch e { case c, ..: .. default: .. }  (no fallthrough / break)
//          | for i := 0; i < n; i++ {..} | for i := range n {..}     (n reads no written object)
//          | return [e [, e]]
//   e    ::= local | literal | nil | true | false | pkg.Const | e op e | !e | (e) | T(e) (whitelisted conversions)
//          | e < e (<, >, <=, >= on int only) | obj.Getter(..) | len(e) | len(pcommon.TraceID{}) | a[:] | &c.TempAttrs | fmt.Errorf(fmt, ..)
//          | pcommon.NewMap() | otlptools.TefToOtlpMap(a, m) | c.Otlp2tef.MapSorted(m, a)
//
// Every method is looked up in the vocabulary table `mpTypes` ((Go type, method) -> kind, argument and
// result types); a method, conversion, constant or operator that is not there makes the generator fail
// (die) with the position and the construct. The signatures the table claims for the otelstef methods are
// checked against go/otel/otelstef/*.go (the generated record API in the repository); pdata is a library
// outside the repository and its signatures are the table's word. The numeric values of the otelstef
// enumerations the functions mention are regenerated too (c_PointValueType.. etc.).

import (
	"fmt"
	"go/ast"
	"go/constant"
	"go/parser"
	"go/token"
	"os"
	"path/filepath"
	"sort"
	"strconv"
	"strings"
)

func init() { register("PointFlow", genPointFlow) }

type mpKind int

const (
	mpGet    mpKind = iota // getter: result is a value (scalar or read-only object)
	mpSub                  // accessor of a sub-object: a lens
	mpMut                  // mutator
	mpAt                   // At(i) of an array
	mpAppend               // AppendEmpty()
)

type mpMeth struct {
	kind      mpKind
	res       string   // Go type of the result
	args      []string // Go types of the arguments
	constOnly []string // the argument must be one of these constants
}

type mpType struct {
	ns     string // Lean namespace of the methods
	lean   string // Lean type of the object
	scalar bool   // never a reference
	meths  map[string]mpMeth
}

func mpG(res string, args ...string) mpMeth { return mpMeth{kind: mpGet, res: res, args: args} }
func mpS(res string) mpMeth                 { return mpMeth{kind: mpSub, res: res} }
func mpM(args ...string) mpMeth             { return mpMeth{kind: mpMut, args: args} }
func mpA(res string) mpMeth                 { return mpMeth{kind: mpAt, res: res, args: []string{"int"}} }
func mpE(res string) mpMeth                 { return mpMeth{kind: mpAppend, res: res} }

func mpMerge(ms ...map[string]mpMeth) map[string]mpMeth {
	out := map[string]mpMeth{}
	for _, m := range ms {
		for k, v := range m {
			out[k] = v
		}
	}
	return out
}

var mpPointCommon = map[string]mpMeth{
	"Timestamp": mpG("pcommon.Timestamp"), "StartTimestamp": mpG("pcommon.Timestamp"), "Flags": mpG("pmetric.DataPointFlags"),
	"SetTimestamp": mpM("pcommon.Timestamp"), "SetStartTimestamp": mpM("pcommon.Timestamp"), "SetFlags": mpM("pmetric.DataPointFlags"),
	"Attributes": mpS("pcommon.Map"),
}

var mpOptFields = map[string]mpMeth{
	"HasSum": mpG("bool"), "Sum": mpG("float64"), "SetSum": mpM("float64"),
	"HasMin": mpG("bool"), "Min": mpG("float64"), "SetMin": mpM("float64"),
	"HasMax": mpG("bool"), "Max": mpG("float64"), "SetMax": mpM("float64"),
}

var mpUnset = map[string]mpMeth{"UnsetSum": mpM(), "UnsetMin": mpM(), "UnsetMax": mpM()}

// the vocabulary: Go type -> Lean namespace / type and its methods.
var mpTypes = map[string]*mpType{
	// ---- otelstef (checked against go/otel/otelstef) ----
	"otelstef.Point": {ns: "OPoint", lean: "SPoint", meths: map[string]mpMeth{
		"Timestamp": mpG("uint64"), "StartTimestamp": mpG("uint64"), "SetTimestamp": mpM("uint64"), "SetStartTimestamp": mpM("uint64"),
		"Value": mpS("otelstef.PointValue"), "Exemplars": mpS("otelstef.ExemplarArray")}},
	"otelstef.PointValue": {ns: "OPointValue", lean: "SPValue", meths: map[string]mpMeth{
		"Type": mpG("otelstef.PointValueType"), "Int64": mpG("int64"), "Float64": mpG("float64"),
		"SetType": {kind: mpMut, args: []string{"otelstef.PointValueType"},
			constOnly: []string{"PointValueTypeNone", "PointValueTypeHistogram", "PointValueTypeExpHistogram", "PointValueTypeSummary"}},
		"SetInt64": mpM("int64"), "SetFloat64": mpM("float64"),
		"Histogram": mpS("otelstef.HistogramValue"), "ExpHistogram": mpS("otelstef.ExpHistogramValue"), "Summary": mpS("otelstef.SummaryValue")}},
	"otelstef.HistogramValue": {ns: "OHistogramValue", lean: "SHist", meths: mpMerge(mpOptFields, mpUnset, map[string]mpMeth{
		"Count": mpG("int64"), "SetCount": mpM("int64"), "BucketCounts": mpS("otelstef.Uint64Array")})},
	"otelstef.Uint64Array": {ns: "OUint64Array", lean: "List Nat", meths: map[string]mpMeth{
		"Len": mpG("int"), "At": mpA("uint64"), "CopyFromSlice": mpM("[]uint64")}},
	"otelstef.Float64Array": {ns: "OFloat64Array", lean: "List Nat", meths: map[string]mpMeth{
		"Len": mpG("int"), "At": mpA("float64")}},
	"otelstef.ExpHistogramValue": {ns: "OExpHistogramValue", lean: "SExp", meths: mpMerge(mpOptFields, mpUnset, map[string]mpMeth{
		"Count": mpG("uint64"), "SetCount": mpM("uint64"), "Scale": mpG("int64"), "SetScale": mpM("int64"),
		"ZeroCount": mpG("uint64"), "SetZeroCount": mpM("uint64"), "ZeroThreshold": mpG("float64"), "SetZeroThreshold": mpM("float64"),
		"PositiveBuckets": mpS("otelstef.ExpHistogramBuckets"), "NegativeBuckets": mpS("otelstef.ExpHistogramBuckets")})},
	"otelstef.ExpHistogramBuckets": {ns: "OExpHistogramBuckets", lean: "SBuckets", meths: map[string]mpMeth{
		"Offset": mpG("int64"), "SetOffset": mpM("int64"), "BucketCounts": mpS("otelstef.Uint64Array")}},
	"otelstef.SummaryValue": {ns: "OSummaryValue", lean: "SSummary", meths: map[string]mpMeth{
		"Count": mpG("uint64"), "SetCount": mpM("uint64"), "Sum": mpG("float64"), "SetSum": mpM("float64"),
		"QuantileValues": mpS("otelstef.QuantileValueArray")}},
	"otelstef.QuantileValueArray": {ns: "OQuantileValueArray", lean: "List (Nat × Nat)", meths: map[string]mpMeth{
		"Len": mpG("int"), "At": mpA("otelstef.QuantileValue"), "EnsureLen": mpM("int")}},
	"otelstef.QuantileValue": {ns: "OQuantileValue", lean: "(Nat × Nat)", meths: map[string]mpMeth{
		"Quantile": mpG("float64"), "SetQuantile": mpM("float64"), "Value": mpG("float64"), "SetValue": mpM("float64")}},
	"otelstef.ExemplarArray": {ns: "OExemplarArray", lean: "ExArr", meths: map[string]mpMeth{
		"Len": mpG("int"), "At": mpA("otelstef.Exemplar"), "EnsureLen": mpM("int")}},
	"otelstef.Exemplar": {ns: "OExemplar", lean: "SExemplar", meths: map[string]mpMeth{
		"Timestamp": mpG("uint64"), "SetTimestamp": mpM("uint64"), "Value": mpS("otelstef.ExemplarValue"),
		"SpanID": mpG("pkg.Bytes"), "SetSpanID": mpM("pkg.Bytes"), "TraceID": mpG("pkg.Bytes"), "SetTraceID": mpM("pkg.Bytes"),
		"FilteredAttributes": mpS("otelstef.Attributes")}},
	"otelstef.ExemplarValue": {ns: "OExemplarValue", lean: "ExValue", meths: map[string]mpMeth{
		"Type": mpG("otelstef.ExemplarValueType"), "Int64": mpG("int64"), "Float64": mpG("float64"),
		"SetType":  {kind: mpMut, args: []string{"otelstef.ExemplarValueType"}, constOnly: []string{"ExemplarValueTypeNone"}},
		"SetInt64": mpM("int64"), "SetFloat64": mpM("float64")}},
	"otelstef.Attributes": {ns: "OAttributes", lean: "SAttrs", meths: map[string]mpMeth{}}, // CopyFrom: special form
	"otelstef.Metric": {ns: "OMetric", lean: "SMetric", meths: map[string]mpMeth{
		"HistogramBounds": mpS("otelstef.Float64Array"), "Monotonic": mpG("bool"),
		"AggregationTemporality": mpG("otelstef.AggregationTemporality")}},
	// ---- pdata (library; the table's word) ----
	"pmetric.DataPointFlags": {ns: "PDataPointFlags", lean: "Nat", scalar: true, meths: map[string]mpMeth{
		"NoRecordedValue": mpG("bool"), "WithNoRecordedValue": mpG("pmetric.DataPointFlags", "bool")}},
	"pcommon.UInt64Slice": {ns: "PUInt64Slice", lean: "List Nat", meths: map[string]mpMeth{
		"Len": mpG("int"), "AsRaw": mpG("[]uint64"), "EnsureCapacity": mpM("int"), "Append": mpM("uint64")}},
	"pcommon.Float64Slice": {ns: "PFloat64Slice", lean: "List Nat", meths: map[string]mpMeth{
		"Len": mpG("int"), "AsRaw": mpG("[]float64"), "EnsureCapacity": mpM("int"), "Append": mpM("float64")}},
	"pcommon.Map": {ns: "PMap", lean: "KVs", meths: map[string]mpMeth{}}, // MoveTo: special form
	"pmetric.NumberDataPoint": {ns: "PNumberDataPoint", lean: "Point", meths: mpMerge(mpPointCommon, map[string]mpMeth{
		"ValueType": mpG("pmetric.NumberDataPointValueType"), "IntValue": mpG("int64"), "DoubleValue": mpG("float64"),
		"SetIntValue": mpM("int64"), "SetDoubleValue": mpM("float64"), "Exemplars": mpS("pmetric.ExemplarSlice")})},
	"pmetric.HistogramDataPoint": {ns: "PHistogramDataPoint", lean: "Point", meths: mpMerge(mpPointCommon, mpOptFields, map[string]mpMeth{
		"Count": mpG("uint64"), "SetCount": mpM("uint64"), "BucketCounts": mpS("pcommon.UInt64Slice"),
		"ExplicitBounds": mpS("pcommon.Float64Slice"), "Exemplars": mpS("pmetric.ExemplarSlice")})},
	"pmetric.ExponentialHistogramDataPoint": {ns: "PExponentialHistogramDataPoint", lean: "Point", meths: mpMerge(mpPointCommon, mpOptFields, map[string]mpMeth{
		"Count": mpG("uint64"), "SetCount": mpM("uint64"), "Scale": mpG("int32"), "SetScale": mpM("int32"),
		"ZeroCount": mpG("uint64"), "SetZeroCount": mpM("uint64"), "ZeroThreshold": mpG("float64"), "SetZeroThreshold": mpM("float64"),
		"Positive": mpS("pmetric.ExponentialHistogramDataPointBuckets"), "Negative": mpS("pmetric.ExponentialHistogramDataPointBuckets"),
		"Exemplars": mpS("pmetric.ExemplarSlice")})},
	"pmetric.ExponentialHistogramDataPointBuckets": {ns: "PExponentialHistogramDataPointBuckets", lean: "PBuckets", meths: map[string]mpMeth{
		"Offset": mpG("int32"), "SetOffset": mpM("int32"), "BucketCounts": mpS("pcommon.UInt64Slice")}},
	"pmetric.SummaryDataPoint": {ns: "PSummaryDataPoint", lean: "Point", meths: mpMerge(mpPointCommon, map[string]mpMeth{
		"Count": mpG("uint64"), "SetCount": mpM("uint64"), "Sum": mpG("float64"), "SetSum": mpM("float64"),
		"QuantileValues": mpS("pmetric.SummaryDataPointValueAtQuantileSlice")})},
	"pmetric.SummaryDataPointValueAtQuantileSlice": {ns: "PSummaryDataPointValueAtQuantileSlice", lean: "List (Nat × Nat)", meths: map[string]mpMeth{
		"Len": mpG("int"), "At": mpA("pmetric.SummaryDataPointValueAtQuantile"), "EnsureCapacity": mpM("int"),
		"AppendEmpty": mpE("pmetric.SummaryDataPointValueAtQuantile")}},
	"pmetric.SummaryDataPointValueAtQuantile": {ns: "PSummaryDataPointValueAtQuantile", lean: "(Nat × Nat)", meths: map[string]mpMeth{
		"Quantile": mpG("float64"), "SetQuantile": mpM("float64"), "Value": mpG("float64"), "SetValue": mpM("float64")}},
	"pmetric.ExemplarSlice": {ns: "PExemplarSlice", lean: "List Exemplar", meths: map[string]mpMeth{
		"Len": mpG("int"), "At": mpA("pmetric.Exemplar"), "AppendEmpty": mpE("pmetric.Exemplar")}},
	"pmetric.Exemplar": {ns: "PExemplar", lean: "Exemplar", meths: map[string]mpMeth{
		"Timestamp": mpG("pcommon.Timestamp"), "SetTimestamp": mpM("pcommon.Timestamp"),
		"ValueType": mpG("pmetric.ExemplarValueType"), "IntValue": mpG("int64"), "DoubleValue": mpG("float64"),
		"SetIntValue": mpM("int64"), "SetDoubleValue": mpM("float64"),
		"TraceID": mpG("pcommon.TraceID"), "SetTraceID": mpM("pcommon.TraceID"), "SpanID": mpG("pcommon.SpanID"), "SetSpanID": mpM("pcommon.SpanID"),
		"FilteredAttributes": mpS("pcommon.Map")}},
	"pmetric.Metric": {ns: "PMetric", lean: "Metric", meths: map[string]mpMeth{
		"Type": mpG("pmetric.MetricType"), "Gauge": mpS("pmetric.Gauge"), "Sum": mpS("pmetric.Sum"), "Histogram": mpS("pmetric.Histogram"),
		"ExponentialHistogram": mpS("pmetric.ExponentialHistogram"), "Summary": mpS("pmetric.Summary")}},
	"pmetric.Gauge": {ns: "PMetricData", lean: "Metric", meths: map[string]mpMeth{"DataPoints": mpS("pmetric.NumberDataPointSlice")}},
	"pmetric.Sum": {ns: "PMetricData", lean: "Metric", meths: map[string]mpMeth{"DataPoints": mpS("pmetric.NumberDataPointSlice"),
		"SetIsMonotonic": mpM("bool"), "SetAggregationTemporality": mpM("pmetric.AggregationTemporality")}},
	"pmetric.Histogram": {ns: "PMetricData", lean: "Metric", meths: map[string]mpMeth{"DataPoints": mpS("pmetric.HistogramDataPointSlice"),
		"SetAggregationTemporality": mpM("pmetric.AggregationTemporality")}},
	"pmetric.ExponentialHistogram": {ns: "PMetricData", lean: "Metric", meths: map[string]mpMeth{
		"DataPoints": mpS("pmetric.ExponentialHistogramDataPointSlice"), "SetAggregationTemporality": mpM("pmetric.AggregationTemporality")}},
	"pmetric.Summary":                            {ns: "PMetricData", lean: "Metric", meths: map[string]mpMeth{"DataPoints": mpS("pmetric.SummaryDataPointSlice")}},
	"pmetric.NumberDataPointSlice":               {ns: "PDataPointSlice", lean: "List Point", meths: map[string]mpMeth{"AppendEmpty": mpE("pmetric.NumberDataPoint")}},
	"pmetric.HistogramDataPointSlice":            {ns: "PDataPointSlice", lean: "List Point", meths: map[string]mpMeth{"AppendEmpty": mpE("pmetric.HistogramDataPoint")}},
	"pmetric.ExponentialHistogramDataPointSlice": {ns: "PDataPointSlice", lean: "List Point", meths: map[string]mpMeth{"AppendEmpty": mpE("pmetric.ExponentialHistogramDataPoint")}},
	"pmetric.SummaryDataPointSlice":              {ns: "PDataPointSlice", lean: "List Point", meths: map[string]mpMeth{"AppendEmpty": mpE("pmetric.SummaryDataPoint")}},
}

// Lean types of the scalar Go types.
var mpScalarLean = map[string]string{
	"uint64": "Nat", "int64": "Nat", "int32": "Nat", "float64": "Nat", "int": "Nat", "bool": "Bool",
	"pcommon.Timestamp": "Nat", "pkg.Bytes": "List Nat", "[]byte": "List Nat", "[]uint64": "List Nat", "[]float64": "List Nat",
	"pcommon.TraceID": "List Nat", "pcommon.SpanID": "List Nat", "error": "Err",
	"otelstef.PointValueType": "Nat", "otelstef.ExemplarValueType": "Nat", "otelstef.AggregationTemporality": "Nat",
	"pmetric.NumberDataPointValueType": "Nat", "pmetric.ExemplarValueType": "Nat", "pmetric.AggregationTemporality": "Nat",
	"pmetric.MetricType": "Nat",
}

// whitelisted conversions T(e): (type of e, T) -> Lean function.
var mpConv = map[[2]string]string{
	{"pcommon.Timestamp", "uint64"}: "cvt_ts_u64", {"uint64", "pcommon.Timestamp"}: "cvt_u64_ts",
	{"uint64", "int64"}: "cvt_u64_i64", {"int64", "uint64"}: "cvt_i64_u64",
	{"int32", "int64"}: "cvt_i32_i64", {"int64", "int32"}: "cvt_i64_i32",
	{"[]byte", "pkg.Bytes"}: "cvt_bytes_pkgbytes", {"pkg.Bytes", "[]byte"}: "cvt_pkgbytes_bytes",
}

// constants of the pdata library by name prefix -> their type (values: Stef/PointFlowSem.lean pc_*).
var mpPdataConsts = map[string]string{
	"NumberDataPointValueTypeEmpty": "pmetric.NumberDataPointValueType", "NumberDataPointValueTypeInt": "pmetric.NumberDataPointValueType",
	"NumberDataPointValueTypeDouble": "pmetric.NumberDataPointValueType",
	"ExemplarValueTypeEmpty":         "pmetric.ExemplarValueType", "ExemplarValueTypeInt": "pmetric.ExemplarValueType", "ExemplarValueTypeDouble": "pmetric.ExemplarValueType",
	"AggregationTemporalityUnspecified": "pmetric.AggregationTemporality", "AggregationTemporalityDelta": "pmetric.AggregationTemporality",
	"AggregationTemporalityCumulative": "pmetric.AggregationTemporality",
	"MetricTypeGauge":                  "pmetric.MetricType", "MetricTypeSum": "pmetric.MetricType", "MetricTypeHistogram": "pmetric.MetricType",
	"MetricTypeExponentialHistogram": "pmetric.MetricType", "MetricTypeSummary": "pmetric.MetricType",
	"DefaultDataPointFlags": "pmetric.DataPointFlags",
}

var mpReserved = map[string]bool{
	"at": true, "end": true, "from": true, "fun": true, "have": true, "show": true, "then": true, "do": true,
	"let": true, "match": true, "with": true, "in": true, "by": true, "open": true, "def": true, "theorem": true,
	"where": true, "mut": true, "unless": true, "try": true, "catch": true, "finally": true, "pure": true,
	"some": true, "none": true, "true": true, "false": true, "nil": true, "Type": true, "Prop": true, "if": true, "else": true,
	"for": true, "return": true, "instance": true, "structure": true, "namespace": true, "section": true,
	"ret": true, "call": true, "callV": true, "upd": true, "rd": true, "forLt": true, "atV": true, "chkIdx": true,
	"appendEmpty": true, "newMap": true, "toArray": true, "len": true, "tefToOtlpMap": true, "otlp2stefMapSorted": true,
}

// ---- the translator ----

type mpVal struct {
	lean string
	ty   string
	ref  bool
	cst  string // name of the constant when the expression is one
}

type mpParam struct {
	name string
	ty   string
	ref  bool
}

type mpFunc struct {
	goName   string
	leanName string
	decl     *ast.FuncDecl
	recv     string // "" | "conv" (a *BaseOtlpToStef: passed as a Ref σ Conv) | "empty"
	params   []mpParam
	results  []string // Go types
	sig      string
}

type mpTr struct {
	fset     *token.FileSet
	file     string
	src      []byte
	refPkg   map[string]bool // packages whose objects are written in this file
	funcs    map[string]*mpFunc
	otelSigs map[string]string // "Type.Method" -> "(args) result" from go/otel/otelstef
	usedOtel map[string]bool
	consts   map[string]bool // otelstef constants mentioned
	cur      *mpFunc
	recvName string
	tmpN     int
	pre      []string
}

func (t *mpTr) fail(n ast.Node, f string, a ...any) {
	where := t.file
	if t.cur != nil {
		where += " " + t.cur.goName
	}
	die("PointFlow: %s at %s: %s (outside the translated Go subset)", where, t.fset.Position(n.Pos()), fmt.Sprintf(f, a...))
}

func (t *mpTr) text(n ast.Node) string {
	s := string(t.src[t.fset.Position(n.Pos()).Offset:t.fset.Position(n.End()).Offset])
	return s
}

func (t *mpTr) firstLine(n ast.Node) string {
	s := t.text(n)
	if i := strings.IndexByte(s, '\n'); i >= 0 {
		s = s[:i]
	}
	return strings.TrimSpace(s)
}

func (t *mpTr) tmp() string {
	t.tmpN++
	return fmt.Sprintf("t%d", t.tmpN)
}

func mpLower(s string) string { return strings.ToLower(s[:1]) + s[1:] }

// typeName: the qualified Go type of a declared type expression and whether it is a pointer.
func (t *mpTr) typeName(e ast.Expr) (string, bool) {
	switch v := e.(type) {
	case *ast.StarExpr:
		n, _ := t.typeName(v.X)
		return n, true
	case *ast.SelectorExpr:
		if id, ok := v.X.(*ast.Ident); ok {
			return id.Name + "." + v.Sel.Name, false
		}
	case *ast.Ident:
		return v.Name, false
	case *ast.ArrayType:
		if v.Len == nil {
			n, _ := t.typeName(v.Elt)
			return "[]" + n, false
		}
	}
	t.fail(e, "type %s", t.text(e))
	return "", false
}

func (t *mpTr) leanType(n ast.Node, ty string) string {
	if ot, ok := mpTypes[ty]; ok {
		return ot.lean
	}
	if l, ok := mpScalarLean[ty]; ok {
		return l
	}
	t.fail(n, "type %s is not in the vocabulary", ty)
	return ""
}

type mpEnv map[string]mpVal // Go local -> Lean name, type, mode

func (e mpEnv) clone() mpEnv {
	c := mpEnv{}
	for k, v := range e {
		c[k] = v
	}
	return c
}

// define introduces a Go local; a name that is visible already gets a fresh Lean name.
func (t *mpTr) define(env mpEnv, id *ast.Ident, ty string, ref bool) string {
	name := id.Name
	if name == "_" {
		return "_"
	}
	for _, r := range name {
		if !(r == '_' || r >= '0' && r <= '9' || r >= 'a' && r <= 'z' || r >= 'A' && r <= 'Z') {
			t.fail(id, "local name %s", name)
		}
	}
	lean := name
	if mpReserved[name] || (len(name) > 1 && name[0] == 't' && name[1] >= '0' && name[1] <= '9') {
		lean = name + "_"
	}
	if _, seen := env[name]; seen {
		t.tmpN++
		lean = fmt.Sprintf("%s_%d", name, t.tmpN)
	}
	env[name] = mpVal{lean: lean, ty: ty, ref: ref}
	return lean
}

func (t *mpTr) otelConst(n ast.Node, name string) mpVal {
	var ty string
	switch {
	case strings.HasPrefix(name, "PointValueType"):
		ty = "otelstef.PointValueType"
	case strings.HasPrefix(name, "ExemplarValueType"):
		ty = "otelstef.ExemplarValueType"
	case strings.HasPrefix(name, "AggregationTemporality"):
		ty = "otelstef.AggregationTemporality"
	default:
		t.fail(n, "otelstef constant %s", name)
	}
	t.consts[name] = true
	return mpVal{lean: "c_" + name, ty: ty, cst: name}
}

// method looks a method up and records the otelstef signature to check.
func (t *mpTr) method(n ast.Node, recvTy, name string) (*mpType, mpMeth) {
	ot, ok := mpTypes[recvTy]
	if !ok {
		t.fail(n, "method %s on %s: the type is not in the vocabulary", name, recvTy)
	}
	m, ok := ot.meths[name]
	if !ok {
		t.fail(n, "method %s.%s is not in the vocabulary", recvTy, name)
	}
	if strings.HasPrefix(recvTy, "otelstef.") {
		t.usedOtel[strings.TrimPrefix(recvTy, "otelstef.")+"."+name] = true
	}
	return ot, m
}

func (t *mpTr) checkArgTy(n ast.Node, v mpVal, want string) {
	if v.ref {
		t.fail(n, "a written object where a %s value is expected", want)
	}
	if v.ty == want {
		return
	}
	if v.ty == "untyped-int" && (want == "int" || want == "uint64" || want == "int64") {
		return
	}
	if v.ty == "untyped-bool" && want == "bool" {
		return
	}
	t.fail(n, "argument of type %s where %s is expected", v.ty, want)
}

func (t *mpTr) args(call *ast.CallExpr, m mpMeth) string {
	if len(call.Args) != len(m.args) {
		t.fail(call, "%d arguments where %d are expected", len(call.Args), len(m.args))
	}
	out := ""
	for i, a := range call.Args {
		v := t.expr(nil, a)
		t.checkArgTy(a, v, m.args[i])
		if m.constOnly != nil {
			ok := false
			for _, c := range m.constOnly {
				ok = ok || v.cst == c
			}
			if !ok {
				t.fail(a, "argument %s: only the constants %v are modelled", t.text(a), m.constOnly)
			}
		}
		out += " " + v.lean
	}
	return out
}

var mpEnvCur mpEnv // the environment of the statement being translated (expr needs it deep down)

// expr translates an expression; statements that must run first are appended to t.pre.
func (t *mpTr) expr(_ mpEnv, e ast.Expr) mpVal {
	env := mpEnvCur
	switch v := e.(type) {
	case *ast.ParenExpr:
		return t.expr(env, v.X)
	case *ast.Ident:
		switch v.Name {
		case "nil":
			return mpVal{lean: "none", ty: "nil"}
		case "true", "false":
			return mpVal{lean: v.Name, ty: "untyped-bool"}
		}
		if x, ok := env[v.Name]; ok {
			return x
		}
		t.fail(v, "identifier %s", v.Name)
	case *ast.BasicLit:
		if v.Kind == token.INT {
			c := constant.MakeFromLiteral(v.Value, v.Kind, 0)
			return mpVal{lean: bigOf(c).String(), ty: "untyped-int"}
		}
		t.fail(v, "literal %s", v.Value)
	case *ast.SelectorExpr:
		if id, ok := v.X.(*ast.Ident); ok {
			if _, isLocal := env[id.Name]; !isLocal {
				switch id.Name {
				case "otelstef":
					return t.otelConst(v, v.Sel.Name)
				case "pmetric":
					if ty, ok := mpPdataConsts[v.Sel.Name]; ok {
						return mpVal{lean: "pc_" + v.Sel.Name, ty: ty, cst: v.Sel.Name}
					}
				}
			}
		}
		t.fail(v, "selector %s", t.text(v))
	case *ast.UnaryExpr:
		if v.Op == token.NOT {
			x := t.expr(env, v.X)
			t.checkArgTy(v.X, x, "bool")
			return mpVal{lean: "(!" + x.lean + ")", ty: "bool"}
		}
		if v.Op == token.AND { // &c.TempAttrs
			if sel, ok := v.X.(*ast.SelectorExpr); ok && t.cur.recv == "conv" && isIdent(sel.X, t.recvName) && sel.Sel.Name == "TempAttrs" {
				return mpVal{lean: "(" + env[t.recvName].lean + " ⬝ Conv.tempAttrsL)", ty: "otelstef.Attributes", ref: true}
			}
		}
		t.fail(v, "unary expression %s", t.text(v))
	case *ast.BinaryExpr:
		return t.binary(v)
	case *ast.SliceExpr:
		if v.Low == nil && v.High == nil && v.Max == nil {
			x := t.expr(env, v.X)
			if !x.ref && (x.ty == "pcommon.TraceID" || x.ty == "pcommon.SpanID") {
				return mpVal{lean: "(cvt_arr_bytes " + x.lean + ")", ty: "[]byte"}
			}
		}
		t.fail(v, "slice expression %s", t.text(v))
	case *ast.CallExpr:
		return t.call(v)
	}
	t.fail(e, "expression %s (%T)", t.text(e), e)
	return mpVal{}
}

func (t *mpTr) binary(v *ast.BinaryExpr) mpVal {
	x, y := t.expr(nil, v.X), t.expr(nil, v.Y)
	if x.ref || y.ref {
		t.fail(v, "operator on a written object")
	}
	same := func() {
		ok := x.ty == y.ty ||
			(x.ty == "untyped-int" && (y.ty == "int" || y.ty == "uint64" || y.ty == "int64")) ||
			(y.ty == "untyped-int" && (x.ty == "int" || x.ty == "uint64" || x.ty == "int64")) ||
			(y.ty == "nil" && x.ty == "error") || (x.ty == "untyped-bool" && y.ty == "bool") || (y.ty == "untyped-bool" && x.ty == "bool")
		if !ok {
			t.fail(v, "operands of types %s and %s", x.ty, y.ty)
		}
		if x.ty == "float64" || x.ty == "int32" || x.ty == "int64" {
			// == on float64 is not the comparison of bit patterns, < on a signed pattern is not < on Nat
			t.fail(v, "comparison of %s values", x.ty)
		}
	}
	switch v.Op {
	case token.EQL:
		same()
		return mpVal{lean: "(" + x.lean + " == " + y.lean + ")", ty: "bool"}
	case token.NEQ:
		same()
		return mpVal{lean: "(" + x.lean + " != " + y.lean + ")", ty: "bool"}
	case token.LAND, token.LOR:
		t.checkArgTy(v.X, x, "bool")
		t.checkArgTy(v.Y, y, "bool")
		op := " && "
		if v.Op == token.LOR {
			op = " || "
		}
		return mpVal{lean: "(" + x.lean + op + y.lean + ")", ty: "bool"}
	case token.LSS, token.GTR, token.LEQ, token.GEQ:
		// only on int values, which in the subset are lengths, literals and sums of them (never negative: Nat order)
		isInt := func(ty string) bool { return ty == "int" || ty == "untyped-int" }
		if !isInt(x.ty) || !isInt(y.ty) {
			t.fail(v, "comparison %s of %s and %s values", v.Op, x.ty, y.ty)
		}
		op := map[token.Token]string{token.LSS: "<", token.GTR: ">", token.LEQ: "≤", token.GEQ: "≥"}[v.Op]
		return mpVal{lean: "(decide (" + x.lean + " " + op + " " + y.lean + "))", ty: "bool"}
	case token.ADD:
		same()
		ty := x.ty
		if ty == "untyped-int" {
			ty = y.ty
		}
		if ty != "int" && ty != "untyped-int" {
			t.fail(v, "addition of %s values (wrapping is not modelled)", ty)
		}
		return mpVal{lean: "(" + x.lean + " + " + y.lean + ")", ty: ty}
	}
	t.fail(v, "operator %s", v.Op)
	return mpVal{}
}

// recvChain: the receiver of a method call.
func (t *mpTr) call(c *ast.CallExpr) mpVal {
	env := mpEnvCur
	switch f := c.Fun.(type) {
	case *ast.ArrayType: // []byte(x)
		ty, _ := t.typeName(f)
		return t.conversion(c, ty)
	case *ast.Ident:
		switch f.Name {
		case "uint64", "int64", "int32":
			return t.conversion(c, f.Name)
		case "len":
			if len(c.Args) != 1 {
				t.fail(c, "len")
			}
			if cl, ok := c.Args[0].(*ast.CompositeLit); ok && len(cl.Elts) == 0 {
				ty, _ := t.typeName(cl.Type)
				switch ty {
				case "pcommon.TraceID":
					return mpVal{lean: "pc_TraceIDLen", ty: "int"}
				case "pcommon.SpanID":
					return mpVal{lean: "pc_SpanIDLen", ty: "int"}
				}
				t.fail(c, "len of %s", t.text(cl))
			}
			x := t.expr(env, c.Args[0])
			if x.ref || (x.ty != "pkg.Bytes" && x.ty != "[]byte") {
				t.fail(c, "len of a %s", x.ty)
			}
			return mpVal{lean: "(len " + x.lean + ")", ty: "int"}
		}
		if fn, ok := t.funcs[f.Name]; ok && fn.recv == "" {
			return t.callFunc(c, fn)
		}
		t.fail(c, "call of %s", f.Name)
	case *ast.SelectorExpr:
		if id, ok := f.X.(*ast.Ident); ok {
			// a method of the receiver: another translated function
			if id.Name == t.recvName && t.recvName != "" {
				if fn, ok := t.funcs[f.Sel.Name]; ok && fn.recv != "" {
					return t.callFunc(c, fn)
				}
				t.fail(c, "call of %s.%s", id.Name, f.Sel.Name)
			}
			if _, isLocal := env[id.Name]; !isLocal {
				q := id.Name + "." + f.Sel.Name
				switch q {
				case "pcommon.Timestamp", "pkg.Bytes":
					return t.conversion(c, q)
				case "pcommon.TraceID", "pcommon.SpanID":
					if len(c.Args) != 1 {
						t.fail(c, "conversion")
					}
					x := t.expr(env, c.Args[0])
					t.checkArgTy(c.Args[0], x, "[]byte")
					n := "pc_TraceIDLen"
					if q == "pcommon.SpanID" {
						n = "pc_SpanIDLen"
					}
					tn := t.tmp()
					t.pre = append(t.pre, fmt.Sprintf("let %s ← toArray %s %s", tn, n, x.lean))
					return mpVal{lean: tn, ty: q}
				case "fmt.Errorf":
					if len(c.Args) == 0 {
						t.fail(c, "fmt.Errorf without format")
					}
					lit, ok := c.Args[0].(*ast.BasicLit)
					if !ok || lit.Kind != token.STRING {
						t.fail(c, "fmt.Errorf with a format that is not a literal")
					}
					s, err := strconv.Unquote(lit.Value)
					if err != nil {
						t.fail(c, "format string")
					}
					for _, a := range c.Args[1:] {
						t.pureArg(a)
					}
					return mpVal{lean: "(some " + strconv.Quote(s) + ")", ty: "error"}
				case "pcommon.NewMap":
					if len(c.Args) != 0 {
						t.fail(c, "pcommon.NewMap with arguments")
					}
					tn := t.tmp()
					t.pre = append(t.pre, fmt.Sprintf("let %s ← newMap", tn))
					return mpVal{lean: tn, ty: "pcommon.Map", ref: true}
				case "otlptools.TefToOtlpMap":
					if len(c.Args) != 2 {
						t.fail(c, "TefToOtlpMap")
					}
					a, b := t.expr(env, c.Args[0]), t.expr(env, c.Args[1])
					if a.ref || a.ty != "otelstef.Attributes" || !b.ref || b.ty != "pcommon.Map" {
						t.fail(c, "TefToOtlpMap(%s, %s)", a.ty, b.ty)
					}
					tn := t.tmp()
					t.pre = append(t.pre, fmt.Sprintf("let %s ← tefToOtlpMap %s %s", tn, a.lean, b.lean))
					return mpVal{lean: tn, ty: "error"}
				}
				t.fail(c, "call of %s", q)
			}
		}
		// a method of an object
		r := t.expr(env, f.X)
		ot, m := t.method(c, r.ty, f.Sel.Name)
		lname := ot.ns + "." + mpLower(f.Sel.Name)
		switch m.kind {
		case mpGet:
			a := t.args(c, m)
			if r.ref {
				tn := t.tmp()
				if a != "" {
					t.pre = append(t.pre, fmt.Sprintf("let %s ← rd %s (%s%s)", tn, r.lean, lname, a))
				} else {
					t.pre = append(t.pre, fmt.Sprintf("let %s ← rd %s %s", tn, r.lean, lname))
				}
				return mpVal{lean: tn, ty: m.res}
			}
			return mpVal{lean: "(" + lname + a + " " + r.lean + ")", ty: m.res}
		case mpSub:
			if len(c.Args) != 0 {
				t.fail(c, "accessor with arguments")
			}
			if r.ref {
				return mpVal{lean: "(" + r.lean + " ⬝ " + lname + ")", ty: m.res, ref: true}
			}
			return mpVal{lean: "(" + lname + ".get " + r.lean + ")", ty: m.res}
		case mpAt:
			if len(c.Args) != 1 {
				t.fail(c, "At")
			}
			i := t.expr(env, c.Args[0])
			t.checkArgTy(c.Args[0], i, "int")
			if r.ref {
				t.pre = append(t.pre, fmt.Sprintf("chkIdx %s %s.len %s", r.lean, ot.ns, i.lean))
				return mpVal{lean: "(" + r.lean + " ⬝ " + ot.ns + ".elem " + i.lean + ")", ty: m.res, ref: true}
			}
			tn := t.tmp()
			t.pre = append(t.pre, fmt.Sprintf("let %s ← atV (%s.elems %s) %s", tn, ot.ns, r.lean, i.lean))
			return mpVal{lean: tn, ty: m.res}
		case mpAppend:
			if len(c.Args) != 0 {
				t.fail(c, "AppendEmpty with arguments")
			}
			if !r.ref {
				t.fail(c, "AppendEmpty on a read-only object")
			}
			tn := t.tmp()
			t.pre = append(t.pre, fmt.Sprintf("let %s ← appendEmpty %s %s.dflt", tn, r.lean, ot.ns))
			return mpVal{lean: tn, ty: m.res, ref: true}
		case mpMut:
			t.fail(c, "mutator %s.%s used as an expression", r.ty, f.Sel.Name)
		}
	}
	t.fail(c, "call %s", t.text(c))
	return mpVal{}
}

// pureArg: an argument of fmt.Errorf is only looked at for side effects: getters of read-only objects,
// locals, constants and getters of written objects (which read) are fine.
func (t *mpTr) pureArg(e ast.Expr) {
	ast.Inspect(e, func(n ast.Node) bool {
		if c, ok := n.(*ast.CallExpr); ok {
			if sel, ok := c.Fun.(*ast.SelectorExpr); ok {
				name := sel.Sel.Name
				if strings.HasPrefix(name, "Set") || strings.HasPrefix(name, "Unset") || strings.HasPrefix(name, "Append") ||
					strings.HasPrefix(name, "Ensure") || strings.HasPrefix(name, "CopyFrom") || strings.HasPrefix(name, "MoveTo") || name == "Init" {
					t.fail(c, "mutator in an argument of fmt.Errorf")
				}
				return true
			}
			if id, ok := c.Fun.(*ast.Ident); ok && (id.Name == "len" || id.Name == "uint64" || id.Name == "int64" || id.Name == "int") {
				return true
			}
			t.fail(c, "call in an argument of fmt.Errorf")
		}
		return true
	})
}

func (t *mpTr) conversion(c *ast.CallExpr, to string) mpVal {
	if len(c.Args) != 1 {
		t.fail(c, "conversion")
	}
	x := t.expr(nil, c.Args[0])
	if x.ref {
		t.fail(c, "conversion of a written object")
	}
	from := x.ty
	if from == to {
		return x
	}
	fn, ok := mpConv[[2]string{from, to}]
	if !ok {
		t.fail(c, "conversion of a %s to %s", from, to)
	}
	return mpVal{lean: "(" + fn + " " + x.lean + ")", ty: to}
}

// callFunc: a call of another translated function; the value of the call (if any) is a temporary.
func (t *mpTr) callFunc(c *ast.CallExpr, fn *mpFunc) mpVal {
	env := mpEnvCur
	if len(c.Args) != len(fn.params) {
		t.fail(c, "call of %s with %d arguments", fn.goName, len(c.Args))
	}
	s := fn.leanName
	if fn.recv == "conv" {
		if t.cur.recv != "conv" {
			t.fail(c, "call of a method of BaseOtlpToStef from elsewhere")
		}
		s += " " + env[t.recvName].lean
	}
	for i, a := range c.Args {
		v := t.expr(env, a)
		p := fn.params[i]
		if v.ref != p.ref || v.ty != p.ty {
			t.fail(a, "argument %d of %s: %s (written: %v) where %s (written: %v) is expected", i+1, fn.goName, v.ty, v.ref, p.ty, p.ref)
		}
		s += " " + v.lean
	}
	switch len(fn.results) {
	case 0:
		t.pre = append(t.pre, "callV ("+s+")")
		return mpVal{lean: "()", ty: "void"}
	case 1:
		tn := t.tmp()
		t.pre = append(t.pre, fmt.Sprintf("let %s ← call (%s)", tn, s))
		return mpVal{lean: tn, ty: fn.results[0]}
	case 2:
		tn := t.tmp()
		t.pre = append(t.pre, fmt.Sprintf("let %s ← call (%s)", tn, s))
		return mpVal{lean: tn, ty: "(" + fn.results[0] + "," + fn.results[1] + ")"}
	}
	t.fail(c, "results of %s", fn.goName)
	return mpVal{}
}

// flush emits the statements collected in t.pre.
func (t *mpTr) flush(ind string, out *[]string) {
	for _, l := range t.pre {
		*out = append(*out, ind+l)
	}
	t.pre = nil
}

// renameLast: `x := e` where e ended in a temporary made by the last collected statement: bind x there.
func (t *mpTr) bind(ind string, out *[]string, name string, v mpVal) {
	if n := len(t.pre); n > 0 && strings.HasPrefix(t.pre[n-1], "let "+v.lean+" ←") {
		t.pre[n-1] = "let " + name + " ←" + strings.TrimPrefix(t.pre[n-1], "let "+v.lean+" ←")
		t.flush(ind, out)
		return
	}
	t.flush(ind, out)
	*out = append(*out, ind+"let "+name+" := "+v.lean)
}

func (t *mpTr) block(env mpEnv, list []ast.Stmt, ind string) []string {
	env = env.clone()
	var out []string
	for _, s := range list {
		t.stmt(env, s, ind, &out)
	}
	real := false
	for _, l := range out {
		if !strings.HasPrefix(strings.TrimSpace(l), "--") {
			real = true
		}
	}
	if !real {
		out = append(out, ind+"pure ()")
	}
	return out
}

func (t *mpTr) cond(env mpEnv, e ast.Expr) string {
	mpEnvCur = env
	v := t.expr(env, e)
	t.checkArgTy(e, v, "bool")
	return v.lean
}

func (t *mpTr) stmt(env mpEnv, s ast.Stmt, ind string, out *[]string) {
	mpEnvCur = env
	*out = append(*out, ind+"-- "+t.firstLine(s))
	switch v := s.(type) {
	case *ast.ExprStmt:
		c, ok := v.X.(*ast.CallExpr)
		if !ok {
			t.fail(s, "expression statement")
		}
		t.callStmt(env, c, ind, out)
	case *ast.AssignStmt:
		if v.Tok != token.DEFINE {
			t.fail(s, "assignment %s (locals are immutable in the translation)", v.Tok)
		}
		if len(v.Rhs) != 1 {
			t.fail(s, "assignment with %d right-hand sides", len(v.Rhs))
		}
		r := t.expr(env, v.Rhs[0])
		switch len(v.Lhs) {
		case 1:
			id, ok := v.Lhs[0].(*ast.Ident)
			if !ok {
				t.fail(s, "assignment target")
			}
			if r.ty == "void" || strings.HasPrefix(r.ty, "(") {
				t.fail(s, "assignment of %s to one variable", r.ty)
			}
			name := t.define(env, id, r.ty, r.ref)
			t.bind(ind, out, name, r)
		case 2:
			if !strings.HasPrefix(r.ty, "(") {
				t.fail(s, "two variables from a %s", r.ty)
			}
			tys := strings.Split(strings.Trim(r.ty, "()"), ",")
			a, ok1 := v.Lhs[0].(*ast.Ident)
			b, ok2 := v.Lhs[1].(*ast.Ident)
			if !ok1 || !ok2 {
				t.fail(s, "assignment target")
			}
			na := t.define(env, a, tys[0], false)
			nb := t.define(env, b, tys[1], false)
			t.bind(ind, out, "("+na+", "+nb+")", r)
		default:
			t.fail(s, "assignment to %d variables", len(v.Lhs))
		}
	case *ast.IfStmt:
		t.ifStmt(env, v, ind, out)
	case *ast.SwitchStmt:
		t.switchStmt(env, v, ind, out)
	case *ast.ForStmt:
		init, ok := v.Init.(*ast.AssignStmt)
		if !ok || init.Tok != token.DEFINE || len(init.Lhs) != 1 || len(init.Rhs) != 1 {
			t.fail(s, "for loop that does not start with i := 0")
		}
		iv, ok := init.Lhs[0].(*ast.Ident)
		if lit, isLit := init.Rhs[0].(*ast.BasicLit); !ok || !isLit || lit.Value != "0" {
			t.fail(s, "for loop that does not start with i := 0")
		}
		cnd, ok := v.Cond.(*ast.BinaryExpr)
		if !ok || cnd.Op != token.LSS || !isIdent(cnd.X, iv.Name) {
			t.fail(s, "for loop whose condition is not i < n")
		}
		post, ok := v.Post.(*ast.IncDecStmt)
		if !ok || post.Tok != token.INC || !isIdent(post.X, iv.Name) {
			t.fail(s, "for loop whose step is not i++")
		}
		t.loop(env, s, iv, cnd.Y, v.Body, ind, out)
	case *ast.RangeStmt:
		if v.Tok != token.DEFINE || v.Value != nil || v.Key == nil {
			t.fail(s, "range loop that is not `for i := range n`")
		}
		iv, ok := v.Key.(*ast.Ident)
		if !ok {
			t.fail(s, "range loop variable")
		}
		t.loop(env, s, iv, v.X, v.Body, ind, out)
	case *ast.ReturnStmt:
		t.ret(env, v, ind, out)
	default:
		t.fail(s, "statement %T", s)
	}
}

func (t *mpTr) loop(env mpEnv, s ast.Stmt, iv *ast.Ident, bound ast.Expr, body *ast.BlockStmt, ind string, out *[]string) {
	if len(t.pre) != 0 {
		t.fail(s, "internal: pending statements")
	}
	n := t.expr(env, bound)
	t.checkArgTy(bound, n, "int")
	if len(t.pre) != 0 {
		t.fail(bound, "loop bound %s reads a written object or can panic", t.text(bound))
	}
	inner := env.clone()
	name := t.define(inner, iv, "int", false)
	ast.Inspect(body, func(x ast.Node) bool {
		switch a := x.(type) {
		case *ast.AssignStmt:
			for _, l := range a.Lhs {
				if isIdent(l, iv.Name) {
					t.fail(a, "assignment to the loop variable")
				}
			}
		case *ast.IncDecStmt:
			t.fail(a, "increment inside a loop body")
		case *ast.BranchStmt:
			t.fail(a, "%s", a.Tok)
		}
		return true
	})
	*out = append(*out, fmt.Sprintf("%sforLt %s fun %s => do", ind, n.lean, name))
	*out = append(*out, t.block(inner, body.List, ind+"  ")...)
}

func (t *mpTr) ifStmt(env mpEnv, v *ast.IfStmt, ind string, out *[]string) {
	env = env.clone()
	if v.Init != nil {
		a, ok := v.Init.(*ast.AssignStmt)
		if !ok || a.Tok != token.DEFINE {
			t.fail(v.Init, "if with an initialiser that is not x := e")
		}
		var tmp []string
		t.stmt(env, a, ind, &tmp)
		*out = append(*out, tmp[1:]...) // without the comment line (the if's comment shows it)
	}
	c := t.cond(env, v.Cond)
	t.flush(ind, out)
	*out = append(*out, ind+"if "+c+" then")
	*out = append(*out, t.block(env, v.Body.List, ind+"  ")...)
	switch e := v.Else.(type) {
	case nil:
	case *ast.BlockStmt:
		*out = append(*out, ind+"else")
		*out = append(*out, t.block(env, e.List, ind+"  ")...)
	case *ast.IfStmt:
		*out = append(*out, ind+"else")
		var tmp []string
		t.stmt(env, e, ind+"  ", &tmp)
		*out = append(*out, tmp...)
	default:
		t.fail(v, "else")
	}
}

func (t *mpTr) switchStmt(env mpEnv, v *ast.SwitchStmt, ind string, out *[]string) {
	if v.Init != nil || v.Tag == nil {
		t.fail(v, "switch without tag or with initialiser")
	}
	tag := t.expr(env, v.Tag)
	if tag.ref {
		t.fail(v.Tag, "switch on an object")
	}
	t.flush(ind, out)
	cur := ind
	n := len(v.Body.List)
	closed := false
	for i, cs := range v.Body.List {
		cc := cs.(*ast.CaseClause)
		ast.Inspect(cc, func(x ast.Node) bool {
			if b, ok := x.(*ast.BranchStmt); ok {
				t.fail(b, "%s", b.Tok)
			}
			return true
		})
		if cc.List == nil {
			if i != n-1 {
				t.fail(cc, "default clause that is not the last one")
			}
			if i == 0 {
				t.fail(cc, "switch with a default clause only")
			}
			*out = append(*out, cur+"-- default:")
			*out = append(*out, t.block(env, cc.Body, cur)...)
			closed = true
			continue
		}
		var alts []string
		for _, ce := range cc.List {
			mpEnvCur = env
			cv := t.expr(env, ce)
			if len(t.pre) != 0 {
				t.fail(ce, "case expression with side effects")
			}
			ok := cv.ty == tag.ty || (cv.ty == "untyped-int" && tag.ty == "int")
			if !ok {
				t.fail(ce, "case of type %s in a switch on %s", cv.ty, tag.ty)
			}
			alts = append(alts, "("+tag.lean+" == "+cv.lean+")")
		}
		c := strings.Join(alts, " || ")
		*out = append(*out, cur+"-- "+t.firstLine(cc))
		*out = append(*out, cur+"if "+c+" then")
		*out = append(*out, t.block(env, cc.Body, cur+"  ")...)
		*out = append(*out, cur+"else")
		cur += "  "
	}
	if !closed {
		*out = append(*out, cur+"pure ()")
	}
}

func (t *mpTr) callStmt(env mpEnv, c *ast.CallExpr, ind string, out *[]string) {
	if sel, ok := c.Fun.(*ast.SelectorExpr); ok {
		// c.Otlp2tef.MapSorted(m, &c.TempAttrs)
		if in, ok := sel.X.(*ast.SelectorExpr); ok && t.cur.recv == "conv" && isIdent(in.X, t.recvName) && in.Sel.Name == "Otlp2tef" {
			if sel.Sel.Name != "MapSorted" || len(c.Args) != 2 {
				t.fail(c, "call of Otlp2tef.%s", sel.Sel.Name)
			}
			a, b := t.expr(env, c.Args[0]), t.expr(env, c.Args[1])
			if a.ref || a.ty != "pcommon.Map" || !b.ref || b.ty != "otelstef.Attributes" {
				t.fail(c, "MapSorted(%s, %s)", a.ty, b.ty)
			}
			t.flush(ind, out)
			*out = append(*out, fmt.Sprintf("%sotlp2stefMapSorted %s %s", ind, a.lean, b.lean))
			return
		}
		id, isId := sel.X.(*ast.Ident)
		isLocal := false
		if isId {
			_, isLocal = env[id.Name]
		}
		if !isId || isLocal {
			isRecvCall := isId && id.Name == t.recvName && t.recvName != "" && t.funcs[sel.Sel.Name] != nil
			if !isRecvCall {
				r := t.expr(env, sel.X)
				// the two-object forms
				if (r.ty == "otelstef.Attributes" && sel.Sel.Name == "CopyFrom") || (r.ty == "pcommon.Map" && sel.Sel.Name == "MoveTo") {
					if len(c.Args) != 1 {
						t.fail(c, "%s", sel.Sel.Name)
					}
					o := t.expr(env, c.Args[0])
					if !r.ref || !o.ref || o.ty != r.ty {
						t.fail(c, "%s between %s (written: %v) and %s (written: %v)", sel.Sel.Name, r.ty, r.ref, o.ty, o.ref)
					}
					t.flush(ind, out)
					fn := "OAttributes.copyFrom"
					if sel.Sel.Name == "MoveTo" {
						fn = "PMap.moveTo"
					}
					*out = append(*out, fmt.Sprintf("%s%s %s %s", ind, fn, r.lean, o.lean))
					return
				}
				ot, m := t.method(c, r.ty, sel.Sel.Name)
				if m.kind != mpMut {
					t.fail(c, "call of %s.%s as a statement", r.ty, sel.Sel.Name)
				}
				if !r.ref {
					t.fail(c, "mutator %s.%s on a read-only object", r.ty, sel.Sel.Name)
				}
				a := t.args(c, m)
				t.flush(ind, out)
				fn := ot.ns + "." + mpLower(sel.Sel.Name)
				if a != "" {
					fn = "(" + fn + a + ")"
				}
				*out = append(*out, fmt.Sprintf("%supd %s %s", ind, r.lean, fn))
				return
			}
		}
	}
	v := t.expr(env, c)
	if v.ty != "void" {
		t.fail(c, "call whose result (%s) is dropped", v.ty)
	}
	t.flush(ind, out)
}

func (t *mpTr) ret(env mpEnv, v *ast.ReturnStmt, ind string, out *[]string) {
	res := t.cur.results
	if len(v.Results) != len(res) {
		t.fail(v, "return of %d values", len(v.Results))
	}
	var parts []string
	for i, r := range v.Results {
		x := t.expr(env, r)
		if x.ref {
			t.fail(r, "return of an object")
		}
		want := res[i]
		ok := x.ty == want || (want == "error" && x.ty == "nil") || (x.ty == "untyped-int" && mpScalarLean[want] == "Nat")
		if !ok {
			t.fail(r, "return of a %s where %s is expected", x.ty, want)
		}
		parts = append(parts, x.lean)
	}
	t.flush(ind, out)
	switch len(parts) {
	case 0:
		*out = append(*out, ind+"ret ()")
	case 1:
		*out = append(*out, ind+"ret "+parts[0])
	default:
		*out = append(*out, ind+"ret ("+strings.Join(parts, ", ")+")")
	}
}

// ---- declarations ----

func (t *mpTr) collect(f *ast.File, ns string) []*mpFunc {
	// receivers: the struct types of the file
	structs := map[string]*ast.StructType{}
	for _, d := range f.Decls {
		gd, ok := d.(*ast.GenDecl)
		if !ok {
			continue
		}
		switch gd.Tok {
		case token.IMPORT:
		case token.TYPE:
			for _, s := range gd.Specs {
				ts := s.(*ast.TypeSpec)
				st, ok := ts.Type.(*ast.StructType)
				if !ok {
					t.fail(ts, "type declaration %s", ts.Name.Name)
				}
				structs[ts.Name.Name] = st
			}
		default:
			t.fail(gd, "package-level %s declaration", gd.Tok)
		}
	}
	var list []*mpFunc
	for _, d := range f.Decls {
		fd, ok := d.(*ast.FuncDecl)
		if !ok {
			continue
		}
		fn := &mpFunc{goName: fd.Name.Name, leanName: mpLower(fd.Name.Name), decl: fd}
		t.cur = fn
		if fd.Type.TypeParams != nil {
			t.fail(fd, "type parameters")
		}
		if fd.Recv != nil {
			if len(fd.Recv.List) != 1 || len(fd.Recv.List[0].Names) != 1 {
				t.fail(fd, "receiver")
			}
			ty, ptr := t.typeName(fd.Recv.List[0].Type)
			st := structs[ty]
			if st == nil || !ptr {
				t.fail(fd, "receiver type %s", ty)
			}
			var fields []string
			for _, fl := range st.Fields.List {
				fty, _ := t.typeName(fl.Type)
				for _, n := range fl.Names {
					fields = append(fields, n.Name+" "+fty)
				}
				if len(fl.Names) == 0 {
					fields = append(fields, "embedded "+fty)
				}
			}
			switch strings.Join(fields, "; ") {
			case "":
				fn.recv = "empty"
			case "TempAttrs otelstef.Attributes; Otlp2tef otlptools.Otlp2Stef":
				fn.recv = "conv"
			default:
				t.fail(st, "fields of %s: %s", ty, strings.Join(fields, "; "))
			}
		}
		for _, p := range fd.Type.Params.List {
			ty, ptr := t.typeName(p.Type)
			for _, n := range p.Names {
				pp := mpParam{name: n.Name, ty: ty}
				if ot, ok := mpTypes[ty]; ok && !ot.scalar {
					pkg := ty[:strings.IndexByte(ty, '.')]
					if pkg == "otelstef" && !ptr || pkg != "otelstef" && ptr {
						t.fail(p, "parameter %s %s: otelstef objects are passed by pointer, pdata objects by value", n.Name, t.text(p.Type))
					}
					pp.ref = t.refPkg[pkg]
				} else if ptr {
					t.fail(p, "pointer parameter %s", n.Name)
				} else {
					t.leanType(p, ty)
				}
				fn.params = append(fn.params, pp)
			}
		}
		if fd.Type.Results != nil {
			for _, r := range fd.Type.Results.List {
				if len(r.Names) != 0 {
					t.fail(r, "named results")
				}
				ty, ptr := t.typeName(r.Type)
				if ptr {
					t.fail(r, "pointer result")
				}
				t.leanType(r, ty)
				fn.results = append(fn.results, ty)
			}
		}
		if len(fn.results) > 2 {
			t.fail(fd, "%d results", len(fn.results))
		}
		fn.sig = strings.TrimSpace(strings.TrimSuffix(strings.Join(strings.Fields(t.text(fd.Type)), " "), "{"))
		if old, dup := t.funcs[fn.goName]; dup {
			t.fail(fd, "two functions named %s (%s)", fn.goName, old.sig)
		}
		t.funcs[fn.goName] = fn
		list = append(list, fn)
	}
	t.cur = nil
	_ = ns
	return list
}

func (t *mpTr) translate(fn *mpFunc, sb *strings.Builder) {
	t.cur = fn
	t.tmpN = 0
	env := mpEnv{}
	fd := fn.decl
	var ps []string
	t.recvName = ""
	if fd.Recv != nil {
		t.recvName = fd.Recv.List[0].Names[0].Name
		if fn.recv == "conv" {
			name := t.define(env, fd.Recv.List[0].Names[0], "internal.BaseOtlpToStef", true)
			ps = append(ps, fmt.Sprintf("(%s : Ref σ Conv)", name))
		}
	}
	pi := 0
	for _, p := range fd.Type.Params.List {
		for _, n := range p.Names {
			pp := fn.params[pi]
			pi++
			name := t.define(env, n, pp.ty, pp.ref)
			lt := t.leanType(p, pp.ty)
			if pp.ref {
				ps = append(ps, fmt.Sprintf("(%s : Ref σ (%s))", name, lt))
			} else {
				ps = append(ps, fmt.Sprintf("(%s : %s)", name, lt))
			}
		}
	}
	rho := "Unit"
	switch len(fn.results) {
	case 1:
		rho = t.leanType(fd, fn.results[0])
	case 2:
		rho = "(" + t.leanType(fd, fn.results[0]) + " × " + t.leanType(fd, fn.results[1]) + ")"
	}
	fmt.Fprintf(sb, "/-- %s `%s` -/\n", t.file, fn.sig)
	fmt.Fprintf(sb, "def %s {σ : Type} %s : M σ %s Unit := do\n", fn.leanName, strings.Join(ps, " "), rho)
	lines := t.block(env, fd.Body.List, "  ")
	for _, l := range lines {
		sb.WriteString(l + "\n")
	}
	sb.WriteString("\n")
	t.cur = nil
}

// order: callees before callers (Lean needs definitions first); recursion is outside the subset.
func (t *mpTr) order(list []*mpFunc) []*mpFunc {
	deps := map[string][]string{}
	for _, fn := range list {
		ast.Inspect(fn.decl.Body, func(n ast.Node) bool {
			c, ok := n.(*ast.CallExpr)
			if !ok {
				return true
			}
			switch f := c.Fun.(type) {
			case *ast.Ident:
				if _, ok := t.funcs[f.Name]; ok {
					deps[fn.goName] = append(deps[fn.goName], f.Name)
				}
			case *ast.SelectorExpr:
				if fd := fn.decl; fd.Recv != nil && isIdent(f.X, fd.Recv.List[0].Names[0].Name) {
					if _, ok := t.funcs[f.Sel.Name]; ok {
						deps[fn.goName] = append(deps[fn.goName], f.Sel.Name)
					}
				}
			}
			return true
		})
	}
	var out []*mpFunc
	state := map[string]int{}
	var visit func(fn *mpFunc)
	visit = func(fn *mpFunc) {
		switch state[fn.goName] {
		case 1:
			t.cur = fn
			t.fail(fn.decl, "recursion")
		case 2:
			return
		}
		state[fn.goName] = 1
		for _, d := range deps[fn.goName] {
			visit(t.funcs[d])
		}
		state[fn.goName] = 2
		out = append(out, fn)
	}
	for _, fn := range list {
		visit(fn)
	}
	return out
}

// otelSignatures: "Type.Method" -> "(param types) result" for every method of go/otel/otelstef.
func mpOtelSignatures() map[string]string {
	dir := filepath.Join(repo, "go/otel/otelstef")
	ents, err := os.ReadDir(dir)
	if err != nil {
		die("PointFlow: %v", err)
	}
	sigs := map[string]string{}
	for _, e := range ents {
		if e.IsDir() || !strings.HasSuffix(e.Name(), ".go") || strings.HasSuffix(e.Name(), "_test.go") {
			continue
		}
		fset := token.NewFileSet()
		f, err := parser.ParseFile(fset, filepath.Join(dir, e.Name()), nil, 0)
		if err != nil {
			die("PointFlow: parse %s: %v", e.Name(), err)
		}
		for _, d := range f.Decls {
			fd, ok := d.(*ast.FuncDecl)
			if !ok || fd.Recv == nil || len(fd.Recv.List) != 1 {
				continue
			}
			st, ok := fd.Recv.List[0].Type.(*ast.StarExpr)
			if !ok {
				continue
			}
			id, ok := st.X.(*ast.Ident)
			if !ok {
				continue
			}
			var ps []string
			for _, p := range fd.Type.Params.List {
				n := len(p.Names)
				if n == 0 {
					n = 1
				}
				for i := 0; i < n; i++ {
					ps = append(ps, mpTypeString(p.Type))
				}
			}
			res := ""
			if fd.Type.Results != nil {
				var rs []string
				for _, r := range fd.Type.Results.List {
					rs = append(rs, mpTypeString(r.Type))
				}
				res = strings.Join(rs, ",")
			}
			sigs[id.Name+"."+fd.Name.Name] = "(" + strings.Join(ps, ",") + ") " + res
		}
	}
	return sigs
}

func mpTypeString(x ast.Expr) string {
	switch v := x.(type) {
	case *ast.Ident:
		return v.Name
	case *ast.SelectorExpr:
		return mpTypeString(v.X) + "." + v.Sel.Name
	case *ast.StarExpr:
		return "*" + mpTypeString(v.X)
	case *ast.ArrayType:
		if v.Len == nil {
			return "[]" + mpTypeString(v.Elt)
		}
	}
	return fmt.Sprintf("<%T>", x)
}

// mpOtelWant: the signature the table claims, in the notation of mpOtelSignatures.
func mpOtelWant(m mpMeth) string {
	short := func(s string) string { return strings.TrimPrefix(s, "otelstef.") }
	var ps []string
	for _, a := range m.args {
		ps = append(ps, short(a))
	}
	res := ""
	switch m.kind {
	case mpGet:
		res = short(m.res)
	case mpSub, mpAt:
		res = short(m.res)
		if _, isObj := mpTypes[m.res]; isObj {
			res = "*" + res
		}
	}
	return "(" + strings.Join(ps, ",") + ") " + res
}

func genPointFlow() {
	var sb strings.Builder
	sb.WriteString("/- GENERATED by /verif/extract (pointflow.go) from go/pdata/metrics/internal/baseotlptostef.go and\n")
	sb.WriteString("   go/pdata/metrics/internal/basesteftotolp.go (every function of the two files), the constants of\n")
	sb.WriteString("   go/otel/otelstef/{pointvalue,exemplarvalue,aggregationtemporality}.go. Do not edit.\n")
	sb.WriteString("   Vocabulary: Stef/PointFlowSem.lean. One Lean statement per Go statement (the Go statement is the comment\n")
	sb.WriteString("   above it); `tN` are the values of calls that had to run before the statement they occur in. -/\n")
	sb.WriteString("import Stef.PointFlowSem\n\nset_option linter.unusedVariables false\n\nnamespace Stef.Gen.PointFlow\nopen Stef.Otlp Stef.PointFlowSem\n\n")

	otelSigs := mpOtelSignatures()
	usedOtel := map[string]bool{}
	consts := map[string]bool{}
	var bodies strings.Builder
	var facts []string
	for _, part := range []struct {
		file, ns string
		refPkg   map[string]bool
	}{
		{"go/pdata/metrics/internal/baseotlptostef.go", "O2S", map[string]bool{"otelstef": true}},
		{"go/pdata/metrics/internal/basesteftotolp.go", "S2O", map[string]bool{"pmetric": true, "pcommon": true}},
	} {
		fset, f := parseFile(part.file)
		src, err := os.ReadFile(filepath.Join(repo, part.file))
		if err != nil {
			die("PointFlow: %v", err)
		}
		t := &mpTr{fset: fset, file: part.file, src: src, refPkg: part.refPkg, funcs: map[string]*mpFunc{},
			otelSigs: otelSigs, usedOtel: usedOtel, consts: consts}
		list := t.collect(f, part.ns)
		fmt.Fprintf(&bodies, "namespace %s\n\n", part.ns)
		var names []string
		for _, fn := range t.order(list) {
			t.translate(fn, &bodies)
		}
		for _, fn := range list {
			names = append(names, strconv.Quote(fn.goName))
		}
		fmt.Fprintf(&bodies, "end %s\n\n", part.ns)
		facts = append(facts, fmt.Sprintf("/-- the functions of %s, in source order (all are translated above). -/\ndef functions%s : List String := [%s]\n",
			part.file, part.ns, strings.Join(names, ", ")))
	}
	// the otelstef signatures the translation relied on
	var used []string
	for k := range usedOtel {
		used = append(used, k)
	}
	sort.Strings(used)
	for _, k := range used {
		i := strings.IndexByte(k, '.')
		m := mpTypes["otelstef."+k[:i]].meths[k[i+1:]]
		got, ok := otelSigs[k]
		if !ok {
			die("PointFlow: go/otel/otelstef has no method %s (the vocabulary claims %s)", k, mpOtelWant(m))
		}
		if want := mpOtelWant(m); got != want {
			die("PointFlow: go/otel/otelstef %s has signature %s, the vocabulary claims %s", k, got, want)
		}
	}
	for _, k := range []string{"Attributes.CopyFrom"} {
		if got := otelSigs[k]; got != "(*Attributes) " {
			die("PointFlow: go/otel/otelstef %s has signature %q", k, got)
		}
	}
	// the otelstef constants mentioned
	vals := map[string]constant.Value{}
	for _, cf := range []string{"go/otel/otelstef/pointvalue.go", "go/otel/otelstef/exemplarvalue.go", "go/otel/otelstef/aggregationtemporality.go"} {
		_, f := parseFile(cf)
		env := &constEnv{vals: map[string]constant.Value{}}
		collectConsts(f, env, vals)
	}
	var cs []string
	for k := range consts {
		cs = append(cs, k)
	}
	sort.Strings(cs)
	sb.WriteString("/-! the otelstef constants the functions mention (go/otel/otelstef) -/\n")
	for _, k := range cs {
		c, ok := vals[k]
		if !ok {
			die("PointFlow: constant otelstef.%s not found", k)
		}
		fmt.Fprintf(&sb, "def c_%s : Nat := %s\n", k, bigOf(c).String())
	}
	sb.WriteString("\n")
	sb.WriteString(bodies.String())
	for _, f := range facts {
		sb.WriteString(f + "\n")
	}
	fmt.Fprintf(&sb, "/-- the methods of go/otel/otelstef the functions call, whose signatures were checked against the source. -/\ndef otelstefMethodsChecked : Nat := %d\n\n", len(used))
	sb.WriteString("end Stef.Gen.PointFlow\n")
	writeOut("PointFlow.lean", sb.String())
}
