package main

// genResponderFlow regenerates lean/Stef/Gen/ResponderFlow.lean: the receiver's Responder
// (otelcol/internal/stefreceiver/internal/responder.go) and the decoding loop of onStream
// (otelcol/internal/stefreceiver/stef.go), translated STRUCTURALLY, statement by statement, from the
// Go AST (go/parser + go/ast only) into DATA of the statement languages of
// lean/Stef/ResponderFlowSem.lean. The order of the statements, the arms of every select, what an arm
// receives, loads, composes and sends, the conditions and what is assigned to what come from the
// source; what each whitelisted statement MEANS is written once, by hand, in ResponderFlowSem.lean.
// Proofs/ResponderGen.lean proves that the machine running this data makes exactly the Responder
// transitions of the hand LTS (Stef/Receiver.lean). Anything outside the subset makes this generator
// fail (die) with a message naming the construct; it costs C16 its tie and nothing else.
//
// Responder (methods of *Responder; exactly Run, sendBadDataResponse, composeBadDataResponse,
// ScheduleAck, ScheduleBadDataResponse, Stop, LastError must exist):
//
//   locals / parameters by type: uint64 -> NExpr.var i, BadData -> i-th BadData local,
//   *stef_proto.STEFDataResponse -> i-th response local; numbered per function and per type in order of
//   declaration (parameters first; a name declared again in an inner scope is a new local).
//   nat  ::= x | literal | X.AckRecordId | B.FromID | B.ToID | nat + nat
//   cond ::= nat (< | <= | > | >=) nat
//   stmt ::= t := time.NewTicker(..)                                   (Run only, once)
//          | var x uint64 | x := nat | x = nat
//          | x := &stef_proto.STEFDataResponse{}                        (no ranges)
//          | x := &stef_proto.STEFDataResponse{BadDataRecordIdRanges: []*stef_proto.STEFIDRange{{}, ..}}
//          | x := r.nextAckID.Load() | x = r.nextAckID.Load() | r.nextAckID.Store(nat)
//          | X.AckRecordId = nat
//          | X.BadDataRecordIdRanges = X.BadDataRecordIdRanges[:n]
//          | X.BadDataRecordIdRanges[i].FromId = nat | X.BadDataRecordIdRanges[i].ToId = nat
//          | X.BadDataRecordIdRanges = append(X.BadDataRecordIdRanges, &stef_proto.STEFIDRange{FromId: nat, ToId: nat})
//          | if cond {..} [else {..}]
//          | if err := r.stream.SendDataResponse(X); err != nil {..}      (no else; err only as r.lastError.Store(err) / zap.Error(err))
//          | r.logger.<Level>(..) | r.lastError.Store(err)
//          | select { case x := <-r.badDataCh: | case <-t.C: | case <-r.stopCh: | case r.badDataCh <- B: | default: }
//          | for {..} | return | return nat | {..}
//          | [x = | x :=] r.sendBadDataResponse(X, B, nat) | r.composeBadDataResponse(X, B)
//          | r.badDataCh <- B | close(r.stopCh)
//   LastError: exactly `x := r.lastError.Load(); if x == nil { return nil }; return x.(error)`.
//   NewResponder: `badDataCh: make(chan BadData, <constant>)` gives the channel capacity.
//
// onStream: `resp := internal.NewResponder(..)`, `defer resp.Stop()`, `go resp.Run()` in this order, then
// as LAST statement `for { body }` with (all uint64 locals declared inside the body):
//   body ::= e := resp.LastError(); if e != nil { <logging>; return e }
//          | x := reader.RecordCount()
//          | m, err := converter.Convert(reader, false); if err != nil { <no use of resp>; return err }
//          | if err := r.nextMetrics.ConsumeMetrics(<ctx>, m); err != nil { A } else { B }
//   A, B ::= r.settings.Logger.<Level>(..) | if consumererror.IsPermanent(err) { A } else { A }
//          | resp.ScheduleBadDataResponse(internal.BadData{FromID: lexpr, ToID: lexpr}) | resp.ScheduleAck(lexpr)
//          | return <call expression>
//   lexpr ::= x | literal | lexpr + lexpr

import (
	"fmt"
	"go/ast"
	"go/constant"
	"go/printer"
	"go/token"
	"strconv"
	"strings"
)

func init() { register("ResponderFlow", genResponderFlow) }

const rfResponderFile = "otelcol/internal/stefreceiver/internal/responder.go"
const rfReceiverFile = "otelcol/internal/stefreceiver/stef.go"

type rfVar struct {
	kind string // nat | bd | ref | ticker | err
	idx  int
}

type rfSig struct {
	lean   string   // constructor of Fn
	kinds  []string // parameter kinds in order
	result bool     // returns uint64
}

type rfTr struct {
	fset       *token.FileSet
	fn         string
	recv       string
	scopes     []map[string]rfVar
	nN, nB, nR int
	hasTicker  bool
	errName    string // name of the SendDataResponse error in scope ("" = none)
	sigs       map[string]*rfSig
	mayCall    map[string]bool
	result     bool
}

func (t *rfTr) fail(n ast.Node, f string, a ...any) {
	pos := ""
	if n != nil {
		pos = " at " + t.fset.Position(n.Pos()).String()
	}
	die("%s: %s%s: %s (outside the translated Go subset)", rfResponderFile, t.fn, pos, fmt.Sprintf(f, a...))
}

func (t *rfTr) str(n ast.Node) string {
	var sb strings.Builder
	printer.Fprint(&sb, t.fset, n)
	return sb.String()
}

func (t *rfTr) push() { t.scopes = append(t.scopes, map[string]rfVar{}) }
func (t *rfTr) pop()  { t.scopes = t.scopes[:len(t.scopes)-1] }

func (t *rfTr) lookup(name string) (rfVar, bool) {
	for i := len(t.scopes) - 1; i >= 0; i-- {
		if v, ok := t.scopes[i][name]; ok {
			return v, true
		}
	}
	return rfVar{}, false
}

func (t *rfTr) declare(n ast.Node, name, kind string) int {
	if name == "_" || name == t.recv || name == "nil" || name == "true" || name == "false" {
		t.fail(n, "declaration of %s", name)
	}
	cur := t.scopes[len(t.scopes)-1]
	if _, dup := cur[name]; dup {
		t.fail(n, "%s declared twice in one scope", name)
	}
	idx := 0
	switch kind {
	case "nat":
		idx = t.nN
		t.nN++
	case "bd":
		idx = t.nB
		t.nB++
	case "ref":
		idx = t.nR
		t.nR++
	}
	cur[name] = rfVar{kind, idx}
	return idx
}

func (t *rfTr) identOf(e ast.Expr, kind string) (int, bool) {
	id, ok := unparen(e).(*ast.Ident)
	if !ok {
		return 0, false
	}
	v, ok := t.lookup(id.Name)
	if !ok || v.kind != kind {
		return 0, false
	}
	return v.idx, true
}

// recvField: r.<field>
func (t *rfTr) recvField(e ast.Expr, field string) bool {
	sel, ok := unparen(e).(*ast.SelectorExpr)
	return ok && isIdent(sel.X, t.recv) && sel.Sel.Name == field
}

// recvCall: r.<field>.<method>(args) -> args
func (t *rfTr) recvCall(e ast.Expr, field, method string) ([]ast.Expr, bool) {
	ce, ok := unparen(e).(*ast.CallExpr)
	if !ok || ce.Ellipsis.IsValid() {
		return nil, false
	}
	sel, ok := ce.Fun.(*ast.SelectorExpr)
	if !ok || sel.Sel.Name != method || !t.recvField(sel.X, field) {
		return nil, false
	}
	return ce.Args, true
}

func (t *rfTr) nat(e ast.Expr) string {
	e = unparen(e)
	switch v := e.(type) {
	case *ast.Ident:
		if i, ok := t.identOf(v, "nat"); ok {
			return fmt.Sprintf("(.var %d)", i)
		}
	case *ast.BasicLit:
		if v.Kind == token.INT {
			n, err := strconv.ParseUint(v.Value, 0, 64)
			if err != nil {
				t.fail(e, "integer literal %s", v.Value)
			}
			return fmt.Sprintf("(.lit %d)", n)
		}
	case *ast.SelectorExpr:
		if i, ok := t.identOf(v.X, "ref"); ok && v.Sel.Name == "AckRecordId" {
			return fmt.Sprintf("(.respAck %d)", i)
		}
		if i, ok := t.identOf(v.X, "bd"); ok {
			switch v.Sel.Name {
			case "FromID":
				return fmt.Sprintf("(.bdFrom %d)", i)
			case "ToID":
				return fmt.Sprintf("(.bdTo %d)", i)
			}
		}
	case *ast.BinaryExpr:
		if v.Op == token.ADD {
			return "(.add " + t.nat(v.X) + " " + t.nat(v.Y) + ")"
		}
	}
	t.fail(e, "uint64 expression `%s`", t.str(e))
	return ""
}

var rfCmp = map[token.Token]string{token.LSS: "lt", token.LEQ: "le", token.GTR: "gt", token.GEQ: "ge"}

func (t *rfTr) cond(e ast.Expr) string {
	if b, ok := unparen(e).(*ast.BinaryExpr); ok {
		if op, ok := rfCmp[b.Op]; ok {
			return "(." + op + " " + t.nat(b.X) + " " + t.nat(b.Y) + ")"
		}
	}
	t.fail(e, "condition `%s`", t.str(e))
	return ""
}

// ranges: X.BadDataRecordIdRanges -> index of X
func (t *rfTr) ranges(e ast.Expr) (int, bool) {
	sel, ok := unparen(e).(*ast.SelectorExpr)
	if !ok || sel.Sel.Name != "BadDataRecordIdRanges" {
		return 0, false
	}
	return t.identOf(sel.X, "ref")
}

func (t *rfTr) smallInt(e ast.Expr) (int, bool) {
	l, ok := unparen(e).(*ast.BasicLit)
	if !ok || l.Kind != token.INT {
		return 0, false
	}
	n, err := strconv.ParseUint(l.Value, 0, 31)
	return int(n), err == nil
}

// harmless: the arguments of a logging call - no calls except zap.<F>(..), no channel operation,
// no function literal
func (t *rfTr) harmless(args []ast.Expr) {
	for _, a := range args {
		ast.Inspect(a, func(n ast.Node) bool {
			switch v := n.(type) {
			case *ast.FuncLit:
				t.fail(n, "function literal in a logging call")
			case *ast.UnaryExpr:
				if v.Op == token.ARROW {
					t.fail(n, "channel receive in a logging call")
				}
			case *ast.CallExpr:
				sel, ok := v.Fun.(*ast.SelectorExpr)
				if !ok || !isIdent(sel.X, "zap") {
					t.fail(n, "call `%s` in a logging call", t.str(v.Fun))
				}
			}
			return true
		})
	}
}

func (t *rfTr) natList(items []string) string { return "[" + strings.Join(items, ", ") + "]" }

// call: r.sendBadDataResponse(..) / r.composeBadDataResponse(..); dst = "none" | "(some i)"
func (t *rfTr) call(ce *ast.CallExpr, dst string) (string, bool) {
	sel, ok := ce.Fun.(*ast.SelectorExpr)
	if !ok || !isIdent(sel.X, t.recv) {
		return "", false
	}
	sig, ok := t.sigs[sel.Sel.Name]
	if !ok {
		return "", false
	}
	if !t.mayCall[sel.Sel.Name] {
		t.fail(ce, "call of %s from %s", sel.Sel.Name, t.fn)
	}
	if ce.Ellipsis.IsValid() || len(ce.Args) != len(sig.kinds) {
		t.fail(ce, "call of %s with %d arguments", sel.Sel.Name, len(ce.Args))
	}
	if dst != "none" && !sig.result {
		t.fail(ce, "%s has no result", sel.Sel.Name)
	}
	var refs, bds, nats []string
	for i, a := range ce.Args {
		switch sig.kinds[i] {
		case "ref":
			j, ok := t.identOf(a, "ref")
			if !ok {
				t.fail(a, "argument `%s` is not a response local", t.str(a))
			}
			refs = append(refs, strconv.Itoa(j))
		case "bd":
			j, ok := t.identOf(a, "bd")
			if !ok {
				t.fail(a, "argument `%s` is not a BadData local", t.str(a))
			}
			bds = append(bds, strconv.Itoa(j))
		case "nat":
			nats = append(nats, t.nat(a))
		}
	}
	return fmt.Sprintf(".call .%s %s %s %s %s", sig.lean, dst, t.natList(refs), t.natList(bds), t.natList(nats)), true
}

func (t *rfTr) block(list []ast.Stmt, ind string) string {
	var parts []string
	for _, s := range list {
		if _, ok := s.(*ast.EmptyStmt); ok {
			continue
		}
		parts = append(parts, t.stmt(s, ind))
	}
	if len(parts) == 0 {
		return ".skip"
	}
	return strings.Join(parts, " ;;\n"+ind)
}

func (t *rfTr) scoped(list []ast.Stmt, ind string) string {
	t.push()
	defer t.pop()
	return t.block(list, ind)
}

func (t *rfTr) stmt(s ast.Stmt, ind string) string {
	in := ind + "  "
	switch v := s.(type) {
	case *ast.DeclStmt:
		gd, ok := v.Decl.(*ast.GenDecl)
		if ok && gd.Tok == token.VAR && len(gd.Specs) == 1 {
			vs := gd.Specs[0].(*ast.ValueSpec)
			if len(vs.Names) == 1 && len(vs.Values) == 0 && vs.Type != nil && isIdent(vs.Type, "uint64") {
				return fmt.Sprintf(".declN %d", t.declare(s, vs.Names[0].Name, "nat"))
			}
		}
		t.fail(s, "declaration `%s`", t.str(s))
	case *ast.AssignStmt:
		return t.assign(v)
	case *ast.ExprStmt:
		ce, ok := v.X.(*ast.CallExpr)
		if !ok {
			t.fail(s, "expression statement `%s`", t.str(s))
		}
		if args, ok := t.recvCall(ce, "nextAckID", "Store"); ok && len(args) == 1 {
			return ".storeAck " + t.nat(args[0])
		}
		if args, ok := t.recvCall(ce, "lastError", "Store"); ok {
			if len(args) != 1 || t.errName == "" || !isIdent(args[0], t.errName) {
				t.fail(s, "`%s` is not r.lastError.Store(<the error of SendDataResponse>) inside its error branch", t.str(s))
			}
			return ".storeLastError"
		}
		if sel, ok := ce.Fun.(*ast.SelectorExpr); ok && t.recvField(sel.X, "logger") {
			switch sel.Sel.Name {
			case "Error", "Warn", "Info", "Debug":
				t.harmless(ce.Args)
				return ".logError"
			}
		}
		if isIdent(ce.Fun, "close") && len(ce.Args) == 1 && t.recvField(ce.Args[0], "stopCh") {
			return ".closeStop"
		}
		if c, ok := t.call(ce, "none"); ok {
			return c
		}
		t.fail(s, "call `%s`", t.str(s))
	case *ast.SendStmt:
		if t.recvField(v.Chan, "badDataCh") {
			if i, ok := t.identOf(v.Value, "bd"); ok {
				return fmt.Sprintf(".chanSendBad %d", i)
			}
		}
		t.fail(s, "channel send `%s`", t.str(s))
	case *ast.IfStmt:
		if v.Init != nil {
			as, ok := v.Init.(*ast.AssignStmt)
			if !ok || as.Tok != token.DEFINE || len(as.Lhs) != 1 || len(as.Rhs) != 1 || v.Else != nil {
				t.fail(s, "if with init statement `%s`", t.str(v.Init))
			}
			id, ok := as.Lhs[0].(*ast.Ident)
			args, isSend := t.recvCall(as.Rhs[0], "stream", "SendDataResponse")
			if !ok || !isSend || len(args) != 1 {
				t.fail(s, "if with init statement `%s` (only `err := r.stream.SendDataResponse(X)`)", t.str(v.Init))
			}
			ri, ok := t.identOf(args[0], "ref")
			if !ok {
				t.fail(s, "SendDataResponse of `%s`, not a response local", t.str(args[0]))
			}
			if t.str(v.Cond) != id.Name+" != nil" {
				t.fail(s, "condition `%s` after SendDataResponse (only `%s != nil`)", t.str(v.Cond), id.Name)
			}
			if t.errName != "" {
				t.fail(s, "SendDataResponse inside the error branch of another")
			}
			t.push()
			t.declare(s, id.Name, "err")
			t.errName = id.Name
			body := t.block(v.Body.List, in+"  ")
			t.errName = ""
			t.pop()
			return fmt.Sprintf(".sendResp %d\n%s  (%s)", ri, in, body)
		}
		c := t.cond(v.Cond)
		th := t.scoped(v.Body.List, in+"  ")
		el := ".skip"
		switch e := v.Else.(type) {
		case nil:
		case *ast.BlockStmt:
			el = t.scoped(e.List, in+"  ")
		case *ast.IfStmt:
			el = t.scoped([]ast.Stmt{e}, in+"  ")
		default:
			t.fail(s, "else branch")
		}
		return fmt.Sprintf(".ite %s\n%s  (%s)\n%s  (%s)", c, in, th, in, el)
	case *ast.SelectStmt:
		return ".sel\n" + in + "  " + t.arms(v.Body.List, in+"  ")
	case *ast.ForStmt:
		if v.Init != nil || v.Cond != nil || v.Post != nil {
			t.fail(s, "for statement with init / condition / post")
		}
		return ".loop\n" + in + "  (" + t.scoped(v.Body.List, in+"  ") + ")"
	case *ast.ReturnStmt:
		switch {
		case len(v.Results) == 0 && !t.result:
			return ".ret none"
		case len(v.Results) == 1 && t.result:
			return ".ret (some " + t.nat(v.Results[0]) + ")"
		}
		t.fail(s, "return statement `%s`", t.str(s))
	case *ast.BlockStmt:
		return t.scoped(v.List, ind)
	}
	t.fail(s, "statement `%s` (%T)", t.str(s), s)
	return ""
}

func (t *rfTr) arms(clauses []ast.Stmt, ind string) string {
	if len(clauses) == 0 {
		return ".nil"
	}
	cc, ok := clauses[0].(*ast.CommClause)
	if !ok {
		t.fail(clauses[0], "select clause")
	}
	t.push()
	head := ""
	switch c := cc.Comm.(type) {
	case nil:
		head = ".dflt"
	case *ast.AssignStmt:
		// x := <-r.badDataCh
		if c.Tok == token.DEFINE && len(c.Lhs) == 1 && len(c.Rhs) == 1 {
			id, ok1 := c.Lhs[0].(*ast.Ident)
			u, ok2 := c.Rhs[0].(*ast.UnaryExpr)
			if ok1 && ok2 && u.Op == token.ARROW && t.recvField(u.X, "badDataCh") {
				head = fmt.Sprintf(".recvBad %d", t.declare(c, id.Name, "bd"))
			}
		}
	case *ast.ExprStmt:
		if u, ok := c.X.(*ast.UnaryExpr); ok && u.Op == token.ARROW {
			if t.recvField(u.X, "stopCh") {
				head = ".recvStop"
			} else if sel, ok := u.X.(*ast.SelectorExpr); ok && sel.Sel.Name == "C" {
				if id, ok := sel.X.(*ast.Ident); ok {
					if v, ok := t.lookup(id.Name); ok && v.kind == "ticker" {
						head = ".recvTick"
					}
				}
			}
		}
	case *ast.SendStmt:
		if t.recvField(c.Chan, "badDataCh") {
			if i, ok := t.identOf(c.Value, "bd"); ok {
				head = fmt.Sprintf(".sendBad %d", i)
			}
		}
	}
	if head == "" {
		t.fail(cc, "select case `%s`", t.str(cc.Comm))
	}
	body := t.block(cc.Body, ind+"    ")
	t.pop()
	rest := t.arms(clauses[1:], ind)
	if rest == ".nil" {
		return fmt.Sprintf("(%s\n%s  (%s)\n%s.nil)", head, ind, body, ind)
	}
	return fmt.Sprintf("(%s\n%s  (%s)\n%s%s)", head, ind, body, ind, rest)
}

func (t *rfTr) assign(v *ast.AssignStmt) string {
	if len(v.Lhs) != 1 || len(v.Rhs) != 1 || (v.Tok != token.DEFINE && v.Tok != token.ASSIGN) {
		t.fail(v, "assignment `%s`", t.str(v))
	}
	lhs, rhs := unparen(v.Lhs[0]), unparen(v.Rhs[0])
	if id, ok := lhs.(*ast.Ident); ok {
		// the right-hand side is translated BEFORE a new name comes into scope
		target := func(kind string) int {
			if v.Tok == token.DEFINE {
				return t.declare(v, id.Name, kind)
			}
			i, ok := t.identOf(id, kind)
			if !ok {
				t.fail(v, "assignment to `%s`", id.Name)
			}
			return i
		}
		if ce, ok := rhs.(*ast.CallExpr); ok {
			if t.str(ce.Fun) == "time.NewTicker" && v.Tok == token.DEFINE && t.fn == "Run" && !t.hasTicker {
				t.hasTicker = true
				t.declare(v, id.Name, "ticker")
				return ".newTicker"
			}
			if args, ok := t.recvCall(ce, "nextAckID", "Load"); ok && len(args) == 0 {
				return fmt.Sprintf(".loadAck %d", target("nat"))
			}
			if sel, ok := ce.Fun.(*ast.SelectorExpr); ok && isIdent(sel.X, t.recv) {
				if sig, known := t.sigs[sel.Sel.Name]; known && sig.result {
					// arguments first (translated with a placeholder), then the target
					c, _ := t.call(ce, "@DST@")
					return strings.Replace(c, "@DST@", fmt.Sprintf("(some %d)", target("nat")), 1)
				}
			}
			t.fail(v, "call `%s` on the right of an assignment", t.str(ce))
		}
		if u, ok := rhs.(*ast.UnaryExpr); ok && u.Op == token.AND && v.Tok == token.DEFINE {
			cl, ok := u.X.(*ast.CompositeLit)
			if !ok || cl.Type == nil || t.str(cl.Type) != "stef_proto.STEFDataResponse" {
				t.fail(v, "composite literal `%s`", t.str(rhs))
			}
			n := 0
			for _, el := range cl.Elts {
				kv, ok := el.(*ast.KeyValueExpr)
				if !ok || t.str(kv.Key) != "BadDataRecordIdRanges" {
					t.fail(el, "field `%s` of the response literal", t.str(el))
				}
				rl, ok := kv.Value.(*ast.CompositeLit)
				if !ok || rl.Type == nil || t.str(rl.Type) != "[]*stef_proto.STEFIDRange" {
					t.fail(el, "value `%s` of BadDataRecordIdRanges", t.str(kv.Value))
				}
				for _, r := range rl.Elts {
					rc, ok := r.(*ast.CompositeLit)
					if !ok || len(rc.Elts) != 0 {
						t.fail(r, "preallocated range `%s` is not the zero value {}", t.str(r))
					}
					n++
				}
			}
			return fmt.Sprintf(".newResp %d %d", t.declare(v, id.Name, "ref"), n)
		}
		e := t.nat(rhs)
		return fmt.Sprintf(".setN %d %s", target("nat"), e)
	}
	if v.Tok != token.ASSIGN {
		t.fail(v, "assignment `%s`", t.str(v))
	}
	if sel, ok := lhs.(*ast.SelectorExpr); ok {
		// X.AckRecordId = nat
		if i, ok := t.identOf(sel.X, "ref"); ok && sel.Sel.Name == "AckRecordId" {
			return fmt.Sprintf(".setRespAck %d %s", i, t.nat(rhs))
		}
		// X.BadDataRecordIdRanges = ...
		if i, ok := t.ranges(sel); ok {
			if sl, ok := rhs.(*ast.SliceExpr); ok && sl.Low == nil && sl.Max == nil && !sl.Slice3 && sl.High != nil {
				if j, same := t.ranges(sl.X); same && j == i {
					if n, ok := t.smallInt(sl.High); ok {
						return fmt.Sprintf(".truncRanges %d %d", i, n)
					}
				}
			}
			if ce, ok := rhs.(*ast.CallExpr); ok && isIdent(ce.Fun, "append") && len(ce.Args) == 2 && !ce.Ellipsis.IsValid() {
				if j, same := t.ranges(ce.Args[0]); same && j == i {
					if u, ok := ce.Args[1].(*ast.UnaryExpr); ok && u.Op == token.AND {
						if cl, ok := u.X.(*ast.CompositeLit); ok && cl.Type != nil && t.str(cl.Type) == "stef_proto.STEFIDRange" && len(cl.Elts) == 2 {
							var from, to string
							for _, el := range cl.Elts {
								kv, ok := el.(*ast.KeyValueExpr)
								if !ok {
									t.fail(el, "positional field in the range literal")
								}
								switch t.str(kv.Key) {
								case "FromId":
									from = t.nat(kv.Value)
								case "ToId":
									to = t.nat(kv.Value)
								}
							}
							if from != "" && to != "" {
								return fmt.Sprintf(".appendRange %d %s %s", i, from, to)
							}
						}
					}
				}
			}
		}
		// X.BadDataRecordIdRanges[i].FromId = nat
		if ix, ok := unparen(sel.X).(*ast.IndexExpr); ok {
			if i, ok := t.ranges(ix.X); ok {
				if n, ok := t.smallInt(ix.Index); ok {
					switch sel.Sel.Name {
					case "FromId":
						return fmt.Sprintf(".setRangeFrom %d %d %s", i, n, t.nat(rhs))
					case "ToId":
						return fmt.Sprintf(".setRangeTo %d %d %s", i, n, t.nat(rhs))
					}
				}
			}
		}
	}
	t.fail(v, "assignment `%s`", t.str(v))
	return ""
}

func rfParamKind(t *rfTr, e ast.Expr) string {
	switch t.str(e) {
	case "uint64":
		return "nat"
	case "BadData":
		return "bd"
	case "*stef_proto.STEFDataResponse":
		return "ref"
	}
	t.fail(e, "parameter type `%s`", t.str(e))
	return ""
}

type rfDecl struct {
	text string
}

func rfZeros(n int, z string) string {
	items := make([]string, n)
	for i := range items {
		items[i] = z
	}
	return "[" + strings.Join(items, ", ") + "]"
}

func rfResponder() string {
	fset, f := parseFile(rfResponderFile)
	ctx := &rfTr{fset: fset, fn: "(file)"}
	// the struct
	wantFields := map[string]string{"nextAckID": "atomic.Uint64", "lastError": "atomic.Value", "badDataCh": "chan BadData", "stopCh": "chan struct{}"}
	found := 0
	for _, d := range f.Decls {
		gd, ok := d.(*ast.GenDecl)
		if !ok || gd.Tok != token.TYPE {
			continue
		}
		for _, sp := range gd.Specs {
			ts := sp.(*ast.TypeSpec)
			st, ok := ts.Type.(*ast.StructType)
			if !ok {
				continue
			}
			switch ts.Name.Name {
			case "Responder":
				for _, fl := range st.Fields.List {
					for _, n := range fl.Names {
						if want, ok := wantFields[n.Name]; ok {
							if ctx.str(fl.Type) != want {
								ctx.fail(fl, "field %s of Responder has type %s, not %s", n.Name, ctx.str(fl.Type), want)
							}
							found++
						}
					}
				}
			case "BadData":
				ok := len(st.Fields.List) == 1 && len(st.Fields.List[0].Names) == 2 && ctx.str(st.Fields.List[0].Type) == "uint64" &&
					st.Fields.List[0].Names[0].Name == "FromID" && st.Fields.List[0].Names[1].Name == "ToID"
				if !ok {
					ctx.fail(ts, "BadData is not struct{ FromID, ToID uint64 }")
				}
				found++
			}
		}
	}
	if found != len(wantFields)+1 {
		ctx.fail(nil, "the types Responder (nextAckID, lastError, badDataCh, stopCh) and BadData were not all found")
	}
	// the methods
	methods := map[string]*ast.FuncDecl{}
	var newResponder *ast.FuncDecl
	for _, d := range f.Decls {
		fd, ok := d.(*ast.FuncDecl)
		if !ok || fd.Body == nil {
			continue
		}
		if fd.Recv == nil {
			if fd.Name.Name == "NewResponder" {
				newResponder = fd
			}
			continue
		}
		if len(fd.Recv.List) != 1 || len(fd.Recv.List[0].Names) != 1 || ctx.str(fd.Recv.List[0].Type) != "*Responder" {
			ctx.fail(fd, "method %s: receiver is not a named *Responder", fd.Name.Name)
		}
		methods[fd.Name.Name] = fd
	}
	known := []string{"composeBadDataResponse", "sendBadDataResponse", "Run", "ScheduleAck", "ScheduleBadDataResponse", "Stop", "LastError"}
	for _, k := range known {
		if methods[k] == nil {
			ctx.fail(nil, "method %s of Responder not found", k)
		}
	}
	if len(methods) != len(known) {
		for name, fd := range methods {
			isKnown := false
			for _, k := range known {
				isKnown = isKnown || k == name
			}
			if !isKnown {
				ctx.fail(fd, "Responder has a method %s that the model does not know", name)
			}
		}
	}
	sigs := map[string]*rfSig{}
	sigOf := func(name, lean string) {
		fd := methods[name]
		t := &rfTr{fset: fset, fn: name}
		sg := &rfSig{lean: lean}
		for _, p := range fd.Type.Params.List {
			for range p.Names {
				sg.kinds = append(sg.kinds, rfParamKind(t, p.Type))
			}
			if len(p.Names) == 0 {
				t.fail(p, "unnamed parameter")
			}
		}
		if r := fd.Type.Results; r != nil {
			if len(r.List) != 1 || len(r.List[0].Names) != 0 || t.str(r.List[0].Type) != "uint64" {
				t.fail(fd, "result list (only a single unnamed uint64)")
			}
			sg.result = true
		}
		sigs[name] = sg
	}
	sigOf("sendBadDataResponse", "sendBad")
	sigOf("composeBadDataResponse", "compose")
	mayCall := map[string]map[string]bool{
		"Run":                    {"sendBadDataResponse": true, "composeBadDataResponse": true},
		"sendBadDataResponse":    {"composeBadDataResponse": true},
		"composeBadDataResponse": {},
	}
	var sb strings.Builder
	one := func(name, lean string) {
		fd := methods[name]
		t := &rfTr{fset: fset, fn: name, recv: fd.Recv.List[0].Names[0].Name, sigs: sigs, mayCall: mayCall[name]}
		if t.mayCall == nil {
			t.mayCall = map[string]bool{}
		}
		t.push()
		var pk []string
		for _, p := range fd.Type.Params.List {
			for _, n := range p.Names {
				k := rfParamKind(t, p.Type)
				t.declare(p, n.Name, k)
				pk = append(pk, n.Name)
			}
		}
		pN, pB, pR := t.nN, t.nB, t.nR
		if r := fd.Type.Results; r != nil {
			if len(r.List) != 1 || len(r.List[0].Names) != 0 || t.str(r.List[0].Type) != "uint64" {
				t.fail(fd, "result list (only a single unnamed uint64)")
			}
			t.result = true
			last := fd.Body.List
			if len(last) == 0 {
				t.fail(fd, "empty body")
			}
			if _, ok := last[len(last)-1].(*ast.ReturnStmt); !ok {
				t.fail(last[len(last)-1], "the last statement is not a return")
			}
		}
		t.push()
		body := t.block(fd.Body.List, "    ")
		fmt.Fprintf(&sb, "/-- go: func (%s *Responder) %s(%s)%s -/\n", t.recv, name, strings.Join(pk, ", "),
			map[bool]string{true: " uint64", false: ""}[t.result])
		fmt.Fprintf(&sb, "def %s : FnDecl where\n  localsN := %s\n  localsB := %s\n  localsR := %s\n  body :=\n    %s\n\n",
			lean, rfZeros(t.nN-pN, "0"), rfZeros(t.nB-pB, "(0, 0)"), rfZeros(t.nR-pR, "0"), body)
	}
	one("Run", "runDecl")
	one("sendBadDataResponse", "sendBadDataResponseDecl")
	one("composeBadDataResponse", "composeBadDataResponseDecl")
	one("ScheduleAck", "scheduleAckDecl")
	one("ScheduleBadDataResponse", "scheduleBadDataResponseDecl")
	one("Stop", "stopDecl")
	for _, n := range []string{"Run", "ScheduleAck", "ScheduleBadDataResponse", "Stop"} {
		if methods[n].Type.Results != nil {
			ctx.fail(methods[n], "%s has a result", n)
		}
	}
	if methods["Run"].Type.Params.NumFields() != 0 || methods["Stop"].Type.Params.NumFields() != 0 {
		ctx.fail(nil, "Run / Stop take parameters")
	}
	if k := sigsKinds(fset, methods["ScheduleAck"]); k != "uint64" {
		ctx.fail(methods["ScheduleAck"], "ScheduleAck(%s), not (uint64)", k)
	}
	if k := sigsKinds(fset, methods["ScheduleBadDataResponse"]); k != "BadData" {
		ctx.fail(methods["ScheduleBadDataResponse"], "ScheduleBadDataResponse(%s), not (BadData)", k)
	}

	// LastError: x := r.lastError.Load(); if x == nil { return nil }; return x.(error)
	{
		fd := methods["LastError"]
		t := &rfTr{fset: fset, fn: "LastError", recv: fd.Recv.List[0].Names[0].Name}
		ok := fd.Type.Params.NumFields() == 0 && fd.Type.Results != nil && len(fd.Type.Results.List) == 1 &&
			t.str(fd.Type.Results.List[0].Type) == "error" && len(fd.Body.List) == 3
		var x string
		if ok {
			as, isAs := fd.Body.List[0].(*ast.AssignStmt)
			ok = isAs && as.Tok == token.DEFINE && len(as.Lhs) == 1 && len(as.Rhs) == 1
			if ok {
				id, isId := as.Lhs[0].(*ast.Ident)
				args, isLoad := t.recvCall(as.Rhs[0], "lastError", "Load")
				ok = isId && isLoad && len(args) == 0
				if ok {
					x = id.Name
				}
			}
		}
		if ok {
			is, isIf := fd.Body.List[1].(*ast.IfStmt)
			ok = isIf && is.Init == nil && is.Else == nil && t.str(is.Cond) == x+" == nil" && len(is.Body.List) == 1 &&
				t.str(is.Body.List[0]) == "return nil"
		}
		if ok {
			ok = t.str(fd.Body.List[2]) == "return "+x+".(error)"
		}
		if !ok {
			t.fail(fd, "the body is not `x := r.lastError.Load(); if x == nil { return nil }; return x.(error)`")
		}
		sb.WriteString("/-- go: func (r *Responder) LastError() error is `x := r.lastError.Load(); if x == nil { return nil };\n")
		sb.WriteString("    return x.(error)`: non-nil exactly when an error was stored -/\n")
		sb.WriteString("def lastErrorReturnsStoredError : Bool := true\n\n")
	}

	// NewResponder: badDataCh: make(chan BadData, <constant>)
	{
		if newResponder == nil {
			ctx.fail(nil, "func NewResponder not found")
		}
		t := &rfTr{fset: fset, fn: "NewResponder"}
		env := &constEnv{vals: map[string]constant.Value{}}
		collectConsts(f, env, map[string]constant.Value{})
		capText := ""
		stopOk := false
		ast.Inspect(newResponder.Body, func(n ast.Node) bool {
			kv, ok := n.(*ast.KeyValueExpr)
			if !ok {
				return true
			}
			switch t.str(kv.Key) {
			case "badDataCh":
				ce, ok := kv.Value.(*ast.CallExpr)
				if !ok || !isIdent(ce.Fun, "make") || len(ce.Args) != 2 || t.str(ce.Args[0]) != "chan BadData" || capText != "" {
					t.fail(kv, "badDataCh is not made by make(chan BadData, <capacity>)")
				}
				capText = bigOf(env.eval(ce.Args[1])).String()
			case "stopCh":
				stopOk = t.str(kv.Value) == "make(chan struct{})"
			}
			return true
		})
		if capText == "" || !stopOk {
			t.fail(newResponder, "badDataCh: make(chan BadData, <capacity>) and stopCh: make(chan struct{}) not found in the Responder literal")
		}
		sb.WriteString("/-- go: NewResponder makes `badDataCh: make(chan BadData, <this>)` -/\n")
		fmt.Fprintf(&sb, "def badDataChanCap : Nat := %s\n\n", capText)
	}
	sb.WriteString("/-- the functions Run calls -/\ndef prog : Prog\n  | .sendBad => sendBadDataResponseDecl\n  | .compose => composeBadDataResponseDecl\n\n")
	return sb.String()
}

func sigsKinds(fset *token.FileSet, fd *ast.FuncDecl) string {
	var out []string
	for _, p := range fd.Type.Params.List {
		var sb strings.Builder
		printer.Fprint(&sb, fset, p.Type)
		for range p.Names {
			out = append(out, sb.String())
		}
	}
	return strings.Join(out, ", ")
}

// ---------------------------------------------------------------------------------------------
// onStream

type rfLoop struct {
	fset      *token.FileSet
	recv      string
	resp      string
	reader    string
	converter string
	locals    map[string]int
	mdata     string
	consErr   string
}

func (t *rfLoop) fail(n ast.Node, f string, a ...any) {
	pos := ""
	if n != nil {
		pos = " at " + t.fset.Position(n.Pos()).String()
	}
	die("%s: onStream%s: %s (outside the translated Go subset)", rfReceiverFile, pos, fmt.Sprintf(f, a...))
}

func (t *rfLoop) str(n ast.Node) string {
	var sb strings.Builder
	printer.Fprint(&sb, t.fset, n)
	return sb.String()
}

func (t *rfLoop) lexpr(e ast.Expr) string {
	e = unparen(e)
	switch v := e.(type) {
	case *ast.Ident:
		if i, ok := t.locals[v.Name]; ok {
			return fmt.Sprintf("(.var %d)", i)
		}
	case *ast.BasicLit:
		if v.Kind == token.INT {
			n, err := strconv.ParseUint(v.Value, 0, 64)
			if err == nil {
				return fmt.Sprintf("(.lit %d)", n)
			}
		}
	case *ast.BinaryExpr:
		if v.Op == token.ADD {
			return "(.add " + t.lexpr(v.X) + " " + t.lexpr(v.Y) + ")"
		}
	}
	t.fail(e, "uint64 expression `%s` (locals declared inside the loop body, literals, +)", t.str(e))
	return ""
}

func (t *rfLoop) mentions(n ast.Node, name string) bool { return hsCountIdent(n, name) > 0 }

func (t *rfLoop) isLog(s ast.Stmt) bool {
	es, ok := s.(*ast.ExprStmt)
	if !ok {
		return false
	}
	ce, ok := es.X.(*ast.CallExpr)
	if !ok {
		return false
	}
	sel, ok := ce.Fun.(*ast.SelectorExpr)
	if !ok || t.str(sel.X) != t.recv+".settings.Logger" {
		return false
	}
	for _, a := range ce.Args {
		if t.mentions(a, t.resp) {
			return false
		}
		bad := false
		ast.Inspect(a, func(n ast.Node) bool {
			switch v := n.(type) {
			case *ast.FuncLit:
				bad = true
			case *ast.UnaryExpr:
				bad = bad || v.Op == token.ARROW
			case *ast.CallExpr:
				s, ok := v.Fun.(*ast.SelectorExpr)
				bad = bad || !ok || !isIdent(s.X, "zap")
			}
			return true
		})
		if bad {
			return false
		}
	}
	return true
}

// quiet: a block that only logs / branches and ends every path ... used for the error branches that
// return: no use of the responder, no channel operation, no go / defer, last statement `return <ret>`
func (t *rfLoop) quietReturn(b *ast.BlockStmt, ret string) bool {
	if len(b.List) == 0 || t.str(b.List[len(b.List)-1]) != "return "+ret {
		return false
	}
	ok := !t.mentions(b, t.resp)
	ast.Inspect(b, func(n ast.Node) bool {
		switch v := n.(type) {
		case *ast.GoStmt, *ast.DeferStmt, *ast.SendStmt, *ast.FuncLit, *ast.ForStmt, *ast.RangeStmt, *ast.SelectStmt:
			ok = false
		case *ast.UnaryExpr:
			if v.Op == token.ARROW {
				ok = false
			}
		case *ast.ReturnStmt:
			if t.str(v) != "return "+ret {
				ok = false
			}
		}
		return true
	})
	return ok
}

func (t *rfLoop) inner(list []ast.Stmt, ind string) string {
	var parts []string
	for _, s := range list {
		switch v := s.(type) {
		case *ast.ExprStmt:
			if t.isLog(s) {
				parts = append(parts, ".log")
				continue
			}
			ce, ok := v.X.(*ast.CallExpr)
			if ok && !ce.Ellipsis.IsValid() && len(ce.Args) == 1 {
				switch t.str(ce.Fun) {
				case t.resp + ".ScheduleAck":
					parts = append(parts, ".schedAck "+t.lexpr(ce.Args[0]))
					continue
				case t.resp + ".ScheduleBadDataResponse":
					cl, ok := ce.Args[0].(*ast.CompositeLit)
					if ok && cl.Type != nil && t.str(cl.Type) == "internal.BadData" && len(cl.Elts) == 2 {
						var from, to string
						for _, el := range cl.Elts {
							kv, ok := el.(*ast.KeyValueExpr)
							if !ok {
								t.fail(el, "positional field in the BadData literal")
							}
							switch t.str(kv.Key) {
							case "FromID":
								from = t.lexpr(kv.Value)
							case "ToID":
								to = t.lexpr(kv.Value)
							}
						}
						if from != "" && to != "" {
							parts = append(parts, ".schedBad "+from+" "+to)
							continue
						}
					}
				}
			}
			t.fail(s, "call `%s`", t.str(s))
		case *ast.IfStmt:
			if v.Init == nil && t.consErr != "" && t.str(v.Cond) == "consumererror.IsPermanent("+t.consErr+")" {
				el := ".skip"
				switch e := v.Else.(type) {
				case nil:
				case *ast.BlockStmt:
					el = t.inner(e.List, ind+"    ")
				default:
					t.fail(s, "else branch")
				}
				parts = append(parts, fmt.Sprintf(".ifPermanent\n%s  (%s)\n%s  (%s)", ind, t.inner(v.Body.List, ind+"    "), ind, el))
				continue
			}
			t.fail(s, "if statement `if %s`", t.str(v.Cond))
		case *ast.ReturnStmt:
			if len(v.Results) == 1 {
				if _, isCall := v.Results[0].(*ast.CallExpr); isCall && !t.mentions(v, t.resp) {
					parts = append(parts, ".retErr")
					continue
				}
			}
			t.fail(s, "return statement `%s` (only `return <call making an error>`)", t.str(s))
		default:
			t.fail(s, "statement `%s`", t.str(s))
		}
	}
	if len(parts) == 0 {
		return ".skip"
	}
	return strings.Join(parts, " ;;;\n"+ind)
}

func rfOnStream() string {
	fset, f := parseFile(rfReceiverFile)
	var fd *ast.FuncDecl
	for _, d := range f.Decls {
		if x, ok := d.(*ast.FuncDecl); ok && x.Name.Name == "onStream" && x.Recv != nil && x.Body != nil {
			if fd != nil {
				die("%s: two functions onStream", rfReceiverFile)
			}
			fd = x
		}
	}
	if fd == nil {
		die("%s: method onStream not found", rfReceiverFile)
	}
	t := &rfLoop{fset: fset, locals: map[string]int{}}
	if len(fd.Recv.List) != 1 || len(fd.Recv.List[0].Names) != 1 {
		t.fail(fd, "receiver without a name")
	}
	t.recv = fd.Recv.List[0].Names[0].Name
	list := fd.Body.List
	if len(list) == 0 {
		t.fail(fd, "empty body")
	}
	loop, ok := list[len(list)-1].(*ast.ForStmt)
	if !ok || loop.Init != nil || loop.Cond != nil || loop.Post != nil {
		t.fail(list[len(list)-1], "the last statement of onStream is not `for { .. }`")
	}
	// prologue: reader, responder (created, Stop deferred, Run started - in this order), converter
	stage := 0
	for _, s := range list[:len(list)-1] {
		switch v := s.(type) {
		case *ast.AssignStmt:
			if v.Tok == token.DEFINE && len(v.Rhs) == 1 {
				r := t.str(v.Rhs[0])
				switch {
				case strings.HasPrefix(r, "otelstef.NewMetricsReader(") && len(v.Lhs) == 2:
					t.reader = t.str(v.Lhs[0])
					continue
				case strings.HasPrefix(r, "internal.NewResponder(") && len(v.Lhs) == 1 && stage == 0:
					t.resp = t.str(v.Lhs[0])
					stage = 1
					continue
				case r == "stefpdatametrics.StefToOtlpUnsorted{}" && len(v.Lhs) == 1:
					t.converter = t.str(v.Lhs[0])
					continue
				}
			}
		case *ast.DeferStmt:
			if stage == 1 && t.str(v.Call) == t.resp+".Stop()" {
				stage = 2
				continue
			}
		case *ast.GoStmt:
			if stage == 2 && t.str(v.Call) == t.resp+".Run()" {
				stage = 3
				continue
			}
		case *ast.ExprStmt:
			if ce, ok := v.X.(*ast.CallExpr); ok && strings.HasPrefix(t.str(ce.Fun), t.recv+".settings.Logger.") {
				continue
			}
		case *ast.IfStmt:
			// if err != nil { log; return err } after NewMetricsReader
			if v.Init == nil && v.Else == nil && t.str(v.Cond) == "err != nil" && stage == 0 {
				continue
			}
		}
		t.fail(s, "statement `%s` before the loop", t.str(s))
	}
	if stage != 3 || t.reader == "" || t.converter == "" {
		t.fail(fd, "before the loop: reader, err := otelstef.NewMetricsReader(..); resp := internal.NewResponder(..); defer resp.Stop(); go resp.Run(); converter := stefpdatametrics.StefToOtlpUnsorted{} (responder statements in this order)")
	}
	for _, s := range list[:len(list)-1] {
		if as, ok := s.(*ast.AssignStmt); ok && len(as.Rhs) == 1 && strings.HasPrefix(t.str(as.Rhs[0]), "internal.NewResponder(") {
			continue
		}
		if _, ok := s.(*ast.DeferStmt); ok {
			continue
		}
		if _, ok := s.(*ast.GoStmt); ok {
			continue
		}
		if t.mentions(s, t.resp) {
			t.fail(s, "use of the responder before the loop")
		}
	}

	body := loop.Body.List
	var parts []string
	for i := 0; i < len(body); i++ {
		s := body[i]
		switch v := s.(type) {
		case *ast.AssignStmt:
			if v.Tok != token.DEFINE || len(v.Rhs) != 1 {
				t.fail(s, "assignment `%s` (only declarations `x := ..`)", t.str(s))
			}
			r := t.str(v.Rhs[0])
			switch {
			case r == t.resp+".LastError()" && len(v.Lhs) == 1:
				e := t.str(v.Lhs[0])
				if i+1 >= len(body) {
					t.fail(s, "LastError() is not followed by its check")
				}
				is, ok := body[i+1].(*ast.IfStmt)
				if !ok || is.Init != nil || is.Else != nil || t.str(is.Cond) != e+" != nil" || !t.quietReturn(is.Body, e) {
					t.fail(body[i+1], "LastError() is not followed by `if %s != nil { <logging>; return %s }`", e, e)
				}
				for _, x := range is.Body.List[:len(is.Body.List)-1] {
					if !t.isLog(x) {
						t.fail(x, "statement `%s` in the LastError branch", t.str(x))
					}
				}
				parts = append(parts, ".checkLastError")
				i++
			case r == t.reader+".RecordCount()" && len(v.Lhs) == 1:
				name := t.str(v.Lhs[0])
				if _, dup := t.locals[name]; dup || name == "_" {
					t.fail(s, "%s declared twice", name)
				}
				t.locals[name] = len(t.locals)
				parts = append(parts, fmt.Sprintf(".recordCount %d", t.locals[name]))
			case r == t.converter+".Convert("+t.reader+", false)" && len(v.Lhs) == 2 && t.mdata == "":
				t.mdata = t.str(v.Lhs[0])
				e := t.str(v.Lhs[1])
				if i+1 >= len(body) {
					t.fail(s, "Convert is not followed by its error check")
				}
				is, ok := body[i+1].(*ast.IfStmt)
				if !ok || is.Init != nil || is.Else != nil || t.str(is.Cond) != e+" != nil" || !t.quietReturn(is.Body, e) {
					t.fail(body[i+1], "Convert is not followed by `if %s != nil { <no use of the responder>; return %s }`", e, e)
				}
				parts = append(parts, ".convert")
				i++
			default:
				t.fail(s, "declaration `%s`", t.str(s))
			}
		case *ast.IfStmt:
			as, ok := v.Init.(*ast.AssignStmt)
			if !ok || as.Tok != token.DEFINE || len(as.Lhs) != 1 || len(as.Rhs) != 1 || t.mdata == "" || t.consErr != "" {
				t.fail(s, "if statement `if %s`", t.str(v.Cond))
			}
			ce, ok := as.Rhs[0].(*ast.CallExpr)
			if !ok || t.str(ce.Fun) != t.recv+".nextMetrics.ConsumeMetrics" || len(ce.Args) != 2 || t.str(ce.Args[1]) != t.mdata {
				t.fail(s, "`%s` is not %s.nextMetrics.ConsumeMetrics(<ctx>, %s)", t.str(as.Rhs[0]), t.recv, t.mdata)
			}
			e := t.str(as.Lhs[0])
			if t.str(v.Cond) != e+" != nil" {
				t.fail(s, "condition `%s` after ConsumeMetrics", t.str(v.Cond))
			}
			t.consErr = e
			onErr := t.inner(v.Body.List, "      ")
			t.consErr = ""
			onOk := ".skip"
			switch el := v.Else.(type) {
			case nil:
			case *ast.BlockStmt:
				onOk = t.inner(el.List, "      ")
			default:
				t.fail(s, "else branch")
			}
			t.consErr = "-"
			parts = append(parts, fmt.Sprintf(".consume\n      (%s)\n      (%s)", onErr, onOk))
		default:
			t.fail(s, "statement `%s` in the loop", t.str(s))
		}
	}
	var sb strings.Builder
	sb.WriteString("/-- go: the body of the `for` loop of onStream (stef.go). uint64 locals: ")
	names := make([]string, len(t.locals))
	for n, i := range t.locals {
		names[i] = fmt.Sprintf("%d=%s", i, n)
	}
	sb.WriteString(strings.Join(names, " ") + " -/\n")
	fmt.Fprintf(&sb, "def onStreamLoopBody : LStmt :=\n    %s\n\n", strings.Join(parts, " ;;;\n    "))
	fmt.Fprintf(&sb, "def onStreamLoopLocals : Nat := %d\n\n", len(t.locals))
	sb.WriteString("/-- go: before its loop onStream creates the Responder, defers `resp.Stop()` and starts `go resp.Run()` -/\n")
	sb.WriteString("def onStreamDefersStopAndStartsRun : Bool := true\n\n")
	return sb.String()
}

func genResponderFlow() {
	resp := rfResponder()
	loop := rfOnStream()
	var sb strings.Builder
	sb.WriteString("/- GENERATED by /verif/extract (responderflow.go) from otelcol/internal/stefreceiver/internal/responder.go\n")
	sb.WriteString("   and the loop of onStream in otelcol/internal/stefreceiver/stef.go. Do not edit.\n")
	sb.WriteString("   Vocabulary and meaning: Stef/ResponderFlowSem.lean. -/\n")
	sb.WriteString("import Stef.ResponderFlowSem\n\nnamespace Stef.Gen.ResponderFlow\nopen Stef.ResponderFlowSem\n\n")
	sb.WriteString(resp)
	sb.WriteString(loop)
	sb.WriteString("end Stef.Gen.ResponderFlow\n")
	writeOut("ResponderFlow.lean", sb.String())
}
