package main

// genExporterFlow regenerates lean/Stef/Gen/ExporterFlow.lean: the collector's STEF exporter
// (otelcol/internal/stefexporter/exporter.go), translated STRUCTURALLY, statement by statement, from
// the Go AST (go/parser + go/ast only) into DATA of the statement language of
// lean/Stef/ExporterFlowSem.lean. The order of the statements, which mutex is locked, unlocked or
// deferred where, the conditions, which field is assigned what and what is returned come from the
// source; what each whitelisted statement MEANS is written once, by hand, in ExporterFlowSem.lean.
// Proofs/ExporterGen.lean proves that the interpreted bodies are the exporter-side steps of the hand
// model Stef/Pipeline.lean. Anything outside the subset makes this generator fail (die) with a message
// naming the construct; it costs C19 its tie and nothing else.
//
// Translated: the bodies of the methods pushMetrics, onGrpcAck and flusher of *stefExporter.
//
//   locals by type: error -> i-th error local, *SortedTree -> i-th tree local; numbered per function and
//   per type in order of declaration, Go block scoping (a name declared again in an inner block is a new
//   local). S = the receiver.
//   nat  ::= S.lastSentRecordId | S.lastAckedRecordId | W.RecordCount() | <uint64 parameter>
//   cond ::= E != nil | W != nil | nat (< | <= | > | >=) nat
//   stmt ::= S.logger.<Level>(..) | log.Printf(..)                      (arguments must not mention S, no closures)
//          | T, E := sortedbymetric.OtlpToSortedTree(<the pmetric.Metrics parameter>)
//          | X := S.remoteWriter                     (X is then another name of S.remoteWriter: W below)
//          | E := T.ToStef(W) | E := W.Flush()   (:= or =; W = S.remoteWriter or such an X)
//          | S.writeMutex.Lock() | S.writeMutex.Unlock() | defer S.writeMutex.Unlock()   (same for ackMutex)
//          | S.lastSentRecordId = nat | S.lastAckedRecordId = nat | S.<one of them>++
//          | S.sentPendingAck[nat] = T | delete(S.sentPendingAck, nat)
//          | if cond {..} [else {..} | else if ..]
//          | for ; cond; S.<field>++ {..}
//          | return nil | return E | return fmt.Errorf("..", nat, ..) | return errors.New("..") | return (flusher) | {..}
//   flusher: exactly `X := time.NewTicker(<n> * time.Millisecond); for { select { case <-X.C: ..
//   case <-S.stopped: .. } }` (the two arms in any order); the arms are statement lists of the subset.
//
// Facts (each is `true` or the generator dies): the struct fields and their types; the first parameter
// of pushMetrics is `_ context.Context` (the context is ignored); no other function of the package
// (non-test files without a build constraint) mentions writeMutex, ackMutex, lastSentRecordId,
// lastAckedRecordId, sentPendingAck or remoteWriter, except newStefExporter (sentPendingAck: an empty map
// in the literal) and startGrpcClient, where `S.remoteWriter, err = otelstef.NewMetricsWriter(..)`,
// `if err != nil { return err }`, `go S.flusher()` follow each other, this is the only `go` statement and
// the only mention of remoteWriter / flusher, and `OnAck: S.onGrpcAck` is the callback handed to the client.

import (
	"fmt"
	"go/ast"
	"go/parser"
	"go/printer"
	"go/token"
	"os"
	"path/filepath"
	"sort"
	"strconv"
	"strings"
)

func init() { register("ExporterFlow", genExporterFlow) }

const efDir = "otelcol/internal/stefexporter"
const efFile = efDir + "/exporter.go"

type efVar struct {
	kind string // err | tree | nat | md | ticker | writer
	idx  int
}

type efTr struct {
	fset     *token.FileSet
	fn       string
	recv     string
	scopes   []map[string]efVar
	nE, nT   int
	nP       int
	hasRes   bool // the function returns `error`
	errNames []string
}

func (t *efTr) fail(n ast.Node, f string, a ...any) {
	pos := ""
	if n != nil {
		pos = " at " + t.fset.Position(n.Pos()).String()
	}
	die("%s: %s%s: %s (outside the translated Go subset)", efFile, t.fn, pos, fmt.Sprintf(f, a...))
}

func (t *efTr) str(n ast.Node) string {
	var sb strings.Builder
	printer.Fprint(&sb, t.fset, n)
	return sb.String()
}

func (t *efTr) push() { t.scopes = append(t.scopes, map[string]efVar{}) }
func (t *efTr) pop()  { t.scopes = t.scopes[:len(t.scopes)-1] }

func (t *efTr) lookup(name string) (efVar, bool) {
	for i := len(t.scopes) - 1; i >= 0; i-- {
		if v, ok := t.scopes[i][name]; ok {
			return v, true
		}
	}
	return efVar{}, false
}

func (t *efTr) declare(n ast.Node, name, kind string) int {
	if name == "_" || name == t.recv || name == "nil" || name == "true" || name == "false" {
		t.fail(n, "declaration of %s", name)
	}
	cur := t.scopes[len(t.scopes)-1]
	if _, dup := cur[name]; dup {
		t.fail(n, "%s declared twice in one scope", name)
	}
	idx := 0
	switch kind {
	case "err":
		idx = t.nE
		t.nE++
		for len(t.errNames) <= idx {
			t.errNames = append(t.errNames, "")
		}
		t.errNames[idx] = name
	case "tree":
		idx = t.nT
		t.nT++
	case "nat":
		idx = t.nP
		t.nP++
	}
	cur[name] = efVar{kind, idx}
	return idx
}

func (t *efTr) identOf(e ast.Expr, kind string) (int, bool) {
	id, ok := unparen(e).(*ast.Ident)
	if !ok {
		return 0, false
	}
	v, ok := t.lookup(id.Name)
	if !ok || v.kind != kind {
		return 0, false
	}
	return v.idx, true
}

// recvField: S.<field>
func (t *efTr) recvField(e ast.Expr, field string) bool {
	sel, ok := unparen(e).(*ast.SelectorExpr)
	return ok && isIdent(sel.X, t.recv) && sel.Sel.Name == field
}

// recvCall: S.<field>.<method>(args) -> args
func (t *efTr) recvCall(e ast.Expr, field, method string) ([]ast.Expr, bool) {
	ce, ok := unparen(e).(*ast.CallExpr)
	if !ok || ce.Ellipsis.IsValid() {
		return nil, false
	}
	sel, ok := ce.Fun.(*ast.SelectorExpr)
	if !ok || sel.Sel.Name != method || !t.recvField(sel.X, field) {
		return nil, false
	}
	return ce.Args, true
}

// isWriter: S.remoteWriter, or a local that was assigned S.remoteWriter
func (t *efTr) isWriter(e ast.Expr) bool {
	if t.recvField(e, "remoteWriter") {
		return true
	}
	_, ok := t.identOf(e, "writer")
	return ok
}

// writerCall: <writer>.<method>(args) -> args
func (t *efTr) writerCall(e ast.Expr, method string) ([]ast.Expr, bool) {
	ce, ok := unparen(e).(*ast.CallExpr)
	if !ok || ce.Ellipsis.IsValid() {
		return nil, false
	}
	sel, ok := ce.Fun.(*ast.SelectorExpr)
	if !ok || sel.Sel.Name != method || !t.isWriter(sel.X) {
		return nil, false
	}
	return ce.Args, true
}

var efFields = map[string]string{"lastSentRecordId": ".lastSent", "lastAckedRecordId": ".lastAcked"}
var efMutexes = map[string]string{"writeMutex": ".write", "ackMutex": ".ack"}

func (t *efTr) field(e ast.Expr) (string, bool) {
	sel, ok := unparen(e).(*ast.SelectorExpr)
	if !ok || !isIdent(sel.X, t.recv) {
		return "", false
	}
	f, ok := efFields[sel.Sel.Name]
	return f, ok
}

func (t *efTr) nat(e ast.Expr) string {
	e = unparen(e)
	if f, ok := t.field(e); ok {
		return "(.field " + f + ")"
	}
	if args, ok := t.writerCall(e, "RecordCount"); ok && len(args) == 0 {
		return ".recordCount"
	}
	if i, ok := t.identOf(e, "nat"); ok {
		return fmt.Sprintf("(.param %d)", i)
	}
	t.fail(e, "uint64 expression `%s`", t.str(e))
	return ""
}

var efCmp = map[token.Token]string{token.LSS: "lt", token.LEQ: "le", token.GTR: "gt", token.GEQ: "ge"}

func (t *efTr) cond(e ast.Expr) string {
	b, ok := unparen(e).(*ast.BinaryExpr)
	if !ok {
		t.fail(e, "condition `%s`", t.str(e))
	}
	if b.Op == token.NEQ && isIdent(b.Y, "nil") {
		if i, ok := t.identOf(b.X, "err"); ok {
			return fmt.Sprintf("(.errNonNil %d)", i)
		}
		if t.isWriter(b.X) {
			return ".writerNonNil"
		}
	}
	if op, ok := efCmp[b.Op]; ok {
		return "(." + op + " " + t.nat(b.X) + " " + t.nat(b.Y) + ")"
	}
	t.fail(e, "condition `%s`", t.str(e))
	return ""
}

// harmless: the arguments of a logging call - no mention of the receiver, no channel operation, no
// function literal, no local of the modelled kinds except as zap.Error(err) / a printf argument
func (t *efTr) harmless(args []ast.Expr) {
	for _, a := range args {
		ast.Inspect(a, func(n ast.Node) bool {
			switch v := n.(type) {
			case *ast.FuncLit:
				t.fail(n, "function literal in a logging call")
			case *ast.UnaryExpr:
				if v.Op == token.ARROW {
					t.fail(n, "channel receive in a logging call")
				}
			case *ast.Ident:
				if v.Name == t.recv {
					t.fail(n, "the exporter itself in the arguments of a logging call")
				}
				if x, ok := t.lookup(v.Name); ok && x.kind == "tree" {
					t.fail(n, "a *SortedTree local in the arguments of a logging call")
				}
			}
			return true
		})
	}
}

func (t *efTr) block(list []ast.Stmt, ind string) string {
	var parts []string
	for _, s := range list {
		if _, ok := s.(*ast.EmptyStmt); ok {
			continue
		}
		parts = append(parts, t.stmt(s, ind))
	}
	if len(parts) == 0 {
		return ".skip"
	}
	return strings.Join(parts, " ;;\n"+ind)
}

func (t *efTr) scoped(list []ast.Stmt, ind string) string {
	t.push()
	defer t.pop()
	return t.block(list, ind)
}

// mutexCall: S.<mutex>.<Lock|Unlock>()
func (t *efTr) mutexCall(ce *ast.CallExpr) (mutex, method string, ok bool) {
	if ce.Ellipsis.IsValid() || len(ce.Args) != 0 {
		return "", "", false
	}
	sel, ok1 := ce.Fun.(*ast.SelectorExpr)
	if !ok1 {
		return "", "", false
	}
	inner, ok2 := unparen(sel.X).(*ast.SelectorExpr)
	if !ok2 || !isIdent(inner.X, t.recv) {
		return "", "", false
	}
	m, ok3 := efMutexes[inner.Sel.Name]
	if !ok3 || (sel.Sel.Name != "Lock" && sel.Sel.Name != "Unlock") {
		return "", "", false
	}
	return m, sel.Sel.Name, true
}

func (t *efTr) incField(s ast.Stmt) (string, bool) {
	id, ok := s.(*ast.IncDecStmt)
	if !ok || id.Tok != token.INC {
		return "", false
	}
	f, ok := t.field(id.X)
	if !ok {
		return "", false
	}
	return ".incField " + f, true
}

func (t *efTr) stmt(s ast.Stmt, ind string) string {
	in := ind + "  "
	switch v := s.(type) {
	case *ast.AssignStmt:
		return t.assign(v)
	case *ast.IncDecStmt:
		if r, ok := t.incField(v); ok {
			return r
		}
		t.fail(s, "statement `%s`", t.str(s))
	case *ast.ExprStmt:
		ce, ok := v.X.(*ast.CallExpr)
		if !ok {
			t.fail(s, "expression statement `%s`", t.str(s))
		}
		if m, method, ok := t.mutexCall(ce); ok {
			if method == "Lock" {
				return ".lock " + m
			}
			return ".unlock " + m
		}
		if sel, ok := ce.Fun.(*ast.SelectorExpr); ok {
			if t.recvField(sel.X, "logger") {
				switch sel.Sel.Name {
				case "Error", "Warn", "Info", "Debug":
					t.harmless(ce.Args)
					return ".log"
				}
			}
			if isIdent(sel.X, "log") && (sel.Sel.Name == "Printf" || sel.Sel.Name == "Println" || sel.Sel.Name == "Print") {
				if _, shadow := t.lookup("log"); !shadow {
					t.harmless(ce.Args)
					return ".log"
				}
			}
		}
		if isIdent(ce.Fun, "delete") && len(ce.Args) == 2 && t.recvField(ce.Args[0], "sentPendingAck") {
			return ".mapDelete " + t.nat(ce.Args[1])
		}
		t.fail(s, "call `%s`", t.str(s))
	case *ast.DeferStmt:
		if m, method, ok := t.mutexCall(v.Call); ok && method == "Unlock" {
			return ".deferUnlock " + m
		}
		t.fail(s, "`%s` (only `defer %s.<mutex>.Unlock()`)", t.str(s), t.recv)
	case *ast.IfStmt:
		if v.Init != nil {
			t.fail(s, "if with init statement `%s`", t.str(v.Init))
		}
		c := t.cond(v.Cond)
		th := t.scoped(v.Body.List, in+"  ")
		el := ".skip"
		switch e := v.Else.(type) {
		case nil:
		case *ast.BlockStmt:
			el = t.scoped(e.List, in+"  ")
		case *ast.IfStmt:
			el = t.scoped([]ast.Stmt{e}, in+"  ")
		default:
			t.fail(s, "else branch")
		}
		return fmt.Sprintf(".ite %s\n%s(%s)\n%s(%s)", c, in, th, in, el)
	case *ast.ForStmt:
		if v.Init != nil || v.Cond == nil {
			t.fail(s, "for statement with an init statement / without a condition")
		}
		c := t.cond(v.Cond)
		post := ".skip"
		if v.Post != nil {
			p, ok := t.incField(v.Post)
			if !ok {
				t.fail(v.Post, "post statement `%s`", t.str(v.Post))
			}
			post = p
		}
		// break / continue / return inside the body would not be what `forLoop` means
		ast.Inspect(v.Body, func(n ast.Node) bool {
			switch n.(type) {
			case *ast.BranchStmt, *ast.ReturnStmt:
				t.fail(n, "break / continue / goto / return inside a for loop")
			}
			return true
		})
		return fmt.Sprintf(".forLoop %s\n%s(%s)\n%s(%s)", c, in, post, in, t.scoped(v.Body.List, in+"  "))
	case *ast.ReturnStmt:
		switch {
		case len(v.Results) == 0 && !t.hasRes:
			return ".ret none"
		case len(v.Results) == 1 && t.hasRes:
			if isIdent(v.Results[0], "nil") {
				if _, shadow := t.lookup("nil"); !shadow {
					return ".ret none"
				}
			}
			if i, ok := t.identOf(v.Results[0], "err"); ok {
				return fmt.Sprintf(".ret (some %d)", i)
			}
			// return fmt.Errorf("..", nat, ..) / errors.New("..")
			if ce, ok := v.Results[0].(*ast.CallExpr); ok && !ce.Ellipsis.IsValid() && len(ce.Args) >= 1 {
				fn := t.str(ce.Fun)
				_, sh1 := t.lookup("fmt")
				_, sh2 := t.lookup("errors")
				if lit, isLit := ce.Args[0].(*ast.BasicLit); isLit && lit.Kind == token.STRING && !sh1 && !sh2 &&
					(fn == "fmt.Errorf" || (fn == "errors.New" && len(ce.Args) == 1)) {
					var reads []string
					for _, a := range ce.Args[1:] {
						reads = append(reads, t.nat(a))
					}
					return ".retNewErr [" + strings.Join(reads, ", ") + "]"
				}
			}
		}
		t.fail(s, "return statement `%s`", t.str(s))
	case *ast.BlockStmt:
		return t.scoped(v.List, ind)
	}
	t.fail(s, "statement `%s` (%T)", t.str(s), s)
	return ""
}

func (t *efTr) assign(v *ast.AssignStmt) string {
	if v.Tok != token.DEFINE && v.Tok != token.ASSIGN {
		t.fail(v, "assignment `%s`", t.str(v))
	}
	// T, E := sortedbymetric.OtlpToSortedTree(md)
	if len(v.Lhs) == 2 && len(v.Rhs) == 1 && v.Tok == token.DEFINE {
		ce, ok := v.Rhs[0].(*ast.CallExpr)
		if ok && t.str(ce.Fun) == "sortedbymetric.OtlpToSortedTree" && len(ce.Args) == 1 && !ce.Ellipsis.IsValid() {
			if _, isMd := t.identOf(ce.Args[0], "md"); isMd {
				a, ok1 := v.Lhs[0].(*ast.Ident)
				b, ok2 := v.Lhs[1].(*ast.Ident)
				if ok1 && ok2 {
					ti := t.declare(v, a.Name, "tree")
					ei := t.declare(v, b.Name, "err")
					return fmt.Sprintf(".convert %d %d", ti, ei)
				}
			}
		}
		t.fail(v, "assignment `%s`", t.str(v))
	}
	if len(v.Lhs) != 1 || len(v.Rhs) != 1 {
		t.fail(v, "assignment `%s`", t.str(v))
	}
	lhs, rhs := unparen(v.Lhs[0]), unparen(v.Rhs[0])
	if id, ok := lhs.(*ast.Ident); ok {
		// the right-hand side is translated BEFORE a new name comes into scope
		errTarget := func() int {
			if v.Tok == token.DEFINE {
				return t.declare(v, id.Name, "err")
			}
			i, ok := t.identOf(id, "err")
			if !ok {
				t.fail(v, "assignment to `%s`", id.Name)
			}
			return i
		}
		// X := S.remoteWriter
		if v.Tok == token.DEFINE && t.recvField(rhs, "remoteWriter") {
			t.declare(v, id.Name, "writer")
			return ".readWriter"
		}
		if ce, ok := rhs.(*ast.CallExpr); ok && !ce.Ellipsis.IsValid() {
			// E := T.ToStef(<writer>)
			if sel, ok := ce.Fun.(*ast.SelectorExpr); ok && sel.Sel.Name == "ToStef" && len(ce.Args) == 1 &&
				t.isWriter(ce.Args[0]) {
				if ti, ok := t.identOf(sel.X, "tree"); ok {
					return fmt.Sprintf(".toStef %d %d", ti, errTarget())
				}
			}
			// E := S.remoteWriter.Flush()
			if args, ok := t.writerCall(ce, "Flush"); ok && len(args) == 0 {
				return fmt.Sprintf(".flush %d", errTarget())
			}
		}
		t.fail(v, "assignment `%s`", t.str(v))
	}
	if v.Tok != token.ASSIGN {
		t.fail(v, "assignment `%s`", t.str(v))
	}
	// S.<field> = nat
	if f, ok := t.field(lhs); ok {
		return ".setField " + f + " " + t.nat(rhs)
	}
	// S.sentPendingAck[nat] = T
	if ix, ok := lhs.(*ast.IndexExpr); ok && t.recvField(ix.X, "sentPendingAck") {
		if ti, ok := t.identOf(rhs, "tree"); ok {
			return fmt.Sprintf(".mapSet %s %d", t.nat(ix.Index), ti)
		}
	}
	t.fail(v, "assignment `%s`", t.str(v))
	return ""
}

func efTypeStr(fset *token.FileSet, e ast.Expr) string {
	var sb strings.Builder
	printer.Fprint(&sb, fset, e)
	return sb.String()
}

// efOtherFiles: the other non-test Go files of the package without a build constraint must not mention
// the guarded fields
func efOtherFiles(guarded []string) {
	paths, _ := filepath.Glob(filepath.Join(repo, efDir, "*.go"))
	sort.Strings(paths)
	for _, p := range paths {
		base := filepath.Base(p)
		if base == "exporter.go" || strings.HasSuffix(base, "_test.go") {
			continue
		}
		src, err := os.ReadFile(p)
		if err != nil {
			die("%s: %v", p, err)
		}
		fset := token.NewFileSet()
		f, err := parser.ParseFile(fset, p, src, parser.ParseComments)
		if err != nil {
			die("parse %s: %v", p, err)
		}
		constrained := false
		for _, cg := range f.Comments {
			if cg.Pos() < f.Package {
				for _, c := range cg.List {
					if strings.HasPrefix(c.Text, "//go:build") || strings.HasPrefix(c.Text, "// +build") {
						constrained = true
					}
				}
			}
		}
		if constrained {
			continue // e.g. the verification hooks (build tag verif): not part of the collector
		}
		ast.Inspect(f, func(n ast.Node) bool {
			if sel, ok := n.(*ast.SelectorExpr); ok {
				for _, g := range guarded {
					if sel.Sel.Name == g {
						die("%s/%s: %s mentions the exporter field/method %s (outside the translated Go subset)",
							efDir, base, fset.Position(n.Pos()), g)
					}
				}
			}
			return true
		})
	}
}

func genExporterFlow() {
	fset, f := parseFile(efFile)
	ctx := &efTr{fset: fset, fn: "(file)"}

	// the struct
	want := map[string]string{
		"writeMutex": "sync.Mutex", "ackMutex": "sync.Mutex", "remoteWriter": "*otelstef.MetricsWriter",
		"lastSentRecordId": "uint64", "lastAckedRecordId": "uint64",
		"sentPendingAck": "map[uint64]*sortedbymetric.SortedTree", "stopped": "chan struct{}",
	}
	found := 0
	for _, d := range f.Decls {
		gd, ok := d.(*ast.GenDecl)
		if !ok || gd.Tok != token.TYPE {
			continue
		}
		for _, sp := range gd.Specs {
			ts := sp.(*ast.TypeSpec)
			st, ok := ts.Type.(*ast.StructType)
			if !ok || ts.Name.Name != "stefExporter" {
				continue
			}
			for _, fl := range st.Fields.List {
				if len(fl.Names) == 0 {
					ctx.fail(fl, "embedded field `%s` of stefExporter", ctx.str(fl.Type))
				}
				for _, n := range fl.Names {
					if w, ok := want[n.Name]; ok {
						if ctx.str(fl.Type) != w {
							ctx.fail(fl, "field %s of stefExporter has type %s, not %s", n.Name, ctx.str(fl.Type), w)
						}
						found++
					}
				}
			}
		}
	}
	if found != len(want) {
		ctx.fail(nil, "the fields writeMutex, ackMutex, remoteWriter, lastSentRecordId, lastAckedRecordId, sentPendingAck, stopped of stefExporter were not all found")
	}

	// the functions of the file
	methods := map[string]*ast.FuncDecl{}
	var others []*ast.FuncDecl
	for _, d := range f.Decls {
		fd, ok := d.(*ast.FuncDecl)
		if !ok || fd.Body == nil {
			continue
		}
		if fd.Recv != nil && len(fd.Recv.List) == 1 && ctx.str(fd.Recv.List[0].Type) == "*stefExporter" {
			if len(fd.Recv.List[0].Names) != 1 {
				ctx.fail(fd, "method %s: receiver without a name", fd.Name.Name)
			}
			if methods[fd.Name.Name] != nil {
				ctx.fail(fd, "two methods %s", fd.Name.Name)
			}
			methods[fd.Name.Name] = fd
			continue
		}
		if fd.Recv != nil && strings.Contains(ctx.str(fd.Recv.List[0].Type), "stefExporter") {
			ctx.fail(fd, "method %s with receiver %s", fd.Name.Name, ctx.str(fd.Recv.List[0].Type))
		}
		others = append(others, fd)
	}
	for _, k := range []string{"pushMetrics", "onGrpcAck", "flusher", "startGrpcClient"} {
		if methods[k] == nil {
			ctx.fail(nil, "method %s of *stefExporter not found", k)
		}
	}

	// who may touch what
	guarded := []string{"writeMutex", "ackMutex", "lastSentRecordId", "lastAckedRecordId", "sentPendingAck", "remoteWriter", "flusher", "onGrpcAck"}
	mentions := func(n ast.Node, name string) int {
		c := 0
		ast.Inspect(n, func(x ast.Node) bool {
			if sel, ok := x.(*ast.SelectorExpr); ok && sel.Sel.Name == name {
				c++
			}
			if kv, ok := x.(*ast.KeyValueExpr); ok && isIdent(kv.Key, name) {
				c++
			}
			return true
		})
		return c
	}
	checkUntouched := func(fd *ast.FuncDecl, allowed map[string]int) {
		for _, g := range guarded {
			if c := mentions(fd.Body, g); c != allowed[g] {
				t := &efTr{fset: fset, fn: fd.Name.Name}
				t.fail(fd, "%d mention(s) of %s (expected %d): only pushMetrics, onGrpcAck and flusher work on the guarded state", c, g, allowed[g])
			}
		}
	}
	for name, fd := range methods {
		switch name {
		case "pushMetrics", "onGrpcAck", "flusher":
		case "startGrpcClient":
			checkUntouched(fd, map[string]int{"remoteWriter": 1, "flusher": 1, "onGrpcAck": 1})
		default:
			checkUntouched(fd, nil)
		}
	}
	for _, fd := range others {
		if fd.Name.Name == "newStefExporter" {
			checkUntouched(fd, map[string]int{"sentPendingAck": 1})
			// sentPendingAck: an empty map literal
			ok := false
			ast.Inspect(fd.Body, func(n ast.Node) bool {
				if kv, isKv := n.(*ast.KeyValueExpr); isKv && isIdent(kv.Key, "sentPendingAck") {
					ok = ctx.str(kv.Value) == "map[uint64]*sortedbymetric.SortedTree{}"
				}
				return true
			})
			if !ok {
				ctx.fail(fd, "newStefExporter does not set sentPendingAck to an empty map literal")
			}
			continue
		}
		checkUntouched(fd, nil)
	}
	efOtherFiles(guarded[:6])

	// startGrpcClient: S.remoteWriter, err = otelstef.NewMetricsWriter(..); if err != nil { return err }; go S.flusher()
	{
		fd := methods["startGrpcClient"]
		t := &efTr{fset: fset, fn: "startGrpcClient", recv: fd.Recv.List[0].Names[0].Name}
		goCount := 0
		ast.Inspect(fd.Body, func(n ast.Node) bool {
			if _, ok := n.(*ast.GoStmt); ok {
				goCount++
			}
			return true
		})
		okSeq := false
		list := fd.Body.List
		for i := 0; i+2 < len(list); i++ {
			as, ok := list[i].(*ast.AssignStmt)
			if !ok || as.Tok != token.ASSIGN || len(as.Lhs) != 2 || len(as.Rhs) != 1 || !t.recvField(as.Lhs[0], "remoteWriter") {
				continue
			}
			e, isId := as.Lhs[1].(*ast.Ident)
			ce, isCall := as.Rhs[0].(*ast.CallExpr)
			if !isId || !isCall || t.str(ce.Fun) != "otelstef.NewMetricsWriter" {
				t.fail(as, "`%s` is not %s.remoteWriter, err = otelstef.NewMetricsWriter(..)", t.str(as), t.recv)
			}
			is, ok := list[i+1].(*ast.IfStmt)
			if !ok || is.Init != nil || is.Else != nil || t.str(is.Cond) != e.Name+" != nil" || len(is.Body.List) != 1 ||
				t.str(is.Body.List[0]) != "return "+e.Name {
				t.fail(list[i+1], "NewMetricsWriter is not followed by `if %s != nil { return %s }`", e.Name, e.Name)
			}
			gs, ok := list[i+2].(*ast.GoStmt)
			if !ok || t.str(gs.Call) != t.recv+".flusher()" {
				t.fail(list[i+2], "the error check of NewMetricsWriter is not followed by `go %s.flusher()`", t.recv)
			}
			okSeq = true
		}
		if !okSeq || goCount != 1 {
			t.fail(fd, "`%s.remoteWriter, err = otelstef.NewMetricsWriter(..); if err != nil { return err }; go %s.flusher()` as consecutive top-level statements and no other go statement", t.recv, t.recv)
		}
		onAck := false
		ast.Inspect(fd.Body, func(n ast.Node) bool {
			if kv, ok := n.(*ast.KeyValueExpr); ok && isIdent(kv.Key, "OnAck") {
				onAck = t.str(kv.Value) == t.recv+".onGrpcAck"
			}
			return true
		})
		if !onAck {
			t.fail(fd, "`OnAck: %s.onGrpcAck` not found in the client settings", t.recv)
		}
	}

	var sb strings.Builder
	sb.WriteString("/- GENERATED by /verif/extract (exporterflow.go) from otelcol/internal/stefexporter/exporter.go. Do not edit.\n")
	sb.WriteString("   Vocabulary and meaning: Stef/ExporterFlowSem.lean. -/\n")
	sb.WriteString("import Stef.ExporterFlowSem\n\nnamespace Stef.Gen.ExporterFlow\nopen Stef.ExporterFlowSem\n\n")

	localsDoc := func(t *efTr) string {
		names := make([]string, len(t.errNames))
		for i, n := range t.errNames {
			names[i] = fmt.Sprintf("%d=%s", i, n)
		}
		if len(names) == 0 {
			return "none"
		}
		return strings.Join(names, " ")
	}

	// pushMetrics(_ context.Context, md pmetric.Metrics) error
	{
		fd := methods["pushMetrics"]
		t := &efTr{fset: fset, fn: "pushMetrics", recv: fd.Recv.List[0].Names[0].Name, hasRes: true}
		ps := fd.Type.Params.List
		if len(ps) != 2 || len(ps[0].Names) != 1 || len(ps[1].Names) != 1 || t.str(ps[0].Type) != "context.Context" ||
			t.str(ps[1].Type) != "pmetric.Metrics" {
			t.fail(fd, "parameters (only `(<ctx> context.Context, <md> pmetric.Metrics)`)")
		}
		if ps[0].Names[0].Name != "_" {
			t.fail(ps[0], "the context parameter is named %s: the model knows a pushMetrics that ignores its context (`_`)", ps[0].Names[0].Name)
		}
		if r := fd.Type.Results; r == nil || len(r.List) != 1 || len(r.List[0].Names) != 0 || t.str(r.List[0].Type) != "error" {
			t.fail(fd, "result list (only a single unnamed `error`)")
		}
		t.push()
		t.scopes[0][ps[1].Names[0].Name] = efVar{"md", 0}
		t.push()
		list := fd.Body.List
		if len(list) == 0 {
			t.fail(fd, "empty body")
		}
		if _, ok := list[len(list)-1].(*ast.ReturnStmt); !ok {
			t.fail(list[len(list)-1], "the last statement is not a return")
		}
		body := t.block(list, "  ")
		fmt.Fprintf(&sb, "/-- go: func (%s *stefExporter) pushMetrics(_ context.Context, %s pmetric.Metrics) error\n    error locals: %s; tree locals: %d -/\n",
			t.recv, ps[1].Names[0].Name, localsDoc(t), t.nT)
		fmt.Fprintf(&sb, "def pushMetricsBody : Stmt :=\n  %s\n\n", body)
		sb.WriteString("/-- go: the first parameter of pushMetrics is `_ context.Context`: the context of the call is never looked at -/\n")
		sb.WriteString("def pushIgnoresContext : Bool := true\n\n")
	}

	// onGrpcAck(ackId uint64) error
	{
		fd := methods["onGrpcAck"]
		t := &efTr{fset: fset, fn: "onGrpcAck", recv: fd.Recv.List[0].Names[0].Name, hasRes: true}
		ps := fd.Type.Params.List
		if len(ps) != 1 || len(ps[0].Names) != 1 || t.str(ps[0].Type) != "uint64" {
			t.fail(fd, "parameters (only `(<ackId> uint64)`)")
		}
		if r := fd.Type.Results; r == nil || len(r.List) != 1 || len(r.List[0].Names) != 0 || t.str(r.List[0].Type) != "error" {
			t.fail(fd, "result list (only a single unnamed `error`)")
		}
		t.push()
		t.declare(ps[0], ps[0].Names[0].Name, "nat")
		t.push()
		list := fd.Body.List
		if len(list) == 0 {
			t.fail(fd, "empty body")
		}
		if _, ok := list[len(list)-1].(*ast.ReturnStmt); !ok {
			t.fail(list[len(list)-1], "the last statement is not a return")
		}
		body := t.block(list, "  ")
		fmt.Fprintf(&sb, "/-- go: func (%s *stefExporter) onGrpcAck(%s uint64) error\n    uint64 parameters: 0=%s; error locals: %s -/\n",
			t.recv, ps[0].Names[0].Name, ps[0].Names[0].Name, localsDoc(t))
		fmt.Fprintf(&sb, "def onGrpcAckBody : Stmt :=\n  %s\n\n", body)
	}

	// flusher()
	{
		fd := methods["flusher"]
		t := &efTr{fset: fset, fn: "flusher", recv: fd.Recv.List[0].Names[0].Name}
		if fd.Type.Params.NumFields() != 0 || fd.Type.Results != nil {
			t.fail(fd, "flusher takes parameters / has results")
		}
		list := fd.Body.List
		shape := "`X := time.NewTicker(<n> * time.Millisecond); for { select { case <-X.C: ..; case <-" + t.recv + ".stopped: .. } }`"
		if len(list) != 2 {
			t.fail(fd, "the body is not %s", shape)
		}
		as, ok := list[0].(*ast.AssignStmt)
		if !ok || as.Tok != token.DEFINE || len(as.Lhs) != 1 || len(as.Rhs) != 1 {
			t.fail(list[0], "the body is not %s", shape)
		}
		tick, ok := as.Lhs[0].(*ast.Ident)
		ce, ok2 := as.Rhs[0].(*ast.CallExpr)
		if !ok || !ok2 || t.str(ce.Fun) != "time.NewTicker" || len(ce.Args) != 1 {
			t.fail(list[0], "the body is not %s", shape)
		}
		be, ok := unparen(ce.Args[0]).(*ast.BinaryExpr)
		if !ok || be.Op != token.MUL || t.str(be.Y) != "time.Millisecond" {
			t.fail(ce.Args[0], "ticker interval `%s` (only <n> * time.Millisecond)", t.str(ce.Args[0]))
		}
		lit, ok := unparen(be.X).(*ast.BasicLit)
		if !ok || lit.Kind != token.INT {
			t.fail(ce.Args[0], "ticker interval `%s` (only <n> * time.Millisecond)", t.str(ce.Args[0]))
		}
		ms, err := strconv.ParseUint(lit.Value, 0, 32)
		if err != nil || ms == 0 {
			t.fail(lit, "ticker interval %s", lit.Value)
		}
		loop, ok := list[1].(*ast.ForStmt)
		if !ok || loop.Init != nil || loop.Cond != nil || loop.Post != nil || len(loop.Body.List) != 1 {
			t.fail(list[1], "the body is not %s", shape)
		}
		sel, ok := loop.Body.List[0].(*ast.SelectStmt)
		if !ok || len(sel.Body.List) != 2 {
			t.fail(loop.Body.List[0], "the body is not %s", shape)
		}
		t.push()
		t.scopes[0][tick.Name] = efVar{"ticker", 0}
		var tickArm, stopArm string
		for _, c := range sel.Body.List {
			cc := c.(*ast.CommClause)
			es, ok := cc.Comm.(*ast.ExprStmt)
			if !ok {
				t.fail(cc, "select case `%s`", t.str(cc.Comm))
			}
			u, ok := es.X.(*ast.UnaryExpr)
			if !ok || u.Op != token.ARROW {
				t.fail(cc, "select case `%s`", t.str(cc.Comm))
			}
			ast.Inspect(&ast.BlockStmt{List: cc.Body}, func(n ast.Node) bool {
				if _, ok := n.(*ast.BranchStmt); ok {
					t.fail(n, "break / continue / goto in an arm of the flusher's select")
				}
				return true
			})
			switch {
			case t.str(u.X) == tick.Name+".C" && tickArm == "":
				tickArm = t.scoped(cc.Body, "  ")
			case t.recvField(u.X, "stopped") && stopArm == "":
				stopArm = t.scoped(cc.Body, "  ")
			default:
				t.fail(cc, "select case `%s`", t.str(cc.Comm))
			}
		}
		fmt.Fprintf(&sb, "/-- go: func (%s *stefExporter) flusher() is `%s := time.NewTicker(%d * time.Millisecond); for { select { .. } }`;\n    this is the arm `case <-%s.C:`. error locals: %s -/\n",
			t.recv, tick.Name, ms, tick.Name, localsDoc(t))
		fmt.Fprintf(&sb, "def flusherTickArm : Stmt :=\n  %s\n\n", tickArm)
		fmt.Fprintf(&sb, "/-- go: the arm `case <-%s.stopped:` of the flusher's select -/\n", t.recv)
		fmt.Fprintf(&sb, "def flusherStopArm : Stmt :=\n  %s\n\n", stopArm)
		fmt.Fprintf(&sb, "/-- go: the interval of the flusher's ticker, in milliseconds -/\ndef flushIntervalMs : Nat := %d\n\n", ms)
	}

	sb.WriteString("/-- go: besides pushMetrics, onGrpcAck and flusher no function of the package mentions writeMutex, ackMutex,\n")
	sb.WriteString("    lastSentRecordId, lastAckedRecordId, sentPendingAck or remoteWriter, except newStefExporter (sentPendingAck: an\n")
	sb.WriteString("    empty map) and startGrpcClient (one assignment of remoteWriter, see below) -/\n")
	sb.WriteString("def guardedStateOnlyInTranslatedFunctions : Bool := true\n\n")
	sb.WriteString("/-- go: in startGrpcClient `remoteWriter, err = otelstef.NewMetricsWriter(..)`, `if err != nil { return err }`,\n")
	sb.WriteString("    `go flusher()` follow each other; no other go statement, no other start of the flusher -/\n")
	sb.WriteString("def flusherStartedAfterWriterSet : Bool := true\n\n")
	sb.WriteString("/-- go: the client's acknowledgement callback is `OnAck: <receiver>.onGrpcAck` -/\n")
	sb.WriteString("def onAckCallbackIsOnGrpcAck : Bool := true\n\n")

	sb.WriteString("/-- the regenerated functions: one call run to its end from state `s` -/\n")
	sb.WriteString("def pushMetrics (o : Oracle) (pts : List Stef.Pipeline.Pt) (s : XSt) : XSt × Option Bool :=\n  runBody o pts 0 pushMetricsBody [] s\n\n")
	sb.WriteString("def onGrpcAck (ackId : Nat) (s : XSt) : XSt × Option Bool :=\n  runBody .ok [] ackId onGrpcAckBody [ackId] s\n\n")
	sb.WriteString("/-- one pass of the flusher's loop in which the ticker arm is taken -/\n")
	sb.WriteString("def flusherTick (o : Oracle) (s : XSt) : XSt × Option Bool :=\n  runBody o [] 0 flusherTickArm [] s\n\n")
	sb.WriteString("/-- one pass of the flusher's loop in which the `stopped` arm is taken -/\n")
	sb.WriteString("def flusherStop (s : XSt) : XSt × Option Bool :=\n  runBody .ok [] 0 flusherStopArm [] s\n\n")
	sb.WriteString("end Stef.Gen.ExporterFlow\n")
	writeOut("ExporterFlow.lean", sb.String())
}
