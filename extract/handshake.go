package main

// genHandshake regenerates lean/Stef/Gen/Handshake.lean: the decision logic of the gRPC handshake,
// translated statement by statement from the Go AST (go/parser + go/ast only) into `Id.run do`
// blocks over the vocabulary of lean/Stef/HandshakeSem.lean:
//
//   (a) compatibleE   <- func (w *WireSchema) Compatible(oldSchema *WireSchema) (Compatibility, error)
//                        go/pkg/schema/wireschema.go        (a wire schema = the list of its structCounts)
//   (b) connect       <- the decision part of func (c *Client) Connect, go/grpc/client.go: from the first
//                        statement that assigns a field of the WriterOptions value it returns up to
//                        `isError = false`
//   (c) writerOpts    <- the option handling at the top of New<Root>Writer up to `writer.state.Init(..)`,
//                        go/otel/otelstef/{metrics,spans}writer.go and the template
//                        stefc/templates/go/writer.go.tmpl (all three must translate to the same text)
//       limiterInitFromDefaultedOpts   <- the argument of that `writer.state.Init(..)` call
//       stateInitPassesOptsToLimiter   <- go/otel/otelstef/writerstate.go: Init(opts) starts with d.limiter.Init(opts)
//
// The order of statements, the conditions and the assigned fields are those of the source. The
// translated subset is small on purpose; every construct outside of it makes this generator fail
// (die), which costs C14 its tie and nothing else.
//
//   Compatible:  stmt ::= x := nat | x = nat | x += nat | if cond {stmts} [else ..]
//                       | for i := range X.structCounts {stmts} | for _, v := range X.structCounts {stmts}
//                       | return Compatibility<V>, (nil | fmt.Errorf(..) | errors.New(..))
//                nat  ::= literal | uint(literal) | local | len(X.structCounts) | X.structCounts[i] | nat + nat
//                cond ::= nat (> | < | >= | <= | == | !=) nat | cond && cond | cond || cond | !cond
//                X is the receiver or the parameter. No return inside a loop; the last statement is a return;
//                the error is non-nil exactly in the returns of CompatibilityIncompatible (checked here).
//   Connect:     see connTr below.          New<Root>Writer: see wrTr below.

import (
	"fmt"
	"go/ast"
	"go/constant"
	"go/parser"
	"go/printer"
	"go/token"
	"os"
	"path/filepath"
	"strings"
)

type hsCtx struct {
	fset  *token.FileSet
	where string
}

func (c *hsCtx) fail(n ast.Node, f string, a ...any) {
	die("%s at %s: %s (outside the translated Go subset)", c.where, c.fset.Position(n.Pos()), fmt.Sprintf(f, a...))
}

func (c *hsCtx) str(n ast.Node) string {
	var sb strings.Builder
	printer.Fprint(&sb, c.fset, n)
	return sb.String()
}

// names that a Go local must not have because the generated Lean text uses them itself.
var hsReserved = map[string]bool{
	"at": true, "end": true, "from": true, "fun": true, "have": true, "show": true, "then": true, "do": true,
	"let": true, "match": true, "with": true, "in": true, "by": true, "open": true, "def": true, "theorem": true,
	"where": true, "mut": true, "unless": true, "try": true, "catch": true, "finally": true, "pure": true,
	"some": true, "none": true, "true": true, "false": true, "nil": true, "Type": true, "Prop": true,
	"client": true, "server": true, "dictLimits": true, "own": true, "wopts": true, "schemaVal": true,
	"compatibleE": true, "connect": true, "writerOpts": true, "_": true,
}

func (c *hsCtx) leanIdent(n ast.Node, name string) string {
	if hsReserved[name] {
		c.fail(n, "local name %s collides with the generated Lean text", name)
	}
	for _, r := range name {
		if !(r == '_' || r >= '0' && r <= '9' || r >= 'a' && r <= 'z' || r >= 'A' && r <= 'Z') {
			c.fail(n, "local name %s", name)
		}
	}
	return name
}

func hsIndent(lines []string) []string {
	out := make([]string, len(lines))
	for i, l := range lines {
		out[i] = "  " + l
	}
	return out
}

// hsBlock makes a non-empty do-sequence of a translated block.
func hsBlock(lines []string) []string {
	for _, l := range lines {
		if !strings.HasPrefix(strings.TrimSpace(l), "--") {
			return hsIndent(lines)
		}
	}
	return hsIndent(append(lines, "pure ()"))
}

func isIdent(e ast.Expr, name string) bool {
	id, ok := e.(*ast.Ident)
	return ok && id.Name == name
}

// verdict: CompatibilityExact / schema.CompatibilityExact / ...
func (c *hsCtx) verdict(e ast.Expr) string {
	name := ""
	switch v := e.(type) {
	case *ast.Ident:
		name = v.Name
	case *ast.SelectorExpr:
		if isIdent(v.X, "schema") {
			name = v.Sel.Name
		}
	}
	switch name {
	case "CompatibilityExact":
		return ".exact"
	case "CompatibilitySuperset":
		return ".superset"
	case "CompatibilityIncompatible":
		return ".incompatible"
	}
	c.fail(e, "`%s` is not one of the three Compatibility constants", c.str(e))
	return ""
}

// errValue: nil -> false, a freshly made error -> true.
func (c *hsCtx) errIsNonNil(e ast.Expr) bool {
	if isIdent(e, "nil") {
		return false
	}
	if ce, ok := e.(*ast.CallExpr); ok {
		switch c.str(ce.Fun) {
		case "fmt.Errorf", "errors.New":
			return true
		}
	}
	c.fail(e, "error value `%s` is neither nil nor fmt.Errorf(..)/errors.New(..)", c.str(e))
	return false
}

// ---------------------------------------------------------------------------------------------
// (a) WireSchema.Compatible

type compatTr struct {
	hsCtx
	recv, param string
	nat         map[string]bool // assignable uint locals
	ro          map[string]bool // loop value variables
	idx         map[string]bool // loop index variables
}

func (t *compatTr) counts(e ast.Expr) (string, bool) {
	sel, ok := e.(*ast.SelectorExpr)
	if !ok || sel.Sel.Name != "structCounts" {
		return "", false
	}
	id, ok := sel.X.(*ast.Ident)
	if !ok || (id.Name != t.recv && id.Name != t.param) {
		return "", false
	}
	return id.Name, true
}

func (t *compatTr) natExpr(e ast.Expr) string {
	switch v := e.(type) {
	case *ast.ParenExpr:
		return t.natExpr(v.X)
	case *ast.BasicLit:
		if v.Kind == token.INT {
			c := constant.MakeFromLiteral(v.Value, v.Kind, 0)
			return bigOf(c).String()
		}
	case *ast.Ident:
		if t.nat[v.Name] || t.ro[v.Name] {
			return v.Name
		}
	case *ast.CallExpr:
		if len(v.Args) == 1 && !v.Ellipsis.IsValid() {
			if isIdent(v.Fun, "len") {
				if x, ok := t.counts(v.Args[0]); ok {
					return x + ".length"
				}
			}
			if isIdent(v.Fun, "uint") {
				if lit, ok := v.Args[0].(*ast.BasicLit); ok && lit.Kind == token.INT {
					return t.natExpr(lit)
				}
			}
		}
	case *ast.IndexExpr:
		if x, ok := t.counts(v.X); ok {
			if id, ok := v.Index.(*ast.Ident); ok && t.idx[id.Name] {
				return fmt.Sprintf("%s.getD %s 0", x, id.Name)
			}
		}
	case *ast.BinaryExpr:
		if v.Op == token.ADD {
			return fmt.Sprintf("(%s + %s)", t.natExpr(v.X), t.natExpr(v.Y))
		}
	}
	t.fail(e, "unsigned expression `%s`", t.str(e))
	return ""
}

var hsCmp = map[token.Token]string{token.GTR: ">", token.LSS: "<", token.GEQ: "≥", token.LEQ: "≤", token.EQL: "=", token.NEQ: "≠"}

func (t *compatTr) cond(e ast.Expr) string {
	switch v := e.(type) {
	case *ast.ParenExpr:
		return "(" + t.cond(v.X) + ")"
	case *ast.UnaryExpr:
		if v.Op == token.NOT {
			return "¬(" + t.cond(v.X) + ")"
		}
	case *ast.BinaryExpr:
		switch v.Op {
		case token.LAND:
			return "(" + t.cond(v.X) + " ∧ " + t.cond(v.Y) + ")"
		case token.LOR:
			return "(" + t.cond(v.X) + " ∨ " + t.cond(v.Y) + ")"
		}
		if op, ok := hsCmp[v.Op]; ok {
			return t.natExpr(v.X) + " " + op + " " + t.natExpr(v.Y)
		}
	}
	t.fail(e, "condition `%s`", t.str(e))
	return ""
}

func (t *compatTr) stmts(list []ast.Stmt, top, inLoop bool) []string {
	var out []string
	for i, s := range list {
		switch v := s.(type) {
		case *ast.AssignStmt:
			if len(v.Lhs) != 1 || len(v.Rhs) != 1 {
				t.fail(s, "multiple assignment")
			}
			id, ok := v.Lhs[0].(*ast.Ident)
			if !ok {
				t.fail(s, "assignment target `%s`", t.str(v.Lhs[0]))
			}
			switch v.Tok {
			case token.DEFINE:
				if !top {
					t.fail(s, "local defined in a nested block")
				}
				name := t.leanIdent(id, id.Name)
				if t.nat[name] || name == t.recv || name == t.param {
					t.fail(s, "%s defined twice", name)
				}
				rhs := t.natExpr(v.Rhs[0])
				t.nat[name] = true
				out = append(out, fmt.Sprintf("let mut %s : Nat := %s", name, rhs))
			case token.ASSIGN:
				if !t.nat[id.Name] {
					t.fail(s, "assignment to %s", id.Name)
				}
				out = append(out, fmt.Sprintf("%s := %s", id.Name, t.natExpr(v.Rhs[0])))
			case token.ADD_ASSIGN:
				if !t.nat[id.Name] {
					t.fail(s, "assignment to %s", id.Name)
				}
				out = append(out, fmt.Sprintf("%s := %s + %s", id.Name, id.Name, t.natExpr(v.Rhs[0])))
			default:
				t.fail(s, "assignment operator %s", v.Tok)
			}
		case *ast.IfStmt:
			if v.Init != nil {
				t.fail(s, "if with init statement")
			}
			out = append(out, "if "+t.cond(v.Cond)+" then")
			out = append(out, hsBlock(t.stmts(v.Body.List, false, inLoop))...)
			switch e := v.Else.(type) {
			case nil:
			case *ast.BlockStmt:
				out = append(out, "else")
				out = append(out, hsBlock(t.stmts(e.List, false, inLoop))...)
			case *ast.IfStmt:
				out = append(out, "else")
				out = append(out, hsBlock(t.stmts([]ast.Stmt{e}, false, inLoop))...)
			default:
				t.fail(s, "else %T", v.Else)
			}
		case *ast.RangeStmt:
			if inLoop {
				t.fail(s, "nested loop")
			}
			x, ok := t.counts(v.X)
			if !ok || v.Tok != token.DEFINE {
				t.fail(s, "loop that does not range over the struct counts of the receiver or the parameter")
			}
			key, _ := v.Key.(*ast.Ident)
			if key == nil {
				t.fail(s, "range without key")
			}
			switch {
			case v.Value == nil && key.Name != "_":
				name := t.leanIdent(key, key.Name)
				if t.nat[name] || t.idx[name] || t.ro[name] {
					t.fail(s, "%s defined twice", name)
				}
				t.idx[name] = true
				out = append(out, fmt.Sprintf("for %s in List.range %s.length do", name, x))
				out = append(out, hsBlock(t.stmts(v.Body.List, false, true))...)
				delete(t.idx, name)
			case v.Value != nil && key.Name == "_":
				val, ok := v.Value.(*ast.Ident)
				if !ok {
					t.fail(s, "range value")
				}
				name := t.leanIdent(val, val.Name)
				if t.nat[name] || t.idx[name] || t.ro[name] {
					t.fail(s, "%s defined twice", name)
				}
				t.ro[name] = true
				out = append(out, fmt.Sprintf("for %s in %s do", name, x))
				out = append(out, hsBlock(t.stmts(v.Body.List, false, true))...)
				delete(t.ro, name)
			default:
				t.fail(s, "range with both key and value")
			}
		case *ast.ReturnStmt:
			if inLoop {
				t.fail(s, "return inside a loop")
			}
			if len(v.Results) != 2 {
				t.fail(s, "return with %d results", len(v.Results))
			}
			if i != len(list)-1 {
				t.fail(list[i+1], "statement after return")
			}
			vd := t.verdict(v.Results[0])
			nonNil := t.errIsNonNil(v.Results[1])
			if nonNil != (vd == ".incompatible") {
				t.fail(s, "the returned error is non-nil = %v with verdict %s: the model (and Connect) rely on `err != nil` exactly for CompatibilityIncompatible", nonNil, vd)
			}
			out = append(out, fmt.Sprintf("return (%s, %v)", vd, nonNil))
		default:
			t.fail(s, "statement %T", s)
		}
	}
	return out
}

func hsFindFunc(f *ast.File, name string, method bool) *ast.FuncDecl {
	var found *ast.FuncDecl
	for _, d := range f.Decls {
		fd, ok := d.(*ast.FuncDecl)
		if !ok || fd.Name.Name != name || (fd.Recv != nil) != method {
			continue
		}
		if found != nil {
			die("function %s declared twice", name)
		}
		found = fd
	}
	if found == nil || found.Body == nil {
		die("function %s not found", name)
	}
	return found
}

func hsRecvName(c *hsCtx, fd *ast.FuncDecl, typ string) string {
	if len(fd.Recv.List) != 1 || len(fd.Recv.List[0].Names) != 1 || c.str(fd.Recv.List[0].Type) != "*"+typ {
		c.fail(fd, "receiver is not a named *%s", typ)
	}
	return fd.Recv.List[0].Names[0].Name
}

func hsCompatible() string {
	const rel = "go/pkg/schema/wireschema.go"
	fset, f := parseFile(rel)
	fd := hsFindFunc(f, "Compatible", true)
	t := &compatTr{hsCtx: hsCtx{fset, rel + " Compatible"}, nat: map[string]bool{}, ro: map[string]bool{}, idx: map[string]bool{}}
	t.recv = t.leanIdent(fd, hsRecvName(&t.hsCtx, fd, "WireSchema"))
	ps := fd.Type.Params.List
	if len(ps) != 1 || len(ps[0].Names) != 1 || t.str(ps[0].Type) != "*WireSchema" {
		t.fail(fd, "parameters are not (x *WireSchema)")
	}
	t.param = t.leanIdent(fd, ps[0].Names[0].Name)
	if t.param == t.recv {
		t.fail(fd, "receiver and parameter have the same name")
	}
	rs := fd.Type.Results
	if rs == nil || len(rs.List) != 2 || len(rs.List[0].Names) != 0 || len(rs.List[1].Names) != 0 ||
		t.str(rs.List[0].Type) != "Compatibility" || t.str(rs.List[1].Type) != "error" {
		t.fail(fd, "results are not (Compatibility, error)")
	}
	body := fd.Body.List
	if len(body) == 0 {
		t.fail(fd, "empty body")
	}
	if _, ok := body[len(body)-1].(*ast.ReturnStmt); !ok {
		t.fail(body[len(body)-1], "the last statement is not a return")
	}
	lines := t.stmts(body, true, false)
	var sb strings.Builder
	fmt.Fprintf(&sb, "/-- %s `func (%s *WireSchema) Compatible(%s *WireSchema) (Compatibility, error)`;\n", rel, t.recv, t.param)
	sb.WriteString("    second component: the returned error is non-nil. `x.structCounts[i]` is `x.getD i 0`\n")
	sb.WriteString("    (Go panics out of range; the loops the generator accepts stay in range of what they range over). -/\n")
	fmt.Fprintf(&sb, "def compatibleE (%s %s : List Nat) : Compat × Bool := Id.run do\n", t.recv, t.param)
	for _, l := range hsIndent(lines) {
		sb.WriteString(l + "\n")
	}
	return sb.String()
}

// ---------------------------------------------------------------------------------------------
// fields of pkg.WriterOptions known to the model (Stef.HandshakeSem.WOpts)

var hsFields = map[string]struct{ lean, kind string }{
	"IncludeDescriptor":            {"includeDescriptor", "bool"},
	"Schema":                       {"schema", "schema"},
	"MaxTotalDictSize":             {"maxTotalDictSize", "nat"},
	"MaxUncompressedFrameByteSize": {"maxUncompressedFrameByteSize", "nat"},
}

// optsField: `<path>.<F>` with F a modelled field.
func hsOptsField(c *hsCtx, e ast.Expr, path string) (lean, kind string, ok bool) {
	sel, isSel := e.(*ast.SelectorExpr)
	if !isSel || c.str(sel.X) != path {
		return "", "", false
	}
	fld, known := hsFields[sel.Sel.Name]
	if !known {
		c.fail(e, "field %s of the writer options is not part of the model state (Stef.HandshakeSem.WOpts)", sel.Sel.Name)
	}
	return fld.lean, fld.kind, true
}

// assignsOpts: does node n contain an assignment (or ++/--, or &path) to path.<field> or path itself?
func hsAssignsOpts(c *hsCtx, n ast.Node, path string) bool {
	found := false
	hit := func(e ast.Expr) {
		s := c.str(e)
		if s == path || strings.HasPrefix(s, path+".") {
			found = true
		}
	}
	ast.Inspect(n, func(x ast.Node) bool {
		switch v := x.(type) {
		case *ast.AssignStmt:
			for _, l := range v.Lhs {
				hit(l)
			}
		case *ast.IncDecStmt:
			hit(v.X)
		case *ast.UnaryExpr:
			if v.Op == token.AND {
				hit(v.X)
			}
		}
		return true
	})
	return found
}

func hsCountIdent(n ast.Node, name string) int {
	k := 0
	ast.Inspect(n, func(x ast.Node) bool {
		if id, ok := x.(*ast.Ident); ok && id.Name == name {
			k++
		}
		return true
	})
	return k
}

// ---------------------------------------------------------------------------------------------
// (b) Client.Connect
//
//   prefix   (everything before the first statement that assigns opts.<F>): must define
//            `opts := pkg.WriterOptions{}` once and may mention opts only as `return nil, opts, <non-nil>`.
//   decision stmt ::= opts.F = rhs
//                   | if cond {stmts} [else {stmts}]
//                   | compatibility, err := A.Compatible(B)      | compatibility, err = A.Compatible(B)
//                   | switch compatibility { case schema.Compatibility<V>: stmts ... }   (all three, no default)
//                   | return nil, opts, <non-nil error>                                   -> return none
//                   | var S schema.WireSchema | B := bytes.NewBuffer(capabilities.Capabilities.Schema)
//                   | err = S.Deserialize(B)  | if err != nil { return nil, opts, .. }   (after Deserialize)
//                     (top level only: the model input `server` IS the deserialized schema)
//            rhs  ::= true | false | nil | c.clientSchema.WireSchema | &S
//                   | uint(capabilities.Capabilities.DictionaryLimits.MaxDictBytes) | constant expression
//            cond ::= capabilities.Capabilities.DictionaryLimits != nil | err != nil | err == nil
//                   | compatibility (==|!=) schema.Compatibility<V> | cond && cond | cond || cond | !cond
//            A, B ::= S | &S | c.clientSchema.WireSchema
//            up to the statement `isError = false`.
//   suffix   may mention opts only in the final `return <writer>, opts, nil`.

const hsDictLimits = "capabilities.Capabilities.DictionaryLimits"
const hsServerBytes = "capabilities.Capabilities.Schema"

type connTr struct {
	hsCtx
	recv        string
	opts        string
	server, buf string
	compat, err string
	errKind     string // "" | "io" | "compat"
	consts      *constEnv
}

func (t *connTr) schemaExpr(e ast.Expr) string {
	s := t.str(e)
	switch {
	case s == t.recv+".clientSchema.WireSchema":
		return "client"
	case t.server != "" && (s == t.server || s == "&"+t.server):
		return "server"
	}
	t.fail(e, "schema expression `%s`", s)
	return ""
}

func (t *connTr) compatCall(e ast.Expr) string {
	ce, ok := e.(*ast.CallExpr)
	if !ok || len(ce.Args) != 1 || ce.Ellipsis.IsValid() {
		t.fail(e, "`%s` is not a call x.Compatible(y)", t.str(e))
	}
	sel, ok := ce.Fun.(*ast.SelectorExpr)
	if !ok || sel.Sel.Name != "Compatible" {
		t.fail(e, "`%s` is not a call x.Compatible(y)", t.str(e))
	}
	return fmt.Sprintf("compatibleE %s %s", t.schemaExpr(sel.X), t.schemaExpr(ce.Args[0]))
}

func (t *connTr) rhs(e ast.Expr, kind string) string {
	s := t.str(e)
	switch kind {
	case "bool":
		if s == "true" || s == "false" {
			return s
		}
	case "schema":
		if s == "nil" {
			return "none"
		}
		if s == t.recv+".clientSchema.WireSchema" {
			return "some client"
		}
		if t.server != "" && s == "&"+t.server {
			return "some server"
		}
	case "nat":
		if s == "uint("+hsDictLimits+".MaxDictBytes)" {
			return "dictLimits.getD 0"
		}
		// a constant expression over the constants of the file
		return bigOf(t.consts.eval(e)).String()
	}
	t.fail(e, "value `%s` assigned to a %s field", s, kind)
	return ""
}

func (t *connTr) cond(e ast.Expr) string {
	switch v := e.(type) {
	case *ast.ParenExpr:
		return "(" + t.cond(v.X) + ")"
	case *ast.UnaryExpr:
		if v.Op == token.NOT {
			return "¬(" + t.cond(v.X) + ")"
		}
	case *ast.BinaryExpr:
		switch v.Op {
		case token.LAND:
			return "(" + t.cond(v.X) + " ∧ " + t.cond(v.Y) + ")"
		case token.LOR:
			return "(" + t.cond(v.X) + " ∨ " + t.cond(v.Y) + ")"
		case token.EQL, token.NEQ:
			l := t.str(v.X)
			switch {
			case l == hsDictLimits && isIdent(v.Y, "nil"):
				if v.Op == token.NEQ {
					return "dictLimits.isSome = true"
				}
				return "dictLimits.isSome = false"
			case t.err != "" && l == t.err && isIdent(v.Y, "nil"):
				if t.errKind != "compat" {
					t.fail(e, "`%s` does not test the error of a Compatible call", t.str(e))
				}
				if v.Op == token.NEQ {
					return t.err + " = true"
				}
				return t.err + " = false"
			case t.compat != "" && l == t.compat:
				return t.compat + " " + hsCmp[v.Op] + " " + t.verdict(v.Y)
			}
		}
	}
	t.fail(e, "condition `%s`", t.str(e))
	return ""
}

func (t *connTr) isErrReturn(s ast.Stmt) bool {
	r, ok := s.(*ast.ReturnStmt)
	return ok && len(r.Results) == 3 && isIdent(r.Results[0], "nil") && isIdent(r.Results[1], t.opts) && !isIdent(r.Results[2], "nil")
}

func (t *connTr) stmts(list []ast.Stmt, top bool) []string {
	var out []string
	for i, s := range list {
		switch v := s.(type) {
		case *ast.DeclStmt:
			gd, ok := v.Decl.(*ast.GenDecl)
			if !top || !ok || gd.Tok != token.VAR || len(gd.Specs) != 1 {
				t.fail(s, "declaration `%s`", t.str(s))
			}
			vs := gd.Specs[0].(*ast.ValueSpec)
			if len(vs.Names) != 1 || len(vs.Values) != 0 || vs.Type == nil || t.str(vs.Type) != "schema.WireSchema" || t.server != "" {
				t.fail(s, "declaration `%s`", t.str(s))
			}
			t.server = vs.Names[0].Name
			out = append(out, "-- var "+t.server+" schema.WireSchema: the model input `server` (after Deserialize)")
		case *ast.AssignStmt:
			out = append(out, t.assign(v, top)...)
		case *ast.IfStmt:
			if v.Init != nil {
				t.fail(s, "if with init statement")
			}
			// failure of the deserialization of the server's schema bytes: outside the model
			if top && t.errKind == "io" && t.str(v.Cond) == t.err+" != nil" && v.Else == nil &&
				len(v.Body.List) == 1 && t.isErrReturn(v.Body.List[0]) {
				out = append(out, "-- (Deserialize failed: Connect returns an error; not part of the model)")
				continue
			}
			out = append(out, "if "+t.cond(v.Cond)+" then")
			out = append(out, hsBlock(t.stmts(v.Body.List, false))...)
			switch e := v.Else.(type) {
			case nil:
			case *ast.BlockStmt:
				out = append(out, "else")
				out = append(out, hsBlock(t.stmts(e.List, false))...)
			case *ast.IfStmt:
				out = append(out, "else")
				out = append(out, hsBlock(t.stmts([]ast.Stmt{e}, false))...)
			default:
				t.fail(s, "else %T", v.Else)
			}
		case *ast.SwitchStmt:
			if !top || v.Init != nil || v.Tag == nil || t.compat == "" || !isIdent(v.Tag, t.compat) {
				t.fail(s, "switch that is not `switch %s` at the top level", t.compat)
			}
			out = append(out, "match "+t.compat+" with")
			seen := map[string]bool{}
			for _, c := range v.Body.List {
				cc := c.(*ast.CaseClause)
				if len(cc.List) != 1 {
					t.fail(cc, "case clause that is not a single Compatibility constant (default / several values)")
				}
				vd := t.verdict(cc.List[0])
				if seen[vd] {
					t.fail(cc, "duplicate case")
				}
				seen[vd] = true
				out = append(out, "| "+vd+" =>")
				out = append(out, hsBlock(t.stmts(cc.Body, false))...)
			}
			if len(seen) != 3 {
				t.fail(s, "switch does not have exactly the three Compatibility cases")
			}
		case *ast.ReturnStmt:
			if !t.isErrReturn(s) {
				t.fail(s, "return that is not `return nil, %s, <non-nil error>`", t.opts)
			}
			if i != len(list)-1 {
				t.fail(list[i+1], "statement after return")
			}
			out = append(out, "return none")
		default:
			t.fail(s, "statement `%s`", t.str(s))
		}
	}
	return out
}

func (t *connTr) assign(v *ast.AssignStmt, top bool) []string {
	// opts.F = rhs
	if len(v.Lhs) == 1 && len(v.Rhs) == 1 && v.Tok == token.ASSIGN {
		if lean, kind, ok := hsOptsField(&t.hsCtx, v.Lhs[0], t.opts); ok {
			return []string{fmt.Sprintf("%s := { %s with %s := %s }", t.opts, t.opts, lean, t.rhs(v.Rhs[0], kind))}
		}
	}
	// compatibility, err := A.Compatible(B)
	if len(v.Lhs) == 2 && len(v.Rhs) == 1 {
		a, ok1 := v.Lhs[0].(*ast.Ident)
		b, ok2 := v.Lhs[1].(*ast.Ident)
		if ok1 && ok2 {
			call := t.compatCall(v.Rhs[0])
			switch v.Tok {
			case token.DEFINE:
				if !top || t.compat != "" {
					t.fail(v, "`%s`: verdict defined twice or in a nested block", t.str(v))
				}
				t.compat, t.err = t.leanIdent(a, a.Name), t.leanIdent(b, b.Name)
				if t.compat == t.err || t.compat == t.opts || t.err == t.opts {
					t.fail(v, "name clash")
				}
				t.errKind = "compat"
				return []string{fmt.Sprintf("let mut (%s, %s) := %s", t.compat, t.err, call)}
			case token.ASSIGN:
				if t.compat == "" || a.Name != t.compat || b.Name != t.err {
					t.fail(v, "`%s` does not assign the verdict and error variables", t.str(v))
				}
				t.errKind = "compat"
				return []string{fmt.Sprintf("(%s, %s) := %s", t.compat, t.err, call)}
			}
		}
	}
	if top && len(v.Lhs) == 1 && len(v.Rhs) == 1 {
		if id, ok := v.Lhs[0].(*ast.Ident); ok {
			r := t.str(v.Rhs[0])
			// B := bytes.NewBuffer(capabilities.Capabilities.Schema)
			if v.Tok == token.DEFINE && t.buf == "" && r == "bytes.NewBuffer("+hsServerBytes+")" && id.Name != t.opts {
				t.buf = id.Name
				return []string{"-- " + t.str(v)}
			}
			// err = S.Deserialize(B)
			if v.Tok == token.ASSIGN && t.server != "" && t.buf != "" && t.compat == "" && r == t.server+".Deserialize("+t.buf+")" &&
				id.Name != t.opts && id.Name != t.server && id.Name != t.buf {
				t.err, t.errKind = id.Name, "io"
				return []string{"-- " + t.str(v)}
			}
		}
	}
	t.fail(v, "assignment `%s`", t.str(v))
	return nil
}

func hsConnect() string {
	const rel = "go/grpc/client.go"
	fset, f := parseFile(rel)
	fd := hsFindFunc(f, "Connect", true)
	t := &connTr{hsCtx: hsCtx{fset, rel + " Connect"}}
	t.recv = hsRecvName(&t.hsCtx, fd, "Client")
	t.consts = &constEnv{vals: map[string]constant.Value{}}
	collectConsts(f, t.consts, map[string]constant.Value{})
	rs := fd.Type.Results
	if rs == nil || len(rs.List) != 3 || t.str(rs.List[1].Type) != "pkg.WriterOptions" || t.str(rs.List[2].Type) != "error" ||
		len(rs.List[0].Names)+len(rs.List[1].Names)+len(rs.List[2].Names) != 0 {
		t.fail(fd, "results are not (.., pkg.WriterOptions, error), unnamed")
	}
	list := fd.Body.List
	// the options variable
	for _, s := range list {
		as, ok := s.(*ast.AssignStmt)
		if !ok || as.Tok != token.DEFINE || len(as.Lhs) != 1 || len(as.Rhs) != 1 {
			continue
		}
		cl, ok := as.Rhs[0].(*ast.CompositeLit)
		if !ok || cl.Type == nil || t.str(cl.Type) != "pkg.WriterOptions" {
			continue
		}
		id, ok := as.Lhs[0].(*ast.Ident)
		if !ok || t.opts != "" {
			t.fail(s, "second pkg.WriterOptions value")
		}
		if len(cl.Elts) != 0 {
			t.fail(s, "the options do not start as the zero value pkg.WriterOptions{}")
		}
		t.opts = t.leanIdent(id, id.Name)
	}
	if t.opts == "" {
		t.fail(fd, "no `opts := pkg.WriterOptions{}` at the top level")
	}
	first, end := -1, -1
	for i, s := range list {
		if first < 0 && hsAssignsOpts(&t.hsCtx, s, t.opts) {
			if as, ok := s.(*ast.AssignStmt); ok && as.Tok == token.DEFINE {
				continue // the definition itself
			}
			first = i
		}
		if t.str(s) == "isError = false" {
			if end >= 0 {
				t.fail(s, "second `isError = false`")
			}
			end = i
		}
	}
	if end < 0 {
		t.fail(fd, "no top-level statement `isError = false` (end of the decision part)")
	}
	if first < 0 || first > end {
		first = end
	}
	// prefix
	defs := 0
	for _, s := range list[:first] {
		n := hsCountIdent(s, t.opts)
		if as, ok := s.(*ast.AssignStmt); ok && as.Tok == token.DEFINE && len(as.Lhs) == 1 && isIdent(as.Lhs[0], t.opts) && n == 1 {
			defs++
			continue
		}
		ok := 0
		ast.Inspect(s, func(x ast.Node) bool {
			if st, isS := x.(ast.Stmt); isS && t.isErrReturn(st) {
				ok++
			}
			return true
		})
		if n != ok {
			t.fail(s, "statement before the decision part uses %s other than in `return nil, %s, <error>`", t.opts, t.opts)
		}
		if hsAssignsOpts(&t.hsCtx, s, t.recv+".clientSchema") {
			t.fail(s, "the client schema is assigned inside Connect")
		}
	}
	if defs != 1 {
		t.fail(fd, "`%s := pkg.WriterOptions{}` must precede the decision part", t.opts)
	}
	lines := t.stmts(list[first:end], true)
	// suffix
	suffix := list[end+1:]
	if len(suffix) == 0 {
		t.fail(fd, "nothing after `isError = false`")
	}
	for _, s := range suffix[:len(suffix)-1] {
		if hsCountIdent(s, t.opts) != 0 {
			t.fail(s, "statement after the decision part uses %s", t.opts)
		}
	}
	last, ok := suffix[len(suffix)-1].(*ast.ReturnStmt)
	if !ok || len(last.Results) != 3 || !isIdent(last.Results[1], t.opts) || !isIdent(last.Results[2], "nil") || isIdent(last.Results[0], "nil") {
		t.fail(suffix[len(suffix)-1], "Connect does not end with `return <writer>, %s, nil`", t.opts)
	}
	var sb strings.Builder
	fmt.Fprintf(&sb, "/-- %s `func (%s *Client) Connect`, from the first assignment to a field of `%s` to `isError = false`.\n", rel, t.recv, t.opts)
	sb.WriteString("    `client` = c.clientSchema.WireSchema, `server` = the deserialized capabilities.Capabilities.Schema,\n")
	sb.WriteString("    `dictLimits` = capabilities.Capabilities.DictionaryLimits (nil = none) with its MaxDictBytes.\n")
	sb.WriteString("    `none` = Connect returns an error. -/\n")
	fmt.Fprintf(&sb, "def connect (client server : List Nat) (dictLimits : Option Nat) : Option WOpts := Id.run do\n")
	fmt.Fprintf(&sb, "  let mut %s : WOpts := {}\n", t.opts)
	for _, l := range hsIndent(lines) {
		sb.WriteString(l + "\n")
	}
	fmt.Fprintf(&sb, "  return some %s\n", t.opts)
	return sb.String()
}

// ---------------------------------------------------------------------------------------------
// (c) New<Root>Writer
//
//   writer := &<Root>Writer{dst: dst, opts: opts}                      -> let mut wopts := opts
//   stmt ::= writer.opts.F = rhs                                        rhs ::= true | false | literal | pkg.<Const>
//          | if cond {stmts} [else {stmts}]                             cond ::= writer.opts.F (==|!=) literal
//          | if writer.opts.Schema != nil {stmts}      (if let some schemaVal := wopts.schema)
//          | X, err := <Root>WireSchema()              (X = the model input `own`), followed by
//            if err != nil { return nil, err }         (not part of the model)
//          | if _, err := X.Compatible(writer.opts.Schema); err != nil { return nil, <error> }
//          | return nil, <non-nil>                                      -> return none
//          | writer.Record.Init()                                       (skipped)
//   up to `writer.state.Init(<arg>)`, whose argument must be `&writer.opts` (fact = true) or `&opts`
//   (fact = false). Nothing after it may assign writer.opts.* or take its address.

type wrTr struct {
	hsCtx
	root, param, writer string
	path                string // writer + ".opts"
	own, err            string
	errKind             string
	inSchema            bool
}

func (t *wrTr) isErrReturn(s ast.Stmt) bool {
	r, ok := s.(*ast.ReturnStmt)
	return ok && len(r.Results) == 2 && isIdent(r.Results[0], "nil") && !isIdent(r.Results[1], "nil")
}

func (t *wrTr) lit(e ast.Expr) (string, bool) {
	if l, ok := e.(*ast.BasicLit); ok && l.Kind == token.INT {
		return bigOf(constant.MakeFromLiteral(l.Value, l.Kind, 0)).String(), true
	}
	return "", false
}

func (t *wrTr) cond(e ast.Expr) string {
	switch v := e.(type) {
	case *ast.ParenExpr:
		return "(" + t.cond(v.X) + ")"
	case *ast.BinaryExpr:
		if v.Op == token.EQL || v.Op == token.NEQ {
			if lean, kind, ok := hsOptsField(&t.hsCtx, v.X, t.path); ok && kind == "nat" {
				if n, ok := t.lit(v.Y); ok {
					return fmt.Sprintf("wopts.%s %s %s", lean, hsCmp[v.Op], n)
				}
			}
			if t.err != "" && t.errKind == "compat" && isIdent(v.X, t.err) && isIdent(v.Y, "nil") {
				if v.Op == token.NEQ {
					return t.err + " = true"
				}
				return t.err + " = false"
			}
		}
	}
	t.fail(e, "condition `%s`", t.str(e))
	return ""
}

func (t *wrTr) rhs(e ast.Expr, kind string) string {
	s := t.str(e)
	switch kind {
	case "bool":
		if s == "true" || s == "false" {
			return s
		}
	case "nat":
		if n, ok := t.lit(e); ok {
			return n
		}
		if sel, ok := e.(*ast.SelectorExpr); ok && isIdent(sel.X, "pkg") {
			for _, cf := range constFiles {
				if cf.file != "go/pkg/writeropts.go" {
					continue
				}
				for _, n := range cf.names {
					if n == sel.Sel.Name {
						return "Stef.Gen." + strings.ToLower(n[:1]) + n[1:]
					}
				}
			}
		}
	}
	t.fail(e, "value `%s` assigned to a %s field", s, kind)
	return ""
}

func (t *wrTr) ifBody(v *ast.IfStmt) []string {
	var out []string
	out = append(out, hsBlock(t.stmts(v.Body.List))...)
	switch e := v.Else.(type) {
	case nil:
	case *ast.BlockStmt:
		out = append(out, "else")
		out = append(out, hsBlock(t.stmts(e.List))...)
	default:
		t.fail(v, "else %T", v.Else)
	}
	return out
}

func (t *wrTr) stmts(list []ast.Stmt) []string {
	var out []string
	for i, s := range list {
		switch v := s.(type) {
		case *ast.AssignStmt:
			if len(v.Lhs) == 1 && len(v.Rhs) == 1 && v.Tok == token.ASSIGN {
				if lean, kind, ok := hsOptsField(&t.hsCtx, v.Lhs[0], t.path); ok {
					out = append(out, fmt.Sprintf("wopts := { wopts with %s := %s }", lean, t.rhs(v.Rhs[0], kind)))
					continue
				}
			}
			// X, err := <Root>WireSchema()
			if len(v.Lhs) == 2 && len(v.Rhs) == 1 && v.Tok == token.DEFINE && t.str(v.Rhs[0]) == t.root+"WireSchema()" && t.own == "" {
				a, ok1 := v.Lhs[0].(*ast.Ident)
				b, ok2 := v.Lhs[1].(*ast.Ident)
				if ok1 && ok2 && a.Name != b.Name {
					t.own, t.err, t.errKind = t.leanIdent(a, a.Name), t.leanIdent(b, b.Name), "io"
					out = append(out, fmt.Sprintf("let %s := own", t.own))
					continue
				}
			}
			t.fail(s, "assignment `%s`", t.str(s))
		case *ast.IfStmt:
			// if writer.opts.Schema != nil { .. }
			if v.Init == nil && t.str(v.Cond) == t.path+".Schema != nil" {
				if t.inSchema || v.Else != nil {
					t.fail(s, "nested / else of the override-schema check")
				}
				t.inSchema = true
				out = append(out, "if let some schemaVal := wopts.schema then")
				out = append(out, hsBlock(t.stmts(v.Body.List))...)
				t.inSchema = false
				t.own, t.err, t.errKind = "", "", ""
				continue
			}
			// if err != nil { return nil, err } after <Root>WireSchema()
			if v.Init == nil && t.errKind == "io" && t.str(v.Cond) == t.err+" != nil" && v.Else == nil &&
				len(v.Body.List) == 1 && t.isErrReturn(v.Body.List[0]) {
				out = append(out, "-- (the writer's own wire schema could not be built: not part of the model)")
				t.errKind = ""
				continue
			}
			// if _, err := X.Compatible(writer.opts.Schema); err != nil { .. }
			if v.Init != nil {
				as, ok := v.Init.(*ast.AssignStmt)
				if !ok || as.Tok != token.DEFINE || len(as.Lhs) != 2 || len(as.Rhs) != 1 || !isIdent(as.Lhs[0], "_") {
					t.fail(s, "if with init statement `%s`", t.str(v.Init))
				}
				e, ok := as.Lhs[1].(*ast.Ident)
				if !ok {
					t.fail(s, "if with init statement `%s`", t.str(v.Init))
				}
				if !t.inSchema || t.own == "" || t.str(as.Rhs[0]) != t.own+".Compatible("+t.path+".Schema)" {
					t.fail(s, "`%s` is not <own schema>.Compatible(%s.Schema) under `%s.Schema != nil`", t.str(as.Rhs[0]), t.path, t.path)
				}
				savedErr, savedKind := t.err, t.errKind
				t.err, t.errKind = t.leanIdent(e, e.Name), "compat"
				out = append(out, fmt.Sprintf("let (_, %s) := compatibleE %s schemaVal", t.err, t.own))
				out = append(out, "if "+t.cond(v.Cond)+" then")
				out = append(out, t.ifBody(v)...)
				t.err, t.errKind = savedErr, savedKind
				if t.err == e.Name {
					t.errKind = "" // shadowed in the Lean text from here on
				}
				continue
			}
			out = append(out, "if "+t.cond(v.Cond)+" then")
			out = append(out, t.ifBody(v)...)
		case *ast.ReturnStmt:
			if !t.isErrReturn(s) {
				t.fail(s, "return that is not `return nil, <non-nil error>`")
			}
			if i != len(list)-1 {
				t.fail(list[i+1], "statement after return")
			}
			out = append(out, "return none")
		case *ast.ExprStmt:
			if t.str(s) == t.writer+".Record.Init()" {
				out = append(out, "-- writer.Record.Init()")
				continue
			}
			t.fail(s, "statement `%s`", t.str(s))
		default:
			t.fail(s, "statement `%s`", t.str(s))
		}
	}
	return out
}

// hsWriter translates New<root>Writer of an already parsed file; returns the Lean text of the
// body and whether state.Init gets the defaulted copy.
func hsWriter(fset *token.FileSet, f *ast.File, rel, root string) (string, bool) {
	fd := hsFindFunc(f, "New"+root+"Writer", false)
	t := &wrTr{hsCtx: hsCtx{fset, rel + " New" + root + "Writer"}, root: root}
	for _, p := range fd.Type.Params.List {
		if t.str(p.Type) == "pkg.WriterOptions" || t.str(p.Type) == "*pkg.WriterOptions" {
			if t.param != "" || len(p.Names) != 1 || t.str(p.Type) != "pkg.WriterOptions" {
				t.fail(p, "the options parameter must be one pkg.WriterOptions passed by value")
			}
			t.param = t.leanIdent(p, p.Names[0].Name)
		}
	}
	rs := fd.Type.Results
	if t.param == "" || rs == nil || len(rs.List) != 2 || t.str(rs.List[1].Type) != "error" || len(rs.List[0].Names)+len(rs.List[1].Names) != 0 {
		t.fail(fd, "signature is not (.., opts pkg.WriterOptions) (*Writer, error)")
	}
	list := fd.Body.List
	if len(list) < 3 {
		t.fail(fd, "body too short")
	}
	// writer := &<Root>Writer{dst: dst, opts: opts}
	as, ok := list[0].(*ast.AssignStmt)
	if !ok || as.Tok != token.DEFINE || len(as.Lhs) != 1 || len(as.Rhs) != 1 {
		t.fail(list[0], "the first statement does not create the writer")
	}
	ue, ok := as.Rhs[0].(*ast.UnaryExpr)
	if !ok || ue.Op != token.AND {
		t.fail(list[0], "the first statement does not create the writer")
	}
	cl, ok := ue.X.(*ast.CompositeLit)
	wid, ok2 := as.Lhs[0].(*ast.Ident)
	if !ok || !ok2 || t.str(cl.Type) != root+"Writer" {
		t.fail(list[0], "the first statement does not create the writer")
	}
	t.writer = wid.Name
	if t.writer == t.param {
		t.fail(list[0], "name clash")
	}
	t.path = t.writer + ".opts"
	copied := false
	for _, el := range cl.Elts {
		kv, ok := el.(*ast.KeyValueExpr)
		if !ok {
			t.fail(el, "positional element in the writer literal")
		}
		switch t.str(kv.Key) {
		case "opts":
			if !isIdent(kv.Value, t.param) {
				t.fail(el, "writer.opts is not initialised with a copy of the parameter")
			}
			copied = true
		case "dst":
		default:
			t.fail(el, "field %s set in the writer literal", t.str(kv.Key))
		}
	}
	if !copied {
		t.fail(list[0], "writer.opts is not initialised with a copy of the parameter")
	}
	// find writer.state.Init(..)
	initIdx := -1
	var initArg string
	for i, s := range list {
		es, ok := s.(*ast.ExprStmt)
		if !ok {
			continue
		}
		ce, ok := es.X.(*ast.CallExpr)
		if !ok || t.str(ce.Fun) != t.writer+".state.Init" {
			continue
		}
		if initIdx >= 0 || len(ce.Args) != 1 {
			t.fail(s, "second / malformed %s.state.Init call", t.writer)
		}
		initIdx, initArg = i, t.str(ce.Args[0])
	}
	if initIdx < 0 {
		t.fail(fd, "no top-level call %s.state.Init(..)", t.writer)
	}
	var fromDefaulted bool
	switch initArg {
	case "&" + t.path:
		fromDefaulted = true
	case "&" + t.param:
		fromDefaulted = false
	default:
		t.fail(list[initIdx], "%s.state.Init(%s): the argument is neither &%s nor &%s", t.writer, initArg, t.path, t.param)
	}
	for _, s := range list[1:initIdx] {
		if hsAssignsOpts(&t.hsCtx, s, t.param) {
			t.fail(s, "the parameter %s is assigned / its address taken before state.Init", t.param)
		}
	}
	lines := t.stmts(list[1:initIdx])
	for _, s := range list[initIdx+1:] {
		if hsAssignsOpts(&t.hsCtx, s, t.path) {
			t.fail(s, "%s is assigned (or its address taken) after state.Init", t.path)
		}
	}
	last, ok := list[len(list)-1].(*ast.ReturnStmt)
	if !ok || len(last.Results) != 2 || !isIdent(last.Results[0], t.writer) || !isIdent(last.Results[1], "nil") {
		t.fail(list[len(list)-1], "the function does not end with `return %s, nil`", t.writer)
	}
	var sb strings.Builder
	fmt.Fprintf(&sb, "def writerOpts (own : List Nat) (%s : WOpts) : Option WOpts := Id.run do\n", t.param)
	fmt.Fprintf(&sb, "  let mut wopts := %s\n", t.param)
	for _, l := range hsIndent(lines) {
		sb.WriteString(l + "\n")
	}
	sb.WriteString("  return some wopts\n")
	return sb.String(), fromDefaulted
}

// hsTemplateFunc cuts func New{{.StructName}}Writer out of the template and parses it with the
// root name `Tmpl`.
func hsTemplateFunc(rel string) (*token.FileSet, *ast.File) {
	b, err := os.ReadFile(filepath.Join(repo, rel))
	if err != nil {
		die("read %s: %v", rel, err)
	}
	src := string(b)
	start := strings.Index(src, "\nfunc New{{.StructName}}Writer(")
	if start < 0 {
		die("%s: func New{{.StructName}}Writer not found", rel)
	}
	rest := src[start+1:]
	stop := strings.Index(rest, "\n}\n")
	if stop < 0 {
		die("%s: end of New{{.StructName}}Writer not found", rel)
	}
	fn := strings.ReplaceAll(rest[:stop+3], "{{.StructName}}", "Tmpl")
	fn = strings.ReplaceAll(fn, "{{ .StructName }}", "Tmpl")
	if strings.Contains(fn, "{{") {
		die("%s: New{{.StructName}}Writer contains template actions other than {{.StructName}}", rel)
	}
	fset := token.NewFileSet()
	f, err := parser.ParseFile(fset, rel, "package tmpl\n"+fn, 0)
	if err != nil {
		die("parse %s (New{{.StructName}}Writer): %v", rel, err)
	}
	return fset, f
}

func hsWriters() (string, bool) {
	type inst struct{ rel, root string }
	var text string
	var fact bool
	for i, in := range []inst{{"go/otel/otelstef/metricswriter.go", "Metrics"}, {"go/otel/otelstef/spanswriter.go", "Spans"},
		{"stefc/templates/go/writer.go.tmpl", "Tmpl"}} {
		var fset *token.FileSet
		var f *ast.File
		if in.root == "Tmpl" {
			fset, f = hsTemplateFunc(in.rel)
		} else {
			fset, f = parseFile(in.rel)
		}
		tx, fc := hsWriter(fset, f, in.rel, in.root)
		if i == 0 {
			text, fact = tx, fc
		} else if tx != text || fc != fact {
			die("%s: New%sWriter translates differently from go/otel/otelstef/metricswriter.go NewMetricsWriter", in.rel, in.root)
		}
	}
	return text, fact
}

// hsStateInit: func (d *WriterState) Init(opts *pkg.WriterOptions) starts with d.limiter.Init(opts).
func hsStateInit() bool {
	const rel = "go/otel/otelstef/writerstate.go"
	fset, f := parseFile(rel)
	fd := hsFindFunc(f, "Init", true)
	c := &hsCtx{fset, rel + " Init"}
	recv := hsRecvName(c, fd, "WriterState")
	ps := fd.Type.Params.List
	if len(ps) != 1 || len(ps[0].Names) != 1 || c.str(ps[0].Type) != "*pkg.WriterOptions" {
		c.fail(fd, "parameters are not (opts *pkg.WriterOptions)")
	}
	if len(fd.Body.List) == 0 {
		return false
	}
	return c.str(fd.Body.List[0]) == fmt.Sprintf("%s.limiter.Init(%s)", recv, ps[0].Names[0].Name)
}

func genHandshake() {
	compat := hsCompatible()
	conn := hsConnect()
	wr, fromDefaulted := hsWriters()
	stateInit := hsStateInit()
	var sb strings.Builder
	sb.WriteString("/- GENERATED by /verif/extract (handshake.go) from go/pkg/schema/wireschema.go, go/grpc/client.go,\n")
	sb.WriteString("   go/otel/otelstef/{metrics,spans}writer.go, stefc/templates/go/writer.go.tmpl and\n")
	sb.WriteString("   go/otel/otelstef/writerstate.go. Do not edit. Vocabulary: Stef/HandshakeSem.lean. -/\n")
	sb.WriteString("import Stef.HandshakeSem\nimport Stef.Gen.Consts\n\n")
	sb.WriteString("namespace Stef.Gen.Hs\nopen Stef.Handshake Stef.HandshakeSem\n\n")
	sb.WriteString(compat + "\n")
	sb.WriteString(conn + "\n")
	sb.WriteString("/-- New<Root>Writer (go/otel/otelstef/metricswriter.go, spanswriter.go and the template agree): the\n")
	sb.WriteString("    statements between the creation of the writer (`wopts` = writer.opts, a copy of the parameter)\n")
	sb.WriteString("    and `writer.state.Init(..)`. `own` = <Root>WireSchema(). `none` = no writer is made. -/\n")
	sb.WriteString(wr + "\n")
	sb.WriteString("/-- New<Root>Writer calls `writer.state.Init(&writer.opts)` (true: the copy with the defaults applied)\n")
	sb.WriteString("    rather than `writer.state.Init(&opts)` (false: the caller's value). -/\n")
	fmt.Fprintf(&sb, "def limiterInitFromDefaultedOpts : Bool := %v\n\n", fromDefaulted)
	sb.WriteString("/-- go/otel/otelstef/writerstate.go: `WriterState.Init(opts)` starts with `d.limiter.Init(opts)`. -/\n")
	fmt.Fprintf(&sb, "def stateInitPassesOptsToLimiter : Bool := %v\n\n", stateInit)
	sb.WriteString("end Stef.Gen.Hs\n")
	writeOut("Handshake.lean", sb.String())
}
