// allocflow.go: generator "AllocFlow". Translates, statement by statement and in source order,
//   - go/pkg/allocsizechecker.go: the struct AllocSizeChecker and ALL of its methods,
//   - go/pkg/membuffer.go: the structs BytesReader / BytesWriter and the methods listed in afTargets
//
// into Lean definitions over the vocabulary of lean/Stef/AllocFlowSem.lean (output: Gen/AllocFlow.lean).
//
// What is translated besides the statements: the KIND of the receiver. Every method becomes a function from
// the caller's receiver to (the caller's receiver after the call, results..). With a pointer receiver that
// is the receiver variable at the `return`; with a value receiver the method works on a copy and the
// function returns its input.
//
// The subset (everything else dies, naming the construct and the line):
//
//	types        uint, uint64, int64, int, byte, []byte, string, bool, error
//	statements   x := e, x = e, recv.f = e, x op= e (+ -), x++ / x--, `var a, b T`, two-value forms
//	             `l1, l2 (:=|=) bits.Add(..) | bits.Mul(..) | binary.Uvarint(..) | recv.M(..)`,
//	             if / else / else if (no init), return [..], recv.M(..) as a statement, panic(..)
//	expressions  integer literals, "", nil, true, false, untyped constants of go/pkg (folded exactly),
//	             math.MaxUint, io.EOF, the Err.. variables of go/pkg/errors.go that are in the vocabulary,
//	             locals, parameters, recv.f, + - * & | ^ << >> (count: constant or unsigned), unary - !,
//	             == != < <= > >=, && || (a bounds test of the right operand is only made when Go evaluates
//	             it), conversions uint/uint64/int64/int/byte/string, len, append(s, b) / append(s, t...),
//	             s[i], s[i:], s[:j], s[i:j], unsafe.String(&s[i], n), binary.AppendUvarint,
//	             calls of already translated methods of the receiver
//
// No type checker: types are inferred from the declarations; an untyped constant takes the type of the
// other operand. A name may be declared once per function (no shadowing), so that an `if` can be translated
// by appending the rest of the function to its branches.
package main

import (
	"fmt"
	"go/ast"
	"go/constant"
	"go/token"
	"math/big"
	"regexp"
	"strings"
)

func init() { register("AllocFlow", genAllocFlow) }

const afAllocFile = "go/pkg/allocsizechecker.go"
const afBufFile = "go/pkg/membuffer.go"

// afTargets: struct -> methods ("*" = every method of the struct found in the file).
var afTargets = []struct {
	file    string
	strct   string
	methods []string
}{
	{afAllocFile, "AllocSizeChecker", []string{"*"}},
	{afBufFile, "BytesReader", []string{"ReadByte", "ReadUvarint", "ReadVarint", "ReadStringBytes", "ReadBytesMapped", "ReadStringMapped"}},
	{afBufFile, "BytesWriter", []string{"WriteByte", "WriteBytes", "WriteStringBytes", "WriteUvarint", "WriteVarint"}},
}

type afType int

const (
	afNone afType = iota
	afUint
	afUint64
	afInt64
	afInt
	afByte
	afBytes
	afString
	afBool
	afErr
	afUntyped
	afOpaque
)

var afGoName = map[afType]string{afNone: "(none)", afUint: "uint", afUint64: "uint64", afInt64: "int64", afInt: "int",
	afByte: "byte", afBytes: "[]byte", afString: "string", afBool: "bool", afErr: "error", afUntyped: "untyped constant",
	afOpaque: "(not in the vocabulary)"}

var afLeanTy = map[afType]string{afUint: "Word", afUint64: "Word", afInt64: "Word", afInt: "Int", afByte: "Byte",
	afBytes: "Bytes", afString: "Bytes", afBool: "Bool", afErr: "GoErr"}

func (t afType) word() bool     { return t == afUint || t == afUint64 || t == afInt64 }
func (t afType) unsigned() bool { return t == afUint || t == afUint64 || t == afByte }
func (t afType) seq() bool      { return t == afBytes || t == afString }

var afTwo64 = new(big.Int).Lsh(big.NewInt(1), 64)
var afTwo63 = new(big.Int).Lsh(big.NewInt(1), 63)

func afIsIdent(e ast.Expr, name string) bool {
	id, ok := e.(*ast.Ident)
	return ok && id.Name == name
}

type afVal struct {
	lean string
	ty   afType
	c    *big.Int // value of an untyped constant
}

type afField struct {
	name string
	ty   afType
	src  string
}

type afStruct struct {
	name   string
	fields []afField
}

func (s *afStruct) field(name string) (afField, bool) {
	for _, f := range s.fields {
		if f.name == name {
			return f, true
		}
	}
	return afField{}, false
}

type afParam struct {
	name string
	ty   afType
}

type afMethod struct {
	strct    *afStruct
	goName   string
	leanName string
	recv     string
	ptr      bool
	params   []afParam
	results  []afParam // name "" when unnamed
	partial  bool      // may panic: returns Option
	decl     *ast.FuncDecl
}

type afGen struct {
	fset    *token.FileSet
	file    *ast.File
	rel     string
	imports map[string]string // local name -> path
	consts  map[string]*big.Int
	errVars map[string]string // Go name -> GoErr constructor
	methods map[string]*afMethod
}

func (g *afGen) fail(n ast.Node, f string, a ...any) {
	pos := g.rel + ": "
	if n != nil {
		pos = fmt.Sprintf("%s:%d: ", g.rel, g.fset.Position(n.Pos()).Line)
	}
	die("%s%s", pos, fmt.Sprintf(f, a...))
}

var afIdentRe = regexp.MustCompile(`^[A-Za-z][A-Za-z0-9]*$`)
var afTmpRe = regexp.MustCompile(`^(c|t)[0-9]+$`)
var afReserved = map[string]bool{}

func init() {
	for _, w := range strings.Fields(`at by do end from fun have show then else if let match with where open in namespace
		section def theorem instance structure class inductive deriving mutual universe variable import export private
		protected partial unsafe macro syntax notation infix prefix postfix return for unless try catch finally mut break
		continue using calc exists forall Type Prop Sort true false some none decide Int Nat Word Byte Bytes Bool GoErr
		Option nil panic len cap append int uint uint64 int64 byte string bool error math bits binary io pkg
		bitsAdd bitsMul wrapI iadd isub lenI indexOK index sliceFromOK sliceFrom sliceToOK sliceTo sliceOK slice
		unsafeStringOK unsafeString uvarintLoop binaryUvarint binaryAppendUvarint`) {
		afReserved[w] = true
	}
}

func (g *afGen) checkName(n ast.Node, name string) {
	if !afIdentRe.MatchString(name) || afReserved[name] || afTmpRe.MatchString(name) {
		g.fail(n, "identifier %q cannot be used as a Lean name by this generator", name)
	}
}

func afTypeString(e ast.Expr) string {
	switch v := e.(type) {
	case *ast.Ident:
		return v.Name
	case *ast.SelectorExpr:
		return afTypeString(v.X) + "." + v.Sel.Name
	case *ast.StarExpr:
		return "*" + afTypeString(v.X)
	case *ast.ArrayType:
		if v.Len == nil {
			return "[]" + afTypeString(v.Elt)
		}
	}
	return fmt.Sprintf("<%T>", e)
}

func afTypeOf(e ast.Expr) afType {
	switch afTypeString(e) {
	case "uint":
		return afUint
	case "uint64":
		return afUint64
	case "int64":
		return afInt64
	case "int":
		return afInt
	case "byte", "uint8":
		return afByte
	case "[]byte", "[]uint8":
		return afBytes
	case "string":
		return afString
	case "bool":
		return afBool
	case "error":
		return afErr
	}
	return afOpaque
}

func (g *afGen) needImport(n ast.Node, local, path string) {
	if g.imports[local] != path {
		g.fail(n, "`%s.` is used but the file does not import %q under that name", local, path)
	}
}

func (g *afGen) structDecl(name string) *afStruct {
	for _, d := range g.file.Decls {
		gd, ok := d.(*ast.GenDecl)
		if !ok || gd.Tok != token.TYPE {
			continue
		}
		for _, s := range gd.Specs {
			ts := s.(*ast.TypeSpec)
			if ts.Name.Name != name {
				continue
			}
			st, ok := ts.Type.(*ast.StructType)
			if !ok || ts.TypeParams != nil || ts.Assign.IsValid() {
				g.fail(ts, "type %s is not a plain struct", name)
			}
			out := &afStruct{name: name}
			for _, f := range st.Fields.List {
				if len(f.Names) == 0 {
					g.fail(f, "embedded field in %s", name)
				}
				for _, n := range f.Names {
					ty := afTypeOf(f.Type)
					if ty == afOpaque {
						g.fail(f, "field %s.%s has type %s, which is not in the vocabulary", name, n.Name, afTypeString(f.Type))
					}
					g.checkName(n, n.Name)
					out.fields = append(out.fields, afField{n.Name, ty, afTypeString(f.Type)})
				}
			}
			if len(out.fields) == 0 {
				g.fail(ts, "struct %s has no fields", name)
			}
			return out
		}
	}
	die("%s: type %s not found", g.rel, name)
	return nil
}

// methodsOf: the methods of the struct in source order (value and pointer receivers).
func (g *afGen) methodsOf(st *afStruct, wanted []string) []*afMethod {
	all := len(wanted) == 1 && wanted[0] == "*"
	want := map[string]bool{}
	for _, w := range wanted {
		want[w] = true
	}
	var out []*afMethod
	seen := map[string]bool{}
	for _, d := range g.file.Decls {
		fd, ok := d.(*ast.FuncDecl)
		if !ok || fd.Recv == nil || len(fd.Recv.List) != 1 {
			continue
		}
		rt := afTypeString(fd.Recv.List[0].Type)
		if rt != st.name && rt != "*"+st.name {
			continue
		}
		if !all && !want[fd.Name.Name] {
			continue
		}
		if seen[fd.Name.Name] {
			g.fail(fd, "two methods %s.%s", st.name, fd.Name.Name)
		}
		seen[fd.Name.Name] = true
		if fd.Body == nil || fd.Type.TypeParams != nil {
			g.fail(fd, "method %s.%s has no plain body", st.name, fd.Name.Name)
		}
		if len(fd.Recv.List[0].Names) != 1 || fd.Recv.List[0].Names[0].Name == "_" {
			g.fail(fd, "method %s.%s: the receiver has no name", st.name, fd.Name.Name)
		}
		m := &afMethod{strct: st, goName: fd.Name.Name, recv: fd.Recv.List[0].Names[0].Name, ptr: rt[0] == '*', decl: fd}
		g.checkName(fd, m.recv)
		m.leanName = st.name + "." + strings.ToLower(m.goName[:1]) + m.goName[1:]
		g.checkName(fd, m.goName)
		for _, p := range fd.Type.Params.List {
			ty := afTypeOf(p.Type)
			if ty == afOpaque || ty == afErr {
				g.fail(p, "%s: parameter of type %s is not in the vocabulary", m.goName, afTypeString(p.Type))
			}
			if len(p.Names) == 0 {
				g.fail(p, "%s: unnamed parameter", m.goName)
			}
			for _, n := range p.Names {
				g.checkName(n, n.Name)
				m.params = append(m.params, afParam{n.Name, ty})
			}
		}
		if fd.Type.Results != nil {
			for _, p := range fd.Type.Results.List {
				ty := afTypeOf(p.Type)
				if ty == afOpaque {
					g.fail(p, "%s: result of type %s is not in the vocabulary", m.goName, afTypeString(p.Type))
				}
				if len(p.Names) == 0 {
					m.results = append(m.results, afParam{"", ty})
				}
				for _, n := range p.Names {
					if n.Name == "_" {
						g.fail(p, "%s: blank result name", m.goName)
					}
					g.checkName(n, n.Name)
					m.results = append(m.results, afParam{n.Name, ty})
				}
			}
		}
		out = append(out, m)
	}
	if !all {
		for _, w := range wanted {
			if !seen[w] {
				die("%s: method %s.%s not found", g.rel, st.name, w)
			}
		}
	}
	if len(out) == 0 {
		die("%s: no methods of %s found", g.rel, st.name)
	}
	return out
}

// mayPanic: the body contains an index / slice expression, panic(..), unsafe.String or a call of a
// method of the receiver that may panic.
func (g *afGen) mayPanic(m *afMethod) bool {
	p := false
	ast.Inspect(m.decl.Body, func(n ast.Node) bool {
		switch v := n.(type) {
		case *ast.IndexExpr, *ast.SliceExpr:
			p = true
		case *ast.CallExpr:
			if afIsIdent(v.Fun, "panic") {
				p = true
			}
			if s, ok := v.Fun.(*ast.SelectorExpr); ok && afIsIdent(s.X, m.recv) {
				if c := g.methods[m.strct.name+"."+s.Sel.Name]; c != nil && c.partial {
					p = true
				}
			}
		}
		return true
	})
	return p
}

// ---- one function ----

type afPre struct {
	guard bool
	cond  string // guard: the Bool that must hold
	line  string // otherwise: a complete line (hoisted call)
}

type afItem struct {
	s   ast.Stmt
	blk *ast.BlockStmt
}

type afFn struct {
	g     *afGen
	m     *afMethod
	vars  map[string]afType
	where map[string]*ast.BlockStmt
	tmp   int
	pre   []afPre
}

func (t *afFn) fresh(p string) string {
	t.tmp++
	return fmt.Sprintf("%s%d", p, t.tmp)
}

func afLit(c *big.Int, ty afType) (string, bool) {
	switch ty {
	case afInt:
		if c.Cmp(afTwo63) >= 0 || c.Cmp(new(big.Int).Neg(afTwo63)) < 0 {
			return "", false
		}
		return fmt.Sprintf("(%s : Int)", c.String()), true
	case afUint, afUint64:
		if c.Sign() < 0 || c.Cmp(afTwo64) >= 0 {
			return "", false
		}
		return c.String() + "#64", true
	case afInt64:
		if c.Cmp(afTwo63) >= 0 || c.Cmp(new(big.Int).Neg(afTwo63)) < 0 {
			return "", false
		}
		if c.Sign() < 0 {
			return new(big.Int).Add(c, afTwo64).String() + "#64", true // two's complement pattern
		}
		return c.String() + "#64", true
	case afByte:
		if c.Sign() < 0 || c.Cmp(big.NewInt(256)) >= 0 {
			return "", false
		}
		return c.String() + "#8", true
	}
	return "", false
}

// as: the value converted to the type ty of its context (only untyped constants convert implicitly;
// uint / uint64 / int64 never mix).
func (t *afFn) as(n ast.Node, v afVal, ty afType) string {
	if v.ty == afUntyped {
		s, ok := afLit(v.c, ty)
		if !ok {
			t.g.fail(n, "constant %s does not fit type %s", v.c.String(), afGoName[ty])
		}
		return s
	}
	if v.ty != ty {
		t.g.fail(n, "operand of type %s where %s is expected", afGoName[v.ty], afGoName[ty])
	}
	return v.lean
}

func (t *afFn) guard(cond string) {
	if !t.m.partial {
		panic("internal: guard in a function that was not found to be partial")
	}
	t.pre = append(t.pre, afPre{guard: true, cond: cond})
}

// call of a translated method of the receiver: hoisted in front of the statement. Returns the results.
func (t *afFn) methodCall(c *ast.CallExpr) []afVal {
	s := c.Fun.(*ast.SelectorExpr)
	callee := t.g.methods[t.m.strct.name+"."+s.Sel.Name]
	if callee == nil {
		t.g.fail(c, "call of %s.%s, which is not (yet) translated: a method can only call methods declared before it that are in the subset",
			t.m.recv, s.Sel.Name)
	}
	if callee.partial && !t.m.partial {
		panic("internal: partial callee in total function")
	}
	if c.Ellipsis.IsValid() || len(c.Args) != len(callee.params) {
		t.g.fail(c, "call of %s with %d arguments", callee.goName, len(c.Args))
	}
	args := ""
	for i, a := range c.Args {
		args += " " + t.as(a, t.expr(a, callee.params[i].ty), callee.params[i].ty)
	}
	tmp := t.fresh("c")
	if callee.partial {
		t.pre = append(t.pre, afPre{line: fmt.Sprintf("(%s %s%s).bind fun %s =>", callee.leanName, t.m.recv, args, tmp)})
	} else {
		t.pre = append(t.pre, afPre{line: fmt.Sprintf("let %s := %s %s%s", tmp, callee.leanName, t.m.recv, args)})
	}
	var out []afVal
	switch len(callee.results) {
	case 0:
		t.pre = append(t.pre, afPre{line: fmt.Sprintf("let %s := %s", t.m.recv, tmp)})
	case 1:
		t.pre = append(t.pre, afPre{line: fmt.Sprintf("let %s := %s.1", t.m.recv, tmp)})
		out = []afVal{{lean: tmp + ".2", ty: callee.results[0].ty}}
	case 2:
		t.pre = append(t.pre, afPre{line: fmt.Sprintf("let %s := %s.1", t.m.recv, tmp)})
		out = []afVal{{lean: tmp + ".2.1", ty: callee.results[0].ty}, {lean: tmp + ".2.2", ty: callee.results[1].ty}}
	default:
		t.g.fail(c, "method %s has more than two results", callee.goName)
	}
	return out
}

func (t *afFn) isRecvCall(c *ast.CallExpr) bool {
	s, ok := c.Fun.(*ast.SelectorExpr)
	return ok && afIsIdent(s.X, t.m.recv)
}

func (t *afFn) seqArg(a ast.Expr) afVal {
	v := t.expr(a, afBytes)
	if !v.ty.seq() {
		t.g.fail(a, "operand of type %s where a []byte / string is expected", afGoName[v.ty])
	}
	return v
}

func (t *afFn) intArg(a ast.Expr) string { return t.as(a, t.expr(a, afInt), afInt) }

// expr: want is the type the context gives to `nil` and "" (afNone: none).
func (t *afFn) expr(x ast.Expr, want afType) afVal {
	g := t.g
	switch v := x.(type) {
	case *ast.ParenExpr:
		return t.expr(v.X, want)
	case *ast.BasicLit:
		switch v.Kind {
		case token.INT:
			c, ok := new(big.Int).SetString(v.Value, 0)
			if !ok {
				g.fail(v, "integer literal %s", v.Value)
			}
			return afVal{ty: afUntyped, c: c}
		case token.STRING:
			if v.Value == `""` {
				return afVal{lean: "([] : Bytes)", ty: afString}
			}
		}
		g.fail(v, "literal %s is outside the subset", v.Value)
	case *ast.Ident:
		switch v.Name {
		case "true", "false":
			return afVal{lean: v.Name, ty: afBool}
		case "nil":
			switch want {
			case afErr:
				return afVal{lean: "GoErr.nil", ty: afErr}
			case afBytes:
				return afVal{lean: "([] : Bytes)", ty: afBytes}
			}
			g.fail(v, "nil where the expected type is %s", afGoName[want])
		}
		if ty, ok := t.vars[v.Name]; ok {
			return afVal{lean: v.Name, ty: ty}
		}
		if v.Name == t.m.recv {
			g.fail(v, "the receiver %s is used as a value", v.Name)
		}
		if c, ok := g.consts[v.Name]; ok {
			return afVal{ty: afUntyped, c: c}
		}
		if e, ok := g.errVars[v.Name]; ok {
			return afVal{lean: "GoErr." + e, ty: afErr}
		}
		g.fail(v, "identifier %s is not a local, a parameter, an untyped integer constant of go/pkg or an error of the vocabulary", v.Name)
	case *ast.SelectorExpr:
		if afIsIdent(v.X, t.m.recv) {
			f, ok := t.m.strct.field(v.Sel.Name)
			if !ok {
				g.fail(v, "%s.%s is not a field of %s", t.m.recv, v.Sel.Name, t.m.strct.name)
			}
			return afVal{lean: t.m.recv + "." + f.name, ty: f.ty}
		}
		if afIsIdent(v.X, "math") && v.Sel.Name == "MaxUint" {
			g.needImport(v, "math", "math")
			return afVal{ty: afUntyped, c: new(big.Int).Sub(afTwo64, big.NewInt(1))}
		}
		if afIsIdent(v.X, "io") && v.Sel.Name == "EOF" {
			g.needImport(v, "io", "io")
			return afVal{lean: "GoErr.ioEOF", ty: afErr}
		}
		g.fail(v, "selector %s is outside the subset", afTypeString(v))
	case *ast.UnaryExpr:
		switch v.Op {
		case token.NOT:
			a := t.expr(v.X, afNone)
			return afVal{lean: "(!" + t.as(v.X, a, afBool) + ")", ty: afBool}
		case token.SUB:
			a := t.expr(v.X, want)
			switch {
			case a.ty == afUntyped:
				return afVal{ty: afUntyped, c: new(big.Int).Neg(a.c)}
			case a.ty.word():
				return afVal{lean: "(0#64 - " + a.lean + ")", ty: a.ty}
			case a.ty == afInt:
				return afVal{lean: "(isub (0 : Int) " + a.lean + ")", ty: afInt}
			}
			g.fail(v, "unary - on %s", afGoName[a.ty])
		}
		g.fail(v, "unary operator %s is outside the subset", v.Op)
	case *ast.BinaryExpr:
		return t.binary(v, want)
	case *ast.IndexExpr:
		s := t.seqArg(v.X)
		i := t.intArg(v.Index)
		t.guard(fmt.Sprintf("indexOK %s %s", s.lean, i))
		return afVal{lean: fmt.Sprintf("(index %s %s)", s.lean, i), ty: afByte}
	case *ast.SliceExpr:
		if v.Slice3 {
			g.fail(v, "three-index slice")
		}
		s := t.seqArg(v.X)
		switch {
		case v.Low != nil && v.High == nil:
			i := t.intArg(v.Low)
			t.guard(fmt.Sprintf("sliceFromOK %s %s", s.lean, i))
			return afVal{lean: fmt.Sprintf("(sliceFrom %s %s)", s.lean, i), ty: s.ty}
		case v.Low == nil && v.High != nil:
			j := t.intArg(v.High)
			t.guard(fmt.Sprintf("sliceToOK %s %s", s.lean, j))
			return afVal{lean: fmt.Sprintf("(sliceTo %s %s)", s.lean, j), ty: s.ty}
		case v.Low != nil && v.High != nil:
			i := t.intArg(v.Low)
			j := t.intArg(v.High)
			t.guard(fmt.Sprintf("sliceOK %s %s %s", s.lean, i, j))
			return afVal{lean: fmt.Sprintf("(slice %s %s %s)", s.lean, i, j), ty: s.ty}
		}
		g.fail(v, "slice expression s[:]")
	case *ast.CallExpr:
		return t.call(v, want)
	}
	g.fail(x, "expression form %T is outside the subset", x)
	return afVal{}
}

func (t *afFn) call(v *ast.CallExpr, want afType) afVal {
	g := t.g
	if t.isRecvCall(v) {
		r := t.methodCall(v)
		if len(r) != 1 {
			g.fail(v, "call of a method with %d results used as a value", len(r))
		}
		return r[0]
	}
	if id, ok := v.Fun.(*ast.Ident); ok {
		switch id.Name {
		case "uint", "uint64", "int64", "int", "byte", "string":
			if len(v.Args) != 1 || v.Ellipsis.IsValid() {
				g.fail(v, "conversion with %d arguments", len(v.Args))
			}
			to := afTypeOf(id)
			a := t.expr(v.Args[0], to)
			switch {
			case a.ty == afUntyped:
				return afVal{lean: t.as(v, a, to), ty: to}
			case to.word() && a.ty.word():
				return afVal{lean: a.lean, ty: to} // same 64-bit pattern
			case to.word() && a.ty == afInt:
				return afVal{lean: "(BitVec.ofInt 64 " + a.lean + ")", ty: to}
			case to.word() && a.ty == afByte:
				return afVal{lean: "(BitVec.setWidth 64 " + a.lean + ")", ty: to}
			case to == afInt && a.ty.word():
				return afVal{lean: "(BitVec.toInt " + a.lean + ")", ty: afInt}
			case to == afInt && a.ty == afInt:
				return afVal{lean: a.lean, ty: afInt}
			case to == afByte && a.ty.word():
				return afVal{lean: "(BitVec.setWidth 8 " + a.lean + ")", ty: afByte}
			case to == afByte && a.ty == afByte:
				return a
			case to == afString && a.ty.seq():
				return afVal{lean: a.lean, ty: afString} // a copy: the same value
			}
			g.fail(v, "conversion %s(%s) is outside the subset", id.Name, afGoName[a.ty])
		case "len":
			if len(v.Args) != 1 {
				g.fail(v, "len with %d arguments", len(v.Args))
			}
			s := t.seqArg(v.Args[0])
			return afVal{lean: "(lenI " + s.lean + ")", ty: afInt}
		case "append":
			if len(v.Args) != 2 {
				g.fail(v, "append with %d arguments", len(v.Args))
			}
			s := t.expr(v.Args[0], afBytes)
			if s.ty != afBytes {
				g.fail(v, "append to a %s", afGoName[s.ty])
			}
			if v.Ellipsis.IsValid() {
				e := t.seqArg(v.Args[1])
				return afVal{lean: fmt.Sprintf("(%s ++ %s)", s.lean, e.lean), ty: afBytes}
			}
			b := t.as(v.Args[1], t.expr(v.Args[1], afByte), afByte)
			return afVal{lean: fmt.Sprintf("(%s ++ [%s])", s.lean, b), ty: afBytes}
		}
		g.fail(v, "call of %s is outside the subset", id.Name)
	}
	if s, ok := v.Fun.(*ast.SelectorExpr); ok {
		switch afTypeString(s) {
		case "unsafe.String":
			g.needImport(v, "unsafe", "unsafe")
			if len(v.Args) != 2 {
				g.fail(v, "unsafe.String with %d arguments", len(v.Args))
			}
			u, ok := v.Args[0].(*ast.UnaryExpr)
			if !ok || u.Op != token.AND {
				g.fail(v, "unsafe.String whose first argument is not &s[i]")
			}
			ix, ok := u.X.(*ast.IndexExpr)
			if !ok {
				g.fail(v, "unsafe.String whose first argument is not &s[i]")
			}
			sq := t.seqArg(ix.X)
			i := t.intArg(ix.Index)
			n := t.intArg(v.Args[1])
			t.guard(fmt.Sprintf("unsafeStringOK %s %s %s", sq.lean, i, n))
			return afVal{lean: fmt.Sprintf("(unsafeString %s %s %s)", sq.lean, i, n), ty: afString}
		case "binary.AppendUvarint":
			g.needImport(v, "binary", "encoding/binary")
			if len(v.Args) != 2 || v.Ellipsis.IsValid() {
				g.fail(v, "binary.AppendUvarint with %d arguments", len(v.Args))
			}
			b := t.expr(v.Args[0], afBytes)
			if b.ty != afBytes {
				g.fail(v, "binary.AppendUvarint to a %s", afGoName[b.ty])
			}
			x := t.as(v.Args[1], t.expr(v.Args[1], afUint64), afUint64)
			return afVal{lean: fmt.Sprintf("(binaryAppendUvarint %s %s)", b.lean, x), ty: afBytes}
		case "bits.Add", "bits.Mul", "binary.Uvarint":
			g.fail(v, "%s has two results: it must be the whole right side of a two-value assignment", afTypeString(s))
		}
		g.fail(v, "call of %s is outside the subset", afTypeString(s))
	}
	g.fail(v, "call form %T is outside the subset", v.Fun)
	return afVal{}
}

func afFold(op token.Token, a, b *big.Int) *big.Int {
	switch op {
	case token.ADD:
		return new(big.Int).Add(a, b)
	case token.SUB:
		return new(big.Int).Sub(a, b)
	case token.MUL:
		return new(big.Int).Mul(a, b)
	case token.SHL:
		if b.Sign() >= 0 && b.Cmp(big.NewInt(200)) < 0 {
			return new(big.Int).Lsh(a, uint(b.Int64()))
		}
	case token.SHR:
		if b.Sign() >= 0 && b.Cmp(big.NewInt(200)) < 0 {
			return new(big.Int).Rsh(a, uint(b.Int64()))
		}
	}
	return nil
}

func (t *afFn) binary(v *ast.BinaryExpr, want afType) afVal {
	g := t.g
	switch v.Op {
	case token.LAND, token.LOR:
		a := t.as(v.X, t.expr(v.X, afNone), afBool)
		mark := len(t.pre)
		b := t.as(v.Y, t.expr(v.Y, afNone), afBool)
		// what the right operand needs is only needed when Go evaluates it
		for i := mark; i < len(t.pre); i++ {
			if !t.pre[i].guard {
				g.fail(v.Y, "a method call in the right operand of %s", v.Op)
			}
			if v.Op == token.LOR {
				t.pre[i].cond = fmt.Sprintf("(%s || %s)", a, t.pre[i].cond)
			} else {
				t.pre[i].cond = fmt.Sprintf("(!%s || %s)", a, t.pre[i].cond)
			}
		}
		op := "&&"
		if v.Op == token.LOR {
			op = "||"
		}
		return afVal{lean: fmt.Sprintf("(%s %s %s)", a, op, b), ty: afBool}
	case token.SHL, token.SHR:
		a := t.expr(v.X, want)
		c := t.expr(v.Y, afNone)
		if a.ty == afUntyped {
			if c.ty == afUntyped {
				if r := afFold(v.Op, a.c, c.c); r != nil {
					return afVal{ty: afUntyped, c: r}
				}
			}
			g.fail(v, "shift of an untyped constant")
		}
		if !a.ty.word() {
			g.fail(v, "shift of a %s", afGoName[a.ty])
		}
		var cnt string
		switch {
		case c.ty == afUntyped:
			if c.c.Sign() < 0 || c.c.Cmp(big.NewInt(1<<20)) > 0 {
				g.fail(v, "shift count %s", c.c.String())
			}
			cnt = c.c.String()
		case c.ty == afUint || c.ty == afUint64:
			cnt = "(BitVec.toNat " + c.lean + ")"
		default:
			g.fail(v, "shift count of type %s (only constants and unsigned counts are in the subset)", afGoName[c.ty])
		}
		switch {
		case v.Op == token.SHL:
			return afVal{lean: fmt.Sprintf("(%s <<< %s)", a.lean, cnt), ty: a.ty}
		case a.ty == afInt64:
			return afVal{lean: fmt.Sprintf("(BitVec.sshiftRight %s %s)", a.lean, cnt), ty: a.ty}
		}
		return afVal{lean: fmt.Sprintf("(%s >>> %s)", a.lean, cnt), ty: a.ty}
	}
	a := t.expr(v.X, afNone)
	b := t.expr(v.Y, a.ty)
	if a.ty == afUntyped && b.ty == afUntyped {
		switch v.Op {
		case token.ADD, token.SUB, token.MUL:
			return afVal{ty: afUntyped, c: afFold(v.Op, a.c, b.c)}
		}
		g.fail(v, "operator %s on two constants", v.Op)
	}
	ty := a.ty
	if ty == afUntyped {
		ty = b.ty
	}
	al, bl := t.as(v.X, a, ty), t.as(v.Y, b, ty)
	switch v.Op {
	case token.ADD, token.SUB, token.MUL, token.AND, token.OR, token.XOR:
		switch {
		case ty.word() || ty == afByte:
			op := map[token.Token]string{token.ADD: "+", token.SUB: "-", token.MUL: "*", token.AND: "&&&", token.OR: "|||", token.XOR: "^^^"}[v.Op]
			return afVal{lean: fmt.Sprintf("(%s %s %s)", al, op, bl), ty: ty}
		case ty == afInt && v.Op == token.ADD:
			return afVal{lean: fmt.Sprintf("(iadd %s %s)", al, bl), ty: afInt}
		case ty == afInt && v.Op == token.SUB:
			return afVal{lean: fmt.Sprintf("(isub %s %s)", al, bl), ty: afInt}
		}
		g.fail(v, "operator %s at type %s is outside the subset", v.Op, afGoName[ty])
	case token.EQL, token.NEQ:
		rel := "="
		if v.Op == token.NEQ {
			rel = "≠"
		}
		switch {
		case ty.word(), ty == afByte, ty == afInt, ty == afErr, ty == afBool:
			return afVal{lean: fmt.Sprintf("decide (%s %s %s)", al, rel, bl), ty: afBool}
		}
		g.fail(v, "%s at type %s is outside the subset", v.Op, afGoName[ty])
	case token.LSS, token.LEQ, token.GTR, token.GEQ:
		rel := map[token.Token]string{token.LSS: "<", token.LEQ: "≤", token.GTR: ">", token.GEQ: "≥"}[v.Op]
		switch {
		case ty.unsigned(), ty == afInt:
			return afVal{lean: fmt.Sprintf("decide (%s %s %s)", al, rel, bl), ty: afBool}
		case ty == afInt64:
			switch v.Op {
			case token.LSS:
				return afVal{lean: fmt.Sprintf("(BitVec.slt %s %s)", al, bl), ty: afBool}
			case token.LEQ:
				return afVal{lean: fmt.Sprintf("(BitVec.sle %s %s)", al, bl), ty: afBool}
			case token.GTR:
				return afVal{lean: fmt.Sprintf("(BitVec.slt %s %s)", bl, al), ty: afBool}
			default:
				return afVal{lean: fmt.Sprintf("(BitVec.sle %s %s)", bl, al), ty: afBool}
			}
		}
		g.fail(v, "%s at type %s is outside the subset", v.Op, afGoName[ty])
	}
	g.fail(v, "operator %s is outside the subset", v.Op)
	return afVal{}
}

// ---- statements ----

type afOut struct {
	lines []string
}

func (o *afOut) add(ind, s string) { o.lines = append(o.lines, ind+s) }

func (t *afFn) flush(o *afOut, ind string) {
	for _, p := range t.pre {
		if p.guard {
			o.add(ind, fmt.Sprintf("if !(%s) then none else  -- Go: run-time panic", p.cond))
		} else {
			o.add(ind, p.line)
		}
	}
	t.pre = nil
}

func (t *afFn) declare(n ast.Node, name string, ty afType, blk *ast.BlockStmt) {
	t.g.checkName(n, name)
	if name == t.m.recv || name == t.m.recv+"Caller" {
		t.g.fail(n, "declaration of %s shadows the receiver", name)
	}
	if _, ok := t.vars[name]; ok {
		t.g.fail(n, "%s is declared twice in %s (shadowing is outside the subset)", name, t.m.goName)
	}
	if _, ok := t.g.consts[name]; ok {
		t.g.fail(n, "local %s shadows a constant", name)
	}
	if ty == afOpaque || ty == afNone || ty == afUntyped {
		t.g.fail(n, "cannot give %s a type of the vocabulary", name)
	}
	t.vars[name] = ty
	t.where[name] = blk
}

// assign: one assignment to a local or to a field of the receiver.
func (t *afFn) assign(o *afOut, ind string, lhs ast.Expr, define bool, blk *ast.BlockStmt, val func(want afType) afVal) {
	g := t.g
	switch l := lhs.(type) {
	case *ast.Ident:
		if l.Name == "_" {
			g.fail(l, "assignment to _")
		}
		ty, known := t.vars[l.Name]
		if define && known && t.where[l.Name] != blk {
			g.fail(l, "%s := shadows a variable of an enclosing block", l.Name)
		}
		if !known {
			if !define {
				g.fail(l, "assignment to %s, which is not a local / parameter / named result", l.Name)
			}
			v := val(afNone)
			if v.ty == afUntyped {
				v = afVal{lean: t.as(l, v, afInt), ty: afInt} // x := c is an int
			}
			t.flush(o, ind)
			t.declare(l, l.Name, v.ty, blk)
			o.add(ind, fmt.Sprintf("let %s : %s := %s", l.Name, afLeanTy[v.ty], v.lean))
			return
		}
		v := val(ty)
		s := t.as(l, v, ty)
		t.flush(o, ind)
		o.add(ind, fmt.Sprintf("let %s : %s := %s", l.Name, afLeanTy[ty], s))
	case *ast.SelectorExpr:
		if define || !afIsIdent(l.X, t.m.recv) {
			g.fail(l, "assignment to %s is outside the subset", afTypeString(l))
		}
		f, ok := t.m.strct.field(l.Sel.Name)
		if !ok {
			g.fail(l, "%s.%s is not a field of %s", t.m.recv, l.Sel.Name, t.m.strct.name)
		}
		v := val(f.ty)
		s := t.as(l, v, f.ty)
		t.flush(o, ind)
		o.add(ind, fmt.Sprintf("let %s := { %s with %s := %s }", t.m.recv, t.m.recv, f.name, s))
	default:
		g.fail(lhs, "assignment to %T is outside the subset", lhs)
	}
}

func (t *afFn) ret(o *afOut, ind string, vals []string) {
	r := t.m.recv
	if !t.m.ptr {
		r = t.m.recv + "Caller"
	}
	s := r
	if len(vals) > 0 {
		s = "(" + r + ", " + strings.Join(vals, ", ") + ")"
	}
	if t.m.partial {
		s = "some " + s
	}
	note := "  -- pointer receiver: the caller sees the receiver"
	if !t.m.ptr {
		note = "  -- VALUE receiver: the method worked on a copy, the caller's receiver is unchanged"
	}
	o.add(ind, s+note)
}

func afTerminates(list []ast.Stmt) bool {
	if len(list) == 0 {
		return false
	}
	switch s := list[len(list)-1].(type) {
	case *ast.ReturnStmt:
		return true
	case *ast.ExprStmt:
		if c, ok := s.X.(*ast.CallExpr); ok && afIsIdent(c.Fun, "panic") {
			return true
		}
	case *ast.IfStmt:
		if s.Else == nil {
			return false
		}
		var el []ast.Stmt
		switch e := s.Else.(type) {
		case *ast.BlockStmt:
			el = e.List
		case *ast.IfStmt:
			el = []ast.Stmt{e}
		}
		return afTerminates(s.Body.List) && afTerminates(el)
	}
	return false
}

func afItems(b *ast.BlockStmt) []afItem {
	var out []afItem
	for _, s := range b.List {
		out = append(out, afItem{s, b})
	}
	return out
}

func (t *afFn) stmts(o *afOut, ind string, items []afItem) {
	g := t.g
	if len(items) == 0 {
		// end of the function body without a return
		if len(t.m.results) > 0 {
			g.fail(t.m.decl, "%s: a path reaches the end of the body without a return", t.m.goName)
		}
		t.ret(o, ind, nil)
		return
	}
	it, rest := items[0], items[1:]
	switch s := it.s.(type) {
	case *ast.DeclStmt:
		gd, ok := s.Decl.(*ast.GenDecl)
		if !ok || gd.Tok != token.VAR {
			g.fail(s, "declaration statement other than var")
		}
		for _, sp := range gd.Specs {
			vs := sp.(*ast.ValueSpec)
			if vs.Type == nil || len(vs.Values) != 0 {
				g.fail(vs, "var declaration with a value or without a type")
			}
			ty := afTypeOf(vs.Type)
			for _, n := range vs.Names {
				t.declare(n, n.Name, ty, it.blk)
				o.add(ind, fmt.Sprintf("let %s : %s := %s  -- var %s %s", n.Name, afLeanTy[ty], t.zero(n, ty), n.Name, afGoName[ty]))
			}
		}
	case *ast.AssignStmt:
		t.assignStmt(o, ind, s, it.blk)
	case *ast.IncDecStmt:
		one := afVal{ty: afUntyped, c: big.NewInt(1)}
		op := token.ADD
		if s.Tok == token.DEC {
			op = token.SUB
		}
		t.opAssign(o, ind, s, s.X, op, func(afType) afVal { return one }, it.blk)
	case *ast.ExprStmt:
		c, ok := s.X.(*ast.CallExpr)
		if !ok {
			g.fail(s, "expression statement %T", s.X)
		}
		if afIsIdent(c.Fun, "panic") {
			o.add(ind, "none  -- Go: panic")
			if len(rest) > 0 {
				g.fail(rest[0].s, "statement after panic")
			}
			return
		}
		if !t.isRecvCall(c) {
			g.fail(s, "call statement that is not a method of the receiver")
		}
		if r := t.methodCall(c); len(r) != 0 {
			g.fail(s, "results of %s are dropped", afTypeString(c.Fun))
		}
		t.flush(o, ind)
	case *ast.ReturnStmt:
		var vals []string
		switch {
		case len(s.Results) == 0 && len(t.m.results) > 0:
			for _, r := range t.m.results {
				if r.name == "" {
					g.fail(s, "bare return with unnamed results")
				}
				vals = append(vals, r.name)
			}
		case len(s.Results) != len(t.m.results):
			g.fail(s, "return of %d values in a function with %d results", len(s.Results), len(t.m.results))
		default:
			for i, e := range s.Results {
				want := t.m.results[i].ty
				vals = append(vals, t.as(e, t.expr(e, want), want))
			}
		}
		t.flush(o, ind)
		t.ret(o, ind, vals)
		if len(rest) > 0 {
			g.fail(rest[0].s, "statement after return")
		}
		return
	case *ast.IfStmt:
		if s.Init != nil {
			g.fail(s, "if with an init statement")
		}
		c := t.as(s.Cond, t.expr(s.Cond, afNone), afBool)
		t.flush(o, ind)
		var el []afItem
		switch e := s.Else.(type) {
		case nil:
		case *ast.BlockStmt:
			el = afItems(e)
		case *ast.IfStmt:
			el = []afItem{{e, it.blk}}
		default:
			g.fail(s, "else form %T", s.Else)
		}
		thenItems := afItems(s.Body)
		if !afTerminates(s.Body.List) {
			thenItems = append(thenItems, rest...)
		}
		var elStmts []ast.Stmt
		for _, e := range el {
			elStmts = append(elStmts, e.s)
		}
		if !afTerminates(elStmts) {
			el = append(el, rest...)
		}
		// the two branches are translated with the same variables in scope; what one of them declares is
		// not visible after the if in Go (and no name is declared twice)
		o.add(ind, "if "+c+" then")
		saved := t.snapshot()
		t.stmts(o, ind+"  ", thenItems)
		t.restore(saved)
		o.add(ind, "else")
		t.stmts(o, ind+"  ", el)
		return
	default:
		g.fail(it.s, "statement form %T is outside the subset", it.s)
	}
	t.stmts(o, ind, rest)
}

type afSnap struct {
	vars  map[string]afType
	where map[string]*ast.BlockStmt
}

func (t *afFn) snapshot() afSnap {
	s := afSnap{map[string]afType{}, map[string]*ast.BlockStmt{}}
	for k, v := range t.vars {
		s.vars[k] = v
	}
	for k, v := range t.where {
		s.where[k] = v
	}
	return s
}

func (t *afFn) restore(s afSnap) { t.vars, t.where = s.vars, s.where }

func (t *afFn) zero(n ast.Node, ty afType) string {
	switch ty {
	case afUint, afUint64, afInt64:
		return "0#64"
	case afInt:
		return "(0 : Int)"
	case afByte:
		return "0#8"
	case afBytes, afString:
		return "([] : Bytes)"
	case afBool:
		return "false"
	case afErr:
		return "GoErr.nil"
	}
	t.g.fail(n, "zero value of %s", afGoName[ty])
	return ""
}

func (t *afFn) opAssign(o *afOut, ind string, at ast.Node, lhs ast.Expr, op token.Token, rhs func(afType) afVal, blk *ast.BlockStmt) {
	cur := t.expr(lhs, afNone)
	t.assign(o, ind, lhs, false, blk, func(want afType) afVal {
		r := rhs(want)
		rl := t.as(at, r, cur.ty)
		switch {
		case cur.ty.word() || cur.ty == afByte:
			sym := "+"
			if op == token.SUB {
				sym = "-"
			}
			return afVal{lean: fmt.Sprintf("(%s %s %s)", cur.lean, sym, rl), ty: cur.ty}
		case cur.ty == afInt:
			f := "iadd"
			if op == token.SUB {
				f = "isub"
			}
			return afVal{lean: fmt.Sprintf("(%s %s %s)", f, cur.lean, rl), ty: afInt}
		}
		t.g.fail(at, "%s= at type %s is outside the subset", op, afGoName[cur.ty])
		return afVal{}
	})
}

func (t *afFn) assignStmt(o *afOut, ind string, s *ast.AssignStmt, blk *ast.BlockStmt) {
	g := t.g
	switch s.Tok {
	case token.ADD_ASSIGN, token.SUB_ASSIGN:
		if len(s.Lhs) != 1 || len(s.Rhs) != 1 {
			g.fail(s, "op-assignment with several operands")
		}
		op := token.ADD
		if s.Tok == token.SUB_ASSIGN {
			op = token.SUB
		}
		t.opAssign(o, ind, s, s.Lhs[0], op, func(want afType) afVal { return t.expr(s.Rhs[0], want) }, blk)
		return
	case token.ASSIGN, token.DEFINE:
	default:
		g.fail(s, "assignment operator %s is outside the subset", s.Tok)
	}
	define := s.Tok == token.DEFINE
	if len(s.Lhs) == 1 && len(s.Rhs) == 1 {
		t.assign(o, ind, s.Lhs[0], define, blk, func(want afType) afVal { return t.expr(s.Rhs[0], want) })
		return
	}
	if len(s.Lhs) != 2 || len(s.Rhs) != 1 {
		g.fail(s, "assignment with %d left and %d right operands", len(s.Lhs), len(s.Rhs))
	}
	c, ok := s.Rhs[0].(*ast.CallExpr)
	if !ok {
		g.fail(s, "two-value assignment whose right side is not a call")
	}
	var r []afVal
	if t.isRecvCall(c) {
		r = t.methodCall(c)
		if len(r) != 2 {
			g.fail(s, "two-value assignment from a method with %d results", len(r))
		}
	} else {
		name := ""
		if sel, ok := c.Fun.(*ast.SelectorExpr); ok {
			name = afTypeString(sel)
		}
		tmp := ""
		switch name {
		case "bits.Add":
			g.needImport(c, "bits", "math/bits")
			if len(c.Args) != 3 || c.Ellipsis.IsValid() {
				g.fail(c, "bits.Add with %d arguments", len(c.Args))
			}
			var a [3]string
			for i := range a {
				a[i] = t.as(c.Args[i], t.expr(c.Args[i], afUint), afUint)
			}
			tmp = t.fresh("t")
			t.pre = append(t.pre, afPre{line: fmt.Sprintf("let %s := bitsAdd %s %s %s", tmp, a[0], a[1], a[2])})
			r = []afVal{{lean: tmp + ".1", ty: afUint}, {lean: tmp + ".2", ty: afUint}}
		case "bits.Mul":
			g.needImport(c, "bits", "math/bits")
			if len(c.Args) != 2 || c.Ellipsis.IsValid() {
				g.fail(c, "bits.Mul with %d arguments", len(c.Args))
			}
			var a [2]string
			for i := range a {
				a[i] = t.as(c.Args[i], t.expr(c.Args[i], afUint), afUint)
			}
			tmp = t.fresh("t")
			t.pre = append(t.pre, afPre{line: fmt.Sprintf("let %s := bitsMul %s %s", tmp, a[0], a[1])})
			r = []afVal{{lean: tmp + ".1", ty: afUint}, {lean: tmp + ".2", ty: afUint}}
		case "binary.Uvarint":
			g.needImport(c, "binary", "encoding/binary")
			if len(c.Args) != 1 || c.Ellipsis.IsValid() {
				g.fail(c, "binary.Uvarint with %d arguments", len(c.Args))
			}
			b := t.expr(c.Args[0], afBytes)
			if b.ty != afBytes {
				g.fail(c, "binary.Uvarint of a %s", afGoName[b.ty])
			}
			tmp = t.fresh("t")
			t.pre = append(t.pre, afPre{line: fmt.Sprintf("let %s := binaryUvarint %s", tmp, b.lean)})
			r = []afVal{{lean: tmp + ".1", ty: afUint64}, {lean: tmp + ".2", ty: afInt}}
		default:
			g.fail(c, "two-value call of %s is outside the subset", afTypeString(c.Fun))
		}
	}
	// Go assigns left to right after the call; the operands on the left (locals, fields of the receiver)
	// have no side effects.
	if define {
		fresh := false
		for _, l := range s.Lhs {
			if id, ok := l.(*ast.Ident); ok {
				if _, known := t.vars[id.Name]; !known {
					fresh = true
				}
			}
		}
		if !fresh {
			g.fail(s, ":= without a new variable")
		}
	}
	for i, l := range s.Lhs {
		v := r[i]
		def := define
		if id, ok := l.(*ast.Ident); ok && define {
			if _, known := t.vars[id.Name]; known && t.where[id.Name] == blk {
				def = false // redeclaration in the same block = assignment
			}
		}
		t.assign(o, ind, l, def, blk, func(afType) afVal { return v })
	}
}

// ---- driver ----

func (g *afGen) translate(m *afMethod) string {
	t := &afFn{g: g, m: m, vars: map[string]afType{}, where: map[string]*ast.BlockStmt{}}
	m.partial = g.mayPanic(m)
	for _, p := range m.params {
		t.declare(m.decl, p.name, p.ty, m.decl.Body)
	}
	o := &afOut{}
	ind := "  "
	o.add(ind, fmt.Sprintf("let %s := %sCaller", m.recv, m.recv))
	for _, r := range m.results {
		if r.name != "" {
			t.declare(m.decl, r.name, r.ty, m.decl.Body)
			o.add(ind, fmt.Sprintf("let %s : %s := %s  -- named result", r.name, afLeanTy[r.ty], t.zero(m.decl, r.ty)))
		}
	}
	t.stmts(o, ind, afItems(m.decl.Body))

	var sb strings.Builder
	kind := "pointer receiver: the method changes the caller's " + m.strct.name
	if !m.ptr {
		kind = "VALUE receiver: the method works on a copy, the caller's " + m.strct.name + " is unchanged"
	}
	star := "*"
	if !m.ptr {
		star = ""
	}
	var ps, rs []string
	for _, p := range m.params {
		ps = append(ps, p.name+" "+afGoName[p.ty])
	}
	for _, r := range m.results {
		rs = append(rs, strings.TrimSpace(r.name+" "+afGoName[r.ty]))
	}
	fmt.Fprintf(&sb, "/-- %s:%d `func (%s %s%s) %s(%s) (%s)` - %s.\n    Result: the caller's receiver after the call",
		g.rel, g.fset.Position(m.decl.Pos()).Line, m.recv, star, m.strct.name, m.goName, strings.Join(ps, ", "), strings.Join(rs, ", "), kind)
	if len(m.results) > 0 {
		sb.WriteString(", then the results")
	}
	if m.partial {
		sb.WriteString("; `none` = the Go method panics")
	}
	sb.WriteString(". -/\n")
	fmt.Fprintf(&sb, "def %s (%sCaller : %s)", m.leanName, m.recv, m.strct.name)
	for _, p := range m.params {
		fmt.Fprintf(&sb, " (%s : %s)", p.name, afLeanTy[p.ty])
	}
	rt := m.strct.name
	for _, r := range m.results {
		rt += " × " + afLeanTy[r.ty]
	}
	if m.partial {
		rt = "Option (" + rt + ")"
	}
	fmt.Fprintf(&sb, " : %s :=\n", rt)
	sb.WriteString(strings.Join(o.lines, "\n"))
	sb.WriteString("\n\n")
	return sb.String()
}

// afPkgConsts: the untyped integer constants of go/pkg/limits.go (typed ones are left out: a use dies).
func afPkgConsts() map[string]*big.Int {
	out := map[string]*big.Int{}
	_, f := parseFile("go/pkg/limits.go")
	typed := map[string]bool{}
	for _, d := range f.Decls {
		gd, ok := d.(*ast.GenDecl)
		if !ok || gd.Tok != token.CONST {
			continue
		}
		for _, s := range gd.Specs {
			vs := s.(*ast.ValueSpec)
			if vs.Type != nil {
				for _, n := range vs.Names {
					typed[n.Name] = true
				}
			}
		}
	}
	env := &constEnv{vals: map[string]constant.Value{}}
	vals := map[string]constant.Value{}
	collectConsts(f, env, vals)
	for n, c := range vals {
		if typed[n] || c.Kind() != constant.Int {
			continue
		}
		out[n] = bigOf(c)
	}
	return out
}

// afErrVars: package-level `var ErrX = NewDecodeError(..)` / `errors.New(..)` of go/pkg/errors.go that the
// vocabulary knows.
func afErrVars() map[string]string {
	known := map[string]string{"ErrRecordAllocLimitExceeded": "errRecordAllocLimitExceeded"}
	out := map[string]string{}
	_, f := parseFile("go/pkg/errors.go")
	for _, d := range f.Decls {
		gd, ok := d.(*ast.GenDecl)
		if !ok || gd.Tok != token.VAR {
			continue
		}
		for _, s := range gd.Specs {
			vs := s.(*ast.ValueSpec)
			if len(vs.Names) != 1 || len(vs.Values) != 1 {
				continue
			}
			c, ok := vs.Values[0].(*ast.CallExpr)
			if !ok {
				continue
			}
			if fn := afTypeString(c.Fun); fn != "NewDecodeError" && fn != "errors.New" {
				continue
			}
			if l, ok := known[vs.Names[0].Name]; ok {
				out[vs.Names[0].Name] = l
			}
		}
	}
	return out
}

func genAllocFlow() {
	consts := afPkgConsts()
	errVars := afErrVars()
	var sb strings.Builder
	sb.WriteString("/- GENERATED by /verif/extract (allocflow.go) from go/pkg/allocsizechecker.go (AllocSizeChecker: the struct and all of\n")
	sb.WriteString("   its methods) and go/pkg/membuffer.go (BytesReader / BytesWriter: the structs and their byte / varint / string methods),\n")
	sb.WriteString("   one Lean `let` / `if` per Go statement; the receiver kind (pointer / value) decides which receiver is returned.\n")
	sb.WriteString("   Do not edit. Vocabulary (types, operators, whitelisted calls): Stef/AllocFlowSem.lean. -/\n")
	sb.WriteString("import Stef.AllocFlowSem\n\nset_option linter.unusedVariables false\n\n")
	sb.WriteString("namespace Stef.Gen.AllocFlow\nopen Stef Stef.AllocFlowSem\n\n")
	files := map[string]*afGen{}
	for _, tg := range afTargets {
		g := files[tg.file]
		if g == nil {
			fset, f := parseFile(tg.file)
			g = &afGen{fset: fset, file: f, rel: tg.file, imports: map[string]string{}, consts: consts, errVars: errVars,
				methods: map[string]*afMethod{}}
			for _, im := range f.Imports {
				path := strings.Trim(im.Path.Value, `"`)
				local := path[strings.LastIndex(path, "/")+1:]
				if im.Name != nil {
					local = im.Name.Name
				}
				g.imports[local] = path
			}
			files[tg.file] = g
		}
		st := g.structDecl(tg.strct)
		fmt.Fprintf(&sb, "/-- %s: `type %s struct` -/\nstructure %s where\n", tg.file, st.name, st.name)
		for _, f := range st.fields {
			fmt.Fprintf(&sb, "  %s : %s  -- %s\n", f.name, afLeanTy[f.ty], f.src)
		}
		sb.WriteString("  deriving DecidableEq, Repr\n\n")
		for _, m := range g.methodsOf(st, tg.methods) {
			sb.WriteString(g.translate(m))
			g.methods[st.name+"."+m.goName] = m
		}
	}
	sb.WriteString("end Stef.Gen.AllocFlow\n")
	writeOut("AllocFlow.lean", sb.String())
}
