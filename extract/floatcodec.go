// floatcodec.go: generator "FloatCodec". Translates the bodies of Float64Encoder.{IsEqual,Encode,Reset}
// and Float64Decoder.{Decode,Reset} of go/pkg/codecs/float64.go, statement by statement, into Lean
// definitions over the vocabulary of lean/Stef/FloatCodecSem.lean (output: Gen/FloatCodec.lean).
//
// The subset (everything else dies, naming the construct):
//   types        int, uint, uint64, float64, bool, error (result only), pkg.BitsWriter, pkg.BitsReader,
//                *pkg.SizeLimiter (struct fields only), *float64 (out parameter)
//   statements   x := e, x = e, recv.f = e, *out = e, var a, b T, x++ / x--, if / else / else if (no init),
//                return [e], panic(..), recv.<writer>.WriteBit/WriteBits, recv.<limiter>.AddFrameBits,
//                recv.<reader>.Consume; `x := recv.<reader>.PeekBits/ReadBits/ReadBit(..)` as a whole right side
//   expressions  integer literals and the untyped constants of the file (folded exactly), locals, parameters,
//                recv.f, *out, + - (int: wrapped; uint: BitVec), & | ^ << >> (unsigned left operand only; a
//                shift by an int count gets the negative-count panic test in front of its statement),
//                == != < <= > >= (float64: only == and !=, IEEE), && || !, conversions int/uint/uint64,
//                min/max on int, math.Float64bits/Float64frombits, bits.LeadingZeros64/TrailingZeros64,
//                recv.<reader>.Error(), calls of already translated single-`return` methods of the receiver
// No type checker is used: the types are inferred from the declarations of the file, and an untyped
// constant takes the type of the other operand (or int for `x := c`), as in Go.
//
// Control flow: an `if` without any return / panic inside is a Lean `let (assigned variables) := if ..`;
// an `if` with a return / panic inside gets the rest of the function appended to both of its branches.
package main

import (
	"fmt"
	"go/ast"
	"go/constant"
	"go/token"
	"math/big"
	"regexp"
	"strconv"
	"strings"
)

func init() { register("FloatCodec", genFloatCodec) }

const fcFile = "go/pkg/codecs/float64.go"

type fcType int

const (
	fcNone fcType = iota
	fcInt
	fcUint
	fcUint64
	fcFloat
	fcBool
	fcError
	fcUntyped
	fcWriter
	fcReader
	fcLimiter
	fcOpaque
)

var fcGoName = map[fcType]string{fcNone: "(none)", fcInt: "int", fcUint: "uint", fcUint64: "uint64", fcFloat: "float64",
	fcBool: "bool", fcError: "error", fcUntyped: "untyped constant", fcWriter: "pkg.BitsWriter", fcReader: "pkg.BitsReader",
	fcLimiter: "*pkg.SizeLimiter", fcOpaque: "(not modelled)"}

var fcLeanTy = map[fcType]string{fcInt: "Int", fcUint: "Word", fcUint64: "Word", fcFloat: "Float64", fcBool: "Bool",
	fcError: "Bool", fcWriter: "BitsWriter", fcReader: "BitsReader", fcLimiter: "Limiter"}

func (t fcType) unsigned() bool { return t == fcUint || t == fcUint64 }

type fcVal struct {
	lean string
	ty   fcType
	c    *big.Int // value of an untyped constant
}

type fcField struct {
	name string
	ty   fcType
	src  string
}

type fcStruct struct {
	name   string
	fields []fcField
}

func (s *fcStruct) field(name string) (fcField, bool) {
	for _, f := range s.fields {
		if f.name == name {
			return f, true
		}
	}
	return fcField{}, false
}

type fcPure struct {
	lean   string
	params []fcType
	result fcType
}

type fcGen struct {
	fset   *token.FileSet
	file   *ast.File
	consts map[string]*big.Int
	pure   map[string]fcPure // "<Struct>.<Method>"
	tmp    int
}

func (g *fcGen) fail(n ast.Node, f string, a ...any) {
	pos := ""
	if n != nil {
		pos = fmt.Sprintf("%s:%d: ", fcFile, g.fset.Position(n.Pos()).Line)
	}
	die("%s%s", pos, fmt.Sprintf(f, a...))
}

var fcIdentRe = regexp.MustCompile(`^[A-Za-z][A-Za-z0-9_]*$`)
var fcTmpRe = regexp.MustCompile(`^(r|j)[0-9]+$`)
var fcReserved = map[string]bool{}

func init() {
	for _, w := range strings.Fields(`at by do end from fun have show then else if let match with where open in namespace
		section def theorem instance structure class inductive deriving mutual universe variable import export private
		protected partial unsafe macro syntax notation infix prefix postfix return for unless try catch finally mut break
		continue using calc exists forall Type Prop Sort true false some none decide Int Nat Word Bool Float64 Limiter
		BitsWriter BitsReader Option nil panic min max int uint uint64 float64 bool error math bits pkg`) {
		fcReserved[w] = true
	}
}

func (g *fcGen) checkName(n ast.Node, name string) {
	if !fcIdentRe.MatchString(name) || fcReserved[name] || fcTmpRe.MatchString(name) {
		g.fail(n, "identifier %q cannot be used as a Lean name by this generator", name)
	}
}

func (g *fcGen) typeOf(e ast.Expr) fcType {
	switch v := e.(type) {
	case *ast.Ident:
		switch v.Name {
		case "int":
			return fcInt
		case "uint":
			return fcUint
		case "uint64":
			return fcUint64
		case "float64":
			return fcFloat
		case "bool":
			return fcBool
		case "error":
			return fcError
		}
	case *ast.SelectorExpr:
		if isIdent(v.X, "pkg") {
			switch v.Sel.Name {
			case "BitsWriter":
				return fcWriter
			case "BitsReader":
				return fcReader
			}
		}
	case *ast.StarExpr:
		if s, ok := v.X.(*ast.SelectorExpr); ok && isIdent(s.X, "pkg") && s.Sel.Name == "SizeLimiter" {
			return fcLimiter
		}
	}
	return fcOpaque
}

func fcTypeString(e ast.Expr) string {
	switch v := e.(type) {
	case *ast.Ident:
		return v.Name
	case *ast.SelectorExpr:
		return fcTypeString(v.X) + "." + v.Sel.Name
	case *ast.StarExpr:
		return "*" + fcTypeString(v.X)
	case *ast.ArrayType:
		if v.Len == nil {
			return "[]" + fcTypeString(v.Elt)
		}
	}
	return fmt.Sprintf("<%T>", e)
}

// fcCheckSig: the vocabulary method recv.name of file rel has exactly the parameter / result types the
// vocabulary of FloatCodecSem.lean assumes.
func fcCheckSig(rel, recv, name, params, results string) {
	_, f := parseFile(rel)
	for _, d := range f.Decls {
		fd, ok := d.(*ast.FuncDecl)
		if !ok || fd.Recv == nil || fd.Name.Name != name || len(fd.Recv.List) != 1 {
			continue
		}
		if fcTypeString(fd.Recv.List[0].Type) != "*"+recv {
			continue
		}
		flat := func(fl *ast.FieldList) string {
			var out []string
			if fl != nil {
				for _, p := range fl.List {
					n := len(p.Names)
					if n == 0 {
						n = 1
					}
					for i := 0; i < n; i++ {
						out = append(out, fcTypeString(p.Type))
					}
				}
			}
			return strings.Join(out, ",")
		}
		if p, r := flat(fd.Type.Params), flat(fd.Type.Results); p != params || r != results {
			die("%s: (*%s).%s has signature (%s) (%s); the vocabulary assumes (%s) (%s)", rel, recv, name, p, r, params, results)
		}
		return
	}
	die("%s: method (*%s).%s not found", rel, recv, name)
}

func (g *fcGen) structDecl(name string) *fcStruct {
	for _, d := range g.file.Decls {
		gd, ok := d.(*ast.GenDecl)
		if !ok || gd.Tok != token.TYPE {
			continue
		}
		for _, s := range gd.Specs {
			ts := s.(*ast.TypeSpec)
			if ts.Name.Name != name {
				continue
			}
			st, ok := ts.Type.(*ast.StructType)
			if !ok || ts.TypeParams != nil {
				g.fail(ts, "type %s is not a plain struct", name)
			}
			out := &fcStruct{name: name}
			for _, f := range st.Fields.List {
				if len(f.Names) == 0 {
					g.fail(f, "embedded field in %s", name)
				}
				for _, n := range f.Names {
					ty := g.typeOf(f.Type)
					if ty != fcOpaque {
						g.checkName(n, n.Name)
					}
					out.fields = append(out.fields, fcField{n.Name, ty, fcTypeString(f.Type)})
				}
			}
			return out
		}
	}
	die("%s: type %s not found", fcFile, name)
	return nil
}

func (g *fcGen) method(recvType, name string) *ast.FuncDecl {
	var found *ast.FuncDecl
	for _, d := range g.file.Decls {
		fd, ok := d.(*ast.FuncDecl)
		if !ok || fd.Recv == nil || fd.Name.Name != name || len(fd.Recv.List) != 1 {
			continue
		}
		if fcTypeString(fd.Recv.List[0].Type) != "*"+recvType {
			continue
		}
		if found != nil {
			g.fail(fd, "two methods (*%s).%s", recvType, name)
		}
		found = fd
	}
	if found == nil {
		die("%s: method (*%s).%s not found", fcFile, recvType, name)
	}
	if found.Body == nil || found.Type.TypeParams != nil {
		g.fail(found, "method %s has no plain body", name)
	}
	return found
}

// ---- one function ----

type fcFn struct {
	g      *fcGen
	st     *fcStruct
	recv   string
	vars   map[string]fcType
	outs   []string // pointer parameters, in order
	result fcType
	guards []string
}

func (t *fcFn) fork() *fcFn {
	c := *t
	c.vars = map[string]fcType{}
	for k, v := range t.vars {
		c.vars[k] = v
	}
	c.guards = nil
	return &c
}

func (t *fcFn) isOut(name string) bool {
	for _, o := range t.outs {
		if o == name {
			return true
		}
	}
	return false
}

func fcLit(c *big.Int, ty fcType) (string, bool) {
	switch ty {
	case fcInt:
		lim := new(big.Int).Lsh(big.NewInt(1), 63)
		if c.Cmp(lim) >= 0 || c.Cmp(new(big.Int).Neg(lim)) < 0 {
			return "", false
		}
		return fmt.Sprintf("(%s : Int)", c.String()), true
	case fcUint, fcUint64:
		if c.Sign() < 0 || c.Cmp(two64) >= 0 {
			return "", false
		}
		return c.String() + "#64", true
	case fcFloat:
		if c.Sign() == 0 {
			return "0#64", true // the bit pattern of +0.0
		}
	}
	return "", false
}

// as: the value converted to the type ty of its context (only untyped constants convert implicitly).
func (t *fcFn) as(n ast.Node, v fcVal, ty fcType) string {
	if v.ty == fcUntyped {
		s, ok := fcLit(v.c, ty)
		if !ok {
			t.g.fail(n, "constant %s cannot be used at type %s", v.c.String(), fcGoName[ty])
		}
		return s
	}
	if v.ty != ty {
		t.g.fail(n, "type mismatch: %s used where %s is expected", fcGoName[v.ty], fcGoName[ty])
	}
	return v.lean
}

func (t *fcFn) recvField(e ast.Expr) (fcField, bool) {
	s, ok := e.(*ast.SelectorExpr)
	if !ok || !isIdent(s.X, t.recv) {
		return fcField{}, false
	}
	f, ok := t.st.field(s.Sel.Name)
	if !ok {
		t.g.fail(e, "%s has no field %s", t.st.name, s.Sel.Name)
	}
	if f.ty == fcOpaque {
		t.g.fail(e, "field %s.%s of type %s is not modelled", t.st.name, f.name, f.src)
	}
	return f, true
}

func fcFold(op token.Token, a, b *big.Int) (*big.Int, bool) {
	r := new(big.Int)
	switch op {
	case token.ADD:
		return r.Add(a, b), true
	case token.SUB:
		return r.Sub(a, b), true
	case token.MUL:
		return r.Mul(a, b), true
	case token.AND:
		return r.And(a, b), true
	case token.OR:
		return r.Or(a, b), true
	case token.XOR:
		return r.Xor(a, b), true
	case token.SHL, token.SHR:
		if b.Sign() < 0 || b.Cmp(big.NewInt(4096)) > 0 {
			return nil, false
		}
		if op == token.SHL {
			return r.Lsh(a, uint(b.Int64())), true
		}
		return r.Rsh(a, uint(b.Int64())), true
	}
	return nil, false
}

var fcCmpInt = map[token.Token]string{token.EQL: "=", token.NEQ: "≠", token.LSS: "<", token.LEQ: "≤", token.GTR: ">", token.GEQ: "≥"}

func (t *fcFn) expr(e ast.Expr) fcVal {
	g := t.g
	switch v := e.(type) {
	case *ast.ParenExpr:
		return t.expr(v.X)
	case *ast.BasicLit:
		if v.Kind != token.INT {
			g.fail(v, "literal %s: only integer literals are in the subset", v.Value)
		}
		c := constant.MakeFromLiteral(v.Value, v.Kind, 0)
		return fcVal{ty: fcUntyped, c: bigOf(c)}
	case *ast.Ident:
		if v.Name == "true" || v.Name == "false" {
			if _, shadow := t.vars[v.Name]; !shadow {
				return fcVal{lean: v.Name, ty: fcBool}
			}
		}
		if ty, ok := t.vars[v.Name]; ok {
			if t.isOut(v.Name) {
				g.fail(v, "pointer parameter %s used without dereference", v.Name)
			}
			return fcVal{lean: v.Name, ty: ty}
		}
		if c, ok := g.consts[v.Name]; ok {
			return fcVal{ty: fcUntyped, c: c}
		}
		g.fail(v, "identifier %s is neither a local, a parameter nor a constant of the file", v.Name)
	case *ast.StarExpr:
		if id, ok := v.X.(*ast.Ident); ok && t.isOut(id.Name) {
			return fcVal{lean: id.Name, ty: t.vars[id.Name]}
		}
		g.fail(v, "dereference of something that is not a pointer parameter")
	case *ast.SelectorExpr:
		if f, ok := t.recvField(v); ok {
			return fcVal{lean: t.recv + "." + f.name, ty: f.ty}
		}
		g.fail(v, "selector %s is not a field of the receiver", fcTypeString(v))
	case *ast.UnaryExpr:
		x := t.expr(v.X)
		switch {
		case v.Op == token.NOT && x.ty == fcBool:
			return fcVal{lean: "(!" + x.lean + ")", ty: fcBool}
		case v.Op == token.SUB && x.ty == fcUntyped:
			return fcVal{ty: fcUntyped, c: new(big.Int).Neg(x.c)}
		case v.Op == token.ADD && x.ty == fcUntyped:
			return x
		}
		g.fail(v, "unary operator %s at type %s is not in the subset", v.Op, fcGoName[x.ty])
	case *ast.BinaryExpr:
		return t.binary(v)
	case *ast.CallExpr:
		return t.call(v)
	}
	g.fail(e, "expression form %T is not in the subset", e)
	return fcVal{}
}

// unify: the common type of the two operands of an arithmetic / comparison operator.
func (t *fcFn) unify(n ast.Node, l, r fcVal) (string, string, fcType) {
	ty := l.ty
	if ty == fcUntyped {
		ty = r.ty
	}
	return t.as(n, l, ty), t.as(n, r, ty), ty
}

func (t *fcFn) binary(v *ast.BinaryExpr) fcVal {
	g := t.g
	switch v.Op {
	case token.LAND, token.LOR:
		l := t.expr(v.X)
		before := len(t.guards)
		r := t.expr(v.Y)
		if len(t.guards) != before {
			g.fail(v.Y, "a shift by an int count on the right of && / || is not in the subset (its panic would be conditional)")
		}
		if l.ty != fcBool || r.ty != fcBool {
			g.fail(v, "operands of %s must be bool", v.Op)
		}
		op := " && "
		if v.Op == token.LOR {
			op = " || "
		}
		return fcVal{lean: "(" + l.lean + op + r.lean + ")", ty: fcBool}
	case token.EQL, token.NEQ, token.LSS, token.LEQ, token.GTR, token.GEQ:
		l, r := t.expr(v.X), t.expr(v.Y)
		if l.ty == fcUntyped && r.ty == fcUntyped {
			c := l.c.Cmp(r.c)
			res := map[token.Token]bool{token.EQL: c == 0, token.NEQ: c != 0, token.LSS: c < 0, token.LEQ: c <= 0, token.GTR: c > 0, token.GEQ: c >= 0}[v.Op]
			return fcVal{lean: strconv.FormatBool(res), ty: fcBool}
		}
		ls, rs, ty := t.unify(v, l, r)
		switch {
		case ty == fcInt:
			return fcVal{lean: fmt.Sprintf("decide (%s %s %s)", ls, fcCmpInt[v.Op], rs), ty: fcBool}
		case ty.unsigned() && v.Op == token.EQL:
			return fcVal{lean: fmt.Sprintf("(%s == %s)", ls, rs), ty: fcBool}
		case ty.unsigned() && v.Op == token.NEQ:
			return fcVal{lean: fmt.Sprintf("(%s != %s)", ls, rs), ty: fcBool}
		case ty.unsigned(): // BitVec < ≤ are the unsigned orders
			return fcVal{lean: fmt.Sprintf("decide (%s %s %s)", ls, fcCmpInt[v.Op], rs), ty: fcBool}
		case ty == fcFloat && v.Op == token.EQL:
			return fcVal{lean: fmt.Sprintf("(floatEq %s %s)", ls, rs), ty: fcBool}
		case ty == fcFloat && v.Op == token.NEQ:
			return fcVal{lean: fmt.Sprintf("(!(floatEq %s %s))", ls, rs), ty: fcBool}
		case ty == fcBool && v.Op == token.EQL:
			return fcVal{lean: fmt.Sprintf("(%s == %s)", ls, rs), ty: fcBool}
		case ty == fcBool && v.Op == token.NEQ:
			return fcVal{lean: fmt.Sprintf("(%s != %s)", ls, rs), ty: fcBool}
		}
		g.fail(v, "comparison %s at type %s is not in the subset", v.Op, fcGoName[ty])
	case token.SHL, token.SHR:
		l, c := t.expr(v.X), t.expr(v.Y)
		if l.ty == fcUntyped {
			if c.ty != fcUntyped {
				g.fail(v, "shift of an untyped constant by a non-constant count is not in the subset")
			}
			r, ok := fcFold(v.Op, l.c, c.c)
			if !ok {
				g.fail(v, "constant shift cannot be evaluated")
			}
			return fcVal{ty: fcUntyped, c: r}
		}
		if !l.ty.unsigned() {
			g.fail(v, "shift of a value of type %s is not in the subset (only uint / uint64)", fcGoName[l.ty])
		}
		op := " <<< "
		if v.Op == token.SHR {
			op = " >>> "
		}
		var cnt string
		switch {
		case c.ty == fcUntyped:
			if c.c.Sign() < 0 || c.c.Cmp(big.NewInt(1<<20)) > 0 {
				g.fail(v.Y, "constant shift count %s", c.c.String())
			}
			cnt = c.c.String()
		case c.ty.unsigned():
			cnt = "(" + c.lean + ").toNat"
		case c.ty == fcInt:
			// Go: a negative shift count panics at run time
			t.guards = append(t.guards, fmt.Sprintf("decide (%s < 0)", c.lean))
			cnt = "(" + c.lean + ").toNat"
		default:
			g.fail(v.Y, "shift count of type %s", fcGoName[c.ty])
		}
		return fcVal{lean: "(" + l.lean + op + cnt + ")", ty: l.ty}
	case token.ADD, token.SUB, token.AND, token.OR, token.XOR:
		l, r := t.expr(v.X), t.expr(v.Y)
		if l.ty == fcUntyped && r.ty == fcUntyped {
			c, ok := fcFold(v.Op, l.c, r.c)
			if !ok {
				g.fail(v, "constant expression cannot be evaluated")
			}
			return fcVal{ty: fcUntyped, c: c}
		}
		ls, rs, ty := t.unify(v, l, r)
		switch {
		case ty == fcInt && v.Op == token.ADD:
			return fcVal{lean: fmt.Sprintf("(iadd %s %s)", ls, rs), ty: ty}
		case ty == fcInt && v.Op == token.SUB:
			return fcVal{lean: fmt.Sprintf("(isub %s %s)", ls, rs), ty: ty}
		case ty.unsigned():
			op := map[token.Token]string{token.ADD: "+", token.SUB: "-", token.AND: "&&&", token.OR: "|||", token.XOR: "^^^"}[v.Op]
			return fcVal{lean: fmt.Sprintf("(%s %s %s)", ls, op, rs), ty: ty}
		}
		g.fail(v, "operator %s at type %s is not in the subset", v.Op, fcGoName[ty])
	}
	g.fail(v, "binary operator %s is not in the subset", v.Op)
	return fcVal{}
}

func (t *fcFn) shadowed(name string) bool { _, ok := t.vars[name]; return ok || name == t.recv }

// call: calls allowed inside expressions (no effect on the receiver).
func (t *fcFn) call(v *ast.CallExpr) fcVal {
	g := t.g
	if v.Ellipsis != token.NoPos {
		g.fail(v, "variadic call")
	}
	if id, ok := v.Fun.(*ast.Ident); ok && !t.shadowed(id.Name) {
		switch id.Name {
		case "int", "uint", "uint64":
			if len(v.Args) != 1 {
				g.fail(v, "conversion with %d arguments", len(v.Args))
			}
			to := map[string]fcType{"int": fcInt, "uint": fcUint, "uint64": fcUint64}[id.Name]
			x := t.expr(v.Args[0])
			switch {
			case x.ty == fcUntyped:
				return fcVal{lean: t.as(v, x, to), ty: to}
			case x.ty == to || (x.ty.unsigned() && to.unsigned()):
				return fcVal{lean: x.lean, ty: to}
			case x.ty == fcInt && to.unsigned():
				return fcVal{lean: "(uintOfInt " + x.lean + ")", ty: to}
			case x.ty.unsigned() && to == fcInt:
				return fcVal{lean: "(intOfUint " + x.lean + ")", ty: to}
			}
			g.fail(v, "conversion from %s to %s is not in the subset", fcGoName[x.ty], id.Name)
		case "min", "max":
			if len(v.Args) != 2 {
				g.fail(v, "%s with %d arguments is not in the subset", id.Name, len(v.Args))
			}
			l, r := t.expr(v.Args[0]), t.expr(v.Args[1])
			if l.ty == fcUntyped && r.ty == fcUntyped {
				g.fail(v, "%s of two constants is not in the subset", id.Name)
			}
			ls, rs, ty := t.unify(v, l, r)
			if ty != fcInt {
				g.fail(v, "%s at type %s is not in the subset (only int)", id.Name, fcGoName[ty])
			}
			return fcVal{lean: fmt.Sprintf("(i%s %s %s)", id.Name, ls, rs), ty: fcInt}
		}
		g.fail(v, "call of %s is not in the whitelist", id.Name)
	}
	sel, ok := v.Fun.(*ast.SelectorExpr)
	if !ok {
		g.fail(v, "call form is not in the subset")
	}
	if id, ok := sel.X.(*ast.Ident); ok && !t.shadowed(id.Name) && (id.Name == "math" || id.Name == "bits") {
		type lib struct {
			lean    string
			arg, to fcType
		}
		l, ok := map[string]lib{
			"math.Float64bits":     {"float64bits", fcFloat, fcUint64},
			"math.Float64frombits": {"float64frombits", fcUint64, fcFloat},
			"bits.LeadingZeros64":  {"leadingZeros64", fcUint64, fcInt},
			"bits.TrailingZeros64": {"trailingZeros64", fcUint64, fcInt},
		}[id.Name+"."+sel.Sel.Name]
		if !ok || len(v.Args) != 1 {
			g.fail(v, "library call %s.%s is not in the whitelist", id.Name, sel.Sel.Name)
		}
		return fcVal{lean: fmt.Sprintf("(%s %s)", l.lean, t.as(v.Args[0], t.expr(v.Args[0]), l.arg)), ty: l.to}
	}
	if isIdent(sel.X, t.recv) {
		p, ok := g.pure[t.st.name+"."+sel.Sel.Name]
		if !ok {
			g.fail(v, "call of method %s.%s: only already translated single-return methods may be called", t.st.name, sel.Sel.Name)
		}
		if len(v.Args) != len(p.params) {
			g.fail(v, "call of %s with %d arguments", sel.Sel.Name, len(v.Args))
		}
		args := []string{t.recv}
		for i, a := range v.Args {
			args = append(args, t.as(a, t.expr(a), p.params[i]))
		}
		return fcVal{lean: "(" + p.lean + " " + strings.Join(args, " ") + ")", ty: p.result}
	}
	if f, ok := t.recvField(sel.X); ok {
		if f.ty == fcReader && sel.Sel.Name == "Error" && len(v.Args) == 0 {
			return fcVal{lean: fmt.Sprintf("(readerError %s.%s)", t.recv, f.name), ty: fcError}
		}
		g.fail(v, "call %s.%s.%s(..) (field type %s) is not allowed inside an expression", t.recv, f.name, sel.Sel.Name, fcGoName[f.ty])
	}
	g.fail(v, "call of %s is not in the whitelist", fcTypeString(v.Fun))
	return fcVal{}
}

// valueCall: `recv.<reader>.PeekBits/ReadBits/ReadBit(..)`: returns a value AND changes the reader; allowed
// only as the whole right side of an assignment. Result: the Lean term of the pair (reader, value).
func (t *fcFn) valueCall(e ast.Expr) (pair string, field fcField, ok bool) {
	c, isCall := unparen(e).(*ast.CallExpr)
	if !isCall {
		return
	}
	sel, isSel := c.Fun.(*ast.SelectorExpr)
	if !isSel {
		return
	}
	s2, isSel2 := sel.X.(*ast.SelectorExpr)
	if !isSel2 || !isIdent(s2.X, t.recv) {
		return
	}
	f, _ := t.recvField(sel.X)
	if f.ty != fcReader {
		return
	}
	switch sel.Sel.Name {
	case "PeekBits", "ReadBits":
		if len(c.Args) != 1 {
			t.g.fail(c, "%s with %d arguments", sel.Sel.Name, len(c.Args))
		}
		return fmt.Sprintf("%s %s.%s %s", lowerFirst(sel.Sel.Name), t.recv, f.name, t.as(c.Args[0], t.expr(c.Args[0]), fcUint)), f, true
	case "ReadBit":
		if len(c.Args) != 0 {
			t.g.fail(c, "ReadBit with arguments")
		}
		return fmt.Sprintf("readBit %s.%s", t.recv, f.name), f, true
	}
	return
}

func (t *fcFn) zero(n ast.Node, ty fcType) string {
	switch ty {
	case fcInt:
		return "(0 : Int)"
	case fcUint, fcUint64, fcFloat:
		return "0#64"
	case fcBool:
		return "false"
	}
	t.g.fail(n, "zero value of type %s", fcGoName[ty])
	return ""
}

func (t *fcFn) declare(n ast.Node, name string, ty fcType) {
	t.g.checkName(n, name)
	if t.shadowed(name) {
		t.g.fail(n, "declaration of %s shadows a name in scope (not in the subset)", name)
	}
	if _, isConst := t.g.consts[name]; isConst {
		t.g.fail(n, "declaration of %s shadows a constant (not in the subset)", name)
	}
	t.vars[name] = ty
}

func (t *fcFn) resultTuple(extra string) string {
	parts := append([]string{t.recv}, t.outs...)
	if extra != "" {
		parts = append(parts, extra)
	}
	if len(parts) == 1 {
		return "some " + parts[0]
	}
	return "some (" + strings.Join(parts, ", ") + ")"
}

// withGuards: the panic tests of the shifts by int counts met while translating the statement.
func (t *fcFn) withGuards(ind string, lines []string) []string {
	var out []string
	for _, gd := range t.guards {
		out = append(out, ind+"if "+gd+" then none else  -- Go: negative shift count panics")
	}
	t.guards = nil
	return append(out, lines...)
}

func fcHasExit(list []ast.Stmt) bool {
	found := false
	for _, s := range list {
		ast.Inspect(s, func(n ast.Node) bool {
			switch v := n.(type) {
			case *ast.ReturnStmt:
				found = true
			case *ast.CallExpr:
				if isIdent(v.Fun, "panic") {
					found = true
				}
			case *ast.FuncLit:
				return false
			}
			return !found
		})
	}
	return found
}

// assigned: the variables of the enclosing scope (receiver included) that the statements may change.
func (t *fcFn) assigned(list []ast.Stmt, acc *[]string) {
	add := func(name string) {
		if !t.shadowed(name) {
			return
		}
		for _, a := range *acc {
			if a == name {
				return
			}
		}
		*acc = append(*acc, name)
	}
	var lhs func(e ast.Expr)
	lhs = func(e ast.Expr) {
		switch v := unparen(e).(type) {
		case *ast.Ident:
			add(v.Name)
		case *ast.StarExpr:
			lhs(v.X)
		case *ast.SelectorExpr:
			lhs(v.X)
		}
	}
	for _, s := range list {
		ast.Inspect(s, func(n ast.Node) bool {
			switch v := n.(type) {
			case *ast.AssignStmt:
				if v.Tok != token.DEFINE {
					for _, l := range v.Lhs {
						lhs(l)
					}
				}
			case *ast.IncDecStmt:
				lhs(v.X)
			case *ast.CallExpr:
				// a method call through the receiver may change it
				if sel, ok := v.Fun.(*ast.SelectorExpr); ok {
					root := unparen(sel.X)
					for {
						if s2, ok := root.(*ast.SelectorExpr); ok {
							root = unparen(s2.X)
							continue
						}
						break
					}
					if isIdent(root, t.recv) {
						add(t.recv)
					}
				}
			}
			return true
		})
	}
}

type fcFinish func(t *fcFn) string

// block: the statements of list, then those of rest (the statements that follow the enclosing blocks),
// then fin. Every line is indented by ind.
func (t *fcFn) block(list []ast.Stmt, rest [][]ast.Stmt, ind string, fin fcFinish) []string {
	g := t.g
	if len(list) == 0 {
		if len(rest) > 0 {
			return t.block(rest[0], rest[1:], ind, fin)
		}
		return []string{ind + fin(t)}
	}
	s, tail := list[0], list[1:]
	cont := func(lines []string) []string { return append(lines, t.block(tail, rest, ind, fin)...) }
	switch v := s.(type) {
	case *ast.EmptyStmt:
		return cont(nil)
	case *ast.BlockStmt:
		g.fail(v, "nested block statement is not in the subset")
	case *ast.DeclStmt:
		gd, ok := v.Decl.(*ast.GenDecl)
		if !ok || gd.Tok != token.VAR {
			g.fail(v, "declaration is not in the subset")
		}
		var lines []string
		for _, sp := range gd.Specs {
			vs := sp.(*ast.ValueSpec)
			if vs.Type == nil || len(vs.Values) != 0 {
				g.fail(vs, "only `var a, b T` without values is in the subset")
			}
			ty := g.typeOf(vs.Type)
			for _, n := range vs.Names {
				z := t.zero(vs, ty)
				t.declare(n, n.Name, ty)
				lines = append(lines, fmt.Sprintf("%slet %s : %s := %s", ind, n.Name, fcLeanTy[ty], z))
			}
		}
		return cont(lines)
	case *ast.IncDecStmt:
		id, ok := v.X.(*ast.Ident)
		if !ok || t.isOut(id.Name) {
			g.fail(v, "%s of something that is not a local variable", v.Tok)
		}
		ty, ok := t.vars[id.Name]
		if !ok {
			g.fail(v, "unknown variable %s", id.Name)
		}
		var rhs string
		switch {
		case ty == fcInt && v.Tok == token.INC:
			rhs = fmt.Sprintf("iadd %s (1 : Int)", id.Name)
		case ty == fcInt:
			rhs = fmt.Sprintf("isub %s (1 : Int)", id.Name)
		case ty.unsigned() && v.Tok == token.INC:
			rhs = id.Name + " + 1#64"
		case ty.unsigned():
			rhs = id.Name + " - 1#64"
		default:
			g.fail(v, "%s at type %s", v.Tok, fcGoName[ty])
		}
		return cont([]string{fmt.Sprintf("%slet %s : %s := %s", ind, id.Name, fcLeanTy[ty], rhs)})
	case *ast.AssignStmt:
		return cont(t.assign(v, ind))
	case *ast.ExprStmt:
		c, ok := v.X.(*ast.CallExpr)
		if !ok {
			g.fail(v, "expression statement is not a call")
		}
		if isIdent(c.Fun, "panic") && !t.shadowed("panic") {
			return []string{ind + "none  -- Go: panic"} // what follows is not reached
		}
		return cont(t.effectCall(c, ind))
	case *ast.ReturnStmt:
		var line string
		switch {
		case t.result == fcNone && len(v.Results) == 0:
			line = t.resultTuple("")
		case t.result != fcNone && len(v.Results) == 1:
			if t.result == fcError && isIdent(v.Results[0], "nil") && !t.shadowed("nil") {
				line = t.resultTuple("false")
			} else {
				line = t.resultTuple(t.as(v.Results[0], t.expr(v.Results[0]), t.result))
			}
		default:
			g.fail(v, "return with %d values in a function with result type %s", len(v.Results), fcGoName[t.result])
		}
		return t.withGuards(ind, []string{ind + line}) // what follows is not reached
	case *ast.IfStmt:
		if v.Init != nil {
			g.fail(v, "if with an init statement is not in the subset")
		}
		cond := t.expr(v.Cond)
		if cond.ty != fcBool {
			g.fail(v.Cond, "condition is not a bool")
		}
		var els []ast.Stmt
		switch e := v.Else.(type) {
		case nil:
		case *ast.BlockStmt:
			els = e.List
		case *ast.IfStmt:
			els = []ast.Stmt{e}
		default:
			g.fail(v.Else, "else form")
		}
		head := t.withGuards(ind, nil)
		if fcHasExit(v.Body.List) || fcHasExit(els) {
			// the rest of the function follows both branches
			rest2 := append([][]ast.Stmt{tail}, rest...)
			lines := append(head, ind+"if "+cond.lean+" then")
			lines = append(lines, t.fork().block(v.Body.List, rest2, ind+"  ", fin)...)
			lines = append(lines, ind+"else")
			lines = append(lines, t.fork().block(els, rest2, ind+"  ", fin)...)
			return lines
		}
		var names []string
		t.assigned(v.Body.List, &names)
		t.assigned(els, &names)
		if len(names) == 0 {
			g.fail(v, "if statement without effect")
		}
		tuple := names[0]
		if len(names) > 1 {
			tuple = "(" + strings.Join(names, ", ") + ")"
		}
		join := func(*fcFn) string { return tuple }
		lines := append(head, fmt.Sprintf("%slet %s :=", ind, tuple), ind+"  if "+cond.lean+" then")
		lines = append(lines, t.fork().block(v.Body.List, nil, ind+"    ", join)...)
		lines = append(lines, ind+"  else")
		lines = append(lines, t.fork().block(els, nil, ind+"    ", join)...)
		return cont(lines)
	}
	g.fail(s, "statement form %T is not in the subset", s)
	return nil
}

func (t *fcFn) assign(v *ast.AssignStmt, ind string) []string {
	g := t.g
	if len(v.Lhs) != 1 || len(v.Rhs) != 1 {
		g.fail(v, "assignment with several values is not in the subset")
	}
	if v.Tok != token.DEFINE && v.Tok != token.ASSIGN {
		g.fail(v, "assignment operator %s is not in the subset", v.Tok)
	}
	var lines []string
	// right side
	var rhs fcVal
	if pair, f, ok := t.valueCall(v.Rhs[0]); ok {
		g.tmp++
		tmp := fmt.Sprintf("r%d", g.tmp)
		lines = append(lines, fmt.Sprintf("%slet %s := %s", ind, tmp, pair),
			fmt.Sprintf("%slet %s := { %s with %s := %s.1 }", ind, t.recv, t.recv, f.name, tmp))
		rhs = fcVal{lean: tmp + ".2", ty: fcUint64}
	} else {
		rhs = t.expr(v.Rhs[0])
	}
	lhs := unparen(v.Lhs[0])
	if v.Tok == token.DEFINE {
		id, ok := lhs.(*ast.Ident)
		if !ok {
			g.fail(v, "left side of :=")
		}
		ty := rhs.ty
		if ty == fcUntyped {
			ty = fcInt // Go's default type of an integer constant
		}
		if _, ok := fcLeanTy[ty]; !ok || ty == fcWriter || ty == fcReader || ty == fcLimiter {
			g.fail(v, "local of type %s", fcGoName[ty])
		}
		val := t.as(v, rhs, ty)
		t.declare(id, id.Name, ty)
		lines = append(lines, fmt.Sprintf("%slet %s : %s := %s", ind, id.Name, fcLeanTy[ty], val))
		return t.withGuards(ind, lines)
	}
	switch l := lhs.(type) {
	case *ast.Ident:
		ty, ok := t.vars[l.Name]
		if !ok || t.isOut(l.Name) {
			g.fail(v, "assignment to %s, which is not a local variable or value parameter", l.Name)
		}
		lines = append(lines, fmt.Sprintf("%slet %s : %s := %s", ind, l.Name, fcLeanTy[ty], t.as(v, rhs, ty)))
	case *ast.StarExpr:
		id, ok := l.X.(*ast.Ident)
		if !ok || !t.isOut(id.Name) {
			g.fail(v, "assignment through something that is not a pointer parameter")
		}
		ty := t.vars[id.Name]
		lines = append(lines, fmt.Sprintf("%slet %s : %s := %s", ind, id.Name, fcLeanTy[ty], t.as(v, rhs, ty)))
	case *ast.SelectorExpr:
		f, ok := t.recvField(l)
		if !ok {
			g.fail(v, "assignment to %s, which is not a field of the receiver", fcTypeString(l))
		}
		if f.ty == fcWriter || f.ty == fcReader || f.ty == fcLimiter {
			g.fail(v, "assignment to field %s of type %s is not in the subset", f.name, fcGoName[f.ty])
		}
		lines = append(lines, fmt.Sprintf("%slet %s := { %s with %s := %s }", ind, t.recv, t.recv, f.name, t.as(v, rhs, f.ty)))
	default:
		g.fail(v, "left side of the assignment is not in the subset")
	}
	return t.withGuards(ind, lines)
}

// effectCall: statement `recv.<field>.<Method>(args)`.
func (t *fcFn) effectCall(c *ast.CallExpr, ind string) []string {
	g := t.g
	sel, ok := c.Fun.(*ast.SelectorExpr)
	if !ok {
		g.fail(c, "call statement of %s is not in the whitelist", fcTypeString(c.Fun))
	}
	f, ok := t.recvField(sel.X)
	if !ok {
		g.fail(c, "call statement %s(..) is not in the whitelist", fcTypeString(c.Fun))
	}
	type eff struct {
		lean string
		args []fcType
	}
	e, ok := map[string]eff{
		"pkg.BitsWriter.WriteBit":       {"writeBit", []fcType{fcUint}},
		"pkg.BitsWriter.WriteBits":      {"writeBits", []fcType{fcUint64, fcUint}},
		"*pkg.SizeLimiter.AddFrameBits": {"addFrameBits", []fcType{fcUint}},
		"pkg.BitsReader.Consume":        {"consume", []fcType{fcUint}},
	}[fcGoName[f.ty]+"."+sel.Sel.Name]
	if !ok {
		g.fail(c, "call statement %s.%s.%s(..) (field type %s) is not in the whitelist", t.recv, f.name, sel.Sel.Name, fcGoName[f.ty])
	}
	if len(c.Args) != len(e.args) || c.Ellipsis != token.NoPos {
		g.fail(c, "%s with %d arguments", sel.Sel.Name, len(c.Args))
	}
	args := []string{t.recv + "." + f.name}
	for i, a := range c.Args {
		args = append(args, t.as(a, t.expr(a), e.args[i]))
	}
	line := fmt.Sprintf("%slet %s := { %s with %s := %s %s }", ind, t.recv, t.recv, f.name, e.lean, strings.Join(args, " "))
	return t.withGuards(ind, []string{line})
}

// translate one method; returns the Lean definition.
func (g *fcGen) translate(st *fcStruct, goName string) string {
	fd := g.method(st.name, goName)
	rn := fd.Recv.List[0].Names
	if len(rn) != 1 {
		g.fail(fd, "receiver without a name")
	}
	t := &fcFn{g: g, st: st, recv: rn[0].Name, vars: map[string]fcType{}}
	g.checkName(fd, t.recv)
	var params []string
	var ptys []fcType
	for _, p := range fd.Type.Params.List {
		if len(p.Names) == 0 {
			g.fail(p, "parameter without a name")
		}
		for _, n := range p.Names {
			ty := g.typeOf(p.Type)
			isOut := false
			if star, ok := p.Type.(*ast.StarExpr); ok && ty == fcOpaque {
				ty = g.typeOf(star.X)
				isOut = true
			}
			if !(ty == fcInt || ty.unsigned() || ty == fcFloat || ty == fcBool) {
				g.fail(p, "parameter %s of type %s is not in the subset", n.Name, fcTypeString(p.Type))
			}
			t.declare(n, n.Name, ty)
			if isOut {
				t.outs = append(t.outs, n.Name)
			}
			params = append(params, fmt.Sprintf("(%s : %s)", n.Name, fcLeanTy[ty]))
			ptys = append(ptys, ty)
		}
	}
	if fd.Type.Results != nil {
		if len(fd.Type.Results.List) != 1 || len(fd.Type.Results.List[0].Names) > 1 {
			g.fail(fd, "more than one result")
		}
		if len(fd.Type.Results.List[0].Names) == 1 {
			g.fail(fd, "named result")
		}
		t.result = g.typeOf(fd.Type.Results.List[0].Type)
		if !(t.result == fcInt || t.result.unsigned() || t.result == fcFloat || t.result == fcBool || t.result == fcError) {
			g.fail(fd, "result type %s is not in the subset", fcTypeString(fd.Type.Results.List[0].Type))
		}
	}
	lean := st.name + "." + lowerFirst(goName)
	sig := fmt.Sprintf("func (%s *%s) %s", t.recv, st.name, goName)
	head := fmt.Sprintf("def %s (%s : %s) %s", lean, t.recv, st.name, strings.Join(params, " "))
	// a method that is a single `return <expression>` is a plain function (and may be called by the others)
	if len(fd.Body.List) == 1 && len(t.outs) == 0 && t.result != fcNone && t.result != fcError {
		if r, ok := fd.Body.List[0].(*ast.ReturnStmt); ok && len(r.Results) == 1 {
			val := t.as(r, t.expr(r.Results[0]), t.result)
			if len(t.guards) == 0 {
				g.pure[st.name+"."+goName] = fcPure{lean, ptys, t.result}
				return fmt.Sprintf("/-- go: %s (a single return statement) -/\n%s : %s :=\n  %s\n", sig, head, fcLeanTy[t.result], val)
			}
			t.guards = nil
		}
	}
	retTy := []string{st.name}
	for _, o := range t.outs {
		retTy = append(retTy, fcLeanTy[t.vars[o]])
	}
	doc := "`none` = the Go function panics; otherwise the receiver after the call"
	if len(t.outs) > 0 {
		doc += ", the values behind the pointer parameters " + strings.Join(t.outs, ", ")
	}
	if t.result != fcNone {
		retTy = append(retTy, fcLeanTy[t.result])
		if t.result == fcError {
			doc += ", and whether the returned error is non-nil"
		} else {
			doc += ", and the result"
		}
	}
	rt := strings.Join(retTy, " × ")
	if len(retTy) > 1 {
		rt = "(" + rt + ")"
	}
	fin := func(t *fcFn) string {
		if t.result != fcNone {
			g.fail(fd, "the end of %s is reached without a return", goName)
		}
		return t.resultTuple("")
	}
	lines := t.block(fd.Body.List, nil, "  ", fin)
	return fmt.Sprintf("/-- go: %s. %s. -/\n%s : Option %s :=\n%s\n", sig, doc, head, rt, strings.Join(lines, "\n"))
}

func (g *fcGen) leanStruct(st *fcStruct) string {
	var sb strings.Builder
	fmt.Fprintf(&sb, "/-- go: type %s struct -/\nstructure %s where\n", st.name, st.name)
	for _, f := range st.fields {
		if f.ty == fcOpaque {
			fmt.Fprintf(&sb, "  -- %s %s: not modelled (any use of it stops the generator)\n", f.name, f.src)
			continue
		}
		fmt.Fprintf(&sb, "  %s : %s  -- %s\n", f.name, fcLeanTy[f.ty], f.src)
	}
	return sb.String()
}

func genFloatCodec() {
	fset, f := parseFile(fcFile)
	g := &fcGen{fset: fset, file: f, consts: map[string]*big.Int{}, pure: map[string]fcPure{}}
	// imports the whitelisted calls rely on
	want := map[string]string{"math": "math", "bits": "math/bits", "pkg": "github.com/splunk/stef/go/pkg"}
	for _, im := range f.Imports {
		path, _ := strconv.Unquote(im.Path.Value)
		name := path[strings.LastIndex(path, "/")+1:]
		if im.Name != nil {
			name = im.Name.Name
		}
		if w, ok := want[name]; ok {
			if w != path {
				die("%s: import %s is %q, expected %q", fcFile, name, path, w)
			}
			delete(want, name)
		}
	}
	for name := range want {
		die("%s: import %s is missing", fcFile, name)
	}
	// the untyped constants of the file
	for _, d := range f.Decls {
		if gd, ok := d.(*ast.GenDecl); ok && gd.Tok == token.CONST {
			for _, s := range gd.Specs {
				if s.(*ast.ValueSpec).Type != nil {
					g.fail(s, "typed constant declaration is not in the subset")
				}
			}
		}
	}
	cv := map[string]constant.Value{}
	collectConsts(f, &constEnv{vals: map[string]constant.Value{}}, cv)
	for n, c := range cv {
		if c.Kind() != constant.Int {
			die("%s: constant %s is not an integer constant", fcFile, n)
		}
		g.consts[n] = bigOf(c)
	}
	// the vocabulary (Stef/BitStream.lean, FloatCodecSem.lean) assumes these signatures
	fcCheckSig("go/pkg/bitstream.go", "BitsWriter", "WriteBit", "uint", "")
	fcCheckSig("go/pkg/bitstream.go", "BitsWriter", "WriteBits", "uint64,uint", "")
	fcCheckSig("go/pkg/bitstream.go", "BitsReader", "PeekBits", "uint", "uint64")
	fcCheckSig("go/pkg/bitstream.go", "BitsReader", "Consume", "uint", "")
	fcCheckSig("go/pkg/bitstream.go", "BitsReader", "ReadBits", "uint", "uint64")
	fcCheckSig("go/pkg/bitstream.go", "BitsReader", "ReadBit", "", "uint64")
	fcCheckSig("go/pkg/bitstream.go", "BitsReader", "Error", "", "error")
	fcCheckSig("go/pkg/dictlimiter.go", "SizeLimiter", "AddFrameBits", "uint", "")

	var sb strings.Builder
	sb.WriteString("/- GENERATED by /verif/extract (floatcodec.go) from " + fcFile + ": the struct declarations and the bodies of\n" +
		"   Float64Encoder.{IsEqual,Encode,Reset} and Float64Decoder.{Decode,Reset}, one Lean `let` / `if` per Go statement.\n" +
		"   Do not edit. Vocabulary (types, operators, whitelisted calls): Stef/FloatCodecSem.lean. -/\n")
	sb.WriteString("import Stef.FloatCodecSem\n\nset_option linter.unusedVariables false\n\nnamespace Stef.Gen.FloatCodec\nopen Stef Stef.FloatCodecSem\n\n")
	for _, part := range []struct {
		st      string
		methods []string
	}{{"Float64Encoder", []string{"IsEqual", "Encode", "Reset"}}, {"Float64Decoder", []string{"Decode", "Reset"}}} {
		st := g.structDecl(part.st)
		sb.WriteString(g.leanStruct(st) + "\n")
		for _, m := range part.methods {
			sb.WriteString(g.translate(st, m) + "\n")
		}
	}
	sb.WriteString("end Stef.Gen.FloatCodec\n")
	writeOut("FloatCodec.lean", sb.String())
}
