// bitflow.go: generator "BitFlow". Translates the struct declarations BitsWriter / BitsReader of
// go/pkg/bitstream.go and the bodies of their methods (the list bfWanted and whatever those call),
// statement by statement, into Lean definitions over the vocabulary of lean/Stef/BitFlowSem.lean
// (output: Gen/BitFlow.lean).
//
// The subset (everything else dies, naming the construct):
//
//	types        uint, uint64, int, int64, byte, bool, error, []byte (fields, parameters, results, locals)
//	statements   x := e, x = e, x op= e, recv.f = e, recv.f op= e, x++ / x-- / recv.f++ / recv.f--,
//	             if / else / else if (no init), for cond { .. } (no init / post, not nested, no return /
//	             break / continue inside, changes only the receiver and locals of its body),
//	             return [e], panic(..), recv.Method(args)
//	expressions  integer literals (folded exactly), nil, io.EOF, true, false, locals, parameters, recv.f,
//	             + - * (uint: modulo 2^64, int: wrapped, uint64: BitVec), / by a non-zero constant (uint, int),
//	             & | ^ << >> (int64: arithmetic >>), unary - on uint64, == != < <= > >=, && || !,
//	             conversions between uint / uint64 / int / int64 / byte that Go allows here,
//	             len(s), s[i], s[i:], s[:n] on []byte, T[i] on the five lookup tables of
//	             bitstream_lookuptables.go (every index / slice expression gets its bounds panic test in
//	             front of the statement), bits.LeadingZeros64, binary.BigEndian.Uint64 (panic test for a
//	             short slice in front), binary.BigEndian.AppendUint64, calls of other methods of the receiver
//
// No type checker is used: types come from the declarations of the file; an untyped constant takes the
// type of the other operand, as in Go.
//
// Shape of a translated method: the receiver is threaded through (`let b := { b with f := .. }` per
// assignment to a field); the result is [receiver after the call] x [returned value], the first part
// only if the method (or a method it calls) assigns a field, wrapped in `Option` (none = panic) only if
// the method (or a method it calls) contains a panic, an index / slice expression or a loop.
// A method call that changes the receiver or may panic is lifted in front of its statement
// (`let (b, r1) := ..` / `match .. with | none => none | some (b, r1) =>`); a statement with such a call
// must not read the receiver anywhere else (Go's order of evaluation would matter): the generator dies.
// Every `if` gets the rest of the function appended to both branches.
package main

import (
	"fmt"
	"go/ast"
	"go/constant"
	"go/printer"
	"go/token"
	"math/big"
	"regexp"
	"strconv"
	"strings"
)

func init() { register("BitFlow", genBitFlow) }

const bfFile = "go/pkg/bitstream.go"
const bfTablesFile = "go/pkg/bitstream_lookuptables.go"

// the methods the proofs of Proofs/BitFlowGen.lean talk about (their callees are translated as well)
var bfWanted = []struct {
	st      string
	methods []string
}{
	{"BitsReader", []string{"Reset", "Error", "Consume", "PeekBits", "PeekBit", "ReadBits", "ReadBit", "ReadUvarintCompact", "ReadVarintCompact"}},
	{"BitsWriter", []string{"Reset", "Close", "Bytes", "BitCount", "WriteBits", "WriteBit", "WriteUvarintCompact", "WriteVarintCompact"}},
}

type bfType int

const (
	bfNone bfType = iota
	bfUint
	bfUint64
	bfInt
	bfInt64
	bfByte
	bfBool
	bfError
	bfBytes
	bfUntyped
	bfNil
	bfOpaque
)

var bfGoName = map[bfType]string{bfNone: "(none)", bfUint: "uint", bfUint64: "uint64", bfInt: "int", bfInt64: "int64",
	bfByte: "byte", bfBool: "bool", bfError: "error", bfBytes: "[]byte", bfUntyped: "untyped constant", bfNil: "nil",
	bfOpaque: "(not modelled)"}

var bfLeanTy = map[bfType]string{bfUint: "Nat", bfUint64: "Word", bfInt: "Int", bfInt64: "Word", bfByte: "Byte",
	bfBool: "Bool", bfError: "GoError", bfBytes: "Bytes"}

type bfVal struct {
	lean string
	ty   bfType
	c    *big.Int // value of an untyped constant
}

type bfField struct {
	name string
	ty   bfType
	src  string
}

type bfStruct struct {
	name   string
	fields []bfField
}

func (s *bfStruct) field(name string) (bfField, bool) {
	for _, f := range s.fields {
		if f.name == name {
			return f, true
		}
	}
	return bfField{}, false
}

type bfTable struct {
	n       int
	elem    bfType
	leanNat bool // Gen/Tables.lean holds the values as Nat although the Go element type is uint64
}

type bfMethod struct {
	st         *bfStruct
	fd         *ast.FuncDecl
	goName     string
	lean       string
	recv       string
	paramNames []string
	params     []bfType
	result     bfType
	effect     bool // assigns a field of the receiver (directly or through a call)
	mayFail    bool // contains a panic, an index / slice expression, a loop (directly or through a call)
	analyzed   bool
	inProgress bool
	translated bool
}

type bfGen struct {
	fset    *token.FileSet
	file    *ast.File
	structs map[string]*bfStruct
	methods map[string]*bfMethod // "<Struct>.<Method>"
	tables  map[string]bfTable
	out     []string // emitted definitions, callees first
}

func (g *bfGen) fail(n ast.Node, f string, a ...any) {
	pos := ""
	if n != nil {
		pos = fmt.Sprintf("%s:%d: ", bfFile, g.fset.Position(n.Pos()).Line)
	}
	die("%s%s", pos, fmt.Sprintf(f, a...))
}

func (g *bfGen) src(n ast.Node) string {
	var sb strings.Builder
	if err := printer.Fprint(&sb, g.fset, n); err != nil {
		return fmt.Sprintf("<%T>", n)
	}
	return strings.Join(strings.Fields(sb.String()), " ")
}

var bfIdentRe = regexp.MustCompile(`^[A-Za-z][A-Za-z0-9_]*$`)
var bfTmpRe = regexp.MustCompile(`^r[0-9]+$`)
var bfReserved = map[string]bool{}

func init() {
	for _, w := range strings.Fields(`at by do end from fun have show then else if let match with where open in namespace
		section def theorem instance structure class inductive deriving mutual universe variable import export private
		protected partial unsafe macro syntax notation infix prefix postfix return for unless try catch finally mut break
		continue using calc exists forall Type Prop Sort true false some none decide Int Nat Word Byte Bytes Bool GoError
		Option nil panic len fuel loopFuel uadd usub umul uand uor uxor ushl ushr wrapI iadd isub idiv u64OfUint uintOfU64
		u64OfByte uintOfInt intOfUint leadingZeros64 appendUint64BE uint64BE BitVec List Gen Stef
		int uint uint64 int64 byte bool error bits binary io`) {
		bfReserved[w] = true
	}
}

func (g *bfGen) checkName(n ast.Node, name string) {
	if !bfIdentRe.MatchString(name) || bfReserved[name] || bfTmpRe.MatchString(name) {
		g.fail(n, "identifier %q cannot be used as a Lean name by this generator", name)
	}
}

func (g *bfGen) typeOf(e ast.Expr) bfType {
	switch v := e.(type) {
	case *ast.Ident:
		switch v.Name {
		case "uint":
			return bfUint
		case "uint64":
			return bfUint64
		case "int":
			return bfInt
		case "int64":
			return bfInt64
		case "byte", "uint8":
			return bfByte
		case "bool":
			return bfBool
		case "error":
			return bfError
		}
	case *ast.ArrayType:
		if v.Len == nil && g.typeOf(v.Elt) == bfByte {
			return bfBytes
		}
	}
	return bfOpaque
}

func bfTypeString(e ast.Expr) string {
	switch v := e.(type) {
	case *ast.Ident:
		return v.Name
	case *ast.SelectorExpr:
		return bfTypeString(v.X) + "." + v.Sel.Name
	case *ast.StarExpr:
		return "*" + bfTypeString(v.X)
	case *ast.ArrayType:
		if v.Len == nil {
			return "[]" + bfTypeString(v.Elt)
		}
	}
	return fmt.Sprintf("<%T>", e)
}

func (g *bfGen) structDecl(name string) *bfStruct {
	for _, d := range g.file.Decls {
		gd, ok := d.(*ast.GenDecl)
		if !ok || gd.Tok != token.TYPE {
			continue
		}
		for _, s := range gd.Specs {
			ts := s.(*ast.TypeSpec)
			if ts.Name.Name != name {
				continue
			}
			st, ok := ts.Type.(*ast.StructType)
			if !ok || ts.TypeParams != nil {
				g.fail(ts, "type %s is not a plain struct", name)
			}
			out := &bfStruct{name: name}
			for _, f := range st.Fields.List {
				if len(f.Names) == 0 {
					g.fail(f, "embedded field in %s", name)
				}
				for _, n := range f.Names {
					ty := g.typeOf(f.Type)
					if ty == bfOpaque {
						g.fail(f, "field %s.%s of type %s is not in the subset", name, n.Name, bfTypeString(f.Type))
					}
					g.checkName(n, n.Name)
					out.fields = append(out.fields, bfField{n.Name, ty, bfTypeString(f.Type)})
				}
			}
			return out
		}
	}
	die("%s: type %s not found", bfFile, name)
	return nil
}

// collectMethods: every method with a pointer receiver of one of the two structs.
func (g *bfGen) collectMethods() {
	for _, d := range g.file.Decls {
		fd, ok := d.(*ast.FuncDecl)
		if !ok || fd.Recv == nil || len(fd.Recv.List) != 1 {
			continue
		}
		star, ok := fd.Recv.List[0].Type.(*ast.StarExpr)
		if !ok {
			if id, ok := fd.Recv.List[0].Type.(*ast.Ident); ok && g.structs[id.Name] != nil {
				g.fail(fd, "method %s has a value receiver (not in the subset)", fd.Name.Name)
			}
			continue
		}
		id, ok := star.X.(*ast.Ident)
		if !ok || g.structs[id.Name] == nil {
			continue
		}
		key := id.Name + "." + fd.Name.Name
		if g.methods[key] != nil {
			g.fail(fd, "two methods %s", key)
		}
		g.methods[key] = &bfMethod{st: g.structs[id.Name], fd: fd, goName: fd.Name.Name,
			lean: id.Name + "." + lowerFirst(fd.Name.Name)}
	}
}

// signature: parameter / result types of a method that is going to be translated or called.
func (g *bfGen) signature(m *bfMethod) {
	if m.recv != "" {
		return
	}
	fd := m.fd
	if fd.Body == nil || fd.Type.TypeParams != nil {
		g.fail(fd, "method %s has no plain body", m.goName)
	}
	rn := fd.Recv.List[0].Names
	if len(rn) != 1 || rn[0].Name == "_" {
		g.fail(fd, "receiver without a name")
	}
	m.recv = rn[0].Name
	g.checkName(fd, m.recv)
	for _, p := range fd.Type.Params.List {
		if len(p.Names) == 0 {
			g.fail(p, "parameter without a name")
		}
		for _, n := range p.Names {
			ty := g.typeOf(p.Type)
			if ty == bfOpaque || ty == bfError {
				g.fail(p, "%s: parameter %s of type %s is not in the subset", m.goName, n.Name, bfTypeString(p.Type))
			}
			g.checkName(n, n.Name)
			if n.Name == m.recv {
				g.fail(p, "parameter %s has the name of the receiver", n.Name)
			}
			m.paramNames = append(m.paramNames, n.Name)
			m.params = append(m.params, ty)
		}
	}
	if fd.Type.Results != nil && len(fd.Type.Results.List) > 0 {
		if len(fd.Type.Results.List) != 1 || len(fd.Type.Results.List[0].Names) > 0 {
			g.fail(fd, "%s: more than one result or a named result", m.goName)
		}
		m.result = g.typeOf(fd.Type.Results.List[0].Type)
		if m.result == bfOpaque {
			g.fail(fd, "%s: result type %s is not in the subset", m.goName, bfTypeString(fd.Type.Results.List[0].Type))
		}
	}
}

// recvCall: e is `recv.M(..)` for a method M of the receiver's struct.
func (g *bfGen) recvCall(m *bfMethod, e ast.Node) (*bfMethod, *ast.CallExpr) {
	c, ok := e.(*ast.CallExpr)
	if !ok {
		return nil, nil
	}
	sel, ok := c.Fun.(*ast.SelectorExpr)
	if !ok || !isIdent(sel.X, m.recv) {
		return nil, nil
	}
	callee := g.methods[m.st.name+"."+sel.Sel.Name]
	if callee == nil {
		g.fail(c, "call of %s.%s, which is not a method of %s in %s", m.recv, sel.Sel.Name, m.st.name, bfFile)
	}
	return callee, c
}

func bfRoot(e ast.Expr) ast.Expr {
	for {
		switch v := unparen(e).(type) {
		case *ast.SelectorExpr:
			e = v.X
			continue
		case *ast.IndexExpr:
			e = v.X
			continue
		case *ast.StarExpr:
			e = v.X
			continue
		default:
			return v
		}
	}
}

// analyze: does the method change the receiver, can it panic (both through its callees as well)?
func (g *bfGen) analyze(m *bfMethod) {
	if m.analyzed {
		return
	}
	if m.inProgress {
		g.fail(m.fd, "method %s is recursive (not in the subset)", m.goName)
	}
	m.inProgress = true
	g.signature(m)
	ast.Inspect(m.fd.Body, func(n ast.Node) bool {
		switch v := n.(type) {
		case *ast.FuncLit:
			g.fail(v, "function literal")
		case *ast.AssignStmt:
			if v.Tok != token.DEFINE {
				for _, l := range v.Lhs {
					if _, isSel := unparen(l).(*ast.SelectorExpr); isSel && isIdent(bfRoot(l), m.recv) {
						m.effect = true
					}
				}
			}
		case *ast.IncDecStmt:
			if _, isSel := unparen(v.X).(*ast.SelectorExpr); isSel && isIdent(bfRoot(v.X), m.recv) {
				m.effect = true
			}
		case *ast.IndexExpr, *ast.SliceExpr, *ast.ForStmt:
			m.mayFail = true
		case *ast.CallExpr:
			if isIdent(v.Fun, "panic") {
				m.mayFail = true
			}
			if s, ok := v.Fun.(*ast.SelectorExpr); ok && s.Sel.Name == "Uint64" {
				m.mayFail = true
			}
			if callee, _ := g.recvCall(m, v); callee != nil {
				g.analyze(callee)
				m.effect = m.effect || callee.effect
				m.mayFail = m.mayFail || callee.mayFail
			}
		}
		return true
	})
	m.inProgress = false
	m.analyzed = true
}

// ---- one function ----

type bfFrame struct {
	stmts []ast.Stmt
	vars  map[string]bfType
	order []string
}

type bfFn struct {
	g     *bfGen
	m     *bfMethod
	recv  string
	vars  map[string]bfType
	order []string // the names of vars in the order of their declaration
	// the statement being translated:
	pre       []string // bounds tests and lifted calls, to be put in front of it
	nEff      int      // lifted calls that change the receiver
	nRecv     int      // reads of the receiver outside the arguments of such a call
	inEffArgs int
	tmp       *int
	// loops
	nloops    *int
	inLoop    bool
	loopOuter map[string]bool // locals declared outside the loop body (may not be assigned inside)
}

func bfCopyVars(m map[string]bfType) map[string]bfType {
	c := map[string]bfType{}
	for k, v := range m {
		c[k] = v
	}
	return c
}

func (t *bfFn) fork() *bfFn {
	c := *t
	c.vars = bfCopyVars(t.vars)
	c.order = append([]string(nil), t.order...)
	c.pre = nil
	c.nEff, c.nRecv, c.inEffArgs = 0, 0, 0
	return &c
}

func bfLit(c *big.Int, ty bfType) (string, bool) {
	lim63 := new(big.Int).Lsh(big.NewInt(1), 63)
	switch ty {
	case bfInt:
		if c.Cmp(lim63) >= 0 || c.Cmp(new(big.Int).Neg(lim63)) < 0 {
			return "", false
		}
		return fmt.Sprintf("(%s : Int)", c.String()), true
	case bfUint:
		if c.Sign() < 0 || c.Cmp(two64) >= 0 {
			return "", false
		}
		return c.String(), true
	case bfUint64:
		if c.Sign() < 0 || c.Cmp(two64) >= 0 {
			return "", false
		}
		return c.String() + "#64", true
	case bfInt64:
		if c.Cmp(lim63) >= 0 || c.Cmp(new(big.Int).Neg(lim63)) < 0 {
			return "", false
		}
		if c.Sign() >= 0 {
			return c.String() + "#64", true
		}
		return fmt.Sprintf("(BitVec.ofInt 64 (%s))", c.String()), true
	case bfByte:
		if c.Sign() < 0 || c.Cmp(big.NewInt(256)) >= 0 {
			return "", false
		}
		return c.String() + "#8", true
	}
	return "", false
}

// as: the value converted to the type ty of its context (only untyped constants and nil convert implicitly).
func (t *bfFn) as(n ast.Node, v bfVal, ty bfType) string {
	if v.ty == bfUntyped {
		s, ok := bfLit(v.c, ty)
		if !ok {
			t.g.fail(n, "constant %s cannot be used at type %s", v.c.String(), bfGoName[ty])
		}
		return s
	}
	if v.ty == bfNil {
		if ty != bfError {
			t.g.fail(n, "nil used at type %s (only error is in the subset)", bfGoName[ty])
		}
		return "false"
	}
	if v.ty != ty {
		t.g.fail(n, "type mismatch: %s used where %s is expected", bfGoName[v.ty], bfGoName[ty])
	}
	return v.lean
}

func (t *bfFn) shadowed(name string) bool { _, ok := t.vars[name]; return ok || name == t.recv }

func (t *bfFn) recvField(e ast.Expr) (bfField, bool) {
	s, ok := e.(*ast.SelectorExpr)
	if !ok || !isIdent(s.X, t.recv) {
		return bfField{}, false
	}
	f, ok := t.m.st.field(s.Sel.Name)
	if !ok {
		t.g.fail(e, "%s has no field %s", t.m.st.name, s.Sel.Name)
	}
	return f, true
}

func (t *bfFn) guard(cond, why string) {
	line := "if " + cond + " then none else  -- Go: " + why
	for _, p := range t.pre {
		if p == line {
			return
		}
	}
	t.pre = append(t.pre, line)
}

func bfFold(op token.Token, a, b *big.Int) (*big.Int, bool) {
	r := new(big.Int)
	switch op {
	case token.ADD:
		return r.Add(a, b), true
	case token.SUB:
		return r.Sub(a, b), true
	case token.MUL:
		return r.Mul(a, b), true
	case token.AND:
		return r.And(a, b), true
	case token.OR:
		return r.Or(a, b), true
	case token.XOR:
		return r.Xor(a, b), true
	case token.SHL, token.SHR:
		if b.Sign() < 0 || b.Cmp(big.NewInt(4096)) > 0 {
			return nil, false
		}
		if op == token.SHL {
			return r.Lsh(a, uint(b.Int64())), true
		}
		return r.Rsh(a, uint(b.Int64())), true
	}
	return nil, false
}

var bfCmp = map[token.Token]string{token.EQL: "=", token.NEQ: "≠", token.LSS: "<", token.LEQ: "≤", token.GTR: ">", token.GEQ: "≥"}

func (t *bfFn) expr(e ast.Expr) bfVal {
	g := t.g
	switch v := e.(type) {
	case *ast.ParenExpr:
		return t.expr(v.X)
	case *ast.BasicLit:
		if v.Kind != token.INT {
			g.fail(v, "literal %s: only integer literals are in the subset", v.Value)
		}
		return bfVal{ty: bfUntyped, c: bigOf(constant.MakeFromLiteral(v.Value, v.Kind, 0))}
	case *ast.Ident:
		if ty, ok := t.vars[v.Name]; ok {
			return bfVal{lean: v.Name, ty: ty}
		}
		if v.Name == t.recv {
			g.fail(v, "the receiver used as a value")
		}
		switch v.Name {
		case "true", "false":
			return bfVal{lean: v.Name, ty: bfBool}
		case "nil":
			return bfVal{ty: bfNil}
		}
		g.fail(v, "identifier %s is neither a local nor a parameter", v.Name)
	case *ast.SelectorExpr:
		if f, ok := t.recvField(v); ok {
			if t.inEffArgs == 0 {
				t.nRecv++
			}
			return bfVal{lean: t.recv + "." + f.name, ty: f.ty}
		}
		if isIdent(v.X, "io") && !t.shadowed("io") && v.Sel.Name == "EOF" {
			return bfVal{lean: "true", ty: bfError}
		}
		g.fail(v, "selector %s is neither a field of the receiver nor io.EOF", g.src(v))
	case *ast.IndexExpr:
		return t.index(v)
	case *ast.SliceExpr:
		return t.slice(v)
	case *ast.UnaryExpr:
		x := t.expr(v.X)
		switch {
		case v.Op == token.NOT && x.ty == bfBool:
			return bfVal{lean: "(!" + x.lean + ")", ty: bfBool}
		case v.Op == token.SUB && x.ty == bfUntyped:
			return bfVal{ty: bfUntyped, c: new(big.Int).Neg(x.c)}
		case v.Op == token.ADD && x.ty == bfUntyped:
			return x
		case v.Op == token.SUB && x.ty == bfUint64:
			return bfVal{lean: "(0#64 - " + x.lean + ")", ty: bfUint64} // Go: -x is 0 - x
		}
		g.fail(v, "unary operator %s at type %s is not in the subset", v.Op, bfGoName[x.ty])
	case *ast.BinaryExpr:
		return t.binary(v)
	case *ast.CallExpr:
		return t.call(v)
	}
	g.fail(e, "expression form %T (`%s`) is not in the subset", e, g.src(e))
	return bfVal{}
}

// natIndex: an index / bound of type uint, int or an untyped constant as (Lean Nat term, test "negative" or "").
func (t *bfFn) natIndex(n ast.Expr) (nat string, neg string) {
	i := t.expr(n)
	switch i.ty {
	case bfUint:
		return i.lean, ""
	case bfInt:
		return "(" + i.lean + ").toNat", i.lean + " < 0"
	case bfUntyped:
		if i.c.Sign() < 0 || i.c.Cmp(two64) >= 0 {
			t.g.fail(n, "constant index %s", i.c.String())
		}
		return i.c.String(), ""
	}
	t.g.fail(n, "index of type %s is not in the subset", bfGoName[i.ty])
	return "", ""
}

func bfOr(neg, cond string) string {
	if neg == "" {
		return "decide (" + cond + ")"
	}
	return "decide (" + neg + " ∨ " + cond + ")"
}

func (t *bfFn) index(v *ast.IndexExpr) bfVal {
	g := t.g
	if id, ok := v.X.(*ast.Ident); ok && !t.shadowed(id.Name) {
		tb, ok := g.tables[id.Name]
		if !ok {
			g.fail(v, "%s is not one of the lookup tables of %s", id.Name, bfTablesFile)
		}
		nat, neg := t.natIndex(v.Index)
		t.guard(bfOr(neg, fmt.Sprintf("%s ≥ %d", nat, tb.n)), "index out of range panics")
		if tb.leanNat {
			return bfVal{lean: fmt.Sprintf("(u64OfUint (Stef.Gen.%s %s))", id.Name, nat), ty: tb.elem}
		}
		return bfVal{lean: fmt.Sprintf("(Stef.Gen.%s %s)", id.Name, nat), ty: tb.elem}
	}
	x := t.expr(v.X)
	if x.ty != bfBytes {
		g.fail(v, "index expression on a value of type %s", bfGoName[x.ty])
	}
	nat, neg := t.natIndex(v.Index)
	t.guard(bfOr(neg, fmt.Sprintf("%s ≥ (%s).length", nat, x.lean)), "index out of range panics")
	return bfVal{lean: fmt.Sprintf("((%s).getD %s 0#8)", x.lean, nat), ty: bfByte}
}

func (t *bfFn) slice(v *ast.SliceExpr) bfVal {
	g := t.g
	if v.Slice3 {
		g.fail(v, "3-index slice")
	}
	x := t.expr(v.X)
	if x.ty != bfBytes {
		g.fail(v, "slice expression on a value of type %s", bfGoName[x.ty])
	}
	switch {
	case v.Low != nil && v.High == nil:
		nat, neg := t.natIndex(v.Low)
		t.guard(bfOr(neg, fmt.Sprintf("%s > (%s).length", nat, x.lean)), "slice bounds out of range panics")
		return bfVal{lean: fmt.Sprintf("((%s).drop %s)", x.lean, nat), ty: bfBytes}
	case v.Low == nil && v.High != nil:
		nat, neg := t.natIndex(v.High)
		t.guard(bfOr(neg, fmt.Sprintf("%s > (%s).length", nat, x.lean)), "slice bounds out of range panics (cap not modelled: len is the bound)")
		return bfVal{lean: fmt.Sprintf("((%s).take %s)", x.lean, nat), ty: bfBytes}
	}
	g.fail(v, "slice expression `%s`: only s[i:] and s[:n] are in the subset", g.src(v))
	return bfVal{}
}

// unify: the common type of the two operands of an arithmetic / comparison operator.
func (t *bfFn) unify(n ast.Node, l, r bfVal) (string, string, bfType) {
	ty := l.ty
	if ty == bfUntyped || ty == bfNil {
		ty = r.ty
	}
	if ty == bfNil {
		t.g.fail(n, "nil on both sides")
	}
	return t.as(n, l, ty), t.as(n, r, ty), ty
}

// shiftCount: the count of a shift as a Lean Nat term.
func (t *bfFn) shiftCount(n ast.Expr, c bfVal) string {
	switch c.ty {
	case bfUntyped:
		if c.c.Sign() < 0 || c.c.Cmp(big.NewInt(1<<20)) > 0 {
			t.g.fail(n, "constant shift count %s", c.c.String())
		}
		return c.c.String()
	case bfUint:
		return c.lean
	case bfUint64:
		return "(" + c.lean + ").toNat"
	}
	t.g.fail(n, "shift count of type %s is not in the subset (only unsigned counts and constants)", bfGoName[c.ty])
	return ""
}

func (t *bfFn) binary(v *ast.BinaryExpr) bfVal {
	g := t.g
	switch v.Op {
	case token.LAND, token.LOR:
		l := t.expr(v.X)
		before := len(t.pre)
		r := t.expr(v.Y)
		if len(t.pre) != before {
			g.fail(v.Y, "an expression that can panic or a call that changes the receiver on the right of && / || is not in the subset (it would be conditional)")
		}
		if l.ty != bfBool || r.ty != bfBool {
			g.fail(v, "operands of %s must be bool", v.Op)
		}
		op := " && "
		if v.Op == token.LOR {
			op = " || "
		}
		return bfVal{lean: "(" + l.lean + op + r.lean + ")", ty: bfBool}
	case token.EQL, token.NEQ, token.LSS, token.LEQ, token.GTR, token.GEQ:
		l, r := t.expr(v.X), t.expr(v.Y)
		if l.ty == bfUntyped && r.ty == bfUntyped {
			c := l.c.Cmp(r.c)
			res := map[token.Token]bool{token.EQL: c == 0, token.NEQ: c != 0, token.LSS: c < 0, token.LEQ: c <= 0, token.GTR: c > 0, token.GEQ: c >= 0}[v.Op]
			return bfVal{lean: strconv.FormatBool(res), ty: bfBool}
		}
		ls, rs, ty := t.unify(v, l, r)
		eq := v.Op == token.EQL || v.Op == token.NEQ
		switch {
		case ty == bfUint || ty == bfInt:
			return bfVal{lean: fmt.Sprintf("decide (%s %s %s)", ls, bfCmp[v.Op], rs), ty: bfBool}
		case (ty == bfUint64 || ty == bfByte) && !eq: // BitVec < ≤ are the unsigned orders
			return bfVal{lean: fmt.Sprintf("decide (%s %s %s)", ls, bfCmp[v.Op], rs), ty: bfBool}
		case (ty == bfUint64 || ty == bfByte || ty == bfInt64 || ty == bfBool || ty == bfError) && v.Op == token.EQL:
			return bfVal{lean: fmt.Sprintf("(%s == %s)", ls, rs), ty: bfBool}
		case (ty == bfUint64 || ty == bfByte || ty == bfInt64 || ty == bfBool || ty == bfError) && v.Op == token.NEQ:
			return bfVal{lean: fmt.Sprintf("(%s != %s)", ls, rs), ty: bfBool}
		}
		g.fail(v, "comparison %s at type %s is not in the subset", v.Op, bfGoName[ty])
	case token.SHL, token.SHR:
		l, c := t.expr(v.X), t.expr(v.Y)
		if l.ty == bfUntyped {
			if c.ty != bfUntyped {
				g.fail(v, "shift of an untyped constant by a non-constant count is not in the subset")
			}
			r, ok := bfFold(v.Op, l.c, c.c)
			if !ok {
				g.fail(v, "constant shift cannot be evaluated")
			}
			return bfVal{ty: bfUntyped, c: r}
		}
		cnt := t.shiftCount(v.Y, c)
		switch {
		case l.ty == bfUint64 && v.Op == token.SHL, l.ty == bfInt64 && v.Op == token.SHL:
			return bfVal{lean: fmt.Sprintf("(%s <<< %s)", l.lean, cnt), ty: l.ty}
		case l.ty == bfUint64 && v.Op == token.SHR:
			return bfVal{lean: fmt.Sprintf("(%s >>> %s)", l.lean, cnt), ty: l.ty}
		case l.ty == bfInt64 && v.Op == token.SHR: // arithmetic shift
			return bfVal{lean: fmt.Sprintf("(BitVec.sshiftRight %s %s)", l.lean, cnt), ty: l.ty}
		case l.ty == bfUint && v.Op == token.SHL:
			return bfVal{lean: fmt.Sprintf("(ushl %s %s)", l.lean, cnt), ty: l.ty}
		case l.ty == bfUint && v.Op == token.SHR:
			return bfVal{lean: fmt.Sprintf("(ushr %s %s)", l.lean, cnt), ty: l.ty}
		}
		g.fail(v, "shift of a value of type %s is not in the subset", bfGoName[l.ty])
	case token.ADD, token.SUB, token.MUL, token.AND, token.OR, token.XOR, token.QUO:
		l, r := t.expr(v.X), t.expr(v.Y)
		if l.ty == bfUntyped && r.ty == bfUntyped {
			c, ok := bfFold(v.Op, l.c, r.c)
			if !ok {
				g.fail(v, "constant expression cannot be evaluated")
			}
			return bfVal{ty: bfUntyped, c: c}
		}
		ls, rs, ty := t.unify(v, l, r)
		if v.Op == token.QUO {
			if r.ty != bfUntyped || r.c.Sign() <= 0 {
				g.fail(v, "division by something that is not a positive constant is not in the subset")
			}
			switch ty {
			case bfUint:
				return bfVal{lean: fmt.Sprintf("(%s / %s)", ls, rs), ty: ty}
			case bfInt:
				return bfVal{lean: fmt.Sprintf("(idiv %s %s)", ls, rs), ty: ty}
			}
			g.fail(v, "division at type %s is not in the subset", bfGoName[ty])
		}
		switch ty {
		case bfUint:
			fn := map[token.Token]string{token.ADD: "uadd", token.SUB: "usub", token.MUL: "umul", token.AND: "uand", token.OR: "uor", token.XOR: "uxor"}[v.Op]
			return bfVal{lean: fmt.Sprintf("(%s %s %s)", fn, ls, rs), ty: ty}
		case bfInt:
			fn := map[token.Token]string{token.ADD: "iadd", token.SUB: "isub"}[v.Op]
			if fn != "" {
				return bfVal{lean: fmt.Sprintf("(%s %s %s)", fn, ls, rs), ty: ty}
			}
		case bfUint64, bfInt64: // two's complement: the same bit patterns for both
			op := map[token.Token]string{token.ADD: "+", token.SUB: "-", token.MUL: "*", token.AND: "&&&", token.OR: "|||", token.XOR: "^^^"}[v.Op]
			return bfVal{lean: fmt.Sprintf("(%s %s %s)", ls, op, rs), ty: ty}
		}
		g.fail(v, "operator %s at type %s is not in the subset", v.Op, bfGoName[ty])
	}
	g.fail(v, "binary operator %s is not in the subset", v.Op)
	return bfVal{}
}

func (t *bfFn) call(v *ast.CallExpr) bfVal {
	g := t.g
	if v.Ellipsis != token.NoPos {
		g.fail(v, "variadic call")
	}
	if id, ok := v.Fun.(*ast.Ident); ok && !t.shadowed(id.Name) {
		switch id.Name {
		case "uint", "uint64", "int", "int64":
			if len(v.Args) != 1 {
				g.fail(v, "conversion with %d arguments", len(v.Args))
			}
			to := map[string]bfType{"uint": bfUint, "uint64": bfUint64, "int": bfInt, "int64": bfInt64}[id.Name]
			x := t.expr(v.Args[0])
			switch {
			case x.ty == bfUntyped:
				return bfVal{lean: t.as(v, x, to), ty: to}
			case x.ty == to:
				return x
			case x.ty == bfUint && to == bfUint64:
				return bfVal{lean: "(u64OfUint " + x.lean + ")", ty: to}
			case x.ty == bfUint64 && to == bfUint:
				return bfVal{lean: "(uintOfU64 " + x.lean + ")", ty: to}
			case x.ty == bfByte && to == bfUint64:
				return bfVal{lean: "(u64OfByte " + x.lean + ")", ty: to}
			case x.ty == bfInt && to == bfUint:
				return bfVal{lean: "(uintOfInt " + x.lean + ")", ty: to}
			case x.ty == bfUint && to == bfInt:
				return bfVal{lean: "(intOfUint " + x.lean + ")", ty: to}
			case x.ty == bfInt64 && to == bfUint64, x.ty == bfUint64 && to == bfInt64:
				return bfVal{lean: x.lean, ty: to} // the same bit pattern
			}
			g.fail(v, "conversion from %s to %s is not in the subset", bfGoName[x.ty], id.Name)
		case "len":
			if len(v.Args) != 1 {
				g.fail(v, "len with %d arguments", len(v.Args))
			}
			x := t.expr(v.Args[0])
			if x.ty != bfBytes {
				g.fail(v, "len of a value of type %s", bfGoName[x.ty])
			}
			return bfVal{lean: "(len " + x.lean + ")", ty: bfInt}
		}
		g.fail(v, "call of %s is not in the whitelist", id.Name)
	}
	sel, ok := v.Fun.(*ast.SelectorExpr)
	if !ok {
		g.fail(v, "call form `%s` is not in the subset", g.src(v))
	}
	if isIdent(sel.X, "bits") && !t.shadowed("bits") && sel.Sel.Name == "LeadingZeros64" && len(v.Args) == 1 {
		return bfVal{lean: "(leadingZeros64 " + t.as(v.Args[0], t.expr(v.Args[0]), bfUint64) + ")", ty: bfInt}
	}
	if s2, ok := sel.X.(*ast.SelectorExpr); ok && isIdent(s2.X, "binary") && !t.shadowed("binary") && s2.Sel.Name == "BigEndian" {
		switch {
		case sel.Sel.Name == "Uint64" && len(v.Args) == 1:
			s := t.as(v.Args[0], t.expr(v.Args[0]), bfBytes)
			t.guard(fmt.Sprintf("decide ((%s).length < 8)", s), "binary.BigEndian.Uint64 of fewer than 8 bytes panics")
			return bfVal{lean: "(uint64BE " + s + ")", ty: bfUint64}
		case sel.Sel.Name == "AppendUint64" && len(v.Args) == 2:
			s := t.as(v.Args[0], t.expr(v.Args[0]), bfBytes)
			w := t.as(v.Args[1], t.expr(v.Args[1]), bfUint64)
			return bfVal{lean: fmt.Sprintf("(appendUint64BE %s %s)", s, w), ty: bfBytes}
		}
		g.fail(v, "library call %s is not in the whitelist", g.src(v.Fun))
	}
	if callee, _ := g.recvCall(t.m, v); callee != nil {
		return t.methodCall(v, callee)
	}
	g.fail(v, "call of %s is not in the whitelist", g.src(v.Fun))
	return bfVal{}
}

// methodCall: recv.M(args). A method that neither changes the receiver nor can panic stays inside the
// expression; any other call is lifted in front of the statement.
func (t *bfFn) methodCall(v *ast.CallExpr, callee *bfMethod) bfVal {
	g := t.g
	g.translate(callee)
	if len(v.Args) != len(callee.params) {
		g.fail(v, "call of %s with %d arguments", callee.goName, len(v.Args))
	}
	if callee.effect {
		t.inEffArgs++
	}
	args := []string{t.recv}
	for i, a := range v.Args {
		args = append(args, t.as(a, t.expr(a), callee.params[i]))
	}
	if callee.effect {
		t.inEffArgs--
		t.nEff++
	} else if t.inEffArgs == 0 {
		t.nRecv++
	}
	app := callee.lean + " " + strings.Join(args, " ")
	if !callee.effect && !callee.mayFail {
		if callee.result == bfNone {
			g.fail(v, "call of %s, which has neither an effect nor a result", callee.goName)
		}
		return bfVal{lean: "(" + app + ")", ty: callee.result}
	}
	var pat, res string
	if callee.result != bfNone {
		*t.tmp++
		res = fmt.Sprintf("r%d", *t.tmp)
	}
	switch {
	case callee.effect && res != "":
		pat = "(" + t.recv + ", " + res + ")"
	case callee.effect:
		pat = t.recv
	default:
		pat = res
	}
	if callee.mayFail {
		t.pre = append(t.pre, "match "+app+" with", "| none => none", "| some "+pat+" =>")
	} else {
		t.pre = append(t.pre, "let "+pat+" := "+app)
	}
	return bfVal{lean: res, ty: callee.result}
}

// flush: the lines to put in front of the statement just translated.
func (t *bfFn) flush(n ast.Node, ind string, lines []string) []string {
	if t.nEff > 1 || (t.nEff == 1 && t.nRecv > 0) {
		t.g.fail(n, "statement `%s` calls a method that changes the receiver and reads the receiver elsewhere: Go's order of evaluation would matter (not in the subset)", t.g.src(n))
	}
	var out []string
	for _, p := range t.pre {
		out = append(out, ind+p)
	}
	t.pre, t.nEff, t.nRecv = nil, 0, 0
	return append(out, lines...)
}

func (t *bfFn) declare(n ast.Node, name string, ty bfType) {
	t.g.checkName(n, name)
	if t.shadowed(name) {
		t.g.fail(n, "declaration of %s shadows a name in scope (not in the subset)", name)
	}
	if _, isTable := t.g.tables[name]; isTable {
		t.g.fail(n, "declaration of %s shadows a lookup table (not in the subset)", name)
	}
	t.vars[name] = ty
	t.order = append(t.order, name)
}

func (t *bfFn) resultLine(n ast.Node, value string) string {
	var parts []string
	if t.m.effect {
		parts = append(parts, t.recv)
	}
	if value != "" {
		parts = append(parts, value)
	}
	if len(parts) == 0 {
		t.g.fail(n, "method %s has neither an effect nor a result", t.m.goName)
	}
	s := parts[0]
	if len(parts) > 1 {
		s = "(" + strings.Join(parts, ", ") + ")"
	}
	if t.m.mayFail {
		return "some " + s
	}
	return s
}

type bfFinish func(t *bfFn, ind string) []string

// block: the statements of list, then those of rest (the statements that follow the enclosing blocks),
// then fin.
func (t *bfFn) block(list []ast.Stmt, rest []bfFrame, ind string, fin bfFinish) []string {
	g := t.g
	if len(list) == 0 {
		if len(rest) > 0 {
			// leave the block: its locals go out of scope
			t.vars = bfCopyVars(rest[0].vars)
			t.order = append([]string(nil), rest[0].order...)
			return t.block(rest[0].stmts, rest[1:], ind, fin)
		}
		return fin(t, ind)
	}
	s, tail := list[0], list[1:]
	cont := func(lines []string) []string { return append(lines, t.block(tail, rest, ind, fin)...) }
	switch v := s.(type) {
	case *ast.EmptyStmt:
		return cont(nil)
	case *ast.IncDecStmt:
		op := token.ADD
		if v.Tok == token.DEC {
			op = token.SUB
		}
		one := &ast.BasicLit{ValuePos: v.Pos(), Kind: token.INT, Value: "1"}
		return cont(t.assign(v, v.X, &ast.BinaryExpr{X: v.X, OpPos: v.Pos(), Op: op, Y: one}, token.ASSIGN, ind))
	case *ast.AssignStmt:
		if len(v.Lhs) != 1 || len(v.Rhs) != 1 {
			g.fail(v, "assignment with several values is not in the subset")
		}
		base, compound := map[token.Token]token.Token{token.ADD_ASSIGN: token.ADD, token.SUB_ASSIGN: token.SUB,
			token.MUL_ASSIGN: token.MUL, token.OR_ASSIGN: token.OR, token.AND_ASSIGN: token.AND, token.XOR_ASSIGN: token.XOR,
			token.SHL_ASSIGN: token.SHL, token.SHR_ASSIGN: token.SHR}[v.Tok]
		switch {
		case compound:
			return cont(t.assign(v, v.Lhs[0], &ast.BinaryExpr{X: v.Lhs[0], OpPos: v.TokPos, Op: base, Y: v.Rhs[0]}, token.ASSIGN, ind))
		case v.Tok == token.DEFINE || v.Tok == token.ASSIGN:
			return cont(t.assign(v, v.Lhs[0], v.Rhs[0], v.Tok, ind))
		}
		g.fail(v, "assignment operator %s is not in the subset", v.Tok)
	case *ast.ExprStmt:
		c, ok := v.X.(*ast.CallExpr)
		if !ok {
			g.fail(v, "expression statement is not a call")
		}
		if isIdent(c.Fun, "panic") && !t.shadowed("panic") {
			return []string{ind + "none  -- Go: " + g.src(c)} // what follows is not reached
		}
		callee, _ := g.recvCall(t.m, c)
		if callee == nil {
			g.fail(v, "call statement `%s` is not in the whitelist (only methods of the receiver)", g.src(c))
		}
		g.analyze(callee)
		if !callee.effect && !callee.mayFail {
			g.fail(v, "call statement `%s` has no effect", g.src(c))
		}
		t.methodCall(c, callee)
		return cont(t.flush(v, ind, nil))
	case *ast.ReturnStmt:
		var line string
		switch {
		case t.inLoop:
			g.fail(v, "return inside a for loop is not in the subset")
		case t.m.result == bfNone && len(v.Results) == 0:
			line = t.resultLine(v, "")
		case t.m.result != bfNone && len(v.Results) == 1:
			val := t.as(v.Results[0], t.expr(v.Results[0]), t.m.result)
			line = t.resultLine(v, val)
		default:
			g.fail(v, "return with %d values in a method with result type %s", len(v.Results), bfGoName[t.m.result])
		}
		return t.flush(v, ind, []string{ind + line}) // what follows is not reached
	case *ast.IfStmt:
		if v.Init != nil {
			g.fail(v, "if with an init statement is not in the subset")
		}
		cond := t.expr(v.Cond)
		if cond.ty != bfBool {
			g.fail(v.Cond, "condition is not a bool")
		}
		var els []ast.Stmt
		switch e := v.Else.(type) {
		case nil:
		case *ast.BlockStmt:
			els = e.List
		case *ast.IfStmt:
			els = []ast.Stmt{e}
		default:
			g.fail(v.Else, "else form")
		}
		// the rest of the function follows both branches
		rest2 := append([]bfFrame{{tail, bfCopyVars(t.vars), append([]string(nil), t.order...)}}, rest...)
		lines := t.flush(v.Cond, ind, []string{ind + "if " + cond.lean + " then"})
		lines = append(lines, t.fork().block(v.Body.List, rest2, ind+"  ", fin)...)
		lines = append(lines, ind+"else")
		lines = append(lines, t.fork().block(els, rest2, ind+"  ", fin)...)
		return lines
	case *ast.ForStmt:
		return cont(t.forStmt(v, ind))
	}
	g.fail(s, "statement form %T (`%s`) is not in the subset", s, g.src(s))
	return nil
}

func (t *bfFn) assign(n ast.Node, lhsE, rhsE ast.Expr, tok token.Token, ind string) []string {
	g := t.g
	rhs := t.expr(rhsE)
	lhs := unparen(lhsE)
	if tok == token.DEFINE {
		id, ok := lhs.(*ast.Ident)
		if !ok {
			g.fail(n, "left side of :=")
		}
		ty := rhs.ty
		if ty == bfUntyped {
			ty = bfInt // Go's default type of an integer constant
		}
		if _, ok := bfLeanTy[ty]; !ok {
			g.fail(n, "local of type %s", bfGoName[ty])
		}
		val := t.as(n, rhs, ty)
		t.declare(id, id.Name, ty)
		return t.flush(n, ind, []string{fmt.Sprintf("%slet %s : %s := %s", ind, id.Name, bfLeanTy[ty], val)})
	}
	switch l := lhs.(type) {
	case *ast.Ident:
		ty, ok := t.vars[l.Name]
		if !ok {
			g.fail(n, "assignment to %s, which is not a local variable or parameter", l.Name)
		}
		if t.inLoop && t.loopOuter[l.Name] {
			g.fail(n, "assignment inside a for loop to %s, which is declared outside of it, is not in the subset", l.Name)
		}
		return t.flush(n, ind, []string{fmt.Sprintf("%slet %s : %s := %s", ind, l.Name, bfLeanTy[ty], t.as(n, rhs, ty))})
	case *ast.SelectorExpr:
		f, ok := t.recvField(l)
		if !ok {
			g.fail(n, "assignment to %s, which is not a field of the receiver", g.src(l))
		}
		return t.flush(n, ind, []string{fmt.Sprintf("%slet %s := { %s with %s := %s }", ind, t.recv, t.recv, f.name, t.as(n, rhs, f.ty))})
	}
	g.fail(n, "left side of the assignment `%s` is not in the subset", g.src(n))
	return nil
}

// forStmt: `for cond { body }` becomes a function of its own, structurally recursive over a fuel
// argument; it takes the receiver and the locals in scope and returns the receiver.
func (t *bfFn) forStmt(v *ast.ForStmt, ind string) []string {
	g := t.g
	if v.Init != nil || v.Post != nil || v.Cond == nil {
		g.fail(v, "for statement with init / post or without condition is not in the subset")
	}
	if t.inLoop {
		g.fail(v, "nested for loop is not in the subset")
	}
	if !t.m.effect {
		g.fail(v, "for loop in a method that does not change the receiver")
	}
	ast.Inspect(v.Body, func(n ast.Node) bool {
		switch n.(type) {
		case *ast.BranchStmt, *ast.LabeledStmt, *ast.ReturnStmt:
			g.fail(n, "`%s` inside a for loop is not in the subset", g.src(n))
		}
		return true
	})
	*t.nloops++
	name := fmt.Sprintf("%s_loop%d", t.m.lean, *t.nloops)
	var ptys, pnames []string
	for _, n := range t.order {
		ptys = append(ptys, bfLeanTy[t.vars[n]])
		pnames = append(pnames, n)
	}
	body := t.fork()
	body.inLoop = true
	body.loopOuter = map[string]bool{}
	for n := range t.vars {
		body.loopOuter[n] = true
	}
	cond := body.expr(v.Cond)
	if cond.ty != bfBool {
		g.fail(v.Cond, "condition is not a bool")
	}
	if len(body.pre) != 0 {
		g.fail(v.Cond, "loop condition `%s` can panic or changes the receiver (not in the subset)", g.src(v.Cond))
	}
	body.nRecv = 0
	args := strings.Join(append([]string{t.recv}, pnames...), " ")
	pats := strings.Join(append([]string{t.recv}, pnames...), ", ")
	lines := body.block(v.Body.List, nil, "      ", func(b *bfFn, ind string) []string {
		return []string{ind + name + " fuel " + args}
	})
	var sb strings.Builder
	fmt.Fprintf(&sb, "/-- go: the loop `for %s { .. }` of %s.%s: the receiver after the loop; `none` = a panic inside, or the\n    loop has not ended after `fuel` rounds. -/\n",
		g.src(v.Cond), t.m.st.name, t.m.goName)
	fmt.Fprintf(&sb, "def %s : Nat → %s → Option %s\n", name, strings.Join(append([]string{t.m.st.name}, ptys...), " → "), t.m.st.name)
	fmt.Fprintf(&sb, "  | 0, %s => none\n", pats)
	fmt.Fprintf(&sb, "  | fuel + 1, %s =>\n", pats)
	fmt.Fprintf(&sb, "    if %s then\n%s\n    else\n      some %s\n", cond.lean, strings.Join(lines, "\n"), t.recv)
	g.out = append(g.out, sb.String())
	return []string{ind + "match " + name + " loopFuel " + args + " with", ind + "| none => none", ind + "| some " + t.recv + " =>"}
}

func (g *bfGen) translate(m *bfMethod) {
	if m.translated {
		return
	}
	g.analyze(m)
	m.translated = true // (recursion was excluded by analyze)
	tmp, nloops := 0, 0
	t := &bfFn{g: g, m: m, recv: m.recv, vars: map[string]bfType{}, tmp: &tmp, nloops: &nloops}
	var params []string
	for i, n := range m.paramNames {
		t.declare(m.fd, n, m.params[i])
		params = append(params, fmt.Sprintf("(%s : %s)", n, bfLeanTy[m.params[i]]))
	}
	var retTy []string
	doc := ""
	if m.effect {
		retTy = append(retTy, m.st.name)
		doc = "the receiver after the call"
	}
	if m.result != bfNone {
		retTy = append(retTy, bfLeanTy[m.result])
		if doc != "" {
			doc += " and "
		}
		doc += "the result"
	}
	if len(retTy) == 0 {
		g.fail(m.fd, "method %s has neither an effect nor a result", m.goName)
	}
	rt := strings.Join(retTy, " × ")
	if m.mayFail {
		if len(retTy) > 1 {
			rt = "(" + rt + ")"
		}
		rt = "Option " + rt
		doc = "`none` = the Go method panics; otherwise " + doc
	}
	fin := func(t *bfFn, ind string) []string {
		if t.m.result != bfNone {
			g.fail(m.fd, "the end of %s is reached without a return", m.goName)
		}
		return []string{ind + t.resultLine(m.fd, "")}
	}
	lines := t.block(m.fd.Body.List, nil, "  ", fin)
	sig := g.src(&ast.FuncDecl{Recv: m.fd.Recv, Name: m.fd.Name, Type: m.fd.Type})
	g.out = append(g.out, fmt.Sprintf("/-- go: %s. Value: %s. -/\ndef %s (%s : %s) %s : %s :=\n%s\n",
		sig, doc, m.lean, m.recv, m.st.name, strings.Join(params, " "), rt, strings.Join(lines, "\n")))
}

func (g *bfGen) leanStruct(st *bfStruct) string {
	var sb strings.Builder
	fmt.Fprintf(&sb, "/-- go: type %s struct -/\nstructure %s where\n", st.name, st.name)
	for _, f := range st.fields {
		fmt.Fprintf(&sb, "  %s : %s  -- %s\n", f.name, bfLeanTy[f.ty], f.src)
	}
	return sb.String()
}

// bfTables: the lookup tables (Gen/Tables.lean holds their values): name -> length, element type.
func (g *bfGen) readTables() {
	_, f := parseFile(bfTablesFile)
	known := map[string]bfType{"writeBitsCountByZeros": bfUint, "writeMaskByZeros": bfUint64, "readShiftByZeros": bfUint64,
		"readMaskByZeros": bfUint64, "readConsumeCountByZeros": bfUint}
	for _, d := range f.Decls {
		gd, ok := d.(*ast.GenDecl)
		if !ok || gd.Tok != token.VAR {
			continue
		}
		for _, s := range gd.Specs {
			vs := s.(*ast.ValueSpec)
			if len(vs.Names) != 1 || len(vs.Values) != 1 {
				continue
			}
			want, ok := known[vs.Names[0].Name]
			if !ok {
				continue
			}
			cl, ok := vs.Values[0].(*ast.CompositeLit)
			if !ok {
				die("%s: %s is not a composite literal", bfTablesFile, vs.Names[0].Name)
			}
			at, ok := cl.Type.(*ast.ArrayType)
			if !ok || at.Len == nil {
				die("%s: %s is not a fixed-size array", bfTablesFile, vs.Names[0].Name)
			}
			n := bigOf((&constEnv{vals: map[string]constant.Value{}}).eval(at.Len)).Int64()
			elem := g.typeOf(at.Elt)
			if elem != want {
				die("%s: %s has element type %s; Gen/Tables.lean and the vocabulary assume %s", bfTablesFile, vs.Names[0].Name,
					bfTypeString(at.Elt), bfGoName[want])
			}
			if n != 65 {
				die("%s: %s has length %d; Gen/Tables.lean assumes 65", bfTablesFile, vs.Names[0].Name, n)
			}
			// (genTables of main.go writes readShiftByZeros as a table of Nat)
			g.tables[vs.Names[0].Name] = bfTable{int(n), elem, vs.Names[0].Name == "readShiftByZeros"}
		}
	}
	for name := range known {
		if _, ok := g.tables[name]; !ok {
			die("%s: table %s not found", bfTablesFile, name)
		}
	}
}

func genBitFlow() {
	fset, f := parseFile(bfFile)
	g := &bfGen{fset: fset, file: f, structs: map[string]*bfStruct{}, methods: map[string]*bfMethod{}, tables: map[string]bfTable{}}
	// imports the whitelisted calls rely on
	want := map[string]string{"binary": "encoding/binary", "io": "io", "bits": "math/bits"}
	for _, im := range f.Imports {
		path, _ := strconv.Unquote(im.Path.Value)
		name := path[strings.LastIndex(path, "/")+1:]
		if im.Name != nil {
			name = im.Name.Name
		}
		if w, ok := want[name]; ok {
			if w != path {
				die("%s: import %s is %q, expected %q", bfFile, name, path, w)
			}
			delete(want, name)
		}
	}
	for name := range want {
		die("%s: import %s is missing", bfFile, name)
	}
	// no package-level declaration of the file may shadow a name of the vocabulary
	for _, d := range f.Decls {
		switch v := d.(type) {
		case *ast.GenDecl:
			if v.Tok == token.CONST || v.Tok == token.VAR {
				g.fail(v, "package-level const / var declaration in %s is not in the subset", bfFile)
			}
		case *ast.FuncDecl:
			if v.Recv == nil {
				switch v.Name.Name {
				case "len", "panic", "uint", "uint64", "int", "int64", "byte", "nil", "true", "false":
					g.fail(v, "function %s shadows a predeclared name", v.Name.Name)
				}
			}
		}
	}
	g.readTables()
	for _, part := range bfWanted {
		g.structs[part.st] = g.structDecl(part.st)
	}
	g.collectMethods()
	var sb strings.Builder
	sb.WriteString("/- GENERATED by /verif/extract (bitflow.go) from " + bfFile + ": the struct declarations BitsWriter / BitsReader and\n" +
		"   the bodies of their methods, one Lean `let` / `if` / `match` per Go statement. Do not edit.\n" +
		"   Vocabulary (types, operators, whitelisted calls): Stef/BitFlowSem.lean. -/\n")
	sb.WriteString("import Stef.BitFlowSem\n\nset_option linter.unusedVariables false\n\nnamespace Stef.Gen.BitFlow\nopen Stef Stef.BitFlowSem\n\n")
	for _, part := range bfWanted {
		sb.WriteString(g.leanStruct(g.structs[part.st]) + "\n")
		g.out = nil
		for _, name := range part.methods {
			m := g.methods[part.st+"."+name]
			if m == nil {
				die("%s: method (*%s).%s not found", bfFile, part.st, name)
			}
			g.translate(m)
		}
		for _, d := range g.out {
			sb.WriteString(d + "\n")
		}
	}
	sb.WriteString("end Stef.Gen.BitFlow\n")
	writeOut("BitFlow.lean", sb.String())
}
