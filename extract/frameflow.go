package main

// genFrameFlow regenerates lean/Stef/Gen/FrameFlow.lean: the frame decoder of go/pkg/frame.go,
// translated statement by statement from the Go AST (go/parser + go/ast only) into Lean terms over
// the vocabulary of lean/Stef/FrameFlowSem.lean:
//
//	lrReadByte, lrRead                 <- func (r *limitedReader) ReadByte / Read
//	nextFrame, next (+ nextLoop1),     <- func (d *FrameDecoder) nextFrame / Next / Read / ReadByte
//	read, readByte
//	initWiring : Bool                  <- FrameDecoder.Init / limitedReader.Init: d.src = src,
//	                                      d.compression = compression, d.limitedReader.Init(src) with
//	                                      body `r.src = src`, and `case CompressionNone:` is exactly
//	                                      `d.frameContentSrc = &d.limitedReader`
//
// The order of the statements, the conditions, the assigned fields and the returned values are
// those of the source. A statement list becomes a nested term in continuation style: what follows
// an `if` that can fall through is repeated in both branches; a `for cond {..}` becomes a
// structurally recursive function over a fuel argument. The translated subset:
//
//	stmt ::= x, err (:= | =) call2 | x (:= | =) nat | p = p[[0]:nat] | var x <int type> | var a [N]byte
//	       | F (= | += | -=) nat | F++ | F-- | B = (true | false) | d.decompressedContentReader.Reset(d.decompressor)
//	       | if [err := call1;] cond {stmts} [else {stmts} | else if ..] | for cond {stmts} | return [vals] | return call2
//	call2 ::= S.src.ReadByte() | S.src.Read(buf) | binary.ReadUvarint(d.src)
//	       | d.frameContentSrc.Read(buf) | d.frameContentSrc.ReadByte()
//	call1 ::= d.nextFrame() | d.decompressor.Reset(&d.limitedReader)
//	buf   ::= p | a[:nat]                            (a destination buffer is its length)
//	nat   ::= literal | local | F | len(p) | len(a) | int(nat) | int64(nat) | uint64(nat) | FrameFlags(nat)
//	       | FrameFlagsMask | FrameSizeLimit | RestartCompression | CompressionNone | CompressionZstd
//	       | nat (| & + -) nat
//	cond  ::= nat (> < >= <= == !=) nat | err (!= | ==) (nil | io.EOF) | B | !cond | cond && cond | cond || cond
//	err   ::= nil | err local | io.EOF | EndOfFrame | ErrFrameSizeLimit | errors.New("invalid frame flags")
//	F     ::= d.uncompressedSize | d.ofs | d.flags | d.compression | d.limitedReader.limit | r.limit
//	B     ::= d.frameLoaded | d.notFirstFrame
//
// Every construct outside of it makes this generator fail (die) with a message naming the construct;
// that costs C05/C07 the tie of Props/C05Gen and nothing else.

import (
	"fmt"
	"go/ast"
	"go/constant"
	"go/printer"
	"go/token"
	"strings"
)

func init() { register("FrameFlow", genFrameFlow) }

type ffKind int

const (
	ffNat   ffKind = iota // Go integer -> Nat
	ffBytes               // the n of a Read -> the bytes read
	ffByte                // byte -> Byte
	ffErr                 // error -> Option Err
	ffLen                 // a []byte destination buffer -> its length
)

func (k ffKind) leanType() string {
	return [...]string{"Nat", "Bytes", "Byte", "Option Err", "Nat"}[k]
}

type ffVar struct {
	lean string
	kind ffKind
}

type ffScope struct {
	parent *ffScope
	m      map[string]*ffVar
	loop   bool // this scope is the body of a for loop
}

type ffField struct {
	path   []string // fd.remaining -> {"fd","remaining"}; compression -> {"compression"}
	isBool bool
}

var ffDecoderFields = map[string]ffField{
	"d.uncompressedSize":    {[]string{"fd", "remaining"}, false},
	"d.ofs":                 {[]string{"fd", "ofs"}, false},
	"d.flags":               {[]string{"fd", "flags"}, false},
	"d.limitedReader.limit": {[]string{"fd", "limit"}, false},
	"d.frameLoaded":         {[]string{"fd", "frameLoaded"}, true},
	"d.compression":         {[]string{"compression"}, false},
	"d.notFirstFrame":       {[]string{"notFirstFrame"}, true},
}

var ffLimitedFields = map[string]ffField{
	"r.limit": {[]string{"fd", "limit"}, false},
}

var ffConsts = map[string]string{
	"FrameFlagsMask": "Stef.Gen.frameFlagsMask", "FrameSizeLimit": "Stef.Gen.frameSizeLimit",
	"RestartCompression": "Stef.Gen.restartCompression", "CompressionNone": "Stef.Gen.compressionNone",
	"CompressionZstd": "Stef.Gen.compressionZstd",
}

var ffReserved = map[string]bool{
	"at": true, "end": true, "from": true, "fun": true, "have": true, "show": true, "then": true, "do": true,
	"let": true, "match": true, "with": true, "in": true, "by": true, "open": true, "def": true, "theorem": true,
	"where": true, "mut": true, "if": true, "else": true, "some": true, "none": true, "true": true, "false": true,
	"fuel": true, "ret": true, "St": true, "Err": true, "Nat": true, "Bytes": true, "Byte": true, "Option": true,
	"lrReadByte": true, "lrRead": true, "nextFrame": true, "next": true, "read": true, "readByte": true,
	"srcReadByte": true, "srcRead": true, "srcReadUvarint": true, "contentRead": true, "contentReadByte": true,
	"zReset": true, "zAttach": true, "loopFuel": true, "d": true, "r": true,
}

type ffTr struct {
	fset    *token.FileSet
	where   string
	recv    string // Go receiver name, also the Lean name of the state
	fields  map[string]ffField
	results []ffKind
	named   []string
	arrays  map[string]string // var a [N]byte
	lean    string            // Lean name of the function
	aux     []string          // loop functions, emitted before the function
	nloops  int
	fresh   int
	isLR    bool
	inLoop  bool
}

func (t *ffTr) fail(n ast.Node, f string, a ...any) {
	die("%s at %s: %s (outside the translated Go subset)", t.where, t.fset.Position(n.Pos()), fmt.Sprintf(f, a...))
}

func (t *ffTr) str(n ast.Node) string {
	var sb strings.Builder
	printer.Fprint(&sb, t.fset, n)
	return sb.String()
}

// ---- scopes

func (s *ffScope) lookup(name string) (*ffVar, bool) {
	crossed := false
	for c := s; c != nil; c = c.parent {
		if v, ok := c.m[name]; ok {
			return v, crossed
		}
		if c.loop {
			crossed = true
		}
	}
	return nil, false
}

func (t *ffTr) use(n ast.Node, sc *ffScope, name string) *ffVar {
	v, crossed := sc.lookup(name)
	if v == nil {
		t.fail(n, "identifier `%s` is not a local of the translated function", name)
	}
	if crossed {
		t.fail(n, "local `%s` is declared outside the for loop that uses it", name)
	}
	return v
}

// declare: `:=` / var in scope sc. A name of the same scope is reused (Go assigns it); a name that
// shadows one of an outer scope gets a fresh Lean name (what follows the block still means the outer one).
func (t *ffTr) declare(n ast.Node, sc *ffScope, name string, kind ffKind) *ffVar {
	if name == "_" {
		return &ffVar{"_", kind}
	}
	if ffReserved[name] || name == t.recv {
		t.fail(n, "local name `%s` collides with the generated Lean text", name)
	}
	for _, r := range name {
		if !(r == '_' || r >= '0' && r <= '9' || r >= 'a' && r <= 'z' || r >= 'A' && r <= 'Z') {
			t.fail(n, "local name `%s`", name)
		}
	}
	if v, ok := sc.m[name]; ok {
		if v.kind != kind {
			t.fail(n, "local `%s` is used with two different types", name)
		}
		return v
	}
	lean := name
	if v, _ := sc.lookup(name); v != nil {
		t.fresh++
		lean = fmt.Sprintf("%s_%d", name, t.fresh)
	}
	v := &ffVar{lean, kind}
	sc.m[name] = v
	return v
}

// assign: `=` to an existing local (Lean: a shadowing `let` in the continuation).
func (t *ffTr) assign(n ast.Node, sc *ffScope, name string, kind ffKind) *ffVar {
	if name == "_" {
		return &ffVar{"_", kind}
	}
	v := t.use(n, sc, name)
	if v.kind != kind {
		t.fail(n, "assignment to `%s`: a %s is assigned to a %s", name, kind.leanType(), v.kind.leanType())
	}
	return v
}

// ---- expressions

func (t *ffTr) field(e ast.Expr) (ffField, bool) {
	if _, ok := e.(*ast.SelectorExpr); !ok {
		return ffField{}, false
	}
	f, ok := t.fields[t.str(e)]
	return f, ok
}

func (t *ffTr) fieldRead(f ffField) string { return t.recv + "." + strings.Join(f.path, ".") }

func (t *ffTr) fieldWrite(f ffField, val string) string {
	if len(f.path) == 2 {
		return fmt.Sprintf("let %s : St := { %s with %s := { %s.%s with %s := %s } }", t.recv, t.recv, f.path[0], t.recv, f.path[0], f.path[1], val)
	}
	return fmt.Sprintf("let %s : St := { %s with %s := %s }", t.recv, t.recv, f.path[0], val)
}

func (t *ffTr) nat(e ast.Expr, sc *ffScope) string {
	switch v := e.(type) {
	case *ast.ParenExpr:
		return t.nat(v.X, sc)
	case *ast.BasicLit:
		if v.Kind == token.INT {
			return bigOf(constant.MakeFromLiteral(v.Value, v.Kind, 0)).String()
		}
	case *ast.Ident:
		if c, ok := ffConsts[v.Name]; ok {
			if x, _ := sc.lookup(v.Name); x == nil {
				return c
			}
		}
		x := t.use(v, sc, v.Name)
		switch x.kind {
		case ffNat:
			return x.lean
		case ffBytes:
			return x.lean + ".length"
		case ffByte:
			return x.lean + ".toNat"
		}
		t.fail(e, "`%s` is not an integer here", v.Name)
	case *ast.SelectorExpr:
		if f, ok := t.field(v); ok && !f.isBool {
			return t.fieldRead(f)
		}
	case *ast.CallExpr:
		if len(v.Args) == 1 && !v.Ellipsis.IsValid() {
			if id, ok := v.Fun.(*ast.Ident); ok {
				switch id.Name {
				case "int", "int64", "uint64", "FrameFlags":
					return t.nat(v.Args[0], sc)
				case "len":
					if a, ok := v.Args[0].(*ast.Ident); ok {
						if n, ok := t.arrays[a.Name]; ok {
							return n
						}
						if x := t.use(a, sc, a.Name); x.kind == ffLen {
							return x.lean
						}
					}
				}
			}
		}
	case *ast.BinaryExpr:
		op := map[token.Token]string{token.OR: "|||", token.AND: "&&&", token.ADD: "+", token.SUB: "-"}[v.Op]
		if op != "" {
			return fmt.Sprintf("(%s %s %s)", t.nat(v.X, sc), op, t.nat(v.Y, sc))
		}
	}
	t.fail(e, "integer expression `%s`", t.str(e))
	return ""
}

func (t *ffTr) errVal(e ast.Expr, sc *ffScope) string {
	switch t.str(e) {
	case "nil":
		return "none"
	case "io.EOF":
		return "some .eof"
	case "EndOfFrame":
		return "some .endOfFrame"
	case "ErrFrameSizeLimit":
		return "some .frameSizeLimit"
	case `errors.New("invalid frame flags")`:
		return "some .invalidFlags"
	}
	if id, ok := e.(*ast.Ident); ok {
		if x := t.use(id, sc, id.Name); x.kind == ffErr {
			return x.lean
		}
	}
	t.fail(e, "error value `%s`", t.str(e))
	return ""
}

func (t *ffTr) isErrExpr(e ast.Expr, sc *ffScope) bool {
	switch t.str(e) {
	case "nil", "io.EOF", "EndOfFrame", "ErrFrameSizeLimit":
		return true
	}
	if id, ok := e.(*ast.Ident); ok {
		if x, _ := sc.lookup(id.Name); x != nil && x.kind == ffErr {
			return true
		}
	}
	return false
}

func (t *ffTr) cond(e ast.Expr, sc *ffScope) string {
	switch v := e.(type) {
	case *ast.ParenExpr:
		return t.cond(v.X, sc)
	case *ast.UnaryExpr:
		if v.Op == token.NOT {
			return "(¬ " + t.cond(v.X, sc) + ")"
		}
	case *ast.SelectorExpr:
		if f, ok := t.field(v); ok && f.isBool {
			return "(" + t.fieldRead(f) + " = true)"
		}
	case *ast.BinaryExpr:
		switch v.Op {
		case token.LAND:
			return "(" + t.cond(v.X, sc) + " ∧ " + t.cond(v.Y, sc) + ")"
		case token.LOR:
			return "(" + t.cond(v.X, sc) + " ∨ " + t.cond(v.Y, sc) + ")"
		}
		op := map[token.Token]string{token.GTR: ">", token.LSS: "<", token.GEQ: "≥", token.LEQ: "≤", token.EQL: "=", token.NEQ: "≠"}[v.Op]
		if op == "" {
			break
		}
		if t.isErrExpr(v.X, sc) || t.isErrExpr(v.Y, sc) {
			if v.Op != token.EQL && v.Op != token.NEQ {
				break
			}
			return fmt.Sprintf("(%s %s %s)", t.errVal(v.X, sc), op, t.errVal(v.Y, sc))
		}
		return fmt.Sprintf("(%s %s %s)", t.nat(v.X, sc), op, t.nat(v.Y, sc))
	}
	t.fail(e, "condition `%s`", t.str(e))
	return ""
}

// bufLen: a destination buffer argument is its length.
func (t *ffTr) bufLen(e ast.Expr, sc *ffScope) string {
	switch v := e.(type) {
	case *ast.Ident:
		if x := t.use(v, sc, v.Name); x.kind == ffLen {
			return x.lean
		}
	case *ast.SliceExpr:
		if id, ok := v.X.(*ast.Ident); ok && !v.Slice3 && v.High != nil && (v.Low == nil || t.str(v.Low) == "0") {
			if _, ok := t.arrays[id.Name]; ok {
				return t.nat(v.High, sc)
			}
			if x, _ := sc.lookup(id.Name); x != nil && x.kind == ffLen {
				return t.nat(v.High, sc)
			}
		}
	}
	t.fail(e, "buffer argument `%s`", t.str(e))
	return ""
}

// call2: calls that return (value, error). Lean: a function St -> .. -> St × value × Option Err.
func (t *ffTr) call2(e ast.Expr, sc *ffScope) (string, ffKind) {
	ce, ok := e.(*ast.CallExpr)
	if !ok || ce.Ellipsis.IsValid() {
		t.fail(e, "`%s` is not a whitelisted call", t.str(e))
	}
	fun := t.str(ce.Fun)
	d := t.recv
	switch {
	case fun == d+".src.ReadByte" && len(ce.Args) == 0:
		return "srcReadByte " + d, ffByte
	case fun == d+".src.Read" && len(ce.Args) == 1:
		return fmt.Sprintf("srcRead %s %s", d, t.bufLen(ce.Args[0], sc)), ffBytes
	case !t.isLR && fun == "binary.ReadUvarint" && len(ce.Args) == 1 && t.str(ce.Args[0]) == d+".src":
		return "srcReadUvarint " + d, ffNat
	case !t.isLR && fun == d+".frameContentSrc.Read" && len(ce.Args) == 1:
		return fmt.Sprintf("contentRead lrRead %s %s", d, t.bufLen(ce.Args[0], sc)), ffBytes
	case !t.isLR && fun == d+".frameContentSrc.ReadByte" && len(ce.Args) == 0:
		return "contentReadByte lrReadByte " + d, ffByte
	}
	t.fail(e, "call `%s` (two results)", t.str(e))
	return "", 0
}

// call1: calls that return only an error. Lean: St -> St × Option Err.
func (t *ffTr) call1(e ast.Expr) string {
	d := t.recv
	if !t.isLR {
		switch t.str(e) {
		case d + ".nextFrame()":
			if t.lean == "nextFrame" {
				t.fail(e, "recursive call")
			}
			return "nextFrame " + d
		case d + ".decompressor.Reset(&" + d + ".limitedReader)":
			return "zReset " + d
		}
	}
	t.fail(e, "call `%s` (one result)", t.str(e))
	return ""
}

// ---- statements

type ffCont func(ind string) string

func (t *ffTr) retVal(kind ffKind, e ast.Expr, sc *ffScope) string {
	switch kind {
	case ffErr:
		return t.errVal(e, sc)
	case ffNat:
		return t.nat(e, sc)
	case ffByte, ffBytes:
		if id, ok := e.(*ast.Ident); ok {
			if x := t.use(id, sc, id.Name); x.kind == kind {
				return x.lean
			}
		}
		if t.str(e) == "0" {
			if kind == ffByte {
				return "0#8"
			}
			return "[]"
		}
	}
	t.fail(e, "returned value `%s` where a %s is expected", t.str(e), kind.leanType())
	return ""
}

func (t *ffTr) ret(st *ast.ReturnStmt, sc *ffScope) string {
	var vals []string
	switch {
	case len(st.Results) == 0:
		if len(t.named) != len(t.results) {
			t.fail(st, "bare return in a function without named results")
		}
		for i, n := range t.named {
			v := t.use(st, sc, n)
			if v.kind != t.results[i] {
				t.fail(st, "named result %s", n)
			}
			vals = append(vals, v.lean)
		}
	case len(st.Results) == 1 && len(t.results) == 2:
		txt, kind := t.call2(st.Results[0], sc)
		if kind != t.results[0] {
			t.fail(st, "`%s` does not return the function's result types", t.str(st.Results[0]))
		}
		// the callee's state and results are the function's
		if t.inLoop {
			t.fail(st, "return of a call inside a for loop")
		}
		return txt
	case len(st.Results) == len(t.results):
		for i, r := range st.Results {
			vals = append(vals, t.retVal(t.results[i], r, sc))
		}
	default:
		t.fail(st, "return with %d values", len(st.Results))
	}
	return t.recv + ", " + strings.Join(vals, ", ")
}

// stmts translates a statement list; `k` is what happens when control falls off its end.
// `wrap` turns a returned tuple into the value of the enclosing Lean function (a loop function
// wraps it into `some`).
func (t *ffTr) stmts(list []ast.Stmt, sc *ffScope, ind string, wrap func(string) string, k ffCont) string {
	if len(list) == 0 {
		if k == nil {
			die("%s: control can reach the end of the function without a return (outside the translated Go subset)", t.where)
		}
		return k(ind)
	}
	st, rest := list[0], list[1:]
	next := func(ind string) string { return t.stmts(rest, sc, ind, wrap, k) }
	line := func(s string) string { return ind + s + "\n" }
	d := t.recv
	switch v := st.(type) {
	case *ast.ReturnStmt:
		if len(rest) != 0 {
			t.fail(rest[0], "statement after return")
		}
		return line("-- "+t.str(v)) + line(wrap(t.ret(v, sc)))
	case *ast.DeclStmt:
		gd, ok := v.Decl.(*ast.GenDecl)
		if !ok || gd.Tok != token.VAR || len(gd.Specs) != 1 {
			t.fail(v, "declaration `%s`", t.str(v))
		}
		vs := gd.Specs[0].(*ast.ValueSpec)
		if len(vs.Names) != 1 || len(vs.Values) != 0 || vs.Type == nil {
			t.fail(v, "declaration `%s`", t.str(v))
		}
		name := vs.Names[0].Name
		if at, ok := vs.Type.(*ast.ArrayType); ok {
			if lit, ok := at.Len.(*ast.BasicLit); ok && lit.Kind == token.INT && t.str(at.Elt) == "byte" {
				if ffReserved[name] || name == t.recv {
					t.fail(v, "local name `%s` collides with the generated Lean text", name)
				}
				t.arrays[name] = bigOf(constant.MakeFromLiteral(lit.Value, lit.Kind, 0)).String()
				return line("-- "+t.str(v)+"   (a destination buffer: only its length is used)") + next(ind)
			}
			t.fail(v, "array declaration `%s`", t.str(v))
		}
		switch t.str(vs.Type) {
		case "uint64", "int64", "int":
			x := t.declare(v, sc, name, ffNat)
			return line("-- "+t.str(v)) + line("let "+x.lean+" : Nat := 0") + next(ind)
		}
		t.fail(v, "declaration `%s`", t.str(v))
	case *ast.IncDecStmt:
		if f, ok := t.field(v.X); ok && !f.isBool {
			op := "+"
			if v.Tok == token.DEC {
				op = "-"
			}
			return line("-- "+t.str(v)) + line(t.fieldWrite(f, fmt.Sprintf("%s %s 1", t.fieldRead(f), op))) + next(ind)
		}
		t.fail(v, "`%s`", t.str(v))
	case *ast.ExprStmt:
		if !t.isLR && t.str(v.X) == d+".decompressedContentReader.Reset("+d+".decompressor)" {
			return line("-- "+t.str(v)) + line("let "+d+" : St := zAttach "+d) + next(ind)
		}
		t.fail(v, "statement `%s`", t.str(v))
	case *ast.AssignStmt:
		return t.assignStmt(v, sc, ind, next)
	case *ast.IfStmt:
		return t.ifStmt(v, sc, ind, wrap, next)
	case *ast.ForStmt:
		if v.Init != nil || v.Post != nil || v.Cond == nil {
			t.fail(v, "for statement with init/post or without condition")
		}
		if t.inLoop {
			t.fail(v, "nested for loop")
		}
		t.nloops++
		name := fmt.Sprintf("%sLoop%d", t.lean, t.nloops)
		var retTypes []string
		var zero []string
		for _, r := range t.results {
			retTypes = append(retTypes, r.leanType())
			switch r {
			case ffNat:
				zero = append(zero, "0")
			case ffBytes:
				zero = append(zero, "[]")
			case ffByte:
				zero = append(zero, "0#8")
			case ffErr:
				zero = append(zero, "some .fuel")
			}
		}
		if t.results[len(t.results)-1] != ffErr {
			t.fail(v, "for loop in a function whose last result is not an error")
		}
		rt := strings.Join(retTypes, " × ")
		body := &ffScope{parent: sc, m: map[string]*ffVar{}, loop: true}
		loopWrap := func(s string) string {
			// s = "d, v1, v2"
			parts := strings.SplitN(s, ", ", 2)
			return "(" + parts[0] + ", some (" + parts[1] + "))"
		}
		var sb strings.Builder
		fmt.Fprintf(&sb, "/-- the loop `for %s { .. }` of %s: `none` = the loop ended, `some r` = `return r` inside it\n    (running out of fuel is reported as the error `.fuel`). -/\n", t.str(v.Cond), t.where)
		fmt.Fprintf(&sb, "def %s : Nat → St → St × Option (%s)\n", name, rt)
		fmt.Fprintf(&sb, "  | 0, %s => (%s, some (%s))\n", d, d, strings.Join(zero, ", "))
		fmt.Fprintf(&sb, "  | fuel + 1, %s =>\n", d)
		fmt.Fprintf(&sb, "    if %s then\n", t.cond(v.Cond, sc))
		t.inLoop = true
		sb.WriteString(t.stmts(v.Body.List, body, "      ", loopWrap, func(ind string) string {
			return ind + name + " fuel " + d + "\n"
		}))
		t.inLoop = false
		fmt.Fprintf(&sb, "    else (%s, none)\n", d)
		t.aux = append(t.aux, sb.String())
		out := line("-- for "+t.str(v.Cond)+" { .. }") + line(fmt.Sprintf("match %s (loopFuel %s) %s with", name, d, d))
		out += line(fmt.Sprintf("| (%s, some returned) => %s", d, wrap(d+", returned")))
		out += line(fmt.Sprintf("| (%s, none) =>", d))
		return out + next(ind)
	}
	t.fail(st, "statement `%s`", t.str(st))
	return ""
}

func (t *ffTr) assignStmt(v *ast.AssignStmt, sc *ffScope, ind string, next ffCont) string {
	line := func(s string) string { return ind + s + "\n" }
	d := t.recv
	bind := func(e ast.Expr, kind ffKind) *ffVar {
		id, ok := e.(*ast.Ident)
		if !ok {
			t.fail(e, "assignment target `%s`", t.str(e))
		}
		if v.Tok == token.DEFINE {
			return t.declare(e, sc, id.Name, kind)
		}
		return t.assign(e, sc, id.Name, kind)
	}
	switch {
	case len(v.Lhs) == 2 && len(v.Rhs) == 1 && (v.Tok == token.DEFINE || v.Tok == token.ASSIGN):
		txt, kind := t.call2(v.Rhs[0], sc)
		a, b := bind(v.Lhs[0], kind), bind(v.Lhs[1], ffErr)
		return line("-- "+t.str(v)) + line("match "+txt+" with") + line(fmt.Sprintf("| (%s, %s, %s) =>", d, a.lean, b.lean)) + next(ind)
	case len(v.Lhs) == 1 && len(v.Rhs) == 1:
		lhs, rhs := v.Lhs[0], v.Rhs[0]
		if f, ok := t.field(lhs); ok {
			if f.isBool {
				if v.Tok == token.ASSIGN && (t.str(rhs) == "true" || t.str(rhs) == "false") {
					return line("-- "+t.str(v)) + line(t.fieldWrite(f, t.str(rhs))) + next(ind)
				}
				break
			}
			val := ""
			switch v.Tok {
			case token.ASSIGN:
				val = t.nat(rhs, sc)
			case token.ADD_ASSIGN:
				val = fmt.Sprintf("%s + %s", t.fieldRead(f), t.nat(rhs, sc))
			case token.SUB_ASSIGN:
				val = fmt.Sprintf("%s - %s", t.fieldRead(f), t.nat(rhs, sc))
			}
			if val != "" {
				return line("-- "+t.str(v)) + line(t.fieldWrite(f, val)) + next(ind)
			}
			break
		}
		id, ok := lhs.(*ast.Ident)
		if !ok {
			break
		}
		// p = p[0:n] / p = p[:n]: the destination buffer is cut
		if se, ok := rhs.(*ast.SliceExpr); ok && v.Tok == token.ASSIGN {
			if x, _ := sc.lookup(id.Name); x != nil && x.kind == ffLen && t.str(se.X) == id.Name {
				n := t.bufLen(rhs, sc)
				x = t.assign(lhs, sc, id.Name, ffLen)
				return line("-- "+t.str(v)) + line(fmt.Sprintf("let %s : Nat := %s", x.lean, n)) + next(ind)
			}
			break
		}
		val := ""
		switch v.Tok {
		case token.DEFINE, token.ASSIGN:
			val = t.nat(rhs, sc)
		case token.ADD_ASSIGN:
			val = fmt.Sprintf("%s + %s", t.nat(lhs, sc), t.nat(rhs, sc))
		case token.SUB_ASSIGN:
			val = fmt.Sprintf("%s - %s", t.nat(lhs, sc), t.nat(rhs, sc))
		}
		if val == "" {
			break
		}
		x := bind(lhs, ffNat)
		return line("-- "+t.str(v)) + line(fmt.Sprintf("let %s : Nat := %s", x.lean, val)) + next(ind)
	}
	t.fail(v, "assignment `%s`", t.str(v))
	return ""
}

func (t *ffTr) ifStmt(v *ast.IfStmt, sc *ffScope, ind string, wrap func(string) string, next ffCont) string {
	line := func(s string) string { return ind + s + "\n" }
	d := t.recv
	out := ""
	inner := &ffScope{parent: sc, m: map[string]*ffVar{}}
	if v.Init != nil {
		as, ok := v.Init.(*ast.AssignStmt)
		if !ok || as.Tok != token.DEFINE || len(as.Lhs) != 1 || len(as.Rhs) != 1 {
			t.fail(v.Init, "if-initialiser `%s`", t.str(v.Init))
		}
		id, ok := as.Lhs[0].(*ast.Ident)
		if !ok {
			t.fail(v.Init, "if-initialiser `%s`", t.str(v.Init))
		}
		txt := t.call1(as.Rhs[0])
		x := t.declare(as, inner, id.Name, ffErr)
		out += line("-- if "+t.str(v.Init)+"; ..") + line("match "+txt+" with") + line(fmt.Sprintf("| (%s, %s) =>", d, x.lean))
	}
	out += line("-- if " + t.str(v.Cond))
	out += line("if " + t.cond(v.Cond, inner) + " then")
	thenSc := &ffScope{parent: inner, m: map[string]*ffVar{}}
	out += line("  (") + t.stmts(v.Body.List, thenSc, ind+"   ", wrap, next) + line("  )")
	out += line("else")
	switch e := v.Else.(type) {
	case nil:
		out += line("  (") + next(ind+"   ") + line("  )")
	case *ast.BlockStmt:
		elseSc := &ffScope{parent: inner, m: map[string]*ffVar{}}
		out += line("  (") + t.stmts(e.List, elseSc, ind+"   ", wrap, next) + line("  )")
	case *ast.IfStmt:
		out += line("  (") + t.ifStmt(e, inner, ind+"   ", wrap, next) + line("  )")
	default:
		t.fail(v.Else, "else branch")
	}
	return out
}

// ---- functions

type ffSpec struct {
	recvType, goName, lean string
}

func (t *ffTr) resultKind(n ast.Node, ty string, hasBuf bool) ffKind {
	switch ty {
	case "error":
		return ffErr
	case "byte":
		return ffByte
	case "FrameFlags":
		return ffNat
	case "int":
		if hasBuf {
			return ffBytes // the n of a Read(p []byte)
		}
	}
	t.fail(n, "result type `%s`", ty)
	return 0
}

func ffTranslate(fset *token.FileSet, fd *ast.FuncDecl, spec ffSpec) string {
	t := &ffTr{fset: fset, where: "go/pkg/frame.go func (" + spec.recvType + ") " + spec.goName, arrays: map[string]string{}, lean: spec.lean}
	if fd.Recv == nil || len(fd.Recv.List) != 1 || len(fd.Recv.List[0].Names) != 1 {
		t.fail(fd, "receiver")
	}
	t.recv = fd.Recv.List[0].Names[0].Name
	switch spec.recvType {
	case "*limitedReader":
		t.isLR = true
		t.fields = ffLimitedFields
		if t.recv != "r" {
			t.fail(fd, "the receiver of the limitedReader methods is expected to be called r, not %s", t.recv)
		}
	case "*FrameDecoder":
		t.fields = ffDecoderFields
		if t.recv != "d" {
			t.fail(fd, "the receiver of the FrameDecoder methods is expected to be called d, not %s", t.recv)
		}
	}
	top := &ffScope{m: map[string]*ffVar{}}
	params := ""
	hasBuf := false
	for _, p := range fd.Type.Params.List {
		if t.str(p.Type) != "[]byte" || len(p.Names) != 1 {
			t.fail(p, "parameter `%s`", t.str(p))
		}
		x := t.declare(p, top, p.Names[0].Name, ffLen)
		params += fmt.Sprintf(" (%s : Nat)", x.lean)
		hasBuf = true
	}
	if fd.Type.Results == nil {
		t.fail(fd, "no results")
	}
	pre := ""
	for _, r := range fd.Type.Results.List {
		kind := t.resultKind(r, t.str(r.Type), hasBuf)
		if len(r.Names) == 0 {
			t.results = append(t.results, kind)
			continue
		}
		for _, n := range r.Names {
			t.results = append(t.results, kind)
			t.named = append(t.named, n.Name)
			x := t.declare(r, top, n.Name, kind)
			zero := map[ffKind]string{ffNat: "0", ffBytes: "[]", ffByte: "0#8", ffErr: "none"}[kind]
			pre += fmt.Sprintf("    let %s : %s := %s\n", x.lean, kind.leanType(), zero)
		}
	}
	var rts []string
	for _, r := range t.results {
		rts = append(rts, r.leanType())
	}
	wrap := func(s string) string { return "(" + s + ")" }
	body := t.stmts(fd.Body.List, top, "    ", wrap, nil)
	var sb strings.Builder
	for _, a := range t.aux {
		sb.WriteString(a + "\n")
	}
	fmt.Fprintf(&sb, "/-- go/pkg/frame.go `func (%s %s) %s`", t.recv, spec.recvType, spec.goName)
	if hasBuf {
		sb.WriteString("; the buffer parameter is its length, the `int` result the bytes read")
	}
	sb.WriteString(" -/\n")
	fmt.Fprintf(&sb, "def %s (%s : St)%s : St × %s :=\n%s%s", spec.lean, t.recv, params, strings.Join(rts, " × "), pre, body)
	return sb.String()
}

// ffInitWiring: the facts of Init that the vocabulary relies on.
func ffInitWiring(fset *token.FileSet, decls map[string]*ast.FuncDecl) bool {
	str := func(n ast.Node) string {
		var sb strings.Builder
		printer.Fprint(&sb, fset, n)
		return sb.String()
	}
	lri, di := decls["*limitedReader.Init"], decls["*FrameDecoder.Init"]
	if lri == nil || di == nil {
		die("go/pkg/frame.go: Init of limitedReader / FrameDecoder not found")
	}
	params := func(fd *ast.FuncDecl) string {
		var ps []string
		for _, p := range fd.Type.Params.List {
			for _, n := range p.Names {
				ps = append(ps, n.Name+" "+str(p.Type))
			}
		}
		return strings.Join(ps, ", ")
	}
	ok := len(lri.Body.List) == 1 && str(lri.Body.List[0]) == "r.src = src" && params(lri) == "src ByteAndBlockReader"
	ok = ok && params(di) == "src ByteAndBlockReader, compression Compression"
	want := map[string]bool{"d.src = src": false, "d.compression = compression": false, "d.limitedReader.Init(src)": false}
	noneCase := false
	for _, st := range di.Body.List {
		s := str(st)
		if _, is := want[s]; is {
			want[s] = true
			continue
		}
		if sw, is := st.(*ast.SwitchStmt); is && sw.Init == nil && sw.Tag != nil && str(sw.Tag) == "d.compression" {
			for _, c := range sw.Body.List {
				cc := c.(*ast.CaseClause)
				if len(cc.List) == 1 && str(cc.List[0]) == "CompressionNone" {
					noneCase = len(cc.Body) == 1 && str(cc.Body[0]) == "d.frameContentSrc = &d.limitedReader"
				}
			}
		}
	}
	for _, seen := range want {
		ok = ok && seen
	}
	return ok && noneCase
}

func genFrameFlow() {
	fset, f := parseFile("go/pkg/frame.go")
	decls := map[string]*ast.FuncDecl{}
	for _, dd := range f.Decls {
		fd, ok := dd.(*ast.FuncDecl)
		if !ok || fd.Recv == nil || len(fd.Recv.List) != 1 || fd.Body == nil {
			continue
		}
		var sb strings.Builder
		printer.Fprint(&sb, fset, fd.Recv.List[0].Type)
		decls[sb.String()+"."+fd.Name.Name] = fd
	}
	var sb strings.Builder
	sb.WriteString("/- GENERATED by /verif/extract (frameflow.go) from go/pkg/frame.go: the bodies of limitedReader.ReadByte/Read and\n")
	sb.WriteString("   FrameDecoder.nextFrame/Next/Read/ReadByte, one Lean line (or match/if) per Go statement, in continuation style.\n")
	sb.WriteString("   Do not edit. Vocabulary: Stef/FrameFlowSem.lean. -/\n")
	sb.WriteString("import Stef.FrameFlowSem\nimport Stef.Gen.Consts\n\nset_option linter.unusedVariables false\n\nnamespace Stef.Gen.FrameFlow\nopen Stef.ReaderIO Stef.FrameFlowSem\n\n")
	for _, spec := range []ffSpec{
		{"*limitedReader", "ReadByte", "lrReadByte"}, {"*limitedReader", "Read", "lrRead"},
		{"*FrameDecoder", "nextFrame", "nextFrame"}, {"*FrameDecoder", "Next", "next"},
		{"*FrameDecoder", "Read", "read"}, {"*FrameDecoder", "ReadByte", "readByte"},
	} {
		fd := decls[spec.recvType+"."+spec.goName]
		if fd == nil {
			die("go/pkg/frame.go: func (%s) %s not found", spec.recvType, spec.goName)
		}
		sb.WriteString(ffTranslate(fset, fd, spec))
		sb.WriteString("\n")
	}
	sb.WriteString("/-- go/pkg/frame.go Init: `d.src = src`, `d.compression = compression`, `d.limitedReader.Init(src)` (whose body is\n")
	sb.WriteString("    `r.src = src`), and for CompressionNone exactly `d.frameContentSrc = &d.limitedReader`: the limited reader reads\n")
	sb.WriteString("    from the decoder's source, and the frame content of an uncompressed stream is read through the limited reader. -/\n")
	fmt.Fprintf(&sb, "def initWiring : Bool := %v\n\n", ffInitWiring(fset, decls))
	sb.WriteString("end Stef.Gen.FrameFlow\n")
	writeOut("FrameFlow.lean", sb.String())
}
