package main

// genLexFlow regenerates lean/Stef/Gen/LexFlow.lean: the IDL lexer of go/pkg/idl/lexer.go, translated
// statement by statement from the Go AST (go/parser + go/ast only) into `do` blocks of the monad `M` of
// lean/Stef/LexFlowSem.lean:
//
//   c_<name>               <- every constant of the `const ( tError Token = iota ... )` block
//   keywords               <- var keywords = map[string]Token{...}        (entries in source order)
//   isDigit, isNumberContinuation   <- func f(r rune) bool { return e }
//   readNextRune, skipComment, skipWhiteSpaceOrComment, readIdentOrKeyword, readUint64Number, next
//                          <- the methods of *Lexer of the same (capitalised) names
//   newLexer               <- func NewLexer(input io.Reader) *Lexer
//   curToken, curIdent, tokenStartPos, curUint64Number, curErrMsg   <- the getters Token, Ident, TokenStartPos, Uint64Number, ErrMsg
//   fact: readOnlyMethodsNotTranslated (methods of *Lexer outside the list that do not write the lexer)
//
// The order of the statements, the conditions, what is assigned to what, the loop shapes, every `break`
// and `return` come from the source. Translated subset (everything else makes this generator fail with
// a message that names the construct):
//
//   stmt ::= l.f = e | l.curPos.f = e | l.f += e | l.f++          (f a field of Lexer / Pos)
//          | x := e | x, y, z := l.input.ReadRune() | x, y := strconv.ParseUint(e, 0, 64)
//          | const x = 'c'
//          | l.m()                                                   (m a translated method)
//          | if [v, ok := keywords[e];] cond {..} [else ..]
//          | for [cond] {..} | break                                 (break directly in a for, not in a switch)
//          | switch e { case c[, c]: .. default: .. }                (no fallthrough, default last)
//          | return [e]                                              (last statement of its block)
//   e    ::= l.f | l.curPos.f | local | parameter | constant | 'c' | 123 | "str" | nil | true | false | io.EOF
//          | !e | e && e | e || e | e (== != < <= > >=) e | (e)
//          | unicode.IsLetter(e) | unicode.IsDigit(e) | unicode.IsSpace(e) | isDigit(e) | isNumberContinuation(e)
//          | errors.Is(e, io.EOF) | uint(e) | string(e) | append(e, e) | e[:0] | fmt.Sprintf("..", e...)
//
// A Go local is an immutable Lean `let` (assigning to a local is outside the subset), every local name is
// declared once per function. No goto/continue/labels/defer/go/closures/select/range/type switches.

import (
	"fmt"
	"go/ast"
	"go/token"
	"sort"
	"strconv"
	"strings"
)

func init() { register("LexFlow", genLexFlow) }

const lxFile = "go/pkg/idl/lexer.go"

type lxKind int

const (
	lxNone    lxKind = iota
	lxRune           // rune            -> Char
	lxTok            // Token           -> Nat
	lxUint           // uint, uint64    -> Nat
	lxInt            // int             -> Nat (only the size ReadRune returns)
	lxBool           // bool            -> Bool
	lxStr            // string          -> List Char
	lxRunes          // []rune          -> List Char
	lxPos            // Pos             -> Pos
	lxErr            // error           -> Err
	lxGoErr          // a sentinel error value (io.EOF)
	lxMsg            // string that is an error message -> Msg
	lxReader         // io.Reader / *bufio.Reader -> List Char
	lxCharLit        // untyped rune constant given by a literal
	lxIntLit         // untyped integer literal
	lxStrLit         // string literal
	lxNamed          // named constant of the token block (typed Token or untyped rune)
	lxNil            // nil
)

var lxKindName = map[lxKind]string{lxNone: "no value", lxRune: "rune", lxTok: "Token", lxUint: "uint", lxInt: "int", lxBool: "bool",
	lxStr: "string", lxRunes: "[]rune", lxPos: "Pos", lxErr: "error", lxGoErr: "error value", lxMsg: "message string",
	lxReader: "reader", lxCharLit: "rune literal", lxIntLit: "integer literal", lxStrLit: "string literal", lxNamed: "token constant", lxNil: "nil"}

var lxLeanType = map[lxKind]string{lxNone: "Unit", lxRune: "Char", lxTok: "Nat", lxUint: "Nat", lxInt: "Nat", lxBool: "Bool", lxStr: "List Char",
	lxRunes: "List Char", lxPos: "Pos", lxErr: "Err", lxMsg: "Msg", lxReader: "List Char"}

type lxVal struct {
	lean string
	kind lxKind
	num  uint64 // lxCharLit, lxIntLit: the value
}

type lxField struct {
	lean   string
	kind   lxKind
	goType string
}

// the fields of `Lexer` that LexFlowSem.L has
var lxLexerFields = map[string]lxField{
	"input": {"input", lxReader, "*bufio.Reader"}, "token": {"token", lxTok, "Token"}, "nextRune": {"nextRune", lxRune, "rune"},
	"prevWasCR": {"prevWasCR", lxBool, "bool"}, "isEOF": {"isEOF", lxBool, "bool"}, "isError": {"isError", lxBool, "bool"},
	"errMsg": {"errMsg", lxMsg, "string"}, "curPos": {"curPos", lxPos, "Pos"}, "prevPos": {"prevPos", lxPos, "Pos"},
	"tokenRunes": {"tokenRunes", lxRunes, "[]rune"}, "ident": {"ident", lxStr, "string"}, "uintNumber": {"uintNumber", lxUint, "uint64"},
}

// the fields of `Pos` (Stef.Idl.Pos)
var lxPosFields = map[string]lxField{"ByteOfs": {"ofs", lxUint, "uint"}, "Line": {"line", lxUint, "uint"}, "Col": {"col", lxUint, "uint"}}

type lxMethodSpec struct {
	goName string
	lean   string
	result lxKind
	goRes  string
}

var lxMethods = []lxMethodSpec{
	{"readNextRune", "readNextRune", lxNone, ""}, {"skipComment", "skipComment", lxNone, ""},
	{"skipWhiteSpaceOrComment", "skipWhiteSpaceOrComment", lxNone, ""},
	{"readIdentOrKeyword", "readIdentOrKeyword", lxTok, "Token"}, {"readUint64Number", "readUint64Number", lxNone, ""},
	{"Next", "next", lxNone, ""},
	{"Token", "curToken", lxTok, "Token"}, {"Ident", "curIdent", lxStr, "string"}, {"TokenStartPos", "tokenStartPos", lxPos, "Pos"},
	{"Uint64Number", "curUint64Number", lxUint, "uint64"}, {"ErrMsg", "curErrMsg", lxMsg, "string"},
}

var lxPureFuncs = []string{"isDigit", "isNumberContinuation"}

var lxReserved = map[string]bool{}

func init() {
	for _, n := range strings.Fields(`at end from fun have show then do let match with in by open def theorem where mut unless
		try catch finally pure some none true false nil Type Prop if else for return instance structure inductive
		namespace section variable import deriving abbrev example termination_by decreasing_by decide
		ret brk rd upd newObj call loopRun whileLoop bufioNewReader readRune uintOf unicodeIsLetter unicodeIsDigit unicodeIsSpace
		stringOfRunes appendRune sliceTo mapIndex strconvParseUint0_64 ioEOF errorsIs keywords Msg MsgArg L M Out Pos Err GoErr`) {
		lxReserved[n] = true
	}
	for _, m := range lxMethods {
		lxReserved[m.lean] = true
	}
	for _, f := range lxPureFuncs {
		lxReserved[f] = true
	}
	lxReserved["newLexer"] = true
}

type lxGen struct {
	fset     *token.FileSet
	file     *ast.File
	consts   map[string]uint64 // constants of the token block
	constOrd []string
	funcs    map[string]*ast.FuncDecl // by "recv.name" ("" for functions)
	out      map[string]string        // lean name -> text of the definition
	order    []string                 // emission order (callees first)
	state    map[string]int           // 0 new, 1 in progress, 2 done
}

// one function being translated
type lxFn struct {
	g      *lxGen
	name   string
	recv   string // Go name of the receiver ("" in a pure function)
	result lxKind
	ctor   bool
	locals map[string]lxKind
}

func (g *lxGen) fail(n ast.Node, f string, a ...any) {
	pos := ""
	if n != nil {
		pos = g.fset.Position(n.Pos()).String() + ": "
	}
	die("%s%s", pos, fmt.Sprintf(f, a...))
}

func lxTypeString(e ast.Expr) string {
	switch v := e.(type) {
	case nil:
		return ""
	case *ast.Ident:
		return v.Name
	case *ast.StarExpr:
		return "*" + lxTypeString(v.X)
	case *ast.SelectorExpr:
		return lxTypeString(v.X) + "." + v.Sel.Name
	case *ast.ArrayType:
		if v.Len == nil {
			return "[]" + lxTypeString(v.Elt)
		}
		return "[N]" + lxTypeString(v.Elt)
	case *ast.MapType:
		return "map[" + lxTypeString(v.Key) + "]" + lxTypeString(v.Value)
	}
	return fmt.Sprintf("%T", e)
}

func lxUnparen(e ast.Expr) ast.Expr {
	for {
		p, ok := e.(*ast.ParenExpr)
		if !ok {
			return e
		}
		e = p.X
	}
}

func lxIsIdent(e ast.Expr, name string) bool {
	id, ok := e.(*ast.Ident)
	return ok && id.Name == name
}

func lxIsSel(e ast.Expr, pkg, name string) bool {
	s, ok := e.(*ast.SelectorExpr)
	return ok && lxIsIdent(s.X, pkg) && s.Sel.Name == name
}

func lxCharLean(c uint64) string {
	switch c {
	case '\r':
		return `'\r'`
	case '\n':
		return `'\n'`
	case '\t':
		return `'\t'`
	}
	if c >= 32 && c < 127 && c != '\'' && c != '\\' {
		return "'" + string(rune(c)) + "'"
	}
	return fmt.Sprintf("(Char.ofNat %d)", c)
}

func (g *lxGen) leanString(n ast.Node, s string) string {
	var sb strings.Builder
	sb.WriteByte('"')
	for _, r := range s {
		if r < 32 || r >= 127 {
			g.fail(n, "string literal %q has a character outside printable ASCII", s)
		}
		if r == '"' || r == '\\' {
			sb.WriteByte('\\')
		}
		sb.WriteRune(r)
	}
	sb.WriteByte('"')
	return sb.String()
}

func lxCharList(s string) string {
	var items []string
	for _, r := range s {
		items = append(items, lxCharLean(uint64(r)))
	}
	return "[" + strings.Join(items, ", ") + "]"
}

// ---- declarations -------------------------------------------------------------------------------

// the token constants: the const block whose first name is tError.
func (g *lxGen) collectConsts() {
	for _, d := range g.file.Decls {
		gd, ok := d.(*ast.GenDecl)
		if !ok || gd.Tok != token.CONST || len(gd.Specs) == 0 {
			continue
		}
		first := gd.Specs[0].(*ast.ValueSpec)
		if len(first.Names) != 1 || first.Names[0].Name != "tError" {
			continue
		}
		if lxTypeString(first.Type) != "Token" || len(first.Values) != 1 || !lxIsIdent(first.Values[0], "iota") {
			g.fail(first, "the token constant block must start with `tError Token = iota`")
		}
		iotaMode := true
		for i, s := range gd.Specs {
			vs := s.(*ast.ValueSpec)
			if len(vs.Names) != 1 {
				g.fail(vs, "token constant block: one name per line expected")
			}
			name := vs.Names[0].Name
			var val uint64
			switch {
			case len(vs.Values) == 0:
				if !iotaMode {
					g.fail(vs, "token constant %s repeats an expression that is not iota", name)
				}
				val = uint64(i)
			case i == 0:
				val = 0
			default:
				iotaMode = false
				lit, ok := vs.Values[0].(*ast.BasicLit)
				if !ok || len(vs.Values) != 1 || vs.Type != nil || (lit.Kind != token.CHAR && lit.Kind != token.INT) {
					g.fail(vs, "token constant %s: only `= 'c'` or `= 123` is supported after the iota part", name)
				}
				if lit.Kind == token.CHAR {
					r, _, _, err := strconv.UnquoteChar(lit.Value[1:len(lit.Value)-1], '\'')
					if err != nil {
						g.fail(lit, "bad rune literal %s", lit.Value)
					}
					val = uint64(r)
				} else {
					v, err := strconv.ParseUint(lit.Value, 0, 64)
					if err != nil {
						g.fail(lit, "bad integer literal %s", lit.Value)
					}
					val = v
				}
			}
			if _, dup := g.consts[name]; dup {
				g.fail(vs, "constant %s declared twice", name)
			}
			g.consts[name] = val
			g.constOrd = append(g.constOrd, name)
		}
		return
	}
	g.fail(nil, "%s: the token constant block (starting with tError) was not found", lxFile)
}

func (g *lxGen) keywordTable() string {
	for _, d := range g.file.Decls {
		gd, ok := d.(*ast.GenDecl)
		if !ok || gd.Tok != token.VAR {
			continue
		}
		for _, s := range gd.Specs {
			vs := s.(*ast.ValueSpec)
			if len(vs.Names) != 1 || vs.Names[0].Name != "keywords" {
				continue
			}
			if len(vs.Values) != 1 {
				g.fail(vs, "var keywords: a map literal expected")
			}
			cl, ok := vs.Values[0].(*ast.CompositeLit)
			if !ok || lxTypeString(cl.Type) != "map[string]Token" {
				g.fail(vs, "var keywords: a literal of type map[string]Token expected")
			}
			var items []string
			seen := map[string]bool{}
			for _, el := range cl.Elts {
				kv, ok := el.(*ast.KeyValueExpr)
				if !ok {
					g.fail(el, "keywords: key: value expected")
				}
				k, ok := kv.Key.(*ast.BasicLit)
				if !ok || k.Kind != token.STRING {
					g.fail(kv.Key, "keywords: string literal key expected")
				}
				ks, err := strconv.Unquote(k.Value)
				if err != nil {
					g.fail(k, "bad string literal")
				}
				for _, r := range ks {
					if r < 32 || r >= 127 {
						g.fail(k, "keyword %q is not printable ASCII", ks)
					}
				}
				if seen[ks] {
					g.fail(k, "keywords: duplicate key %q", ks)
				}
				seen[ks] = true
				v, ok := kv.Value.(*ast.Ident)
				if !ok {
					g.fail(kv.Value, "keywords: a token constant expected as value")
				}
				if _, ok := g.consts[v.Name]; !ok {
					g.fail(v, "keywords: %s is not a constant of the token block", v.Name)
				}
				items = append(items, fmt.Sprintf("(%s, c_%s)", lxCharList(ks), v.Name))
			}
			return "/-- `var keywords = map[string]Token{..}`, entries in source order -/\ndef keywords : List (List Char × Nat) :=\n  [" +
				strings.Join(items, ",\n   ") + "]\n"
		}
	}
	g.fail(nil, "%s: var keywords not found", lxFile)
	return ""
}

func (g *lxGen) checkStruct(name string, want map[string]lxField) {
	for _, d := range g.file.Decls {
		gd, ok := d.(*ast.GenDecl)
		if !ok || gd.Tok != token.TYPE {
			continue
		}
		for _, s := range gd.Specs {
			ts := s.(*ast.TypeSpec)
			if ts.Name.Name != name {
				continue
			}
			st, ok := ts.Type.(*ast.StructType)
			if !ok {
				g.fail(ts, "type %s is not a struct", name)
			}
			seen := map[string]bool{}
			for _, f := range st.Fields.List {
				if len(f.Names) == 0 {
					g.fail(f, "struct %s: embedded field", name)
				}
				for _, n := range f.Names {
					w, ok := want[n.Name]
					if !ok {
						g.fail(n, "struct %s has a field %s that the vocabulary (LexFlowSem) does not have", name, n.Name)
					}
					if got := lxTypeString(f.Type); got != w.goType {
						g.fail(n, "struct %s: field %s has type %s, the vocabulary expects %s", name, n.Name, got, w.goType)
					}
					seen[n.Name] = true
				}
			}
			for n := range want {
				if !seen[n] {
					g.fail(ts, "struct %s no longer has the field %s", name, n)
				}
			}
			return
		}
	}
	g.fail(nil, "%s: type %s not found", lxFile, name)
}

func (g *lxGen) collectFuncs() {
	for _, d := range g.file.Decls {
		fd, ok := d.(*ast.FuncDecl)
		if !ok {
			continue
		}
		key := fd.Name.Name
		if fd.Recv != nil {
			if len(fd.Recv.List) != 1 {
				g.fail(fd, "bad receiver")
			}
			key = lxTypeString(fd.Recv.List[0].Type) + "." + key
		}
		if _, dup := g.funcs[key]; dup {
			g.fail(fd, "%s declared twice", key)
		}
		g.funcs[key] = fd
	}
}

// ---- expressions --------------------------------------------------------------------------------

// coerce an adaptable value (literal, token constant) to the kind the context wants.
func (t *lxFn) as(n ast.Node, v lxVal, want lxKind) string {
	if v.kind == want {
		return v.lean
	}
	switch v.kind {
	case lxNamed:
		switch want {
		case lxRune:
			return "(Char.ofNat " + v.lean + ")"
		case lxTok, lxUint:
			return v.lean
		}
	case lxCharLit:
		switch want {
		case lxRune:
			return lxCharLean(v.num)
		case lxTok, lxUint:
			return fmt.Sprintf("%d", v.num)
		}
	case lxIntLit:
		switch want {
		case lxRune:
			return fmt.Sprintf("(Char.ofNat %d)", v.num)
		case lxTok, lxUint, lxInt:
			return fmt.Sprintf("%d", v.num)
		}
	case lxStrLit:
		if want == lxMsg {
			return "(Msg.lit " + v.lean + ")"
		}
	case lxStr:
		if want == lxMsg {
			t.g.fail(n, "a computed string is assigned to an error message (only literals and fmt.Sprintf are supported)")
		}
	case lxNil:
		if want == lxErr {
			return "none"
		}
	case lxUint:
		if want == lxTok { // Token is an unsigned integer type; only via explicit conversion in Go
		}
	}
	t.g.fail(n, "a value of kind %s is used where %s is expected", lxKindName[v.kind], lxKindName[want])
	return ""
}

func lxAdaptable(k lxKind) bool {
	return k == lxNamed || k == lxCharLit || k == lxIntLit || k == lxStrLit || k == lxNil
}

// the field a selector expression on the receiver names: l.f or l.curPos.f
func (t *lxFn) recvField(e ast.Expr) (path string, f lxField, ok bool) {
	sel, isSel := e.(*ast.SelectorExpr)
	if !isSel || t.recv == "" {
		return "", lxField{}, false
	}
	if lxIsIdent(sel.X, t.recv) {
		fl, known := lxLexerFields[sel.Sel.Name]
		if !known {
			t.g.fail(e, "%s.%s: unknown field of Lexer", t.recv, sel.Sel.Name)
		}
		return fl.lean, fl, true
	}
	if inner, isInner := sel.X.(*ast.SelectorExpr); isInner && lxIsIdent(inner.X, t.recv) {
		fl, known := lxLexerFields[inner.Sel.Name]
		if !known || fl.kind != lxPos {
			t.g.fail(e, "%s.%s.%s: not a field of a Pos field of Lexer", t.recv, inner.Sel.Name, sel.Sel.Name)
		}
		pf, known := lxPosFields[sel.Sel.Name]
		if !known {
			t.g.fail(e, "unknown field %s of Pos", sel.Sel.Name)
		}
		return fl.lean + "." + pf.lean, pf, true
	}
	return "", lxField{}, false
}

// expr translates an expression; `rv` is the Lean text that stands for the receiver object
// ("(← rd)" in statement position, the bound variable inside `fun l => ..`).
func (t *lxFn) expr(e ast.Expr, rv string) lxVal {
	g := t.g
	switch v := e.(type) {
	case *ast.ParenExpr:
		return t.expr(v.X, rv)
	case *ast.BasicLit:
		switch v.Kind {
		case token.CHAR:
			r, _, _, err := strconv.UnquoteChar(v.Value[1:len(v.Value)-1], '\'')
			if err != nil {
				g.fail(v, "bad rune literal %s", v.Value)
			}
			return lxVal{kind: lxCharLit, num: uint64(r)}
		case token.INT:
			n, err := strconv.ParseUint(v.Value, 0, 64)
			if err != nil {
				g.fail(v, "bad integer literal %s", v.Value)
			}
			return lxVal{kind: lxIntLit, num: n}
		case token.STRING:
			s, err := strconv.Unquote(v.Value)
			if err != nil {
				g.fail(v, "bad string literal")
			}
			return lxVal{lean: g.leanString(v, s), kind: lxStrLit}
		}
		g.fail(v, "literal %s is not supported", v.Value)
	case *ast.Ident:
		switch v.Name {
		case "nil":
			return lxVal{kind: lxNil}
		case "true", "false":
			return lxVal{lean: v.Name, kind: lxBool}
		}
		if k, ok := t.locals[v.Name]; ok {
			return lxVal{lean: v.Name, kind: k}
		}
		if _, ok := g.consts[v.Name]; ok {
			return lxVal{lean: "c_" + v.Name, kind: lxNamed}
		}
		if v.Name == t.recv {
			g.fail(v, "the receiver %s is used as a value", v.Name)
		}
		g.fail(v, "unknown identifier %s", v.Name)
	case *ast.SelectorExpr:
		if lxIsSel(v, "io", "EOF") {
			return lxVal{lean: "ioEOF", kind: lxGoErr}
		}
		if path, f, ok := t.recvField(v); ok {
			if rv == "" {
				g.fail(v, "the lexer object is read where that is not supported")
			}
			return lxVal{lean: rv + "." + path, kind: f.kind}
		}
		g.fail(v, "selector expression %s is not supported", lxTypeString(v))
	case *ast.UnaryExpr:
		if v.Op != token.NOT {
			g.fail(v, "unary operator %s is not supported", v.Op)
		}
		x := t.expr(v.X, rv)
		return lxVal{lean: "(!" + t.as(v.X, x, lxBool) + ")", kind: lxBool}
	case *ast.BinaryExpr:
		return t.binary(v, rv)
	case *ast.SliceExpr:
		if v.Low != nil || v.Slice3 || v.High == nil {
			g.fail(v, "slice expression: only x[:0] is supported")
		}
		hi := t.expr(v.High, rv)
		if hi.kind != lxIntLit || hi.num != 0 {
			g.fail(v, "slice expression: only x[:0] is supported")
		}
		x := t.expr(v.X, rv)
		if x.kind != lxRunes {
			g.fail(v, "slice expression on a %s", lxKindName[x.kind])
		}
		return lxVal{lean: "(sliceTo " + x.lean + " 0)", kind: lxRunes}
	case *ast.CallExpr:
		return t.callExpr(v, rv)
	case *ast.IndexExpr:
		g.fail(v, "index expression %s[..] is not supported (only `v, ok := keywords[e]` in an if statement)", lxTypeString(v.X))
	}
	g.fail(e, "expression of type %T is not supported", e)
	return lxVal{}
}

func (t *lxFn) binary(v *ast.BinaryExpr, rv string) lxVal {
	g := t.g
	switch v.Op {
	case token.LAND, token.LOR:
		l, r := t.expr(v.X, rv), t.expr(v.Y, rv)
		op := "&&"
		if v.Op == token.LOR {
			op = "||"
		}
		return lxVal{lean: "(" + t.as(v.X, l, lxBool) + " " + op + " " + t.as(v.Y, r, lxBool) + ")", kind: lxBool}
	case token.EQL, token.NEQ, token.LSS, token.LEQ, token.GTR, token.GEQ:
		l, r := t.expr(v.X, rv), t.expr(v.Y, rv)
		k := l.kind
		if lxAdaptable(k) {
			k = r.kind
		}
		if lxAdaptable(k) {
			g.fail(v, "comparison of two constants")
		}
		ls, rs := t.as(v.X, l, k), t.as(v.Y, r, k)
		if v.Op == token.EQL || v.Op == token.NEQ {
			switch k {
			case lxRune, lxTok, lxUint, lxInt, lxBool, lxErr, lxStr:
			default:
				g.fail(v, "== / != on values of kind %s", lxKindName[k])
			}
			op := "=="
			if v.Op == token.NEQ {
				op = "!="
			}
			return lxVal{lean: "(" + ls + " " + op + " " + rs + ")", kind: lxBool}
		}
		op := map[token.Token]string{token.LSS: "<", token.LEQ: "≤", token.GTR: ">", token.GEQ: "≥"}[v.Op]
		switch k {
		case lxRune:
			return lxVal{lean: "(decide (" + ls + ".toNat " + op + " (" + rs + ").toNat))", kind: lxBool}
		case lxTok, lxUint, lxInt:
			return lxVal{lean: "(decide (" + ls + " " + op + " " + rs + "))", kind: lxBool}
		}
		g.fail(v, "ordering comparison on values of kind %s", lxKindName[k])
	}
	g.fail(v, "binary operator %s is not supported", v.Op)
	return lxVal{}
}

func (t *lxFn) callExpr(v *ast.CallExpr, rv string) lxVal {
	g := t.g
	if v.Ellipsis.IsValid() {
		g.fail(v, "call with ... is not supported")
	}
	arg := func(i int, want lxKind) string {
		return t.as(v.Args[i], t.expr(v.Args[i], rv), want)
	}
	nargs := func(n int, what string) {
		if len(v.Args) != n {
			g.fail(v, "%s: %d argument(s) expected", what, n)
		}
	}
	switch f := v.Fun.(type) {
	case *ast.SelectorExpr:
		switch {
		case lxIsSel(f, "unicode", "IsLetter"), lxIsSel(f, "unicode", "IsDigit"), lxIsSel(f, "unicode", "IsSpace"):
			nargs(1, "unicode."+f.Sel.Name)
			return lxVal{lean: "(unicode" + f.Sel.Name + " " + arg(0, lxRune) + ")", kind: lxBool}
		case lxIsSel(f, "errors", "Is"):
			nargs(2, "errors.Is")
			if !lxIsSel(v.Args[1], "io", "EOF") {
				g.fail(v, "errors.Is: only the target io.EOF is supported")
			}
			return lxVal{lean: "(errorsIs " + arg(0, lxErr) + " ioEOF)", kind: lxBool}
		case lxIsSel(f, "fmt", "Sprintf"):
			if len(v.Args) < 1 {
				g.fail(v, "fmt.Sprintf without format")
			}
			format := t.expr(v.Args[0], rv)
			if format.kind != lxStrLit {
				g.fail(v, "fmt.Sprintf: the format must be a string literal")
			}
			var args []string
			for i := 1; i < len(v.Args); i++ {
				a := t.expr(v.Args[i], rv)
				switch a.kind {
				case lxRune:
					args = append(args, ".rune "+a.lean)
				case lxStr:
					args = append(args, ".str "+a.lean)
				default:
					g.fail(v.Args[i], "fmt.Sprintf: argument of kind %s is not supported", lxKindName[a.kind])
				}
			}
			return lxVal{lean: "(Msg.sprintf " + format.lean + " [" + strings.Join(args, ", ") + "])", kind: lxMsg}
		}
		g.fail(v, "call of %s is not supported", lxTypeString(f))
	case *ast.Ident:
		switch f.Name {
		case "uint":
			nargs(1, "uint()")
			a := t.expr(v.Args[0], rv)
			if a.kind != lxInt {
				g.fail(v, "uint(..) of a %s (only of the size ReadRune returns)", lxKindName[a.kind])
			}
			return lxVal{lean: "(uintOf " + a.lean + ")", kind: lxUint}
		case "string":
			nargs(1, "string()")
			a := t.expr(v.Args[0], rv)
			if a.kind != lxRunes {
				g.fail(v, "string(..) of a %s (only of a []rune)", lxKindName[a.kind])
			}
			return lxVal{lean: "(stringOfRunes " + a.lean + ")", kind: lxStr}
		case "append":
			nargs(2, "append")
			a := t.expr(v.Args[0], rv)
			if a.kind != lxRunes {
				g.fail(v, "append to a %s", lxKindName[a.kind])
			}
			return lxVal{lean: "(appendRune " + a.lean + " " + arg(1, lxRune) + ")", kind: lxRunes}
		}
		for _, pf := range lxPureFuncs {
			if f.Name == pf {
				if _, shadow := t.locals[pf]; shadow {
					g.fail(v, "%s is shadowed by a local", pf)
				}
				nargs(1, pf)
				g.need(pf)
				return lxVal{lean: "(" + pf + " " + arg(0, lxRune) + ")", kind: lxBool}
			}
		}
		g.fail(v, "call of %s is not supported in an expression", f.Name)
	}
	g.fail(v, "call of %s is not supported", lxTypeString(v.Fun))
	return lxVal{}
}

// ---- statements ---------------------------------------------------------------------------------

func (t *lxFn) declare(n ast.Node, name string, k lxKind) {
	if name == "_" {
		t.g.fail(n, "blank identifier in a definition is not supported")
	}
	if lxReserved[name] || strings.HasPrefix(name, "c_") || name == t.recv {
		t.g.fail(n, "local name %s collides with a name of the generated text", name)
	}
	if _, dup := t.locals[name]; dup {
		t.g.fail(n, "local %s is declared twice in %s (every local name may be declared once)", name, t.name)
	}
	if _, isConst := t.g.consts[name]; isConst {
		t.g.fail(n, "local %s shadows a token constant", name)
	}
	t.locals[name] = k
}

type lxCtx struct {
	inLoop   bool // a `break` here leaves a translated for
	inSwitch bool // .. unless a switch is in between
}

func (t *lxFn) block(list []ast.Stmt, ind string, cx lxCtx) []string {
	var out []string
	for i, s := range list {
		if _, isRet := s.(*ast.ReturnStmt); isRet && i != len(list)-1 {
			t.g.fail(s, "statements after return")
		}
		if b, isBr := s.(*ast.BranchStmt); isBr && i != len(list)-1 {
			t.g.fail(b, "statements after %s", b.Tok)
		}
		out = append(out, t.stmt(s, ind, cx)...)
	}
	if len(out) == 0 {
		out = append(out, ind+"pure ()")
	}
	return out
}

func (t *lxFn) fieldUpdate(n ast.Node, lhs ast.Expr, mk func(cur string, f lxField) string, ind string) []string {
	path, f, ok := t.recvField(lhs)
	if !ok {
		t.g.fail(n, "assignment to %s: only fields of the lexer can be assigned", t.g.str(lhs))
	}
	if f.kind == lxReader {
		t.g.fail(n, "assignment to the reader field")
	}
	return []string{fmt.Sprintf("%supd fun %s => { %s with %s := %s }", ind, t.recv, t.recv, path, mk(t.recv+"."+path, f))}
}

func (g *lxGen) str(n ast.Node) string {
	switch v := n.(type) {
	case *ast.Ident:
		return v.Name
	case *ast.SelectorExpr:
		return g.str(v.X) + "." + v.Sel.Name
	}
	return fmt.Sprintf("%T", n)
}

func (t *lxFn) methodCall(e ast.Expr) (lxMethodSpec, bool) {
	ce, ok := e.(*ast.CallExpr)
	if !ok {
		return lxMethodSpec{}, false
	}
	sel, ok := ce.Fun.(*ast.SelectorExpr)
	if !ok || t.recv == "" || !lxIsIdent(sel.X, t.recv) {
		return lxMethodSpec{}, false
	}
	for _, m := range lxMethods {
		if m.goName == sel.Sel.Name {
			if len(ce.Args) != 0 {
				t.g.fail(ce, "%s: no arguments expected", m.goName)
			}
			t.g.need(m.lean)
			return m, true
		}
	}
	t.g.fail(ce, "call of the method %s, which is not translated", sel.Sel.Name)
	return lxMethodSpec{}, false
}

func (t *lxFn) stmt(s ast.Stmt, ind string, cx lxCtx) []string {
	g := t.g
	switch v := s.(type) {
	case *ast.EmptyStmt:
		return nil
	case *ast.ExprStmt:
		if m, ok := t.methodCall(v.X); ok {
			if m.result == lxNone {
				return []string{ind + "call " + m.lean}
			}
			return []string{ind + "let _ ← call " + m.lean}
		}
		g.fail(v, "expression statement: only calls of translated lexer methods are supported")
	case *ast.IncDecStmt:
		if v.Tok != token.INC {
			g.fail(v, "-- is not supported")
		}
		return t.fieldUpdate(v, v.X, func(cur string, f lxField) string {
			if f.kind != lxUint {
				g.fail(v, "++ on a %s", lxKindName[f.kind])
			}
			return cur + " + 1"
		}, ind)
	case *ast.AssignStmt:
		return t.assign(v, ind)
	case *ast.DeclStmt:
		gd, ok := v.Decl.(*ast.GenDecl)
		if !ok || gd.Tok != token.CONST {
			g.fail(v, "declaration statement: only `const x = 'c'` is supported")
		}
		var out []string
		for _, sp := range gd.Specs {
			vs := sp.(*ast.ValueSpec)
			if len(vs.Names) != 1 || len(vs.Values) != 1 || vs.Type != nil {
				g.fail(vs, "local constant: only `const x = 'c'` is supported")
			}
			val := t.expr(vs.Values[0], "")
			if val.kind != lxCharLit {
				g.fail(vs, "local constant: only a rune literal is supported")
			}
			t.declare(vs, vs.Names[0].Name, lxRune)
			out = append(out, fmt.Sprintf("%slet %s : Char := %s", ind, vs.Names[0].Name, lxCharLean(val.num)))
		}
		return out
	case *ast.ReturnStmt:
		if t.ctor {
			if len(v.Results) != 1 || !lxIsIdent(v.Results[0], t.recv) {
				g.fail(v, "the constructor must return the object it made")
			}
			return []string{ind + "ret ()"}
		}
		if t.result == lxNone {
			if len(v.Results) != 0 {
				g.fail(v, "return with a value in a function without result")
			}
			return []string{ind + "ret ()"}
		}
		if len(v.Results) != 1 {
			g.fail(v, "return: one value expected")
		}
		return []string{ind + "ret " + t.as(v, t.expr(v.Results[0], "(← rd)"), t.result)}
	case *ast.BranchStmt:
		if v.Tok != token.BREAK || v.Label != nil {
			g.fail(v, "%s is not supported (only an unlabelled break)", v.Tok)
		}
		if !cx.inLoop || cx.inSwitch {
			g.fail(v, "break outside a for loop or inside a switch")
		}
		return []string{ind + "brk"}
	case *ast.BlockStmt:
		g.fail(v, "nested block statement is not supported")
	case *ast.IfStmt:
		return t.ifStmt(v, ind, cx, "if ")
	case *ast.ForStmt:
		if v.Init != nil || v.Post != nil {
			g.fail(v, "for with init/post statement is not supported")
		}
		cond := "true"
		if v.Cond != nil {
			cond = t.as(v.Cond, t.expr(v.Cond, t.recv), lxBool)
		}
		rn := t.recv
		if v.Cond == nil {
			rn = "_"
		}
		out := []string{fmt.Sprintf("%swhileLoop (fun %s => %s) (do", ind, rn, cond)}
		body := t.block(v.Body.List, ind+"  ", lxCtx{inLoop: true})
		body[len(body)-1] += ")"
		return append(out, body...)
	case *ast.SwitchStmt:
		return t.switchStmt(v, ind, cx)
	}
	g.fail(s, "statement of type %T is not supported", s)
	return nil
}

func (t *lxFn) assign(v *ast.AssignStmt, ind string) []string {
	g := t.g
	switch v.Tok {
	case token.ASSIGN:
		if len(v.Lhs) != 1 || len(v.Rhs) != 1 {
			g.fail(v, "multiple assignment is not supported")
		}
		if id, isId := v.Lhs[0].(*ast.Ident); isId {
			g.fail(v, "assignment to the local %s (locals are immutable in the translation)", id.Name)
		}
		return t.fieldUpdate(v, v.Lhs[0], func(cur string, f lxField) string {
			return t.as(v.Rhs[0], t.expr(v.Rhs[0], t.recv), f.kind)
		}, ind)
	case token.ADD_ASSIGN:
		if len(v.Lhs) != 1 || len(v.Rhs) != 1 {
			g.fail(v, "multiple assignment is not supported")
		}
		return t.fieldUpdate(v, v.Lhs[0], func(cur string, f lxField) string {
			if f.kind != lxUint {
				g.fail(v, "+= on a %s", lxKindName[f.kind])
			}
			return cur + " + " + t.as(v.Rhs[0], t.expr(v.Rhs[0], t.recv), lxUint)
		}, ind)
	case token.DEFINE:
		if len(v.Rhs) != 1 {
			g.fail(v, ":= with several right-hand sides")
		}
		names := make([]string, len(v.Lhs))
		for i, l := range v.Lhs {
			id, ok := l.(*ast.Ident)
			if !ok {
				g.fail(l, ":= to something that is not a name")
			}
			names[i] = id.Name
		}
		if ce, ok := v.Rhs[0].(*ast.CallExpr); ok {
			if sel, ok := ce.Fun.(*ast.SelectorExpr); ok {
				// l.input.ReadRune()
				if inner, ok := sel.X.(*ast.SelectorExpr); ok && t.recv != "" && lxIsIdent(inner.X, t.recv) && inner.Sel.Name == "input" && sel.Sel.Name == "ReadRune" {
					if len(names) != 3 || len(ce.Args) != 0 {
						g.fail(v, "ReadRune: r, size, err := l.input.ReadRune() expected")
					}
					t.declare(v, names[0], lxRune)
					t.declare(v, names[1], lxInt)
					t.declare(v, names[2], lxErr)
					return []string{fmt.Sprintf("%slet (%s, %s, %s) ← readRune", ind, names[0], names[1], names[2])}
				}
				if lxIsSel(sel, "strconv", "ParseUint") {
					if len(names) != 2 || len(ce.Args) != 3 {
						g.fail(v, "strconv.ParseUint: v, err := strconv.ParseUint(s, 0, 64) expected")
					}
					b, bits := t.expr(ce.Args[1], ""), t.expr(ce.Args[2], "")
					if b.kind != lxIntLit || b.num != 0 || bits.kind != lxIntLit || bits.num != 64 {
						g.fail(v, "strconv.ParseUint: only base 0 and bit size 64 are modelled")
					}
					a := t.expr(ce.Args[0], "(← rd)")
					if a.kind != lxStr {
						g.fail(v, "strconv.ParseUint of a %s", lxKindName[a.kind])
					}
					t.declare(v, names[0], lxUint)
					t.declare(v, names[1], lxErr)
					return []string{fmt.Sprintf("%slet (%s, %s) := strconvParseUint0_64 %s", ind, names[0], names[1], a.lean)}
				}
			}
		}
		if len(names) != 1 {
			g.fail(v, "multi-value := from %T is not supported", v.Rhs[0])
		}
		val := t.expr(v.Rhs[0], "(← rd)")
		if lxAdaptable(val.kind) || val.kind == lxGoErr {
			g.fail(v, ":= from an untyped constant is not supported")
		}
		t.declare(v, names[0], val.kind)
		return []string{fmt.Sprintf("%slet %s := %s", ind, names[0], val.lean)}
	}
	g.fail(v, "assignment operator %s is not supported", v.Tok)
	return nil
}

func (t *lxFn) ifStmt(v *ast.IfStmt, ind string, cx lxCtx, kw string) []string {
	g := t.g
	var out []string
	if v.Init != nil {
		// v, ok := keywords[e]
		as, ok := v.Init.(*ast.AssignStmt)
		if !ok || as.Tok != token.DEFINE || len(as.Lhs) != 2 || len(as.Rhs) != 1 {
			g.fail(v.Init, "if with an init statement: only `v, ok := keywords[e]` is supported")
		}
		ix, ok := as.Rhs[0].(*ast.IndexExpr)
		if !ok || !lxIsIdent(ix.X, "keywords") {
			g.fail(v.Init, "if with an init statement: only `v, ok := keywords[e]` is supported")
		}
		if _, shadow := t.locals["keywords"]; shadow {
			g.fail(v.Init, "keywords is shadowed")
		}
		if kw != "if " {
			g.fail(v.Init, "`else if` with an init statement is not supported")
		}
		key := t.expr(ix.Index, "(← rd)")
		if key.kind != lxStr {
			g.fail(ix, "keywords[..] with a key of kind %s", lxKindName[key.kind])
		}
		n0, ok0 := as.Lhs[0].(*ast.Ident)
		n1, ok1 := as.Lhs[1].(*ast.Ident)
		if !ok0 || !ok1 {
			g.fail(v.Init, "if init: names expected")
		}
		t.declare(v.Init, n0.Name, lxTok)
		t.declare(v.Init, n1.Name, lxBool)
		out = append(out, fmt.Sprintf("%slet (%s, %s) := mapIndex keywords %s", ind, n0.Name, n1.Name, key.lean))
	}
	cond := t.as(v.Cond, t.expr(v.Cond, "(← rd)"), lxBool)
	out = append(out, fmt.Sprintf("%s%s%s then", ind, kw, cond))
	out = append(out, t.block(v.Body.List, ind+"  ", cx)...)
	switch e := v.Else.(type) {
	case nil:
	case *ast.BlockStmt:
		out = append(out, ind+"else")
		out = append(out, t.block(e.List, ind+"  ", cx)...)
	case *ast.IfStmt:
		out = append(out, t.ifStmt(e, ind, cx, "else if ")...)
	default:
		g.fail(v.Else, "else branch of type %T", v.Else)
	}
	return out
}

func (t *lxFn) switchStmt(v *ast.SwitchStmt, ind string, cx lxCtx) []string {
	g := t.g
	if v.Init != nil || v.Tag == nil {
		g.fail(v, "switch: only `switch e { .. }` with a tag and without init statement is supported")
	}
	tag := t.expr(v.Tag, "(← rd)")
	if lxAdaptable(tag.kind) {
		g.fail(v.Tag, "switch on a constant")
	}
	switch tag.kind {
	case lxRune, lxTok, lxUint:
	default:
		g.fail(v.Tag, "switch on a %s", lxKindName[tag.kind])
	}
	if _, isCall := lxUnparen(v.Tag).(*ast.CallExpr); isCall {
		g.fail(v.Tag, "switch on a call (the tag would be evaluated once per case in the translation)")
	}
	var out []string
	cx.inSwitch = true
	first := true
	for i, c := range v.Body.List {
		cc := c.(*ast.CaseClause)
		for _, s := range cc.Body {
			if b, ok := s.(*ast.BranchStmt); ok && b.Tok == token.FALLTHROUGH {
				g.fail(b, "fallthrough is not supported")
			}
		}
		if cc.List == nil {
			if i != len(v.Body.List)-1 {
				g.fail(cc, "switch: default must be the last clause")
			}
			if first {
				g.fail(cc, "switch with only a default clause")
			}
			out = append(out, ind+"else")
			out = append(out, t.block(cc.Body, ind+"  ", cx)...)
			continue
		}
		var conds []string
		for _, e := range cc.List {
			conds = append(conds, "("+tag.lean+" == "+t.as(e, t.expr(e, "(← rd)"), tag.kind)+")")
		}
		cond := conds[0]
		if len(conds) > 1 {
			cond = "(" + strings.Join(conds, " || ") + ")"
		}
		kw := "else if "
		if first {
			kw = "if "
			first = false
		}
		out = append(out, ind+kw+cond+" then")
		out = append(out, t.block(cc.Body, ind+"  ", cx)...)
	}
	if first {
		g.fail(v, "empty switch")
	}
	return out
}

// ---- functions ----------------------------------------------------------------------------------

// need makes sure the definition `lean` is emitted before the one that is being translated.
func (g *lxGen) need(lean string) {
	switch g.state[lean] {
	case 2:
		return
	case 1:
		g.fail(nil, "recursion through %s is not supported", lean)
	}
	g.state[lean] = 1
	for _, pf := range lxPureFuncs {
		if pf == lean {
			g.out[lean] = g.pureFunc(pf)
		}
	}
	for _, m := range lxMethods {
		if m.lean == lean {
			g.out[lean] = g.method(m)
		}
	}
	if lean == "newLexer" {
		g.out[lean] = g.ctor()
	}
	if _, ok := g.out[lean]; !ok {
		g.fail(nil, "internal: no translation for %s", lean)
	}
	g.state[lean] = 2
	g.order = append(g.order, lean)
}

func (g *lxGen) noFuncLits(fd *ast.FuncDecl) {
	ast.Inspect(fd.Body, func(n ast.Node) bool {
		switch n.(type) {
		case *ast.FuncLit:
			g.fail(n, "function literal is not supported")
		case *ast.GoStmt, *ast.DeferStmt, *ast.SelectStmt, *ast.RangeStmt, *ast.TypeSwitchStmt, *ast.LabeledStmt, *ast.SendStmt:
			g.fail(n, "statement of type %T is not supported", n)
		}
		return true
	})
}

func (g *lxGen) pureFunc(name string) string {
	fd := g.funcs[name]
	if fd == nil || fd.Body == nil {
		g.fail(nil, "%s: func %s not found", lxFile, name)
	}
	ft := fd.Type
	if ft.TypeParams != nil || len(ft.Params.List) != 1 || len(ft.Params.List[0].Names) != 1 || lxTypeString(ft.Params.List[0].Type) != "rune" ||
		ft.Results == nil || len(ft.Results.List) != 1 || len(ft.Results.List[0].Names) != 0 || lxTypeString(ft.Results.List[0].Type) != "bool" {
		g.fail(fd, "func %s: signature func(r rune) bool expected", name)
	}
	g.noFuncLits(fd)
	p := ft.Params.List[0].Names[0].Name
	t := &lxFn{g: g, name: name, result: lxBool, locals: map[string]lxKind{}}
	t.declare(fd, p, lxRune)
	if len(fd.Body.List) != 1 {
		g.fail(fd, "func %s: a single return statement expected", name)
	}
	r, ok := fd.Body.List[0].(*ast.ReturnStmt)
	if !ok || len(r.Results) != 1 {
		g.fail(fd, "func %s: a single return statement expected", name)
	}
	body := t.as(r, t.expr(r.Results[0], ""), lxBool)
	return fmt.Sprintf("/-- %s `func %s(%s rune) bool` -/\ndef %s (%s : Char) : Bool :=\n  %s\n", lxFile, name, p, name, p, body)
}

func (g *lxGen) method(m lxMethodSpec) string {
	fd := g.funcs["*Lexer."+m.goName]
	if fd == nil || fd.Body == nil {
		g.fail(nil, "%s: method (*Lexer).%s not found", lxFile, m.goName)
	}
	ft := fd.Type
	if ft.TypeParams != nil || len(ft.Params.List) != 0 {
		g.fail(fd, "(*Lexer).%s: no parameters expected", m.goName)
	}
	res := ""
	if ft.Results != nil {
		if len(ft.Results.List) != 1 || len(ft.Results.List[0].Names) != 0 {
			g.fail(fd, "(*Lexer).%s: at most one unnamed result expected", m.goName)
		}
		res = lxTypeString(ft.Results.List[0].Type)
	}
	if res != m.goRes {
		g.fail(fd, "(*Lexer).%s: result type %q, expected %q", m.goName, res, m.goRes)
	}
	if len(fd.Recv.List[0].Names) != 1 {
		g.fail(fd, "(*Lexer).%s: named receiver expected", m.goName)
	}
	g.noFuncLits(fd)
	t := &lxFn{g: g, name: m.goName, recv: fd.Recv.List[0].Names[0].Name, result: m.result, locals: map[string]lxKind{}}
	if lxReserved[t.recv] {
		g.fail(fd, "receiver name %s collides with a name of the generated text", t.recv)
	}
	lines := t.block(fd.Body.List, "  ", lxCtx{})
	if m.result != lxNone {
		if _, ok := fd.Body.List[len(fd.Body.List)-1].(*ast.ReturnStmt); !ok {
			g.fail(fd, "(*Lexer).%s: the body must end with a return statement", m.goName)
		}
	}
	ty := lxLeanType[m.result]
	if strings.Contains(ty, " ") {
		ty = "(" + ty + ")"
	}
	sig := "func (" + t.recv + " *Lexer) " + m.goName + "()"
	if res != "" {
		sig += " " + res
	}
	return fmt.Sprintf("/-- %s `%s` -/\ndef %s : M %s %s := do\n%s\n", lxFile, sig, m.lean, ty, ty, strings.Join(lines, "\n"))
}

func (g *lxGen) ctor() string {
	fd := g.funcs["NewLexer"]
	if fd == nil || fd.Body == nil {
		g.fail(nil, "%s: func NewLexer not found", lxFile)
	}
	ft := fd.Type
	if ft.TypeParams != nil || len(ft.Params.List) != 1 || len(ft.Params.List[0].Names) != 1 || lxTypeString(ft.Params.List[0].Type) != "io.Reader" ||
		ft.Results == nil || len(ft.Results.List) != 1 || lxTypeString(ft.Results.List[0].Type) != "*Lexer" {
		g.fail(fd, "NewLexer: signature func(input io.Reader) *Lexer expected")
	}
	g.noFuncLits(fd)
	param := ft.Params.List[0].Names[0].Name
	if len(fd.Body.List) < 2 {
		g.fail(fd, "NewLexer: body too short")
	}
	as, ok := fd.Body.List[0].(*ast.AssignStmt)
	if !ok || as.Tok != token.DEFINE || len(as.Lhs) != 1 || len(as.Rhs) != 1 {
		g.fail(fd.Body.List[0], "NewLexer: the first statement must be `l := &Lexer{..}`")
	}
	obj, ok := as.Lhs[0].(*ast.Ident)
	ue, ok2 := as.Rhs[0].(*ast.UnaryExpr)
	if !ok || !ok2 || ue.Op != token.AND {
		g.fail(as, "NewLexer: the first statement must be `l := &Lexer{..}`")
	}
	cl, ok := ue.X.(*ast.CompositeLit)
	if !ok || lxTypeString(cl.Type) != "Lexer" {
		g.fail(as, "NewLexer: the first statement must be `l := &Lexer{..}`")
	}
	t := &lxFn{g: g, name: "NewLexer", recv: obj.Name, ctor: true, locals: map[string]lxKind{}}
	if lxReserved[t.recv] || t.recv == param {
		g.fail(fd, "NewLexer: object name %s collides", t.recv)
	}
	t.locals[param] = lxReader
	if lxReserved[param] {
		g.fail(fd, "NewLexer: parameter name %s collides with a name of the generated text", param)
	}
	var inits []string
	seen := map[string]bool{}
	for _, el := range cl.Elts {
		kv, ok := el.(*ast.KeyValueExpr)
		if !ok {
			g.fail(el, "Lexer literal: keyed fields expected")
		}
		k, ok := kv.Key.(*ast.Ident)
		if !ok {
			g.fail(kv.Key, "Lexer literal: field name expected")
		}
		f, known := lxLexerFields[k.Name]
		if !known || seen[k.Name] {
			g.fail(k, "Lexer literal: unknown or repeated field %s", k.Name)
		}
		seen[k.Name] = true
		switch f.kind {
		case lxReader:
			ce, ok := kv.Value.(*ast.CallExpr)
			if !ok || !lxIsSel(ce.Fun, "bufio", "NewReader") || len(ce.Args) != 1 || !lxIsIdent(ce.Args[0], param) {
				g.fail(kv.Value, "Lexer literal: input must be bufio.NewReader(%s)", param)
			}
			inits = append(inits, fmt.Sprintf("%s := bufioNewReader %s", f.lean, param))
		case lxPos:
			pl, ok := kv.Value.(*ast.CompositeLit)
			if !ok || lxTypeString(pl.Type) != "Pos" {
				g.fail(kv.Value, "Lexer literal: %s must be a Pos{..} literal", k.Name)
			}
			vals := map[string]string{"ofs": "0", "line": "0", "col": "0"}
			pseen := map[string]bool{}
			for _, pe := range pl.Elts {
				pkv, ok := pe.(*ast.KeyValueExpr)
				if !ok {
					g.fail(pe, "Pos literal: keyed fields expected")
				}
				pk, ok := pkv.Key.(*ast.Ident)
				if !ok {
					g.fail(pkv.Key, "Pos literal: field name expected")
				}
				pf, known := lxPosFields[pk.Name]
				if !known || pseen[pk.Name] {
					g.fail(pk, "Pos literal: unknown or repeated field %s", pk.Name)
				}
				pseen[pk.Name] = true
				vals[pf.lean] = t.as(pkv.Value, t.expr(pkv.Value, ""), lxUint)
			}
			inits = append(inits, fmt.Sprintf("%s := { ofs := %s, line := %s, col := %s }", f.lean, vals["ofs"], vals["line"], vals["col"]))
		default:
			inits = append(inits, fmt.Sprintf("%s := %s", f.lean, t.as(kv.Value, t.expr(kv.Value, ""), f.kind)))
		}
	}
	lines := []string{"  newObj ({ " + strings.Join(inits, ", ") + " } : L)"}
	delete(t.locals, param) // the reader now belongs to the object
	if _, ok := fd.Body.List[len(fd.Body.List)-1].(*ast.ReturnStmt); !ok {
		g.fail(fd, "NewLexer: the body must end with `return %s`", t.recv)
	}
	lines = append(lines, t.block(fd.Body.List[1:], "  ", lxCtx{})...)
	return fmt.Sprintf("/-- %s `func NewLexer(%s io.Reader) *Lexer`: run on any `L`, the resulting object is the lexer returned. -/\n"+
		"def newLexer (%s : List Char) : M Unit Unit := do\n%s\n", lxFile, param, param, strings.Join(lines, "\n"))
}

// writesLexer: does the body of a method that is not translated assign to the receiver or call a method of it?
func (g *lxGen) writesLexer(fd *ast.FuncDecl) bool {
	if len(fd.Recv.List[0].Names) != 1 {
		return false
	}
	recv := fd.Recv.List[0].Names[0].Name
	var rooted func(e ast.Expr) bool
	rooted = func(e ast.Expr) bool {
		switch v := e.(type) {
		case *ast.Ident:
			return v.Name == recv
		case *ast.SelectorExpr:
			return rooted(v.X)
		case *ast.IndexExpr:
			return rooted(v.X)
		case *ast.StarExpr:
			return rooted(v.X)
		case *ast.ParenExpr:
			return rooted(v.X)
		}
		return false
	}
	writes := false
	ast.Inspect(fd.Body, func(n ast.Node) bool {
		switch v := n.(type) {
		case *ast.AssignStmt:
			for _, l := range v.Lhs {
				if rooted(l) {
					writes = true
				}
			}
		case *ast.IncDecStmt:
			if rooted(v.X) {
				writes = true
			}
		case *ast.CallExpr:
			if sel, ok := v.Fun.(*ast.SelectorExpr); ok && rooted(sel.X) {
				writes = true // a method of the lexer or of one of its fields (e.g. the reader)
			}
			for _, a := range v.Args {
				if u, ok := a.(*ast.UnaryExpr); ok && u.Op == token.AND && rooted(u.X) {
					writes = true
				}
				if lxIsIdent(a, recv) {
					writes = true
				}
			}
		case *ast.UnaryExpr:
			if v.Op == token.AND && rooted(v.X) {
				writes = true
			}
		}
		return true
	})
	return writes
}

func genLexFlow() {
	fset, f := parseFile(lxFile)
	g := &lxGen{fset: fset, file: f, consts: map[string]uint64{}, funcs: map[string]*ast.FuncDecl{}, out: map[string]string{}, state: map[string]int{}}
	g.collectConsts()
	g.checkStruct("Lexer", lxLexerFields)
	g.checkStruct("Pos", lxPosFields)
	g.collectFuncs()
	kw := g.keywordTable()

	for _, pf := range lxPureFuncs {
		g.need(pf)
	}
	for _, m := range lxMethods {
		g.need(m.lean)
	}
	g.need("newLexer")

	// methods of *Lexer / Lexer outside the list
	known := map[string]bool{}
	for _, m := range lxMethods {
		known[m.goName] = true
	}
	var readOnly []string
	for key, fd := range g.funcs {
		if !strings.HasPrefix(key, "*Lexer.") && !strings.HasPrefix(key, "Lexer.") {
			continue
		}
		if known[fd.Name.Name] {
			if strings.HasPrefix(key, "Lexer.") {
				g.fail(fd, "method %s has a value receiver", fd.Name.Name)
			}
			continue
		}
		if fd.Body != nil && g.writesLexer(fd) {
			g.fail(fd, "the method %s of Lexer is not translated but writes the lexer (or calls a method on it)", fd.Name.Name)
		}
		readOnly = append(readOnly, fd.Name.Name)
	}
	sort.Strings(readOnly)
	// functions other than NewLexer that make or take a Lexer are outside the model too
	for key, fd := range g.funcs {
		if strings.Contains(key, ".") || key == "NewLexer" {
			continue
		}
		for _, p := range fd.Type.Params.List {
			if ts := lxTypeString(p.Type); ts == "*Lexer" || ts == "Lexer" {
				g.fail(fd, "the function %s takes a Lexer and is not translated", key)
			}
		}
	}

	var sb strings.Builder
	sb.WriteString("/- GENERATED by /verif/extract (lexflow.go) from go/pkg/idl/lexer.go (the token constants, the keyword table,\n" +
		"   isDigit, isNumberContinuation, NewLexer and the methods of *Lexer). Do not edit.\n" +
		"   Vocabulary: Stef/LexFlowSem.lean. -/\nimport Stef.LexFlowSem\n\nnamespace Stef.Gen.LexFlow\nopen Stef.LexFlowSem\nopen Stef.Idl (Pos)\n\n")
	sb.WriteString("/-! the constants of the `const ( tError Token = iota .. )` block -/\n")
	for _, n := range g.constOrd {
		fmt.Fprintf(&sb, "def c_%s : Nat := %d\n", n, g.consts[n])
	}
	sb.WriteString("\n" + kw + "\n")
	for _, n := range g.order {
		sb.WriteString(g.out[n] + "\n")
	}
	var ro []string
	for _, n := range readOnly {
		ro = append(ro, strconv.Quote(n))
	}
	sb.WriteString("/-- methods of Lexer that are not translated; they neither assign to the lexer nor call a method on it\n" +
		"    (the generator fails on one that does). -/\n")
	fmt.Fprintf(&sb, "def readOnlyMethodsNotTranslated : List String := [%s]\n\n", strings.Join(ro, ", "))
	sb.WriteString("end Stef.Gen.LexFlow\n")
	writeOut("LexFlow.lean", sb.String())
}
