package main

// genWireSerde regenerates lean/Stef/Gen/WireSerde.lean: the serialization half of the wire schema,
// translated statement by statement from the Go AST (go/parser + go/ast only) into `do` blocks of the
// monad `M` of lean/Stef/WireSerdeSem.lean:
//
//   writeUvarint       <- func WriteUvarint(v uint64, dst *bytes.Buffer) error      go/pkg/internal/serde.go
//   serialize          <- func (w *WireSchema) Serialize(dst *bytes.Buffer) error   go/pkg/schema/wireschema.go
//   deserialize        <- func (w *WireSchema) Deserialize(src io.ByteReader) error
//   newWireSchemaIter  <- func NewWireSchemaIter(schema *WireSchema) WireSchemaIter
//   nextFieldCount     <- func (i *WireSchemaIter) NextFieldCount() (uint, error)
//   done               <- func (i *WireSchemaIter) Done() bool
//   facts: structCountsElemBits (the element type of `structCounts`), nextFieldCountResultBits,
//          pkgVarsReferenced / mutablePkgVarsReferenced (package-level variables the bodies refer to).
//
// The order of the statements, the conditions, what is assigned to what and every conversion come
// from the source. The objects reached through pointers are the fields of WireSerdeSem.Heap:
// X.structCounts (X of type *WireSchema; i.schema.structCounts for the iterator) = counts, the
// *bytes.Buffer parameter = buf, the io.ByteReader parameter = src, i.structIdx = idx.
//
// Translated subset (everything else makes this generator fail with a message that names the construct):
//
//   stmt ::= var x []byte | x := e | x, y := mcall | x = e  (x a local of the SAME block)
//          | X.structCounts = e | X.structCounts[e] = e | i.structIdx++ | i.structIdx--
//          | if [x := mcall;] cond {..} [else ..]
//          | for _, x := range X.structCounts {..}      (body must not write structCounts)
//          | for i := 0; i < e; i++ {..}                (e free of heap reads, i not assigned)
//          | return e, ..                                (last statement of its block)
//   mcall::= internal.WriteUvarint(e, dst) | binary.ReadUvarint(src) | dst.Write(e)
//   e    ::= literal | local | constant | nil | package-level error variable | X.structCounts | X.structCounts[e]
//          | i.structIdx | len(e) | uintN(e) | int(e) | e + e | e - e  (int only)
//          | binary.AppendUvarint(e, e) | errors.New("..") | make([]T, e)
//   cond ::= e (< <= > >= == !=) e | err (== | !=) nil | cond && cond | cond || cond | !cond
//
// No goto/break/continue/defer/go/closures/named-result use; a local may only be assigned in the block
// that declares it (so locals are immutable `let`s in Lean and loop bounds cannot change).

import (
	"fmt"
	"go/ast"
	"go/constant"
	"go/parser"
	"go/printer"
	"go/token"
	"os"
	"path/filepath"
	"sort"
	"strconv"
	"strings"
)

func init() { register("WireSerde", genWireSerde) }

type wsKind int

const (
	wkU           wsKind = iota // unsigned integer (Lean Nat); goType says which
	wkI                         // int (Lean Int)
	wkConst                     // untyped integer constant
	wkErr                       // error (Lean Err)
	wkNil                       // nil
	wkBytes                     // []byte (Lean List Nat)
	wkCounts                    // a []T of struct counts: X.structCounts read from the heap, or make([]T, n)
	wkBool                      // a condition (Lean Prop, decidable)
	wkBuf                       // the *bytes.Buffer parameter
	wkSrc                       // the io.ByteReader parameter
	wkWS                        // a *WireSchema (receiver or parameter)
	wkIter                      // the *WireSchemaIter receiver
	wkNamedResult               // a named result (must not be used)
)

type wsVal struct {
	lean   string
	kind   wsKind
	goType string // for wkU
}

func (v wsVal) pure() bool { return !strings.Contains(v.lean, "←") }

var wsUintBits = map[string]int{"uint": 64, "uint64": 64, "uint32": 32, "uint16": 16, "uint8": 8, "byte": 8}

// names a Go local must not have because the generated Lean text uses them itself.
var wsReserved = map[string]bool{}

func init() {
	for _, n := range strings.Fields(`at end from fun have show then do let match with in by open def theorem where mut unless
		try catch finally pure some none true false nil Type Prop if else for return instance structure inductive
		namespace section variable import deriving abbrev example termination_by decreasing_by
		ret call forEach forFrom forLt getCounts setCounts getCount setCount getIdx setIdx makeCounts len wrap ofInt toInt
		appendUvarint bufWrite readUvarint readUvarintFull decide
		writeUvarint serialize deserialize newWireSchemaIter nextFieldCount done`) {
		wsReserved[n] = true
	}
}

// wsPkg: what is known about one Go package directory.
type wsPkg struct {
	dir     string
	files   map[string]*ast.File // rel path -> file
	fsets   map[string]*token.FileSet
	vars    map[string]wsPkgVar // package-level variables
	structs map[string]*ast.StructType
	consts  map[string]string // name -> rel file that declares it
}

type wsPkgVar struct {
	isErr bool
	msg   string
	rel   string
}

func wsLoadPkg(dir string) *wsPkg {
	p := &wsPkg{dir: dir, files: map[string]*ast.File{}, fsets: map[string]*token.FileSet{}, vars: map[string]wsPkgVar{},
		structs: map[string]*ast.StructType{}, consts: map[string]string{}}
	ents, err := os.ReadDir(filepath.Join(repo, dir))
	if err != nil {
		die("read %s: %v", dir, err)
	}
	for _, e := range ents {
		n := e.Name()
		if e.IsDir() || !strings.HasSuffix(n, ".go") || strings.HasSuffix(n, "_test.go") {
			continue
		}
		rel := dir + "/" + n
		fset := token.NewFileSet()
		f, err := parser.ParseFile(fset, filepath.Join(repo, rel), nil, parser.ParseComments)
		if err != nil {
			die("parse %s: %v", rel, err)
		}
		p.files[rel], p.fsets[rel] = f, fset
		for _, d := range f.Decls {
			gd, ok := d.(*ast.GenDecl)
			if !ok {
				continue
			}
			for _, s := range gd.Specs {
				switch v := s.(type) {
				case *ast.ValueSpec:
					for i, nm := range v.Names {
						if gd.Tok == token.CONST {
							p.consts[nm.Name] = rel
							continue
						}
						pv := wsPkgVar{rel: rel}
						if len(v.Values) == len(v.Names) {
							if ce, ok := v.Values[i].(*ast.CallExpr); ok && len(ce.Args) == 1 {
								if sel, ok := ce.Fun.(*ast.SelectorExpr); ok && isIdent(sel.X, "errors") && sel.Sel.Name == "New" {
									if lit, ok := ce.Args[0].(*ast.BasicLit); ok && lit.Kind == token.STRING {
										if m, err := strconv.Unquote(lit.Value); err == nil {
											pv.isErr, pv.msg = true, m
										}
									}
								}
							}
						}
						p.vars[nm.Name] = pv
					}
				case *ast.TypeSpec:
					if st, ok := v.Type.(*ast.StructType); ok {
						p.structs[v.Name.Name] = st
					}
				}
			}
		}
	}
	return p
}

func (p *wsPkg) findFunc(rel, recvType, name string) *ast.FuncDecl {
	f := p.files[rel]
	if f == nil {
		die("%s not found", rel)
	}
	var found *ast.FuncDecl
	for _, d := range f.Decls {
		fd, ok := d.(*ast.FuncDecl)
		if !ok || fd.Name.Name != name {
			continue
		}
		rt := ""
		if fd.Recv != nil && len(fd.Recv.List) == 1 {
			rt = wsTypeString(fd.Recv.List[0].Type)
		}
		if rt != recvType {
			continue
		}
		if found != nil {
			die("%s: %s %s declared twice", rel, recvType, name)
		}
		found = fd
	}
	if found == nil || found.Body == nil {
		die("%s: function %s %s not found", rel, recvType, name)
	}
	return found
}

func wsTypeString(e ast.Expr) string {
	switch v := e.(type) {
	case *ast.Ident:
		return v.Name
	case *ast.StarExpr:
		return "*" + wsTypeString(v.X)
	case *ast.SelectorExpr:
		return wsTypeString(v.X) + "." + v.Sel.Name
	case *ast.ArrayType:
		if v.Len == nil {
			return "[]" + wsTypeString(v.Elt)
		}
	}
	return fmt.Sprintf("<%T>", e)
}

// wsTr translates one function body.
type wsTr struct {
	pkg      *wsPkg
	rel      string
	fset     *token.FileSet
	imports  map[string]string // local package name -> import path
	where    string
	elemType string // element type of WireSchema.structCounts
	scopes   []map[string]wsVal
	results  []wsKind // kinds of the results (wkU / wkErr / wkBool)
	resTypes []string
	g        *wsGen
}

// wsGen: what is shared by the functions of one run.
type wsGen struct {
	usedConsts  map[string]string // name -> decimal value
	usedPkgVars map[string]wsPkgVar
}

func (t *wsTr) fail(n ast.Node, f string, a ...any) {
	die("%s at %s: %s (outside the translated Go subset)", t.where, t.fset.Position(n.Pos()), fmt.Sprintf(f, a...))
}

func (t *wsTr) str(n ast.Node) string {
	var sb strings.Builder
	printer.Fprint(&sb, t.fset, n)
	return strings.Join(strings.Fields(sb.String()), " ")
}

func (t *wsTr) push()                 { t.scopes = append(t.scopes, map[string]wsVal{}) }
func (t *wsTr) pop()                  { t.scopes = t.scopes[:len(t.scopes)-1] }
func (t *wsTr) top() map[string]wsVal { return t.scopes[len(t.scopes)-1] }

func (t *wsTr) lookup(name string) (wsVal, bool) {
	for i := len(t.scopes) - 1; i >= 0; i-- {
		if v, ok := t.scopes[i][name]; ok {
			return v, true
		}
	}
	return wsVal{}, false
}

func (t *wsTr) leanIdent(n ast.Node, name string) string {
	if wsReserved[name] || strings.HasPrefix(name, "c_") || strings.HasPrefix(name, "__") {
		t.fail(n, "local name %s collides with the generated Lean text", name)
	}
	for _, r := range name {
		if !(r == '_' || r >= '0' && r <= '9' || r >= 'a' && r <= 'z' || r >= 'A' && r <= 'Z') {
			t.fail(n, "local name %s", name)
		}
	}
	return name
}

func (t *wsTr) declare(n ast.Node, name string, v wsVal) string {
	v.lean = t.leanIdent(n, name)
	t.top()[name] = v
	return v.lean
}

func (t *wsTr) pkgOf(e ast.Expr) string {
	id, ok := e.(*ast.Ident)
	if !ok {
		return ""
	}
	if _, isLocal := t.lookup(id.Name); isLocal {
		return ""
	}
	return t.imports[id.Name]
}

// isCall: e is a call of <import path>.<fn>.
func (t *wsTr) isCall(e ast.Expr, path, fn string) (*ast.CallExpr, bool) {
	ce, ok := e.(*ast.CallExpr)
	if !ok || ce.Ellipsis.IsValid() {
		return nil, false
	}
	sel, ok := ce.Fun.(*ast.SelectorExpr)
	if !ok || sel.Sel.Name != fn || t.pkgOf(sel.X) != path {
		return nil, false
	}
	return ce, true
}

// countsSel: e is X.structCounts with X a *WireSchema, or i.schema.structCounts with i the iterator.
func (t *wsTr) countsSel(e ast.Expr) bool {
	sel, ok := unparen(e).(*ast.SelectorExpr)
	if !ok || sel.Sel.Name != "structCounts" {
		return false
	}
	switch x := sel.X.(type) {
	case *ast.Ident:
		v, ok := t.lookup(x.Name)
		return ok && v.kind == wkWS
	case *ast.SelectorExpr:
		if id, ok := x.X.(*ast.Ident); ok && x.Sel.Name == "schema" {
			v, ok := t.lookup(id.Name)
			return ok && v.kind == wkIter
		}
	}
	return false
}

func (t *wsTr) idxSel(e ast.Expr) bool {
	sel, ok := unparen(e).(*ast.SelectorExpr)
	if !ok || sel.Sel.Name != "structIdx" {
		return false
	}
	id, ok := sel.X.(*ast.Ident)
	if !ok {
		return false
	}
	v, ok := t.lookup(id.Name)
	return ok && v.kind == wkIter
}

func (t *wsTr) constValue(n ast.Node, name string) string {
	if v, ok := t.g.usedConsts[name]; ok {
		return v
	}
	rel := t.pkg.consts[name]
	env := &constEnv{vals: map[string]constant.Value{}}
	out := map[string]constant.Value{}
	collectConsts(t.pkg.files[rel], env, out)
	c, ok := out[name]
	if !ok {
		t.fail(n, "constant %s", name)
	}
	b := bigOf(c)
	if b.Sign() < 0 {
		t.fail(n, "negative constant %s", name)
	}
	t.g.usedConsts[name] = b.String()
	return b.String()
}

// asInt / asNat: an integer-valued expression in an int / unsigned context.
func (t *wsTr) asInt(n ast.Node, v wsVal) string {
	switch v.kind {
	case wkI:
		return v.lean
	case wkConst:
		return "(" + v.lean + " : Int)"
	}
	t.fail(n, "`%s` is not an int", t.str(n))
	return ""
}

func (t *wsTr) asNat(n ast.Node, v wsVal, goType string) string {
	switch v.kind {
	case wkU:
		if goType == "" || v.goType == goType {
			return v.lean
		}
		t.fail(n, "`%s` has type %s where %s is needed", t.str(n), v.goType, goType)
	case wkConst:
		return v.lean
	}
	t.fail(n, "`%s` is not an unsigned integer", t.str(n))
	return ""
}

func (t *wsTr) expr(e ast.Expr) wsVal {
	switch v := e.(type) {
	case *ast.ParenExpr:
		return t.expr(v.X)
	case *ast.BasicLit:
		if v.Kind == token.INT {
			return wsVal{lean: bigOf(constant.MakeFromLiteral(v.Value, v.Kind, 0)).String(), kind: wkConst}
		}
	case *ast.Ident:
		if v.Name == "nil" {
			return wsVal{lean: "none", kind: wkNil}
		}
		if l, ok := t.lookup(v.Name); ok {
			switch l.kind {
			case wkU, wkI, wkErr, wkBytes:
				return l
			case wkNamedResult:
				t.fail(e, "use of the named result %s", v.Name)
			}
			t.fail(e, "`%s` used as a value", v.Name)
		}
		if _, ok := t.pkg.consts[v.Name]; ok {
			t.constValue(e, v.Name)
			return wsVal{lean: "c_" + v.Name, kind: wkConst}
		}
		if pv, ok := t.pkg.vars[v.Name]; ok {
			if !pv.isErr {
				t.fail(e, "reference to the package-level variable %s (%s), which is not an `errors.New` value: shared mutable state", v.Name, pv.rel)
			}
			t.g.usedPkgVars[v.Name] = pv
			return wsVal{lean: fmt.Sprintf("(some (.pkgVar %s))", wsLeanString(t, e, v.Name)), kind: wkErr}
		}
		t.fail(e, "unknown identifier %s", v.Name)
	case *ast.SelectorExpr:
		if t.countsSel(e) {
			return wsVal{lean: "(← getCounts)", kind: wkCounts}
		}
		if t.idxSel(e) {
			return wsVal{lean: "(← getIdx)", kind: wkI}
		}
	case *ast.IndexExpr:
		if t.countsSel(v.X) {
			return wsVal{lean: fmt.Sprintf("(← getCount %s)", wsArg(t.asInt(v.Index, t.expr(v.Index)))), kind: wkU, goType: t.elemType}
		}
	case *ast.UnaryExpr:
		if v.Op == token.NOT {
			return wsVal{lean: "¬(" + t.cond(v.X) + ")", kind: wkBool}
		}
	case *ast.BinaryExpr:
		switch v.Op {
		case token.LAND, token.LOR:
			op := " ∧ "
			if v.Op == token.LOR {
				op = " ∨ "
			}
			return wsVal{lean: "(" + t.cond(v.X) + op + t.cond(v.Y) + ")", kind: wkBool}
		case token.ADD, token.SUB:
			l, r := t.expr(v.X), t.expr(v.Y)
			if l.kind == wkI || r.kind == wkI {
				return wsVal{lean: fmt.Sprintf("(%s %s %s)", t.asInt(v.X, l), v.Op, t.asInt(v.Y, r)), kind: wkI}
			}
			t.fail(e, "arithmetic `%s` on values that are not int", t.str(e))
		case token.GTR, token.LSS, token.GEQ, token.LEQ, token.EQL, token.NEQ:
			op := wsCmpOp(v.Op)
			l, r := t.expr(v.X), t.expr(v.Y)
			switch {
			case l.kind == wkErr && r.kind == wkNil && (v.Op == token.EQL || v.Op == token.NEQ):
				return wsVal{lean: l.lean + " " + op + " none", kind: wkBool}
			case l.kind == wkI || r.kind == wkI:
				return wsVal{lean: t.asInt(v.X, l) + " " + op + " " + t.asInt(v.Y, r), kind: wkBool}
			case l.kind == wkU && r.kind == wkU:
				return wsVal{lean: l.lean + " " + op + " " + t.asNat(v.Y, r, l.goType), kind: wkBool}
			case l.kind == wkU && r.kind == wkConst, l.kind == wkConst && r.kind == wkU:
				return wsVal{lean: l.lean + " " + op + " " + r.lean, kind: wkBool}
			}
			t.fail(e, "comparison `%s`", t.str(e))
		}
	case *ast.CallExpr:
		if v.Ellipsis.IsValid() {
			break
		}
		if id, ok := v.Fun.(*ast.Ident); ok {
			if _, shadowed := t.lookup(id.Name); shadowed {
				break
			}
			if id.Name == "len" && len(v.Args) == 1 {
				a := t.expr(v.Args[0])
				if a.kind == wkCounts || a.kind == wkBytes {
					return wsVal{lean: "len " + wsArg(a.lean), kind: wkI}
				}
				t.fail(e, "len of `%s`", t.str(v.Args[0]))
			}
			if bits, ok := wsUintBits[id.Name]; ok && len(v.Args) == 1 {
				a := t.expr(v.Args[0])
				switch a.kind {
				case wkU:
					return wsVal{lean: fmt.Sprintf("wrap %d %s", bits, wsArg(a.lean)), kind: wkU, goType: id.Name}
				case wkI:
					return wsVal{lean: fmt.Sprintf("ofInt %d %s", bits, wsArg(a.lean)), kind: wkU, goType: id.Name}
				case wkConst:
					return wsVal{lean: fmt.Sprintf("wrap %d %s", bits, wsArg(a.lean)), kind: wkU, goType: id.Name}
				}
				t.fail(e, "conversion `%s`", t.str(e))
			}
			if id.Name == "int" && len(v.Args) == 1 {
				a := t.expr(v.Args[0])
				switch a.kind {
				case wkU:
					return wsVal{lean: "toInt " + wsArg(a.lean), kind: wkI}
				case wkI, wkConst:
					return wsVal{lean: t.asInt(v.Args[0], a), kind: wkI}
				}
				t.fail(e, "conversion `%s`", t.str(e))
			}
			if id.Name == "make" && len(v.Args) == 2 {
				if wsTypeString(v.Args[0]) != "[]"+t.elemType {
					t.fail(e, "make of `%s`, which is not the type of structCounts ([]%s)", t.str(v.Args[0]), t.elemType)
				}
				n := t.expr(v.Args[1])
				return wsVal{lean: fmt.Sprintf("(← makeCounts %s)", wsArg(t.asInt(v.Args[1], n))), kind: wkCounts}
			}
		}
		if ce, ok := t.isCall(e, "encoding/binary", "AppendUvarint"); ok && len(ce.Args) == 2 {
			b := t.expr(ce.Args[0])
			bl := b.lean
			switch b.kind {
			case wkNil:
				bl = "[]"
			case wkBytes:
			default:
				t.fail(e, "first argument of AppendUvarint `%s`", t.str(ce.Args[0]))
			}
			x := t.expr(ce.Args[1])
			return wsVal{lean: fmt.Sprintf("appendUvarint %s %s", wsArg(bl), wsArg(t.asNat(ce.Args[1], x, "uint64"))), kind: wkBytes}
		}
		if ce, ok := t.isCall(e, "errors", "New"); ok && len(ce.Args) == 1 {
			if lit, ok := ce.Args[0].(*ast.BasicLit); ok && lit.Kind == token.STRING {
				if m, err := strconv.Unquote(lit.Value); err == nil {
					return wsVal{lean: fmt.Sprintf("(some (.new %s))", wsLeanString(t, e, m)), kind: wkErr}
				}
			}
		}
		if _, ok := t.mcall(e); ok {
			t.fail(e, "call `%s` inside an expression (only as the right-hand side of `:=`)", t.str(e))
		}
	}
	t.fail(e, "expression `%s`", t.str(e))
	return wsVal{}
}

func wsCmpOp(op token.Token) string {
	switch op {
	case token.GTR:
		return ">"
	case token.LSS:
		return "<"
	case token.GEQ:
		return "≥"
	case token.LEQ:
		return "≤"
	case token.EQL:
		return "="
	}
	return "≠"
}

// wsArg parenthesises a Lean term that is used as an argument.
func wsArg(s string) string {
	if strings.ContainsAny(s, " ") && !(strings.HasPrefix(s, "(") && wsClosesAtEnd(s)) {
		return "(" + s + ")"
	}
	return s
}

// wsClosesAtEnd: the parenthesis opened by the first character is closed by the last one.
func wsClosesAtEnd(s string) bool {
	depth := 0
	for i, r := range s {
		switch r {
		case '(':
			depth++
		case ')':
			depth--
			if depth == 0 && i != len(s)-1 {
				return false
			}
		}
	}
	return depth == 0
}

func wsLeanString(t *wsTr, n ast.Node, s string) string {
	for _, r := range s {
		if r < 0x20 || r > 0x7e || r == '"' || r == '\\' {
			t.fail(n, "string %q (only printable ASCII without quote and backslash)", s)
		}
	}
	return "\"" + s + "\""
}

func (t *wsTr) cond(e ast.Expr) string {
	v := t.expr(e)
	if v.kind != wkBool {
		t.fail(e, "condition `%s`", t.str(e))
	}
	return v.lean
}

// mcall: the calls that act on the heap. Returns the Lean action and the kinds of its results.
func (t *wsTr) mcall(e ast.Expr) (struct {
	lean string
	res  []wsVal
}, bool) {
	type R = struct {
		lean string
		res  []wsVal
	}
	argIs := func(a ast.Expr, k wsKind) bool {
		id, ok := unparen(a).(*ast.Ident)
		if !ok {
			return false
		}
		v, ok := t.lookup(id.Name)
		return ok && v.kind == k
	}
	if ce, ok := t.isCall(e, "github.com/splunk/stef/go/pkg/internal", "WriteUvarint"); ok && len(ce.Args) == 2 {
		if !argIs(ce.Args[1], wkBuf) {
			t.fail(e, "WriteUvarint into `%s`, which is not the *bytes.Buffer parameter", t.str(ce.Args[1]))
		}
		x := t.expr(ce.Args[0])
		return R{fmt.Sprintf("call (writeUvarint %s)", wsArg(t.asNat(ce.Args[0], x, "uint64"))), []wsVal{{kind: wkErr}}}, true
	}
	if ce, ok := t.isCall(e, "encoding/binary", "ReadUvarint"); ok && len(ce.Args) == 1 {
		if !argIs(ce.Args[0], wkSrc) {
			t.fail(e, "ReadUvarint from `%s`, which is not the io.ByteReader parameter", t.str(ce.Args[0]))
		}
		return R{"readUvarint", []wsVal{{kind: wkU, goType: "uint64"}, {kind: wkErr}}}, true
	}
	if ce, ok := e.(*ast.CallExpr); ok && !ce.Ellipsis.IsValid() && len(ce.Args) == 1 {
		if sel, ok := ce.Fun.(*ast.SelectorExpr); ok && sel.Sel.Name == "Write" && argIs(sel.X, wkBuf) {
			b := t.expr(ce.Args[0])
			if b.kind != wkBytes {
				t.fail(e, "Write of `%s`, which is not a []byte local", t.str(ce.Args[0]))
			}
			return R{"bufWrite " + wsArg(b.lean), []wsVal{{kind: wkI}, {kind: wkErr}}}, true
		}
	}
	return R{}, false
}

// writesCounts: the block assigns structCounts or one of its elements.
func (t *wsTr) writesCounts(b *ast.BlockStmt) bool {
	found := false
	ast.Inspect(b, func(n ast.Node) bool {
		switch v := n.(type) {
		case *ast.AssignStmt:
			for _, l := range v.Lhs {
				if ix, ok := l.(*ast.IndexExpr); ok {
					l = ix.X
				}
				if sel, ok := unparen(l).(*ast.SelectorExpr); ok && sel.Sel.Name == "structCounts" {
					found = true
				}
			}
		case *ast.IncDecStmt:
			x := v.X
			if ix, ok := x.(*ast.IndexExpr); ok {
				x = ix.X
			}
			if sel, ok := unparen(x).(*ast.SelectorExpr); ok && sel.Sel.Name == "structCounts" {
				found = true
			}
		}
		return true
	})
	return found
}

func wsIndent(lines []string) []string {
	out := make([]string, len(lines))
	for i, l := range lines {
		out[i] = "  " + l
	}
	return out
}

func (t *wsTr) define(s ast.Stmt, v *ast.AssignStmt) []string {
	// x, y := mcall   |   x := mcall   |   x := e
	if len(v.Rhs) != 1 {
		t.fail(s, "`%s`: more than one value on the right", t.str(s))
	}
	names := make([]string, len(v.Lhs))
	for i, l := range v.Lhs {
		id, ok := l.(*ast.Ident)
		if !ok {
			t.fail(s, "`:=` to `%s`", t.str(l))
		}
		names[i] = id.Name
	}
	if mc, ok := t.mcall(v.Rhs[0]); ok {
		if len(mc.res) != len(names) {
			t.fail(s, "`%s`: %d names for %d results", t.str(s), len(names), len(mc.res))
		}
		var pats []string
		for i, n := range names {
			if n == "_" {
				pats = append(pats, "_")
				continue
			}
			if old, ok := t.lookup(n); ok && old.kind == wkNamedResult {
				t.fail(s, "assignment to the named result %s", n)
			}
			pats = append(pats, t.declare(v.Lhs[i], n, mc.res[i]))
		}
		if len(pats) == 1 {
			return []string{fmt.Sprintf("let %s ← %s", pats[0], mc.lean)}
		}
		return []string{fmt.Sprintf("let (%s) ← %s", strings.Join(pats, ", "), mc.lean)}
	}
	if len(names) != 1 {
		t.fail(s, "`%s`: the right-hand side is not one of the translated calls", t.str(s))
	}
	r := t.expr(v.Rhs[0])
	switch r.kind {
	case wkU, wkI, wkErr, wkBytes:
	case wkConst:
		t.fail(s, "`%s`: local with the default type of a constant", t.str(s))
	default:
		t.fail(s, "`%s`: a local of this type (a local copy of structCounts would alias the receiver's slice)", t.str(s))
	}
	if names[0] == "_" {
		t.fail(s, "`_ := ..`")
	}
	if old, ok := t.lookup(names[0]); ok && old.kind == wkNamedResult {
		t.fail(s, "assignment to the named result %s", names[0])
	}
	rl := r.lean
	name := t.declare(v.Lhs[0], names[0], r)
	return []string{wsLet(name, rl)}
}

// wsLet: `let x := (← m)` is written `let x ← m`.
func wsLet(name, rhs string) string {
	if strings.HasPrefix(rhs, "(← ") && wsClosesAtEnd(rhs) {
		return fmt.Sprintf("let %s ← %s", name, rhs[len("(← "):len(rhs)-1])
	}
	return fmt.Sprintf("let %s := %s", name, rhs)
}

func (t *wsTr) block(list []ast.Stmt) []string {
	t.push()
	defer t.pop()
	return t.stmts(list)
}

func (t *wsTr) stmts(list []ast.Stmt) []string {
	var out []string
	for i, s := range list {
		switch v := s.(type) {
		case *ast.DeclStmt:
			gd, ok := v.Decl.(*ast.GenDecl)
			if !ok || gd.Tok != token.VAR || len(gd.Specs) != 1 {
				t.fail(s, "declaration `%s`", t.str(s))
			}
			vs := gd.Specs[0].(*ast.ValueSpec)
			if len(vs.Names) != 1 || len(vs.Values) != 0 || vs.Type == nil || wsTypeString(vs.Type) != "[]byte" {
				t.fail(s, "declaration `%s` (only `var x []byte`)", t.str(s))
			}
			name := t.declare(vs.Names[0], vs.Names[0].Name, wsVal{kind: wkBytes})
			out = append(out, fmt.Sprintf("let %s : List Nat := []", name))
		case *ast.AssignStmt:
			switch v.Tok {
			case token.DEFINE:
				out = append(out, t.define(s, v)...)
			case token.ASSIGN:
				if len(v.Lhs) != 1 || len(v.Rhs) != 1 {
					t.fail(s, "multiple assignment `%s`", t.str(s))
				}
				switch l := v.Lhs[0].(type) {
				case *ast.Ident:
					old, ok := t.top()[l.Name]
					if !ok {
						if _, outer := t.lookup(l.Name); outer {
							t.fail(s, "assignment to %s, a local of an enclosing block", l.Name)
						}
						t.fail(s, "assignment to %s", l.Name)
					}
					if _, isCall := t.mcall(v.Rhs[0]); isCall {
						t.fail(s, "`%s`: call on the right of `=`", t.str(s))
					}
					r := t.expr(v.Rhs[0])
					switch {
					case old.kind == wkBytes && r.kind == wkBytes:
					case old.kind == wkBytes && r.kind == wkNil:
						r.lean = "[]"
					case old.kind == wkU && (r.kind == wkU && r.goType == old.goType || r.kind == wkConst):
					case old.kind == wkI && (r.kind == wkI || r.kind == wkConst):
						r.lean = t.asInt(v.Rhs[0], r)
					case old.kind == wkErr && r.kind == wkErr:
					case old.kind == wkErr && r.kind == wkNil:
					default:
						t.fail(s, "assignment `%s`", t.str(s))
					}
					out = append(out, wsLet(old.lean, r.lean))
				case *ast.SelectorExpr:
					if !t.countsSel(l) {
						t.fail(s, "assignment to `%s`", t.str(l))
					}
					r := t.expr(v.Rhs[0])
					if r.kind != wkCounts {
						t.fail(s, "`%s`: the value assigned to structCounts", t.str(s))
					}
					out = append(out, "setCounts "+wsArg(r.lean))
				case *ast.IndexExpr:
					if !t.countsSel(l.X) {
						t.fail(s, "assignment to `%s`", t.str(l))
					}
					ix := t.expr(l.Index)
					r := t.expr(v.Rhs[0])
					out = append(out, fmt.Sprintf("setCount %s %s", wsArg(t.asInt(l.Index, ix)), wsArg(t.asNat(v.Rhs[0], r, t.elemType))))
				default:
					t.fail(s, "assignment to `%s`", t.str(v.Lhs[0]))
				}
			default:
				t.fail(s, "assignment operator in `%s`", t.str(s))
			}
		case *ast.IncDecStmt:
			if !t.idxSel(v.X) {
				t.fail(s, "`%s`", t.str(s))
			}
			op := "+"
			if v.Tok == token.DEC {
				op = "-"
			}
			out = append(out, fmt.Sprintf("setIdx ((← getIdx) %s 1)", op))
		case *ast.IfStmt:
			out = append(out, t.ifStmt(v)...)
		case *ast.RangeStmt:
			if !t.countsSel(v.X) || v.Tok != token.DEFINE {
				t.fail(s, "range over `%s` (only `for _, x := range X.structCounts`)", t.str(v.X))
			}
			if !isIdent(v.Key, "_") || v.Value == nil {
				t.fail(s, "range with a key (only `for _, x := range X.structCounts`)")
			}
			val, ok := v.Value.(*ast.Ident)
			if !ok || val.Name == "_" {
				t.fail(s, "range value")
			}
			if t.writesCounts(v.Body) {
				t.fail(s, "the body of a range over structCounts writes structCounts")
			}
			t.push()
			name := t.declare(val, val.Name, wsVal{kind: wkU, goType: t.elemType})
			out = append(out, fmt.Sprintf("forEach (← getCounts) fun %s => do", name))
			out = append(out, wsIndent(t.nonEmpty(t.block(v.Body.List)))...)
			t.pop()
		case *ast.ForStmt:
			out = append(out, t.forStmt(v)...)
		case *ast.ReturnStmt:
			if i != len(list)-1 {
				t.fail(list[i+1], "statement after return")
			}
			if len(v.Results) != len(t.results) {
				t.fail(s, "`%s`: %d values for %d results", t.str(s), len(v.Results), len(t.results))
			}
			var parts []string
			for k, re := range v.Results {
				switch t.results[k] {
				case wkBool:
					parts = append(parts, "decide ("+t.cond(re)+")")
				case wkErr:
					r := t.expr(re)
					if r.kind != wkErr && r.kind != wkNil {
						t.fail(re, "`%s` returned as error", t.str(re))
					}
					parts = append(parts, r.lean)
				case wkU:
					parts = append(parts, t.asNat(re, t.expr(re), t.resTypes[k]))
				}
			}
			if len(parts) == 1 {
				out = append(out, "ret "+wsArg(parts[0]))
			} else {
				out = append(out, "ret ("+strings.Join(parts, ", ")+")")
			}
		default:
			t.fail(s, "statement `%s` (%T)", t.str(s), s)
		}
	}
	return out
}

func (t *wsTr) nonEmpty(lines []string) []string {
	if len(lines) == 0 {
		return []string{"pure ()"}
	}
	return lines
}

func (t *wsTr) ifStmt(v *ast.IfStmt) []string {
	var out []string
	t.push() // the scope of the init statement
	defer t.pop()
	if v.Init != nil {
		as, ok := v.Init.(*ast.AssignStmt)
		if !ok || as.Tok != token.DEFINE {
			t.fail(v, "if with the init statement `%s`", t.str(v.Init))
		}
		for _, l := range as.Lhs {
			if id, ok := l.(*ast.Ident); ok && id.Name != "_" {
				if _, shadows := t.lookup(id.Name); shadows {
					t.fail(v, "the init statement of the if shadows %s", id.Name)
				}
			}
		}
		out = append(out, t.define(v.Init, as)...)
	}
	out = append(out, "if "+t.cond(v.Cond)+" then")
	out = append(out, wsIndent(t.nonEmpty(t.block(v.Body.List)))...)
	switch e := v.Else.(type) {
	case nil:
	case *ast.BlockStmt:
		out = append(out, "else")
		out = append(out, wsIndent(t.nonEmpty(t.block(e.List)))...)
	case *ast.IfStmt:
		out = append(out, "else")
		out = append(out, wsIndent(t.block([]ast.Stmt{e}))...)
	default:
		t.fail(v, "else %T", v.Else)
	}
	return out
}

// for i := 0; i < e; i++ { .. }
func (t *wsTr) forStmt(v *ast.ForStmt) []string {
	bad := func() {
		t.fail(v, "loop header `%s` (only `for i := 0; i < e; i++`)", t.str(v)[:strings.Index(t.str(v)+"{", "{")])
	}
	init, ok := v.Init.(*ast.AssignStmt)
	if !ok || init.Tok != token.DEFINE || len(init.Lhs) != 1 || len(init.Rhs) != 1 || !isZeroLit(init.Rhs[0]) {
		bad()
	}
	iv, ok := init.Lhs[0].(*ast.Ident)
	if !ok || iv.Name == "_" {
		bad()
	}
	cond, ok := v.Cond.(*ast.BinaryExpr)
	if !ok || cond.Op != token.LSS || !isIdent(cond.X, iv.Name) {
		bad()
	}
	post, ok := v.Post.(*ast.IncDecStmt)
	if !ok || post.Tok != token.INC || !isIdent(post.X, iv.Name) {
		bad()
	}
	// the bound is translated OUTSIDE the scope of i; it must be an int without heap reads. Locals are never
	// assigned from nested blocks, so it is the same value in every round.
	ast.Inspect(cond.Y, func(n ast.Node) bool {
		if id, ok := n.(*ast.Ident); ok && id.Name == iv.Name {
			t.fail(v, "the loop bound mentions the loop variable")
		}
		return true
	})
	b := t.expr(cond.Y)
	if !b.pure() {
		t.fail(cond.Y, "the loop bound `%s` reads the heap (it could change while the loop runs)", t.str(cond.Y))
	}
	bound := t.asInt(cond.Y, b)
	t.push()
	defer t.pop()
	name := t.declare(iv, iv.Name, wsVal{kind: wkI})
	out := []string{fmt.Sprintf("forLt %s fun %s => do", wsArg(bound), name)}
	return append(out, wsIndent(t.nonEmpty(t.block(v.Body.List)))...)
}

// ---------------------------------------------------------------------------------------------

type wsFuncSpec struct {
	rel, recvType, goName, leanName string
}

func (g *wsGen) newTr(pkg *wsPkg, rel string, fd *ast.FuncDecl, elemType string) *wsTr {
	t := &wsTr{pkg: pkg, rel: rel, fset: pkg.fsets[rel], imports: map[string]string{}, elemType: elemType, g: g}
	t.where = fmt.Sprintf("%s %s", rel, fd.Name.Name)
	for _, im := range pkg.files[rel].Imports {
		p, _ := strconv.Unquote(im.Path.Value)
		name := p[strings.LastIndex(p, "/")+1:]
		if im.Name != nil {
			name = im.Name.Name
		}
		t.imports[name] = p
	}
	t.push()
	return t
}

// translate: one function with a body of statements. Returns the Lean definition.
func (g *wsGen) translate(pkg *wsPkg, sp wsFuncSpec, elemType string) string {
	fd := pkg.findFunc(sp.rel, sp.recvType, sp.goName)
	t := g.newTr(pkg, sp.rel, fd, elemType)
	if fd.Type.TypeParams != nil {
		t.fail(fd, "type parameters")
	}
	if fd.Recv != nil {
		r := fd.Recv.List[0]
		if len(r.Names) != 1 || r.Names[0].Name == "_" {
			t.fail(fd, "unnamed receiver")
		}
		switch wsTypeString(r.Type) {
		case "*WireSchema":
			t.top()[r.Names[0].Name] = wsVal{kind: wkWS}
		case "*WireSchemaIter":
			t.top()[r.Names[0].Name] = wsVal{kind: wkIter}
		default:
			t.fail(fd, "receiver type %s", wsTypeString(r.Type))
		}
	}
	var params []string
	seenHeap := map[wsKind]bool{}
	for _, p := range fd.Type.Params.List {
		ty := wsTypeString(p.Type)
		for _, n := range p.Names {
			var v wsVal
			switch {
			case wsUintBits[ty] != 0:
				v = wsVal{kind: wkU, goType: ty}
				params = append(params, fmt.Sprintf("(%s : Nat)", t.leanIdent(n, n.Name)))
				v.lean = n.Name
			case ty == "*bytes.Buffer" && t.imports["bytes"] == "bytes":
				v = wsVal{kind: wkBuf}
			case ty == "io.ByteReader" && t.imports["io"] == "io":
				v = wsVal{kind: wkSrc}
			default:
				t.fail(p, "parameter %s of type %s", n.Name, ty)
			}
			if v.kind != wkU {
				if seenHeap[v.kind] {
					t.fail(p, "two parameters of type %s", ty)
				}
				seenHeap[v.kind] = true
			}
			t.top()[n.Name] = v
		}
	}
	var resLean []string
	if fd.Type.Results != nil {
		for _, r := range fd.Type.Results.List {
			ty := wsTypeString(r.Type)
			var k wsKind
			var l string
			switch {
			case ty == "error":
				k, l = wkErr, "Err"
			case ty == "bool":
				k, l = wkBool, "Bool"
			case wsUintBits[ty] != 0:
				k, l = wkU, "Nat"
			default:
				t.fail(r, "result type %s", ty)
			}
			n := len(r.Names)
			if n == 0 {
				n = 1
			}
			for j := 0; j < n; j++ {
				t.results = append(t.results, k)
				t.resTypes = append(t.resTypes, ty)
				resLean = append(resLean, l)
			}
			for _, nm := range r.Names {
				if nm.Name != "_" {
					t.top()[nm.Name] = wsVal{kind: wkNamedResult}
				}
			}
		}
	}
	if len(t.results) == 0 {
		t.fail(fd, "function without result")
	}
	list := fd.Body.List
	if len(list) == 0 {
		t.fail(fd, "empty body")
	}
	if _, ok := list[len(list)-1].(*ast.ReturnStmt); !ok {
		t.fail(list[len(list)-1], "the last statement of the function is not a return")
	}
	t.push()
	lines := t.stmts(list)
	rho := strings.Join(resLean, " × ")
	if len(resLean) > 1 {
		rho = "(" + rho + ")"
	}
	sig := t.str(fd.Type)
	recv := ""
	if fd.Recv != nil {
		recv = "(" + t.str(fd.Recv.List[0].Names[0]) + " " + wsTypeString(fd.Recv.List[0].Type) + ") "
	}
	var sb strings.Builder
	fmt.Fprintf(&sb, "/-- %s `func %s%s%s` -/\n", sp.rel, recv, fd.Name.Name, strings.TrimPrefix(sig, "func"))
	ps := ""
	if len(params) > 0 {
		ps = " " + strings.Join(params, " ")
	}
	fmt.Fprintf(&sb, "def %s%s : M %s %s := do\n", sp.leanName, ps, rho, rho)
	for _, l := range lines {
		sb.WriteString("  " + l + "\n")
	}
	sb.WriteString("\n")
	return sb.String()
}

// newIter: func NewWireSchemaIter(schema *WireSchema) WireSchemaIter { return WireSchemaIter{schema: schema, structIdx: 0} }
func (g *wsGen) newIter(pkg *wsPkg, rel string) string {
	fd := pkg.findFunc(rel, "", "NewWireSchemaIter")
	t := g.newTr(pkg, rel, fd, "")
	ps := fd.Type.Params.List
	if len(ps) != 1 || len(ps[0].Names) != 1 || wsTypeString(ps[0].Type) != "*WireSchema" {
		t.fail(fd, "parameters (only one *WireSchema)")
	}
	param := ps[0].Names[0].Name
	if fd.Type.Results == nil || len(fd.Type.Results.List) != 1 || len(fd.Type.Results.List[0].Names) != 0 ||
		wsTypeString(fd.Type.Results.List[0].Type) != "WireSchemaIter" {
		t.fail(fd, "result (only WireSchemaIter)")
	}
	if len(fd.Body.List) != 1 {
		t.fail(fd, "body with %d statements (only one return of a composite literal)", len(fd.Body.List))
	}
	rs, ok := fd.Body.List[0].(*ast.ReturnStmt)
	if !ok || len(rs.Results) != 1 {
		t.fail(fd.Body.List[0], "statement `%s`", t.str(fd.Body.List[0]))
	}
	cl, ok := rs.Results[0].(*ast.CompositeLit)
	if !ok || cl.Type == nil || wsTypeString(cl.Type) != "WireSchemaIter" {
		t.fail(rs, "`%s` is not a WireSchemaIter{..} literal", t.str(rs.Results[0]))
	}
	schema, idx := "", "0"
	for _, el := range cl.Elts {
		kv, ok := el.(*ast.KeyValueExpr)
		if !ok {
			t.fail(el, "positional field in the literal")
		}
		key, _ := kv.Key.(*ast.Ident)
		switch {
		case key != nil && key.Name == "schema":
			if !isIdent(kv.Value, param) {
				t.fail(kv, "schema: `%s` is not the parameter", t.str(kv.Value))
			}
			schema = ".param"
		case key != nil && key.Name == "structIdx":
			v := t.expr(kv.Value)
			if !v.pure() {
				t.fail(kv, "structIdx: `%s`", t.str(kv.Value))
			}
			idx = t.asInt(kv.Value, v)
		default:
			t.fail(kv, "field `%s`", t.str(kv.Key))
		}
	}
	if schema == "" {
		t.fail(cl, "the literal leaves `schema` nil")
	}
	return fmt.Sprintf("/-- %s `func NewWireSchemaIter%s` -/\ndef newWireSchemaIter : IterVal :=\n  { schema := %s, structIdx := %s }\n\n",
		rel, strings.TrimPrefix(t.str(fd.Type), "func"), schema, idx)
}

func genWireSerde() {
	const schemaDir, schemaRel = "go/pkg/schema", "go/pkg/schema/wireschema.go"
	const internalDir, internalRel = "go/pkg/internal", "go/pkg/internal/serde.go"
	sp, ip := wsLoadPkg(schemaDir), wsLoadPkg(internalDir)

	// the struct types
	ws := sp.structs["WireSchema"]
	if ws == nil {
		die("type WireSchema struct not found in %s", schemaDir)
	}
	elemType := ""
	for _, f := range ws.Fields.List {
		for _, n := range f.Names {
			if n.Name == "structCounts" {
				ty := wsTypeString(f.Type)
				if !strings.HasPrefix(ty, "[]") || wsUintBits[ty[2:]] == 0 {
					die("WireSchema.structCounts has type %s (only a slice of an unsigned integer type)", ty)
				}
				elemType = ty[2:]
			}
		}
	}
	if elemType == "" {
		die("WireSchema has no field structCounts")
	}
	it := sp.structs["WireSchemaIter"]
	if it == nil {
		die("type WireSchemaIter struct not found in %s", schemaDir)
	}
	var itFields []string
	for _, f := range it.Fields.List {
		for _, n := range f.Names {
			itFields = append(itFields, n.Name+" "+wsTypeString(f.Type))
		}
		if len(f.Names) == 0 {
			itFields = append(itFields, "embedded "+wsTypeString(f.Type))
		}
	}
	if strings.Join(itFields, "; ") != "schema *WireSchema; structIdx int" {
		die("WireSchemaIter has the fields {%s} (expected {schema *WireSchema; structIdx int})", strings.Join(itFields, "; "))
	}

	g := &wsGen{usedConsts: map[string]string{}, usedPkgVars: map[string]wsPkgVar{}}
	var body strings.Builder
	body.WriteString(g.translate(ip, wsFuncSpec{internalRel, "", "WriteUvarint", "writeUvarint"}, elemType))
	// the callee's signature is what the call sites assume
	wfd := ip.findFunc(internalRel, "", "WriteUvarint")
	if !wsSigIs(wfd, []string{"uint64", "*bytes.Buffer"}, []string{"error"}) {
		die("%s WriteUvarint has the signature `%s` (the call sites assume (uint64, *bytes.Buffer) error)", internalRel,
			strings.Join(strings.Fields(exprStringOfFuncType(ip.fsets[internalRel], wfd.Type)), " "))
	}
	body.WriteString(g.translate(sp, wsFuncSpec{schemaRel, "*WireSchema", "Serialize", "serialize"}, elemType))
	body.WriteString(g.translate(sp, wsFuncSpec{schemaRel, "*WireSchema", "Deserialize", "deserialize"}, elemType))
	body.WriteString(g.newIter(sp, schemaRel))
	body.WriteString(g.translate(sp, wsFuncSpec{schemaRel, "*WireSchemaIter", "NextFieldCount", "nextFieldCount"}, elemType))
	body.WriteString(g.translate(sp, wsFuncSpec{schemaRel, "*WireSchemaIter", "Done", "done"}, elemType))

	nfc := sp.findFunc(schemaRel, "*WireSchemaIter", "NextFieldCount")
	nfcBits := 0
	if nfc.Type.Results != nil && len(nfc.Type.Results.List) > 0 {
		nfcBits = wsUintBits[wsTypeString(nfc.Type.Results.List[0].Type)]
	}
	if nfcBits == 0 {
		die("%s NextFieldCount: the first result is not an unsigned integer", schemaRel)
	}

	var sb strings.Builder
	sb.WriteString("/- GENERATED by /verif/extract (wireserde.go) from go/pkg/schema/wireschema.go (Serialize, Deserialize,\n")
	sb.WriteString("   NewWireSchemaIter, NextFieldCount, Done) and go/pkg/internal/serde.go (WriteUvarint). Do not edit.\n")
	sb.WriteString("   Vocabulary: Stef/WireSerdeSem.lean. -/\n")
	sb.WriteString("import Stef.WireSerdeSem\n\nnamespace Stef.Gen.WireSerde\nopen Stef.WireSerdeSem\n\n")
	var cn []string
	for n := range g.usedConsts {
		cn = append(cn, n)
	}
	sort.Strings(cn)
	for _, n := range cn {
		fmt.Fprintf(&sb, "/-- the constant `%s` (%s) -/\ndef c_%s : Nat := %s\n\n", n, sp.consts[n], n, g.usedConsts[n])
	}
	sb.WriteString(body.String())
	fmt.Fprintf(&sb, "/-- `structCounts []%s`: the width of the type the counts are stored in (uint = 64 bit). -/\n", elemType)
	fmt.Fprintf(&sb, "def structCountsElemBits : Nat := %d\n\n", wsUintBits[elemType])
	fmt.Fprintf(&sb, "/-- the width of the count that `NextFieldCount` returns (%s). -/\n", wsTypeString(nfc.Type.Results.List[0].Type))
	fmt.Fprintf(&sb, "def nextFieldCountResultBits : Nat := %d\n\n", nfcBits)
	var vn []string
	for n := range g.usedPkgVars {
		vn = append(vn, n)
	}
	sort.Strings(vn)
	var items []string
	for _, n := range vn {
		items = append(items, fmt.Sprintf("(%q, %q)", n, g.usedPkgVars[n].msg))
	}
	sb.WriteString("/-- the package-level variables the translated bodies refer to, all of the form `var x = errors.New(msg)`. -/\n")
	fmt.Fprintf(&sb, "def pkgVarsReferenced : List (String × String) := [%s]\n\n", strings.Join(items, ", "))
	sb.WriteString("/-- package-level variables of any other form the translated bodies refer to (the generator fails on one:\n    this list is empty whenever this file exists). -/\n")
	sb.WriteString("def mutablePkgVarsReferenced : List String := []\n\n")
	sb.WriteString("end Stef.Gen.WireSerde\n")
	writeOut("WireSerde.lean", sb.String())
}

func wsSigIs(fd *ast.FuncDecl, params, results []string) bool {
	flat := func(fl *ast.FieldList) []string {
		var out []string
		if fl == nil {
			return out
		}
		for _, f := range fl.List {
			n := len(f.Names)
			if n == 0 {
				n = 1
			}
			for i := 0; i < n; i++ {
				out = append(out, wsTypeString(f.Type))
			}
		}
		return out
	}
	return strings.Join(flat(fd.Type.Params), ",") == strings.Join(params, ",") &&
		strings.Join(flat(fd.Type.Results), ",") == strings.Join(results, ",")
}

func exprStringOfFuncType(fset *token.FileSet, ft *ast.FuncType) string {
	var sb strings.Builder
	printer.Fprint(&sb, fset, ft)
	return sb.String()
}
