/-
  Stef.HandshakeSem: the (hand-written) target vocabulary of the `Handshake` generator of
  /verif/extract (extract/handshake.go). The generator translates the Go statements of
  `WireSchema.Compatible`, of the decision part of `Client.Connect` and of the option handling of
  the generated `New<Root>Writer` one by one into `Id.run do` blocks over these types
  (Stef/Gen/Handshake.lean); nothing here describes WHAT the Go code does.

  * a wire schema (`*schema.WireSchema`, only its `structCounts` are read) is a `List Nat`;
    Go `uint` is 64 bit, the counts are modelled as `Nat` (no overflow, as in Stef.Handshake);
  * `schema.Compatibility` is `Stef.Handshake.Compat`; an `error` is a `Bool` (true = non-nil);
  * `WOpts` = the fields of `pkg.WriterOptions` that the translated code reads or assigns. An
    assignment to any other field makes the generator fail.
-/
import Stef.Handshake
import Stef.Limiter

namespace Stef.HandshakeSem
open Stef.Handshake

structure WOpts where
  includeDescriptor : Bool := false
  schema : Option (List Nat) := none
  maxTotalDictSize : Nat := 0
  maxUncompressedFrameByteSize : Nat := 0
  deriving DecidableEq, Repr

/-- forget the frame size (the hand model `Stef.Handshake.Opts` has no such field). -/
def WOpts.toOpts (o : WOpts) : Opts :=
  { includeDescriptor := o.includeDescriptor, schema := o.schema, maxTotalDictSize := o.maxTotalDictSize }

def WOpts.ofOpts (o : Opts) (frame : Nat) : WOpts :=
  { includeDescriptor := o.includeDescriptor, schema := o.schema, maxTotalDictSize := o.maxTotalDictSize,
    maxUncompressedFrameByteSize := frame }

/-- The options value that `writer.state.Init(<arg>)` sees: the writer's own copy with the
    defaults applied (`&writer.opts`) or the caller's value (`&opts`). Which one it is, is the
    regenerated fact `Stef.Gen.Hs.limiterInitFromDefaultedOpts`. -/
def initArg (fromDefaulted : Bool) (given defaulted : WOpts) : WOpts :=
  if fromDefaulted then defaulted else given

/-- Go: `WriterState.Init(opts)` -> `d.limiter.Init(opts)` (go/pkg/dictlimiter.go, modelled in
    Stef.Limiter): the limiter the new writer starts with. -/
def limiterOf (o : WOpts) : Stef.Limiter.SizeLimiter :=
  ({} : Stef.Limiter.SizeLimiter).init o.maxTotalDictSize o.maxUncompressedFrameByteSize

end Stef.HandshakeSem
