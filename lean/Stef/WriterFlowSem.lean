/-
  Stef.WriterFlowSem: the statement language into which /verif/extract (writerflow.go) translates the
  bodies of the generated writer's `Write()`, `Flush()` and `restartFrame()` (Gen/WriterFlow.lean is
  DATA: three values of `Stmt`), and its interpreter over the size-level writer state of
  Stef/Limiter.lean. This file is written by hand and is the meaning given to each whitelisted Go
  statement; the ORDER of the statements, the conditions and what is assigned to what come from the
  Go source. Proofs/WriterFlow.lean proves that the interpreted bodies equal the hand model
  (`Writer.write`, `Writer.flush`, `Writer.restartFrame`) on every state.

  The interpreter runs on `FlowSt`: the `Writer` of Limiter.lean plus what the Go writer holds
  besides it while one of the three functions runs - the `frameRecordCount` field (which the hand
  model identifies with `frameRecs.length`), the collected column buffers, the content handed to the
  frame encoder, and one ghost bit (`countOk`: every record count written into a frame was the
  number of records encoded into it). `FlowSt.of w` is the state between calls.
-/
import Stef.Limiter

namespace Stef.WriterFlowSem
open Stef.Limiter

structure FlowSt where
  w : Writer                            -- `w.frameRecs`: the records in the encoder's column buffers
  frameRecordCount : Nat                -- Go: w.frameRecordCount
  bufs : List (Nat × Nat) := []         -- Go: w.writeBufs (collected columns; records in order)
  fe : List (Nat × Nat) := []           -- Go: content written to w.frameEncoder since the last CloseFrame
  countOk : Bool := true                -- ghost: record counts written so far matched the buffers

/-- the state between two calls of the writer's API -/
def FlowSt.of (w : Writer) : FlowSt := { w := w, frameRecordCount := w.frameRecs.length }

/-- expressions of type `pkg.FrameFlags` -/
inductive FExpr where
  | optsRestartFlags                    -- w.opts.FrameRestartFlags
  | const (n : Nat)                     -- pkg.<Const> (value from Gen/Consts.lean)
  | var (i : Nat)                       -- i-th flags local / parameter of the function
  | or (a b : FExpr)                    -- a | b
  deriving Repr

/-- expressions of type `bool` -/
inductive BExpr where
  | lit (b : Bool)
  | var (i : Nat)                       -- i-th boolean local of the function
  | dictLimitReached                    -- w.state.limiter.DictLimitReached()
  | frameLimitReached                   -- w.state.limiter.FrameLimitReached()
  | flagSet (f c : FExpr)               -- f & c != 0
  | flagClear (f c : FExpr)             -- f & c == 0
  | frameRecordCountIsZero              -- w.frameRecordCount == 0
  | frameRecordCountNonZero             -- w.frameRecordCount != 0   (also `> 0`)
  | or (a b : BExpr)
  | and (a b : BExpr)
  | not (a : BExpr)
  deriving Repr

inductive Stmt where
  | skip
  | seq (a b : Stmt)
  | ite (c : BExpr) (t e : Stmt)
  | ret                                 -- return (the error value is not modelled)
  | setF (i : Nat) (e : FExpr)          -- declaration of / assignment to the i-th flags local
  | setB (i : Nat) (e : BExpr)          -- declaration of / assignment to the i-th boolean local
  | encode                              -- w.encoder.Encode(&w.Record)
  | incFrameRecordCount                 -- w.frameRecordCount++
  | incRecordCount                      -- w.recordCount++
  | resetDicts                          -- w.state.ResetDicts()
  | callRestartFrame (e : FExpr)        -- w.restartFrame(e)
  | encoderReset                        -- w.encoder.Reset()
  | writeRecordCount                    -- w.frameEncoder.Write(binary.AppendUvarint(nil, w.frameRecordCount))
  | zeroFrameRecordCount                -- w.frameRecordCount = 0
  | collectColumns                      -- w.encoder.CollectColumns(&w.writeBufs.Columns)
  | writeBufsToFrame                    -- w.writeBufs.WriteTo(&w.frameEncoder)
  | closeFrame                          -- w.frameEncoder.CloseFrame()
  | openFrame (e : FExpr)               -- w.frameEncoder.OpenFrame(e)
  | resetFrameSize                      -- w.state.limiter.ResetFrameSize()
  deriving Repr

infixr:30 " ;; " => Stmt.seq

/-- interpreter state: writer state, locals, "a return statement was executed" -/
structure Ex where
  s : FlowSt
  fl : Nat → Nat
  bl : Nat → Bool
  returned : Bool := false

def upd {α : Type} (env : Nat → α) (i : Nat) (v : α) : Nat → α := fun j => if j = i then v else env j

def FExpr.eval (x : Ex) : FExpr → Nat
  | .optsRestartFlags => x.s.w.restartFlags
  | .const n => n
  | .var i => x.fl i
  | .or a b => a.eval x ||| b.eval x

def BExpr.eval (x : Ex) : BExpr → Bool
  | .lit b => b
  | .var i => x.bl i
  | .dictLimitReached => x.s.w.lim.dictLimitReached
  | .frameLimitReached => x.s.w.lim.frameLimitReached
  | .flagSet f c => (f.eval x &&& c.eval x) != 0
  | .flagClear f c => (f.eval x &&& c.eval x) == 0
  | .frameRecordCountIsZero => x.s.frameRecordCount == 0
  | .frameRecordCountNonZero => x.s.frameRecordCount != 0
  | .or a b => a.eval x || b.eval x
  | .and a b => a.eval x && b.eval x
  | .not a => !(a.eval x)

/-! ### the meaning of the whitelisted calls -/

/-- `w.encoder.Encode(&w.Record)`: the record's dictionary insertions and frame bits are accounted
    and the record is in the column buffers (this is `Writer.encodeStage` of Limiter.lean). -/
def opEncode (c : RecCost) (s : FlowSt) : FlowSt := { s with w := s.w.encodeStage c }

/-- `w.state.ResetDicts()`: the dictionaries and their size accounting start over; a new epoch. -/
def opResetDicts (s : FlowSt) : FlowSt :=
  { s with w := { s.w with lim := s.w.lim.resetDict, epoch := s.w.epoch + 1 } }

/-- the record count goes into the frame (outside the size model; the ghost bit remembers whether
    it was the number of records in the column buffers). -/
def opWriteRecordCount (s : FlowSt) : FlowSt :=
  { s with countOk := s.countOk && (s.frameRecordCount == s.w.frameRecs.length) }

/-- `CollectColumns`: the encoder's column buffers are moved to the write buffers. -/
def opCollectColumns (s : FlowSt) : FlowSt :=
  { s with bufs := s.bufs ++ s.w.frameRecs.reverse, w := { s.w with frameRecs := [] } }

/-- `writeBufs.WriteTo(&frameEncoder)`: the write buffers are moved into the frame. -/
def opWriteBufsToFrame (s : FlowSt) : FlowSt := { s with fe := s.fe ++ s.bufs, bufs := [] }

/-- `CloseFrame()`: what was written to the frame encoder is emitted under the flags the frame was
    opened with; its size is what the limiter accounted for it. -/
def opCloseFrame (s : FlowSt) : FlowSt :=
  { s with fe := [],
           w := { s.w with out := { flags := s.w.openFlags, recs := s.fe, bits := s.w.lim.frameBitSize,
                                     lastBits := s.w.lastBits } :: s.w.out } }

/-- `OpenFrame(f)` -/
def opOpenFrame (f : Nat) (s : FlowSt) : FlowSt := { s with w := { s.w with openFlags := f } }

/-- `limiter.ResetFrameSize()` (ghost `lastBits`: the new frame has no last record yet). -/
def opResetFrameSize (s : FlowSt) : FlowSt :=
  { s with w := { s.w with lim := s.w.lim.resetFrameSize, lastBits := 0 } }

/-- `rf`: the meaning of `w.restartFrame(flags)`; `c`: the cost of the record being written. -/
def exec (rf : FlowSt → Nat → FlowSt) (c : RecCost) : Stmt → Ex → Ex
  | .skip, x => x
  | .seq a b, x =>
    let x1 := exec rf c a x
    if x1.returned then x1 else exec rf c b x1
  | .ite cnd t e, x => if cnd.eval x then exec rf c t x else exec rf c e x
  | .ret, x => { x with returned := true }
  | .setF i e, x => { x with fl := upd x.fl i (e.eval x) }
  | .setB i e, x => { x with bl := upd x.bl i (e.eval x) }
  | .encode, x => { x with s := opEncode c x.s }
  | .incFrameRecordCount, x => { x with s := { x.s with frameRecordCount := x.s.frameRecordCount + 1 } }
  | .incRecordCount, x => { x with s := { x.s with w := { x.s.w with recordCount := x.s.w.recordCount + 1 } } }
  | .resetDicts, x => { x with s := opResetDicts x.s }
  | .callRestartFrame e, x => { x with s := rf x.s (e.eval x) }
  | .encoderReset, x => x              -- RestartCodecs only resets encoder state: not in the size model
  | .writeRecordCount, x => { x with s := opWriteRecordCount x.s }
  | .zeroFrameRecordCount, x => { x with s := { x.s with frameRecordCount := 0 } }
  | .collectColumns, x => { x with s := opCollectColumns x.s }
  | .writeBufsToFrame, x => { x with s := opWriteBufsToFrame x.s }
  | .closeFrame, x => { x with s := opCloseFrame x.s }
  | .openFrame e, x => { x with s := opOpenFrame (e.eval x) x.s }
  | .resetFrameSize, x => { x with s := opResetFrameSize x.s }

/-- run a function body: `args` are the values of the flags parameters (locals 0, 1, ...). -/
def runBody (rf : FlowSt → Nat → FlowSt) (c : RecCost) (body : Stmt) (args : List Nat) (s : FlowSt) : FlowSt :=
  (exec rf c body { s := s, fl := fun i => args.getD i 0, bl := fun _ => false }).s

/-- does the body contain a call of `restartFrame` / an `Encode`? (closed facts about the
    regenerated data, checked in Proofs/WriterFlow.lean) -/
def Stmt.calls : Stmt → Bool
  | .seq a b => a.calls || b.calls
  | .ite _ t e => t.calls || e.calls
  | .callRestartFrame _ => true
  | _ => false

def Stmt.encodes : Stmt → Bool
  | .seq a b => a.encodes || b.encodes
  | .ite _ t e => t.encodes || e.encodes
  | .encode => true
  | _ => false

end Stef.WriterFlowSem
