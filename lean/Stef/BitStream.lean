/-
  Stef.BitStream: transcription of go/pkg/bitstream.go (BitsWriter, BitsReader) as pure
  functions on the same registers. Go `uint` fields are modelled as `Nat` where the code keeps
  them small, the 64-bit staging registers as `BitVec 64`. Go shifts by >= 64 yield 0, as
  `BitVec` shifts by a `Nat` do.
-/
import Stef.Base
import Stef.Gen.Tables

namespace Stef

structure BitsWriter where
  stream : Bytes := []
  bitsBuf : Word := 0#64
  bitsBufUsed : Nat := 0
  deriving Repr

namespace BitsWriter

def reset (_ : BitsWriter) : BitsWriter := {}

/-- Go: `Close`. -/
def close (b : BitsWriter) : BitsWriter :=
  let targetLen := b.stream.length + (b.bitsBufUsed + 7) / 8
  { b with stream := (b.stream ++ be64 b.bitsBuf).take targetLen }

def bitCount (b : BitsWriter) : Nat := b.stream.length * 8 + b.bitsBufUsed

/-- Go: `writeBitsSlow`. -/
def writeBitsSlow (b : BitsWriter) (val : Word) (nbits : Nat) : BitsWriter :=
  let bitsBufFree := 64 - b.bitsBufUsed
  let buf := b.bitsBuf ||| (val >>> (nbits - bitsBufFree))
  let nbits' := nbits - bitsBufFree
  { stream := b.stream ++ be64 buf, bitsBuf := val <<< (64 - nbits'), bitsBufUsed := nbits' }

/-- Go: `WriteBits`. -/
def writeBits (b : BitsWriter) (val : Word) (nbits : Nat) : BitsWriter :=
  let nbitsComplement := 64 - nbits
  if b.bitsBufUsed ≤ nbitsComplement then
    { b with bitsBuf := b.bitsBuf ||| (val <<< (nbitsComplement - b.bitsBufUsed)),
             bitsBufUsed := b.bitsBufUsed + nbits }
  else writeBitsSlow b val nbits

/-- Go: `WriteBit`. -/
def writeBit (b : BitsWriter) (bit : Word) : BitsWriter :=
  if b.bitsBufUsed ≤ 63 then
    { b with bitsBuf := b.bitsBuf ||| (bit <<< (63 - b.bitsBufUsed)),
             bitsBufUsed := b.bitsBufUsed + 1 }
  else writeBitsSlow b bit 1

/-- Go: `WriteUvarintCompact`; returns the number of bits written. -/
def writeUvarintCompact (b : BitsWriter) (val : Word) : BitsWriter × Nat :=
  let zeros := val.clz.toNat
  let v := val ||| Gen.writeMaskByZeros zeros
  let bitCount := Gen.writeBitsCountByZeros zeros
  (b.writeBits v bitCount, bitCount)

/-- zig-zag as in `WriteVarintCompact`: `(val >> 63) ^ (val << 1)` with arithmetic shift. -/
def zigzag (val : Word) : Word := (val.sshiftRight 63) ^^^ (val <<< 1)

def writeVarintCompact (b : BitsWriter) (val : Word) : BitsWriter × Nat :=
  b.writeUvarintCompact (zigzag val)

/-- Bytes after `Close` (what `WriteColumnSet.SetBits` takes). -/
def bytes (b : BitsWriter) : Bytes := b.close.stream

end BitsWriter

structure BitsReader where
  bitBuf : Word := 0#64
  buf : Bytes := []
  byteIndex : Nat := 0
  availBitCount : Nat := 0
  eof : Bool := false        -- lastError == io.EOF
  eofPadded : Bool := false  -- the 56 padding bits were appended at the end of buf
  panicked : Bool := false   -- `panic("at most 56 bits can be peeked")` was reached
  deriving Repr

namespace BitsReader

def reset (_ : BitsReader) (buf : Bytes) : BitsReader := { buf := buf }

/-- Go: `Error() != nil`: a refill was attempted at exhaustion, or padding bits were consumed. -/
def err (b : BitsReader) : Bool := b.eof || (b.eofPadded && decide (b.availBitCount < 56))

/-- the loop of `refillSlow`. -/
def refillLoop (b : BitsReader) : Nat → BitsReader
  | 0 => b
  | fuel + 1 =>
    if b.byteIndex < b.buf.length ∧ b.availBitCount < 56 then
      let byt : Word := (b.buf.getD b.byteIndex 0#8).setWidth 64
      refillLoop { b with bitBuf := b.bitBuf ||| (byt <<< (64 - b.availBitCount - 8)),
                          byteIndex := b.byteIndex + 1,
                          availBitCount := b.availBitCount + 8 } fuel
    else b

/-- Go: `refillSlow`. -/
def refillSlow (b : BitsReader) : BitsReader :=
  if b.byteIndex ≥ b.buf.length then { b with eof := true }
  else
    let b := refillLoop b 8
    if b.byteIndex ≥ b.buf.length then { b with availBitCount := b.availBitCount + 56, eofPadded := true } else b

/-- big-endian 64-bit load at `i` (caller guarantees 8 bytes are there). -/
def load64 (buf : Bytes) (i : Nat) : Word :=
  (List.range 8).foldl (fun acc k => (acc <<< 8) ||| ((buf.getD (i + k) 0#8).setWidth 64)) 0#64

/-- Go: `refillAndPeekBits`. The Go code panics for `nbits > 56`; the model records that in
    `panicked` (reachable only through `readBitsMoreThan56` after the buffer is exhausted). -/
def refillAndPeekBits (b : BitsReader) (nbits : Nat) : BitsReader × Word :=
  if nbits > 56 then ({ b with panicked := true }, 0#64) else
  let b :=
    if b.byteIndex + 8 < b.buf.length then
      { b with bitBuf := b.bitBuf ||| (load64 b.buf b.byteIndex >>> b.availBitCount),
               byteIndex := b.byteIndex + ((63 - b.availBitCount) >>> 3),
               availBitCount := b.availBitCount ||| 56 }
    else refillSlow b
  (b, b.bitBuf >>> (64 - nbits))

/-- Go: `PeekBits`. -/
def peekBits (b : BitsReader) (nbits : Nat) : BitsReader × Word :=
  if nbits ≤ b.availBitCount then (b, b.bitBuf >>> (64 - nbits))
  else refillAndPeekBits b nbits

/-- Go: `Consume`. `availBitCount` is a Go `uint`: the subtraction wraps when the caller
    consumes more than is available, which callers never do after a matching `PeekBits`
    (`peekBits` guarantees `availBitCount ≥ nbits` except after EOF; the wrap is transcribed). -/
def consume (b : BitsReader) (nbits : Nat) : BitsReader :=
  { b with bitBuf := b.bitBuf <<< nbits,
           availBitCount := if nbits ≤ b.availBitCount then b.availBitCount - nbits
                            else b.availBitCount + 2 ^ 64 - nbits }

def readBitsMoreThan56 (b : BitsReader) (nbits : Nat) : BitsReader × Word :=
  let (b, v) := b.peekBits 56
  let toConsume := if b.availBitCount > 56 then 56 else b.availBitCount
  let b := b.consume toConsume
  let nbits := nbits - toConsume
  let (b, v2) := b.peekBits nbits
  (b.consume nbits, (v <<< nbits) ||| v2)

/-- Go: `ReadBits`, nbits in [0..64]. -/
def readBits (b : BitsReader) (nbits : Nat) : BitsReader × Word :=
  if nbits ≤ 56 then
    let (b, v) := b.peekBits nbits
    (b.consume nbits, v)
  else readBitsMoreThan56 b nbits

/-- Go: `ReadBit`. -/
def readBit (b : BitsReader) : BitsReader × Word :=
  if b.availBitCount > 0 then
    ({ b with bitBuf := b.bitBuf <<< 1, availBitCount := b.availBitCount - 1 }, b.bitBuf >>> 63)
  else
    let (b, v) := b.peekBits 1
    (b.consume 1, v)

/-- Go: `ReadUvarintCompact`. -/
def readUvarintCompact (b : BitsReader) : BitsReader × Word :=
  let (b, v) := b.peekBits 56
  let zeros := v.clz.toNat
  let ret := (v >>> Gen.readShiftByZeros zeros) &&& Gen.readMaskByZeros zeros
  (b.consume (Gen.readConsumeCountByZeros zeros), ret)

def unzigzag (x : Word) : Word := (x >>> 1) ^^^ (0#64 - (x &&& 1#64))

def readVarintCompact (b : BitsReader) : BitsReader × Word :=
  let (b, x) := b.readUvarintCompact
  (b, unzigzag x)

end BitsReader
end Stef
