/-
  The single API calls (`applyOp`) preserve the invariant: `applyOp_pres` (all calls except those that
  go through `copy<T>`: CopyFrom, which is Stef/Proofs/ApiCopy.lean).
-/
import Stef.Proofs.ApiOps

set_option linter.unusedSimpArgs false

namespace Stef.Api
open Stef Stef.Spec Stef.SpecEnc

/-- a node that is sound whatever the reader holds, in either mode (a primitive, a shared dictionary
    struct, an owned dictionary struct with up-closed marks, anything just marked in full) -/
def AnySnd (C : Ctx) (a : AS) : Prop := ∀ ℓ R, SndG C ℓ a R

theorem anySnd_prim (C : Ctx) (v : St) : AnySnd C (.prim v) := fun _ _ => by simp [SndG]

theorem anySnd_setModRec (C : Ctx) (a : AS) : AnySnd C (setModRec a) := fun ℓ R => snd_setModRec_any C ℓ a R

theorem anySnd_primOnly (C : Ctx) (a : AS) : AnySnd C (primOnly a) := by
  cases a <;> simp [primOnly, AnySnd, SndG]

theorem isDictNode_of_canBeShared (C : Ctx) (a : AS) (h : C.canBeShared a = true) : C.isDictNode a = true := by
  cases a with
  | struct n m p fr fs => simp [Ctx.canBeShared] at h; simpa [Ctx.isDictNode] using h.2
  | _ => simp [Ctx.canBeShared] at h

/-- a shared (frozen) dictionary struct: never modified, its marks are never read -/
theorem anySnd_shared (C : Ctx) (a : AS) (h : C.canBeShared a = true) : AnySnd C a := by
  cases a with
  | struct n m p fr fs =>
    intro ℓ R
    simp only [Ctx.canBeShared, Bool.and_eq_true] at h
    simp only [SndG]
    exact Or.inl ⟨h.2, Or.inl h.1⟩
  | _ => simp [Ctx.canBeShared] at h

/-- a dictionary struct with up-closed marks is sound whatever the reader holds (it is written by value) -/
theorem anySnd_dict (C : Ctx) (a : AS) (h : C.isDictNode a = true) (hu : UC C a) : AnySnd C a := by
  cases a with
  | struct n m p fr fs =>
    intro ℓ R
    simp only [Ctx.isDictNode] at h
    simp only [UC, SndG] at hu ⊢
    rcases hu with hu | ⟨hd, _⟩
    · exact Or.inl hu
    · rw [h] at hd; simp at hd
  | _ => simp [Ctx.isDictNode] at h

theorem quiet_shared (C : Ctx) (a : AS) (h : C.canBeShared a = true) : Quiet C a := by
  cases a with
  | struct n m p fr fs =>
    simp only [Ctx.canBeShared, Bool.and_eq_true] at h
    simp only [Quiet]
    exact Or.inl ⟨h.2, h.1⟩
  | _ => simp [Ctx.canBeShared] at h

/-- the frozen empty value of a dictionary struct type is a shared dictionary struct -/
theorem canBeShared_emptyOf (C : Ctx) (e : Ty) (he : C.isDictTy e = true) : C.canBeShared (C.emptyOf e) = true := by
  cases e with
  | prim p d => simp [Ctx.isDictTy] at he
  | arr e => simp [Ctx.isDictTy] at he
  | ref n =>
    simp only [Ctx.isDictTy] at he
    have hd := he
    unfold Ctx.isDictName at hd
    unfold Ctx.emptyOf Ctx.init initFuelA
    simp only [initAS]
    split at hd
    · rename_i dn fs hfind
      rw [hfind]
      simp only [freezeAS, Ctx.canBeShared, he, Bool.and_self]
    · simp at hd

theorem anySnd_emptyOf (C : Ctx) (e : Ty) (he : C.isDictTy e = true) : AnySnd C (C.emptyOf e) :=
  anySnd_shared C _ (canBeShared_emptyOf C e he)

/-! ## list facts -/

theorem sndElems_all (C : Ctx) (ℓ : Bool) : ∀ (as : List AS) (rs : List St), (∀ x ∈ as, AnySnd C x) → SndElemsG C ℓ as rs
  | [], _, _ => by simp [SndElemsG]
  | a :: as, rs, h => by
    simp only [SndElemsG]
    exact ⟨h a (by simp) _ _, sndElems_all C ℓ as rs.tail (fun x hx => h x (by simp [hx]))⟩

theorem sndElems_append (C : Ctx) (ℓ : Bool) : ∀ (as bs : List AS) (rs : List St), SndElemsG C ℓ as rs →
    (∀ x ∈ bs, AnySnd C x) → SndElemsG C ℓ (as ++ bs) rs
  | [], bs, rs, _, hb => by simpa using sndElems_all C ℓ bs rs hb
  | a :: as, bs, rs, h, hb => by
    simp only [List.cons_append, SndElemsG] at h ⊢
    exact ⟨h.1, sndElems_append C ℓ as bs rs.tail h.2 hb⟩

theorem sndElems_take (C : Ctx) (ℓ : Bool) : ∀ (n : Nat) (as : List AS) (rs : List St), SndElemsG C ℓ as rs →
    SndElemsG C ℓ (as.take n) rs
  | 0, _, _, _ => by simp [SndElemsG]
  | _ + 1, [], _, _ => by simp [SndElemsG]
  | n + 1, a :: as, rs, h => by
    simp only [List.take_succ_cons, SndElemsG] at h ⊢
    exact ⟨h.1, sndElems_take C ℓ n as rs.tail h.2⟩

theorem sndPairs_all (C : Ctx) (ℓ : Bool) : ∀ (ps : List (AS × AS)) (rs : List (St × St)),
    (∀ x ∈ ps, AnySnd C x.1 ∧ AnySnd C x.2) → SndPairsG C ℓ ps rs
  | [], _, _ => by simp [SndPairsG]
  | (a, b) :: ps, rs, h => by
    simp only [SndPairsG]
    have h0 := h (a, b) (by simp)
    exact ⟨h0.1 _ _, h0.2 _ _, sndPairs_all C ℓ ps rs.tail (fun x hx => h x (by simp [hx]))⟩

theorem sndPairs_append (C : Ctx) (ℓ : Bool) : ∀ (ps qs : List (AS × AS)) (rs : List (St × St)), SndPairsG C ℓ ps rs →
    (∀ x ∈ qs, AnySnd C x.1 ∧ AnySnd C x.2) → SndPairsG C ℓ (ps ++ qs) rs
  | [], qs, rs, _, hb => by simpa using sndPairs_all C ℓ qs rs hb
  | (a, b) :: ps, qs, rs, h, hb => by
    simp only [List.cons_append, SndPairsG] at h ⊢
    exact ⟨h.1, h.2.1, sndPairs_append C ℓ ps qs rs.tail h.2.2 hb⟩

theorem sndPairs_take (C : Ctx) (ℓ : Bool) : ∀ (n : Nat) (ps : List (AS × AS)) (rs : List (St × St)), SndPairsG C ℓ ps rs →
    SndPairsG C ℓ (ps.take n) rs
  | 0, _, _, _ => by simp [SndPairsG]
  | _ + 1, [], _, _ => by simp [SndPairsG]
  | n + 1, (a, b) :: ps, rs, h => by
    simp only [List.take_succ_cons, SndPairsG] at h ⊢
    exact ⟨h.1, h.2.1, sndPairs_take C ℓ n ps rs.tail h.2.2⟩

/-- whatever form a multimap is in, its pairs are sound in the full form -/
theorem sndPairs_of_snd_mmap (C : Ctx) (ℓ : Bool) (n : String) (ps hid : List (AS × AS)) (k v : Nat) (ml : Bool) (R : Option St)
    (h : SndG C ℓ (.mmap n ps hid k v ml) R) : SndPairsG C ℓ ps (optPairs R) := by
  simp only [SndG] at h
  rcases h with h | h | h
  · subst h; simp [SndPairsG]
  · exact h.2
  · obtain ⟨hℓ, _, _, _, _, _, h⟩ := h
    subst hℓ
    exact sndPairs_of_sndVals C v 0 ps _ h

/-! ## arrays -/

theorem expose_map_anySnd (C : Ctx) (k : Nat) (fresh : AS) (hid : List AS) (g : AS → AS) (hg : ∀ a, AnySnd C (g a)) :
    ∀ x ∈ (expose k fresh hid).1.map g, AnySnd C x := by
  intro x hx
  obtain ⟨y, _, rfl⟩ := List.mem_map.mp hx
  exact hg y

theorem arrEnsureLen_pres (C : Ctx) (e : Ty) (es hid : List AS) (n : Nat) :
    Pres C (.arr e es hid) (.arr e (arrEnsureLen C e es hid n).1 (arrEnsureLen C e es hid n).2.1)
      (arrEnsureLen C e es hid n).2.2 := by
  have hg : ∀ a, AnySnd C ((if isPrimTy e then primOnly else if C.isDictTy e then fun _ => C.emptyOf e
      else fun a => setModRec (resetAS C a)) a) := by
    intro a
    by_cases h1 : isPrimTy e = true
    · simp only [h1, if_true]; exact anySnd_primOnly C a
    · by_cases h2 : C.isDictTy e = true
      · simp only [h1, h2, if_true, if_false]; exact anySnd_emptyOf C e h2
      · simp only [h1, h2, if_false]; exact anySnd_setModRec C _
  unfold arrEnsureLen arrEnsureLenRaw
  by_cases hgt : n > es.length
  · simp only [hgt, if_true]
    refine ⟨fun ℓ R h => ?_, fun _ hno => by simp at hno, rfl⟩
    simp only [SndG] at h ⊢
    exact sndElems_append C ℓ es _ _ h (expose_map_anySnd C _ _ hid _ hg)
  · by_cases hlt : es.length > n
    · simp only [hgt, hlt, if_true, if_false, List.map_nil, List.append_nil]
      refine ⟨fun ℓ R h => ?_, fun _ hno => by simp at hno, rfl⟩
      simp only [SndG] at h ⊢
      exact sndElems_take C ℓ n es _ h
    · simp only [hgt, hlt, if_false, List.map_nil, List.append_nil]
      exact Pres.refl C _ _

/-! ## multimaps -/

theorem mmEnsureLen_cases (C : Ctx) (n : String) (ps hid : List (AS × AS)) (k v : Nat) (ml : Bool) (nl : Nat) :
    mmEnsureLen C n ps hid k v ml nl = (ps, hid, k, v, ml, .no) ∨
    ∃ ps' hid' k' v', mmEnsureLen C n ps hid k v ml nl = (ps', hid', k', v', true, .loop) ∧
      ((∃ qs, ps' = ps ++ qs ∧ ∀ x ∈ qs, AnySnd C x.1 ∧ AnySnd C x.2) ∨ ps' = ps.take nl) := by
  unfold mmEnsureLen
  by_cases hne : nl = ps.length
  · left; simp [hne]
  · right
    rw [if_pos hne]
    by_cases hgt : nl > ps.length
    · simp only [hgt, if_true]
      refine ⟨_, _, _, _, rfl, Or.inl ⟨_, rfl, ?_⟩⟩
      intro x hx
      obtain ⟨y, _, rfl⟩ := List.mem_map.mp hx
      obtain ⟨y1, y2⟩ := y
      constructor
      · by_cases h1 : isPrimTy (mmapTys C n).1 = true
        · simp only [h1, if_true]; exact anySnd_primOnly C _
        · simp only [h1, if_false]; exact anySnd_setModRec C _
      · by_cases h1 : isPrimTy (mmapTys C n).2 = true
        · simp only [h1, if_true]; exact anySnd_primOnly C _
        · simp only [h1, if_false]; exact anySnd_setModRec C _
    · simp only [hgt, if_false]
      exact ⟨_, _, _, _, rfl, Or.inr rfl⟩

theorem mmEnsureLen_pres (C : Ctx) (n : String) (ps hid : List (AS × AS)) (k v : Nat) (ml : Bool) (nl : Nat) :
    Pres C (.mmap n ps hid k v ml)
      (.mmap n (mmEnsureLen C n ps hid k v ml nl).1 (mmEnsureLen C n ps hid k v ml nl).2.1
        (mmEnsureLen C n ps hid k v ml nl).2.2.1 (mmEnsureLen C n ps hid k v ml nl).2.2.2.1
        (mmEnsureLen C n ps hid k v ml nl).2.2.2.2.1)
      (mmEnsureLen C n ps hid k v ml nl).2.2.2.2.2 := by
  rcases mmEnsureLen_cases C n ps hid k v ml nl with e | ⟨ps', hid', k', v', e, hps⟩
  · rw [e]; exact Pres.refl C _ _
  · rw [e]
    refine ⟨fun ℓ R h => ?_, fun _ hno => by simp at hno, rfl⟩
    have hp := sndPairs_of_snd_mmap C ℓ n ps hid k v ml R h
    simp only [SndG]
    refine Or.inr (Or.inl ⟨Or.inr (Or.inl trivial), ?_⟩)
    rcases hps with ⟨qs, rfl, hq⟩ | rfl
    · exact sndPairs_append C ℓ ps qs _ hp hq
    · exact sndPairs_take C ℓ nl ps _ hp

/-! ## struct fields: a call that marks field `i` -/

theorem optIndex_zero (fds : List Field) : optIndex fds 0 = 0 := by simp [optIndex]

theorem optIndex_nil (i : Nat) : optIndex [] i = 0 := by simp [optIndex]

theorem optIndex_succ (fd : Field) (fds : List Field) (i : Nat) :
    optIndex (fd :: fds) (i + 1) = (if fd.optional then 1 else 0) + optIndex fds i := by
  unfold optIndex
  by_cases h : fd.optional = true
  · simp [List.take_succ_cons, List.filter_cons, h]; omega
  · simp [List.take_succ_cons, List.filter_cons, h]

theorem fdOpt_cons (fd : Field) (fds : List Field) : fdOpt (fd :: fds) = fd.optional := by simp [fdOpt]

theorem fdOpt_nil : fdOpt [] = false := by simp [fdOpt]

theorem sndFields_congr (C : Ctx) (ℓ : Bool) : ∀ (fds : List Field) (idx oi m m' p p' : Nat) (known : Bool) (rp : Nat)
    (as : List AS) (rfs : List St), (∀ j, idx ≤ j → m'.testBit j = m.testBit j) →
    (∀ o, oi ≤ o → p'.testBit o = p.testBit o) →
    SndFieldsG C ℓ fds idx oi m p known rp as rfs → SndFieldsG C ℓ fds idx oi m' p' known rp as rfs
  | _, _, _, _, _, _, _, _, _, [], _, _, _, _ => by simp [SndFieldsG]
  | fds, idx, oi, m, m', p, p', known, rp, a :: as, rfs, hm, hp, h => by
    simp only [SndFieldsG] at h ⊢
    rw [hm idx (Nat.le_refl _), hp oi (Nat.le_refl _)]
    exact ⟨h.1, h.2.1, sndFields_congr C ℓ fds.tail (idx + 1) _ m m' p p' known rp as rfs.tail
      (fun j hj => hm j (by omega)) (fun o ho => hp o (by split at ho <;> omega)) h.2.2⟩

/-- whatever state a field is in (marked, in sync, absent), its value has up-closed marks -/
theorem sndFields_uc_head (C : Ctx) (ℓ : Bool) (fds : List Field) (idx oi m p : Nat) (known : Bool) (rp : Nat)
    (a : AS) (as : List AS) (rfs : List St) (h : SndFieldsG C ℓ fds idx oi m p known rp (a :: as) rfs) : UC C a := by
  simp only [SndFieldsG] at h
  by_cases hp : (!fdOpt fds || p.testBit oi) = true
  · by_cases hm : m.testBit idx = true
    · exact snd_lax C ℓ a _ _ ((h.1 hp).1 hm)
    · exact ((h.1 hp).2 (by simpa using hm)).2.2
  · exact h.2.1 (by simpa using hp)

theorem sndFields_mark (C : Ctx) (ℓ : Bool) (c c' : AS) (m m' p p' : Nat) (known : Bool) (rp : Nat) :
    ∀ (fds : List Field) (idx oi : Nat) (as : List AS) (rfs : List St) (i : Nat), as[i]? = some c →
    (∀ j, j ≠ idx + i → m'.testBit j = m.testBit j) → m'.testBit (idx + i) = true →
    (∀ o, (o ≠ oi + optIndex fds i ∨ fdOpt (fds.drop i) = false) → p'.testBit o = p.testBit o) →
    ((!fdOpt (fds.drop i) || p'.testBit (oi + optIndex fds i)) = true → AnySnd C c') →
    (UC C c → UC C c') →
    SndFieldsG C ℓ fds idx oi m p known rp as rfs → SndFieldsG C ℓ fds idx oi m' p' known rp (as.set i c') rfs
  | _, _, _, [], _, _, h, _, _, _, _, _, _ => by simp at h
  | fds, idx, oi, a :: as, rfs, 0, hi, hm, hm1, hp, hc, hc2, h => by
    simp only [List.getElem?_cons_zero, Option.some.injEq] at hi
    subst hi
    have huc := sndFields_uc_head C ℓ fds idx oi m p known rp a as rfs h
    simp only [List.set_cons_zero, SndFieldsG, Nat.add_zero, optIndex_zero, List.drop_zero] at h hm hm1 hp hc ⊢
    refine ⟨fun hpres => ⟨fun _ => hc hpres _ _, fun h0 => by rw [hm1] at h0; simp at h0⟩, fun _ => hc2 huc, ?_⟩
    refine sndFields_congr C ℓ fds.tail (idx + 1) _ m m' p p' known rp as rfs.tail
      (fun j hj => hm j (by omega)) (fun o ho => ?_) h.2.2
    by_cases hopt : fdOpt fds = true
    · simp only [hopt, if_true] at ho
      exact hp o (Or.inl (by omega))
    · exact hp o (Or.inr (by simpa using hopt))
  | fds, idx, oi, a :: as, rfs, i + 1, hi, hm, hm1, hp, hc, hc2, h => by
    simp only [List.getElem?_cons_succ] at hi
    simp only [List.set_cons_succ, SndFieldsG] at h ⊢
    have hmi : m'.testBit idx = m.testBit idx := hm idx (by omega)
    cases fds with
    | nil =>
      simp only [fdOpt_nil, List.tail_nil, Bool.false_eq_true, if_false, List.drop_nil, optIndex_nil, Nat.add_zero] at h hp hc ⊢
      rw [hmi]
      refine ⟨h.1, h.2.1, ?_⟩
      have := sndFields_mark C ℓ c c' m m' p p' known rp [] (idx + 1) oi as rfs.tail i hi
        (fun j hj => hm j (by omega)) (by rwa [show idx + 1 + i = idx + (i + 1) by omega])
        (by simpa [optIndex_nil, fdOpt_nil] using hp) (by simpa [optIndex_nil, fdOpt_nil] using hc) hc2 h.2.2
      exact this
    | cons fd fds =>
      simp only [fdOpt_cons, List.tail_cons, List.drop_succ_cons, optIndex_succ] at h hp hc ⊢
      rw [hmi]
      by_cases hopt : fd.optional = true
      · simp only [hopt, if_true] at h hp hc ⊢
        rw [hp oi (Or.inl (by omega))]
        refine ⟨h.1, h.2.1, ?_⟩
        exact sndFields_mark C ℓ c c' m m' p p' known rp fds (idx + 1) (oi + 1) as rfs.tail i hi
          (fun j hj => hm j (by omega)) (by rwa [show idx + 1 + i = idx + (i + 1) by omega])
          (fun o ho => hp o (by rcases ho with ho | ho; exact Or.inl (by omega); exact Or.inr ho))
          (fun hpres => hc (by rwa [show oi + (1 + optIndex fds i) = oi + 1 + optIndex fds i by omega])) hc2 h.2.2
      · simp only [hopt, if_false, Bool.false_eq_true, Nat.zero_add] at h hp hc ⊢
        refine ⟨by simpa [hopt] using h.1, by simp [hopt], ?_⟩
        exact sndFields_mark C ℓ c c' m m' p p' known rp fds (idx + 1) oi as rfs.tail i hi
          (fun j hj => hm j (by omega)) (by rwa [show idx + 1 + i = idx + (i + 1) by omega]) hp hc hc2 h.2.2

theorem fdOpt_drop (fds : List Field) (i : Nat) (fd : Field) (h : fds[i]? = some fd) : fdOpt (fds.drop i) = fd.optional := by
  unfold fdOpt
  rw [List.head?_drop, h]
  rfl

/-- a call on a struct (not a shared one) that marks field `i`, possibly changes its presence bit and
    replaces its value by one that is sound whatever the reader holds (if the field is present
    afterwards) and whose marks are up-closed if those of the old value were -/
theorem pres_struct_mark (C : Ctx) (n : String) (m p p' : Nat) (fr : Bool) (fs : List AS) (i : Nat) (c c' : AS)
    (hc : fs[i]? = some c) (hns : ¬ (C.isDictName n = true ∧ fr = true))
    (hp : ∀ o, (o ≠ optIndex (fieldsOf C n) i ∨ fdOpt ((fieldsOf C n).drop i) = false) → p'.testBit o = p.testBit o)
    (hc' : (!fdOpt ((fieldsOf C n).drop i) || p'.testBit (optIndex (fieldsOf C n) i)) = true → AnySnd C c')
    (hc2 : UC C c → UC C c') :
    Pres C (.struct n m p fr fs) (.struct n (structRecv m i .direct).1 p' fr (fs.set i c')) (structRecv m i .direct).2 := by
  refine ⟨fun ℓ R h => ?_, fun hq hno => ?_, rfl⟩
  · simp only [SndG] at h ⊢
    have hset : (structRecv m i .direct).1.testBit (0 + i) = true := by
      rw [Nat.zero_add]
      exact structRecv_set m i .direct (by simp)
    rcases h with ⟨hd, hfr | h⟩ | ⟨hd, h⟩
    · exact absurd ⟨hd, hfr⟩ hns
    · exact Or.inl ⟨hd, Or.inr (sndFields_mark C true c c' m _ p p' false 0 (fieldsOf C n) 0 0 fs [] i hc
        (fun j hj => structRecv_testBit m i .direct j (by omega)) hset (by simpa using hp) (by simpa using hc') hc2 h)⟩
    · exact Or.inr ⟨hd, sndFields_mark C ℓ c c' m _ p p' R.isSome (optPres R) (fieldsOf C n) 0 0 fs (optFields R) i hc
        (fun j hj => structRecv_testBit m i .direct j (by omega)) hset (by simpa using hp) (by simpa using hc') hc2 h⟩
  · simp only [Quiet] at hq
    rcases hq with hq | hq
    · exact absurd hq hns
    obtain ⟨hm, _⟩ := hq
    subst hm
    have := structRecv_up_no 0 i .direct hno (Nat.zero_testBit i)
    simp at this

theorem not_shared_of_not_dict (C : Ctx) (n : String) (fr : Bool) (h : C.isDictName n = false) :
    ¬ (C.isDictName n = true ∧ fr = true) := by
  rw [h]; simp

theorem uc_prim (C : Ctx) (v : St) : UC C (.prim v) := by simp [UC, SndG]

theorem or_two_pow_testBit (p oi o : Nat) (h : o ≠ oi) : (p ||| 2 ^ oi).testBit o = p.testBit o := by
  simp [Nat.testBit_or, Nat.testBit_two_pow, Ne.symm h]

theorem xor_two_pow_testBit (p oi o : Nat) (h : o ≠ oi) : (p ^^^ 2 ^ oi).testBit o = p.testBit o := by
  simp [Nat.testBit_xor, Nat.testBit_two_pow, Ne.symm h]

theorem setPrim_pres (C : Ctx) (i : Nat) (v : St) (w w' : AS) (u : Up) (hnd : C.isDictNode w = false)
    (h : applyOp C (.setPrim i v) w = .ok (w', u)) : Pres C w w' u := by
  cases w with
  | struct n m p fr fs =>
    simp only [Ctx.isDictNode] at hnd
    simp only [applyOp] at h
    split at h
    · rename_i fd cur hfd hfs
      split at h
      · simp only [Except.ok.injEq, Prod.mk.injEq] at h
        obtain ⟨rfl, rfl⟩ := h
        have hopt := fdOpt_drop _ i fd hfd
        refine pres_struct_mark C n m p _ fr fs i (.prim cur) (.prim v) hfs (not_shared_of_not_dict C n fr hnd) (fun o ho => ?_)
          (fun _ => anySnd_prim C v) (fun _ => uc_prim C v)
        by_cases hfo : fd.optional = true
        · simp only [hfo, if_true, optIdx]
          rcases ho with ho | ho
          · exact or_two_pow_testBit p _ o ho
          · rw [hopt, hfo] at ho; simp at ho
        · simp [hfo]
      · simp only [Except.ok.injEq, Prod.mk.injEq] at h
        obtain ⟨rfl, rfl⟩ := h
        exact Pres.refl C _ _
    · simp at h
  | _ => simp [applyOp] at h

theorem set_self {α} (l : List α) (i : Nat) (c : α) (h : l[i]? = some c) : l.set i c = l := by
  apply List.ext_getElem?
  intro j
  rw [List.getElem?_set]
  by_cases hij : i = j
  · subst hij
    have hl := lt_length_of_getElem? l i c h
    simp only [if_true, hl, h]
  · simp [hij]

theorem unset_pres (C : Ctx) (i : Nat) (w w' : AS) (u : Up) (hnd : C.isDictNode w = false)
    (h : applyOp C (.unset i) w = .ok (w', u)) : Pres C w w' u := by
  cases w with
  | struct n m p fr fs =>
    simp only [Ctx.isDictNode] at hnd
    simp only [applyOp] at h
    split at h
    · rename_i fd c hfd hfs
      split at h
      · simp at h
      · rename_i hopt0
        have hfo : fd.optional = true := by simpa using hopt0
        split at h
        · rename_i hbit
          simp only [Except.ok.injEq, Prod.mk.injEq] at h
          obtain ⟨rfl, rfl⟩ := h
          have hopt := fdOpt_drop _ i fd hfd
          simp only [optIdx] at hbit ⊢
          have := pres_struct_mark C n m p (p ^^^ 2 ^ optIndex (fieldsOf C n) i) fr fs i c c hfs (not_shared_of_not_dict C n fr hnd)
            (fun o ho => ?_) (fun hpres => ?_) (fun h => h)
          · rwa [set_self fs i c hfs] at this
          · rcases ho with ho | ho
            · exact xor_two_pow_testBit p _ o ho
            · rw [hopt, hfo] at ho; simp at ho
          · rw [hopt, hfo] at hpres
            simp [Nat.testBit_xor, Nat.testBit_two_pow, hbit] at hpres
        · simp only [Except.ok.injEq, Prod.mk.injEq] at h
          obtain ⟨rfl, rfl⟩ := h
          exact Pres.refl C _ _
    · simp at h
  | _ => simp [applyOp] at h

theorem setPresent_pres (C : Ctx) (i : Nat) (w w' : AS) (u : Up) (hnd : C.isDictNode w = false)
    (h : applyOp C (.setPresent i) w = .ok (w', u)) : Pres C w w' u := by
  cases w with
  | struct n m p fr fs =>
    simp only [Ctx.isDictNode] at hnd
    simp only [applyOp] at h
    split at h
    · rename_i fd cur hfd hfs
      split at h
      · simp at h
      · rename_i hcond
        have hfo : fd.optional = true := by
          by_cases hh : fd.optional = true
          · exact hh
          · simp [hh] at hcond
        split at h
        · simp only [Except.ok.injEq, Prod.mk.injEq] at h
          obtain ⟨rfl, rfl⟩ := h
          have hopt := fdOpt_drop _ i fd hfd
          refine pres_struct_mark C n m p _ fr fs i cur _ hfs (not_shared_of_not_dict C n fr hnd) (fun o ho => ?_)
            (fun _ => anySnd_setModRec C _) (fun _ => anySnd_setModRec C _ true none)
          simp only [optIdx]
          rcases ho with ho | ho
          · exact or_two_pow_testBit p _ o ho
          · rw [hopt, hfo] at ho; simp at ho
        · simp only [Except.ok.injEq, Prod.mk.injEq] at h
          obtain ⟨rfl, rfl⟩ := h
          exact Pres.refl C _ _
    · simp at h
  | _ => simp [applyOp] at h

theorem structRecv_again (m i : Nat) (u : Up) (h : m.testBit i = true) : structRecv m i u = (m, .no) := by
  unfold structRecv
  by_cases hu : u = .no
  · simp [hu]
  · simp [hu, h]

theorem join_no_no (u : Up) : (u.join .no).join .no = u := by cases u <;> rfl

/-! ## oneof -/

theorem sndAlt_anySnd (C : Ctx) (ℓ : Bool) : ∀ (i : Nat) (as : List AS) (x : AS) (R : Option St), as[i]? = some x → AnySnd C x →
    SndAltG C ℓ i as R
  | _, [], _, _, h, _ => by simp at h
  | 0, a :: as, x, R, h, hx => by
    simp only [List.getElem?_cons_zero, Option.some.injEq] at h
    subst h
    simp only [SndAltG]
    exact hx ℓ R
  | i + 1, a :: as, x, R, h, hx => by
    simp only [List.getElem?_cons_succ] at h
    simp only [SndAltG]
    exact sndAlt_anySnd C ℓ i as x R h hx

theorem pres_direct (C : Ctx) (a a' : AS) (hk : isPrimAS a' = isPrimAS a) (h : AnySnd C a') : Pres C a a' .direct :=
  ⟨fun ℓ R _ => h ℓ R, fun _ hno => by simp at hno, hk⟩

theorem anySnd_oneof (C : Ctx) (n : String) (k : Nat) (as : List AS) (x : AS) (h : as[k - 1]? = some x)
    (hx : AnySnd C x) : AnySnd C (.oneof n k as) := by
  intro ℓ R
  simp only [SndG]
  exact Or.inr (sndAlt_anySnd C ℓ (k - 1) as x _ h hx)

theorem getElem?_set_self {α} (l : List α) (i : Nat) (c x : α) (h : l[i]? = some c) : (l.set i x)[i]? = some x := by
  rw [List.getElem?_set]
  simp [lt_length_of_getElem? l i c h]

theorem isPrimAS_true (a : AS) (h : isPrimAS a = true) : ∃ v, a = .prim v := by
  cases a <;> simp [isPrimAS] at h
  exact ⟨_, rfl⟩

theorem setType_pres (C : Ctx) (k : Nat) (w w' : AS) (u : Up)
    (h : applyOp C (.setType k) w = .ok (w', u)) : Pres C w w' u := by
  cases w with
  | oneof n t as =>
    simp only [applyOp] at h
    split at h
    · split at h
      · simp only [Except.ok.injEq, Prod.mk.injEq] at h
        obtain ⟨rfl, rfl⟩ := h
        exact pres_direct C _ _ rfl (fun ℓ R => by simp [SndG])
      · split at h
        · rename_i fd cur hfd hcur
          split at h
          · split at h
            · rename_i hprim
              simp only [Except.ok.injEq, Prod.mk.injEq] at h
              obtain ⟨rfl, rfl⟩ := h
              obtain ⟨v, rfl⟩ := isPrimAS_true cur hprim
              exact pres_direct C _ _ rfl (anySnd_oneof C n k as _ hcur (anySnd_prim C v))
            · simp at h
          · simp only [Except.ok.injEq, Prod.mk.injEq] at h
            obtain ⟨rfl, rfl⟩ := h
            exact pres_direct C _ _ rfl (anySnd_oneof C n k _ _ (getElem?_set_self as (k - 1) cur _ hcur)
              (anySnd_setModRec C _))
        · simp at h
    · simp only [Except.ok.injEq, Prod.mk.injEq] at h
      obtain ⟨rfl, rfl⟩ := h
      exact Pres.refl C _ _
  | _ => simp [applyOp] at h

theorem setAlt_pres (C : Ctx) (k : Nat) (v : St) (w w' : AS) (u : Up)
    (h : applyOp C (.setAlt k v) w = .ok (w', u)) : Pres C w w' u := by
  cases w with
  | oneof n t as =>
    simp only [applyOp] at h
    split at h
    · rename_i cur hcur
      split at h
      · simp at h
      · split at h
        · simp only [Except.ok.injEq, Prod.mk.injEq] at h
          obtain ⟨rfl, rfl⟩ := h
          exact pres_direct C _ _ rfl (anySnd_oneof C n k _ _ (getElem?_set_self as (k - 1) _ _ hcur) (anySnd_prim C v))
        · simp only [Except.ok.injEq, Prod.mk.injEq] at h
          obtain ⟨rfl, rfl⟩ := h
          exact Pres.refl C _ _
    · simp at h
  | _ => simp [applyOp] at h

/-! ## array calls -/

theorem anySnd_arr (C : Ctx) (e : Ty) (es hid : List AS) (h : ∀ x ∈ es, AnySnd C x) : AnySnd C (.arr e es hid) := by
  intro ℓ R
  simp only [SndG]
  exact sndElems_all C ℓ es _ h

theorem pres_arr_append (C : Ctx) (e : Ty) (es hid hid' : List AS) (x : AS) (u : Up) (hu : u ≠ .no) (hx : AnySnd C x) :
    Pres C (.arr e es hid) (.arr e (es ++ [x]) hid') u := by
  refine ⟨fun ℓ R h => ?_, fun _ hno => absurd hno hu, rfl⟩
  simp only [SndG] at h ⊢
  exact sndElems_append C ℓ es [x] _ h (by simpa using hx)

theorem join_direct_ne (u : Up) : Up.direct.join u ≠ .no := by cases u <;> simp [Up.join]

theorem ensureLen_pres (C : Ctx) (nl : Nat) (w w' : AS) (u : Up)
    (h : applyOp C (.ensureLen nl) w = .ok (w', u)) : Pres C w w' u := by
  cases w with
  | arr e es hid =>
    simp only [applyOp, Except.ok.injEq, Prod.mk.injEq] at h
    obtain ⟨rfl, rfl⟩ := h
    exact arrEnsureLen_pres C e es hid nl
  | mmap n ps hid k v ml =>
    simp only [applyOp, Except.ok.injEq, Prod.mk.injEq] at h
    obtain ⟨rfl, rfl⟩ := h
    exact mmEnsureLen_pres C n ps hid k v ml nl
  | _ => simp [applyOp] at h

theorem append_pres (C : Ctx) (v : St) (w w' : AS) (u : Up)
    (h : applyOp C (.append v) w = .ok (w', u)) : Pres C w w' u := by
  cases w with
  | arr e es hid =>
    simp only [applyOp] at h
    split at h
    · simp at h
    · simp only [Except.ok.injEq, Prod.mk.injEq] at h
      obtain ⟨rfl, rfl⟩ := h
      exact pres_arr_append C e es hid _ _ _ (by simp) (anySnd_prim C v)
  | _ => simp [applyOp] at h

theorem appendObj_pres (C : Ctx) (v : AS) (w w' : AS) (u : Up)
    (h : applyOp C (.appendObj v) w = .ok (w', u)) : Pres C w w' u := by
  cases w with
  | arr e es hid =>
    simp only [applyOp] at h
    split at h
    · simp at h
    · split at h
      · rename_i hsh
        simp only [Except.ok.injEq, Prod.mk.injEq] at h
        obtain ⟨rfl, rfl⟩ := h
        exact pres_arr_append C e es hid _ _ _ (by simp) (anySnd_shared C v hsh)
      · simp only [Except.ok.injEq, Prod.mk.injEq] at h
        obtain ⟨rfl, rfl⟩ := h
        exact pres_arr_append C e es hid _ _ _ (join_direct_ne _) (anySnd_setModRec C _)
  | _ => simp [applyOp] at h

theorem copyFromSlice_pres (C : Ctx) (vs : List St) (w w' : AS) (u : Up)
    (h : applyOp C (.copyFromSlice vs) w = .ok (w', u)) : Pres C w w' u := by
  cases w with
  | arr e es hid =>
    simp only [applyOp] at h
    split at h
    · simp at h
    · split at h
      · simp only [Except.ok.injEq, Prod.mk.injEq] at h
        obtain ⟨rfl, rfl⟩ := h
        refine pres_direct C _ _ rfl (anySnd_arr C e _ _ ?_)
        intro x hx
        obtain ⟨y, _, rfl⟩ := List.mem_map.mp hx
        exact anySnd_prim C y
      · simp only [Except.ok.injEq, Prod.mk.injEq] at h
        obtain ⟨rfl, rfl⟩ := h
        exact Pres.refl C _ _
  | _ => simp [applyOp] at h

/-! ## multimap calls -/

theorem pres_prim_direct (C : Ctx) (x y : St) : Pres C (.prim x) (.prim y) .direct :=
  pres_direct C _ _ rfl (anySnd_prim C y)

theorem trackerRecv_direct (k bit : Nat) : trackerRecv k bit .direct = trackerMark k bit := rfl

theorem setKey_pres (C : Ctx) (i : Nat) (x : St) (w w' : AS) (u : Up)
    (h : applyOp C (.setKey i x) w = .ok (w', u)) : Pres C w w' u := by
  cases w with
  | mmap n ps hid k v ml =>
    simp only [applyOp] at h
    split at h
    · rename_i cur b hc
      split at h
      · simp only [Except.ok.injEq, Prod.mk.injEq] at h
        obtain ⟨rfl, rfl⟩ := h
        have := pres_key C n ps hid k v ml i (.prim cur) b (.prim x) .direct hc (pres_prim_direct C cur x).snd (pres_prim_direct C cur x).sync
        simpa [trackerRecv_direct, setNth] using this
      · simp only [Except.ok.injEq, Prod.mk.injEq] at h
        obtain ⟨rfl, rfl⟩ := h
        exact Pres.refl C _ _
    · simp at h
  | _ => simp [applyOp] at h

theorem setValue_pres (C : Ctx) (i : Nat) (x : St) (w w' : AS) (u : Up)
    (h : applyOp C (.setValue i x) w = .ok (w', u)) : Pres C w w' u := by
  cases w with
  | mmap n ps hid k v ml =>
    simp only [applyOp] at h
    split at h
    · rename_i a cur hc
      split at h
      · simp only [Except.ok.injEq, Prod.mk.injEq] at h
        obtain ⟨rfl, rfl⟩ := h
        have := pres_val C n ps hid k v ml i a (.prim cur) (.prim x) .direct hc (pres_prim_direct C cur x).snd (pres_prim_direct C cur x).sync
        simpa [trackerRecv_direct, setNth] using this
      · simp only [Except.ok.injEq, Prod.mk.injEq] at h
        obtain ⟨rfl, rfl⟩ := h
        exact Pres.refl C _ _
    · simp at h
  | _ => simp [applyOp] at h

theorem appendKV_pres (C : Ctx) (x y : St) (w w' : AS) (u : Up)
    (h : applyOp C (.appendKV x y) w = .ok (w', u)) : Pres C w w' u := by
  cases w with
  | mmap n ps hid k v ml =>
    simp only [applyOp, Except.ok.injEq, Prod.mk.injEq] at h
    obtain ⟨rfl, rfl⟩ := h
    refine ⟨fun ℓ R h => ?_, fun _ hno => by simp at hno, rfl⟩
    have hp := sndPairs_of_snd_mmap C ℓ n ps hid k v ml R h
    simp only [SndG]
    refine Or.inr (Or.inl ⟨Or.inr (Or.inl trivial), sndPairs_append C ℓ ps _ _ hp ?_⟩)
    intro q hq
    simp only [List.mem_singleton] at hq
    subst hq
    exact ⟨anySnd_prim C x, anySnd_prim C y⟩
  | _ => simp [applyOp] at h

end Stef.Api
