/-
  The decoder tree of the writer's own schema (`Spec.mkNode` without a wire schema) satisfies the side
  conditions `NodeOk` of `writeNode_sound`: `mkNode_nodeOk`. The root of a record type is a struct node
  of that name, a new record is a struct of that name.
-/
import Stef.Proofs.ApiHistory

set_option linter.unusedSimpArgs false
set_option linter.unusedVariables false

namespace Stef.Api
open Stef Stef.Spec Stef.SpecEnc

/-- the own field count of a struct / oneof -/
def ownCount (σ : Schema) (n : String) : Option Nat :=
  match σ.find n with
  | some (.struct _ fs) => some fs.length
  | some (.oneof fs) => some fs.length
  | _ => none

/-- a traversal without a wire schema: every remembered count is the type's own count -/
def BuildOk (σ : Schema) (b : Build) : Prop :=
  b.override = none ∧ ∀ e ∈ b.known, ownCount σ e.1 = some e.2

theorem fetchCount_own (σ : Schema) (b : Build) (n : String) (own : Nat) (hb : BuildOk σ b) (ho : ownCount σ n = some own)
    (c : Nat) (b' : Build) (h : fetchCount b n own = .ok (c, b')) : c = own ∧ BuildOk σ b' ∧ b'.nextCol = b.nextCol := by
  unfold fetchCount at h
  split at h
  · rename_i nm c0 hfind
    simp only [Except.ok.injEq, Prod.mk.injEq] at h
    obtain ⟨rfl, rfl⟩ := h
    have hmem := List.mem_of_find?_eq_some hfind
    have hnm : nm = n := by simpa using List.find?_some hfind
    have := hb.2 _ hmem
    subst hnm
    simp only at this
    rw [ho] at this
    exact ⟨by simpa using this.symm, hb, rfl⟩
  · rw [hb.1] at h
    simp only [Except.ok.injEq, Prod.mk.injEq] at h
    obtain ⟨rfl, rfl⟩ := h
    refine ⟨rfl, ⟨by first | rfl | exact hb.1 | simp [hb.1], ?_⟩, rfl⟩
    intro e he
    simp only [List.mem_cons] at he
    rcases he with rfl | he
    · exact ho
    · exact hb.2 e he

def PMk (C : Ctx) (fuel : Nat) : Prop :=
  ∀ stack ty b n b', BuildOk C.σ b → mkNode C.σ fuel stack ty b = .ok (n, b') → NodeOk C n ∧ BuildOk C.σ b'
def PMkF (C : Ctx) (fuel : Nat) : Prop :=
  ∀ stack fds b ns b', BuildOk C.σ b → mkFields C.σ fuel stack fds b = .ok (ns, b') →
    FlagsOk C fds ns ∧ ns.length = fds.length ∧ BuildOk C.σ b'

theorem mkFields_step (C : Ctx) (fuel : Nat) (hn : PMk C fuel) (hf : PMkF C fuel) : PMkF C (fuel + 1) := by
  intro stack fds b ns b' hb h
  cases fds with
  | nil =>
    simp only [mkFields, Except.ok.injEq, Prod.mk.injEq] at h
    obtain ⟨rfl, rfl⟩ := h
    exact ⟨by simp [FlagsOk], rfl, hb⟩
  | cons fd rest =>
    simp only [mkFields, bind, Except.bind] at h
    split at h
    · simp at h
    · rename_i r1 h1
      obtain ⟨n1, b1⟩ := r1
      simp only at h
      split at h
      · simp at h
      · rename_i r2 h2
        obtain ⟨ns2, b2⟩ := r2
        simp only [Except.ok.injEq, Prod.mk.injEq] at h
        obtain ⟨rfl, rfl⟩ := h
        obtain ⟨a1, a2⟩ := hn stack fd.ty b n1 b1 hb h1
        obtain ⟨c1, c2, c3⟩ := hf stack rest b1 ns2 b2 a2 h2
        exact ⟨by simp only [FlagsOk, fdOpt_cons, List.tail_cons]; exact ⟨trivial, a1, c1⟩, by simp [c2], c3⟩

theorem nodesOk_of_flagsOk (C : Ctx) : ∀ (fds : List Field) (ns : List (Bool × Node)), FlagsOk C fds ns → NodesOk C (ns.map (·.2))
  | _, [], _ => by simp [NodesOk]
  | fds, (o, n) :: ns, h => by
    simp only [FlagsOk] at h
    simp only [List.map_cons, NodesOk]
    exact ⟨h.2.1, nodesOk_of_flagsOk C fds.tail ns h.2.2⟩

theorem buildOk_nextCol (σ : Schema) (b : Build) (k : Nat) (h : BuildOk σ b) : BuildOk σ { b with nextCol := k } := h

theorem mkNode_step (C : Ctx) (fuel : Nat) (hn : PMk C fuel) (hf : PMkF C fuel) : PMk C (fuel + 1) := by
  intro stack ty b n b' hb h
  cases ty with
  | prim p d =>
    simp only [mkNode, Except.ok.injEq, Prod.mk.injEq] at h
    obtain ⟨rfl, rfl⟩ := h
    exact ⟨by simp [NodeOk], hb⟩
  | arr e =>
    simp only [mkNode] at h
    split at h
    · simp only [Except.ok.injEq, Prod.mk.injEq] at h
      obtain ⟨rfl, rfl⟩ := h
      exact ⟨by simp [NodeOk], hb⟩
    · simp only [bind, Except.bind] at h
      split at h
      · simp at h
      · rename_i r1 h1
        obtain ⟨en, b1⟩ := r1
        simp only [Except.ok.injEq, Prod.mk.injEq] at h
        obtain ⟨rfl, rfl⟩ := h
        obtain ⟨a1, a2⟩ := hn _ e _ en b1 (buildOk_nextCol C.σ b _ hb) h1
        exact ⟨by simp only [NodeOk]; exact a1, a2⟩
  | ref nm =>
    simp only [mkNode] at h
    split at h
    · simp only [Except.ok.injEq, Prod.mk.injEq] at h
      obtain ⟨rfl, rfl⟩ := h
      exact ⟨by simp [NodeOk], hb⟩
    · split at h
      · simp at h
      · -- struct
        rename_i d fs hfind
        simp only [bind, Except.bind] at h
        split at h
        · simp at h
        · rename_i r1 h1
          obtain ⟨cnt, b1⟩ := r1
          simp only at h
          split at h
          · simp at h
          · rename_i r2 h2
            obtain ⟨nodes, b2⟩ := r2
            simp only [Except.ok.injEq, Prod.mk.injEq] at h
            obtain ⟨rfl, rfl⟩ := h
            have hown : ownCount C.σ nm = some fs.length := by simp [ownCount, hfind]
            obtain ⟨rfl, c2, _⟩ := fetchCount_own C.σ _ nm fs.length (buildOk_nextCol C.σ b _ hb) hown cnt b1 h1
            rw [List.take_length] at h2
            obtain ⟨e1, e2, e3⟩ := hf _ fs b1 nodes b2 c2 h2
            refine ⟨?_, e3⟩
            simp only [NodeOk]
            refine ⟨?_, e2.symm, ?_⟩
            · cases d <;> simp [Ctx.isDictName, hfind]
            · have : fieldsOf C nm = fs := by simp [fieldsOf, hfind]
              rw [this]; exact e1
      · -- oneof
        rename_i fs hfind
        simp only [bind, Except.bind] at h
        split at h
        · simp at h
        · rename_i r1 h1
          obtain ⟨cnt, b1⟩ := r1
          simp only at h
          split at h
          · simp at h
          · rename_i r2 h2
            obtain ⟨nodes, b2⟩ := r2
            simp only [Except.ok.injEq, Prod.mk.injEq] at h
            obtain ⟨rfl, rfl⟩ := h
            have hown : ownCount C.σ nm = some fs.length := by simp [ownCount, hfind]
            obtain ⟨rfl, c2, _⟩ := fetchCount_own C.σ _ nm fs.length (buildOk_nextCol C.σ b _ hb) hown cnt b1 h1
            obtain ⟨e1, e2, e3⟩ := hf _ _ b1 nodes b2 c2 h2
            exact ⟨by simp only [NodeOk]; exact nodesOk_of_flagsOk C _ nodes e1, e3⟩
      · -- multimap
        rename_i k v hfind
        simp only [bind, Except.bind] at h
        split at h
        · simp at h
        · rename_i r1 h1
          obtain ⟨kn, b1⟩ := r1
          simp only at h
          split at h
          · simp at h
          · rename_i r2 h2
            obtain ⟨vn, b2⟩ := r2
            simp only [Except.ok.injEq, Prod.mk.injEq] at h
            obtain ⟨rfl, rfl⟩ := h
            obtain ⟨a1, a2⟩ := hn _ k _ kn b1 (buildOk_nextCol C.σ b _ hb) h1
            obtain ⟨c1, c2⟩ := hn _ v _ vn b2 a2 h2
            exact ⟨by simp only [NodeOk]; exact ⟨a1, c1⟩, c2⟩

theorem mkNode_all (C : Ctx) : ∀ (fuel : Nat), PMk C fuel ∧ PMkF C fuel
  | 0 => by
    constructor
    · intro stack ty b n b' _ h; simp [mkNode] at h
    · intro stack fds b ns b' _ h; simp [mkFields] at h
  | fuel + 1 => by
    obtain ⟨hn, hf⟩ := mkNode_all C fuel
    exact ⟨mkNode_step C fuel hn hf, mkFields_step C fuel hn hf⟩

/-- **mkNode_nodeOk**: every decoder tree that `Spec.mkNode` builds without a wire schema (the
    writer's own schema) satisfies the side conditions `NodeOk` of `writeNode_sound` -/
theorem mkNode_nodeOk (C : Ctx) (fuel : Nat) (stack : List String) (ty : Ty) (n : Node) (b' : Build)
    (h : mkNode C.σ fuel stack ty {} = .ok (n, b')) : NodeOk C n :=
  ((mkNode_all C fuel).1 stack ty {} n b' ⟨rfl, fun _ he => by simp at he⟩ h).1

theorem mkNode_root_struct (σ : Schema) (f : Nat) (n : String) (d : Option String) (fs : List Field) (b b' : Build) (root : Node)
    (hfind : σ.find n = some (.struct d fs)) (h : mkNode σ (f + 1) [] (.ref n) b = .ok (root, b')) :
    ∃ col cnt oc nodes, root = .struct col n d cnt oc nodes := by
  simp only [mkNode, List.contains_nil, Bool.false_eq_true, if_false, hfind, bind, Except.bind] at h
  split at h
  · simp at h
  · rename_i r1 h1
    split at h
    · simp at h
    · rename_i r2 h2
      simp only [Except.ok.injEq, Prod.mk.injEq] at h
      obtain ⟨rfl, _⟩ := h
      exact ⟨_, _, _, _, rfl⟩

theorem init_struct (C : Ctx) (n : String) (d : Option String) (fs : List Field) (hfind : C.σ.find n = some (.struct d fs)) :
    ∃ fs0, C.init (.ref n) = .struct n 0 0 false fs0 := by
  unfold Ctx.init initFuelA
  simp only [initAS, hfind]
  exact ⟨_, rfl⟩

end Stef.Api
