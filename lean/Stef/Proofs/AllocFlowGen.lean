import Stef.Gen.AllocFlow
import Stef.Proofs.ReadBudget
import Stef.Proofs.StrBound

/-!
  The regenerated methods of `AllocSizeChecker` (Stef/Gen/AllocFlow.lean, translated from the current
  go/pkg/allocsizechecker.go by extract/allocflow.go) are the hand model of Stef/Alloc.lean - on EVERY
  state and every argument. The regenerated state is a `uint` (`BitVec 64`), the hand model counts in
  `Nat`: `toModel` reads the counter; every hand-model state below 2^64 is the image of a regenerated one.
-/
set_option linter.unusedSimpArgs false  -- the simp sets also hold lemmas for equivalent spellings of the Go conditions (`carry > 0`)

namespace Stef.AllocFlowGen
open Stef Stef.Alloc Stef.AllocFlowSem
open Stef.Gen.AllocFlow

/-! ### AllocSizeChecker -/

/-- the hand-model state of a regenerated checker -/
def toModel (a : AllocSizeChecker) : Checker := { allocatedSize := a.allocatedSize.toNat }

/-- the regenerated checker of a hand-model state -/
def ofModel (c : Checker) : AllocSizeChecker := { allocatedSize := BitVec.ofNat 64 c.allocatedSize }

theorem toModel_lt (a : AllocSizeChecker) : (toModel a).allocatedSize < 2 ^ 64 := a.allocatedSize.isLt

theorem toModel_ofModel (c : Checker) (h : c.allocatedSize < 2 ^ 64) : toModel (ofModel c) = c := by
  cases c
  simp only [toModel, ofModel, BitVec.toNat_ofNat] at h ⊢
  rw [Nat.mod_eq_of_lt h]

theorem toModel_inj (a b : AllocSizeChecker) (h : toModel a = toModel b) : a = b := by
  cases a; cases b
  simp only [toModel, Checker.mk.injEq] at h
  simp only [AllocSizeChecker.mk.injEq]
  exact BitVec.eq_of_toNat_eq h

/-- a Go `error` as the hand model sees it: is it non-nil -/
def errB (e : GoErr) : Bool := decide (e ≠ GoErr.nil)

/-! `bits.Add` / `bits.Mul` of the vocabulary against `add64` / `mul64` of the hand model -/

theorem bitsAdd_sum (x y : Word) : (bitsAdd x y 0#64).1.toNat = (add64 x.toNat y.toNat).1 := by
  simp [bitsAdd, add64]

theorem bitsAdd_carry (x y : Word) : (bitsAdd x y 0#64).2 = 0#64 ↔ (add64 x.toNat y.toNat).2 = 0 := by
  have hx := x.isLt
  have hy := y.isLt
  have hq : (x.toNat + y.toNat) / 2 ^ 64 < 2 ^ 64 := by
    have : (x.toNat + y.toNat) / 2 ^ 64 < 2 := by
      apply Nat.div_lt_of_lt_mul; omega
    omega
  simp only [bitsAdd, add64]
  constructor
  · intro h
    have := congrArg BitVec.toNat h
    simpa [Nat.mod_eq_of_lt hq] using this
  · intro h
    simp [h]

theorem bitsMul_lo (x y : Word) : (bitsMul x y).2.toNat = (mul64 x.toNat y.toNat).2 := by
  simp [bitsMul, mul64]

theorem bitsMul_hi (x y : Word) : (bitsMul x y).1 = 0#64 ↔ (mul64 x.toNat y.toNat).1 = 0 := by
  have hx := x.isLt
  have hy := y.isLt
  have hq : x.toNat * y.toNat / 2 ^ 64 < 2 ^ 64 := by
    apply Nat.div_lt_of_lt_mul
    exact Nat.mul_lt_mul'' hx hy
  simp only [bitsMul, mul64]
  constructor
  · intro h
    have := congrArg BitVec.toNat h
    simpa [Nat.mod_eq_of_lt hq] using this
  · intro h
    simp [h]

/-- `carry > 0` and `carry != 0` are the same test on a `uint` -/
theorem word_pos (x : Word) : (x > 0#64) = ¬ (x = 0#64) := by
  simp only [gt_iff_lt, BitVec.lt_def, BitVec.toNat_ofNat, Nat.zero_mod, eq_iff_iff]
  constructor
  · intro h he; rw [he] at h; simp at h
  · intro h
    have : x.toNat ≠ 0 := fun h0 => h (BitVec.eq_of_toNat_eq (by simpa using h0))
    omega

/-- `ResetAllocSize` (pointer receiver: the caller's counter is zero afterwards) -/
theorem reset_eq (a : AllocSizeChecker) : toModel a.resetAllocSize = (toModel a).reset := by
  simp [AllocSizeChecker.resetAllocSize, toModel, Checker.reset]

/-- `AddAllocSize` -/
theorem addAllocSize_eq (a : AllocSizeChecker) (size : Word) :
    toModel (a.addAllocSize size) = (toModel a).addAllocSize size.toNat := by
  have hs := bitsAdd_sum a.allocatedSize size
  have hc := bitsAdd_carry a.allocatedSize size
  simp only [AllocSizeChecker.addAllocSize, Checker.addAllocSize, toModel, ne_eq, decide_not,
    Bool.not_eq_eq_eq_not, Bool.not_true, decide_eq_false_iff_not, decide_eq_true_eq, word_pos, hc]
  split <;> simp_all [maxUint]

/-- `IsOverLimit` does not change the receiver and compares with RecordAllocLimit -/
theorem isOverLimit_eq (a : AllocSizeChecker) : a.isOverLimit = (a, (toModel a).isOverLimit) := by
  simp [AllocSizeChecker.isOverLimit, Checker.isOverLimit, toModel, Gen.recordAllocLimit, BitVec.lt_def]

/-- `PrepAllocSize`: new state and "an error is returned" -/
theorem prepAllocSize_eq (a : AllocSizeChecker) (size : Word) :
    (toModel (a.prepAllocSize size).1, errB (a.prepAllocSize size).2) = (toModel a).prepAllocSize size.toNat := by
  have hs := bitsAdd_sum a.allocatedSize size
  have hc := bitsAdd_carry a.allocatedSize size
  simp only [AllocSizeChecker.prepAllocSize, Checker.prepAllocSize, toModel, ne_eq, decide_not,
    Bool.not_eq_eq_eq_not, Bool.not_true, decide_eq_false_iff_not, decide_eq_true_eq, word_pos, hc, isOverLimit_eq]
  split
  · simp_all [maxUint, errB]
  · simp only [hs]
    split <;> simp_all [errB]

/-- `PrepAllocSizeN` -/
theorem prepAllocSizeN_eq (a : AllocSizeChecker) (size count : Word) :
    (toModel (a.prepAllocSizeN size count).1, errB (a.prepAllocSizeN size count).2) =
      (toModel a).prepAllocSizeN size.toNat count.toNat := by
  have hl := bitsMul_lo size count
  have hh := bitsMul_hi size count
  have hs := bitsAdd_sum a.allocatedSize (bitsMul size count).2
  have hc := bitsAdd_carry a.allocatedSize (bitsMul size count).2
  rw [hl] at hs hc
  simp only [AllocSizeChecker.prepAllocSizeN, Checker.prepAllocSizeN, toModel, ne_eq, decide_not,
    Bool.not_eq_eq_eq_not, Bool.not_true, decide_eq_false_iff_not, decide_eq_true_eq, word_pos, hc, hh, isOverLimit_eq]
  split
  · simp_all [maxUint, errB]
  · split
    · simp_all [maxUint, errB]
    · simp only [hs]
      split <;> simp_all [errB]

/-- the only error the two `Prep` methods return is `ErrRecordAllocLimitExceeded` -/
theorem prepAllocSize_err (a : AllocSizeChecker) (size : Word) :
    (a.prepAllocSize size).2 = GoErr.nil ∨ (a.prepAllocSize size).2 = GoErr.errRecordAllocLimitExceeded := by
  unfold AllocSizeChecker.prepAllocSize
  simp only
  split
  · exact Or.inr rfl
  · split
    · exact Or.inr rfl
    · exact Or.inl rfl

theorem prepAllocSizeN_err (a : AllocSizeChecker) (size count : Word) :
    (a.prepAllocSizeN size count).2 = GoErr.nil ∨
      (a.prepAllocSizeN size count).2 = GoErr.errRecordAllocLimitExceeded := by
  unfold AllocSizeChecker.prepAllocSizeN
  simp only
  split
  · exact Or.inr rfl
  · split
    · exact Or.inr rfl
    · split
      · exact Or.inr rfl
      · exact Or.inl rfl

/-! ### request sequences and the reader loop over the regenerated methods -/

/-- an allocation request as the generated decoders make it: `PrepAllocSize(size)` or
    `PrepAllocSizeN(size, count)` with `uint` arguments -/
inductive GReq
  | one (size : Word)
  | many (size count : Word)

def GReq.toReq : GReq → Req
  | .one s => .one s.toNat
  | .many s c => .many s.toNat c.toNat

/-- the bytes a request asks for (a natural number: `size * count` is not wrapped) -/
def GReq.bytes (r : GReq) : Nat := r.toReq.bytes

theorem GReq.toReq_wf (r : GReq) : r.toReq.wf := by
  cases r with
  | one s => exact s.isLt
  | many s c => exact ⟨s.isLt, c.isLt⟩

/-- grant requests in order with the REGENERATED methods, stopping at the first error -/
def genGrant (a : AllocSizeChecker) : List GReq → AllocSizeChecker × GoErr
  | [] => (a, GoErr.nil)
  | .one s :: rest =>
    let r := a.prepAllocSize s
    if r.2 ≠ GoErr.nil then r else genGrant r.1 rest
  | .many s c :: rest =>
    let r := a.prepAllocSizeN s c
    if r.2 ≠ GoErr.nil then r else genGrant r.1 rest

theorem genGrant_eq (reqs : List GReq) (a : AllocSizeChecker) :
    (toModel (genGrant a reqs).1, errB (genGrant a reqs).2) = grant (toModel a) (reqs.map GReq.toReq) := by
  induction reqs generalizing a with
  | nil => simp [genGrant, grant, errB]
  | cons r rest ih =>
    cases r with
    | one s =>
      have h := prepAllocSize_eq a s
      simp only [genGrant, List.map_cons, GReq.toReq, grant]
      rw [← h]
      by_cases he : (a.prepAllocSize s).2 = GoErr.nil
      · simp only [he, ne_eq, not_true_eq_false, ↓reduceIte, errB, decide_false, Bool.false_eq_true]
        exact ih _
      · simp [he, errB]
    | many s c =>
      have h := prepAllocSizeN_eq a s c
      simp only [genGrant, List.map_cons, GReq.toReq, grant]
      rw [← h]
      by_cases he : (a.prepAllocSizeN s c).2 = GoErr.nil
      · simp only [he, ne_eq, not_true_eq_false, ↓reduceIte, errB, decide_false, Bool.false_eq_true]
        exact ih _
      · simp [he, errB]

/-- the loop of the generated `Reader.Read` over the regenerated methods: before each record
    `ResetAllocSize()` is called (iff `resetBefore`), then the record's requests are granted in order;
    the number of records decoded before the first refusal. -/
def genReadRecords (resetBefore : Bool) (a : AllocSizeChecker) : List (List GReq) → Nat
  | [] => 0
  | r :: rest =>
    let a0 := if resetBefore then a.resetAllocSize else a
    if (genGrant a0 r).2 ≠ GoErr.nil then 0 else 1 + genReadRecords resetBefore (genGrant a0 r).1 rest

theorem genReadRecords_eq (resetBefore : Bool) (recs : List (List GReq)) (a : AllocSizeChecker) :
    genReadRecords resetBefore a recs = readRecords resetBefore (toModel a) (recs.map (·.map GReq.toReq)) := by
  induction recs generalizing a with
  | nil => rfl
  | cons r rest ih =>
    have h0 : toModel (if resetBefore then a.resetAllocSize else a) =
        (if resetBefore then (toModel a).reset else toModel a) := by
      cases resetBefore <;> simp [reset_eq]
    have hg := genGrant_eq r (if resetBefore then a.resetAllocSize else a)
    rw [h0] at hg
    simp only [genReadRecords, List.map_cons, readRecords]
    rw [← hg]
    by_cases he : (genGrant (if resetBefore = true then a.resetAllocSize else a) r).2 = GoErr.nil
    · simp only [he, ne_eq, not_true_eq_false, ↓reduceIte, errB, decide_false, Bool.false_eq_true]
      rw [ih]
    · simp [he, errB]

end Stef.AllocFlowGen
