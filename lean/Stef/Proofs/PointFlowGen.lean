/-
  Stef.Proofs.PointFlowGen: the per-point functions of the metrics converters as REGENERATED from the Go source
  (Stef/Gen/PointFlow.lean, generator extract/pointflow.go, vocabulary Stef/PointFlowSem.lean) are the functions
  of the hand model Stef/Otlp/Metrics.lean - on every input and every state of the re-used destination.
  Errors are compared as "an error is returned" (the hand model's messages are its own).
-/
import Stef.Gen.PointFlow
import Stef.Proofs.OtlpMetricsWrite
set_option linter.unusedSimpArgs false
set_option linter.unusedVariables false

namespace Stef.Proofs.PointFlowGen
open Stef.Otlp Stef.PointFlowSem Stef.Gen.PointFlow

/-! ### OTLP -> STEF: the heap is the converter (`TempAttrs`) and the re-used `otelstef.Point` -/

abbrev WS := Conv × SPoint
def cL : Ref WS Conv := objL ⬝ fstL
def pL : Ref WS SPoint := objL ⬝ sndL

theorem setType_none (v : SPValue) : OPointValue.setType 0 v = .none := by
  cases v <;> simp [OPointValue.setType, OPointValue.type, OPointValue.blank]

/-- the vocabulary, unfolded -/
macro "pf_sem" : tactic => `(tactic| simp only [cL, pL, Lens.comp, objL, mapsL, fstL, sndL,
    PDataPointFlags.noRecordedValue, PDataPointFlags.withNoRecordedValue,
    PAnyPoint.flags, PAnyPoint.timestamp, PAnyPoint.startTimestamp, PAnyPoint.setTimestamp, PAnyPoint.setStartTimestamp,
    PAnyPoint.setFlags, PAnyPoint.count, PAnyPoint.setCount, PAnyPoint.hasSum, PAnyPoint.sum, PAnyPoint.setSum,
    PAnyPoint.hasMin, PAnyPoint.min, PAnyPoint.setMin, PAnyPoint.hasMax, PAnyPoint.max, PAnyPoint.setMax,
    PAnyPoint.attributes, PAnyPoint.exemplars,
    PNumberDataPoint.valueType, PNumberDataPoint.intValue, PNumberDataPoint.doubleValue, PNumberDataPoint.setIntValue,
    PNumberDataPoint.setDoubleValue,
    PHistogramDataPoint.bucketCounts, PHistogramDataPoint.explicitBounds,
    PExponentialHistogramDataPoint.scale, PExponentialHistogramDataPoint.setScale, PExponentialHistogramDataPoint.zeroCount,
    PExponentialHistogramDataPoint.setZeroCount, PExponentialHistogramDataPoint.zeroThreshold,
    PExponentialHistogramDataPoint.setZeroThreshold, PExponentialHistogramDataPoint.positive, PExponentialHistogramDataPoint.negative,
    PExponentialHistogramDataPointBuckets.offset, PExponentialHistogramDataPointBuckets.setOffset,
    PExponentialHistogramDataPointBuckets.bucketCounts,
    PSummaryDataPoint.setSum, PSummaryDataPoint.quantileValues,
    PSummaryDataPointValueAtQuantileSlice.len, PSummaryDataPointValueAtQuantileSlice.elems,
    PSummaryDataPointValueAtQuantileSlice.ensureCapacity, PSummaryDataPointValueAtQuantileSlice.dflt,
    PSummaryDataPointValueAtQuantile.quantile, PSummaryDataPointValueAtQuantile.value,
    PSummaryDataPointValueAtQuantile.setQuantile, PSummaryDataPointValueAtQuantile.setValue,
    PExemplarSlice.len, PExemplarSlice.elems, PExemplarSlice.dflt,
    PExemplar.timestamp, PExemplar.setTimestamp, PExemplar.valueType, PExemplar.intValue, PExemplar.doubleValue,
    PExemplar.setIntValue, PExemplar.setDoubleValue, PExemplar.traceID, PExemplar.setTraceID, PExemplar.spanID,
    PExemplar.setSpanID, PExemplar.filteredAttributes,
    PUInt64Slice.len, PUInt64Slice.asRaw, PUInt64Slice.ensureCapacity, PUInt64Slice.append,
    PFloat64Slice.len, PFloat64Slice.asRaw, PFloat64Slice.ensureCapacity, PFloat64Slice.append,
    pc_NumberDataPointValueTypeInt, pc_NumberDataPointValueTypeDouble, pc_NumberDataPointValueTypeEmpty,
    pc_ExemplarValueTypeEmpty, pc_ExemplarValueTypeInt, pc_ExemplarValueTypeDouble,
    pc_AggregationTemporalityUnspecified, pc_AggregationTemporalityDelta, pc_AggregationTemporalityCumulative,
    pc_DefaultDataPointFlags, pc_TraceIDLen, pc_SpanIDLen,
    c_PointValueTypeNone, c_PointValueTypeInt64, c_PointValueTypeFloat64, c_PointValueTypeHistogram,
    c_PointValueTypeExpHistogram, c_PointValueTypeSummary, c_ExemplarValueTypeNone, c_ExemplarValueTypeInt64,
    c_ExemplarValueTypeFloat64, c_AggregationTemporalityUnspecified, c_AggregationTemporalityDelta,
    c_AggregationTemporalityCumulative,
    cvt_ts_u64, cvt_u64_ts, cvt_u64_i64, cvt_i64_u64, cvt_i32_i64, cvt_i64_i32, cvt_arr_bytes, cvt_bytes_pkgbytes,
    cvt_pkgbytes_bytes, len,
    OPoint.value, OPoint.exemplars, OPoint.timestamp, OPoint.startTimestamp, OPoint.setTimestamp, OPoint.setStartTimestamp,
    OPointValue.setInt64, OPointValue.setFloat64, OPointValue.histogram, OPointValue.expHistogram, OPointValue.summary,
    OPointValue.int64, OPointValue.float64,
    OHistogramValue.count, OHistogramValue.setCount, OHistogramValue.hasSum, OHistogramValue.sum, OHistogramValue.setSum,
    OHistogramValue.unsetSum, OHistogramValue.hasMin, OHistogramValue.min, OHistogramValue.setMin, OHistogramValue.unsetMin,
    OHistogramValue.hasMax, OHistogramValue.max, OHistogramValue.setMax, OHistogramValue.unsetMax, OHistogramValue.bucketCounts,
    OUint64Array.len, OUint64Array.elems, OUint64Array.copyFromSlice, OFloat64Array.len, OFloat64Array.elems,
    OExpHistogramValue.count, OExpHistogramValue.setCount, OExpHistogramValue.hasSum, OExpHistogramValue.sum,
    OExpHistogramValue.setSum, OExpHistogramValue.unsetSum, OExpHistogramValue.hasMin, OExpHistogramValue.min,
    OExpHistogramValue.setMin, OExpHistogramValue.unsetMin, OExpHistogramValue.hasMax, OExpHistogramValue.max,
    OExpHistogramValue.setMax, OExpHistogramValue.unsetMax, OExpHistogramValue.scale, OExpHistogramValue.setScale,
    OExpHistogramValue.zeroCount, OExpHistogramValue.setZeroCount, OExpHistogramValue.zeroThreshold,
    OExpHistogramValue.setZeroThreshold, OExpHistogramValue.positiveBuckets, OExpHistogramValue.negativeBuckets,
    OExpHistogramBuckets.offset, OExpHistogramBuckets.setOffset, OExpHistogramBuckets.bucketCounts,
    OSummaryValue.count, OSummaryValue.setCount, OSummaryValue.sum, OSummaryValue.setSum, OSummaryValue.quantileValues,
    OQuantileValueArray.len, OQuantileValueArray.elems, OQuantileValueArray.elem,
    OQuantileValue.quantile, OQuantileValue.value, OQuantileValue.setQuantile, OQuantileValue.setValue,
    OExemplarArray.len, OExemplarArray.elems, OExemplarArray.ensureLen, OExemplarArray.elem,
    OExemplar.timestamp, OExemplar.setTimestamp, OExemplar.traceID, OExemplar.setTraceID, OExemplar.spanID,
    OExemplar.setSpanID, OExemplar.value, OExemplar.filteredAttributes,
    OExemplarValue.int64, OExemplarValue.float64, OExemplarValue.setInt64, OExemplarValue.setFloat64,
    OAttributes.copyFrom, OMetric.monotonic, OMetric.aggregationTemporality, OMetric.histogramBounds,
    otlp2stefMapSorted, tefToOtlpMap, PMap.moveTo, Conv.tempAttrsL, atL])


/-- sequencing of outcomes (what `>>=` does after the first computation has run) -/
def _root_.Stef.PointFlowSem.Out.andThen {σ ρ α β : Type} (o : Out σ ρ α) (k : α → Heap σ → Out σ ρ β) : Out σ ρ β :=
  match o with
  | .next a h' => k a h'
  | .ret r h' => .ret r h'
  | .panic => .panic

@[simp] theorem andThen_next {σ ρ α β : Type} (a : α) (h : Heap σ) (k : α → Heap σ → Out σ ρ β) :
    (Out.next a h : Out σ ρ α).andThen k = k a h := rfl
@[simp] theorem andThen_ret {σ ρ α β : Type} (r : ρ) (h : Heap σ) (k : α → Heap σ → Out σ ρ β) :
    (Out.ret r h : Out σ ρ α).andThen k = .ret r h := rfl
@[simp] theorem andThen_panic {σ ρ α β : Type} (k : α → Heap σ → Out σ ρ β) :
    (Out.panic : Out σ ρ α).andThen k = .panic := rfl
@[simp] theorem andThen_ite {σ ρ α β : Type} (c : Prop) [Decidable c] (a b : Out σ ρ α) (k : α → Heap σ → Out σ ρ β) :
    (if c then a else b).andThen k = if c then a.andThen k else b.andThen k := by split <;> rfl

@[simp] theorem run_bind {σ ρ α β : Type} (m : M σ ρ α) (f : α → M σ ρ β) (h : Heap σ) :
    (m >>= f).run h = (m.run h).andThen (fun a h' => (f a).run h') := by
  show (M.bind m f).run h = _
  simp only [M.bind, Out.andThen]
  cases m.run h <;> rfl
@[simp] theorem run_pure {σ ρ α : Type} (a : α) (h : Heap σ) : (pure a : M σ ρ α).run h = .next a h := rfl
@[simp] theorem run_upd {σ ρ τ : Type} (l : Ref σ τ) (f : τ → τ) (h : Heap σ) :
    (upd l f : M σ ρ Unit).run h = .next () (l.set (f (l.get h)) h) := rfl
@[simp] theorem run_rd {σ ρ τ α : Type} (l : Ref σ τ) (g : τ → α) (h : Heap σ) :
    (rd l g : M σ ρ α).run h = .next (g (l.get h)) h := rfl
@[simp] theorem run_ret {σ ρ α : Type} (r : ρ) (h : Heap σ) : (ret r : M σ ρ α).run h = .ret r h := rfl
@[simp] theorem run_ite {σ ρ α : Type} (c : Prop) [Decidable c] (a b : M σ ρ α) (h : Heap σ) :
    (if c then a else b).run h = if c then a.run h else b.run h := by split <;> rfl
theorem run_call {σ ρ ρ' : Type} (f : M σ ρ' Unit) (h : Heap σ) :
    (call f : M σ ρ ρ').run h = match f.run h with
      | .ret r h' => .next r h' | .next _ _ => .panic | .panic => .panic := rfl
@[simp] theorem run_callV {σ ρ : Type} (f : M σ Unit Unit) (h : Heap σ) :
    (callV f : M σ ρ Unit).run h = match f.run h with
      | .ret _ h' => .next () h' | .next _ h' => .next () h' | .panic => .panic := rfl

theorem setOptF_none (o : Option Nat) : setOptF o none = none := by cases o <;> rfl

theorem setType_hist (v : SPValue) :
    OPointValue.setType 3 v = .hist (match v with | .hist h => h | _ => {}) := by
  cases v <;> simp [OPointValue.setType, OPointValue.type, OPointValue.blank]

theorem convertNumDatapoint_eq (src : Point) (cv : Conv) (p : SPoint) (ms : List KVs) :
    ((O2S.convertNumDatapoint cL pL src).run ⟨(cv, p), ms⟩).res
      = some ((convNumber src p).toOption.map fun p' => (cv, p')) := by
  unfold O2S.convertNumDatapoint convNumber
  by_cases hf : (src.flags % 2 == 1) = true
  · simp [hf, flagged, Out.res, Except.toOption]
    pf_sem
    simp [hf, setType_none]
  · rcases hv : src.vt with _ | _ | _ | n
    all_goals
      simp [hf, flagged, Out.res, Except.toOption]
      pf_sem
      simp [hf, hv, setType_none]
    cases p.value <;> rfl

theorem convertHistogram_eq (src : Point) (cv : Conv) (p : SPoint) (ms : List KVs) :
    ((O2S.convertHistogram cL pL src).run ⟨(cv, p), ms⟩).res
      = some ((convHistogram src p).toOption.map fun p' => (cv, p')) := by
  unfold O2S.convertHistogram convHistogram
  by_cases hf : (src.flags % 2 == 1) = true
  · simp [hf, flagged, Out.res, Except.toOption]
    pf_sem
    simp [hf, setType_none]
  · cases hs : src.hasSum <;> cases hm : src.hasMin <;> cases hx : src.hasMax
    all_goals
      simp [hf, flagged, Out.res, Except.toOption]
      pf_sem
      simp [hf, hs, hm, hx, setType_hist, optOf]
      by_cases hc : (¬src.buckets = [] ∨ ¬src.bounds = []) ∧ ¬src.buckets.length = src.bounds.length + 1 <;> simp [hc, setOptF_none] <;> cases p.value <;> simp
set_option linter.unusedSimpArgs false
open Stef.Otlp Stef.PointFlowSem Stef.Gen.PointFlow Stef.Proofs.PointFlowGen

theorem setType_exp (v : SPValue) :
    OPointValue.setType 4 v = .exp (match v with | .exp e => e | _ => {}) := by
  cases v <;> simp [OPointValue.setType, OPointValue.type, OPointValue.blank]

theorem convertExpHistogram_eq (src : Point) (cv : Conv) (p : SPoint) (ms : List KVs) :
    ((O2S.convertExpHistogram cL pL src).run ⟨(cv, p), ms⟩).res
      = some ((convExpHistogram src p).toOption.map fun p' => (cv, p')) := by
  unfold O2S.convertExpHistogram convExpHistogram
  by_cases hf : (src.flags % 2 == 1) = true
  · simp [hf, flagged, Out.res, Except.toOption]
    pf_sem
    simp [hf, setType_none]
  · cases hs : src.hasSum <;> cases hm : src.hasMin <;> cases hx : src.hasMax
    all_goals
      simp [hf, flagged, Out.res, Except.toOption, O2S.expBucketsToStef]
      pf_sem
      simp [hf, hs, hm, hx, setType_exp, optOf, setOptF_none]
      cases p.value <;> simp

theorem aggregationTemporalityToStef_eq (t : Nat) (h : Heap Unit) :
    (O2S.aggregationTemporalityToStef t).run h = .ret (if t ≤ 2 then (t, none) else (0, some "unexpected aggregation temporality: %v")) h := by
  unfold O2S.aggregationTemporalityToStef
  rcases t with _ | _ | _ | n <;> simp <;> pf_sem <;> simp
set_option linter.unusedSimpArgs false
open Stef.Otlp Stef.PointFlowSem Stef.Gen.PointFlow Stef.Proofs.PointFlowGen

@[simp] theorem run_atV {σ ρ τ : Type} (xs : List τ) (i : Nat) (h : Heap σ) :
    (atV xs i : M σ ρ τ).run h = match xs[i]? with | some x => .next x h | none => .panic := rfl
@[simp] theorem run_chkIdx {σ ρ τ : Type} (l : Ref σ τ) (ln : τ → Nat) (i : Nat) (h : Heap σ) :
    (chkIdx l ln i : M σ ρ Unit).run h = if i < ln (l.get h) then .next () h else .panic := rfl
@[simp] theorem run_forLt {σ ρ : Type} (n : Nat) (body : Nat → M σ ρ Unit) (h : Heap σ) :
    (forLt n body).run h = forFrom n 0 body h := rfl

theorem getD_set_self {α : Type} (l : List α) (i : Nat) (v d : α) (h : i < l.length) : (l.set i v).getD i d = v := by
  simp [List.getD_eq_getElem?_getD, h]

theorem setType_summary (v : SPValue) :
    OPointValue.setType 5 v = .summary (match v with | .summary s => s | _ => {}) := by
  cases v <;> simp [OPointValue.setType, OPointValue.type, OPointValue.blank]

theorem setQuantiles_ensureLen : ∀ (qs old : List (Nat × Nat)),
    setQuantiles qs (OQuantileValueArray.ensureLen qs.length old) = setQuantiles qs old
  | [], old => by simp [setQuantiles]
  | (q, v) :: t, [] => by
    have ih := setQuantiles_ensureLen t []
    simp [OQuantileValueArray.ensureLen, List.replicate_succ, setQuantiles] at ih ⊢
    exact ih
  | (q, v) :: t, (oq, ov) :: ot => by
    have ih := setQuantiles_ensureLen t ot
    simp [OQuantileValueArray.ensureLen, setQuantiles] at ih ⊢
    exact ih

theorem ensureLen_length (n : Nat) (a : List (Nat × Nat)) : (OQuantileValueArray.ensureLen n a).length = n := by
  simp [OQuantileValueArray.ensureLen]; omega

/-- a loop whose round `i` sets element `i` of the quantile array from element `i` of `qs` -/
theorem qLoop (qs : List (Nat × Nat)) (body : Nat → M WS Err Unit)
    (hbody : ∀ (i : Nat) (cv : Conv) (p : SPoint) (s : SSummary) (ms : List KVs) (q : Nat × Nat), qs[i]? = some q → p.value = .summary s → i < s.quantiles.length →
      (body i).run ⟨(cv, p), ms⟩ = .next () ⟨(cv, { p with value := .summary { s with quantiles := (s.quantiles.set i (setF (s.quantiles.getD i (0, 0)).1 q.1, setF (s.quantiles.getD i (0, 0)).2 q.2)) } }), ms⟩) :
    ∀ (es : List (Nat × Nat)) (i : Nat) (pre rest : List (Nat × Nat)) (cv : Conv) (p : SPoint) (s : SSummary) (ms : List KVs),
      qs.drop i = es → s.quantiles = pre ++ rest → pre.length = i → es.length = rest.length → p.value = .summary s →
      forFrom es.length i body ⟨(cv, p), ms⟩
        = .next () ⟨(cv, { p with value := .summary { s with quantiles := pre ++ setQuantiles es rest } }), ms⟩
  | [], i, pre, rest, cv, p, s, ms, hd, hq, hi, hl, hv => by
    have : rest = [] := by cases rest <;> simp_all
    subst this
    simp [forFrom, setQuantiles]
    cases p; cases s; simp_all
  | (q, v) :: es, i, pre, [], cv, p, s, ms, hd, hq, hi, hl, hv => by simp at hl
  | (q, v) :: es, i, pre, (oq, ov) :: rest, cv, p, s, ms, hd, hq, hi, hl, hv => by
    have hqi : qs[i]? = some (q, v) := by
      have := congrArg List.head? hd
      simpa [List.head?_drop] using this
    have hlt : i < s.quantiles.length := by rw [hq]; simp; omega
    simp only [List.length_cons, forFrom, hbody i cv p s ms (q, v) hqi hv hlt]
    have hget : s.quantiles.getD i (0, 0) = (oq, ov) := by
      rw [hq, ← hi]; simp [List.getD_eq_getElem?_getD]
    have hset : ∀ x, s.quantiles.set i x = (pre ++ [x]) ++ rest := by
      intro x; rw [hq, ← hi]; simp
    rw [hget, hset]
    have hd' : qs.drop (i + 1) = es := by
      have := congrArg List.tail hd
      simpa [List.tail_drop] using this
    have := qLoop qs body hbody es (i + 1) (pre ++ [(setF oq q, setF ov v)]) rest cv
      { p with value := .summary { s with quantiles := (pre ++ [(setF oq q, setF ov v)]) ++ rest } }
      { s with quantiles := (pre ++ [(setF oq q, setF ov v)]) ++ rest } ms hd' rfl (by simp [hi]) (by simpa using hl) rfl
    rw [this]
    simp [setQuantiles]

theorem convertSummary_eq (src : Point) (cv : Conv) (p : SPoint) (ms : List KVs) :
    ((O2S.convertSummary cL pL src).run ⟨(cv, p), ms⟩).res = some (some (cv, convSummary src p)) := by
  unfold O2S.convertSummary convSummary
  by_cases hf : (src.flags % 2 == 1) = true
  · simp [hf, flagged, Out.res]
    pf_sem
    simp [hf, setType_none]
  · simp [hf, flagged]
    pf_sem
    simp [hf, setType_summary]
    rw [qLoop src.quantiles _ ?hb src.quantiles 0 []
      (OQuantileValueArray.ensureLen src.quantiles.length (match p.value with | .summary s => s | _ => {}).quantiles) cv _
      { count := src.count, sum := setF (match p.value with | .summary s => s | _ => {}).sum src.sum,
        quantiles := OQuantileValueArray.ensureLen src.quantiles.length (match p.value with | .summary s => s | _ => {}).quantiles } ms]
    · simp [Out.res, setQuantiles_ensureLen]
      cases p.value <;> simp
    case hb =>
      intro i cv p s ms q hq hv hlt
      simp [hq, hv, hlt, getD_set_self, OQuantileValue.setQuantile, OQuantileValue.setValue, List.getD_eq_getElem?_getD,
        OQuantileValueArray.len]
    · rfl
    · rfl
    · rfl
    · simp [ensureLen_length]
    · cases p.value <;> simp
set_option linter.unusedSimpArgs false
open Stef.Otlp Stef.PointFlowSem Stef.Gen.PointFlow Stef.Proofs.PointFlowGen

theorem exEnsure_length : ∀ (n : Nat) (s : List SExemplar), n ≤ (exEnsure n s).length
  | 0, s => by simp
  | n + 1, [] => by simp [exEnsure]; exact exEnsure_length n []
  | n + 1, e :: t => by simp [exEnsure]; exact exEnsure_length n t

theorem exResetRange_length : ∀ (lo c : Nat) (s : List SExemplar), (exResetRange lo c s).length = s.length
  | _, _, [] => by simp [exResetRange]
  | 0, 0, e :: t => by simp [exResetRange]
  | 0, c + 1, e :: t => by simp [exResetRange, exResetRange_length 0 c t]
  | lo + 1, c, e :: t => by simp [exResetRange, exResetRange_length lo c t]

theorem exEnsureLen_length (store : List SExemplar) (len n : Nat) : n ≤ (exEnsureLen store len n).length := by
  simp [exEnsureLen, exResetRange_length]; exact exEnsure_length n store

/-- what a loop followed by `return nil` comes to -/
def _root_.Stef.PointFlowSem.Out.fin {σ : Type} : Out σ Err Unit → Option (Option σ)
  | .next _ h => some (some h.obj)
  | .ret none h => some (some h.obj)
  | .ret (some _) _ => some none
  | .panic => none

theorem res_after_loop {σ : Type} (o : Out σ Err Unit) :
    (o.andThen fun _ h' => (Out.ret none h' : Out σ Err Unit)).res = Out.fin o := by
  rcases o with ⟨a, h⟩ | ⟨r, h⟩ | _
  · rfl
  · cases r <;> rfl
  · rfl

theorem exLoop (src : List Exemplar) (body : Nat → M WS Err Unit)
    (hbody : ∀ (i : Nat) (tmp : SAttrs) (p : SPoint) (ms : List KVs) (e : Exemplar), src[i]? = some e → i < p.exLen →
      i < p.exStore.length →
      (∀ tmp' d', convExemplar e tmp (p.exStore.getD i {}) = .ok (tmp', d') →
        (body i).run ⟨(⟨tmp⟩, p), ms⟩ = .next () ⟨(⟨tmp'⟩, { p with exStore := p.exStore.set i d' }), ms⟩) ∧
      (∀ x, convExemplar e tmp (p.exStore.getD i {}) = .error x →
        ∃ m h', (body i).run ⟨(⟨tmp⟩, p), ms⟩ = .ret (some m) h')) :
    ∀ (es : List Exemplar) (i : Nat) (tmp : SAttrs) (pre rest : List SExemplar) (p : SPoint) (ms : List KVs),
      src.drop i = es → p.exStore = pre ++ rest → pre.length = i → es.length ≤ rest.length → i + es.length ≤ p.exLen →
      Out.fin (forFrom es.length i body ⟨(⟨tmp⟩, p), ms⟩)
        = some ((convExemplarsLoop es tmp rest).toOption.map fun r => (⟨r.1⟩, { p with exStore := pre ++ r.2 }))
  | [], i, tmp, pre, rest, p, ms, hd, hq, hi, hl, hn => by
    simp [forFrom, Out.fin, convExemplarsLoop, Except.toOption, ← hq]
  | e :: es, i, tmp, pre, [], p, ms, hd, hq, hi, hl, hn => by simp at hl
  | e :: es, i, tmp, pre, d :: rest, p, ms, hd, hq, hi, hl, hn => by
    have hei : src[i]? = some e := by
      have := congrArg List.head? hd
      simpa [List.head?_drop] using this
    have hd' : src.drop (i + 1) = es := by
      have := congrArg List.tail hd
      simpa [List.tail_drop] using this
    have hlt : i < p.exStore.length := by rw [hq]; simp; omega
    have hget : p.exStore.getD i {} = d := by
      rw [hq, ← hi]; simp [List.getD_eq_getElem?_getD]
    have hset : ∀ x, p.exStore.set i x = (pre ++ [x]) ++ rest := by
      intro x; rw [hq, ← hi]; simp
    obtain ⟨hok, herr⟩ := hbody i tmp p ms e hei (by simp at hn; omega) hlt
    rw [hget] at hok herr
    cases hc : convExemplar e tmp d with
    | error x =>
      obtain ⟨m, h', hr⟩ := herr x hc
      simp [forFrom, hr, Out.fin, convExemplarsLoop, hc, Except.toOption]
    | ok r =>
      obtain ⟨tmp', d'⟩ := r
      have hr := hok tmp' d' hc
      simp only [List.length_cons, forFrom, hr]
      rw [hset]
      have := exLoop src body hbody es (i + 1) tmp' (pre ++ [d']) rest { p with exStore := (pre ++ [d']) ++ rest } ms hd' rfl
        (by simp [hi]) (by simpa using hl) (by simp at hn ⊢; omega)
      rw [this]
      simp only [convExemplarsLoop, hc]
      cases convExemplarsLoop es tmp' rest with
      | error x => simp [Except.toOption]
      | ok r2 => simp [Except.toOption]

theorem convertExemplars_eq (src : List Exemplar) (cv : Conv) (p : SPoint) (ms : List KVs) :
    ((O2S.convertExemplars cL (pL ⬝ OPoint.exemplars) src).run ⟨(cv, p), ms⟩).res
      = some ((convExemplars src cv.tempAttrs p).toOption.map fun r => (⟨r.1⟩, r.2)) := by
  unfold O2S.convertExemplars convExemplars
  simp
  pf_sem
  simp
  rw [res_after_loop]
  have hlen := exEnsureLen_length p.exStore p.exLen src.length
  rw [exLoop src _ ?hb src 0 cv.tempAttrs [] (exEnsureLen p.exStore p.exLen src.length)]
  · cases convExemplarsLoop src cv.tempAttrs (exEnsureLen p.exStore p.exLen src.length) with
    | error x => simp [Except.toOption]
    | ok r => simp [Except.toOption]
  case hb =>
    intro i tmp p ms e he hi hs
    have hmin : i < min p.exLen p.exStore.length := by omega
    rcases hv : e.vt with _ | _ | _ | n
    all_goals
      simp [convExemplar, hv, he, hmin, hs, OExemplarArray.len, getD_set_self, OExemplar.setTimestamp,
        OExemplar.setTraceID, OExemplar.setSpanID, OExemplarValue.setInt64, OExemplarValue.setFloat64,
        OExemplarValue.setType, OExemplarValue.type, List.getD_eq_getElem?_getD]
    all_goals (try (generalize p.exStore[i].value = w; cases w <;> simp))
  · rfl
  · rfl
  · rfl
  · exact hlen
  · simp

/-! ### STEF -> OTLP: the heap is the pdata data point under construction -/
set_option linter.unusedSimpArgs false
open Stef.Otlp Stef.PointFlowSem Stef.Gen.PointFlow Stef.Proofs.PointFlowGen

@[simp] theorem run_newMap {σ ρ : Type} (h : Heap σ) :
    (newMap : M σ ρ (Ref σ KVs)).run h = .next (mapsL ⬝ atL h.maps.length .nil) { h with maps := h.maps ++ [.nil] } := rfl
@[simp] theorem run_toArray {σ ρ : Type} (n : Nat) (b : List Nat) (h : Heap σ) :
    (toArray n b : M σ ρ (List Nat)).run h = if b.length < n then .panic else .next (b.take n) h := rfl
@[simp] theorem run_appendEmpty {σ ρ τ : Type} (l : Ref σ (List τ)) (d : τ) (h : Heap σ) :
    (appendEmpty l d : M σ ρ (Ref σ τ)).run h = .next (l ⬝ atL (l.get h).length d) (l.set (l.get h ++ [d]) h) := rfl

theorem set_append_last {α : Type} (l : List α) (x v : α) : (l ++ [x]).set l.length v = l ++ [v] := by simp
theorem getD_append_last {α : Type} (l : List α) (x d : α) : (l ++ [x]).getD l.length d = x := by
  simp [List.getD_eq_getElem?_getD]
theorem getElem?_append_last {α : Type} (l : List α) (x : α) : (l ++ [x])[l.length]? = some x := by simp

/-- the handle `dst.AppendEmpty()` returns for the exemplars of the data point under construction -/
def xL (k : Nat) : Ref Point Exemplar := (objL ⬝ PAnyPoint.exemplars) ⬝ atL k PExemplarSlice.dflt

theorem convertExemplar_run (src : SExemplar) (p : Point) (exs : List Exemplar) (ms : List KVs)
    (hp : p.exemplars = exs ++ [PExemplarSlice.dflt]) :
    (∀ e', exemplarToOtlp src = .ok e' →
      (S2O.convertExemplar src (xL exs.length)).run ⟨p, ms⟩ = .ret none ⟨{ p with exemplars := exs ++ [e'] }, ms ++ [.nil]⟩) ∧
    (∀ x, exemplarToOtlp src = .error x →
      ∃ m h', (S2O.convertExemplar src (xL exs.length)).run ⟨p, ms⟩ = .ret (some m) h') := by
  unfold S2O.convertExemplar exemplarToOtlp xL
  cases hv : src.value
  all_goals
    simp
    pf_sem
    simp [hp, OExemplarValue.type, set_append_last, getElem?_append_last]
    by_cases h1 : src.traceID = [] <;> by_cases h2 : src.traceID.length = 16 <;>
    by_cases h3 : src.spanID = [] <;> by_cases h4 : src.spanID.length = 8 <;>
    simp_all [PExemplarSlice.dflt, List.take_of_length_le]

theorem s2oExLoop (xs : List SExemplar) (body : Nat → M Point Err Unit)
    (hbody : ∀ (i : Nat) (p : Point) (ms : List KVs) (e : SExemplar), xs[i]? = some e →
      (∀ e', exemplarToOtlp e = .ok e' →
        (body i).run ⟨p, ms⟩ = .next () ⟨{ p with exemplars := p.exemplars ++ [e'] }, ms ++ [.nil]⟩) ∧
      (∀ x, exemplarToOtlp e = .error x → ∃ m h', (body i).run ⟨p, ms⟩ = .ret (some m) h')) :
    ∀ (es : List SExemplar) (i : Nat) (p : Point) (ms : List KVs), xs.drop i = es →
      (∀ es', exemplarsToOtlp es = .ok es' →
        forFrom es.length i body ⟨p, ms⟩
          = .next () ⟨{ p with exemplars := p.exemplars ++ es' }, ms ++ List.replicate es.length .nil⟩) ∧
      (∀ x, exemplarsToOtlp es = .error x → ∃ m h', forFrom es.length i body ⟨p, ms⟩ = .ret (some m) h')
  | [], i, p, ms, hd => by
    simp [forFrom, exemplarsToOtlp]
  | e :: es, i, p, ms, hd => by
    have hei : xs[i]? = some e := by
      have := congrArg List.head? hd
      simpa [List.head?_drop] using this
    have hd' : xs.drop (i + 1) = es := by
      have := congrArg List.tail hd
      simpa [List.tail_drop] using this
    obtain ⟨hok, herr⟩ := hbody i p ms e hei
    cases hc : exemplarToOtlp e with
    | error x =>
      obtain ⟨m, h', hr⟩ := herr x hc
      simp [forFrom, hr, exemplarsToOtlp, hc]
    | ok e' =>
      have hr := hok e' hc
      obtain ⟨ih1, ih2⟩ := s2oExLoop xs body hbody es (i + 1) { p with exemplars := p.exemplars ++ [e'] } (ms ++ [.nil]) hd'
      simp only [List.length_cons, forFrom, hr, exemplarsToOtlp, hc]
      cases hc2 : exemplarsToOtlp es with
      | error x =>
        obtain ⟨m, h', hr2⟩ := ih2 x hc2
        simp [hr2]
      | ok es' =>
        simp [ih1 es' hc2, List.replicate_succ]

theorem convertExemplars_run (src : SPoint) (p : Point) (ms : List KVs) :
    (∀ es', exemplarsToOtlp src.exemplars = .ok es' → ∃ extra,
      (S2O.convertExemplars src (objL ⬝ PAnyPoint.exemplars)).run ⟨p, ms⟩
        = .ret none ⟨{ p with exemplars := p.exemplars ++ es' }, ms ++ extra⟩) ∧
    (∀ x, exemplarsToOtlp src.exemplars = .error x → ∃ m h',
      (S2O.convertExemplars src (objL ⬝ PAnyPoint.exemplars)).run ⟨p, ms⟩ = .ret (some m) h') := by
  unfold S2O.convertExemplars
  simp only [run_bind, run_forLt, run_ret]
  have hb : ∀ (i : Nat) (p : Point) (ms : List KVs) (e : SExemplar), src.exemplars[i]? = some e →
      (∀ e', exemplarToOtlp e = .ok e' →
        ((fun i => (do
            let exemplar ← atV (OExemplarArray.elems (OPoint.exemplars.get src)) i
            let t2 ← appendEmpty (objL ⬝ PAnyPoint.exemplars) PExemplarSlice.dflt
            let err ← call (S2O.convertExemplar exemplar t2)
            if (err != none) then ret err : M Point Err Unit)) i).run ⟨p, ms⟩
          = .next () ⟨{ p with exemplars := p.exemplars ++ [e'] }, ms ++ [.nil]⟩) ∧
      (∀ x, exemplarToOtlp e = .error x → ∃ m h',
        ((fun i => (do
            let exemplar ← atV (OExemplarArray.elems (OPoint.exemplars.get src)) i
            let t2 ← appendEmpty (objL ⬝ PAnyPoint.exemplars) PExemplarSlice.dflt
            let err ← call (S2O.convertExemplar exemplar t2)
            if (err != none) then ret err : M Point Err Unit)) i).run ⟨p, ms⟩ = .ret (some m) h') := by
    intro i p ms e he
    have he' : (OExemplarArray.elems (OPoint.exemplars.get src))[i]? = some e := he
    simp only [run_bind, run_atV, he', andThen_next, run_appendEmpty]
    have hg : (objL ⬝ PAnyPoint.exemplars).get (⟨p, ms⟩ : Heap Point) = p.exemplars := rfl
    have hs : ∀ v, (objL ⬝ PAnyPoint.exemplars).set v (⟨p, ms⟩ : Heap Point) = ⟨{ p with exemplars := v }, ms⟩ := fun _ => rfl
    obtain ⟨hok, herr⟩ := convertExemplar_run e { p with exemplars := p.exemplars ++ [PExemplarSlice.dflt] } p.exemplars ms rfl
    simp only [xL] at hok herr
    simp only [hg, hs, run_call]
    constructor
    · intro e' hc
      simp [hok e' hc]
    · intro x hc
      obtain ⟨m, h', hr⟩ := herr x hc
      exact ⟨m, h', by simp [hr]⟩
  have hl : OExemplarArray.len (OPoint.exemplars.get src) = src.exemplars.length := rfl
  obtain ⟨l1, l2⟩ := s2oExLoop src.exemplars _ hb src.exemplars 0 p ms rfl
  rw [hl]
  constructor
  · intro es' hc
    exact ⟨_, by rw [l1 es' hc]; rfl⟩
  · intro x hc
    obtain ⟨m, h', hr⟩ := l2 x hc
    exact ⟨m, h', by rw [hr]; rfl⟩
set_option linter.unusedSimpArgs false
open Stef.Otlp Stef.PointFlowSem Stef.Gen.PointFlow Stef.Proofs.PointFlowGen

/-- `return s.convertExemplars(src, dst.Exemplars())` at the end of a point function -/
theorem res_call_exemplars (src : SPoint) (l : Ref Point (List Exemplar)) (hl : l = objL ⬝ PAnyPoint.exemplars)
    (p : Point) (ms : List KVs) :
    (((call (S2O.convertExemplars src l) : M Point Err Err).run ⟨p, ms⟩).andThen
        fun t h' => (Out.ret t h' : Out Point Err Unit)).res
      = some ((exemplarsToOtlp src.exemplars).toOption.map fun es' => { p with exemplars := p.exemplars ++ es' }) := by
  subst hl
  obtain ⟨hok, herr⟩ := convertExemplars_run src p ms
  rw [run_call]
  cases hc : exemplarsToOtlp src.exemplars with
  | error x =>
    obtain ⟨m, h', hr⟩ := herr x hc
    simp [hr, Out.res, Except.toOption]
  | ok es' =>
    obtain ⟨extra, hr⟩ := hok es' hc
    simp [hr, Out.res, Except.toOption]

theorem toOption_map {ε α β : Type} (f : α → β) (e : Except ε α) : (e.map f).toOption = e.toOption.map f := by
  cases e <;> rfl

theorem convertNumberPoint_eq (t : MType) (ht : t = .gauge ∨ t = .sum) (metric : SMetric) (src : SPoint) (attrs : SAttrs) (ms : List KVs) :
    ((S2O.convertNumberPoint src objL).run ⟨{ attrs := attrs.toOtlp }, ms⟩).res
      = some (pointToOtlp t metric attrs src).toOption := by
  unfold S2O.convertNumberPoint
  have hpt : pointToOtlp t metric attrs src = pointToOtlp .gauge metric attrs src := by
    rcases ht with rfl | rfl <;> rfl
  rw [hpt]
  simp only [pointToOtlp]
  cases hv : src.value
  all_goals
    simp
    pf_sem
    simp [hv, OPointValue.type]
  all_goals (try (rw [res_call_exemplars src _ ?hl]; case hl => rfl))
  all_goals simp [toOption_map, Out.res, Except.toOption]
  all_goals (cases exemplarsToOtlp src.exemplars <;> rfl)

/-- a counting loop without `return` whose round `i` applies `f xs[i]` to the heap -/
theorem forFrom_list {σ ρ τ : Type} (xs : List τ) (body : Nat → M σ ρ Unit) (f : τ → Heap σ → Heap σ)
    (hbody : ∀ (i : Nat) (h : Heap σ) (x : τ), xs[i]? = some x → (body i).run h = .next () (f x h)) :
    ∀ (es : List τ) (i : Nat) (h : Heap σ), xs.drop i = es →
      forFrom es.length i body h = .next () (es.foldl (fun h x => f x h) h)
  | [], i, h, hd => by simp [forFrom]
  | e :: es, i, h, hd => by
    have hei : xs[i]? = some e := by
      have := congrArg List.head? hd
      simpa [List.head?_drop] using this
    have hd' : xs.drop (i + 1) = es := by
      have := congrArg List.tail hd
      simpa [List.tail_drop] using this
    simp only [List.length_cons, forFrom, hbody i h e hei, List.foldl_cons]
    exact forFrom_list xs body f hbody es (i + 1) (f e h) hd'

theorem foldl_buckets (es : List Nat) (h : Heap Point) :
    es.foldl (fun h x => (⟨{ h.obj with buckets := h.obj.buckets ++ [x] }, h.maps⟩ : Heap Point)) h
      = ⟨{ h.obj with buckets := h.obj.buckets ++ es }, h.maps⟩ := by
  induction es generalizing h with
  | nil => simp
  | cons e es ih => simp [ih]

theorem foldl_bounds (es : List Nat) (h : Heap Point) :
    es.foldl (fun h x => (⟨{ h.obj with bounds := h.obj.bounds ++ [x] }, h.maps⟩ : Heap Point)) h
      = ⟨{ h.obj with bounds := h.obj.bounds ++ es }, h.maps⟩ := by
  induction es generalizing h with
  | nil => simp
  | cons e es ih => simp [ih]

theorem convertHistogramPoint_eq (metric : SMetric) (src : SPoint) (attrs : SAttrs) (ms : List KVs)
    (hty : src.value = .none ∨ ∃ h, src.value = .hist h) :
    ((S2O.convertHistogramPoint metric src objL).run ⟨{ attrs := attrs.toOtlp }, ms⟩).res
      = some (pointToOtlp .hist metric attrs src).toOption := by
  unfold S2O.convertHistogramPoint
  simp only [pointToOtlp]
  rcases hty with hv | ⟨hh, hv⟩
  · simp
    pf_sem
    simp [hv, OPointValue.type]
    rw [res_call_exemplars src _ ?hl]
    case hl => rfl
    simp [toOption_map]
  · simp
    pf_sem
    simp [hv, OPointValue.type]
    -- the two copy loops, in whichever order the source has them
    first
      | (rw [forFrom_list hh.buckets _ (fun x h => ⟨{ h.obj with buckets := h.obj.buckets ++ [x] }, h.maps⟩) ?_ hh.buckets 0 _ rfl]
         rotate_left
         · intro i h x hx; simp [hx, PUInt64Slice.append]
         rw [foldl_buckets]
         simp
         rw [forFrom_list metric.bounds _ (fun x h => ⟨{ h.obj with bounds := h.obj.bounds ++ [x] }, h.maps⟩) ?_ metric.bounds 0 _ rfl]
         rotate_left
         · intro i h x hx; simp [hx, PFloat64Slice.append]
         rw [foldl_bounds])
      | (rw [forFrom_list metric.bounds _ (fun x h => ⟨{ h.obj with bounds := h.obj.bounds ++ [x] }, h.maps⟩) ?_ metric.bounds 0 _ rfl]
         rotate_left
         · intro i h x hx; simp [hx, PFloat64Slice.append]
         rw [foldl_bounds]
         simp
         rw [forFrom_list hh.buckets _ (fun x h => ⟨{ h.obj with buckets := h.obj.buckets ++ [x] }, h.maps⟩) ?_ hh.buckets 0 _ rfl]
         rotate_left
         · intro i h x hx; simp [hx, PUInt64Slice.append]
         rw [foldl_buckets])
    cases hs : hh.sum <;> cases hm : hh.min <;> cases hx : hh.max
    all_goals
      simp
      rw [res_call_exemplars src _ ?hl]
      case hl => rfl
      simp [toOption_map]

/-- the Go function does not look at the value type: on a record whose point value is not a histogram
    (nor None) it returns nil and a point made of the blank alternative, where the hand model says
    "value-type-mismatch". Such records are not produced by the converters. -/
theorem convertHistogramPoint_type_mismatch (metric : SMetric) (ms : List KVs) :
    ((S2O.convertHistogramPoint metric { value := .int 7 } objL).run ⟨{}, ms⟩).res
        = some (some { bounds := metric.bounds }) ∧
      (pointToOtlp .hist metric {} { value := .int 7 }).toOption = none := by
  refine ⟨?_, rfl⟩
  unfold S2O.convertHistogramPoint
  simp
  pf_sem
  simp [OPointValue.type, forFrom]
  rw [forFrom_list metric.bounds _ (fun x h => ⟨{ h.obj with bounds := h.obj.bounds ++ [x] }, h.maps⟩) ?hb metric.bounds 0 _ rfl]
  case hb => intro i h x hx; simp [hx, PFloat64Slice.append]
  rw [foldl_bounds]
  simp
  rw [res_call_exemplars _ _ ?hl]
  case hl => rfl
  simp [SPoint.exemplars, exemplarsToOtlp, Except.toOption]

theorem foldl_pos (es : List Nat) (h : Heap Point) :
    es.foldl (fun h x => (⟨{ h.obj with pos := h.obj.pos ++ [x] }, h.maps⟩ : Heap Point)) h
      = ⟨{ h.obj with pos := h.obj.pos ++ es }, h.maps⟩ := by
  induction es generalizing h with
  | nil => simp
  | cons e es ih => simp [ih]

theorem foldl_neg (es : List Nat) (h : Heap Point) :
    es.foldl (fun h x => (⟨{ h.obj with neg := h.obj.neg ++ [x] }, h.maps⟩ : Heap Point)) h
      = ⟨{ h.obj with neg := h.obj.neg ++ es }, h.maps⟩ := by
  induction es generalizing h with
  | nil => simp
  | cons e es ih => simp [ih]

theorem expBucketsFromStef_pos (src : SBuckets) (l : Ref Point PBuckets)
    (hl : l = objL ⬝ PExponentialHistogramDataPoint.positive) (h : Heap Point) :
    (S2O.expBucketsFromStef l src).run h
      = .next () ⟨{ h.obj with posOff := trunc32 src.offset, pos := h.obj.pos ++ src.counts }, h.maps⟩ := by
  subst hl
  unfold S2O.expBucketsFromStef
  simp
  pf_sem
  rw [forFrom_list src.counts _ (fun x h => ⟨{ h.obj with pos := h.obj.pos ++ [x] }, h.maps⟩) ?hb src.counts 0 _ rfl]
  case hb => intro i h x hx; simp [hx, PUInt64Slice.append]
  rw [foldl_pos]

theorem expBucketsFromStef_neg (src : SBuckets) (l : Ref Point PBuckets)
    (hl : l = objL ⬝ PExponentialHistogramDataPoint.negative) (h : Heap Point) :
    (S2O.expBucketsFromStef l src).run h
      = .next () ⟨{ h.obj with negOff := trunc32 src.offset, neg := h.obj.neg ++ src.counts }, h.maps⟩ := by
  subst hl
  unfold S2O.expBucketsFromStef
  simp
  pf_sem
  rw [forFrom_list src.counts _ (fun x h => ⟨{ h.obj with neg := h.obj.neg ++ [x] }, h.maps⟩) ?hb src.counts 0 _ rfl]
  case hb => intro i h x hx; simp [hx, PUInt64Slice.append]
  rw [foldl_neg]

theorem convertExpHistogramPoint_eq (metric : SMetric) (src : SPoint) (attrs : SAttrs) (ms : List KVs)
    (hty : src.value = .none ∨ ∃ e, src.value = .exp e) :
    ((S2O.convertExpHistogramPoint src objL).run ⟨{ attrs := attrs.toOtlp }, ms⟩).res
      = some (pointToOtlp .exp metric attrs src).toOption := by
  unfold S2O.convertExpHistogramPoint
  simp only [pointToOtlp]
  rcases hty with hv | ⟨ee, hv⟩
  · simp
    pf_sem
    simp [hv, OPointValue.type]
    rw [res_call_exemplars src _ ?hl]
    case hl => rfl
    simp [toOption_map]
  · simp
    pf_sem
    simp [hv, OPointValue.type]
    rw [expBucketsFromStef_pos _ _ ?hl]
    case hl => rfl
    simp
    rw [expBucketsFromStef_neg _ _ ?hl]
    case hl => rfl
    cases hs : ee.sum <;> cases hm : ee.min <;> cases hx : ee.max
    all_goals
      simp
      rw [res_call_exemplars src _ ?hl]
      case hl => rfl
      simp [toOption_map]

theorem foldl_quantiles (es : List (Nat × Nat)) (h : Heap Point) :
    es.foldl (fun h x => (⟨{ h.obj with quantiles := h.obj.quantiles ++ [x] }, h.maps⟩ : Heap Point)) h
      = ⟨{ h.obj with quantiles := h.obj.quantiles ++ es }, h.maps⟩ := by
  induction es generalizing h with
  | nil => simp
  | cons e es ih => simp [ih]

theorem quantilesFromStef_run (src : List (Nat × Nat)) (l : Ref Point (List (Nat × Nat)))
    (hl : l = objL ⬝ PSummaryDataPoint.quantileValues) (h : Heap Point) :
    (S2O.quantilesFromStef l src).run h
      = .next () ⟨{ h.obj with quantiles := h.obj.quantiles ++ src }, h.maps⟩ := by
  subst hl
  unfold S2O.quantilesFromStef
  simp
  pf_sem
  rw [forFrom_list src _ (fun x h => ⟨{ h.obj with quantiles := h.obj.quantiles ++ [x] }, h.maps⟩) ?hb src 0 _ rfl]
  case hb =>
    intro i h x hx
    simp [hx, Lens.comp, atL, PSummaryDataPointValueAtQuantile.setQuantile, PSummaryDataPointValueAtQuantile.setValue,
      set_append_last, getElem?_append_last, List.getD_eq_getElem?_getD]
  rw [foldl_quantiles]

theorem convertSumaryPoint_eq (metric : SMetric) (src : SPoint) (attrs : SAttrs) (ms : List KVs)
    (hty : src.value = .none ∨ ∃ s, src.value = .summary s) :
    ((S2O.convertSumaryPoint src objL).run ⟨{ attrs := attrs.toOtlp }, ms⟩).res
      = some (pointToOtlp .summary metric attrs src).toOption := by
  unfold S2O.convertSumaryPoint
  simp only [pointToOtlp]
  rcases hty with hv | ⟨ss, hv⟩
  · simp
    pf_sem
    simp [hv, OPointValue.type, Out.res, Except.toOption]
  · simp
    pf_sem
    simp [hv, OPointValue.type]
    rw [quantilesFromStef_run _ _ ?hl]
    case hl => rfl
    simp [Out.res, Except.toOption]

theorem aggregationTemporalityToOtlp_eq (t : Nat) (h : Heap Unit) :
    (S2O.aggregationTemporalityToOtlp t).run h
      = .ret (if t ≤ 2 then (t, none) else (0, some "unexpected aggregation temporality %d")) h := by
  unfold S2O.aggregationTemporalityToOtlp
  rcases t with _ | _ | _ | n <;> simp <;> pf_sem <;> simp

end Stef.Proofs.PointFlowGen
