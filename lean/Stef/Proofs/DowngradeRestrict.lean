/-
  Stef.Proofs.DowngradeRestrict: the A view of B's values and marks (what a B writer that is asked to
  write in schema A actually looks at).

  `restrict A ty v`: the value `v` of B cut down to A's definition of `ty` - struct fields beyond
  A's field count dropped, the presence bits of optional fields beyond A's dropped, a oneof whose
  alternative is beyond A's alternatives read as none (harness: hgenlib.restrictNode).
  `restrictMk A ty v mk`: the marks cut down in step - the modified mask of a struct keeps the bits
  of A's fields only (Go: `fieldMask &= e.keepFieldMask`).
-/
import Stef.Proofs.ForwardTree
import Stef.SpecEnc

namespace Stef.Proofs.Downgrade
open Stef Stef.Spec Stef.Proofs.Override Stef.Proofs.Forward
open Stef.SpecEnc (Mk)

/-- number of optional fields among `fs` -/
def optCountOf (fs : List Field) : Nat := (fs.filter (·.optional)).length

mutual
def restrict (A : Schema) : Ty → St → St
  | .ref n, .struct p fs =>
    match A.find n with
    | some (.struct _ fa) => .struct (p % 2 ^ optCountOf fa) (restrictFields A fa fs)
    | _ => .struct p fs
  | .ref n, .oneof t val =>
    match A.find n with
    | some (.oneof fa) =>
      match fa[t - 1]? with
      | some fd => if t = 0 then .oneof 0 none else .oneof t (restrictOpt A fd.ty val)
      | none => .oneof 0 none
    | _ => .oneof t val
  | .ref n, .mmap ps =>
    match A.find n with
    | some (.mmap k v) => .mmap (restrictPairs A k v ps)
    | _ => .mmap ps
  | .arr e, .arr es => .arr (restrictList A e es)
  | _, v => v
def restrictFields (A : Schema) : List Field → List St → List St
  | fd :: fa, v :: vs => restrict A fd.ty v :: restrictFields A fa vs
  | _, _ => []
def restrictOpt (A : Schema) : Ty → Option St → Option St
  | ty, some v => some (restrict A ty v)
  | _, none => none
def restrictList (A : Schema) : Ty → List St → List St
  | ty, v :: vs => restrict A ty v :: restrictList A ty vs
  | _, [] => []
def restrictPairs (A : Schema) : Ty → Ty → List (St × St) → List (St × St)
  | k, v, (a, b) :: ps => (restrict A k a, restrict A v b) :: restrictPairs A k v ps
  | _, _, [] => []
end

mutual
def restrictMk (A : Schema) : Ty → St → Mk → Mk
  | .ref n, v, .struct mask subs =>
    match A.find n with
    | some (.struct _ fa) => .struct (mask % 2 ^ fa.length) (restrictMkFields A fa (Forward.structFields v) subs)
    | _ => .struct mask subs
  | .ref n, v, .oneof sub =>
    match A.find n, v with
    | some (.oneof fa), .oneof t (some x) =>
      match fa[t - 1]? with
      | some fd => .oneof (restrictMk A fd.ty x sub)
      | none => .oneof sub
    | _, _ => .oneof sub
  | .arr e, v, .arr subs => .arr (restrictMkList A e (Forward.arrElems v) subs)
  | .ref n, v, .mmapFull subs =>
    match A.find n with
    | some (.mmap k vt) => .mmapFull (restrictMkPairs A k vt (Forward.mmapPairs v) subs)
    | _ => .mmapFull subs
  | .ref n, v, .mmapVals changed subs =>
    match A.find n with
    | some (.mmap _ vt) => .mmapVals changed (restrictMkList A vt ((Forward.mmapPairs v).map (·.2)) subs)
    | _ => .mmapVals changed subs
  | _, _, mk => mk
def restrictMkFields (A : Schema) : List Field → List St → List Mk → List Mk
  | fd :: fa, vs, m :: ms => restrictMk A fd.ty (vs.headD (.oneof 0 none)) m :: restrictMkFields A fa vs.tail ms
  | _, _, _ => []
def restrictMkList (A : Schema) : Ty → List St → List Mk → List Mk
  | ty, vs, m :: ms => restrictMk A ty (vs.headD (.oneof 0 none)) m :: restrictMkList A ty vs.tail ms
  | _, _, [] => []
def restrictMkPairs (A : Schema) : Ty → Ty → List (St × St) → List (Mk × Mk) → List (Mk × Mk)
  | k, v, ps, (a, b) :: ms =>
    (restrictMk A k (ps.headD (.oneof 0 none, .oneof 0 none)).1 a, restrictMk A v (ps.headD (.oneof 0 none, .oneof 0 none)).2 b) ::
      restrictMkPairs A k v ps.tail ms
  | _, _, _, [] => []
end

/-- a record of B (value and marks) as the downgrading writer sees it -/
def restrictRec (A : Schema) (root : String) (r : St × Mk) : St × Mk :=
  (restrict A (.ref root) r.1, restrictMk A (.ref root) r.1 r.2)

def restrictIns (A : Schema) (root : String) (ins : List SpecEnc.FrameIn) : List SpecEnc.FrameIn :=
  ins.map (fun fr => { fr with recs := fr.recs.map (restrictRec A root) })

/-! ## the Go-style masking is this projection -/

/-- Go: `keepFieldMask = ^(^uint64(0) << fieldCount)` -/
def keepFieldMask (fieldCount : Nat) : Nat := 2 ^ fieldCount - 1

theorem mask_and_keep (mask k : Nat) : mask &&& keepFieldMask k = mask % 2 ^ k :=
  Nat.and_two_pow_sub_one_eq_mod mask k

theorem keepFieldMask_go : ∀ k, k ≤ 64 → (~~~((BitVec.allOnes 64) <<< k)).toNat = keepFieldMask k := by
  decide

/-! ## sanity: what `restrict` does -/

theorem restrict_struct (A : Schema) (n : String) (d : Option String) (fa : List Field) (p : Nat) (fs : List St)
    (h : A.find n = some (.struct d fa)) :
    restrict A (.ref n) (.struct p fs) = .struct (p % 2 ^ optCountOf fa) (restrictFields A fa fs) := by
  rw [restrict, h]

/-- the presence bits of a restricted struct fit A's optional-field count (the Go encoder writes
    `optionalFieldsPresent & ^(^0 << optionalFieldCount)`), its fields are at most A's -/
theorem restrict_struct_fits (fa : List Field) (p : Nat) :
    p % 2 ^ optCountOf fa < 2 ^ optCountOf fa := Nat.mod_lt _ (Nat.two_pow_pos _)

theorem restrictFields_length (A : Schema) : ∀ (fa : List Field) (fs : List St),
    (restrictFields A fa fs).length = min fa.length fs.length
  | [], fs => by cases fs <;> simp [restrictFields]
  | _ :: _, [] => by simp [restrictFields]
  | fd :: fa, v :: vs => by simp [restrictFields, restrictFields_length A fa vs]

/-- a oneof whose alternative is beyond A's alternatives is read as none (Go: `if uint(typ) >
    e.fieldCount { typ = None }`) -/
theorem restrict_oneof_beyond (A : Schema) (n : String) (fa : List Field) (t : Nat) (val : Option St)
    (h : A.find n = some (.oneof fa)) (ht : t > fa.length) :
    restrict A (.ref n) (.oneof t val) = .oneof 0 none := by
  rw [restrict, h]
  have : fa[t - 1]? = none := by
    rw [List.getElem?_eq_none_iff]; omega
  simp [this]

theorem restrict_oneof_within (A : Schema) (n : String) (fa : List Field) (t : Nat) (v : St) (fd : Field)
    (h : A.find n = some (.oneof fa)) (ht : t ≠ 0) (hfd : fa[t - 1]? = some fd) :
    restrict A (.ref n) (.oneof t (some v)) = .oneof t (some (restrict A fd.ty v)) := by
  rw [restrict, h]
  simp [hfd, ht, restrictOpt]

theorem restrict_none (A : Schema) (ty : Ty) : restrict A ty (.oneof 0 none) = .oneof 0 none := by
  cases ty with
  | prim p d => rfl
  | arr e => rfl
  | ref n =>
    rw [restrict]
    cases A.find n with
    | none => rfl
    | some d =>
      cases d with
      | struct _ _ => rfl
      | mmap _ _ => rfl
      | oneof fa =>
        simp only
        cases fa[0 - 1]? <;> simp

theorem restrict_prim (A : Schema) (p : Prim) (d : Option String) (v : St) : restrict A (.prim p d) v = v := by
  cases v <;> rfl

/-- a new B value restricts to the new A value -/
theorem restrict_init {A B : Schema} (hAB : SchemaLe A B) (hC : Closed A) :
    ∀ (f : Nat) (ty : Ty), TyClosed A ty → restrict A ty (initSt B f ty) = initSt A f ty := by
  intro f
  induction f with
  | zero =>
    intro ty _
    rw [initSt_zero, initSt_zero, restrict_none]
  | succ f ih =>
    intro ty hty
    cases ty with
    | prim p d => rw [initSt_prim, initSt_prim, restrict_prim]
    | arr e =>
      rw [initSt_arr, initSt_arr]
      rfl
    | ref n =>
      obtain ⟨dA, hfA⟩ := hty
      obtain ⟨dB, hfB, hle⟩ := hAB n dA hfA
      rw [initSt_ref, initSt_ref, hfA, hfB]
      cases dA with
      | struct d fa =>
        cases dB with
        | struct d' fb =>
          obtain ⟨_, ex, hex⟩ := hle
          subst hex
          simp only
          rw [restrict_struct A n d fa _ _ hfA]
          have hfields : ∀ (l : List Field), (∀ fd ∈ l, TyClosed A fd.ty) → ∀ ex' : List St,
              restrictFields A l (l.map (fieldInit B f) ++ ex') = l.map (fieldInit A f) := by
            intro l
            induction l with
            | nil => intro _ ex'; cases ex' <;> simp [restrictFields]
            | cons fd l ihl =>
              intro hl ex'
              simp only [List.map_cons, List.cons_append, restrictFields]
              rw [ihl (fun x hx => hl x (List.mem_cons_of_mem _ hx))]
              congr 1
              have hfd := hl fd List.mem_cons_self
              obtain ⟨nm, opt, fty⟩ := fd
              simp only [fieldInit]
              cases opt with
              | false => exact ih fty hfd
              | true =>
                cases fty with
                | prim p dd => exact ih _ hfd
                | arr e => rfl
                | ref m => exact restrict_none A _
          rw [List.map_append, hfields fa (hC n _ hfA)]
          simp
        | oneof _ => exact absurd hle (by simp [DefLe])
        | mmap _ _ => exact absurd hle (by simp [DefLe])
      | oneof fa =>
        cases dB with
        | oneof fb => exact restrict_none A _
        | struct _ _ => exact absurd hle (by simp [DefLe])
        | mmap _ _ => exact absurd hle (by simp [DefLe])
      | mmap k v =>
        cases dB with
        | mmap k' v' =>
          simp only
          rw [restrict, hfA]
          rfl
        | struct _ _ => exact absurd hle (by simp [DefLe])
        | oneof _ => exact absurd hle (by simp [DefLe])

end Stef.Proofs.Downgrade
