import Stef.Proofs.Alloc
import Stef.Gen.Budget

/-!
  The reader's allocation budget is a budget PER RECORD: the generated `Reader.Read` calls
  `allocSizeChecker.ResetAllocSize()` before it decodes a record (regenerated fact
  `Gen.readResetsBudgetBeforeDecode`, extracted from the checked-in generated readers), and the
  decoders of one record then ask for their growths in order (`Alloc.grant`). `readRecords` is that
  loop; a record is the list of its allocation requests.
-/
namespace Stef.Alloc

theorem prep_grants (a : Checker) (size : Nat) (h : a.allocatedSize + size ≤ Gen.recordAllocLimit) :
    (a.prepAllocSize size).2 = false ∧ (a.prepAllocSize size).1.allocatedSize = a.allocatedSize + size := by
  have hl := limit_lt
  have hlt : a.allocatedSize + size < 2 ^ 64 := by omega
  unfold Checker.prepAllocSize add64
  simp only [Nat.div_eq_of_lt hlt, ne_eq, not_true_eq_false, ↓reduceIte, Nat.mod_eq_of_lt hlt,
    Checker.isOverLimit, decide_eq_false_iff_not, Nat.not_lt]
  exact ⟨h, trivial⟩

theorem prepN_grants (a : Checker) (size count : Nat)
    (h : a.allocatedSize + size * count ≤ Gen.recordAllocLimit) :
    (a.prepAllocSizeN size count).2 = false ∧
    (a.prepAllocSizeN size count).1.allocatedSize = a.allocatedSize + size * count := by
  have hl := limit_lt
  have hm : size * count < 2 ^ 64 := by omega
  have hlt : a.allocatedSize + size * count < 2 ^ 64 := by omega
  unfold Checker.prepAllocSizeN mul64 add64
  simp only [Nat.div_eq_of_lt hm, ne_eq, not_true_eq_false, ↓reduceIte, Nat.mod_eq_of_lt hm,
    Nat.div_eq_of_lt hlt, Nat.mod_eq_of_lt hlt, Checker.isOverLimit, decide_eq_false_iff_not, Nat.not_lt]
  exact ⟨h, trivial⟩

/-- completeness of the accounting: requests whose total fits into what is left of the budget are
    all granted. -/
theorem grant_complete (reqs : List Req) (a : Checker)
    (h : a.allocatedSize + (reqs.map Req.bytes).sum ≤ Gen.recordAllocLimit) :
    (grant a reqs).2 = false := by
  induction reqs generalizing a with
  | nil => simp [grant]
  | cons r rest ih =>
    simp only [List.map_cons, List.sum_cons] at h
    cases r with
    | one s =>
      simp only [Req.bytes] at h
      obtain ⟨h1, h2⟩ := prep_grants a s (by omega)
      simp only [grant, h1, Bool.false_eq_true, ↓reduceIte]
      exact ih _ (by rw [h2]; omega)
    | many s c =>
      simp only [Req.bytes] at h
      obtain ⟨h1, h2⟩ := prepN_grants a s c (by omega)
      simp only [grant, h1, Bool.false_eq_true, ↓reduceIte]
      exact ih _ (by rw [h2]; omega)

/-- the reader's loop: before each record the budget is reset iff `resetBefore`; the number of
    records decoded before the first refusal. -/
def readRecords (resetBefore : Bool) (a : Checker) : List (List Req) → Nat
  | [] => 0
  | r :: rest =>
    let a0 := if resetBefore then a.reset else a
    if (grant a0 r).2 then 0 else 1 + readRecords resetBefore (grant a0 r).1 rest

theorem readRecords_all (recs : List (List Req)) (a : Checker)
    (h : ∀ r ∈ recs, (r.map Req.bytes).sum ≤ Gen.recordAllocLimit) :
    readRecords true a recs = recs.length := by
  induction recs generalizing a with
  | nil => rfl
  | cons r rest ih =>
    have hr := h r (by simp)
    have hg : (grant a.reset r).2 = false :=
      grant_complete r a.reset (by simpa [Checker.reset] using hr)
    simp only [readRecords, ↓reduceIte, hg, Bool.false_eq_true, List.length_cons]
    rw [ih _ (fun r' hr' => h r' (by simp [hr']))]
    omega

end Stef.Alloc
